#!/bin/sh
# Build the framework from files on disk only (offline): Lean project (models, proofs, driver) and the Go harness.
set -e
cd "$(dirname "$0")"
export GOFLAGS=-mod=mod GOPROXY=off
unset GOTOOLCHAIN GOSUMDB || true
mkdir -p .build evidence replays
python3 tools/genglue.py
cp /repo/go.sum go/go.sum
(cd go && go build -tags verif -o ../.build/zvharness ./cmd/zvharness)
if [ -d go/cmd/zvextract ]; then
  (cd go && go build -tags verif -o ../.build/zvextract ./cmd/zvextract)
  tmp=$(mktemp -d); ./.build/zvextract /repo "$tmp"; mkdir -p lean/ZV/Generated
  for f in "$tmp"/*.lean; do [ -e "$f" ] && cp "$f" lean/ZV/Generated/; done; rm -rf "$tmp"
fi
(cd lean && lake build ZV zvdriver)
echo setup-ok
