import ZV.Proofs.Der0
/-! base-128 sub-identifiers and OBJECT IDENTIFIER bodies. -/
open ZV ZV.Der0
namespace ZV.Der0

/-- specification of the minimal base-128 encoding, least-significant-group recursion:
    all groups but the last carry the continuation bit. -/
def hi128 (m : Nat) : Bytes :=
  if h : m = 0 then [] else hi128 (m / 128) ++ [UInt8.ofNat (m % 128 + 128)]
decreasing_by omega

theorem hi128_zero : hi128 0 = [] := by rw [hi128]; simp
theorem hi128_step {m : Nat} (h : m ≠ 0) :
    hi128 m = hi128 (m / 128) ++ [UInt8.ofNat (m % 128 + 128)] := by rw [hi128]; simp [h]

/-- `k` flagged groups of `m`, most significant first -/
def H128 (m : Nat) : Nat → Bytes
  | 0 => []
  | k + 1 => UInt8.ofNat ((m / 128 ^ k) % 128 + 128) :: H128 m k

theorem H128_snoc (m k : Nat) :
    H128 m (k + 1) = H128 (m / 128) k ++ [UInt8.ofNat (m % 128 + 128)] := by
  induction k with
  | zero => simp [H128]
  | succ k ih =>
    rw [H128, ih]
    simp only [H128, List.cons_append]
    congr 3
    rw [Nat.div_div_eq_div_mul, Nat.pow_succ, Nat.mul_comm]

theorem b128Groups_snoc (n k : Nat) :
    b128Groups n (k + 1) = H128 (n / 128) k ++ [UInt8.ofNat (n % 128)] := by
  induction k with
  | zero => simp [b128Groups, H128]
  | succ k ih =>
    rw [b128Groups, ih]
    simp only [H128, List.cons_append, Nat.succ_ne_zero, if_false]
    congr 3
    rw [Nat.div_div_eq_div_mul, Nat.pow_succ, Nat.mul_comm]

theorem b128Count_zero : b128Count 0 = 0 := by rw [b128Count]; simp
theorem b128Count_step {n : Nat} (h : n ≠ 0) : b128Count n = b128Count (n / 128) + 1 := by
  rw [b128Count]; simp [h]

theorem H128_count (m : Nat) : H128 m (b128Count m) = hi128 m := by
  induction m using Nat.strongRecOn with
  | _ m ih =>
    by_cases h : m = 0
    · subst h; simp [b128Count_zero, H128, hi128_zero]
    · rw [b128Count_step h, H128_snoc, ih (m / 128) (by omega), ← hi128_step h]

theorem b128Len_eq (n : Nat) : b128Len n = b128Count (n / 128) + 1 := by
  unfold b128Len
  by_cases h : n = 0
  · subst h; simp [b128Count_zero]
  · simp [h, b128Count_step h]

/-- the Go loop (most significant group first) computes the minimal encoding -/
theorem appendBase128_eq (n : Nat) : appendBase128 n = hi128 (n / 128) ++ [UInt8.ofNat (n % 128)] := by
  unfold appendBase128
  rw [b128Len_eq, b128Groups_snoc, H128_count]

/-- loop invariant shared by both base-128 readers: `hi128 acc` are the groups read so far. -/
theorem EA.b128Loop_canon (bs : Bytes) (s acc : Nat) (v : Nat) (rest : Bytes)
    (h0 : s = 0 → acc = 0) (h1 : s ≠ 0 → acc ≠ 0)
    (h : EA.b128Loop bs s acc = .ok (v, rest)) :
    ∃ pre, bs = pre ++ rest ∧ pre ≠ [] ∧ hi128 acc ++ pre = appendBase128 v := by
  induction bs generalizing s acc with
  | nil => simp [EA.b128Loop] at h
  | cons b t ih =>
    have hb := toNat_lt b
    simp only [EA.b128Loop] at h
    split at h
    · simp at h
    · split at h
      · simp at h
      · rename_i hs5 hmin
        split at h
        · rename_i hlow
          split at h
          · simp at h
          · simp only [Res.ok.injEq, Prod.mk.injEq] at h
            obtain ⟨hv, hr⟩ := h
            refine ⟨[b], by simp [hr], by simp, ?_⟩
            rw [← hv, appendBase128_eq]
            have e1 : (acc * 128 + b.toNat % 128) / 128 = acc := by omega
            have e2 : (acc * 128 + b.toNat % 128) % 128 = b.toNat := by omega
            rw [e1, e2, UInt8.ofNat_toNat]
        · rename_i hhigh
          have hacc' : acc * 128 + b.toNat % 128 ≠ 0 := by
            by_cases hs : s = 0
            · have : b ≠ 0x80 := fun hb80 => hmin ⟨hs, hb80⟩
              have : b.toNat ≠ 128 := fun h128 => this (eq_of_toNat (by simpa using h128))
              omega
            · have := h1 hs; omega
          obtain ⟨pre, hpre, _, henc⟩ := ih (s + 1) (acc * 128 + b.toNat % 128) (by omega) (fun _ => hacc') h
          refine ⟨b :: pre, by simp [hpre], by simp, ?_⟩
          rw [← henc, hi128_step hacc']
          have e1 : (acc * 128 + b.toNat % 128) / 128 = acc := by omega
          have e2 : (acc * 128 + b.toNat % 128) % 128 + 128 = b.toNat := by omega
          rw [e1, e2, UInt8.ofNat_toNat]; simp

theorem CB.b128Loop_canon (bs : Bytes) (s acc : Nat) (v : Nat) (rest : Bytes)
    (h0 : s = 0 → acc = 0) (h1 : s ≠ 0 → acc ≠ 0)
    (h : CB.b128Loop bs s acc = .ok (v, rest)) :
    ∃ pre, bs = pre ++ rest ∧ pre ≠ [] ∧ hi128 acc ++ pre = appendBase128 v := by
  induction bs generalizing s acc with
  | nil => simp [CB.b128Loop] at h
  | cons b t ih =>
    have hb := toNat_lt b
    simp only [CB.b128Loop] at h
    split at h
    · simp at h
    · split at h
      · simp at h
      · split at h
        · simp at h
        · rename_i hs5 hbig hmin
          split at h
          · rename_i hlow
            simp only [Res.ok.injEq, Prod.mk.injEq] at h
            obtain ⟨hv, hr⟩ := h
            refine ⟨[b], by simp [hr], by simp, ?_⟩
            rw [← hv, appendBase128_eq]
            have e1 : (acc * 128 + b.toNat % 128) / 128 = acc := by omega
            have e2 : (acc * 128 + b.toNat % 128) % 128 = b.toNat := by omega
            rw [e1, e2, UInt8.ofNat_toNat]
          · rename_i hhigh
            have hacc' : acc * 128 + b.toNat % 128 ≠ 0 := by
              by_cases hs : s = 0
              · have : b ≠ 0x80 := fun hb80 => hmin ⟨hs, hb80⟩
                have : b.toNat ≠ 128 := fun h128 => this (eq_of_toNat (by simpa using h128))
                omega
              · have := h1 hs; omega
            obtain ⟨pre, hpre, _, henc⟩ := ih (s + 1) (acc * 128 + b.toNat % 128) (by omega) (fun _ => hacc') h
            refine ⟨b :: pre, by simp [hpre], by simp, ?_⟩
            rw [← henc, hi128_step hacc']
            have e1 : (acc * 128 + b.toNat % 128) / 128 = acc := by omega
            have e2 : (acc * 128 + b.toNat % 128) % 128 + 128 = b.toNat := by omega
            rw [e1, e2, UInt8.ofNat_toNat]; simp

theorem EA.parseBase128Int_canon {bs : Bytes} {v : Nat} {rest : Bytes}
    (h : EA.parseBase128Int bs = .ok (v, rest)) :
    ∃ pre, bs = pre ++ rest ∧ pre ≠ [] ∧ appendBase128 v = pre := by
  obtain ⟨pre, h1, h2, h3⟩ := EA.b128Loop_canon bs 0 0 v rest (fun _ => rfl) (fun h => absurd rfl h) h
  exact ⟨pre, h1, h2, by simpa [hi128_zero] using h3.symm⟩

theorem CB.readBase128Int_canon {bs : Bytes} {v : Nat} {rest : Bytes}
    (h : CB.readBase128Int bs = .ok (v, rest)) :
    ∃ pre, bs = pre ++ rest ∧ pre ≠ [] ∧ appendBase128 v = pre := by
  obtain ⟨pre, h1, h2, h3⟩ := CB.b128Loop_canon bs 0 0 v rest (fun _ => rfl) (fun h => absurd rfl h) h
  exact ⟨pre, h1, h2, by simpa [hi128_zero] using h3.symm⟩

/-! ### OID bodies -/
theorem EA.oidArcs_canon (fuel : Nat) (bs : Bytes) (vs : List Nat)
    (h : EA.oidArcs fuel bs = .ok vs) : (vs.map appendBase128).flatten = bs := by
  induction fuel generalizing bs vs with
  | zero =>
    cases bs with
    | nil => simp [EA.oidArcs] at h; subst h; rfl
    | cons b t => simp [EA.oidArcs] at h
  | succ f ih =>
    cases bs with
    | nil => simp [EA.oidArcs] at h; subst h; rfl
    | cons b t =>
      simp only [EA.oidArcs] at h
      split at h
      · rename_i v rest hp
        split at h
        · rename_i ws hw
          simp only [Res.ok.injEq] at h
          obtain ⟨pre, h1, _, h3⟩ := EA.parseBase128Int_canon hp
          subst h
          simp [h3, ih rest ws hw, h1]
        · simp at h
        · simp at h
      · simp at h
      · simp at h

theorem CB.oidArcs_canon (fuel : Nat) (bs : Bytes) (vs : List Nat)
    (h : CB.oidArcs fuel bs = .ok vs) : (vs.map appendBase128).flatten = bs := by
  induction fuel generalizing bs vs with
  | zero =>
    cases bs with
    | nil => simp [CB.oidArcs] at h; subst h; rfl
    | cons b t => simp [CB.oidArcs] at h
  | succ f ih =>
    cases bs with
    | nil => simp [CB.oidArcs] at h; subst h; rfl
    | cons b t =>
      simp only [CB.oidArcs] at h
      split at h
      · rename_i v rest hp
        split at h
        · rename_i ws hw
          simp only [Res.ok.injEq] at h
          obtain ⟨pre, h1, _, h3⟩ := CB.readBase128Int_canon hp
          subst h
          simp [h3, ih rest ws hw, h1]
        · simp at h
        · simp at h
      · simp at h
      · simp at h

theorem splitFirst_spec (v : Nat) :
    ∃ a b, splitFirst v = [a, b] ∧ a * 40 + b = v ∧ a ≤ 2 ∧ (a < 2 → b < 40) := by
  unfold splitFirst
  split
  · exact ⟨v / 40, v % 40, rfl, by omega, by omega, by omega⟩
  · exact ⟨2, v - 80, rfl, by omega, by omega, by omega⟩

end ZV.Der0
