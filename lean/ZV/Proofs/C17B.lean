import ZV.Model.C17
import ZV.Proofs.C17
/-! Helper lemmas for the BOUNDED model of C17 (`BSt`, `bstep`): simulation by the unbounded model,
    invariant, progress, measure (core Lean only). -/
namespace ZV.C17

/-- the unbounded state with `q` appended to the not-yet-taken ranges -/
def addQ (q : List Job) (st : St) : St := { st with pending := st.pending ++ q }

theorem babs_eq (b : BSt) : babs b = addQ b.queue b.st := rfl

theorem stepF_addQ (q : List Job) (i : Nat) (st : St)
    (h : st.fs[i]? = some .idle → st.pending = [] → q = []) :
    stepF i (addQ q st) = addQ q (stepF i st) := by
  unfold stepF
  simp only [addQ]
  split
  · rfl
  · rfl
  · rename_i hi
    cases hp : st.pending with
    | nil =>
      have hq := h hi hp
      subst hq
      simp
    | cons j rest => simp
  · split
    · rfl
    · split <;> rfl
  · split
    · split <;> rfl
    · rfl

theorem stepM_addQ (q : List Job) (j : Nat) (st : St) : stepM j (addQ q st) = addQ q (stepM j st) := by
  unfold stepM
  simp only [addQ]
  split
  · rfl
  · rfl
  · split
    · rfl
    · by_cases h : allDone st.fs = true <;> simp [h]

theorem stepF_ms (i : Nat) (st : St) : (stepF i st).ms = st.ms := by
  unfold stepF
  repeat' split
  all_goals rfl

theorem stepM_fs (j : Nat) (st : St) : (stepM j st).fs = st.fs := by
  unfold stepM
  repeat' split
  all_goals rfl

theorem stepF_allDone (i : Nat) (st : St) (h : allDone st.fs = true) : stepF i st = st := by
  have hd : enabled (.f i) st = false := by
    simp only [enabled]
    cases hi : st.fs[i]? with
    | none => rfl
    | some f => have := allDone_get h hi; subst this; rfl
  exact step_disabled (.f i) st hd

theorem stepM_allReturned (j : Nat) (st : St) (h : st.ms.all (fun x => x) = true) : stepM j st = st := by
  have hd : enabled (.m j) st = false := by
    simp only [enabled]
    cases hj : st.ms[j]? with
    | none => rfl
    | some v =>
      have hv : v = true := (List.all_eq_true.mp h) v (mem_of_getElem? hj)
      subst hv; rfl
  exact step_disabled (.m j) st hd

/-- invariant of the bounded model -/
structure BInv (b : BSt) : Prop where
  wf : WF (babs b)
  qe : b.pc ≠ .feed → b.queue = []
  fd : b.pc = .waitM ∨ b.pc = .ret → allDone b.st.fs = true
  md : b.pc = .ret → b.st.ms.all (fun x => x) = true

/-! ### each bounded step is a step of the unbounded model, or invisible there -/

theorem bstepMain_babs (b : BSt) : babs (bstepMain b) = babs b := by
  unfold bstepMain
  split
  · split
    · rename_i j rest hq
      split
      · simp [babs, hq]
      · rfl
    · rename_i hq
      simp [babs, hq]
  · split <;> rfl
  · split <;> rfl
  · rfl

theorem bstepF_cases (i : Nat) (b : BSt) :
    bstepF i b = b ∨ (bstepF i b = { b with st := stepF i b.st } ∧
      (b.st.fs[i]? = some .idle → b.st.pending = [] → b.pc ≠ .feed)) := by
  unfold bstepF
  split
  · split
    · split
      · left; rfl
      · rename_i hpc; right; exact ⟨rfl, fun _ _ => hpc⟩
    · rename_i hp; right; refine ⟨rfl, fun _ h => ?_⟩; rw [h] at hp; cases hp
  · rename_i hi
    split
    · right; refine ⟨rfl, fun h => ?_⟩; rw [hi] at h; cases h
    · left; rfl
  · right; exact ⟨rfl, fun h => by simp_all⟩

theorem bstepF_babs (i : Nat) (b : BSt) (inv : BInv b) :
    bstepF i b = b ∨ (bstepF i b = { b with st := stepF i b.st } ∧ babs (bstepF i b) = stepF i (babs b)) := by
  rcases bstepF_cases i b with h | ⟨h, hc⟩
  · left; exact h
  · right
    refine ⟨h, ?_⟩
    rw [h]
    show addQ b.queue (stepF i b.st) = stepF i (addQ b.queue b.st)
    exact (stepF_addQ b.queue i b.st (fun h1 h2 => inv.qe (hc h1 h2))).symm

theorem bstepM_cases (j : Nat) (b : BSt) (inv : BInv b) :
    bstepM j b = b ∨ bstepM j b = { b with st := stepM j b.st } := by
  rcases b with ⟨capF, capJ, queue, pc, st⟩
  cases hj : st.ms[j]? with
  | none => left; simp [bstepM, hj]
  | some v =>
    cases v with
    | true => left; simp [bstepM, hj]
    | false =>
      cases hjobs : st.jobs with
      | cons x rest => right; simp [bstepM, stepM, hj, hjobs]
      | nil =>
        cases pc with
        | feed => left; simp [bstepM, hj, hjobs]
        | waitF => left; simp [bstepM, hj, hjobs]
        | waitM =>
          right
          have hd : allDone st.fs = true := inv.fd (Or.inl rfl)
          simp [bstepM, stepM, hj, hjobs, hd]
        | ret =>
          right
          have hd : allDone st.fs = true := inv.fd (Or.inr rfl)
          simp [bstepM, stepM, hj, hjobs, hd]

theorem bstepM_babs (j : Nat) (b : BSt) (inv : BInv b) :
    bstepM j b = b ∨ (bstepM j b = { b with st := stepM j b.st } ∧ babs (bstepM j b) = stepM j (babs b)) := by
  rcases bstepM_cases j b inv with h | h
  · left; exact h
  · right
    refine ⟨h, ?_⟩
    rw [h]
    exact (stepM_addQ b.queue j b.st).symm

/-! ### the invariant is preserved -/

theorem bstepMain_inv (b : BSt) (inv : BInv b) : BInv (bstepMain b) := by
  have hwf : WF (babs (bstepMain b)) := by rw [bstepMain_babs]; exact inv.wf
  rcases b with ⟨capF, capJ, queue, pc, st⟩
  cases pc with
  | feed =>
    cases queue with
    | nil =>
      exact ⟨hwf, fun _ => rfl, (fun h => by rcases h with h | h <;> cases h), (fun h => by cases h)⟩
    | cons j rest =>
      by_cases hl : st.pending.length < capF
      · have e : bstepMain ⟨capF, capJ, j :: rest, .feed, st⟩
            = ⟨capF, capJ, rest, .feed, { st with pending := st.pending ++ [j] }⟩ := by simp [bstepMain, hl]
        rw [e] at hwf ⊢
        exact ⟨hwf, fun h => absurd rfl h, (fun h => by rcases h with h | h <;> cases h), (fun h => by cases h)⟩
      · have e : bstepMain ⟨capF, capJ, j :: rest, .feed, st⟩ = ⟨capF, capJ, j :: rest, .feed, st⟩ := by
          simp [bstepMain, hl]
        rw [e]; exact inv
  | waitF =>
    by_cases hd : allDone st.fs = true
    · have e : bstepMain ⟨capF, capJ, queue, .waitF, st⟩ = ⟨capF, capJ, queue, .waitM, st⟩ := by simp [bstepMain, hd]
      rw [e] at hwf ⊢
      exact ⟨hwf, fun _ => inv.qe (by simp), fun _ => hd, fun h => by cases h⟩
    · have e : bstepMain ⟨capF, capJ, queue, .waitF, st⟩ = ⟨capF, capJ, queue, .waitF, st⟩ := by simp [bstepMain, hd]
      rw [e]; exact inv
  | waitM =>
    by_cases hm : st.ms.all (fun x => x) = true
    · have e : bstepMain ⟨capF, capJ, queue, .waitM, st⟩ = ⟨capF, capJ, queue, .ret, st⟩ := by simp [bstepMain, hm]
      rw [e] at hwf ⊢
      exact ⟨hwf, fun _ => inv.qe (by simp), fun _ => inv.fd (Or.inl rfl), fun _ => hm⟩
    · have e : bstepMain ⟨capF, capJ, queue, .waitM, st⟩ = ⟨capF, capJ, queue, .waitM, st⟩ := by simp [bstepMain, hm]
      rw [e]; exact inv
  | ret => exact inv

theorem bstep_inv (w : BWorker) (b : BSt) (inv : BInv b) : BInv (bstep w b) := by
  cases w with
  | main => exact bstepMain_inv b inv
  | f i =>
    simp only [bstep]
    rcases bstepF_babs i b inv with h | ⟨h, habs⟩
    · rw [h]; exact inv
    · have hwf : WF (babs (bstepF i b)) := by rw [habs]; exact stepF_wf i _ inv.wf
      rw [h] at hwf ⊢
      refine ⟨hwf, inv.qe, ?_, ?_⟩
      · intro hpc
        have hd := inv.fd hpc
        show allDone (stepF i b.st).fs = true
        rw [stepF_allDone i b.st hd]; exact hd
      · intro hpc
        show (stepF i b.st).ms.all (fun x => x) = true
        rw [stepF_ms]; exact inv.md hpc
  | m j =>
    simp only [bstep]
    rcases bstepM_babs j b inv with h | ⟨h, habs⟩
    · rw [h]; exact inv
    · have hwf : WF (babs (bstepM j b)) := by rw [habs]; exact stepM_wf j _ inv.wf
      rw [h] at hwf ⊢
      refine ⟨hwf, inv.qe, ?_, ?_⟩
      · intro hpc
        show allDone (stepM j b.st).fs = true
        rw [stepM_fs]; exact inv.fd hpc
      · intro hpc
        have hm := inv.md hpc
        show (stepM j b.st).ms.all (fun x => x) = true
        rw [stepM_allReturned j b.st hm]; exact hm

theorem brun_inv (ws : List BWorker) : ∀ (b : BSt), BInv b → BInv (brun b ws) := by
  induction ws with
  | nil => intro b inv; exact inv
  | cons w ws ih => intro b inv; exact ih _ (bstep_inv w b inv)

theorem babs_binit (capF capJ start stop batch nf nm : Nat) (scriptOf : Nat → List Tok) :
    babs (binit capF capJ start stop batch nf nm scriptOf) = init start stop batch nf nm scriptOf := by
  simp [babs, binit, binitOn, init, Obj.new]

theorem binit_inv (capF capJ start stop batch nf nm : Nat) (scriptOf : Nat → List Tok) :
    BInv (binit capF capJ start stop batch nf nm scriptOf) := by
  refine ⟨by rw [babs_binit]; exact init_wf start stop batch nf nm scriptOf, fun h => absurd rfl h,
    (fun h => by rcases h with h | h <;> cases h), (fun h => by cases h)⟩

/-! ### refinement: bounded runs are runs of the unbounded model -/

theorem bstep_refines (w : BWorker) (b : BSt) (inv : BInv b) :
    ∃ s : List Worker, s.length ≤ 1 ∧ babs (bstep w b) = run (babs b) s := by
  cases w with
  | main => exact ⟨[], by simp, bstepMain_babs b⟩
  | f i =>
    rcases bstepF_babs i b inv with h | ⟨_, h⟩
    · exact ⟨[], by simp, by simp only [bstep, run, h]⟩
    · exact ⟨[.f i], by simp, h⟩
  | m j =>
    rcases bstepM_babs j b inv with h | ⟨_, h⟩
    · exact ⟨[], by simp, by simp only [bstep, run, h]⟩
    · exact ⟨[.m j], by simp, h⟩

theorem brun_refines (ws : List BWorker) : ∀ (b : BSt), BInv b →
    ∃ s : List Worker, s.length ≤ ws.length ∧ babs (brun b ws) = run (babs b) s := by
  induction ws with
  | nil => intro b _; exact ⟨[], by simp, rfl⟩
  | cons w ws ih =>
    intro b inv
    obtain ⟨s1, hl1, h1⟩ := bstep_refines w b inv
    obtain ⟨s2, hl2, h2⟩ := ih (bstep w b) (bstep_inv w b inv)
    refine ⟨s1 ++ s2, by simp only [List.length_append, List.length_cons]; omega, ?_⟩
    rw [run_append, ← h1]
    exact h2

/-! ### progress -/

theorem mem_bworkers_f {b : BSt} {i : Nat} {f : FSt} (h : b.st.fs[i]? = some f) : BWorker.f i ∈ bworkers b := by
  have hi : i < b.st.fs.length := by
    rcases Nat.lt_or_ge i b.st.fs.length with h1 | h1
    · exact h1
    · rw [List.getElem?_eq_none h1] at h; cases h
  simp only [bworkers, List.mem_cons, List.mem_append, List.mem_map, List.mem_range]
  right; left; exact ⟨i, hi, rfl⟩

theorem mem_bworkers_m {b : BSt} {j : Nat} {v : Bool} (h : b.st.ms[j]? = some v) : BWorker.m j ∈ bworkers b := by
  have hj : j < b.st.ms.length := by
    rcases Nat.lt_or_ge j b.st.ms.length with h1 | h1
    · exact h1
    · rw [List.getElem?_eq_none h1] at h; cases h
  simp only [bworkers, List.mem_cons, List.mem_append, List.mem_map, List.mem_range]
  right; right; exact ⟨j, hj, rfl⟩

/-- a fetcher that has not returned and is not waiting on the empty open `fetches` channel can move, or (its send
    being blocked by a full `jobs` channel) a matcher can -/
theorem fetcher_progress (b : BSt) (inv : BInv b) (hJ : 1 ≤ b.capJ) (hnm : 0 < b.st.ms.length)
    (i : Nat) (f : FSt) (hi : b.st.fs[i]? = some f) (hne : f ≠ .done)
    (hidle : f = .idle → b.st.pending ≠ [] ∨ b.pc ≠ .feed) :
    ∃ w ∈ bworkers b, benabled w b = true := by
  cases f with
  | done => exact absurd rfl hne
  | idle =>
    refine ⟨.f i, mem_bworkers_f hi, ?_⟩
    simp only [benabled, hi]
    rcases hidle rfl with h | h
    · cases hp : b.st.pending with
      | nil => exact absurd hp h
      | cons x r => simp
    · cases hpc : b.pc <;> simp_all
  | req s e sc => exact ⟨.f i, mem_bworkers_f hi, by simp only [benabled, hi]⟩
  | send s e k sc =>
    cases k with
    | zero => exact ⟨.f i, mem_bworkers_f hi, by simp only [benabled, hi]⟩
    | succ k =>
      by_cases hl : b.st.jobs.length < b.capJ
      · exact ⟨.f i, mem_bworkers_f hi, by simp only [benabled, hi]; simpa using hl⟩
      · have hm0 : ∃ v, b.st.ms[0]? = some v := ⟨b.st.ms[0], by simp [hnm]⟩
        obtain ⟨v, hv⟩ := hm0
        cases v with
        | true =>
          have hcl := inv.wf.closed (mem_of_getElem? hv)
          have hcl1 : allDone b.st.fs = true := hcl.1
          have := allDone_get hcl1 hi
          cases this
        | false =>
          refine ⟨.m 0, mem_bworkers_m hv, ?_⟩
          simp only [benabled, hv]
          cases hjb : b.st.jobs with
          | nil => rw [hjb] at hl; simp at hl; omega
          | cons x r => simp

theorem b_exists_enabled (b : BSt) (inv : BInv b) (hF : 1 ≤ b.capF) (hJ : 1 ≤ b.capJ)
    (hnf : 0 < b.st.fs.length) (hnm : 0 < b.st.ms.length) (h : bfinished b = false) :
    ∃ w ∈ bworkers b, benabled w b = true := by
  have hmain : BWorker.main ∈ bworkers b := by simp [bworkers]
  cases hpc : b.pc with
  | ret => simp [bfinished, hpc] at h
  | feed =>
    cases hq : b.queue with
    | nil => exact ⟨.main, hmain, by simp [benabled, hpc, hq]⟩
    | cons j rest =>
      by_cases hl : b.st.pending.length < b.capF
      · exact ⟨.main, hmain, by simp [benabled, hpc, hl]⟩
      · have hpne : b.st.pending ≠ [] := by
          intro hp; rw [hp] at hl; simp at hl; omega
        have hf0 : ∃ f, b.st.fs[0]? = some f := ⟨b.st.fs[0], by simp [hnf]⟩
        obtain ⟨f, hf⟩ := hf0
        have hne : f ≠ .done := by
          intro hd
          subst hd
          have := inv.wf.pend (mem_of_getElem? hf)
          simp only [babs] at this
          rw [hq] at this
          simp at this
        exact fetcher_progress b inv hJ hnm 0 f hf hne (fun _ => Or.inl hpne)
  | waitF =>
    by_cases hd : allDone b.st.fs = true
    · exact ⟨.main, hmain, by simp [benabled, hpc, hd]⟩
    · have hd' : allDone b.st.fs = false := by simpa using hd
      obtain ⟨f, hf, hf'⟩ := exists_of_all_false _ b.st.fs hd'
      have hne : f ≠ .done := by simpa using hf'
      obtain ⟨i, hi, hget⟩ := List.mem_iff_getElem.mp hf
      have h1 : b.st.fs[i]? = some f := by simp [hi, hget]
      exact fetcher_progress b inv hJ hnm i f h1 hne (fun _ => Or.inr (by rw [hpc]; simp))
  | waitM =>
    by_cases hm : b.st.ms.all (fun x => x) = true
    · exact ⟨.main, hmain, by simp [benabled, hpc, hm]⟩
    · have hm' : b.st.ms.all (fun x => x) = false := by simpa using hm
      obtain ⟨v, hv, hv'⟩ := exists_of_all_false (fun x => x) b.st.ms hm'
      subst hv'
      obtain ⟨j, hj, hget⟩ := List.mem_iff_getElem.mp hv
      have h1 : b.st.ms[j]? = some false := by simp [hj, hget]
      exact ⟨.m j, mem_bworkers_m h1, by simp [benabled, h1, hpc]⟩

/-! ### measure -/

theorem bstep_disabled (w : BWorker) (b : BSt) (h : benabled w b = false) : bstep w b = b := by
  rcases b with ⟨capF, capJ, queue, pc, st⟩
  cases w with
  | main =>
    simp only [bstep]
    cases pc with
    | feed =>
      cases queue with
      | nil => simp [benabled] at h
      | cons j rest =>
        have hl : ¬ st.pending.length < capF := by simpa [benabled] using h
        simp [bstepMain, hl]
    | waitF =>
      have hd : ¬ allDone st.fs = true := by simpa [benabled] using h
      simp [bstepMain, hd]
    | waitM =>
      have hd : ¬ st.ms.all (fun x => x) = true := by simpa [benabled] using h
      simp [bstepMain, hd]
    | ret => rfl
  | f i =>
    simp only [bstep, benabled] at *
    cases hi : st.fs[i]? with
    | none => simp [bstepF, stepF, hi]
    | some f =>
      cases f with
      | done => simp [bstepF, stepF, hi]
      | idle =>
        simp only [hi] at h
        cases hp : st.pending with
        | nil =>
          rw [hp] at h
          have hpc : pc = .feed := by cases pc <;> simp_all
          simp [bstepF, hi, hp, hpc]
        | cons x r => rw [hp] at h; simp at h
      | req s e sc => simp [hi] at h
      | send s e k sc =>
        cases k with
        | zero => simp [hi] at h
        | succ k =>
          have hl : ¬ st.jobs.length < capJ := by simpa [hi] using h
          simp [bstepF, hi, hl]
  | m j =>
    simp only [bstep, benabled] at *
    cases hj : st.ms[j]? with
    | none => simp [bstepM, hj]
    | some v =>
      cases v with
      | true => simp [bstepM, hj]
      | false =>
        simp only [hj] at h
        cases hjb : st.jobs with
        | cons x r => rw [hjb] at h; simp at h
        | nil =>
          rw [hjb] at h
          cases pc <;> simp_all [bstepM]

theorem bstepF_enabled (i : Nat) (b : BSt) (inv : BInv b) (h : benabled (.f i) b = true) :
    bstepF i b = { b with st := stepF i b.st } ∧ enabled (.f i) (babs b) = true
      ∧ babs (bstepF i b) = stepF i (babs b) := by
  have hq : b.st.fs[i]? = some .idle → b.st.pending = [] → b.queue = [] := by
    intro h1 h2
    simp only [benabled, h1, h2] at h
    apply inv.qe
    intro hpc
    simp [hpc] at h
  have hstep : bstepF i b = { b with st := stepF i b.st } := by
    rcases bstepF_cases i b with h1 | ⟨h1, _⟩
    · -- a no-op of an enabled fetcher: impossible unless `stepF` is the identity too
      simp only [benabled] at h
      cases hi : b.st.fs[i]? with
      | none => simp [hi] at h
      | some f =>
        cases f with
        | done => simp [hi] at h
        | idle =>
          simp only [hi] at h
          cases hp : b.st.pending with
          | nil =>
            have hpc : b.pc ≠ .feed := by
              intro hpc; simp [hp, hpc] at h
            simp [bstepF, hi, hp, hpc]
          | cons x r => simp [bstepF, hi, hp]
        | req s e sc => simp [bstepF, hi]
        | send s e k sc =>
          cases k with
          | zero => simp [bstepF, hi]
          | succ k =>
            have hl : b.st.jobs.length < b.capJ := by simpa [hi] using h
            simp [bstepF, hi, hl]
    · exact h1
  have hen : enabled (.f i) (babs b) = true := by
    simp only [benabled] at h
    show (match b.st.fs[i]? with | none => false | some .done => false | some _ => true) = true
    cases hi : b.st.fs[i]? with
    | none => simp [hi] at h
    | some f => cases f <;> simp_all
  refine ⟨hstep, hen, ?_⟩
  rw [hstep]
  show addQ b.queue (stepF i b.st) = stepF i (addQ b.queue b.st)
  exact (stepF_addQ b.queue i b.st hq).symm

theorem bstepM_enabled (j : Nat) (b : BSt) (inv : BInv b) (h : benabled (.m j) b = true) :
    bstepM j b = { b with st := stepM j b.st } ∧ enabled (.m j) (babs b) = true
      ∧ babs (bstepM j b) = stepM j (babs b) := by
  have hen : enabled (.m j) (babs b) = true := by
    simp only [benabled] at h
    show (match b.st.ms[j]? with | some false => !b.st.jobs.isEmpty || allDone b.st.fs | _ => false) = true
    cases hj : b.st.ms[j]? with
    | none => simp [hj] at h
    | some v =>
      cases v with
      | true => simp [hj] at h
      | false =>
        simp only [hj] at h ⊢
        cases hjb : b.st.jobs with
        | cons x r => simp
        | nil =>
          rw [hjb] at h
          have hpc : b.pc = .waitM ∨ b.pc = .ret := by
            cases hp : b.pc <;> simp_all
          simp [inv.fd hpc]
  have hstep : bstepM j b = { b with st := stepM j b.st } := by
    simp only [benabled] at h
    clear hen
    rcases b with ⟨capF, capJ, queue, pc, st⟩
    cases hj : st.ms[j]? with
    | none => simp [hj] at h
    | some v =>
      cases v with
      | true => simp [hj] at h
      | false =>
        simp only [hj] at h
        cases hjobs : st.jobs with
        | cons x rest => simp [bstepM, stepM, hj, hjobs]
        | nil =>
          rw [hjobs] at h
          cases pc with
          | feed => simp at h
          | waitF => simp at h
          | waitM =>
            have hd : allDone st.fs = true := inv.fd (Or.inl rfl)
            simp [bstepM, stepM, hj, hjobs, hd]
          | ret =>
            have hd : allDone st.fs = true := inv.fd (Or.inr rfl)
            simp [bstepM, stepM, hj, hjobs, hd]
  refine ⟨hstep, hen, ?_⟩
  rw [hstep]
  exact (stepM_addQ b.queue j b.st).symm

theorem bstep_mu (w : BWorker) (b : BSt) (inv : BInv b) (h : benabled w b = true) : bmu (bstep w b) < bmu b := by
  cases w with
  | main =>
    have habs := bstepMain_babs b
    simp only [bstep, bmu, habs]
    rcases b with ⟨capF, capJ, queue, pc, st⟩
    cases pc with
    | feed =>
      cases queue with
      | nil => simp [bstepMain, pcWeight]
      | cons j rest =>
        have hl : st.pending.length < capF := by simpa [benabled] using h
        simp [bstepMain, hl, pcWeight]
    | waitF =>
      have hd : allDone st.fs = true := by simpa [benabled] using h
      simp [bstepMain, hd, pcWeight]
    | waitM =>
      have hd : st.ms.all (fun x => x) = true := by simpa [benabled] using h
      simp [bstepMain, hd, pcWeight]
    | ret => simp [benabled] at h
  | f i =>
    obtain ⟨hs, hen, habs⟩ := bstepF_enabled i b inv h
    have := stepF_mu i (babs b) inv.wf hen
    simp only [bstep, bmu, habs]
    rw [hs]
    simp only
    omega
  | m j =>
    obtain ⟨hs, hen, habs⟩ := bstepM_enabled j b inv h
    have := stepM_mu j (babs b) hen
    simp only [bstep, bmu, habs]
    rw [hs]
    simp only
    omega

/-- every step of the schedule is taken by a thread that can move -/
def BAllEnabled : BSt → List BWorker → Prop
  | _, [] => True
  | b, w :: ws => benabled w b = true ∧ BAllEnabled (bstep w b) ws

theorem ballEnabled_length (ws : List BWorker) : ∀ (b : BSt), BInv b → BAllEnabled b ws →
    ws.length + bmu (brun b ws) ≤ bmu b := by
  induction ws with
  | nil => intro b _ _; simp [brun]
  | cons w ws ih =>
    intro b inv h
    have h1 := bstep_mu w b inv h.1
    have h2 := ih (bstep w b) (bstep_inv w b inv) h.2
    simp only [brun, List.length_cons]
    omega

theorem brun_mu_le (ws : List BWorker) : ∀ (b : BSt), BInv b → bmu (brun b ws) ≤ bmu b := by
  induction ws with
  | nil => intro b _; exact Nat.le_refl _
  | cons w ws ih =>
    intro b inv
    have h1 := ih (bstep w b) (bstep_inv w b inv)
    simp only [brun]
    cases he : benabled w b with
    | true => have := bstep_mu w b inv he; omega
    | false => rw [bstep_disabled w b he] at h1 ⊢; exact h1

theorem brun_round (ws : List BWorker) : ∀ (b : BSt), BInv b → (∃ w ∈ ws, benabled w b = true) →
    bmu (brun b ws) < bmu b := by
  induction ws with
  | nil => intro b _ ⟨w, hw, _⟩; cases hw
  | cons w' ws ih =>
    intro b inv ⟨w, hw, hen⟩
    simp only [brun]
    cases he : benabled w' b with
    | true =>
      have h1 := bstep_mu w' b inv he
      have h2 := brun_mu_le ws (bstep w' b) (bstep_inv w' b inv)
      omega
    | false =>
      rw [bstep_disabled w' b he]
      rcases List.mem_cons.mp hw with rfl | hw
      · rw [he] at hen; cases hen
      · exact ih b inv ⟨w, hw, hen⟩

/-- capacities and worker counts never change -/
theorem bstep_params (w : BWorker) (b : BSt) (inv : BInv b) :
    (bstep w b).capF = b.capF ∧ (bstep w b).capJ = b.capJ
      ∧ (bstep w b).st.fs.length = b.st.fs.length ∧ (bstep w b).st.ms.length = b.st.ms.length := by
  cases w with
  | main =>
    simp only [bstep]
    unfold bstepMain
    repeat' split
    all_goals simp
  | f i =>
    simp only [bstep]
    rcases bstepF_cases i b with h | ⟨h, _⟩
    · rw [h]; simp
    · rw [h]; exact ⟨rfl, rfl, (step_lengths (.f i) b.st).1, (step_lengths (.f i) b.st).2⟩
  | m j =>
    simp only [bstep]
    rcases bstepM_cases j b inv with h | h
    · rw [h]; simp
    · rw [h]; exact ⟨rfl, rfl, (step_lengths (.m j) b.st).1, (step_lengths (.m j) b.st).2⟩

theorem brun_params (ws : List BWorker) : ∀ (b : BSt), BInv b →
    (brun b ws).capF = b.capF ∧ (brun b ws).capJ = b.capJ
      ∧ (brun b ws).st.fs.length = b.st.fs.length ∧ (brun b ws).st.ms.length = b.st.ms.length := by
  induction ws with
  | nil => intro b _; exact ⟨rfl, rfl, rfl, rfl⟩
  | cons w ws ih =>
    intro b inv
    have h1 := bstep_params w b inv
    have h2 := ih (bstep w b) (bstep_inv w b inv)
    simp only [brun]
    refine ⟨h2.1.trans h1.1, h2.2.1.trans h1.2.1, h2.2.2.1.trans h1.2.2.1, h2.2.2.2.trans h1.2.2.2⟩

theorem brun_finished (ws : List BWorker) (b : BSt) (inv : BInv b) (h : bfinished b = true) : brun b ws = b := by
  induction ws with
  | nil => rfl
  | cons w ws ih =>
    have hpc : b.pc = .ret := by simpa [bfinished] using h
    have hd : benabled w b = false := by
      cases w with
      | main => simp [benabled, hpc]
      | f i =>
        simp only [benabled]
        cases hi : b.st.fs[i]? with
        | none => rfl
        | some f => have := allDone_get (inv.fd (Or.inr hpc)) hi; subst this; rfl
      | m j =>
        simp only [benabled]
        cases hj : b.st.ms[j]? with
        | none => rfl
        | some v =>
          have hv : v = true := (List.all_eq_true.mp (inv.md hpc)) v (mem_of_getElem? hj)
          subst hv; rfl
    simp only [brun]
    rw [bstep_disabled w b hd]
    exact ih

theorem broundRobin_stable (fuel : Nat) (b : BSt) (inv : BInv b) (h : bfinished b = true) :
    broundRobin b fuel = b := by
  induction fuel with
  | zero => rfl
  | succ fuel ih => simp only [broundRobin]; rw [brun_finished _ b inv h]; exact ih

theorem broundRobin_finishes (fuel : Nat) : ∀ (b : BSt), BInv b → 1 ≤ b.capF → 1 ≤ b.capJ →
    0 < b.st.fs.length → 0 < b.st.ms.length → bmu b ≤ fuel → bfinished (broundRobin b fuel) = true := by
  induction fuel with
  | zero =>
    intro b inv hF hJ hnf hnm hm
    simp only [broundRobin]
    cases hf : bfinished b with
    | true => rfl
    | false =>
      obtain ⟨w, _, he⟩ := b_exists_enabled b inv hF hJ hnf hnm hf
      have := bstep_mu w b inv he
      omega
  | succ fuel ih =>
    intro b inv hF hJ hnf hnm hm
    cases hf : bfinished b with
    | true => rw [broundRobin_stable _ b inv hf]; exact hf
    | false =>
      simp only [broundRobin]
      have hlt := brun_round (bworkers b) b inv (b_exists_enabled b inv hF hJ hnf hnm hf)
      have hp := brun_params (bworkers b) b inv
      exact ih _ (brun_inv _ b inv) (by rw [hp.1]; exact hF) (by rw [hp.2.1]; exact hJ)
        (by rw [hp.2.2.1]; exact hnf) (by rw [hp.2.2.2]; exact hnm) (by omega)

end ZV.C17
