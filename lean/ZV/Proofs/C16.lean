import ZV.Model.C16
import ZV.Proofs.Wire
/-! laws of the C16 formats (all by combinator lemmas) and refinement of the Go-shaped serialisers -/
namespace ZV.C16
open ZV.Wire

theorem lawful_u8 : Lawful u8 :=
  lawful_iso _ _ (fun b => by simp) (lawful_uintBE 1)
theorem lawful_u16 : Lawful u16 :=
  lawful_iso _ _ (fun b => by simp) (lawful_uintBE 2)
theorem lawful_u64 : Lawful u64 :=
  lawful_iso _ _ (fun b => by simp) (lawful_uintBE 8)

theorem lawful_ds : Lawful dsFmt :=
  lawful_iso _ _ (fun _ => rfl) (lawful_pair lawful_u8 (lawful_pair lawful_u8 (lawful_opaqueBE 2)))

theorem lawful_sct : Lawful sctFmt :=
  lawful_iso _ _ (fun _ => rfl)
    (lawful_pair (lawful_guard _ lawful_u8) (lawful_pair (lawful_bytesN 32) (lawful_pair lawful_u64
      (lawful_pair (lawful_opaqueBE 2) lawful_ds))))

theorem lawful_entryBody (t : UInt16) : Lawful (entryBody t) := by
  unfold entryBody
  split
  · refine lawful_piso _ _ ?_ (lawful_opaqueBE 3)
    intro b a h
    cases b with
    | x509 c => simp at h; rw [h]
    | precert _ _ => simp at h
  · split
    · refine lawful_piso _ _ ?_ (lawful_pair (lawful_bytesN 32) (lawful_opaqueBE 3))
      intro b a h
      cases b with
      | x509 c => simp at h
      | precert x y => simp at h; rw [← h]
    · exact lawful_fail

theorem lawful_leaf : Lawful leafFmt :=
  lawful_iso _ _ (fun _ => rfl)
    (lawful_pair (lawful_guard _ lawful_u8) (lawful_pair (lawful_guard _ lawful_u8) (lawful_pair lawful_u64
      (lawful_pair (lawful_dep _ _ lawful_u16 lawful_entryBody) (lawful_opaqueBE 2)))))

/-! ### certificate lists -/

theorem serEntries_noPanic (k : Nat) (cs : List Bytes) : serEntries k cs ≠ .panic := by
  induction cs with
  | nil => simp [serEntries]
  | cons c cs ih =>
    simp only [serEntries]
    have h1 := (lawful_opaqueBE k).serNoPanic c
    cases h : (opaqueBE k).ser c <;> cases h2 : serEntries k cs <;> simp_all

theorem parseEntries_noPanic (k : Nat) (bs : Bytes) : parseEntries k bs ≠ .panic := by
  induction hn : bs.length using Nat.strongRecOn generalizing bs with
  | _ n ih =>
    rw [parseEntries]
    split
    · simp
    · split
      · simp
      · simp only
        split
        · simp
        · rename_i hk hlen hl
          have hlt : ((bs.drop k).drop (beVal (bs.take k))).length < n := by
            simp only [List.length_drop]; omega
          have := ih _ hlt _ rfl
          cases h : parseEntries k ((bs.drop k).drop (beVal (bs.take k))) <;> simp_all

/-- the element loop of readASN1CertList inverts the concatenation of length-prefixed elements -/
theorem parseEntries_serEntries (k : Nat) (hk : 0 < k) (cs : List Bytes) (bs : Bytes)
    (h : serEntries k cs = .ok bs) : parseEntries k bs = .ok cs := by
  induction cs generalizing bs with
  | nil =>
    simp only [serEntries] at h
    cases h
    rw [parseEntries]
    have : ¬ k = 0 := by omega
    simp [this, hk]
  | cons c cs ih =>
    simp only [serEntries] at h
    cases h1 : (opaqueBE k).ser c with
    | ok x =>
      cases h2 : serEntries k cs with
      | ok y =>
        rw [h1, h2] at h
        cases h
        have hx : x = beBytes k c.length ++ c ∧ c.length < 256 ^ k := by
          simp only [opaqueBE, varBytes, uintBE] at h1
          by_cases hlt : c.length < 256 ^ k
          · simp only [hlt, if_true] at h1
            cases h1
            exact ⟨rfl, hlt⟩
          · simp [hlt] at h1
        obtain ⟨hx, hlt⟩ := hx
        subst hx
        rw [parseEntries]
        have hk0 : ¬ k = 0 := by omega
        have hlenk := beBytes_length k c.length
        have hlen : ¬ ((beBytes k c.length ++ c ++ y).length < k) := by
          simp only [List.length_append]; omega
        simp only [hk0, if_false, hlen]
        have ht : (beBytes k c.length ++ c ++ y).take k = beBytes k c.length := by
          rw [List.append_assoc, List.take_left' hlenk]
        have hd : (beBytes k c.length ++ c ++ y).drop k = c ++ y := by
          rw [List.append_assoc, List.drop_left' hlenk]
        rw [ht, hd, beVal_beBytes, Nat.mod_eq_of_lt hlt]
        have : ¬ ((c ++ y).length < c.length) := by simp
        simp only [this, if_false]
        rw [List.drop_left' rfl, List.take_left' rfl, ih y h2]
      | err => rw [h1, h2] at h; cases h
      | panic => rw [h1, h2] at h; cases h
    | err =>
      rw [h1] at h
      cases h2 : serEntries k cs <;> rw [h2] at h <;> cases h
    | panic => exact absurd h1 ((lawful_opaqueBE k).serNoPanic c)

theorem lawful_chain : Lawful chainFmt where
  rt cs bs tail h := by
    simp only [chainFmt] at h ⊢
    cases h1 : serEntries 3 cs with
    | ok body =>
      rw [h1] at h
      rw [(lawful_opaqueBE 3).rt body bs tail h]
      simp only
      rw [parseEntries_serEntries 3 (by omega) cs body h1]
    | err => rw [h1] at h; cases h
    | panic => rw [h1] at h; cases h
  consumes bs cs rest h := by
    simp only [chainFmt] at h
    cases h1 : (opaqueBE 3).par bs with
    | ok r =>
      obtain ⟨body, r'⟩ := r
      rw [h1] at h
      simp only at h
      cases h2 : parseEntries 3 body with
      | ok es => rw [h2] at h; cases h; exact (lawful_opaqueBE 3).consumes bs body rest h1
      | err => rw [h2] at h; cases h
      | panic => rw [h2] at h; cases h
    | err => rw [h1] at h; cases h
    | panic => rw [h1] at h; cases h
  parNoPanic bs := by
    simp only [chainFmt]
    cases h1 : (opaqueBE 3).par bs with
    | ok r =>
      obtain ⟨body, r'⟩ := r
      simp only
      have := parseEntries_noPanic 3 body
      cases h2 : parseEntries 3 body <;> simp_all
    | err => simp
    | panic => exact absurd h1 ((lawful_opaqueBE 3).parNoPanic bs)
  serNoPanic cs := by
    simp only [chainFmt]
    have := serEntries_noPanic 3 cs
    cases h1 : serEntries 3 cs with
    | ok body => exact (lawful_opaqueBE 3).serNoPanic body
    | err => simp
    | panic => exact absurd h1 this

theorem lawful_precertChain : Lawful precertChainFmt := by
  refine lawful_piso _ _ ?_ (lawful_pair (lawful_opaqueBE 3) lawful_chain)
  intro b a h
  cases b with
  | nil => simp at h
  | cons c cs => simp at h; rw [← h]

/-! ### the Go-shaped serialisers compute the formats' `ser` -/

theorem u8_ser (b : UInt8) : u8.ser b = .ok [b] := by
  have hb := b.toNat_lt
  have : (256 : Nat) ^ 1 = 256 := by decide
  simp only [u8, iso, uintBE, this]
  have hlt : b.toNat < 256 := hb
  simp only [hlt, if_true, beBytes, leBytes]
  have : UInt8.ofNat (b.toNat % 256) = b := by
    rw [Nat.mod_eq_of_lt hlt]; simp
  simp [this]

theorem u64_ser (v : UInt64) : u64.ser v = .ok (beBytes 8 v.toNat) := by
  have hb := v.toNat_lt
  have : (256 : Nat) ^ 8 = 2 ^ 64 := by decide
  simp only [u64, iso, uintBE, this]
  simp [hb]

theorem opaque2_ser (v : Bytes) :
    (opaqueBE 2).ser v = if v.length > 65535 then .err else .ok (beBytes 2 v.length ++ v) := by
  have : (256 : Nat) ^ 2 = 65536 := by decide
  simp only [opaqueBE, varBytes, uintBE, this]
  by_cases h : v.length < 65536
  · have : ¬ v.length > 65535 := by omega
    simp [h, this]
  · have : v.length > 65535 := by omega
    simp [h, this]

/-- MarshalDigitallySigned is the serialiser of the DigitallySigned format -/
theorem marshalDS_eq (ds : DS) : marshalDS ds = dsFmt.ser ds := by
  simp only [marshalDS, marshalDSHere, dsFmt, iso, pair, u8_ser, opaque2_ser]
  by_cases h : ds.sig.length > 65535 <;> simp [h]

theorem marshalDSHere_exact (ds : DS) : marshalDSHere ds (some (4 + ds.sig.length)) = dsFmt.ser ds := by
  rw [← marshalDS_eq]
  simp only [marshalDS, marshalDSHere]

/-- SerializeSCT is the serialiser of the SCT format (for Go values: LogID is a [32]byte) -/
theorem serializeSCT_eq (s : SCT) (hid : s.logID.length = 32) : serializeSCT s = sctFmt.ser s := by
  simp only [serializeSCT, serializeSCTHere, serializedLength, marshalDSHere_exact, sctFmt, iso, pair, Wire.guard,
    u8_ser, u64_ser, opaque2_ser, bytesN, hid]
  by_cases hv : s.version = 0
  · simp only [hv]
    by_cases he : s.ext.length > 65535
    · simp [he]
    · cases hd : dsFmt.ser s.sig <;> simp [he, hd]
  · have : (s.version != 0) = true := by simpa using hv
    have h2 : (s.version == 0) = false := by simpa using hv
    simp [this, h2]

/-! ### explicit big-endian bytes, written without the engine -/

def be2 (n : Nat) : Bytes := [UInt8.ofNat (n / 256 % 256), UInt8.ofNat (n % 256)]
def be3 (n : Nat) : Bytes := [UInt8.ofNat (n / 65536 % 256), UInt8.ofNat (n / 256 % 256), UInt8.ofNat (n % 256)]
def be8 (n : Nat) : Bytes :=
  [UInt8.ofNat (n / 72057594037927936 % 256), UInt8.ofNat (n / 281474976710656 % 256), UInt8.ofNat (n / 1099511627776 % 256),
   UInt8.ofNat (n / 4294967296 % 256), UInt8.ofNat (n / 16777216 % 256), UInt8.ofNat (n / 65536 % 256),
   UInt8.ofNat (n / 256 % 256), UInt8.ofNat (n % 256)]

theorem beBytes2 (n : Nat) : beBytes 2 n = be2 n := by
  simp [beBytes, leBytes, be2]
theorem beBytes3 (n : Nat) : beBytes 3 n = be3 n := by
  simp [beBytes, leBytes, be3, Nat.div_div_eq_div_mul]
theorem beBytes8 (n : Nat) : beBytes 8 n = be8 n := by
  simp [beBytes, leBytes, be8, Nat.div_div_eq_div_mul]

theorem opaque3_ser (v : Bytes) :
    (opaqueBE 3).ser v = if v.length < 16777216 then .ok (be3 v.length ++ v) else .err := by
  have : (256 : Nat) ^ 3 = 16777216 := by decide
  simp only [opaqueBE, varBytes, uintBE, this, beBytes3]
  by_cases h : v.length < 16777216 <;> simp [h]

theorem opaque2_ser_lt (v : Bytes) :
    (opaqueBE 2).ser v = if v.length < 65536 then .ok (be2 v.length ++ v) else .err := by
  have : (256 : Nat) ^ 2 = 65536 := by decide
  simp only [opaqueBE, varBytes, uintBE, this, beBytes2]
  by_cases h : v.length < 65536 <;> simp [h]

end ZV.C16
