import ZV.Proofs.C18
import ZV.Proofs.C18Leaf
/-! C18: OPTIONAL / DEFAULT / omitempty — what an absent field decodes to, when the decoder decides "absent", and the
    identifier octets Marshal writes for a present field. -/
namespace ZV.C18

theorem dfltOrErr_optional (s : Schema) (p : Params) (bs : Bytes) (h : p.optional = true) :
    dfltOrErr s p bs = .ok (dfltVal s p, bs) := by
  unfold dfltOrErr dfltVal
  rw [if_pos h]
  cases p.defaultValue with
  | none => rfl
  | some d => simp only; split_ifs <;> rfl

/-- what follows an absent field lets the decoder see that it is absent: nothing, or an element whose identifier the
    field does not accept -/
def Skips (s : Schema) (p : Params) (rest : Bytes) : Prop :=
  rest = [] ∨ ∃ t r, parseTL false rest = .ok (t, r) ∧ skipsH s p t.cls t.tag t.compound = true

theorem substTag_len (p : Params) (t : TL) (u : Nat) :
    substTag p t u = substTag p { cls := t.cls, tag := t.tag, len := 0, compound := t.compound } u := rfl

theorem parsePre_skip (s : Schema) (p : Params) (bs : Bytes) (t : TL) (r : Bytes)
    (h1 : parseTL false bs = .ok (t, r)) (h2 : skipsH s p t.cls t.tag t.compound = true) :
    parsePre false s p bs = .dflt := by
  unfold parsePre
  rw [h1]
  unfold skipsH at h2
  cases he : p.explicit with
  | true =>
    rw [he] at h2
    simp only [if_true] at h2
    simp only [explicitStage, he, if_true]
    have hc : ¬ (t.cls = (if p.application = true then 1 else if p.priv = true then 3 else 2) ∧ some t.tag = p.tag ∧
        (t.len = 0 ∨ t.compound = true)) := by
      intro hh
      have e1 : t.cls = pcls p := hh.1
      have e2 := hh.2.1
      simp [e1, e2] at h2
    rw [if_neg hc]
  | false =>
    rw [he] at h2
    simp only [Bool.false_eq_true, if_false] at h2
    simp only [explicitStage, he, Bool.false_eq_true, if_false, matchStage]
    cases hu : univ s with
    | none => rw [hu] at h2; simp at h2
    | some x =>
      obtain ⟨ma, utag0, ct⟩ := x
      rw [hu] at h2
      simp only at h2 ⊢
      rw [substTag_len p t utag0, if_pos h2]

theorem univ_cases (s : Schema) (h : univ s ≠ none) (perm : Bool) (p : Params) (bs : Bytes) :
    parseField perm s p bs =
      (if bs.isEmpty then dfltOrErr s p bs
       else match parsePre perm s p bs with
         | .err => parseField perm s p bs
         | .dflt => dfltOrErr s p bs
         | .flag r => .ok (.bool true, r)
         | .go _ _ _ _ => parseField perm s p bs) := by
  cases s <;> first
    | exact absurd rfl h
    | (simp only [parseField, primField]; split_ifs <;> first | rfl | (split <;> simp_all))

/-- an OPTIONAL field in front of nothing, or of an element it does not accept, decodes as absent and consumes nothing -/
theorem parseField_absent (s : Schema) (p : Params) (rest : Bytes) (hu : univ s ≠ none)
    (hopt : p.optional = true) (hs : Skips s p rest) :
    parseField false s p rest = .ok (dfltVal s p, rest) := by
  rw [univ_cases s hu]
  rcases hs with h | ⟨t, r, h1, h2⟩
  · subst h; simp only [List.isEmpty_nil, if_true]; exact dfltOrErr_optional s p [] hopt
  · have hne : rest.isEmpty = false := by
      cases rest with
      | nil => simp [parseTL] at h1
      | cons _ _ => rfl
    rw [hne, parsePre_skip s p rest t r h1 h2]
    simp only [Bool.false_eq_true, if_false]
    exact dfltOrErr_optional s p rest hopt

/-- a left-out field contributes no bytes -/
theorem makeField_omitted (s : Schema) (p : Params) (v : Val) (hu : univ s ≠ none) (h : omitted s p v = true) :
    makeField s p v = .ok [] := by
  cases s <;> first
    | exact absurd rfl hu
    | simp only [makeField, primMake, h, if_true]

theorem sliceKind_zero (s : Schema) (h : isSliceKind s = true) : zeroVal s = .null ∧ isIntKind s = false := by
  cases s <;> simp_all [isSliceKind, zeroVal, isIntKind]

/-- the value an absent field decodes to is itself left out by Marshal -/
theorem omitted_dflt (s : Schema) (p : Params) (v : Val) (h : omitted s p v = true) :
    omitted s p (dfltVal s p) = true := by
  unfold omitted at h ⊢
  simp only [Bool.or_eq_true, Bool.and_eq_true] at h ⊢
  rcases h with ⟨⟨h1, _⟩, h3⟩ | ⟨h1, h2⟩
  · left
    obtain ⟨hz, hi⟩ := sliceKind_zero s h1
    refine ⟨⟨h1, ?_⟩, h3⟩
    unfold dfltVal
    cases p.defaultValue with
    | none => simp only [hz]; rfl
    | some d => simp only [hi, Bool.false_eq_true, if_false, hz]; rfl
  · right
    refine ⟨h1, ?_⟩
    unfold dfltVal
    cases hd : p.defaultValue with
    | none => simp
    | some d =>
      rw [hd] at h2
      simp only [Bool.and_eq_true] at h2
      simp [h2.1]

/-! ### the identifier octets of a present field -/

/-- `wrap` starts with the identifier octets of the outermost header -/
theorem wrap_parseTL (p : Params) (tag : Nat) (comp : Bool) (body x : Bytes) (hg : Good p)
    (hlen : (wrap p tag comp body).length < 2147483648) (htag : tag ≤ 30) :
    ∃ t r, parseTL false (wrap p tag comp body ++ x) = .ok (t, r) ∧
      (t.cls, t.tag, t.compound) =
        (match p.tag with
         | some tg => (pcls p, tg, p.explicit || comp)
         | none => (0, tag, comp)) := by
  unfold wrap at *
  have hcls : (if p.application = true then 1 else if p.priv = true then 3 else 2) < 4 := by split_ifs <;> omega
  cases hpt : p.tag with
  | none =>
    simp only [hpt, List.length_append] at hlen ⊢
    rw [List.append_assoc, parseTL_appendTL false _ (by simp) (by simp; omega) (by simp; omega)]
    exact ⟨_, _, rfl, rfl⟩
  | some tg =>
    have htg := hg.tagRange tg hpt
    simp only [hpt] at hlen ⊢
    cases he : p.explicit with
    | true =>
      simp only [he, if_true, List.length_append] at hlen ⊢
      rw [List.append_assoc, parseTL_appendTL false _ (by simpa using hcls) (by simpa using htg) (by simp; omega)]
      exact ⟨_, _, rfl, by simp [pcls]⟩
    | false =>
      simp only [he, Bool.false_eq_true, if_false, List.length_append] at hlen ⊢
      rw [List.append_assoc, parseTL_appendTL false _ (by simpa using hcls) (by simpa using htg) (by simp; omega)]
      exact ⟨_, _, rfl, by simp [pcls]⟩

theorem stringTag_le (p : Params) (bs : Bytes) (tag : Nat) (hg : Good p) (h : stringTag p bs = some tag) : tag ≤ 30 := by
  have := stringTag_cases p bs tag h
  have := hg.strKind
  omega

/-- the encoding of a present non-RawValue field is `wrap` of a body under the tag `fieldHdr` announces -/
theorem makeField_shape (s : Schema) (p : Params) (v : Val) (enc : Bytes) (hg : Good p)
    (hm : makeField s p v = .ok enc) (homit : omitted s p v = false) (hr : isRaw s = false) :
    ∃ ma utag0 comp tag body, univ s = some (ma, utag0, comp) ∧ enc = wrap p tag comp body ∧ tag ≤ 30 ∧
      (if utag0 = 19 then marshalTag p utag0 v else some (if p.set then 17 else utag0)) = some tag := by
  have prim : ∀ (ma : Bool) (u : Nat) (c : Bool), univ s = some (ma, u, c) → u ≤ 30 → primMake s p v = .ok enc →
      ∃ ma utag0 comp tag body, univ s = some (ma, utag0, comp) ∧ enc = wrap p tag comp body ∧ tag ≤ 30 ∧
        (if utag0 = 19 then marshalTag p utag0 v else some (if p.set then 17 else utag0)) = some tag := by
    intro ma u c hu hu30 hpm
    obtain ⟨tag, body, htag, hset, _, henc, _⟩ := primMake_ok s p v enc ma u c hu homit hpm
    refine ⟨ma, u, c, tag, body, hu, henc, ?_, ?_⟩
    · unfold marshalTag at htag
      by_cases h19 : u = 19
      · rw [if_pos h19] at htag
        cases v <;> simp only [reduceCtorEq] at htag
        exact stringTag_le p _ tag hg htag
      · rw [if_neg h19] at htag; simp only [Option.some.injEq] at htag; omega
    · by_cases h19 : u = 19
      · rw [if_pos h19]; exact htag
      · rw [if_neg h19]; unfold marshalTag at htag; rw [if_neg h19] at htag
        simp only [hset, Bool.false_eq_true, if_false]; exact htag
  cases s with
  | raw => simp [isRaw] at hr
  | fnil => simp [makeField] at hm
  | fcons _ _ _ => simp [makeField] at hm
  | struct fs =>
    simp only [makeField, homit, Bool.false_eq_true, if_false] at hm
    by_cases h1 : p.timeType ≠ 0
    · rw [if_pos h1] at hm; cases hm
    rw [if_neg h1] at hm
    by_cases h2 : p.stringType ≠ 0
    · rw [if_pos h2] at hm; cases hm
    rw [if_neg h2] at hm
    cases hb : makeFields fs v with
    | err => rw [hb] at hm; cases hm
    | panic => rw [hb] at hm; cases hm
    | ok body =>
      rw [hb] at hm
      simp only [Res.ok.injEq] at hm
      exact ⟨false, 16, true, (if p.set = true then 17 else 16), body, rfl, hm.symm, by split_ifs <;> omega, by simp⟩
  | seqOf sn e =>
    simp only [makeField, homit, Bool.false_eq_true, if_false] at hm
    by_cases h1 : p.timeType ≠ 0
    · rw [if_pos h1] at hm; cases hm
    rw [if_neg h1] at hm
    by_cases h2 : p.stringType ≠ 0
    · rw [if_pos h2] at hm; cases hm
    rw [if_neg h2] at hm
    by_cases h3 : (p.set && sn) = true
    · rw [if_pos h3] at hm; cases hm
    rw [if_neg h3] at hm
    cases hb : mapElems (fun x => makeField e {} x) v with
    | err => rw [hb] at hm; cases hm
    | panic => rw [hb] at hm; cases hm
    | ok encs =>
      rw [hb] at hm
      simp only [Res.ok.injEq] at hm
      refine ⟨false, _, true, (if (p.set || sn) = true then 17 else 16), _, rfl, hm.symm, by split_ifs <;> omega, ?_⟩
      cases hs : p.set <;> cases sn <;> simp_all
  | int64 => exact prim _ _ _ rfl (by omega) (by simpa [makeField] using hm)
  | int32 => exact prim _ _ _ rfl (by omega) (by simpa [makeField] using hm)
  | enum => exact prim _ _ _ rfl (by omega) (by simpa [makeField] using hm)
  | bigint => exact prim _ _ _ rfl (by omega) (by simpa [makeField] using hm)
  | bool => exact prim _ _ _ rfl (by omega) (by simpa [makeField] using hm)
  | oid => exact prim _ _ _ rfl (by omega) (by simpa [makeField] using hm)
  | bits => exact prim _ _ _ rfl (by omega) (by simpa [makeField] using hm)
  | octets => exact prim _ _ _ rfl (by omega) (by simpa [makeField] using hm)
  | str => exact prim _ _ _ rfl (by omega) (by simpa [makeField] using hm)
  | flag => exact prim _ _ _ rfl (by omega) (by simpa [makeField] using hm)

/-- **identifier octets of a present field**: what Marshal wrote starts with exactly the header `fieldHdr` computes from
    the type, the parameters and (for strings and RawValues) the value -/
theorem field_hdr (s : Schema) (p : Params) (v : Val) (enc x : Bytes) (hg : Good p)
    (hm : makeField s p v = .ok enc) (homit : omitted s p v = false) (hlen : enc.length < 2147483648)
    (hraw : ∀ cls tag comp bs full, s = .raw → v = .raw cls tag comp bs full → rawOK cls tag comp bs full = true) :
    ∃ t r, parseTL false (enc ++ x) = .ok (t, r) ∧ fieldHdr s p v = some (t.cls, t.tag, t.compound) := by
  by_cases hr : isRaw s = true
  · have hs : s = .raw := by cases s <;> simp_all [isRaw]
    subst hs
    simp only [makeField, homit, Bool.false_eq_true, if_false] at hm
    cases v <;> simp only [reduceCtorEq] at hm
    rename_i cls tag comp bs full
    have hok := hraw cls tag comp bs full rfl rfl
    simp only [rawOK, Bool.and_eq_true, decide_eq_true_eq] at hok
    obtain ⟨⟨hc, ht⟩, hfull⟩ := hok
    have hfl : full.length ≠ 0 := by
      have := appendTL_length_pos { cls := cls, tag := tag, len := bs.length, compound := comp }
      rw [hfull, List.length_append]; omega
    simp only [hfl, ne_eq, not_false_eq_true, if_true, Res.ok.injEq] at hm
    subst hm
    have hbl : bs.length < 2147483648 := by rw [hfull, List.length_append] at hlen; omega
    rw [hfull, List.append_assoc, parseTL_appendTL false _ hc ht hbl]
    exact ⟨_, _, rfl, rfl⟩
  · have hr' : isRaw s = false := by simpa using hr
    obtain ⟨ma, utag0, comp, tag, body, hu, henc, ht30, htag⟩ := makeField_shape s p v enc hg hm homit hr'
    subst henc
    obtain ⟨t, r, h1, h2⟩ := wrap_parseTL p tag comp body x hg hlen ht30
    refine ⟨t, r, h1, ?_⟩
    have hfh : fieldHdr s p v = (match p.tag with
        | some tg => some (pcls p, tg, p.explicit || comp)
        | none => some (0, tag, comp)) := by
      unfold fieldHdr
      cases s <;> simp only [isRaw, reduceCtorEq] at hr' <;> simp only [hu] <;> cases p.tag <;> simp only [htag]
    rw [hfh]
    cases hpt : p.tag <;> simp only [hpt] at h2 ⊢ <;> rw [h2]

end ZV.C18
