import ZV.Proofs.C04All
/-! The ten builders of `buildExtensions`, one step each: applying the (at most one) generated extension to the field
    vector of the previous stage gives the next stage; then the composition. -/
namespace ZV.C04
open ZV ZV.Der ZV.C06

variable (tbl : List (Nat × List Nat)) (t : Tmpl)

theorem step1 {l : List Ext} (hd : t.keyUsage < 512)
    (h : gen (t.keyUsage ≠ 0) oidKU true (some (buildKeyUsage t.keyUsage)) t.extra = .ok l) :
    applyExts (stage tbl t 0) l = .ok (stage tbl t 1) := by
  apply step h
  · intro hc
    simp [stage, expected] at hc ⊢
    intro hi
    apply Decidable.byContradiction
    intro hk
    simp [hc hk] at hi
  · intro val hv hc hi _
    simp only [Option.some.injEq] at hv; subst hv
    have hk : t.keyUsage ≠ 0 := by simpa using hc
    rw [applyExt_KU, parseKeyUsage_build t.keyUsage hk hd]
    simp [stage, expected, hi]

theorem step2 {l : List Ext} (htbl : tbl.all (fun p => oidOk p.2) = true) (hunk : t.unknownEku.all oidOk = true)
    (hsz : ∀ x ∈ l, x.value.length < 2147483648)
    (h : gen (!t.eku.isEmpty || !t.unknownEku.isEmpty) oidEKU false
        (match t.eku.mapM (ekuLookup tbl) with
         | some os => (encOIDs (os ++ t.unknownEku)).map (tlv 0x30)
         | none => none) t.extra = .ok l) :
    applyExts (stage tbl t 1) l = .ok (stage tbl t 2) := by
  apply step h
  · intro hc
    simp [stage, expected] at hc ⊢
    intro hi
    have h1 : t.eku = [] := by
      apply Decidable.byContradiction; intro hk; simp [hc (Or.inl hk)] at hi
    have h2 : t.unknownEku = [] := by
      apply Decidable.byContradiction; intro hk; simp [hc (Or.inr hk)] at hi
    simp [h1, h2, oidContents]
  · intro val hv hc hi hmem
    have hl := hsz _ hmem
    simp only at hl
    cases hm : t.eku.mapM (ekuLookup tbl) with
    | none => simp [hm] at hv
    | some os =>
      simp only [hm] at hv
      cases he : encOIDs (os ++ t.unknownEku) with
      | none => simp [he] at hv
      | some body =>
        simp only [he, Option.map_some, Option.some.injEq] at hv
        subst hv
        have hos := mapM_filterMap _ _ _ hm
        have hok : ∀ o ∈ os ++ t.unknownEku, oidOk o = true := by
          intro o ho
          rcases List.mem_append.mp ho with ho | ho
          · rw [hos] at ho
            obtain ⟨u, _, hu⟩ := List.mem_filterMap.mp ho
            exact ekuLookup_ok htbl hu
          · exact List.all_eq_true.mp hunk o ho
        rw [applyExt_EKU, parseEKU_build _ _ he hok hl]
        simp [Res.bind, stage, expected, hi, hos]

theorem step3 {l : List Ext} (h1 : -9223372036854775808 ≤ t.maxPathLen) (h2 : t.maxPathLen ≤ 9223372036854775807)
    (h : gen t.bcValid oidBC true (some (buildBasicConstraints t.isCA t.maxPathLen t.maxPathLenZero)) t.extra = .ok l) :
    applyExts (stage tbl t 2) l = .ok (stage tbl t 3) := by
  apply step h
  · intro hc
    simp [stage, expected] at hc ⊢
    have hx : ∀ {P : Prop}, t.bcValid = true → inExtra oidBC t.extra = false → P := by
      intro P a b; rw [hc a] at b; cases b
    exact ⟨hc, hx, hx, hx⟩
  · intro val hv hc hi _
    simp only [Option.some.injEq] at hv; subst hv
    rw [applyExt_BC, parseBasicConstraints_build _ _ _ h1 h2]
    simp [stage, expected, hi, hc]

theorem step4 {l : List Ext} (hsz : ∀ x ∈ l, x.value.length < 2147483648)
    (h : gen (!t.ski.isEmpty) oidSKI false (some (buildSKI t.ski)) t.extra = .ok l) :
    applyExts (stage tbl t 3) l = .ok (stage tbl t 4) := by
  apply step h
  · intro hc
    simp [stage, expected] at hc ⊢
    intro hi
    apply Decidable.byContradiction
    intro hk
    simp [hc hk] at hi
  · intro val hv hc hi hmem
    simp only [Option.some.injEq] at hv; subst hv
    have hl := hsz _ hmem
    simp only [buildSKI, tlv] at hl
    have := writeTLV_length_ge 0x04 t.ski
    rw [applyExt_SKI]
    unfold parseSKI buildSKI tlv
    rw [first_tlv _ _ _ (by decide) (by omega) (by simp [Want.ok, hdrOf])]
    simp [Res.bind, Res.map, stage, expected, hi]

theorem step5 {l : List Ext} (hsz : ∀ x ∈ l, x.value.length < 2147483648)
    (h : gen (!t.aki.isEmpty) oidAKI false (some (buildAKI t.aki)) t.extra = .ok l) :
    applyExts (stage tbl t 4) l = .ok (stage tbl t 5) := by
  apply step h
  · intro hc
    simp [stage, expected] at hc ⊢
    intro hi
    apply Decidable.byContradiction
    intro hk
    simp [hc hk] at hi
  · intro val hv hc hi hmem
    simp only [Option.some.injEq] at hv; subst hv
    have hl := hsz _ hmem
    simp only [buildAKI, tlv] at hl
    have := writeTLV_length_ge 0x30 (writeTLV 0x80 t.aki)
    have := writeTLV_length_ge 0x80 t.aki
    rw [applyExt_AKI]
    unfold parseAKI buildAKI tlv
    rw [first_tlv _ _ _ (by decide) (by omega) (by simp [Want.ok, hdrOf])]
    simp only [elemOf_body]
    rw [field_tlv_end _ _ _ _ (by decide) (by omega) (by simp [Want.ok, hdrOf])]
    simp [Res.bind, stage, expected, hi]

theorem step6 {l : List Ext} (hsz : ∀ x ∈ l, x.value.length < 2147483648)
    (h : gen (!t.ocsp.isEmpty || !t.issuing.isEmpty) oidAIA false (buildAIA t.ocsp t.issuing) t.extra = .ok l) :
    applyExts (stage tbl t 5) l = .ok (stage tbl t 6) := by
  apply step h
  · intro hc
    simp [stage, expected] at hc ⊢
    constructor <;> (intro hi; apply Decidable.byContradiction; intro hk)
    · simp [hc (Or.inl hk)] at hi
    · simp [hc (Or.inr hk)] at hi
  · intro val hv hc hi hmem
    have hl := hsz _ hmem
    simp only at hl
    rw [applyExt_AIA, parseAIA_build _ _ _ hv hl]
    simp [Res.bind, stage, expected, hi]

theorem step7 {l : List Ext} (hip : t.ips.all (fun ip => ip.length == 4 || ip.length == 16) = true)
    (hsz : ∀ x ∈ l, x.value.length < 2147483648)
    (h : gen (!t.dns.isEmpty || !t.email.isEmpty || !t.ips.isEmpty) oidSAN false
      (some (buildSAN t.dns t.email t.ips)) t.extra = .ok l) :
    applyExts (stage tbl t 6) l = .ok (stage tbl t 7) := by
  apply step h
  · intro hc
    simp [stage, expected] at hc ⊢
    intro hi
    have h1 : t.dns = [] := by
      apply Decidable.byContradiction; intro hk; simp [hc (Or.inl (Or.inl hk))] at hi
    have h2 : t.email = [] := by
      apply Decidable.byContradiction; intro hk; simp [hc (Or.inl (Or.inr hk))] at hi
    have h3 : t.ips = [] := by
      apply Decidable.byContradiction; intro hk; simp [hc (Or.inr hk)] at hi
    simp [h1, h2, h3]
  · intro val hv hc hi hmem
    simp only [Option.some.injEq] at hv; subst hv
    have hl := hsz _ hmem
    simp only at hl
    have hip' : ∀ ip ∈ t.ips, (to4 ip).length = 4 ∨ (to4 ip).length = 16 := by
      intro ip hm
      have := List.all_eq_true.mp hip ip hm
      exact to4_length ip (by simpa using this)
    rw [applyExt_SAN, parseSAN_build _ _ _ hip' hl]
    simp [Res.bind, stage, expected, hi]

theorem step8 {l : List Ext} (hpol : t.policies.all oidOk = true) (hsz : ∀ x ∈ l, x.value.length < 2147483648)
    (h : gen (!t.policies.isEmpty) oidPolicies false (buildPolicies t.policies) t.extra = .ok l) :
    applyExts (stage tbl t 7) l = .ok (stage tbl t 8) := by
  apply step h
  · intro hc
    simp [stage, expected] at hc ⊢
    intro hi
    have h1 : t.policies = [] := by
      apply Decidable.byContradiction; intro hk; simp [hc hk] at hi
    simp [h1, oidContents]
  · intro val hv hc hi hmem
    have hl := hsz _ hmem
    simp only at hl
    rw [applyExt_Policies, parsePolicies_build _ _ hv (fun o ho => List.all_eq_true.mp hpol o ho) hl]
    simp [Res.bind, stage, expected, hi]

theorem step9 {l : List Ext} {c : Bool} {v : Option Bytes} (h : gen t.nc.isSome oidNC c v t.extra = .ok l) :
    applyExts (stage tbl t 8) l = .ok (stage tbl t 9) := by
  have e : stage tbl t 9 = stage tbl t 8 := by simp [stage]
  rw [e]
  apply step h
  · intro _; rfl
  · intro val _ _ _ _; exact applyExt_NC _ _ _

theorem step10 {l : List Ext} (hsz : ∀ x ∈ l, x.value.length < 2147483648)
    (h : gen (!t.crldp.isEmpty) oidCRLDP false (some (buildCRLDP t.crldp)) t.extra = .ok l) :
    applyExts (stage tbl t 9) l = .ok (stage tbl t 10) := by
  apply step h
  · intro hc
    simp [stage, expected] at hc ⊢
    intro hi
    apply Decidable.byContradiction
    intro hk
    simp [hc hk] at hi
  · intro val hv hc hi hmem
    simp only [Option.some.injEq] at hv; subst hv
    have hl := hsz _ hmem
    simp only at hl
    rw [applyExt_CRLDP, parseCRLDP_build _ hl]
    simp [Res.bind, stage, expected, hi]

theorem catRes_nil_ok {l : List Ext} (h : catRes [] = .ok l) : l = [] := by
  simp [catRes] at h; exact h

/-- **Composition**: the generated extensions are parsed back to `expected`, then the extra extensions are applied. -/
theorem applyExts_buildExtensions {exts : List Ext} (h : buildExtensions tbl t = .ok exts)
    (hd : t.inDomain tbl = true) (hsz : ∀ x ∈ exts, x.value.length < 2147483648) :
    applyExts {} exts = applyExts (expected tbl t) t.extra := by
  simp only [Tmpl.inDomain, Bool.and_eq_true, decide_eq_true_eq] at hd
  obtain ⟨⟨⟨⟨⟨⟨d1, d2⟩, d3⟩, d4⟩, d5⟩, d6⟩, d7⟩ := hd
  unfold buildExtensions at h
  simp only at h
  split at h
  · cases h
  · split at h
    · rename_i gens hg
      simp only [Res.ok.injEq] at h
      subst h
      obtain ⟨l1, r1, g1, hg, e1⟩ := catRes_cons_ok hg
      obtain ⟨l2, r2, g2, hg, e2⟩ := catRes_cons_ok hg
      obtain ⟨l3, r3, g3, hg, e3⟩ := catRes_cons_ok hg
      obtain ⟨l4, r4, g4, hg, e4⟩ := catRes_cons_ok hg
      obtain ⟨l5, r5, g5, hg, e5⟩ := catRes_cons_ok hg
      obtain ⟨l6, r6, g6, hg, e6⟩ := catRes_cons_ok hg
      obtain ⟨l7, r7, g7, hg, e7⟩ := catRes_cons_ok hg
      obtain ⟨l8, r8, g8, hg, e8⟩ := catRes_cons_ok hg
      obtain ⟨l9, r9, g9, hg, e9⟩ := catRes_cons_ok hg
      obtain ⟨l10, r10, g10, hg, e10⟩ := catRes_cons_ok hg
      have e11 := catRes_nil_ok hg
      subst e11 e10 e9 e8 e7 e6 e5 e4 e3 e2 e1
      have hs : ∀ (l : List Ext), (∀ x ∈ l, x ∈ (l1 ++ (l2 ++ (l3 ++ (l4 ++ (l5 ++ (l6 ++ (l7 ++ (l8 ++ (l9 ++ (l10 ++ [])))))))))) ++ t.extra)
          → ∀ x ∈ l, x.value.length < 2147483648 := fun l hl x hx => hsz x (hl x hx)
      have s1 := step1 tbl t d1 g1
      have s2 := step2 tbl t d4 d5 (hs l2 (by intro x hx; simp [hx])) g2
      have s3 := step3 tbl t d2 d3 g3
      have s4 := step4 tbl t (hs l4 (by intro x hx; simp [hx])) g4
      have s5 := step5 tbl t (hs l5 (by intro x hx; simp [hx])) g5
      have s6 := step6 tbl t (hs l6 (by intro x hx; simp [hx])) g6
      have s7 := step7 tbl t d7 (hs l7 (by intro x hx; simp [hx])) g7
      have s8 := step8 tbl t d6 (hs l8 (by intro x hx; simp [hx])) g8
      have s9 := step9 tbl t g9
      have s10 := step10 tbl t (hs l10 (by intro x hx; simp [hx])) g10
      rw [← stage_zero tbl t]
      simp only [applyExts_append, s1, s2, s3, s4, s5, s6, s7, s8, s9, s10, Res.bind, stage_ten]
      rfl
    · cases h
    · cases h

/-- the template's field vector: what `parseCertificate` reports when no `ExtraExtensions` entry overrides a builder -/
def templateFields (tbl : List (Nat × List Nat)) (t : Tmpl) : Fields :=
  let m := effectiveMaxPathLen t.maxPathLen t.maxPathLenZero
  { keyUsage := t.keyUsage
    ekuOids := oidContents (t.eku.filterMap (ekuLookup tbl) ++ t.unknownEku)
    bcValid := t.bcValid
    isCA := t.bcValid && t.isCA
    maxPathLen := if t.bcValid then m else 0
    maxPathLenZero := t.bcValid && m == 0
    ski := t.ski
    aki := t.aki
    san := ⟨t.dns, t.email, [], t.ips.map to4⟩
    ocsp := t.ocsp
    issuing := t.issuing
    crldp := t.crldp
    policies := oidContents t.policies }

theorem inExtra_false_of_not_modelled {extra : List Ext} (h : ∀ x ∈ extra, x.oid ∉ modelled) {oid : List Nat}
    (ho : oid ∈ modelled) : inExtra oid extra = false := by
  unfold inExtra
  rw [List.any_eq_false]
  intro x hx hc
  have : x.oid = oid := by simpa using hc
  exact h x hx (this ▸ ho)

theorem expected_eq_templateFields (h : ∀ x ∈ t.extra, x.oid ∉ modelled) : expected tbl t = templateFields tbl t := by
  have a := fun {oid} ho => inExtra_false_of_not_modelled (oid := oid) h ho
  simp [expected, templateFields, a (oid := oidKU) (by decide), a (oid := oidEKU) (by decide),
    a (oid := oidBC) (by decide), a (oid := oidSKI) (by decide), a (oid := oidAKI) (by decide),
    a (oid := oidSAN) (by decide), a (oid := oidAIA) (by decide), a (oid := oidCRLDP) (by decide),
    a (oid := oidPolicies) (by decide)]

end ZV.C04
