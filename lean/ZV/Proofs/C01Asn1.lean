import ZV.Model.C18
import Mathlib.Tactic.SplitIfs
/-!
  C01 lifted to the reflective `encoding/asn1` engine: helper lemmas over the deep-embedded model
  `ZV.Model.C18` (`parseField` / `parseFields` / `parseSequenceOf` and every primitive parser).

  * `…_np`   : the function never returns `Res.panic`
  * `…_adv`  : what an accepted call leaves is a suffix of what it was given (`Adv k r bs`: `r` is a
               suffix of `bs` and at least `k` bytes shorter)
  * `…_fuel` : the fuel of the two fuelled loops (`countElems`, `parseArcs`) is never the reason for a
               rejection when it is at least the input length (which is what the callers pass)
-/
namespace ZV.C01Asn1
open ZV ZV.C18

/-- closes `Res.ok _ ≠ Res.panic` / `Res.err ≠ Res.panic` -/
macro "rnp" : tactic => `(tactic| (intro hnp; cases hnp; done))

/-! ### suffix bookkeeping -/

/-- `r` is what is left of `bs` after consuming at least `k` bytes -/
def Adv (k : Nat) (r bs : Bytes) : Prop := r <:+ bs ∧ r.length + k ≤ bs.length

theorem Adv.refl (bs : Bytes) : Adv 0 bs bs := ⟨List.suffix_refl bs, by omega⟩

theorem Adv.cons {k : Nat} {r bs : Bytes} (b : UInt8) (h : Adv k r bs) : Adv (k + 1) r (b :: bs) :=
  ⟨List.IsSuffix.trans h.1 (List.suffix_cons b bs), by have := h.2; simp only [List.length_cons]; omega⟩

theorem Adv.trans {k j : Nat} {r m bs : Bytes} (h1 : Adv k r m) (h2 : Adv j m bs) : Adv (k + j) r bs :=
  ⟨List.IsSuffix.trans h1.1 h2.1, by have := h1.2; have := h2.2; omega⟩

theorem Adv.mono {k j : Nat} {r bs : Bytes} (hjk : j ≤ k) (h : Adv k r bs) : Adv j r bs :=
  ⟨h.1, by have := h.2; omega⟩

theorem Adv.drop (n : Nat) (bs : Bytes) (h : n ≤ bs.length) : Adv n (bs.drop n) bs :=
  ⟨List.drop_suffix n bs, by simp only [List.length_drop]; omega⟩

/-! ### `parseBase128Int` -/

theorem base128_np : ∀ (bs : Bytes) (sh acc : Nat), base128 sh acc bs ≠ .panic
  | [], _, _ => by simp [base128]
  | b :: r, sh, acc => by
    rw [base128]
    split_ifs <;> first | rnp | exact base128_np r _ _

theorem base128_adv : ∀ (bs : Bytes) (sh acc v : Nat) (r : Bytes), base128 sh acc bs = .ok (v, r) →
    Adv 1 r bs ∧ v ≤ 2147483647
  | [], _, _, _, _, h => by simp [base128] at h
  | b :: rest, sh, acc, v, r, h => by
    rw [base128] at h
    split_ifs at h with h1 h2 h3 h4
    · simp only [Res.ok.injEq, Prod.mk.injEq] at h
      obtain ⟨hv, hr⟩ := h
      subst hv hr
      exact ⟨(Adv.refl _).cons b, by omega⟩
    · obtain ⟨ha, hv⟩ := base128_adv rest _ _ v r h
      exact ⟨(ha.cons b).mono (by omega), hv⟩

/-! ### `parseTagAndLength` -/

theorem parseLenBytes_np : ∀ (n acc : Nat) (bs : Bytes), parseLenBytes n acc bs ≠ .panic
  | 0, _, _ => by simp [parseLenBytes]
  | _ + 1, _, [] => by simp [parseLenBytes]
  | n + 1, acc, b :: r => by
    rw [parseLenBytes]
    split_ifs <;> first | rnp | exact parseLenBytes_np n _ r

/-- the length loop consumes exactly its `n` bytes and keeps the value below 2^31 -/
theorem parseLenBytes_adv : ∀ (n acc : Nat) (bs : Bytes) (l : Nat) (r : Bytes),
    parseLenBytes n acc bs = .ok (l, r) → acc < 2147483648 → Adv n r bs ∧ l < 2147483648
  | 0, acc, bs, l, r, h, ha => by
    simp only [parseLenBytes, Res.ok.injEq, Prod.mk.injEq] at h
    obtain ⟨h1, h2⟩ := h
    subst h1 h2
    exact ⟨Adv.refl _, ha⟩
  | _ + 1, _, [], _, _, h, _ => by simp [parseLenBytes] at h
  | n + 1, acc, b :: rest, l, r, h, _ => by
    rw [parseLenBytes] at h
    split_ifs at h with h1 h2
    have hb := UInt8.toNat_lt b
    obtain ⟨ha, hl⟩ := parseLenBytes_adv n _ rest l r h (by omega)
    exact ⟨ha.cons b, hl⟩

theorem parseTagNum_np (b : UInt8) (r1 : Bytes) : parseTagNum b r1 ≠ .panic := by
  unfold parseTagNum
  split_ifs
  · have := base128_np r1 0 0
    split <;> first | rnp | (split_ifs <;> rnp) | (rename_i h; exact absurd h this)
  · rnp

theorem parseTagNum_adv (b : UInt8) (r1 : Bytes) (t : Nat) (r : Bytes) (h : parseTagNum b r1 = .ok (t, r)) :
    Adv 0 r r1 ∧ t ≤ 2147483647 := by
  unfold parseTagNum at h
  split_ifs at h with h1
  · split at h
    · rename_i t' r' hb
      split_ifs at h
      simp only [Res.ok.injEq, Prod.mk.injEq] at h
      obtain ⟨h2, h3⟩ := h
      subst h2 h3
      obtain ⟨ha, hv⟩ := base128_adv r1 0 0 _ _ hb
      exact ⟨ha.mono (by omega), hv⟩
    · cases h
    · cases h
  · simp only [Res.ok.injEq, Prod.mk.injEq] at h
    obtain ⟨h2, h3⟩ := h
    subst h2 h3
    exact ⟨Adv.refl _, by omega⟩

theorem parseTL_np (perm : Bool) : ∀ bs : Bytes, parseTL perm bs ≠ .panic
  | [] => by simp [parseTL]
  | b :: r1 => by
    rw [parseTL]
    have h1 := parseTagNum_np b r1
    split
    · rnp
    · rename_i h; exact absurd h h1
    · split
      · rnp
      · split_ifs
        · rnp
        · rnp
        · split
          · rnp
          · rename_i h; exact absurd h (parseLenBytes_np _ _ _)
          · split_ifs <;> rnp

/-- an accepted header consumes at least two bytes of its input; class < 4, tag < 2^31, length < 2^31 -/
theorem parseTL_adv (perm : Bool) : ∀ (bs : Bytes) (t : TL) (r : Bytes), parseTL perm bs = .ok (t, r) →
    Adv 2 r bs ∧ t.cls < 4 ∧ t.tag ≤ 2147483647 ∧ t.len < 2147483648
  | [], _, _, h => by simp [parseTL] at h
  | b :: r1, t, r, h => by
    rw [parseTL] at h
    have hb := UInt8.toNat_lt b
    split at h
    · cases h
    · cases h
    · rename_i tag r2 htn
      obtain ⟨ha, htag⟩ := parseTagNum_adv b r1 tag r2 htn
      split at h
      · cases h
      · rename_i b2 r3
        split_ifs at h with h1 h2
        · simp only [Res.ok.injEq, Prod.mk.injEq] at h
          obtain ⟨h3, h4⟩ := h
          subst h3 h4
          exact ⟨(((Adv.refl _).cons b2).trans ha).cons b, by simp only; omega, htag, by simp only; omega⟩
        · split at h
          · cases h
          · cases h
          · rename_i len r4 hl
            obtain ⟨hal, hlen⟩ := parseLenBytes_adv _ 0 r3 len r4 hl (by omega)
            split_ifs at h
            simp only [Res.ok.injEq, Prod.mk.injEq] at h
            obtain ⟨h3, h4⟩ := h
            subst h3 h4
            exact ⟨((((hal.mono (Nat.zero_le _)).cons b2).trans ha).cons b), by simp only; omega, htag, hlen⟩

/-! ### the primitive content parsers -/

theorem parseBool_np (bs : Bytes) : parseBool bs ≠ .panic := by
  unfold parseBool
  split
  · split_ifs <;> rnp
  · rnp

theorem parseInt64_np (perm : Bool) (bs : Bytes) : parseInt64 perm bs ≠ .panic := by
  unfold parseInt64
  split_ifs <;> rnp

theorem parseInt32_np (perm : Bool) (bs : Bytes) : parseInt32 perm bs ≠ .panic := by
  unfold parseInt32
  have := parseInt64_np perm bs
  split_ifs
  · rnp
  · split
    · split_ifs <;> rnp
    · rnp
    · rename_i h; exact absurd h this

theorem parseBigInt_np (perm : Bool) (bs : Bytes) : parseBigInt perm bs ≠ .panic := by
  unfold parseBigInt
  split_ifs
  · rnp
  · split
    · rnp
    · split_ifs <;> rnp

theorem parseBitString_np (bs : Bytes) : parseBitString bs ≠ .panic := by
  unfold parseBitString
  split
  · rnp
  · simp only
    split_ifs <;> rnp

theorem parseArcs_np : ∀ (fuel : Nat) (bs : Bytes), parseArcs fuel bs ≠ .panic
  | _, [] => by simp [parseArcs]
  | 0, _ :: _ => by simp [parseArcs]
  | f + 1, b :: r => by
    rw [parseArcs]
    have h1 := base128_np (b :: r) 0 0
    split
    · rename_i v r' _
      have h2 := parseArcs_np f r'
      split
      · rnp
      · rnp
      · rename_i h; exact absurd h h2
    · rnp
    · rename_i h; exact absurd h h1

theorem parseOID_np (bs : Bytes) : parseOID bs ≠ .panic := by
  unfold parseOID
  split
  · rnp
  · rename_i b r
    have h1 := base128_np (b :: r) 0 0
    split
    · rename_i v r' _
      have h2 := parseArcs_np r'.length r'
      split
      · split_ifs <;> rnp
      · rnp
      · rename_i h; exact absurd h h2
    · rnp
    · rename_i h; exact absurd h h1

theorem parseString_np (perm : Bool) (utag : Nat) (bs : Bytes) : parseString perm utag bs ≠ .panic := by
  unfold parseString parsePrintableString parseNumericString parseIA5String parseT61String parseUTF8String
    parseBMPString
  split_ifs <;> rnp

theorem resInt_np {r : Res Int} (h : r ≠ .panic) : resInt r ≠ .panic := by
  unfold resInt
  split
  · rnp
  · rnp
  · exact absurd rfl h

theorem parsePrim_np (perm : Bool) (s : Schema) (utag : Nat) (t : TL) (inner full : Bytes) :
    parsePrim perm s utag t inner full ≠ .panic := by
  unfold parsePrim
  split
  · rnp
  · exact parseOID_np _
  · exact parseBitString_np _
  · exact resInt_np (parseInt32_np _ _)
  · rnp
  · exact resInt_np (parseBigInt_np _ _)
  · exact parseBool_np _
  · exact resInt_np (parseInt32_np _ _)
  · exact resInt_np (parseInt64_np _ _)
  · rnp
  · exact parseString_np _ _ _
  · rnp

/-! ### `parseField` up to the type switch -/

theorem dfltOrErr_np (s : Schema) (p : Params) (bs : Bytes) : dfltOrErr s p bs ≠ .panic := by
  unfold dfltOrErr
  repeat' split
  all_goals rnp

theorem dfltOrErr_rest (s : Schema) (p : Params) (bs : Bytes) (v : Val) (r : Bytes)
    (h : dfltOrErr s p bs = .ok (v, r)) : r = bs := by
  unfold dfltOrErr at h
  repeat' split at h
  all_goals first
    | (cases h; done)
    | (simp only [Res.ok.injEq, Prod.mk.injEq] at h; exact h.2.symm)

theorem explicitStage_cont (perm : Bool) (s : Schema) (p : Params) (t0 : TL) (r0 : Bytes) (t : TL) (r : Bytes)
    (h : explicitStage perm s p t0 r0 = .cont t r) : Adv 0 r r0 ∧ (t0.len < 2147483648 → t.len < 2147483648) := by
  unfold explicitStage at h
  split_ifs at h
  all_goals first
    | (cases h; done)
    | (cases h; exact ⟨Adv.refl _, id⟩)
    | (split at h
       · rename_i t' r' hp
         cases h
         have := parseTL_adv perm r0 t r hp
         exact ⟨this.1.mono (by omega), fun _ => this.2.2.2⟩
       · cases h
       · cases h)

theorem explicitStage_flag (perm : Bool) (s : Schema) (p : Params) (t0 : TL) (r0 r : Bytes)
    (h : explicitStage perm s p t0 r0 = .flag r) : r = r0 := by
  unfold explicitStage at h
  split_ifs at h
  all_goals first
    | (cases h; done)
    | (cases h; rfl)
    | (split at h <;> cases h)

/-- the slice `bytes[offset : offset+t.length]` is in range: `take` does not truncate -/
theorem matchStage_go (s : Schema) (p : Params) (t : TL) (r : Bytes) (t' : TL) (utag : Nat) (inner rest : Bytes)
    (h : matchStage s p t r = .go t' utag inner rest) :
    t' = t ∧ inner ++ rest = r ∧ inner.length = t.len ∧ Adv t.len rest r := by
  unfold matchStage at h
  split at h
  · cases h
  · simp only at h
    split_ifs at h with h1 h2
    cases h
    refine ⟨rfl, List.take_append_drop _ _, ?_, Adv.drop _ _ (by omega)⟩
    simp only [List.length_take]; omega

/-- an accepted element `(header, content, rest)` lies inside the input: at least two header bytes, the
    content has exactly the announced length, and the three parts are the input -/
theorem parsePre_go (perm : Bool) (s : Schema) (p : Params) (bs : Bytes) (t : TL) (utag : Nat) (inner rest : Bytes)
    (h : parsePre perm s p bs = .go t utag inner rest) :
    Adv 2 (inner ++ rest) bs ∧ inner.length = t.len ∧ Adv (2 + inner.length) rest bs ∧ t.len < 2147483648 := by
  unfold parsePre at h
  split at h
  · cases h
  · cases h
  · rename_i t0 r0 hp
    obtain ⟨ha, _, _, hl0⟩ := parseTL_adv perm bs t0 r0 hp
    split at h
    · cases h
    · cases h
    · cases h
    · rename_i t1 r1 he
      obtain ⟨he1, he2⟩ := explicitStage_cont perm s p t0 r0 t1 r1 he
      obtain ⟨ht, h1, h2, h3⟩ := matchStage_go s p t1 r1 t utag inner rest h
      subst ht
      have h4 : Adv 2 r1 bs := by simpa using he1.trans ha
      refine ⟨h1 ▸ h4, h2, ?_, he2 hl0⟩
      rw [h2, Nat.add_comm]
      exact h3.trans h4

theorem parsePre_flag (perm : Bool) (s : Schema) (p : Params) (bs r : Bytes)
    (h : parsePre perm s p bs = .flag r) : Adv 2 r bs := by
  unfold parsePre at h
  split at h
  · cases h
  · cases h
  · rename_i t0 r0 hp
    have ha := (parseTL_adv perm bs t0 r0 hp).1
    split at h
    · cases h
    · cases h
    · rename_i r' he
      cases h
      rw [explicitStage_flag perm s p t0 r0 r he]
      exact ha
    · rename_i t1 r1 _
      unfold matchStage at h
      split at h
      · cases h
      · simp only at h
        split_ifs at h

/-- either nothing was consumed (an absent OPTIONAL element) or a whole element of ≥ 2 bytes was -/
def Consumed (rest bs : Bytes) : Prop := rest = bs ∨ Adv 2 rest bs

theorem Consumed.suffix {rest bs : Bytes} (h : Consumed rest bs) : rest <:+ bs := by
  rcases h with h | h
  · rw [h]; exact List.suffix_refl _
  · exact h.1

theorem primField_np (perm : Bool) (s : Schema) (p : Params) (bs : Bytes) : primField perm s p bs ≠ .panic := by
  unfold primField
  split_ifs
  · exact dfltOrErr_np _ _ _
  · split
    · rnp
    · exact dfltOrErr_np _ _ _
    · rnp
    · rename_i t utag inner rest _
      have := parsePrim_np perm s utag t inner (takeFull bs rest)
      split
      · rnp
      · rnp
      · rename_i h; exact absurd h this

theorem primField_consumed (perm : Bool) (s : Schema) (p : Params) (bs : Bytes) (v : Val) (r : Bytes)
    (h : primField perm s p bs = .ok (v, r)) : Consumed r bs := by
  unfold primField at h
  split_ifs at h
  · exact Or.inl (dfltOrErr_rest _ _ _ _ _ h)
  · split at h
    · cases h
    · exact Or.inl (dfltOrErr_rest _ _ _ _ _ h)
    · rename_i r' hp
      simp only [Res.ok.injEq, Prod.mk.injEq] at h
      rw [← h.2]
      exact Or.inr (parsePre_flag perm s p bs r' hp)
    · rename_i t utag inner rest hp
      split at h
      · simp only [Res.ok.injEq, Prod.mk.injEq] at h
        rw [← h.2]
        exact Or.inr ((parsePre_go perm s p bs t utag inner rest hp).2.2.1.mono (by omega))
      · cases h
      · cases h

/-! ### `parseSequenceOf` -/

theorem countElems_np (perm ma : Bool) (et : Nat) (ec : Bool) : ∀ (fuel : Nat) (bs : Bytes),
    countElems perm ma et ec fuel bs ≠ .panic
  | _, [] => by simp [countElems]
  | 0, _ :: _ => by simp [countElems]
  | f + 1, b :: bs => by
    rw [countElems]
    have h1 := parseTL_np perm (b :: bs)
    split
    · rnp
    · rename_i h; exact absurd h h1
    · rename_i t r _
      split_ifs
      · rnp
      · rnp
      · have h2 := countElems_np perm ma et ec f (r.drop t.len)
        split
        · rnp
        · rnp
        · rename_i h; exact absurd h h2

/-- the element count handed to `reflect.MakeSlice` is at most half the number of content bytes -/
theorem countElems_bound (perm ma : Bool) (et : Nat) (ec : Bool) : ∀ (fuel : Nat) (bs : Bytes) (n : Nat),
    countElems perm ma et ec fuel bs = .ok n → 2 * n ≤ bs.length
  | _, [], n, h => by simp only [countElems, Res.ok.injEq] at h; subst h; simp
  | 0, _ :: _, _, h => by simp [countElems] at h
  | f + 1, b :: bs, n, h => by
    rw [countElems] at h
    split at h
    · cases h
    · cases h
    · rename_i t r hp
      have ha := (parseTL_adv perm (b :: bs) t r hp).1
      split_ifs at h
      split at h
      · rename_i m hm
        simp only [Res.ok.injEq] at h
        subst h
        have := countElems_bound perm ma et ec f (r.drop t.len) m hm
        have := ha.2
        simp only [List.length_drop] at *
        omega
      · cases h
      · cases h

/-- the fuel is never what stops the counting loop: any two fuels ≥ the input length agree
    (every iteration consumes at least two bytes) -/
theorem countElems_fuel (perm ma : Bool) (et : Nat) (ec : Bool) : ∀ (f g : Nat) (bs : Bytes),
    bs.length ≤ f → bs.length ≤ g →
    countElems perm ma et ec f bs = countElems perm ma et ec g bs
  | _, _, [], _, _ => by simp [countElems]
  | 0, _, _ :: _, h, _ => by simp at h
  | _ + 1, 0, _ :: _, _, h => by simp at h
  | f + 1, g + 1, b :: bs, hf, hg => by
    rw [countElems, countElems]
    split
    · rfl
    · rfl
    · rename_i t r hp
      have ha := (parseTL_adv perm (b :: bs) t r hp).1.2
      split_ifs
      · rfl
      · rfl
      · rw [countElems_fuel perm ma et ec f g (r.drop t.len)
          (by simp only [List.length_drop]; omega) (by simp only [List.length_drop]; omega)]

theorem parseElems_np (pf : Bytes → Res (Val × Bytes)) (hpf : ∀ bs, pf bs ≠ .panic) : ∀ (n : Nat) (bs : Bytes),
    parseElems pf n bs ≠ .panic
  | 0, _ => by simp [parseElems]
  | n + 1, bs => by
    rw [parseElems]
    have h1 := hpf bs
    split
    · rename_i v r _
      have h2 := parseElems_np pf hpf n r
      split
      · rnp
      · rnp
      · rename_i h; exact absurd h h2
    · rnp
    · rename_i h; exact absurd h h1

/-! ### OBJECT IDENTIFIER: the arc slice (`make([]int, len(bytes)+1)`) and the loop fuel -/

theorem parseArcs_bound : ∀ (fuel : Nat) (bs : Bytes) (l : List Int), parseArcs fuel bs = .ok l →
    l.length ≤ bs.length
  | _, [], l, h => by simp only [parseArcs, Res.ok.injEq] at h; subst h; simp
  | 0, _ :: _, _, h => by simp [parseArcs] at h
  | f + 1, b :: r, l, h => by
    rw [parseArcs] at h
    split at h
    · rename_i v r' hb
      have ha := (base128_adv (b :: r) 0 0 v r' hb).1.2
      split at h
      · rename_i l' hl
        simp only [Res.ok.injEq] at h
        subst h
        have := parseArcs_bound f r' l' hl
        simp only [List.length_cons] at *
        omega
      · cases h
      · cases h
    · cases h
    · cases h

theorem parseArcs_fuel : ∀ (f g : Nat) (bs : Bytes), bs.length ≤ f → bs.length ≤ g →
    parseArcs f bs = parseArcs g bs
  | _, _, [], _, _ => by simp [parseArcs]
  | 0, _, _ :: _, h, _ => by simp at h
  | _ + 1, 0, _ :: _, _, h => by simp at h
  | f + 1, g + 1, b :: r, hf, hg => by
    rw [parseArcs, parseArcs]
    split
    · rename_i v r' hb
      have ha := (base128_adv (b :: r) 0 0 v r' hb).1.2
      simp only [List.length_cons] at ha hf hg
      rw [parseArcs_fuel f g r' (by omega) (by omega)]
    · rfl
    · rfl

/-- number of sub-identifiers of a decoded OID ≤ number of content bytes + 1 -/
theorem parseOID_bound (bs : Bytes) (l : List Int) (h : parseOID bs = .ok (.oid l)) : l.length ≤ bs.length + 1 := by
  unfold parseOID at h
  split at h
  · cases h
  · rename_i b r
    split at h
    · rename_i v r' hb
      have ha := (base128_adv (b :: r) 0 0 v r' hb).1.2
      split at h
      · rename_i l' hl
        have := parseArcs_bound _ r' l' hl
        split_ifs at h <;>
        · simp only [Res.ok.injEq, Val.oid.injEq] at h
          subst h
          simp only [List.length_cons] at *
          omega
      · cases h
      · cases h
    · cases h
    · cases h

/-! ### the engine: `parseField` / `parseFields` by induction over the schema -/

theorem parseElems_np' (perm : Bool) (e : Schema) (h : ∀ p bs, parseField perm e p bs ≠ .panic) (n : Nat) (bs : Bytes) :
    parseElems (fun b => parseField perm e {} b) n bs ≠ .panic :=
  parseElems_np _ (fun b => h {} b) n bs

theorem engine_np (perm : Bool) (s : Schema) :
    (∀ p bs, parseField perm s p bs ≠ .panic) ∧ (∀ bs, parseFields perm s bs ≠ .panic) := by
  induction s with
  | struct fs ih =>
    refine ⟨fun p bs => ?_, fun bs => by simp [parseFields]⟩
    simp only [parseField]
    split_ifs
    · exact dfltOrErr_np _ _ _
    · split
      · rnp
      · exact dfltOrErr_np _ _ _
      · rnp
      · rename_i inner rest _
        have := ih.2 inner
        split
        · rnp
        · rnp
        · rename_i h; exact absurd h this
  | seqOf sn e ih =>
    refine ⟨fun p bs => ?_, fun bs => by simp [parseFields]⟩
    simp only [parseField]
    split_ifs
    · exact dfltOrErr_np _ _ _
    · split
      · rnp
      · exact dfltOrErr_np _ _ _
      · rnp
      · rename_i inner rest _
        split
        · rnp
        · rename_i ma et ec _
          have h1 := countElems_np perm ma et ec inner.length inner
          split
          · rnp
          · rename_i h; exact absurd h h1
          · rename_i n _
            have h2 := parseElems_np' perm e ih.1 n inner
            split
            · rnp
            · rnp
            · rename_i h; exact absurd h h2
  | fnil => exact ⟨fun p bs => by simp [parseField], fun bs => by simp [parseFields]⟩
  | fcons p s rest ihs ihr =>
    refine ⟨fun p bs => by simp [parseField], fun bs => ?_⟩
    simp only [parseFields]
    have h1 := ihs.1 p bs
    split
    · rename_i v r _
      have h2 := ihr.2 r
      split
      · rnp
      · rnp
      · rename_i h; exact absurd h h2
    · rnp
    · rename_i h; exact absurd h h1
  | _ =>
    exact ⟨fun p bs => by simp only [parseField]; exact primField_np _ _ _ _, fun bs => by simp [parseFields]⟩

theorem engine_consumed (perm : Bool) (s : Schema) :
    (∀ p bs v r, parseField perm s p bs = .ok (v, r) → Consumed r bs) ∧
    (∀ bs v r, parseFields perm s bs = .ok (v, r) → r <:+ bs) := by
  induction s with
  | struct fs ih =>
    refine ⟨fun p bs v r h => ?_, fun bs v r h => by simp [parseFields] at h⟩
    simp only [parseField] at h
    split_ifs at h
    · exact Or.inl (dfltOrErr_rest _ _ _ _ _ h)
    · split at h
      · cases h
      · exact Or.inl (dfltOrErr_rest _ _ _ _ _ h)
      · rename_i r' hp
        simp only [Res.ok.injEq, Prod.mk.injEq] at h
        rw [← h.2]
        exact Or.inr (parsePre_flag perm _ p bs r' hp)
      · rename_i t utag inner rest hp
        split at h
        · simp only [Res.ok.injEq, Prod.mk.injEq] at h
          rw [← h.2]
          exact Or.inr ((parsePre_go perm _ p bs t utag inner rest hp).2.2.1.mono (by omega))
        · cases h
        · cases h
  | seqOf sn e ih =>
    refine ⟨fun p bs v r h => ?_, fun bs v r h => by simp [parseFields] at h⟩
    simp only [parseField] at h
    split_ifs at h
    · exact Or.inl (dfltOrErr_rest _ _ _ _ _ h)
    · split at h
      · cases h
      · exact Or.inl (dfltOrErr_rest _ _ _ _ _ h)
      · rename_i r' hp
        simp only [Res.ok.injEq, Prod.mk.injEq] at h
        rw [← h.2]
        exact Or.inr (parsePre_flag perm _ p bs r' hp)
      · rename_i t utag inner rest hp
        split at h
        · cases h
        · split at h
          · cases h
          · cases h
          · split at h
            · simp only [Res.ok.injEq, Prod.mk.injEq] at h
              rw [← h.2]
              exact Or.inr ((parsePre_go perm _ p bs t utag inner rest hp).2.2.1.mono (by omega))
            · cases h
            · cases h
  | fnil =>
    refine ⟨fun p bs v r h => by simp [parseField] at h, fun bs v r h => ?_⟩
    simp only [parseFields, Res.ok.injEq, Prod.mk.injEq] at h
    rw [← h.2]; exact List.suffix_refl _
  | fcons p s rest ihs ihr =>
    refine ⟨fun p bs v r h => by simp [parseField] at h, fun bs v r h => ?_⟩
    simp only [parseFields] at h
    split at h
    · rename_i v1 r1 h1
      split at h
      · rename_i vs r2 h2
        simp only [Res.ok.injEq, Prod.mk.injEq] at h
        rw [← h.2]
        exact List.IsSuffix.trans (ihr.2 r1 vs r2 h2) (ihs.1 p bs v1 r1 h1).suffix
      · cases h
      · cases h
    · cases h
    · cases h
  | _ =>
    exact ⟨fun p bs v r h => by simp only [parseField] at h; exact primField_consumed _ _ _ _ _ _ h,
      fun bs v r h => by simp [parseFields] at h⟩

end ZV.C01Asn1

namespace ZV.C01Asn1
open ZV ZV.C18

/-! ### certificate-shaped schemas (what the harness derives by reflection from the zcrypto types; `asn1.RawContent`
    fields are dropped and `time.Time` is kept as a `RawValue`, both are outside `ZV.Model.C18`) -/

/-- `pkix.AlgorithmIdentifier { Algorithm ObjectIdentifier; Parameters RawValue "optional" }` -/
def algId : Schema := .struct (.fcons {} .oid (.fcons { optional := true } .raw .fnil))

/-- `publicKeyInfo { Algorithm AlgorithmIdentifier; PublicKey BitString }` -/
def spki : Schema := .struct (.fcons {} algId (.fcons {} .bits .fnil))

/-- `pkix.Extension { Id ObjectIdentifier; Critical bool "optional"; Value []byte }` -/
def extension : Schema := .struct (.fcons {} .oid (.fcons { optional := true } .bool (.fcons {} .octets .fnil)))

/-- `tbsCertificate` (x509.go): version `optional,explicit,default:0,tag:0`, serial `*big.Int`, signature algorithm,
    issuer `RawValue`, validity (kept raw), subject `RawValue`, SPKI, the two unique ids `optional,tag:1|2`,
    extensions `optional,explicit,tag:3` -/
def tbsCertificate : Schema :=
  .struct
    (.fcons { optional := true, explicit := true, defaultValue := some 0, tag := some 0 } .int64
    (.fcons {} .bigint
    (.fcons {} algId
    (.fcons {} .raw
    (.fcons {} .raw
    (.fcons {} .raw
    (.fcons {} spki
    (.fcons { optional := true, tag := some 1 } .bits
    (.fcons { optional := true, tag := some 2 } .bits
    (.fcons { optional := true, explicit := true, tag := some 3 } (.seqOf false extension) .fnil))))))))))

/-- `certificate { TBSCertificate; SignatureAlgorithm; SignatureValue BitString }` -/
def certificate : Schema := .struct (.fcons {} tbsCertificate (.fcons {} algId (.fcons {} .bits .fnil)))

/-- `pkix.RDNSequence = []RelativeDistinguishedNameSET`, `RelativeDistinguishedNameSET = []AttributeTypeAndValue`,
    with the value taken as a string (`AttributeTypeAndValue.Value` is `interface{}` in Go: outside the model) -/
def rdnSequence : Schema := .seqOf false (.seqOf true (.struct (.fcons {} .oid (.fcons {} .str .fnil))))

/-- a 49-byte v3 certificate skeleton -/
def miniCert : Bytes :=
  [0x30, 0x2f,
    0x30, 0x22,
      0xa0, 0x03, 0x02, 0x01, 0x02,
      0x02, 0x01, 0x01,
      0x30, 0x05, 0x06, 0x03, 0x2a, 0x03, 0x04,
      0x30, 0x00,
      0x30, 0x00,
      0x30, 0x00,
      0x30, 0x0b, 0x30, 0x05, 0x06, 0x03, 0x2a, 0x03, 0x04, 0x03, 0x02, 0x00, 0x01,
    0x30, 0x05, 0x06, 0x03, 0x2a, 0x03, 0x04,
    0x03, 0x02, 0x00, 0xff]

end ZV.C01Asn1
