import ZV.Model.C06Multi
import ZV.Proofs.C06Canon
/-! Lemmas for the bundle entry point (`parseCerts`). -/
namespace ZV.C06
open ZV ZV.Der

theorem parseCert_eq_elem (bs : Bytes) :
    parseCert bs = (someElem (field (.univ 16 true) false bs)).bind fun c =>
      if !c.2.isEmpty then .err else parseCertElem c.1 := rfl

/-- the head parser hands on a strictly shorter rest -/
theorem parseCertHead_rest_lt {bs : Bytes} {c : Cert} {rest : Bytes} (h : parseCertHead bs = .ok (c, rest)) :
    rest.length + 2 ≤ bs.length := by
  unfold parseCertHead at h
  rw [bind_ok] at h; obtain ⟨⟨ce, r⟩, hc, h⟩ := h
  rw [bind_ok] at h; obtain ⟨x, _, h⟩ := h
  simp at h
  obtain ⟨_, h2⟩ := h
  subst h2
  exact readElem_rest_lt _ _ _ (someElem_field hc)

/-- more fuel than the input length changes nothing -/
theorem parseCertsFuel_fuel : ∀ (n m : Nat) (bs : Bytes), bs.length ≤ n → bs.length ≤ m →
    parseCertsFuel n bs = parseCertsFuel m bs := by
  intro n
  induction n with
  | zero =>
    intro m bs hn _
    have : bs = [] := List.eq_nil_of_length_eq_zero (by omega)
    subst this
    cases m <;> simp [parseCertsFuel]
  | succ n ih =>
    intro m bs hn hm
    cases m with
    | zero =>
      have : bs = [] := List.eq_nil_of_length_eq_zero (by omega)
      subst this
      simp [parseCertsFuel]
    | succ m =>
      simp only [parseCertsFuel]
      split
      · rfl
      · cases hh : parseCertHead bs with
        | ok x =>
          have hlt := parseCertHead_rest_lt (c := x.1) (rest := x.2) hh
          simp only [Res.bind]
          rw [ih m x.2 (by omega) (by omega)]
        | err => rfl
        | panic => rfl

end ZV.C06
