import ZV.Model.C25
/-! helper lemmas for the transport / readRecordOrCCS theorems of `ZV.Props.C25` -/
namespace ZV.C25

theorem readAtLeast_cases (chunks : List Bytes) : ∀ (raw : Bytes) (need : Nat), 0 < need →
    (∃ raw' cs', readAtLeast raw need chunks = (raw', cs', none) ∧
        raw' ++ cs'.flatten = raw ++ chunks.flatten ∧ raw.length + need ≤ raw'.length) ∨
    (readAtLeast raw need chunks = (raw ++ chunks.flatten, [], some .unexpectedEOF) ∧
        chunks.flatten.length < need) := by
  induction chunks with
  | nil => intro raw need h; right; simp [readAtLeast, h]
  | cons b rest ih =>
    intro raw need h
    unfold readAtLeast
    by_cases hb : need ≤ b.length
    · left
      refine ⟨raw ++ b, rest, by simp [hb], by simp, by simp; omega⟩
    · simp only [hb, if_false]
      rcases ih (raw ++ b) (need - b.length) (by omega) with ⟨raw', cs', h1, h2, h3⟩ | ⟨h1, h2⟩
      · left; refine ⟨raw', cs', h1, by simp [h2], by simp at h3; omega⟩
      · right; refine ⟨by simp [h1], by rw [List.flatten_cons, List.length_append]; omega⟩

/-- `readFromUntil` either returns with at least `n` bytes buffered — never losing or reordering a byte
    of `rawInput ++ transport` — or has drained the whole transport into `rawInput` and reports
    io.ErrUnexpectedEOF, which happens exactly when fewer than `n` bytes exist in total. -/
theorem readFromUntil_cases (raw : Bytes) (n : Nat) (chunks : List Bytes) :
    (∃ raw' cs', readFromUntil raw n chunks = (raw', cs', none) ∧
        raw' ++ cs'.flatten = raw ++ chunks.flatten ∧ n ≤ raw'.length) ∨
    (readFromUntil raw n chunks = (raw ++ chunks.flatten, [], some .unexpectedEOF) ∧
        (raw ++ chunks.flatten).length < n) := by
  unfold readFromUntil
  by_cases h : raw.length ≥ n
  · left; exact ⟨raw, chunks, by simp [h], rfl, h⟩
  · simp only [h, if_false]
    rcases readAtLeast_cases chunks raw (n - raw.length) (by omega) with ⟨raw', cs', h1, h2, h3⟩ | ⟨h1, h2⟩
    · left; exact ⟨raw', cs', h1, h2, by omega⟩
    · right; exact ⟨h1, by rw [List.length_append]; omega⟩

/-- what `fetch` does, as a function of the byte stream alone (no transport) -/
inductive FetchedS where
  | fail (e : ErrK)
  | record (record rest : Bytes)
  deriving DecidableEq

def fetchS {σ} (c : Conn σ) (total : Bytes) : FetchedS :=
  match total with
  | typ :: v1 :: v2 :: l1 :: l2 :: body =>
    match headerCheck c typ v1 v2 l1 l2 with
    | some e => .fail e
    | none =>
      let n := l1.toNat * 256 + l2.toNat
      if body.length < n then .fail (.io .unexpectedEOF)
      else .record (total.take (recordHeaderLen + n)) (total.drop (recordHeaderLen + n))
  | [] => .fail (.io .eof)
  | _ => .fail (.io .unexpectedEOF)

def absF : Fetched → FetchedS
  | .fail _ _ e => .fail e
  | .record r rest cs => .record r (rest ++ cs.flatten)

theorem fetchS_short {σ} (c : Conn σ) (total : Bytes) (h : total.length < 5) :
    fetchS c total = .fail (.io (if total.length == 0 then .eof else .unexpectedEOF)) := by
  match total, h with
  | [], _ => rfl
  | [_], _ => rfl
  | [_, _], _ => rfl
  | [_, _, _], _ => rfl
  | [_, _, _, _], _ => rfl
  | _ :: _ :: _ :: _ :: _ :: _, h => simp at h; omega

theorem fetch_eq_fetchS {σ} (c : Conn σ) (raw : Bytes) (chunks : List Bytes) :
    absF (fetch c raw chunks) = fetchS c (raw ++ chunks.flatten) := by
  rcases readFromUntil_cases raw recordHeaderLen chunks with ⟨raw', cs', h, htot, hlen⟩ | ⟨h, hlt⟩
  · rw [← htot]
    match raw', hlen, h with
    | typ :: v1 :: v2 :: l1 :: l2 :: tl, _, h =>
      unfold fetch
      rw [h]
      simp only [List.cons_append, fetchS]
      cases hc : headerCheck c typ v1 v2 l1 l2 with
      | some e => simp [absF]
      | none =>
        simp only []
        rcases readFromUntil_cases (typ :: v1 :: v2 :: l1 :: l2 :: tl)
          (recordHeaderLen + (l1.toNat * 256 + l2.toNat)) cs' with ⟨raw2, cs2, h2, htot2, hlen2⟩ | ⟨h2, hlt2⟩
        · rw [h2]
          have hl : ¬ (tl ++ cs'.flatten).length < l1.toNat * 256 + l2.toNat := by
            have := congrArg List.length htot2
            simp only [List.length_append, List.length_cons, recordHeaderLen] at this hlen2 ⊢
            omega
          simp only [hl, if_false, absF]
          have e1 : typ :: v1 :: v2 :: l1 :: l2 :: (tl ++ cs'.flatten) = raw2 ++ cs2.flatten := by
            rw [htot2]; simp
          rw [e1, List.take_append_of_le_length hlen2, List.drop_append_of_le_length hlen2]
        · rw [h2]
          have hl : (tl ++ cs'.flatten).length < l1.toNat * 256 + l2.toNat := by
            simp only [List.length_append, List.length_cons, List.cons_append, recordHeaderLen] at hlt2 ⊢; omega
          simp only [hl, if_true, absF]
    | [], hl, _ => simp [recordHeaderLen] at hl
    | [_], hl, _ => simp [recordHeaderLen] at hl
    | [_, _], hl, _ => simp [recordHeaderLen] at hl
    | [_, _, _], hl, _ => simp [recordHeaderLen] at hl
    | [_, _, _, _], hl, _ => simp [recordHeaderLen] at hl
  · unfold fetch
    rw [h, fetchS_short c _ (by simpa [recordHeaderLen] using hlt)]
    simp [absF]

/-! simulation: two reader states with the same core and the same bytes still to come -/

def Sim {σ} (a b : RState σ) : Prop :=
  a.core = b.core ∧ (a.core.inErr = none → a.raw ++ a.chunks.flatten = b.raw ++ b.chunks.flatten)

def RStepSim {σ} : RStep σ → RStep σ → Prop
  | .done a o, .done b o' => Sim a b ∧ o = o'
  | .retry a, .retry b => Sim a b
  | .panic, .panic => True
  | _, _ => False

theorem readStep_sim {σ} (a b : RState σ) (e : Bool) (h : Sim a b) : RStepSim (readStep a e) (readStep b e) := by
  obtain ⟨hc, ht⟩ := h
  unfold readStep
  rw [← hc]
  cases hie : a.core.inErr with
  | some er =>
    simp only [RStepSim, Sim, and_true]
    exact ⟨hc, fun h => by rw [hie] at h; cases h⟩
  | none =>
    simp only []
    by_cases hin : a.core.input.length != 0
    · simp [hin, RStepSim, Sim]
    · simp only [hin]
      have hf := fetch_eq_fetchS a.core.c a.raw a.chunks
      have hg := fetch_eq_fetchS a.core.c b.raw b.chunks
      rw [ht hie, ← hg] at hf
      cases hfa : fetch a.core.c a.raw a.chunks with
      | fail r1 c1 e1 =>
        cases hfb : fetch a.core.c b.raw b.chunks with
        | fail r2 c2 e2 =>
          rw [hfa, hfb] at hf
          simp only [absF, FetchedS.fail.injEq] at hf
          subst hf
          simp [RStepSim, Sim]
        | record _ _ _ => rw [hfa, hfb] at hf; simp [absF] at hf
      | record rec1 rest1 c1 =>
        cases hfb : fetch a.core.c b.raw b.chunks with
        | fail r2 c2 e2 => rw [hfa, hfb] at hf; simp [absF] at hf
        | record rec2 rest2 c2 =>
          rw [hfa, hfb] at hf
          simp only [absF, FetchedS.record.injEq] at hf
          obtain ⟨h1, h2⟩ := hf
          subst h1
          simp only []
          cases process a.core e rec1 with
          | done k o => simp [RStepSim, Sim, h2]
          | retry k => simp [RStepSim, Sim, h2]
          | panic => simp [RStepSim]

theorem readLoop_sim {σ} (e : Bool) (fuel : Nat) : ∀ (a b : RState σ), Sim a b →
    (readLoop e fuel a = none ∧ readLoop e fuel b = none) ∨
    (∃ a' b' o, readLoop e fuel a = some (a', o) ∧ readLoop e fuel b = some (b', o) ∧ Sim a' b') := by
  induction fuel with
  | zero => intro a b _; left; simp [readLoop]
  | succ n ih =>
    intro a b h
    have hs := readStep_sim a b e h
    unfold readLoop
    cases ha : readStep a e with
    | done a' o =>
      cases hb : readStep b e with
      | done b' o' => rw [ha, hb] at hs; right; exact ⟨a', b', o, rfl, by rw [hs.2], hs.1⟩
      | retry _ => rw [ha, hb] at hs; exact absurd hs (by simp [RStepSim])
      | panic => rw [ha, hb] at hs; exact absurd hs (by simp [RStepSim])
    | retry a' =>
      cases hb : readStep b e with
      | done _ _ => rw [ha, hb] at hs; exact absurd hs (by simp [RStepSim])
      | retry b' => rw [ha, hb] at hs; exact ih a' b' hs
      | panic => rw [ha, hb] at hs; exact absurd hs (by simp [RStepSim])
    | panic =>
      cases hb : readStep b e with
      | done _ _ => rw [ha, hb] at hs; exact absurd hs (by simp [RStepSim])
      | retry _ => rw [ha, hb] at hs; exact absurd hs (by simp [RStepSim])
      | panic => left; simp

theorem readAll_sim {σ} (n : Nat) : ∀ (a b : RState σ), Sim a b → readAll n a = readAll n b := by
  induction n with
  | zero => intro a b _; rfl
  | succ n ih =>
    intro a b h
    unfold readAll readRecordOrCCS
    rcases readLoop_sim false (maxUselessRecords + 1) a b h with ⟨h1, h2⟩ | ⟨a', b', o, h1, h2, hs⟩
    · rw [h1, h2]
    · rw [h1, h2]
      obtain ⟨hc, ht⟩ := hs
      cases o with
      | data d =>
        simp only []
        rw [ih a'.drained b'.drained ⟨by simp [RState.drained, hc], by simpa [RState.drained] using ht⟩]
      | hand =>
        simp only []
        exact ih _ _ ⟨by simp [hc], by simpa using ht⟩
      | ccs => exact ih _ _ ⟨hc, ht⟩
      | err e => rfl


/-! facts about `process` (the content-type switch) by case analysis -/

theorem retryStep_retry {σ} (k k' : RCore σ) (h : retryStep k = .retry k') :
    k'.c.retryCount = k.c.retryCount + 1 ∧ k'.c.retryCount ≤ maxUselessRecords ∧
      k'.c.hc = k.c.hc ∧ k'.inErr = k.inErr ∧ k'.input = k.input := by
  unfold retryStep at h
  simp only [failStep] at h
  split at h
  · cases h
  · cases h; simp; omega

theorem retryStep_done {σ} (k k' : RCore σ) (o : ROut) (h : retryStep k = .done k' o) :
    o = .err .tooManyIgnored ∧ k'.inErr = some .tooManyIgnored := by
  unfold retryStep at h
  simp only [failStep] at h
  split at h
  · cases h; simp
  · cases h

theorem process_retry {σ} (k k' : RCore σ) (e : Bool) (r : Bytes) (h : process k e r = .retry k') :
    k'.c.retryCount = k.c.retryCount + 1 ∧ k'.c.retryCount ≤ maxUselessRecords := by
  revert h
  fun_cases process k e r <;> intro h <;> first
    | (simp only [failStep] at h; cases h; done)
    | (cases h; done)
    | (obtain ⟨h1, h2, -⟩ := retryStep_retry _ _ h
       simp_all +zetaDelta)


theorem process_data {σ} (k k' : RCore σ) (e : Bool) (r d : Bytes) (h : process k e r = .done k' (.data d)) :
    e = false ∧ k.c.handshakeComplete = true ∧
    (∃ hc', decrypt k.c.hc r = .ok (d, recordTypeApplicationData, hc') ∧ k'.c.hc = hc') ∧
    1 ≤ d.length ∧ d.length ≤ maxPlaintext ∧ k'.input = d ∧ k'.inErr = k.inErr := by
  revert h
  fun_cases process k e r <;> intro h <;> first
    | (simp only [failStep] at h; cases h; done)
    | (cases h; done)
    | (have := (retryStep_done _ _ _ h).1; cases this; done)
    | (cases h
       simp_all +zetaDelta
       cases d with
       | nil => simp_all
       | cons _ _ => simp)

theorem process_err {σ} (k k' : RCore σ) (e : Bool) (r : Bytes) (er : ErrK) (h : process k e r = .done k' (.err er)) :
    k'.inErr = some er := by
  revert h
  fun_cases process k e r <;> intro h <;> first
    | (simp only [failStep] at h; cases h; rfl)
    | (cases h; done)
    | (obtain ⟨h1, h2⟩ := retryStep_done _ _ _ h; cases h1; exact h2)

/-- `halfConn.changeCipherSpec` succeeds only below TLS 1.3 with a pending (non-nil) cipher; the new state
    has that cipher, an all-zero sequence number of the same length, the same version. -/
theorem changeCipherSpec_spec {σ} (hc hc2 : HalfConn σ) (next : Option (Cipher σ × σ))
    (h : changeCipherSpec hc next = some hc2) :
    (∀ b ∈ hc2.seq, b = 0) ∧ hc2.seq.length = hc.seq.length ∧ hc.version ≠ VersionTLS13 ∧
    hc2.version = hc.version ∧ ∃ st, next = some (hc2.cipher, st) ∧ hc2.st = st := by
  unfold changeCipherSpec at h
  split at h
  · cases h
  · cases h
  · rename_i ci st hnn
    split at h
    · cases h
    · rename_i hv
      cases h
      refine ⟨?_, by simp, by simpa using hv, rfl, st, rfl, rfl⟩
      intro b hb
      simp at hb
      exact hb.2.symm

theorem process_ccs {σ} (k k' : RCore σ) (e : Bool) (r : Bytes) (h : process k e r = .done k' .ccs) :
    e = true ∧ k.c.vers ≠ VersionTLS13 ∧ k'.next = none ∧ (∀ b ∈ k'.c.hc.seq, b = 0) ∧
    ∃ d hc', decrypt k.c.hc r = .ok (d, recordTypeChangeCipherSpec, hc') ∧ d = [1] ∧
      changeCipherSpec hc' k.next = some k'.c.hc := by
  revert h
  fun_cases process k e r <;> intro h <;> first
    | (simp only [failStep] at h; cases h; done)
    | (cases h; done)
    | (have := (retryStep_done _ _ _ h).1; cases this; done)
    | (cases h
       rename_i hc2 hccs
       refine ⟨by simp_all, by simp_all +zetaDelta, rfl, ?_, ?_⟩
       · exact (changeCipherSpec_spec _ _ _ hccs).1
       · simp_all +zetaDelta
         exact ⟨[1], _, ⟨rfl, rfl⟩, rfl, hccs⟩)

theorem process_decrypt_err {σ} (k : RCore σ) (e : Bool) (r : Bytes) (h : decrypt k.c.hc r = .err) :
    process k e r = .done { k with inErr := some (.localAlert (decryptAlert k.c.hc r)) }
      (.err (.localAlert (decryptAlert k.c.hc r))) := by
  simp [process, h, failStep]

end ZV.C25
