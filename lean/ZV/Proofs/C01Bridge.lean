import ZV.Proofs.C01
import ZV.Proofs.C18
/-!
  Bridge between the two models of the DER header reader of `encoding/asn1`:

  * `ZV.C01.parseTagAndLength` works on `(bytes, offset)` exactly like the Go code, every index expression is
    `idx` (out of range = `Res.panic`); tied to the code by the T2 stream `c01 tl`;
  * `ZV.C18.parseTL` works on the remaining suffix `bytes[offset:]` and is what the `parseField` engine of
    `ZV.Model.C18` is built on; tied to the code by the C18 / C20 streams.

  `header_bridge`: they are the same function (`rest = bytes[offset':]`), so the suffix style of the engine model
  hides no out-of-range index of the header reader.
-/
namespace ZV.C01Asn1
open ZV

theorem byte_forall (P : UInt8 → Prop) (h : ∀ n, n < 256 → P (UInt8.ofNat n)) (b : UInt8) : P b := by
  have := h b.toNat (UInt8.toNat_lt b); rwa [UInt8.ofNat_toNat] at this

set_option maxRecDepth 20000 in
theorem and7f (b : UInt8) : (b &&& 0x7f).toNat = b.toNat % 128 :=
  byte_forall (fun b => (b &&& 0x7f).toNat = b.toNat % 128) (by decide) b
set_option maxRecDepth 20000 in
theorem and1f (b : UInt8) : (b &&& 0x1f).toNat = b.toNat % 32 :=
  byte_forall (fun b => (b &&& 0x1f).toNat = b.toNat % 32) (by decide) b
set_option maxRecDepth 20000 in
theorem shr6 (b : UInt8) : (b >>> 6).toNat = b.toNat / 64 :=
  byte_forall (fun b => (b >>> 6).toNat = b.toNat / 64) (by decide) b
set_option maxRecDepth 20000 in
theorem and80 (b : UInt8) : (b &&& 0x80 = 0) ↔ b.toNat < 128 :=
  byte_forall (fun b => (b &&& 0x80 = 0) ↔ b.toNat < 128) (by decide) b
set_option maxRecDepth 20000 in
theorem eq80 (b : UInt8) : (b = 0x80) ↔ b.toNat = 128 :=
  byte_forall (fun b => (b = 0x80) ↔ b.toNat = 128) (by decide) b
set_option maxRecDepth 20000 in
theorem and20 (b : UInt8) : (b &&& 0x20 = 0x20) ↔ b.toNat / 32 % 2 = 1 :=
  byte_forall (fun b => (b &&& 0x20 = 0x20) ↔ b.toNat / 32 % 2 = 1) (by decide) b

theorem idx_ok {bs : Bytes} {off : Nat} {b : UInt8} (h : C01.idx bs off = .ok b) :
    bs.drop off = b :: bs.drop (off + 1) := by
  unfold C01.idx at h
  split at h
  · rename_i b' hb
    cases h
    obtain ⟨hlt, rfl⟩ := List.getElem?_eq_some_iff.mp hb
    exact List.drop_eq_getElem_cons hlt
  · cases h

theorem idx_lt {bs : Bytes} {off : Nat} (h : off < bs.length) : ∃ b, C01.idx bs off = .ok b := by
  unfold C01.idx
  rw [List.getElem?_eq_getElem h]
  exact ⟨_, rfl⟩

/-- offsets to suffixes -/
def liftN (bs : Bytes) : Res (Nat × Nat) → Res (Nat × Bytes)
  | .ok (v, o) => .ok (v, bs.drop o) | .err => .err | .panic => .panic

theorem b128_bridge (bs : Bytes) (sh acc off : Nat) :
    C18.base128 sh acc (bs.drop off) = liftN bs (C01.b128Loop bs sh acc off) := by
  fun_induction C01.b128Loop bs sh acc off
  case case1 hlt =>
    obtain ⟨b, hb⟩ := idx_lt hlt
    rw [idx_ok hb, C18.base128]; simp [liftN]
  case case2 hlt h5 b hb h =>
    rw [idx_ok hb, C18.base128, if_neg h5, if_pos ⟨h.1, (eq80 b).mp h.2⟩]; rfl
  case case3 hlt h5 b hb h acc' h80 hgt =>
    rw [idx_ok hb, C18.base128, if_neg h5, if_neg (fun hh => h ⟨hh.1, (eq80 b).mpr hh.2⟩),
      if_pos ((and80 b).mp h80), ← and7f b, if_pos hgt]; rfl
  case case4 hlt h5 b hb h acc' h80 hgt =>
    rw [idx_ok hb, C18.base128, if_neg h5, if_neg (fun hh => h ⟨hh.1, (eq80 b).mpr hh.2⟩),
      if_pos ((and80 b).mp h80), ← and7f b, if_neg hgt]; rfl
  case case5 hlt h5 b hb h acc' h80 ih =>
    rw [idx_ok hb, C18.base128, if_neg h5, if_neg (fun hh => h ⟨hh.1, (eq80 b).mpr hh.2⟩),
      if_neg (fun hh => h80 ((and80 b).mpr hh)), ← and7f b]
    exact ih
  case case6 hlt _ hidx => obtain ⟨b, hb⟩ := idx_lt hlt; rw [hb] at hidx; cases hidx
  case case7 hlt _ hidx => obtain ⟨b, hb⟩ := idx_lt hlt; rw [hb] at hidx; cases hidx
  case case8 hge =>
    rw [List.drop_eq_nil_of_le (by omega), C18.base128]; rfl

theorem lenLoop_bridge (bs : Bytes) : ∀ (n len off : Nat),
    C18.parseLenBytes n len (bs.drop off) = liftN bs (C01.lenLoop bs n len off)
  | 0, len, off => by simp [C18.parseLenBytes, C01.lenLoop, liftN]
  | n + 1, len, off => by
    by_cases hlt : off < bs.length
    · obtain ⟨b, hb⟩ := idx_lt hlt
      rw [idx_ok hb]
      simp only [C18.parseLenBytes, C01.lenLoop, hb]
      rw [if_neg (show ¬ off ≥ bs.length by omega)]
      split_ifs
      · rfl
      · rfl
      · exact lenLoop_bridge bs n _ _
    · rw [List.drop_eq_nil_of_le (by omega)]
      simp only [C18.parseLenBytes, C01.lenLoop]
      rw [if_pos (show off ≥ bs.length by omega)]; rfl

def tlOf (t : C01.TL) : C18.TL := { cls := t.cls, tag := t.tag, len := t.len, compound := t.compound }

def liftTL (bs : Bytes) : Res (C01.TL × Nat) → Res (C18.TL × Bytes)
  | .ok (t, o) => .ok (tlOf t, bs.drop o) | .err => .err | .panic => .panic

/-- the length octets: `parseLength` (offsets, explicit indexing) = `readLen` (suffixes) -/
theorem parseLength_bridge (perm : Bool) (bs : Bytes) (cls tag : Nat) (comp : Bool) (off : Nat) :
    (match C18.readLen perm (bs.drop off) with
      | .ok (len, r) => Res.ok (({ cls := cls, tag := tag, len := len, compound := comp } : C18.TL), r)
      | .err => .err
      | .panic => .panic) = liftTL bs (C01.parseLength perm bs cls tag comp off) := by
  by_cases hlt : off < bs.length
  · obtain ⟨b, hb⟩ := idx_lt hlt
    rw [idx_ok hb]
    unfold C18.readLen C01.parseLength
    rw [if_neg (show ¬ off ≥ bs.length by omega), hb]
    simp only
    by_cases h80 : b &&& 0x80 = 0
    · rw [if_pos h80, if_pos ((and80 b).mp h80), and7f b]
      have : b.toNat % 128 = b.toNat := Nat.mod_eq_of_lt ((and80 b).mp h80)
      rw [this]; rfl
    · rw [if_neg h80, if_neg (fun hh => h80 ((and80 b).mpr hh)), and7f b]
      by_cases h0 : b.toNat % 128 = 0
      · rw [if_pos h0, if_pos h0]; rfl
      · rw [if_neg h0, if_neg h0, lenLoop_bridge bs _ 0 (off + 1)]
        cases C01.lenLoop bs (b.toNat % 128) 0 (off + 1) with
        | err => rfl
        | panic => rfl
        | ok x =>
          obtain ⟨len, o⟩ := x
          simp only [liftN]
          by_cases hp : (!perm && decide (len < 128)) = true
          · have : (!perm) = true ∧ len < 128 := by simpa using hp
            rw [if_pos hp, if_pos (by simpa using this)]; rfl
          · have : ¬((!perm) = true ∧ len < 128) := by simpa using hp
            rw [if_neg hp, if_neg (by simpa using this)]; rfl
  · rw [List.drop_eq_nil_of_le (by omega)]
    unfold C18.readLen C01.parseLength
    rw [if_pos (show off ≥ bs.length by omega)]; rfl

/-- **the two header readers are the same function** -/
theorem header_bridge (perm : Bool) (bs : Bytes) (off : Nat) :
    C18.parseTL perm (bs.drop off) = liftTL bs (C01.parseTagAndLength perm bs off) := by
  by_cases hlt : off < bs.length
  · obtain ⟨b, hb⟩ := idx_lt hlt
    rw [idx_ok hb, C18.parseTL_eq]
    unfold C18.parseTagNum C01.parseTagAndLength C01.parseBase128Int
    rw [if_neg (show ¬ off ≥ bs.length by omega), hb]
    have hd : decide (b &&& 0x20 = 0x20) = decide (b.toNat / 32 % 2 = 1) := decide_eq_decide.mpr (and20 b)
    simp only [and1f b, shr6 b, hd]
    by_cases h31 : b.toNat % 32 = 31
    · rw [if_pos h31, if_pos h31, b128_bridge bs 0 0 (off + 1)]
      cases C01.b128Loop bs 0 0 (off + 1) with
      | err => rfl
      | panic => rfl
      | ok x =>
        obtain ⟨t, o⟩ := x
        simp only [liftN]
        by_cases ht : t < 31
        · rw [if_pos ht, if_pos ht]; rfl
        · rw [if_neg ht, if_neg ht]
          simp only
          rw [← parseLength_bridge]
          generalize C18.readLen perm _ = x
          rcases x with ⟨_, _⟩ | _ | _ <;> rfl
    · rw [if_neg h31, if_neg h31]
      simp only
      rw [← parseLength_bridge]
      generalize C18.readLen perm _ = x
      rcases x with ⟨_, _⟩ | _ | _ <;> rfl
  · rw [List.drop_eq_nil_of_le (by omega)]
    unfold C01.parseTagAndLength
    rw [if_pos (show off ≥ bs.length by omega)]; rfl

/-! ### the counting loop of `parseSequenceOf` -/

def addN (n : Nat) : Res Nat → Res Nat
  | .ok k => .ok (n + k) | .err => .err | .panic => .panic

theorem c18_count_step (perm : Bool) (et : Nat) (ec : Bool) (bs : Bytes) (off fuel : Nat)
    (hlt : off < bs.length) (hf : bs.length - off ≤ fuel) :
    C18.countElems perm true et ec fuel (bs.drop off) =
      match C01.parseTagAndLength perm bs off with
      | .ok (t, o) =>
        if t.len > bs.length - o then .err
        else match C18.countElems perm true et ec (fuel - 1) (bs.drop (o + t.len)) with
          | .ok n => .ok (n + 1)
          | .err => .err
          | .panic => .panic
      | .err => .err
      | .panic => .panic := by
  obtain ⟨f, rfl⟩ : ∃ f, fuel = f + 1 := ⟨fuel - 1, by omega⟩
  obtain ⟨b, hb⟩ := idx_lt hlt
  have hdrop := idx_ok hb
  rw [hdrop, C18.countElems, ← hdrop, header_bridge]
  cases C01.parseTagAndLength perm bs off with
  | err => rfl
  | panic => rfl
  | ok x =>
    obtain ⟨t, o⟩ := x
    simp only [liftTL, tlOf, Bool.not_true, Bool.false_and, Bool.false_eq_true, if_false, List.length_drop,
      List.drop_drop, Nat.add_sub_cancel]
    split_ifs
    · rfl
    · generalize C18.countElems perm true et ec f _ = x
      rcases x with _ | _ | _ <;> rfl

/-- the offset-style counting loop of `ZV.Model.C01` (whose "cannot advance" arm is an explicit `panic`) is the
    fuelled suffix-style loop of `ZV.Model.C18` for an element type that matches any tag, whenever the fuel is at
    least the number of remaining bytes (the engine passes `len(bytes)`) -/
theorem seqof_bridge (perm : Bool) (et : Nat) (ec : Bool) (bs : Bytes) (hbs : bs.length < 9223372036854775808)
    (off n : Nat) : ∀ fuel, bs.length - off ≤ fuel →
    C01.countElems perm bs off n = addN n (C18.countElems perm true et ec fuel (bs.drop off)) := by
  fun_induction C01.countElems perm bs off n
  case case1 off n hlt t o hp hinv =>
    intro fuel hf
    have hc := C01.parseTagAndLength_consumed _ _ _ _ _ hp
    rw [c18_count_step perm et ec bs off fuel hlt hf, hp]
    simp only [C01.invalidLength, Bool.or_eq_true, decide_eq_true_eq] at hinv
    simp only
    rw [if_pos (by omega)]; rfl
  case case2 off n hlt t o hp hinv hlt2 ih =>
    intro fuel hf
    have hc := C01.parseTagAndLength_consumed _ _ _ _ _ hp
    rw [c18_count_step perm et ec bs off fuel hlt hf, hp]
    simp only [C01.invalidLength, Bool.or_eq_true, decide_eq_true_eq, not_or] at hinv
    simp only
    rw [if_neg (by omega), ih (fuel - 1) (by omega)]
    cases C18.countElems perm true et ec (fuel - 1) (bs.drop (o + t.len)) with
    | ok k => simp only [addN]; congr 1; omega
    | err => rfl
    | panic => rfl
  case case3 off n hlt t o hp hinv hlt2 =>
    intro fuel hf
    have hc := C01.parseTagAndLength_consumed _ _ _ _ _ hp
    omega
  case case4 off n hlt hp =>
    intro fuel hf
    rw [c18_count_step perm et ec bs off fuel hlt hf, hp]; rfl
  case case5 off n hlt hp =>
    exact absurd hp (C01.parseTagAndLength_no_panic _ _ _)
  case case6 off n hge =>
    intro fuel hf
    rw [List.drop_eq_nil_of_le (by omega)]
    cases fuel <;> simp [C18.countElems, addN]

end ZV.C01Asn1
