import ZV.Model.C03
import ZV.Proofs.C23Bytes
import Mathlib.Data.ZMod.Basic
import Mathlib.FieldTheory.Finite.Basic
import Mathlib.Data.Nat.ModEq
import Mathlib.Tactic.Ring
import Mathlib.Tactic.LinearCombination
import Mathlib.Tactic.NormNum.Prime
/-!
  DSA correctness for the C03 model: a signature returned by `dsaSign` is accepted by `dsaVerify` under the matching
  public key (`dsaVerify_of_dsaSign`), for every digest and every random stream, when `q` is prime and `g^q ≡ 1 (mod p)`.
-/
namespace ZV.C03
open ZV ZV.Hash

/-! ### the model's extended Euclid -/

/-- `egcd` computes the gcd together with Bezout coefficients. -/
theorem egcd_bezout (a b : Nat) :
    (egcd a b).1 = Nat.gcd a b ∧
    (a : Int) * (egcd a b).2.1 + (b : Int) * (egcd a b).2.2 = ((egcd a b).1 : Int) := by
  induction b using Nat.strong_induction_on generalizing a with
  | _ b ih =>
    rw [egcd]
    split
    · next h => subst h; simp
    · next h =>
      obtain ⟨h1, h2⟩ := ih (a % b) (Nat.mod_lt _ (Nat.pos_of_ne_zero h)) b
      dsimp only
      refine ⟨?_, ?_⟩
      · rw [h1, Nat.gcd_comm a b, Nat.gcd_rec b a, Nat.gcd_comm]
      · have hd : (b : Int) * ((a / b : Nat) : Int) + ((a % b : Nat) : Int) = (a : Int) := by
          exact_mod_cast Nat.div_add_mod a b
        rw [← h2]
        linear_combination (-(egcd b (a % b)).2.2) * hd

theorem egcd_fst (a b : Nat) : (egcd a b).1 = Nat.gcd a b := (egcd_bezout a b).1

/-- `modInverse` in `ZMod m`. -/
theorem modInverse_zmod {a m w : Nat} (hm : 0 < m) (h : modInverse a m = some w) :
    (a : ZMod m) * (w : ZMod m) = 1 := by
  unfold modInverse at h
  dsimp only at h
  split at h
  · next h1 =>
    injection h with h
    have hb := (egcd_bezout a m).2
    rw [h1] at hb
    have hw : ((w : Int)) = (egcd a m).2.1 % (m : Int) := by
      rw [← h]
      exact Int.toNat_of_nonneg (Int.emod_nonneg _ (by omega))
    have hwz : (w : ZMod m) = (((egcd a m).2.1 : Int) : ZMod m) := by
      have := congrArg (Int.cast : Int → ZMod m) hw
      rw [ZMod.intCast_mod] at this
      simpa using this
    have hbz := congrArg (Int.cast : Int → ZMod m) hb
    push_cast at hbz
    rw [hwz]
    simpa using hbz
  · contradiction

/-- `modInverse a m = some w` means `a·w ≡ 1 (mod m)`. -/
theorem modInverse_correct {a m w : Nat} (hm : 0 < m) (h : modInverse a m = some w) :
    a * w % m = 1 % m := by
  have := modInverse_zmod hm h
  have h2 : ((a * w : Nat) : ZMod m) = ((1 : Nat) : ZMod m) := by push_cast; exact this
  exact (ZMod.natCast_eq_natCast_iff' _ _ _).1 h2

/-- a unit modulo `m` has a `modInverse`. -/
theorem modInverse_of_coprime {a m : Nat} (h : Nat.Coprime a m) : ∃ w, modInverse a m = some w := by
  unfold modInverse
  dsimp only
  rw [if_pos (by rw [egcd_fst]; exact h)]
  exact ⟨_, rfl⟩

/-! ### the nonce -/

theorem readK_range {n q : Nat} (rnd : Bytes) {k : Nat} {rnd' : Bytes}
    (h : readK n q rnd = some (k, rnd')) : 0 < k ∧ k < q := by
  induction hl : rnd.length using Nat.strong_induction_on generalizing rnd with
  | _ l ih =>
    rw [readK] at h
    split at h
    · contradiction
    · next hn =>
      split at h
      · contradiction
      · next hlen =>
        dsimp only at h
        split at h
        · next hk =>
          injection h with h
          injection h with h1 h2
          subst h1
          exact hk
        · exact ih (rnd.drop n).length (by simp only [List.length_drop]; omega) (rnd.drop n) h rfl

/-- what a successful `signLoop` returns -/
theorem signLoop_spec {p q g x n : Nat} {hash : Bytes} (fuel : Nat) (rnd : Bytes) {r s : Nat}
    (h : signLoop p q g x hash n fuel rnd = .ok (r, s)) :
    ∃ k, 0 < k ∧ k < q ∧ r = g ^ k % p % q ∧ r ≠ 0 ∧
      s = (x * r + C23.os2ip hash) % q * (k ^ (q - 2) % q) % q ∧ s ≠ 0 := by
  induction fuel generalizing rnd with
  | zero => simp [signLoop] at h
  | succ a ih =>
    unfold signLoop at h
    cases hk : readK n q rnd with
    | none => rw [hk] at h; contradiction
    | some kr =>
      obtain ⟨k, rnd'⟩ := kr
      rw [hk] at h
      simp only [C23.modPow_eq] at h
      split at h
      · exact ih rnd' h
      · next hr =>
        split at h
        · exact ih rnd' h
        · next hs =>
          injection h with h
          injection h with h1 h2
          obtain ⟨hk0, hkq⟩ := readK_range rnd hk
          subst h1
          exact ⟨k, hk0, hkq, rfl, hr, h2.symm, by rw [← h2]; exact hs⟩

/-! ### exponents live modulo `q` -/

theorem pow_mod_order {p q g : Nat} (hg : g ^ q % p = 1) (a : Nat) : g ^ a % p = g ^ (a % q) % p := by
  have hp1 : 1 % p = 1 := by
    rcases p with _ | _ | p
    · rfl
    · rw [Nat.mod_one] at hg; contradiction
    · rfl
  have h1 : g ^ q ≡ 1 [MOD p] := by
    unfold Nat.ModEq; rw [hg, hp1]
  have h2 : (g ^ q) ^ (a / q) ≡ 1 [MOD p] := by
    simpa using h1.pow (a / q)
  have h3 : g ^ a = (g ^ q) ^ (a / q) * g ^ (a % q) := by
    rw [← pow_mul, ← pow_add, Nat.div_add_mod]
  have h4 : g ^ a ≡ g ^ (a % q) [MOD p] := by
    rw [h3]
    simpa using h2.mul_right (g ^ (a % q))
  exact h4

theorem pow_congr_order {p q g a b : Nat} (hg : g ^ q % p = 1) (hab : a ≡ b [MOD q]) :
    g ^ a ≡ g ^ b [MOD p] := by
  unfold Nat.ModEq
  rw [pow_mod_order hg a, pow_mod_order hg b, hab]

/-- the exponent arithmetic of DSA, in the field `ZMod q` -/
theorem dsa_exponent {q k x r z s w : Nat} (hq : Nat.Prime q) (hk0 : 0 < k) (hkq : k < q)
    (hs : s = (x * r + z) % q * (k ^ (q - 2) % q) % q)
    (hw : (s : ZMod q) * (w : ZMod q) = 1) :
    z * w % q + x * (r * w % q) ≡ k [MOD q] := by
  have : Fact q.Prime := Fact.mk hq
  rw [← ZMod.natCast_eq_natCast_iff]
  have hk : (k : ZMod q) ≠ 0 := by
    intro h0
    rw [ZMod.natCast_eq_zero_iff] at h0
    exact absurd (Nat.le_of_dvd hk0 h0) (by omega)
  have hq2 : 2 ≤ q := hq.two_le
  have h2 : (k : ZMod q) * (k : ZMod q) ^ (q - 2) = 1 := by
    rw [← pow_succ']
    have : q - 2 + 1 = q - 1 := by omega
    rw [this]
    exact ZMod.pow_card_sub_one_eq_one hk
  have h1 : (s : ZMod q) = ((x : ZMod q) * r + z) * (k : ZMod q) ^ (q - 2) := by
    rw [hs]
    simp [ZMod.natCast_mod]
  push_cast
  simp only [ZMod.natCast_mod]
  push_cast
  linear_combination (-((x : ZMod q) * r + z) * w) * h2 - (k : ZMod q) * w * h1 + (k : ZMod q) * hw

/-! ### the main theorem -/

/-- DSA correctness: whatever the random stream and the digest, a signature `dsa.Sign` returns is accepted by
    `dsa.Verify` under the matching public key `y = g^x mod p`, provided `q` is prime and `g^q ≡ 1 (mod p)`. -/
theorem dsaVerify_of_dsaSign {p q g x : Nat} {hash rnd : Bytes} {r s : Nat}
    (hq : Nat.Prime q) (hg : g ^ q % p = 1)
    (h : dsaSign p q g x hash rnd = .ok (r, s)) :
    dsaVerify p q g (C23.modPow g x p) hash (r : Int) (s : Int) = true := by
  unfold dsaSign at h
  split at h
  · contradiction
  · next hc =>
    have hp0 : p ≠ 0 := by omega
    have hbl : C23.bitLen q % 8 = 0 := by omega
    obtain ⟨k, hk0, hkq, hr, hr0, hs, hs0⟩ := signLoop_spec 10 rnd h
    have hq0 : 0 < q := hq.pos
    have hrq : r < q := by rw [hr]; exact Nat.mod_lt _ hq0
    have hsq : s < q := by rw [hs]; exact Nat.mod_lt _ hq0
    have hcop : Nat.Coprime s q := by
      rw [Nat.coprime_comm]
      exact (Nat.Prime.coprime_iff_not_dvd hq).2 (fun hd => absurd (Nat.le_of_dvd (by omega) hd) (by omega))
    obtain ⟨w, hw⟩ := modInverse_of_coprime hcop
    have hwz := modInverse_zmod hq0 hw
    have hexp := dsa_exponent (x := x) (r := r) (z := C23.os2ip hash) hq hk0 hkq hs hwz
    unfold dsaVerify
    rw [if_neg hp0, if_neg (by omega), if_neg (by omega)]
    simp only [Int.toNat_natCast]
    rw [hw]
    dsimp only
    rw [if_neg (by omega)]
    simp only [C23.modPow_eq, beq_iff_eq]
    have hv : g ^ (C23.os2ip hash * w % q) % p * ((g ^ x % p) ^ (r * w % q) % p) ≡ g ^ k [MOD p] := by
      have e1 : g ^ (C23.os2ip hash * w % q) % p ≡ g ^ (C23.os2ip hash * w % q) [MOD p] := Nat.mod_modEq _ _
      have e2 : (g ^ x % p) ^ (r * w % q) % p ≡ g ^ (x * (r * w % q)) [MOD p] := by
        rw [pow_mul]
        exact (Nat.mod_modEq _ _).trans ((Nat.mod_modEq _ _).pow _)
      have e3 := e1.mul e2
      rw [← pow_add] at e3
      exact e3.trans (pow_congr_order hg hexp)
    rw [hv, ← hr]

/-! ### the hypotheses are satisfiable -/

theorem bitLen_251 : C23.bitLen 251 = 8 := by
  unfold C23.bitLen
  have h : Nat.log2 251 = 7 := (Nat.log2_eq_iff (by decide)).2 ⟨by decide, by decide⟩
  rw [if_neg (by decide), h]

/-- `p = 503`, `q = 251`, `g = 4`, `x = 5`, digest `[9]`, nonce `k = 7`: the signature is `(37, 207)`. -/
theorem dsaSign_example : dsaSign 503 251 4 5 [9] [7] = .ok (37, 207) := by
  unfold dsaSign
  rw [bitLen_251, if_neg (by decide)]
  unfold signLoop
  rw [readK]
  simp [C23.modPow_eq, C23.os2ip]

/-- the hypotheses of `dsaVerify_of_dsaSign` hold together for these parameters -/
example : Nat.Prime 251 ∧ 4 ^ 251 % 503 = 1 ∧ dsaSign 503 251 4 5 [9] [7] = .ok (37, 207) :=
  ⟨by norm_num, by norm_num, dsaSign_example⟩

/-- and the theorem applies to them -/
example : dsaVerify 503 251 4 (C23.modPow 4 5 503) [9] 37 207 = true :=
  dsaVerify_of_dsaSign (by norm_num) (by norm_num) dsaSign_example

end ZV.C03
