import ZV.Model.C34Sync
/-!
  Invariants and progress of the synchronisation model `ZV.C34.Sync` — for every number of threads and every
  schedule (induction over `Reach`), no bounded exploration.
-/
namespace ZV.C34.Sync
open Pc

/-- holds handshakeMutex, saw `handshakeErr = nil` and the flag clear, has not stored yet -/
def preStore : Pc → Bool
  | hIn _ | hBody _ | hBodyW _ | hBodyO _ => true
  | _ => false
/-- the handshake implementation has returned (still under handshakeMutex) -/
def ended : Pc → Bool
  | hEnd _ | hRet _ _ | gEnd => true
  | _ => false
def stored : Pc → Bool
  | hStored _ | gStored => true
  | _ => false
/-- inside handleRenegotiation with handshakeMutex held -/
def inG : Pc → Bool
  | gClear | gBody | gOutW | gOut | gStored | gEnd => true
  | _ => false
/-- past Read's Handshake gate, not yet returned -/
def inR : Pc → Bool
  | rWant | rBody | rOutW | rOut | rHM => true
  | pc => inG pc

theorem setPc_same (p : Nat → Pc) (i : Nat) (pc : Pc) : setPc p i pc i = pc := by simp [setPc]
theorem setPc_other (p : Nat → Pc) {i j : Nat} (pc : Pc) (h : j ≠ i) : setPc p i pc j = p j := by simp [setPc, h]

structure Inv (s : State) : Prop where
  mx : ∀ m i j, holds m (s.pcs i) = true → holds m (s.pcs j) = true → i = j
  pre : ∀ i, preStore (s.pcs i) = true → s.flag = false ∧ s.herr = false
  fin : ∀ i, ended (s.pcs i) = true → (s.flag || s.herr) = true
  sto : ∀ i, stored (s.pcs i) = true → s.flag = true
  rd : (s.flag || s.herr) = false → (∀ i, inR (s.pcs i) = false) ∨ (∃ i, inG (s.pcs i) = true)

theorem init_inv : Inv init := by
  refine ⟨?_, ?_, ?_, ?_, ?_⟩ <;> simp [init, holds, preStore, ended, stored, inR, inG]

/-! ### thread-local facts (case analysis over the step relation) -/

theorem T_mod {pc pc' f e f' e'} (h : T pc f e pc' f' e') : holds 0 pc = true ∨ (f' = f ∧ e' = e) := by
  cases h <;> simp [holds]

theorem T_pre {pc pc' f e f' e'} (h : T pc f e pc' f' e')
    (hp : preStore pc = true → f = false ∧ e = false) (h' : preStore pc' = true) : f' = false ∧ e' = false := by
  cases h <;> simp_all [preStore]

theorem T_sto {pc pc' f e f' e'} (h : T pc f e pc' f' e')
    (hp : stored pc = true → f = true) (h' : stored pc' = true) : f' = true := by
  cases h <;> simp_all [stored]

theorem T_fin {pc pc' f e f' e'} (h : T pc f e pc' f' e')
    (hp : ended pc = true → (f || e) = true) (hs : stored pc = true → f = true) (h' : ended pc' = true) :
    (f' || e') = true := by
  cases h <;> simp_all [ended, stored]

theorem T_rd {pc pc' f e f' e'} (h : T pc f e pc' f' e')
    (hp : ended pc = true → (f || e) = true) (hs : stored pc = true → f = true) :
    (f' || e') = true ∨ inG pc' = true
      ∨ (f' = f ∧ e' = e ∧ (inR pc' = true → inR pc = true) ∧ (inG pc = true → inG pc' = true)) := by
  cases h <;> simp_all [ended, stored, inR, inG]

theorem preStore_hm {pc} (h : preStore pc = true) : holds 0 pc = true := by cases pc <;> simp_all [preStore, holds]
theorem ended_hm {pc} (h : ended pc = true) : holds 0 pc = true := by cases pc <;> simp_all [ended, holds]
theorem stored_hm {pc} (h : stored pc = true) : holds 0 pc = true := by cases pc <;> simp_all [stored, holds]
theorem inG_hm {pc} (h : inG pc = true) : holds 0 pc = true := by cases pc <;> simp_all [inG, holds]

/-- a thread other than the stepping one that holds handshakeMutex sees the flag and handshakeErr unchanged -/
theorem other_unchanged {s : State} (h : Inv s) {i j : Nat} {pc' f' e'} (hT : T (s.pcs i) s.flag s.herr pc' f' e')
    (hj : j ≠ i) (hh : holds 0 (s.pcs j) = true) : f' = s.flag ∧ e' = s.herr := by
  rcases T_mod hT with h0 | h0
  · exact absurd (h.mx 0 j i hh h0) hj
  · exact h0

theorem inv_step {s s' : State} {i : Nat} (h : Inv s) (st : Step i s s') : Inv s' := by
  obtain ⟨pc', f', e', hT, hfree, rfl⟩ := st
  refine ⟨?_, ?_, ?_, ?_, ?_⟩
  · -- mutual exclusion
    intro m a b ha hb
    simp only at ha hb
    by_cases hai : a = i <;> by_cases hbi : b = i
    · rw [hai, hbi]
    · subst hai
      rw [setPc_same] at ha; rw [setPc_other _ _ hbi] at hb
      cases hm : holds m (s.pcs a)
      · have := hfree m hm ha b; rw [this] at hb; cases hb
      · exact h.mx m a b hm hb
    · subst hbi
      rw [setPc_same] at hb; rw [setPc_other _ _ hai] at ha
      cases hm : holds m (s.pcs b)
      · have := hfree m hm hb a; rw [this] at ha; cases ha
      · exact (h.mx m b a hm ha).symm
    · rw [setPc_other _ _ hai] at ha; rw [setPc_other _ _ hbi] at hb
      exact h.mx m a b ha hb
  · intro j hj
    simp only at hj ⊢
    by_cases hji : j = i
    · subst hji; rw [setPc_same] at hj
      exact T_pre hT (h.pre j) hj
    · rw [setPc_other _ _ hji] at hj
      obtain ⟨hf, he⟩ := other_unchanged h hT hji (preStore_hm hj)
      rw [hf, he]; exact h.pre j hj
  · intro j hj
    simp only at hj ⊢
    by_cases hji : j = i
    · subst hji; rw [setPc_same] at hj
      exact T_fin hT (h.fin j) (h.sto j) hj
    · rw [setPc_other _ _ hji] at hj
      obtain ⟨hf, he⟩ := other_unchanged h hT hji (ended_hm hj)
      rw [hf, he]; exact h.fin j hj
  · intro j hj
    simp only at hj ⊢
    by_cases hji : j = i
    · subst hji; rw [setPc_same] at hj
      exact T_sto hT (h.sto j) hj
    · rw [setPc_other _ _ hji] at hj
      obtain ⟨hf, _⟩ := other_unchanged h hT hji (stored_hm hj)
      rw [hf]; exact h.sto j hj
  · intro hs
    simp only at hs ⊢
    rcases T_rd hT (h.fin i) (h.sto i) with h1 | h1 | ⟨hf, he, hR, hG⟩
    · rw [hs] at h1; cases h1
    · exact Or.inr ⟨i, by rw [setPc_same]; exact h1⟩
    · rw [hf, he] at hs
      rcases h.rd hs with hn | ⟨k, hk⟩
      · left; intro j
        by_cases hji : j = i
        · subst hji; rw [setPc_same]
          cases hc : inR pc'
          · rfl
          · have := hR hc; rw [hn j] at this; cases this
        · rw [setPc_other _ _ hji]; exact hn j
      · right
        by_cases hki : k = i
        · subst hki; exact ⟨k, by rw [setPc_same]; exact hG hk⟩
        · exact ⟨k, by rw [setPc_other _ _ hki]; exact hk⟩

theorem reach_inv {s : State} (h : Reach s) : Inv s := by
  induction h with
  | init => exact init_inv
  | step i _ st ih => exact inv_step ih st

/-! ### progress -/

theorem wants_range {pc m} (h : wants pc = some m) : m = 0 ∨ m = 1 ∨ m = 2 := by
  cases pc <;> simp_all [wants] <;> omega

/-- every pc other than `idle` has a local successor that gains at most the mutex the pc `wants` -/
theorem T_total (pc : Pc) (f e : Bool) (h : pc ≠ idle) :
    ∃ pc' f' e', T pc f e pc' f' e' ∧ ∀ m, holds m pc = false → holds m pc' = true → wants pc = some m := by
  have key : ∀ {pc' f' e'}, T pc f e pc' f' e' →
      (∀ m, holds m pc = false → holds m pc' = true → wants pc = some m) →
      ∃ pc' f' e', T pc f e pc' f' e' ∧ ∀ m, holds m pc = false → holds m pc' = true → wants pc = some m :=
    fun hT hw => ⟨_, _, _, hT, hw⟩
  cases pc with
  | idle => exact absurd rfl h
  | hWant r => exact key (T.lockHM r f e) (by intro m; rcases m with _ | _ | _ | m <;> simp [holds, wants])
  | hChk r =>
    cases e
    · cases f
      · exact key (T.chkGo r) (by intro m; rcases m with _ | _ | _ | m <;> simp [holds, wants])
      · exact key (T.chkDone r) (by intro m; rcases m with _ | _ | _ | m <;> simp [holds, wants])
    · exact key (T.chkErr r f) (by intro m; rcases m with _ | _ | _ | m <;> simp [holds, wants])
  | hIn r => exact key (T.lockIn r f e) (by intro m; rcases m with _ | _ | _ | m <;> simp [holds, wants])
  | hBody r => exact key (T.bodyW r f e) (by intro m; rcases m with _ | _ | _ | m <;> simp [holds, wants])
  | hBodyW r => exact key (T.bodyLockOut r f e) (by intro m; rcases m with _ | _ | _ | m <;> simp [holds, wants])
  | hBodyO r => exact key (T.bodyUnlockOut r f e) (by intro m; rcases m with _ | _ | _ | m <;> simp [holds, wants])
  | hStored r => exact key (T.storedOk r f e) (by intro m; rcases m with _ | _ | _ | m <;> simp [holds, wants])
  | hEnd r => exact key (T.unlockIn r f e) (by intro m; rcases m with _ | _ | _ | m <;> simp [holds, wants])
  | hRet r ok =>
    cases hro : (r && ok)
    · exact key (T.retIdle r ok f e hro) (by intro m; rcases m with _ | _ | _ | m <;> simp [holds, wants])
    · have : r = true ∧ ok = true := by simpa using hro
      obtain ⟨rfl, rfl⟩ := this
      exact key (T.retRead f e) (by intro m; rcases m with _ | _ | _ | m <;> simp [holds, wants])
  | rWant => exact key (T.rLockIn f e) (by intro m; rcases m with _ | _ | _ | m <;> simp [holds, wants])
  | rBody => exact key (T.rUnlockIn f e) (by intro m; rcases m with _ | _ | _ | m <;> simp [holds, wants])
  | rOutW => exact key (T.rLockOut f e) (by intro m; rcases m with _ | _ | _ | m <;> simp [holds, wants])
  | rOut => exact key (T.rUnlockOut f e) (by intro m; rcases m with _ | _ | _ | m <;> simp [holds, wants])
  | rHM => exact key (T.gLockHM f e) (by intro m; rcases m with _ | _ | _ | m <;> simp [holds, wants])
  | gClear => exact key (T.gClr f e) (by intro m; rcases m with _ | _ | _ | m <;> simp [holds, wants])
  | gBody => exact key (T.gW f e) (by intro m; rcases m with _ | _ | _ | m <;> simp [holds, wants])
  | gOutW => exact key (T.gLockOut f e) (by intro m; rcases m with _ | _ | _ | m <;> simp [holds, wants])
  | gOut => exact key (T.gUnlockOut f e) (by intro m; rcases m with _ | _ | _ | m <;> simp [holds, wants])
  | gStored => exact key (T.gStoredOk f e) (by intro m; rcases m with _ | _ | _ | m <;> simp [holds, wants])
  | gEnd => exact key (T.gUnlockHM f e) (by intro m; rcases m with _ | _ | _ | m <;> simp [holds, wants])
  | oWant => exact key (T.oLock f e) (by intro m; rcases m with _ | _ | _ | m <;> simp [holds, wants])
  | oOut => exact key (T.oUnlock f e) (by intro m; rcases m with _ | _ | _ | m <;> simp [holds, wants])
  | sWant => exact key (T.sLock f e) (by intro m; rcases m with _ | _ | _ | m <;> simp [holds, wants])
  | sHeld => exact key (T.sUnlock f e) (by intro m; rcases m with _ | _ | _ | m <;> simp [holds, wants])

def CanStep (s : State) (i : Nat) : Prop := s.pcs i ≠ idle ∧ ∃ s', Step i s s'

theorem can_of_nowant {s : State} {i : Nat} (hi : s.pcs i ≠ idle) (hw : wants (s.pcs i) = none) : CanStep s i := by
  obtain ⟨pc', f', e', hT, hg⟩ := T_total (s.pcs i) s.flag s.herr hi
  refine ⟨hi, _, pc', f', e', hT, ?_, rfl⟩
  intro m h0 h1; have := hg m h0 h1; rw [hw] at this; cases this

theorem can_of_free {s : State} {i m : Nat} (hw : wants (s.pcs i) = some m) (hf : ∀ j, holds m (s.pcs j) = false) :
    CanStep s i := by
  have hi : s.pcs i ≠ idle := by intro h; rw [h] at hw; simp [wants] at hw
  obtain ⟨pc', f', e', hT, hg⟩ := T_total (s.pcs i) s.flag s.herr hi
  refine ⟨hi, _, pc', f', e', hT, ?_, rfl⟩
  intro m' h0 h1
  have := hg m' h0 h1; rw [hw] at this
  have : m = m' := by simpa using this
  subst this; exact hf

theorem free_or_owner (s : State) (m : Nat) : (∀ j, holds m (s.pcs j) = false) ∨ ∃ j, holds m (s.pcs j) = true := by
  by_cases h : ∃ j, holds m (s.pcs j) = true
  · exact Or.inr h
  · left; intro j
    cases hc : holds m (s.pcs j)
    · rfl
    · exact absurd ⟨j, hc⟩ h

theorem out_holder {pc} (h : holds 2 pc = true) : pc ≠ idle ∧ wants pc = none := by
  cases pc <;> simp_all [holds, wants]
theorem in_holder {pc} (h : holds 1 pc = true) : pc ≠ idle ∧ (wants pc = none ∨ wants pc = some 2 ∨ pc = rHM) := by
  cases pc <;> simp_all [holds, wants]
theorem hm_holder {pc} (h : holds 0 pc = true) :
    pc ≠ idle ∧ (wants pc = none ∨ wants pc = some 2 ∨ ∃ r, pc = hIn r) := by
  cases pc <;> simp_all [holds, wants]
theorem in_holder_region {pc} (h : holds 1 pc = true) : holds 0 pc = true ∨ inR pc = true := by
  cases pc <;> simp_all [holds, inR, inG]

/-- THE KEY FACT behind the handshakeMutex→in / in→handshakeMutex inversion being harmless: whenever a Handshake
    call is about to lock `in` (it holds handshakeMutex and saw the flag clear and no error), nobody holds `in`. -/
theorem in_free_at_hIn {s : State} (h : Inv s) {a : Nat} {r : Bool} (ha : s.pcs a = hIn r) :
    ∀ b, holds 1 (s.pcs b) = false := by
  intro b
  cases hb : holds 1 (s.pcs b)
  · rfl
  · exfalso
    have ha0 : holds 0 (s.pcs a) = true := by rw [ha]; rfl
    have ha1 : holds 1 (s.pcs a) = false := by rw [ha]; rfl
    obtain ⟨hf, he⟩ := h.pre a (by rw [ha]; rfl)
    rcases in_holder_region hb with h0 | hR
    · have := h.mx 0 a b ha0 h0; subst this; rw [ha1] at hb; cases hb
    · rcases h.rd (by rw [hf, he]; rfl) with hn | ⟨k, hk⟩
      · rw [hn b] at hR; cases hR
      · have := h.mx 0 a k ha0 (inG_hm hk); subst this
        rw [ha] at hk; cases hk

theorem want_out_progress {s : State} {k : Nat} (hk : wants (s.pcs k) = some 2) : ∃ j, CanStep s j := by
  rcases free_or_owner s 2 with hf | ⟨j, hj⟩
  · exact ⟨k, can_of_free hk hf⟩
  · exact ⟨j, can_of_nowant (out_holder hj).1 (out_holder hj).2⟩

theorem hm_owner_progress {s : State} (h : Inv s) {a : Nat} (ha : holds 0 (s.pcs a) = true) : ∃ j, CanStep s j := by
  obtain ⟨hne, hw | hw | ⟨r, hr⟩⟩ := hm_holder ha
  · exact ⟨a, can_of_nowant hne hw⟩
  · exact want_out_progress hw
  · exact ⟨a, can_of_free (m := 1) (by rw [hr]; rfl) (in_free_at_hIn h hr)⟩

theorem want_hm_progress {s : State} (h : Inv s) {k : Nat} (hk : wants (s.pcs k) = some 0) : ∃ j, CanStep s j := by
  rcases free_or_owner s 0 with hf | ⟨a, ha⟩
  · exact ⟨k, can_of_free hk hf⟩
  · exact hm_owner_progress h ha

theorem progress {s : State} (h : Inv s) {i : Nat} (hi : s.pcs i ≠ idle) : ∃ j, CanStep s j := by
  cases hw : wants (s.pcs i) with
  | none => exact ⟨i, can_of_nowant hi hw⟩
  | some m =>
    rcases wants_range hw with rfl | rfl | rfl
    · exact want_hm_progress h hw
    · rcases free_or_owner s 1 with hf | ⟨b, hb⟩
      · exact ⟨i, can_of_free hw hf⟩
      · obtain ⟨hne, hb' | hb' | hb'⟩ := in_holder hb
        · exact ⟨b, can_of_nowant hne hb'⟩
        · exact want_out_progress hb'
        · exact want_hm_progress h (k := b) (by rw [hb']; rfl)
    · exact want_out_progress hw

end ZV.C34.Sync
