import ZV.Proofs.C10Inv
/-!
  Helper lemmas for C10: the invariant of the PKI graph is preserved by `addCert` / `addRoot`,
  and `addOrPanic` never fires.
-/
namespace ZV.C10
set_option linter.unusedSectionVars false
set_option linter.unusedSimpArgs false

/-! ### association lists of sets -/
section SetMapLemmas
variable {κ : Type} [BEq κ] [LawfulBEq κ]

/-- `f ∈ m[k]` -/
def smem (m : SetMap κ) (k : κ) (f : Nat) : Prop := ∃ l, (k, l) ∈ m ∧ f ∈ l

theorem smem_nil (k : κ) (f : Nat) : ¬ smem ([] : SetMap κ) k f := by
  rintro ⟨l, h, _⟩; cases h

theorem smem_cons (k' : κ) (l : List Nat) (m : SetMap κ) (k : κ) (f : Nat) :
    smem ((k', l) :: m) k f ↔ (k' = k ∧ f ∈ l) ∨ smem m k f := by
  constructor
  · rintro ⟨l', h, hf⟩
    rcases List.mem_cons.mp h with h | h
    · left
      have h1 : k = k' := congrArg Prod.fst h
      have h2 : l' = l := congrArg Prod.snd h
      exact ⟨h1.symm, h2 ▸ hf⟩
    · right; exact ⟨l', h, hf⟩
  · rintro (⟨rfl, hf⟩ | ⟨l', h, hf⟩)
    · exact ⟨l, List.mem_cons_self, hf⟩
    · exact ⟨l', List.mem_cons_of_mem _ h, hf⟩

theorem smem_add (m : SetMap κ) (k : κ) (f : Nat) (k' : κ) (f' : Nat) :
    smem (m.add k f) k' f' ↔ smem m k' f' ∨ (k' = k ∧ f' = f) := by
  induction m with
  | nil =>
    simp only [SetMap.add, smem_cons, List.mem_singleton]
    constructor
    · rintro (⟨rfl, rfl⟩ | h)
      · exact Or.inr ⟨rfl, rfl⟩
      · exact absurd h (smem_nil _ _)
    · rintro (h | ⟨rfl, rfl⟩)
      · exact absurd h (smem_nil _ _)
      · exact Or.inl ⟨rfl, rfl⟩
  | cons g rest ih =>
    obtain ⟨k0, l0⟩ := g
    simp only [SetMap.add]
    by_cases hk : (k0 == k) = true
    · have hk' : k0 = k := eq_of_beq hk
      simp only [hk, if_true, smem_cons, List.mem_append, List.mem_singleton]
      subst hk'
      constructor
      · rintro (⟨rfl, h | h⟩ | h)
        · exact Or.inl (Or.inl ⟨rfl, h⟩)
        · exact Or.inr ⟨rfl, h⟩
        · exact Or.inl (Or.inr h)
      · rintro ((⟨rfl, h⟩ | h) | ⟨rfl, rfl⟩)
        · exact Or.inl ⟨rfl, Or.inl h⟩
        · exact Or.inr h
        · exact Or.inl ⟨rfl, Or.inr rfl⟩
    · simp only [hk, smem_cons, ih]
      simp only [Bool.false_eq_true, if_false, smem_cons, ih]
      constructor
      · rintro (h | h | h)
        · exact Or.inl (Or.inl h)
        · exact Or.inl (Or.inr h)
        · exact Or.inr h
      · rintro ((h | h) | h)
        · exact Or.inl h
        · exact Or.inr (Or.inl h)
        · exact Or.inr (Or.inr h)

theorem has_smem (m : SetMap κ) (k : κ) (f : Nat) (h : m.has k f = true) : smem m k f := by
  induction m with
  | nil => simp [SetMap.has] at h
  | cons g rest ih =>
    obtain ⟨k0, l0⟩ := g
    simp only [SetMap.has] at h
    by_cases hk : (k0 == k) = true
    · simp only [hk, if_true] at h
      have hk' : k0 = k := eq_of_beq hk
      subst hk'
      exact (smem_cons _ _ _ _ _).mpr (Or.inl ⟨rfl, by simpa using h⟩)
    · simp only [hk, Bool.false_eq_true, if_false] at h
      exact (smem_cons _ _ _ _ _).mpr (Or.inr (ih h))

theorem mem_keys_add (m : SetMap κ) (k : κ) (f : Nat) (x : κ) :
    x ∈ (m.add k f).map (·.1) ↔ x ∈ m.map (·.1) ∨ x = k := by
  induction m with
  | nil => simp [SetMap.add]
  | cons g rest ih =>
    obtain ⟨k0, l0⟩ := g
    simp only [SetMap.add]
    by_cases hk : (k0 == k) = true
    · have hk' : k0 = k := eq_of_beq hk
      subst hk'
      simp only [hk, if_true, List.map_cons, List.mem_cons]
      constructor
      · intro h; exact Or.inl h
      · rintro (h | h)
        · exact h
        · exact Or.inl h
    · simp only [hk, Bool.false_eq_true, if_false, List.map_cons, List.mem_cons, ih]
      constructor
      · rintro (h | h | h)
        · exact Or.inl (Or.inl h)
        · exact Or.inl (Or.inr h)
        · exact Or.inr h
      · rintro ((h | h) | h)
        · exact Or.inl h
        · exact Or.inr (Or.inl h)
        · exact Or.inr (Or.inr h)

theorem keys_nodup_add (m : SetMap κ) (k : κ) (f : Nat) (h : (m.map (·.1)).Nodup) :
    ((m.add k f).map (·.1)).Nodup := by
  induction m with
  | nil => simp [SetMap.add]
  | cons g rest ih =>
    obtain ⟨k0, l0⟩ := g
    simp only [List.map_cons, List.nodup_cons] at h
    simp only [SetMap.add]
    by_cases hk : (k0 == k) = true
    · simp only [hk, if_true, List.map_cons, List.nodup_cons]
      exact h
    · simp only [hk, Bool.false_eq_true, if_false, List.map_cons, List.nodup_cons]
      refine ⟨?_, ih h.2⟩
      intro hx
      rcases (mem_keys_add rest k f k0).mp hx with hx | hx
      · exact h.1 hx
      · exact hk (by simp [hx])

theorem groups_nodup_add (m : SetMap κ) (k : κ) (f : Nat) (h : ∀ g ∈ m, g.2.Nodup)
    (hf : ¬ smem m k f) : ∀ g ∈ m.add k f, g.2.Nodup := by
  induction m with
  | nil => intro g hg; simp [SetMap.add] at hg; subst hg; simp
  | cons g0 rest ih =>
    obtain ⟨k0, l0⟩ := g0
    simp only [SetMap.add]
    by_cases hk : (k0 == k) = true
    · have hk' : k0 = k := eq_of_beq hk
      subst hk'
      simp only [hk, if_true]
      intro g hg
      rcases List.mem_cons.mp hg with hg | hg
      · subst hg
        have h0 : l0.Nodup := h (k0, l0) List.mem_cons_self
        have hnot : f ∉ l0 := fun hm => hf ((smem_cons _ _ _ _ _).mpr (Or.inl ⟨rfl, hm⟩))
        simp only
        exact List.nodup_append.mpr ⟨h0, by simp, by
          intro a ha b hb; simp at hb; subst hb; intro hab; subst hab; exact hnot ha⟩
      · exact h g (List.mem_cons_of_mem _ hg)
    · simp only [hk, Bool.false_eq_true, if_false]
      intro g hg
      rcases List.mem_cons.mp hg with hg | hg
      · subst hg; exact h (k0, l0) List.mem_cons_self
      · exact ih (fun g hg => h g (List.mem_cons_of_mem _ hg))
          (fun hs => hf ((smem_cons _ _ _ _ _).mpr (Or.inr hs))) g hg

theorem mem_of_get (m : SetMap κ) (k : κ) (l : List Nat) (h : m.get k = some l) : (k, l) ∈ m := by
  induction m with
  | nil => simp [SetMap.get] at h
  | cons g rest ih =>
    obtain ⟨k0, l0⟩ := g
    simp only [SetMap.get] at h
    by_cases hk : (k0 == k) = true
    · simp only [hk, if_true, Option.some.injEq] at h
      have hk' : k0 = k := eq_of_beq hk
      subst hk' h
      exact List.mem_cons_self
    · simp only [hk, Bool.false_eq_true, if_false] at h
      exact List.mem_cons_of_mem _ (ih h)

theorem get_of_mem (m : SetMap κ) (k : κ) (l : List Nat) (hn : (m.map (·.1)).Nodup) (h : (k, l) ∈ m) :
    m.get k = some l := by
  induction m with
  | nil => cases h
  | cons g rest ih =>
    obtain ⟨k0, l0⟩ := g
    simp only [List.map_cons, List.nodup_cons] at hn
    simp only [SetMap.get]
    rcases List.mem_cons.mp h with h | h
    · have h1 : k = k0 := congrArg Prod.fst h
      have h2 : l = l0 := congrArg Prod.snd h
      subst h1 h2
      simp
    · have hne : ¬ (k0 == k) = true := by
        intro hk
        have hk' : k0 = k := eq_of_beq hk
        subst hk'
        exact hn.1 (List.mem_map.mpr ⟨(k0, l), h, rfl⟩)
      simp only [hne, Bool.false_eq_true, if_false]
      exact ih hn.2 h

theorem get_none_not_smem (m : SetMap κ) (k : κ) (h : m.get k = none) (f : Nat) : ¬ smem m k f := by
  induction m with
  | nil => exact smem_nil _ _
  | cons g rest ih =>
    obtain ⟨k0, l0⟩ := g
    simp only [SetMap.get] at h
    by_cases hk : (k0 == k) = true
    · simp [hk] at h
    · simp only [hk, Bool.false_eq_true, if_false] at h
      intro hs
      rcases (smem_cons _ _ _ _ _).mp hs with ⟨h1, _⟩ | hs
      · exact hk (by simp [h1])
      · exact ih h hs

theorem smem_removeAll (m : SetMap κ) (k : κ) (fs : List Nat) (k' : κ) (f' : Nat) :
    smem (m.removeAll k fs) k' f' ↔ smem m k' f' ∧ ¬ (k' = k ∧ f' ∈ fs) := by
  induction m with
  | nil => simp [SetMap.removeAll, smem_nil]
  | cons g rest ih =>
    obtain ⟨k0, l0⟩ := g
    have hstep : SetMap.removeAll ((k0, l0) :: rest) k fs =
        (if (k0 == k) = true then (k0, l0.filter (fun f => !fs.contains f)) else (k0, l0)) :: SetMap.removeAll rest k fs := by
      simp [SetMap.removeAll]
    rw [hstep]
    by_cases hk : (k0 == k) = true
    · have hk' : k0 = k := eq_of_beq hk
      subst hk'
      simp only [hk, if_true, smem_cons, ih, List.mem_filter, Bool.not_eq_true', List.contains_eq_mem,
        decide_eq_false_iff_not]
      constructor
      · rintro (⟨rfl, h1, h2⟩ | ⟨h1, h2⟩)
        · exact ⟨Or.inl ⟨rfl, h1⟩, fun h => h2 h.2⟩
        · exact ⟨Or.inr h1, h2⟩
      · rintro ⟨⟨rfl, h1⟩ | h1, h2⟩
        · exact Or.inl ⟨rfl, h1, fun h => h2 ⟨rfl, h⟩⟩
        · exact Or.inr ⟨h1, h2⟩
    · simp only [hk, Bool.false_eq_true, if_false, smem_cons, ih]
      constructor
      · rintro (⟨rfl, h1⟩ | ⟨h1, h2⟩)
        · exact ⟨Or.inl ⟨rfl, h1⟩, fun h => hk (by simp [h.1])⟩
        · exact ⟨Or.inr h1, h2⟩
      · rintro ⟨⟨rfl, h1⟩ | h1, h2⟩
        · exact Or.inl ⟨rfl, h1⟩
        · exact Or.inr ⟨h1, h2⟩

theorem smem_dropIfEmpty (m : SetMap κ) (k : κ) (k' : κ) (f' : Nat) :
    smem (m.dropIfEmpty k) k' f' ↔ smem m k' f' := by
  unfold SetMap.dropIfEmpty smem
  constructor
  · rintro ⟨l, h, hf⟩
    exact ⟨l, (List.mem_filter.mp h).1, hf⟩
  · rintro ⟨l, h, hf⟩
    refine ⟨l, List.mem_filter.mpr ⟨h, ?_⟩, hf⟩
    have : l.isEmpty = false := by
      cases l with
      | nil => cases hf
      | cons a t => rfl
    simp [this]

theorem keys_removeAll (m : SetMap κ) (k : κ) (fs : List Nat) :
    (m.removeAll k fs).map (·.1) = m.map (·.1) := by
  unfold SetMap.removeAll
  rw [List.map_map]
  apply List.map_congr_left
  intro g _
  simp only [Function.comp]
  split <;> rfl

theorem groups_nodup_removeAll (m : SetMap κ) (k : κ) (fs : List Nat) (h : ∀ g ∈ m, g.2.Nodup) :
    ∀ g ∈ m.removeAll k fs, g.2.Nodup := by
  intro g hg
  unfold SetMap.removeAll at hg
  obtain ⟨g0, hg0, rfl⟩ := List.mem_map.mp hg
  split
  · exact (h g0 hg0).filter _
  · exact h g0 hg0

end SetMapLemmas


/-! ### nodes and edges -/

theorem edge_eq_of_fp {es : List Edge} (hn : (es.map (·.cert.fp)).Nodup) {e e' : Edge}
    (he : e ∈ es) (he' : e' ∈ es) (h : e.cert.fp = e'.cert.fp) : e = e' := by
  induction es with
  | nil => cases he
  | cons a t ih =>
    simp only [List.map_cons, List.nodup_cons] at hn
    rcases List.mem_cons.mp he with h1 | h1 <;> rcases List.mem_cons.mp he' with h2 | h2
    · rw [h1, h2]
    · exact absurd (List.mem_map.mpr ⟨e', h2, by rw [← h, h1]⟩) hn.1
    · exact absurd (List.mem_map.mpr ⟨e, h1, by rw [h, h2]⟩) hn.1
    · exact ih hn.2 h1 h2

theorem node_eq_of_key {ns : List Node} (hn : (ns.map (·.key)).Nodup) {n n' : Node}
    (he : n ∈ ns) (he' : n' ∈ ns) (h : n.key = n'.key) : n = n' := by
  induction ns with
  | nil => cases he
  | cons a t ih =>
    simp only [List.map_cons, List.nodup_cons] at hn
    rcases List.mem_cons.mp he with h1 | h1 <;> rcases List.mem_cons.mp he' with h2 | h2
    · rw [h1, h2]
    · exact absurd (List.mem_map.mpr ⟨n', h2, by rw [← h, h1]⟩) hn.1
    · exact absurd (List.mem_map.mpr ⟨n, h1, by rw [h, h2]⟩) hn.1
    · exact ih hn.2 h1 h2

theorem findNode_some {ns : List Node} {k : NodeKey} {n : Node} (h : findNode ns k = some n) :
    n ∈ ns ∧ n.key = k := by
  unfold findNode at h
  exact ⟨List.mem_of_find?_eq_some h, by simpa using List.find?_some h⟩

theorem findEdge_some {es : List Edge} {fp : Nat} {e : Edge} (h : findEdge es fp = some e) :
    e ∈ es ∧ e.cert.fp = fp := by
  unfold findEdge at h
  exact ⟨List.mem_of_find?_eq_some h, by simpa using List.find?_some h⟩

theorem findEdge_of_mem {es : List Edge} (hn : (es.map (·.cert.fp)).Nodup) {e : Edge} (he : e ∈ es) :
    findEdge es e.cert.fp = some e := by
  cases h : findEdge es e.cert.fp with
  | none =>
    unfold findEdge at h
    have := List.find?_eq_none.mp h e he
    simp at this
  | some e' =>
    obtain ⟨h1, h2⟩ := findEdge_some h
    rw [edge_eq_of_fp hn h1 he h2]

theorem findNode_of_mem {ns : List Node} (hn : (ns.map (·.key)).Nodup) {n : Node} (he : n ∈ ns) :
    findNode ns n.key = some n := by
  cases h : findNode ns n.key with
  | none =>
    unfold findNode at h
    have := List.find?_eq_none.mp h n he
    simp at this
  | some n' =>
    obtain ⟨h1, h2⟩ := findNode_some h
    rw [node_eq_of_key hn h1 he h2]

theorem hasEdge_iff {es : List Edge} {fp : Nat} : hasEdge es fp = true ↔ ∃ e ∈ es, e.cert.fp = fp := by
  unfold hasEdge; simp

theorem hasNode_iff {ns : List Node} {k : NodeKey} : hasNode ns k = true ↔ ∃ n ∈ ns, n.key = k := by
  unfold hasNode; simp

/-- what `link ns p c fp` does to one node -/
def linkNode (p c : NodeKey) (fp : Nat) (n : Node) : Node :=
  let n1 := if n.key == p then { n with children := n.children.add c fp } else n
  if n1.key == c then { n1 with parents := n1.parents.add p fp } else n1

theorem linkNode_key (p c : NodeKey) (fp : Nat) (n : Node) : (linkNode p c fp n).key = n.key := by
  unfold linkNode
  by_cases h1 : (n.key == p) = true <;> by_cases h2 : (n.key == c) = true <;> simp [h1, h2]

theorem linkNode_parents (p c : NodeKey) (fp : Nat) (n : Node) :
    (linkNode p c fp n).parents = if (n.key == c) = true then n.parents.add p fp else n.parents := by
  unfold linkNode
  by_cases h1 : (n.key == p) = true <;> by_cases h2 : (n.key == c) = true <;> simp [h1, h2]

theorem pmem_linkNode (p c : NodeKey) (fp : Nat) (n : Node) (k : NodeKey) (f : Nat) :
    pmem (linkNode p c fp n) k f ↔ pmem n k f ∨ (n.key = c ∧ k = p ∧ f = fp) := by
  unfold linkNode pmem
  by_cases h1 : (n.key == p) = true <;> by_cases h2 : (n.key == c) = true
  all_goals simp only [h1, h2, if_true, Bool.false_eq_true, if_false]
  all_goals first
    | (have := smem_add n.parents p fp k f
       unfold smem at this
       rw [this]
       have hc : n.key = c := eq_of_beq h2
       constructor
       · rintro (h | ⟨h, h'⟩)
         · exact Or.inl h
         · exact Or.inr ⟨hc, h, h'⟩
       · rintro (h | ⟨_, h, h'⟩)
         · exact Or.inl h
         · exact Or.inr ⟨h, h'⟩)
    | (have hc : ¬ n.key = c := fun h => h2 (by simp [h])
       constructor
       · intro h; exact Or.inl h
       · rintro (h | ⟨h, _⟩)
         · exact h
         · exact absurd h hc)

theorem cmem_linkNode (p c : NodeKey) (fp : Nat) (n : Node) (k : NodeKey) (f : Nat) :
    cmem (linkNode p c fp n) k f ↔ cmem n k f ∨ (n.key = p ∧ k = c ∧ f = fp) := by
  unfold linkNode cmem
  by_cases h1 : (n.key == p) = true <;> by_cases h2 : (n.key == c) = true
  all_goals simp only [h1, h2, if_true, Bool.false_eq_true, if_false]
  all_goals first
    | (have := smem_add n.children c fp k f
       unfold smem at this
       rw [this]
       have hc : n.key = p := eq_of_beq h1
       constructor
       · rintro (h | ⟨h, h'⟩)
         · exact Or.inl h
         · exact Or.inr ⟨hc, h, h'⟩
       · rintro (h | ⟨_, h, h'⟩)
         · exact Or.inl h
         · exact Or.inr ⟨h, h'⟩)
    | (have hc : ¬ n.key = p := fun h => h1 (by simp [h])
       constructor
       · intro h; exact Or.inl h
       · rintro (h | ⟨h, _⟩)
         · exact h
         · exact absurd h hc)

theorem link_eq (ns : List Node) (p c : NodeKey) (fp : Nat)
    (h1 : childHas ns p c fp = false)
    (h2 : parentHas (updNode ns p (fun n => { n with children := n.children.add c fp })) c p fp = false) :
    link ns p c fp = .ok (ns.map (linkNode p c fp)) := by
  unfold link
  simp only [h1, h2, Bool.false_eq_true, if_false]
  unfold updNode
  rw [List.map_map]
  rfl

/-- the part of the invariant that holds at every intermediate point of `AddCert` -/
structure Core (V : Ver) (ns : List Node) (es : List Edge) : Prop where
  nodesNodup : (ns.map (·.key)).Nodup
  edgesNodup : (es.map (·.cert.fp)).Nodup
  child : ∀ e ∈ es, e.child = e.cert.sk ∧ ∃ n ∈ ns, n.key = e.child
  issuerSome : ∀ e ∈ es, ∀ k, e.issuer = some k →
      k.1 = e.cert.iss ∧ V k e.cert.fp = true ∧ ∃ n ∈ ns, n.key = k
  parents : ∀ n ∈ ns, ∀ k fp, pmem n k fp ↔
      ∃ e ∈ es, e.cert.fp = fp ∧ e.child = n.key ∧ e.issuer = some k
  children : ∀ n ∈ ns, ∀ k fp, cmem n k fp ↔
      ∃ e ∈ es, e.cert.fp = fp ∧ e.issuer = some n.key ∧ e.child = k
  pkeys : ∀ n ∈ ns, (n.parents.map (·.1)).Nodup
  pgroups : ∀ n ∈ ns, ∀ grp ∈ n.parents, grp.2.Nodup

theorem core_empty (V : Ver) : Core V [] [] := by
  constructor <;> simp

theorem pmem_newNode (sk k : NodeKey) (f : Nat) : ¬ pmem (newNode sk) k f := by
  rintro ⟨l, h, _⟩; cases h
theorem cmem_newNode (sk k : NodeKey) (f : Nat) : ¬ cmem (newNode sk) k f := by
  rintro ⟨l, h, _⟩; cases h

/-- (A) a new node without adjacency -/
theorem core_addNode {V : Ver} {ns : List Node} {es : List Edge} (hc : Core V ns es) (sk : NodeKey)
    (hnew : ∀ n ∈ ns, n.key ≠ sk) : Core V (ns ++ [newNode sk]) es := by
  refine ⟨?_, hc.edgesNodup, ?_, ?_, ?_, ?_, ?_, ?_⟩
  rotate_left 5
  · intro n hn
    rcases List.mem_append.mp hn with hn | hn
    · exact hc.pkeys n hn
    · simp only [List.mem_singleton] at hn; subst hn; simp [newNode]
  · intro n hn
    rcases List.mem_append.mp hn with hn | hn
    · exact hc.pgroups n hn
    · simp only [List.mem_singleton] at hn; subst hn; simp [newNode]
  · rw [List.map_append, List.nodup_append]
    refine ⟨hc.nodesNodup, by simp, ?_⟩
    intro a ha b hb
    simp [newNode] at hb
    subst hb
    obtain ⟨n, hn, rfl⟩ := List.mem_map.mp ha
    exact hnew n hn
  · intro e he
    obtain ⟨h1, n, hn, h2⟩ := hc.child e he
    exact ⟨h1, n, List.mem_append_left _ hn, h2⟩
  · intro e he k hk
    obtain ⟨h1, h2, n, hn, h3⟩ := hc.issuerSome e he k hk
    exact ⟨h1, h2, n, List.mem_append_left _ hn, h3⟩
  · intro n hn k fp
    rcases List.mem_append.mp hn with hn | hn
    · exact hc.parents n hn k fp
    · simp only [List.mem_singleton] at hn
      subst hn
      constructor
      · intro h; exact absurd h (pmem_newNode _ _ _)
      · rintro ⟨e, he, _, h2, _⟩
        obtain ⟨_, n, hn, h3⟩ := hc.child e he
        exact absurd (h3.trans h2) (hnew n hn)
  · intro n hn k fp
    rcases List.mem_append.mp hn with hn | hn
    · exact hc.children n hn k fp
    · simp only [List.mem_singleton] at hn
      subst hn
      constructor
      · intro h; exact absurd h (cmem_newNode _ _ _)
      · rintro ⟨e, he, _, h2, _⟩
        obtain ⟨_, _, n, hn, h3⟩ := hc.issuerSome e he _ h2
        exact absurd h3 (hnew n hn)

/-- (B) a new dangling edge -/
theorem core_addEdge {V : Ver} {ns : List Node} {es : List Edge} (hc : Core V ns es) (c : Cert)
    (hfresh : ∀ e ∈ es, e.cert.fp ≠ c.fp) (hnode : ∃ n ∈ ns, n.key = c.sk) :
    Core V ns (es ++ [{ cert := c, issuer := none, child := c.sk, root := false }]) := by
  refine ⟨hc.nodesNodup, ?_, ?_, ?_, ?_, ?_, hc.pkeys, hc.pgroups⟩
  · rw [List.map_append, List.nodup_append]
    refine ⟨hc.edgesNodup, by simp, ?_⟩
    intro a ha b hb
    simp at hb
    subst hb
    obtain ⟨e, he, rfl⟩ := List.mem_map.mp ha
    exact hfresh e he
  · intro e he
    rcases List.mem_append.mp he with he | he
    · exact hc.child e he
    · simp only [List.mem_singleton] at he
      subst he
      exact ⟨rfl, hnode⟩
  · intro e he k hk
    rcases List.mem_append.mp he with he | he
    · exact hc.issuerSome e he k hk
    · simp only [List.mem_singleton] at he
      subst he
      cases hk
  · intro n hn k fp
    rw [hc.parents n hn k fp]
    constructor
    · rintro ⟨e, he, h⟩; exact ⟨e, List.mem_append_left _ he, h⟩
    · rintro ⟨e, he, h⟩
      rcases List.mem_append.mp he with he | he
      · exact ⟨e, he, h⟩
      · simp only [List.mem_singleton] at he
        subst he
        cases h.2.2
  · intro n hn k fp
    rw [hc.children n hn k fp]
    constructor
    · rintro ⟨e, he, h⟩; exact ⟨e, List.mem_append_left _ he, h⟩
    · rintro ⟨e, he, h⟩
      rcases List.mem_append.mp he with he | he
      · exact ⟨e, he, h⟩
      · simp only [List.mem_singleton] at he
        subst he
        cases h.2.1


theorem mem_setIssuer {es : List Edge} {fp : Nat} {p : NodeKey} {e' : Edge} :
    e' ∈ setIssuer es fp p ↔
      ∃ e0 ∈ es, e' = if (e0.cert.fp == fp) = true then { e0 with issuer := some p } else e0 := by
  unfold setIssuer
  rw [List.mem_map]
  constructor
  · rintro ⟨e0, h, rfl⟩; exact ⟨e0, h, rfl⟩
  · rintro ⟨e0, h, rfl⟩; exact ⟨e0, h, rfl⟩

theorem setIssuer_fps (es : List Edge) (fp : Nat) (p : NodeKey) :
    (setIssuer es fp p).map (·.cert.fp) = es.map (·.cert.fp) := by
  unfold setIssuer
  rw [List.map_map]
  apply List.map_congr_left
  intro e _
  simp only [Function.comp]
  split <;> rfl

theorem map_linkNode_keys (ns : List Node) (p c : NodeKey) (fp : Nat) :
    (ns.map (linkNode p c fp)).map (·.key) = ns.map (·.key) := by
  rw [List.map_map]
  apply List.map_congr_left
  intro n _
  simp only [Function.comp, linkNode_key]

/-- (C) giving the dangling edge `e` the issuer `p` -/
theorem core_fixOne {V : Ver} {ns : List Node} {es : List Edge} (hc : Core V ns es) {e : Edge}
    (he : e ∈ es) (hnone : e.issuer = none) {p : NodeKey} (hp : ∃ n ∈ ns, n.key = p)
    (hname : p.1 = e.cert.iss) (hv : V p e.cert.fp = true) :
    link ns p e.child e.cert.fp = .ok (ns.map (linkNode p e.child e.cert.fp)) ∧
    Core V (ns.map (linkNode p e.child e.cert.fp)) (setIssuer es e.cert.fp p) := by
  have hnoedge : ∀ e' ∈ es, e'.cert.fp = e.cert.fp → ∀ k, e'.issuer ≠ some k := by
    intro e' he' hfp k hk
    have := edge_eq_of_fp hc.edgesNodup he' he hfp
    subst this
    rw [hnone] at hk; cases hk
  have h1 : childHas ns p e.child e.cert.fp = false := by
    cases hch : childHas ns p e.child e.cert.fp with
    | false => rfl
    | true =>
      exfalso
      unfold childHas at hch
      cases hf : findNode ns p with
      | none => simp [hf] at hch
      | some n =>
        simp only [hf] at hch
        obtain ⟨hn, _⟩ := findNode_some hf
        obtain ⟨e', he', hfp, hiss, _⟩ := (hc.children n hn e.child e.cert.fp).mp (has_smem _ _ _ hch)
        exact hnoedge e' he' hfp _ hiss
  have h2 : parentHas (updNode ns p (fun n => { n with children := n.children.add e.child e.cert.fp }))
      e.child p e.cert.fp = false := by
    cases hch : parentHas (updNode ns p (fun n => { n with children := n.children.add e.child e.cert.fp }))
      e.child p e.cert.fp with
    | false => rfl
    | true =>
      exfalso
      unfold parentHas at hch
      cases hf : findNode (updNode ns p (fun n => { n with children := n.children.add e.child e.cert.fp })) e.child with
      | none => simp [hf] at hch
      | some n1 =>
        simp only [hf] at hch
        obtain ⟨hn1, _⟩ := findNode_some hf
        unfold updNode at hn1
        obtain ⟨n, hn, rfl⟩ := List.mem_map.mp hn1
        have hpar : pmem n p e.cert.fp := by
          have := has_smem _ _ _ hch
          split at this <;> exact this
        obtain ⟨e', he', hfp, _, hiss⟩ := (hc.parents n hn p e.cert.fp).mp hpar
        exact hnoedge e' he' hfp _ hiss
  refine ⟨link_eq ns p e.child e.cert.fp h1 h2, ?_⟩
  refine ⟨?_, ?_, ?_, ?_, ?_, ?_, ?_, ?_⟩
  rotate_left 6
  · intro n' hn'
    obtain ⟨n, hn, rfl⟩ := List.mem_map.mp hn'
    rw [linkNode_parents]
    split
    · exact keys_nodup_add _ _ _ (hc.pkeys n hn)
    · exact hc.pkeys n hn
  · intro n' hn'
    obtain ⟨n, hn, rfl⟩ := List.mem_map.mp hn'
    rw [linkNode_parents]
    split
    · apply groups_nodup_add _ _ _ (hc.pgroups n hn)
      intro hs
      obtain ⟨e', he', hfp, _, hiss⟩ := (hc.parents n hn p e.cert.fp).mp hs
      exact hnoedge e' he' hfp _ hiss
    · exact hc.pgroups n hn
  · rw [map_linkNode_keys]; exact hc.nodesNodup
  · rw [setIssuer_fps]; exact hc.edgesNodup
  · intro e' he'
    obtain ⟨e0, he0, rfl⟩ := mem_setIssuer.mp he'
    obtain ⟨h3, n, hn, h4⟩ := hc.child e0 he0
    have : (if (e0.cert.fp == e.cert.fp) = true then { e0 with issuer := some p } else e0).child = e0.child ∧
        (if (e0.cert.fp == e.cert.fp) = true then { e0 with issuer := some p } else e0).cert = e0.cert := by
      split <;> exact ⟨rfl, rfl⟩
    rw [this.1, this.2]
    exact ⟨h3, linkNode p e.child e.cert.fp n, List.mem_map.mpr ⟨n, hn, rfl⟩, by rw [linkNode_key]; exact h4⟩
  · intro e' he' k hk
    obtain ⟨e0, he0, rfl⟩ := mem_setIssuer.mp he'
    by_cases hfp : (e0.cert.fp == e.cert.fp) = true
    · simp only [hfp, if_true] at hk ⊢
      have : e0 = e := edge_eq_of_fp hc.edgesNodup he0 he (by simpa using hfp)
      subst this
      simp only [Option.some.injEq] at hk
      subst hk
      obtain ⟨n, hn, hk⟩ := hp
      exact ⟨hname, hv, linkNode p e0.child e0.cert.fp n, List.mem_map.mpr ⟨n, hn, rfl⟩, by rw [linkNode_key]; exact hk⟩
    · simp only [hfp, Bool.false_eq_true, if_false] at hk ⊢
      obtain ⟨h3, h4, n, hn, h5⟩ := hc.issuerSome e0 he0 k hk
      exact ⟨h3, h4, linkNode p e.child e.cert.fp n, List.mem_map.mpr ⟨n, hn, rfl⟩, by rw [linkNode_key]; exact h5⟩
  · intro n' hn' k f
    obtain ⟨n, hn, rfl⟩ := List.mem_map.mp hn'
    rw [pmem_linkNode, linkNode_key, hc.parents n hn k f]
    constructor
    · rintro (⟨e0, he0, h3, h4, h5⟩ | ⟨h3, h4, h5⟩)
      · refine ⟨e0, mem_setIssuer.mpr ⟨e0, he0, ?_⟩, h3, h4, h5⟩
        have : ¬ (e0.cert.fp == e.cert.fp) = true := by
          intro hfp
          exact hnoedge e0 he0 (by simpa using hfp) k h5
        simp [this]
      · exact ⟨{ e with issuer := some p }, mem_setIssuer.mpr ⟨e, he, by simp⟩, h5.symm, h3.symm, by rw [h4]⟩
    · rintro ⟨e', he', h3, h4, h5⟩
      obtain ⟨e0, he0, rfl⟩ := mem_setIssuer.mp he'
      by_cases hfp : (e0.cert.fp == e.cert.fp) = true
      · simp only [hfp, if_true] at h3 h4 h5
        have : e0 = e := edge_eq_of_fp hc.edgesNodup he0 he (by simpa using hfp)
        subst this
        simp only [Option.some.injEq] at h5
        exact Or.inr ⟨h4.symm, h5.symm, h3.symm⟩
      · simp only [hfp, Bool.false_eq_true, if_false] at h3 h4 h5
        exact Or.inl ⟨e0, he0, h3, h4, h5⟩
  · intro n' hn' k f
    obtain ⟨n, hn, rfl⟩ := List.mem_map.mp hn'
    rw [cmem_linkNode, linkNode_key, hc.children n hn k f]
    constructor
    · rintro (⟨e0, he0, h3, h4, h5⟩ | ⟨h3, h4, h5⟩)
      · refine ⟨e0, mem_setIssuer.mpr ⟨e0, he0, ?_⟩, h3, h4, h5⟩
        have : ¬ (e0.cert.fp == e.cert.fp) = true := by
          intro hfp
          exact hnoedge e0 he0 (by simpa using hfp) _ h4
        simp [this]
      · exact ⟨{ e with issuer := some p }, mem_setIssuer.mpr ⟨e, he, by simp⟩, h5.symm, by rw [h3], h4.symm⟩
    · rintro ⟨e', he', h3, h4, h5⟩
      obtain ⟨e0, he0, rfl⟩ := mem_setIssuer.mp he'
      by_cases hfp : (e0.cert.fp == e.cert.fp) = true
      · simp only [hfp, if_true] at h3 h4 h5
        have : e0 = e := edge_eq_of_fp hc.edgesNodup he0 he (by simpa using hfp)
        subst this
        simp only [Option.some.injEq] at h4
        exact Or.inr ⟨h4.symm, h5.symm, h3.symm⟩
      · simp only [hfp, Bool.false_eq_true, if_false] at h3 h4 h5
        exact Or.inl ⟨e0, he0, h3, h4, h5⟩


/-! ### the fix-up loop -/

/-- closed form of the edges after the loop: the edges whose fingerprint is in `fps` get issuer `sk` -/
def fixEdges (sk : NodeKey) (es : List Edge) (fps : List Nat) : List Edge :=
  es.map (fun e => if fps.contains e.cert.fp then { e with issuer := some sk } else e)

theorem fixEdges_nil (sk : NodeKey) (es : List Edge) : fixEdges sk es [] = es := by
  unfold fixEdges
  simp

theorem fixEdges_setIssuer (sk : NodeKey) (es : List Edge) (fp : Nat) (fps : List Nat) :
    fixEdges sk (setIssuer es fp sk) fps = fixEdges sk es (fp :: fps) := by
  unfold fixEdges setIssuer
  rw [List.map_map]
  apply List.map_congr_left
  intro e _
  simp only [Function.comp, List.contains_cons]
  by_cases h1 : (e.cert.fp == fp) = true
  · simp only [h1, if_true, Bool.true_or]
    split <;> rfl
  · simp only [h1, Bool.false_eq_true, if_false, Bool.false_or]

theorem mem_fixEdges {sk : NodeKey} {es : List Edge} {fps : List Nat} {e' : Edge} :
    e' ∈ fixEdges sk es fps ↔
      ∃ e0 ∈ es, e' = if fps.contains e0.cert.fp = true then { e0 with issuer := some sk } else e0 := by
  unfold fixEdges
  rw [List.mem_map]
  constructor
  · rintro ⟨e0, h, rfl⟩; exact ⟨e0, h, rfl⟩
  · rintro ⟨e0, h, rfl⟩; exact ⟨e0, h, rfl⟩

theorem fixLoop_spec (V : Ver) (sk : NodeKey) (cands : List Nat) :
    ∀ (ns : List Node) (es : List Edge) (fixed : List Nat), Core V ns es → (∃ n ∈ ns, n.key = sk) →
      cands.Nodup →
      (∀ fp ∈ cands, ∃ e ∈ es, e.cert.fp = fp ∧ e.issuer = none ∧ e.cert.iss = sk.1) →
      ∃ ns', fixLoop V sk ns es cands fixed =
          .ok (ns', fixEdges sk es (cands.filter (fun fp => V sk fp)), fixed ++ cands.filter (fun fp => V sk fp)) ∧
        Core V ns' (fixEdges sk es (cands.filter (fun fp => V sk fp))) ∧
        ns'.map (·.key) = ns.map (·.key) := by
  induction cands with
  | nil =>
    intro ns es fixed hc _ _ _
    exact ⟨ns, by simp [fixLoop, fixEdges_nil], by simpa [fixEdges_nil] using hc, rfl⟩
  | cons fp rest ih =>
    intro ns es fixed hc hsk hnd hall
    simp only [List.nodup_cons] at hnd
    obtain ⟨e, he, hfp, hnone, hiss⟩ := hall fp List.mem_cons_self
    have hfind : findEdge es fp = some e := by
      rw [← hfp]; exact findEdge_of_mem hc.edgesNodup he
    simp only [fixLoop, hfind]
    by_cases hv : V sk fp = true
    · have hv' : V sk e.cert.fp = true := by rw [hfp]; exact hv
      obtain ⟨hlink, hc1⟩ := core_fixOne hc he hnone hsk hiss.symm hv'
      rw [hfp] at hlink hc1
      simp only [hv, if_true, hlink]
      have hsk1 : ∃ n ∈ ns.map (linkNode sk e.child fp), n.key = sk := by
        obtain ⟨n, hn, hk⟩ := hsk
        exact ⟨linkNode sk e.child fp n, List.mem_map.mpr ⟨n, hn, rfl⟩, by rw [linkNode_key]; exact hk⟩
      have hall1 : ∀ fp' ∈ rest, ∃ e' ∈ setIssuer es fp sk, e'.cert.fp = fp' ∧ e'.issuer = none ∧ e'.cert.iss = sk.1 := by
        intro fp' hfp'
        obtain ⟨e', he', h1, h2, h3⟩ := hall fp' (List.mem_cons_of_mem _ hfp')
        refine ⟨e', mem_setIssuer.mpr ⟨e', he', ?_⟩, h1, h2, h3⟩
        have : ¬ (e'.cert.fp == fp) = true := by
          intro h
          have : fp' = fp := by rw [← h1]; simpa using h
          exact hnd.1 (this ▸ hfp')
        simp [this]
      obtain ⟨ns', h1, h2, h3⟩ := ih (ns.map (linkNode sk e.child fp)) (setIssuer es fp sk) (fixed ++ [fp]) hc1 hsk1 hnd.2 hall1
      refine ⟨ns', ?_, ?_, ?_⟩
      · rw [h1, fixEdges_setIssuer]
        simp [List.filter_cons, hv]
      · rw [fixEdges_setIssuer] at h2
        simpa [List.filter_cons, hv] using h2
      · rw [h3, map_linkNode_keys]
    · simp only [hv, Bool.false_eq_true, if_false]
      have hall1 : ∀ fp' ∈ rest, ∃ e' ∈ es, e'.cert.fp = fp' ∧ e'.issuer = none ∧ e'.cert.iss = sk.1 :=
        fun fp' hfp' => hall fp' (List.mem_cons_of_mem _ hfp')
      obtain ⟨ns', h1, h2, h3⟩ := ih ns es fixed hc hsk hnd.2 hall1
      refine ⟨ns', ?_, ?_, h3⟩
      · rw [h1]; simp [List.filter_cons, hv]
      · simpa [List.filter_cons, hv] using h2


/-! ### the full invariant -/

/-- `Inv` with the `issuerNone` clause relaxed for one node key `x` (the node created by the
    running `AddCert`, before its fix-up phase).  `PreInv V g none` is the full invariant. -/
structure PreInv (V : Ver) (g : Graph) (x : Option NodeKey) : Prop where
  core : Core V g.nodes g.edges
  issuerNone : ∀ e ∈ g.edges, e.issuer = none → ∀ k ∈ g.nodes.map (·.key), some k ≠ x →
      k.1 = e.cert.iss → V k e.cert.fp = false
  missing : ∀ name fp, smem g.missing name fp ↔
      ∃ e ∈ g.edges, e.cert.fp = fp ∧ e.issuer = none ∧ e.cert.iss = name
  mkeys : (g.missing.map (·.1)).Nodup
  mgroups : ∀ grp ∈ g.missing, grp.2.Nodup

abbrev Inv (V : Ver) (g : Graph) : Prop := PreInv V g none

theorem inv_empty (V : Ver) : Inv V Graph.empty := by
  refine ⟨core_empty V, ?_, ?_, ?_, ?_⟩ <;> simp [Graph.empty, smem_nil]

theorem Inv.wf {V : Ver} {g : Graph} (h : Inv V g) : WF V g := by
  refine ⟨h.core.nodesNodup, h.core.edgesNodup, h.core.child, h.core.issuerSome, ?_, h.core.parents,
    h.core.children, h.missing⟩
  intro e he hn n hnn hname
  exact h.issuerNone e he hn n.key (List.mem_map.mpr ⟨n, hnn, rfl⟩) (by simp) hname

theorem Inv.adjNodup {V : Ver} {g : Graph} (h : Inv V g) : AdjNodup g := ⟨h.core.pkeys, h.core.pgroups⟩

theorem setIssuer_append_fresh (es : List Edge) (e0 : Edge) (p : NodeKey)
    (hfresh : ∀ e ∈ es, e.cert.fp ≠ e0.cert.fp) :
    setIssuer (es ++ [e0]) e0.cert.fp p = es ++ [{ e0 with issuer := some p }] := by
  unfold setIssuer
  rw [List.map_append]
  congr 1
  · conv => rhs; rw [← List.map_id es]
    apply List.map_congr_left
    intro e he
    have : ¬ (e.cert.fp == e0.cert.fp) = true := by
      intro h; exact hfresh e he (by simpa using h)
    simp [this]
  · simp

/-- skeleton of an edge: everything except the issuer -/
def skel (e : Edge) : Cert × NodeKey × Bool := (e.cert, e.child, e.root)

theorem setIssuer_skel (es : List Edge) (fp : Nat) (p : NodeKey) :
    (setIssuer es fp p).map skel = es.map skel := by
  unfold setIssuer
  rw [List.map_map]
  apply List.map_congr_left
  intro e _
  simp only [Function.comp]
  split <;> rfl

theorem fixEdges_skel (sk : NodeKey) (es : List Edge) (fps : List Nat) :
    (fixEdges sk es fps).map skel = es.map skel := by
  unfold fixEdges
  rw [List.map_map]
  apply List.map_congr_left
  intro e _
  simp only [Function.comp]
  split <;> rfl

/-- first half of `AddCert` (everything before the fix-up) on a fresh certificate -/
def stage1 (V : Ver) (g : Graph) (c : Cert) : Res Graph :=
  let sk := c.sk
  let isNew := !hasNode g.nodes sk
  let nodes1 := if isNew then g.nodes ++ [newNode sk] else g.nodes
  let edge0 : Edge := { cert := c, issuer := none, child := sk, root := false }
  match searchIssuer V nodes1 c.iss c.fp with
  | some p =>
    match link nodes1 p.key sk c.fp with
    | .ok nodes2 =>
      .ok { nodes := nodes2, edges := g.edges ++ [{ edge0 with issuer := some p.key }], missing := g.missing }
    | _ => .panic
  | none =>
    if g.missing.has c.iss c.fp then .panic
    else .ok { nodes := nodes1, edges := g.edges ++ [edge0], missing := g.missing.add c.iss c.fp }

theorem addCert_eq (V : Ver) (g : Graph) (c : Cert) :
    addCert V g c =
      if hasEdge g.edges c.fp then .ok g
      else match stage1 V g c with
        | .ok g1 => if !hasNode g.nodes c.sk then fixup V g1 c else .ok g1
        | _ => .panic := by
  unfold addCert stage1
  rfl

theorem stage1_spec {V : Ver} {g : Graph} (hinv : Inv V g) (c : Cert)
    (hfresh : ∀ e ∈ g.edges, e.cert.fp ≠ c.fp) :
    ∃ g1, stage1 V g c = .ok g1 ∧
      PreInv V g1 (if hasNode g.nodes c.sk then none else some c.sk) ∧
      g1.nodes.map (·.key) = (if hasNode g.nodes c.sk then g.nodes.map (·.key) else g.nodes.map (·.key) ++ [c.sk]) ∧
      g1.edges.map skel = g.edges.map skel ++ [(c, c.sk, false)] := by
  -- nodes1
  have hcore1 : Core V (if (!hasNode g.nodes c.sk) = true then g.nodes ++ [newNode c.sk] else g.nodes) g.edges ∧
      (∃ n ∈ (if (!hasNode g.nodes c.sk) = true then g.nodes ++ [newNode c.sk] else g.nodes), n.key = c.sk) ∧
      (if (!hasNode g.nodes c.sk) = true then g.nodes ++ [newNode c.sk] else g.nodes).map (·.key) =
        (if hasNode g.nodes c.sk then g.nodes.map (·.key) else g.nodes.map (·.key) ++ [c.sk]) := by
    cases hn : hasNode g.nodes c.sk with
    | true =>
      simp only [Bool.not_true, Bool.false_eq_true, if_false, if_true]
      exact ⟨hinv.core, hasNode_iff.mp hn, trivial⟩
    | false =>
      simp only [Bool.not_false, if_true, Bool.false_eq_true, if_false]
      refine ⟨core_addNode hinv.core c.sk ?_, ⟨newNode c.sk, by simp, rfl⟩, by simp [newNode]⟩
      intro n hnn hk
      have : hasNode g.nodes c.sk = true := hasNode_iff.mpr ⟨n, hnn, hk⟩
      rw [hn] at this; cases this
  obtain ⟨hcore1, hnode, hkeys1⟩ := hcore1
  have hcoreE := core_addEdge hcore1 c hfresh hnode
  unfold stage1
  simp only
  generalize hN : (if (!hasNode g.nodes c.sk) = true then g.nodes ++ [newNode c.sk] else g.nodes) = nodes1 at *
  -- old edges are fine w.r.t. old nodes
  have holdnone : ∀ e ∈ g.edges, e.issuer = none → ∀ k ∈ nodes1.map (·.key),
      some k ≠ (if hasNode g.nodes c.sk = true then none else some c.sk) → k.1 = e.cert.iss → V k e.cert.fp = false := by
    intro e he hn k hk hx hname
    apply hinv.issuerNone e he hn k ?_ (by simp) hname
    rw [hkeys1] at hk
    cases hh : hasNode g.nodes c.sk with
    | true => simpa [hh] using hk
    | false =>
      simp only [hh, Bool.false_eq_true, if_false, List.mem_append, List.mem_singleton] at hk hx
      rcases hk with hk | hk
      · exact hk
      · exact absurd (by rw [hk]) hx
  cases hs : searchIssuer V nodes1 c.iss c.fp with
  | some p =>
    simp only
    have hp : p ∈ nodes1 := by unfold searchIssuer at hs; exact List.mem_of_find?_eq_some hs
    have hpp : p.key.1 = c.iss ∧ V p.key c.fp = true := by
      unfold searchIssuer at hs
      have := List.find?_some hs
      simpa using this
    obtain ⟨hlink, hc2⟩ := core_fixOne (e := { cert := c, issuer := none, child := c.sk, root := false }) hcoreE
      (by simp) rfl ⟨p, hp, rfl⟩ hpp.1 hpp.2
    simp only at hlink hc2
    rw [hlink]
    have hse := setIssuer_append_fresh g.edges { cert := c, issuer := none, child := c.sk, root := false } p.key hfresh
    simp only at hse
    rw [hse] at hc2
    refine ⟨_, rfl, ⟨hc2, ?_, ?_, hinv.mkeys, hinv.mgroups⟩, ?_, ?_⟩
    · intro e he hn k hk hx hname
      simp only [List.mem_append, List.mem_singleton] at he
      rcases he with he | he
      · simp only [map_linkNode_keys] at hk
        exact holdnone e he hn k hk hx hname
      · subst he; cases hn
    · intro name fp
      simp only
      rw [hinv.missing name fp]
      constructor
      · rintro ⟨e, he, h⟩; exact ⟨e, List.mem_append_left _ he, h⟩
      · rintro ⟨e, he, h⟩
        rcases List.mem_append.mp he with he | he
        · exact ⟨e, he, h⟩
        · simp only [List.mem_singleton] at he
          subst he
          cases h.2.1
    · simp only [map_linkNode_keys]; exact hkeys1
    · simp [skel]
  | none =>
    simp only
    have hhas : g.missing.has c.iss c.fp = false := by
      cases hh : g.missing.has c.iss c.fp with
      | false => rfl
      | true =>
        exfalso
        obtain ⟨e, he, hfp, _⟩ := (hinv.missing c.iss c.fp).mp (has_smem _ _ _ hh)
        exact hfresh e he hfp
    simp only [hhas, Bool.false_eq_true, if_false]
    have hnot : ¬ smem g.missing c.iss c.fp := by
      intro h
      obtain ⟨e, he, hfp, _⟩ := (hinv.missing c.iss c.fp).mp h
      exact hfresh e he hfp
    refine ⟨_, rfl, ⟨hcoreE, ?_, ?_, keys_nodup_add _ _ _ hinv.mkeys, groups_nodup_add _ _ _ hinv.mgroups hnot⟩, hkeys1, ?_⟩
    · intro e he hn k hk hx hname
      simp only [List.mem_append, List.mem_singleton] at he
      rcases he with he | he
      · exact holdnone e he hn k hk hx hname
      · subst he
        simp only at hname ⊢
        obtain ⟨n, hnn, rfl⟩ := List.mem_map.mp hk
        unfold searchIssuer at hs
        have := List.find?_eq_none.mp hs n hnn
        simp only [Bool.and_eq_true, beq_iff_eq, not_and, Bool.not_eq_true] at this
        exact this hname
    · intro name fp
      simp only
      rw [smem_add, hinv.missing name fp]
      constructor
      · rintro (⟨e, he, h⟩ | ⟨rfl, rfl⟩)
        · exact ⟨e, List.mem_append_left _ he, h⟩
        · exact ⟨_, List.mem_append_right _ (List.mem_singleton.mpr rfl), rfl, rfl, rfl⟩
      · rintro ⟨e, he, h⟩
        rcases List.mem_append.mp he with he | he
        · exact Or.inl ⟨e, he, h⟩
        · simp only [List.mem_singleton] at he
          subst he
          exact Or.inr ⟨h.2.2.symm, h.1.symm⟩
    · simp [skel]


theorem keys_nodup_dropIfEmpty {κ : Type} [BEq κ] (m : SetMap κ) (k : κ) (h : (m.map (·.1)).Nodup) :
    ((m.dropIfEmpty k).map (·.1)).Nodup := by
  unfold SetMap.dropIfEmpty
  exact h.sublist (List.Sublist.map _ List.filter_sublist)

theorem fixup_spec {V : Ver} {g1 : Graph} (c : Cert) (h : PreInv V g1 (some c.sk))
    (hnode : ∃ n ∈ g1.nodes, n.key = c.sk) :
    ∃ g2, fixup V g1 c = .ok g2 ∧ Inv V g2 ∧ g2.nodes.map (·.key) = g1.nodes.map (·.key) ∧
      g2.edges.map skel = g1.edges.map skel := by
  unfold fixup
  cases hget : g1.missing.get c.subj with
  | none =>
    refine ⟨g1, rfl, ⟨h.core, ?_, h.missing, h.mkeys, h.mgroups⟩, rfl, rfl⟩
    intro e he hn k hk _ hname
    by_cases hx : some k = some c.sk
    · exfalso
      simp only [Option.some.injEq] at hx
      subst hx
      have : smem g1.missing c.subj e.cert.fp := (h.missing c.subj e.cert.fp).mpr ⟨e, he, rfl, hn, hname.symm⟩
      exact get_none_not_smem _ _ hget _ this
    · exact h.issuerNone e he hn k hk hx hname
  | some cands =>
    simp only
    have hmem : (c.subj, cands) ∈ g1.missing := mem_of_get _ _ _ hget
    have hnd : cands.Nodup := h.mgroups _ hmem
    have hall : ∀ fp ∈ cands, ∃ e ∈ g1.edges, e.cert.fp = fp ∧ e.issuer = none ∧ e.cert.iss = c.sk.1 := by
      intro fp hfp
      exact (h.missing c.subj fp).mp ⟨cands, hmem, hfp⟩
    obtain ⟨ns', hloop, hcore', hkeys'⟩ := fixLoop_spec V c.sk cands g1.nodes g1.edges [] h.core hnode hnd hall
    rw [hloop]
    simp only [List.nil_append]
    -- membership of a dangling edge with issuer name c.subj in cands
    have hincands : ∀ e ∈ g1.edges, e.issuer = none → e.cert.iss = c.subj → e.cert.fp ∈ cands := by
      intro e he hn hiss
      obtain ⟨l, hl, hfl⟩ := (h.missing c.subj e.cert.fp).mpr ⟨e, he, rfl, hn, hiss⟩
      have := get_of_mem _ _ _ h.mkeys hl
      rw [hget] at this
      cases this
      exact hfl
    refine ⟨_, rfl, ⟨hcore', ?_, ?_, ?_, ?_⟩, hkeys', fixEdges_skel _ _ _⟩
    · intro e' he' hn k hk _ hname
      simp only at he' hk
      obtain ⟨e0, he0, rfl⟩ := mem_fixEdges.mp he'
      by_cases hF : (cands.filter (fun fp => V c.sk fp)).contains e0.cert.fp = true
      · simp only [hF, if_true] at hn; cases hn
      · simp only [hF, Bool.false_eq_true, if_false] at hn hname ⊢
        rw [hkeys'] at hk
        by_cases hx : some k = some c.sk
        · simp only [Option.some.injEq] at hx
          subst hx
          have hin := hincands e0 he0 hn hname.symm
          cases hv : V c.sk e0.cert.fp with
          | false => rfl
          | true =>
            exfalso
            apply hF
            simp only [List.contains_eq_mem, List.mem_filter, decide_eq_true_eq]
            exact ⟨hin, hv⟩
        · exact h.issuerNone e0 he0 hn k hk hx hname
    · intro name fp
      simp only
      rw [smem_dropIfEmpty, smem_removeAll, h.missing name fp]
      constructor
      · rintro ⟨⟨e0, he0, h1, h2, h3⟩, hnot⟩
        refine ⟨e0, mem_fixEdges.mpr ⟨e0, he0, ?_⟩, h1, h2, h3⟩
        have : ¬ (cands.filter (fun fp => V c.sk fp)).contains e0.cert.fp = true := by
          intro hF
          simp only [List.contains_eq_mem, List.mem_filter, decide_eq_true_eq] at hF
          apply hnot
          obtain ⟨e1, he1, h4, _, h6⟩ := hall _ hF.1
          have : e1 = e0 := edge_eq_of_fp h.core.edgesNodup he1 he0 h4
          subst this
          refine ⟨by rw [← h3]; exact h6, ?_⟩
          rw [← h1]
          simp only [List.mem_filter]
          exact ⟨hF.1, hF.2⟩
        rw [if_neg this]
      · rintro ⟨e', he', h1, h2, h3⟩
        obtain ⟨e0, he0, rfl⟩ := mem_fixEdges.mp he'
        by_cases hF : (cands.filter (fun fp => V c.sk fp)).contains e0.cert.fp = true
        · simp only [hF, if_true] at h2; cases h2
        · simp only [hF, Bool.false_eq_true, if_false] at h1 h2 h3
          refine ⟨⟨e0, he0, h1, h2, h3⟩, ?_⟩
          rintro ⟨_, hin⟩
          apply hF
          rw [h1]
          simpa using hin
    · exact keys_nodup_dropIfEmpty _ _ (by rw [keys_removeAll]; exact h.mkeys)
    · intro grp hgrp
      simp only at hgrp
      unfold SetMap.dropIfEmpty at hgrp
      exact groups_nodup_removeAll _ _ _ h.mgroups grp (List.mem_filter.mp hgrp).1

/-- `AddCert` never panics and preserves the invariant; how node keys and edge skeletons change -/
theorem addCert_spec {V : Ver} {g : Graph} (hinv : Inv V g) (c : Cert) :
    ∃ g', addCert V g c = .ok g' ∧ Inv V g' ∧
      (∀ k, k ∈ g'.nodes.map (·.key) ↔ k ∈ g.nodes.map (·.key) ∨ (k = c.sk ∧ hasEdge g.edges c.fp = false)) ∧
      g'.edges.map skel = (if hasEdge g.edges c.fp then g.edges.map skel else g.edges.map skel ++ [(c, c.sk, false)]) := by
  rw [addCert_eq]
  cases hdup : hasEdge g.edges c.fp with
  | true =>
    simp only [if_true]
    exact ⟨g, rfl, hinv, by simp, rfl⟩
  | false =>
    simp only [Bool.false_eq_true, if_false]
    have hfresh : ∀ e ∈ g.edges, e.cert.fp ≠ c.fp := by
      intro e he hfp
      have : hasEdge g.edges c.fp = true := hasEdge_iff.mpr ⟨e, he, hfp⟩
      rw [hdup] at this; cases this
    obtain ⟨g1, hs1, hpre, hkeys, hskel⟩ := stage1_spec hinv c hfresh
    rw [hs1]
    simp only
    cases hn : hasNode g.nodes c.sk with
    | true =>
      simp only [hn, if_true, Bool.not_true, Bool.false_eq_true, if_false] at hpre hkeys ⊢
      refine ⟨g1, rfl, hpre, ?_, hskel⟩
      intro k
      rw [hkeys]
      constructor
      · intro h; exact Or.inl h
      · rintro (h | ⟨rfl, _⟩)
        · exact h
        · obtain ⟨n, hnn, hk⟩ := hasNode_iff.mp hn
          exact List.mem_map.mpr ⟨n, hnn, hk⟩
    | false =>
      simp only [hn, Bool.false_eq_true, if_false, Bool.not_false, if_true] at hpre hkeys ⊢
      have hnode : ∃ n ∈ g1.nodes, n.key = c.sk := by
        have : c.sk ∈ g1.nodes.map (·.key) := by rw [hkeys]; simp
        obtain ⟨n, hnn, hk⟩ := List.mem_map.mp this
        exact ⟨n, hnn, hk⟩
      obtain ⟨g2, hf, hinv2, hk2, hs2⟩ := fixup_spec c hpre hnode
      refine ⟨g2, hf, hinv2, ?_, by rw [hs2, hskel]⟩
      intro k
      rw [hk2, hkeys]
      simp


/-! ### `AddRoot`, operation sequences, histories -/

theorem mem_setRoot {es : List Edge} {fp : Nat} {e' : Edge} :
    e' ∈ setRoot es fp ↔ ∃ e0 ∈ es, e' = if (e0.cert.fp == fp) = true then { e0 with root := true } else e0 := by
  unfold setRoot
  rw [List.mem_map]
  constructor
  · rintro ⟨e0, h, rfl⟩; exact ⟨e0, h, rfl⟩
  · rintro ⟨e0, h, rfl⟩; exact ⟨e0, h, rfl⟩

theorem setRoot_same (e0 : Edge) (fp : Nat) :
    (if (e0.cert.fp == fp) = true then { e0 with root := true } else e0).cert = e0.cert ∧
    (if (e0.cert.fp == fp) = true then { e0 with root := true } else e0).child = e0.child ∧
    (if (e0.cert.fp == fp) = true then { e0 with root := true } else e0).issuer = e0.issuer := by
  split <;> exact ⟨rfl, rfl, rfl⟩

theorem setRoot_fps (es : List Edge) (fp : Nat) : (setRoot es fp).map (·.cert.fp) = es.map (·.cert.fp) := by
  unfold setRoot
  rw [List.map_map]
  apply List.map_congr_left
  intro e _
  simp only [Function.comp]
  split <;> rfl

/-- the invariant does not read the `root` flags -/
theorem inv_setRoot {V : Ver} {g : Graph} (h : Inv V g) (fp : Nat) :
    Inv V { g with edges := setRoot g.edges fp } := by
  have to : ∀ e' ∈ setRoot g.edges fp, ∃ e0 ∈ g.edges, e'.cert = e0.cert ∧ e'.child = e0.child ∧ e'.issuer = e0.issuer := by
    intro e' he'
    obtain ⟨e0, he0, rfl⟩ := mem_setRoot.mp he'
    exact ⟨e0, he0, setRoot_same e0 fp⟩
  have from_ : ∀ e0 ∈ g.edges, ∃ e' ∈ setRoot g.edges fp, e'.cert = e0.cert ∧ e'.child = e0.child ∧ e'.issuer = e0.issuer := by
    intro e0 he0
    exact ⟨_, mem_setRoot.mpr ⟨e0, he0, rfl⟩, setRoot_same e0 fp⟩
  refine ⟨⟨h.core.nodesNodup, ?_, ?_, ?_, ?_, ?_, h.core.pkeys, h.core.pgroups⟩, ?_, ?_, h.mkeys, h.mgroups⟩
  · simp only; rw [setRoot_fps]; exact h.core.edgesNodup
  · intro e' he'
    obtain ⟨e0, he0, h1, h2, _⟩ := to e' he'
    rw [h1, h2]; exact h.core.child e0 he0
  · intro e' he' k hk
    obtain ⟨e0, he0, h1, _, h3⟩ := to e' he'
    rw [h1]; exact h.core.issuerSome e0 he0 k (h3 ▸ hk)
  · intro n hn k f
    rw [h.core.parents n hn k f]
    constructor
    · rintro ⟨e0, he0, a, b, c⟩
      obtain ⟨e', he', h1, h2, h3⟩ := from_ e0 he0
      exact ⟨e', he', by rw [h1]; exact a, by rw [h2]; exact b, by rw [h3]; exact c⟩
    · rintro ⟨e', he', a, b, c⟩
      obtain ⟨e0, he0, h1, h2, h3⟩ := to e' he'
      exact ⟨e0, he0, by rw [← h1]; exact a, by rw [← h2]; exact b, by rw [← h3]; exact c⟩
  · intro n hn k f
    rw [h.core.children n hn k f]
    constructor
    · rintro ⟨e0, he0, a, b, c⟩
      obtain ⟨e', he', h1, h2, h3⟩ := from_ e0 he0
      exact ⟨e', he', by rw [h1]; exact a, by rw [h3]; exact b, by rw [h2]; exact c⟩
    · rintro ⟨e', he', a, b, c⟩
      obtain ⟨e0, he0, h1, h2, h3⟩ := to e' he'
      exact ⟨e0, he0, by rw [← h1]; exact a, by rw [← h3]; exact b, by rw [← h2]; exact c⟩
  · intro e' he' hn k hk hx hname
    obtain ⟨e0, he0, h1, _, h3⟩ := to e' he'
    rw [h1] at hname ⊢
    exact h.issuerNone e0 he0 (h3 ▸ hn) k hk hx hname
  · intro name f
    simp only
    rw [h.missing name f]
    constructor
    · rintro ⟨e0, he0, a, b, c⟩
      obtain ⟨e', he', h1, _, h3⟩ := from_ e0 he0
      exact ⟨e', he', by rw [h1]; exact a, by rw [h3]; exact b, by rw [h1]; exact c⟩
    · rintro ⟨e', he', a, b, c⟩
      obtain ⟨e0, he0, h1, _, h3⟩ := to e' he'
      exact ⟨e0, he0, by rw [← h1]; exact a, by rw [← h3]; exact b, by rw [← h1]; exact c⟩

theorem mem_edges_of_skel {es : List Edge} {L : List (Cert × NodeKey × Bool)} (h : es.map skel = L) :
    (∀ e ∈ es, skel e ∈ L) ∧ (∀ x ∈ L, ∃ e ∈ es, skel e = x) := by
  subst h
  exact ⟨fun e he => List.mem_map.mpr ⟨e, he, rfl⟩, fun x hx => by
    obtain ⟨e, he, rfl⟩ := List.mem_map.mp hx; exact ⟨e, he, rfl⟩⟩

/-- SHA-256 is injective on the certificates of the history -/
def FpInj (H : List Op) : Prop := ∀ a ∈ H, ∀ b ∈ H, a.cert.fp = b.cert.fp → a.cert = b.cert

/-- one operation: no panic, invariant and history kept -/
theorem step_spec {V : Ver} {g : Graph} {H : List Op} (hinv : Inv V g) (hh : Hist H g) (op : Op)
    (hinj : FpInj (op :: H)) :
    ∃ g', step V g op = .ok g' ∧ Inv V g' ∧ Hist (op :: H) g' := by
  obtain ⟨g1, hadd, hinv1, hkeys, hskel⟩ := addCert_spec hinv op.cert
  obtain ⟨hsk1, hsk2⟩ := mem_edges_of_skel hskel
  -- facts about g1 relative to H and the certificate c = op.cert
  have hdupcert : hasEdge g.edges op.cert.fp = true → ∃ o ∈ H, o.cert = op.cert := by
    intro hd
    obtain ⟨e, he, hfp⟩ := hasEdge_iff.mp hd
    obtain ⟨o, ho, hc⟩ := hh.certs e he
    refine ⟨o, ho, ?_⟩
    exact hinj o (List.mem_cons_of_mem _ ho) op List.mem_cons_self (by rw [hc]; exact hfp)
  have hnodes1 : ∀ k, (∃ n ∈ g1.nodes, n.key = k) ↔ ∃ o ∈ op :: H, o.cert.sk = k := by
    intro k
    have e1 : (∃ n ∈ g1.nodes, n.key = k) ↔ k ∈ g1.nodes.map (·.key) := by
      simp [List.mem_map]
    have e2 : (∃ n ∈ g.nodes, n.key = k) ↔ k ∈ g.nodes.map (·.key) := by
      simp [List.mem_map]
    rw [e1, hkeys k, ← e2, hh.nodes k]
    constructor
    · rintro (⟨o, ho, h⟩ | ⟨rfl, _⟩)
      · exact ⟨o, List.mem_cons_of_mem _ ho, h⟩
      · exact ⟨op, List.mem_cons_self, rfl⟩
    · rintro ⟨o, ho, h⟩
      rcases List.mem_cons.mp ho with rfl | ho
      · cases hd : hasEdge g.edges o.cert.fp with
        | false => exact Or.inr ⟨h.symm, rfl⟩
        | true =>
          obtain ⟨o', ho', hc⟩ := hdupcert hd
          exact Or.inl ⟨o', ho', by rw [hc]; exact h⟩
      · exact Or.inl ⟨o, ho, h⟩
  have hskelcases : ∀ e ∈ g1.edges, (∃ e0 ∈ g.edges, skel e0 = skel e) ∨
      (skel e = (op.cert, op.cert.sk, false) ∧ hasEdge g.edges op.cert.fp = false) := by
    intro e he
    have := hsk1 e he
    cases hd : hasEdge g.edges op.cert.fp with
    | true =>
      simp only [hd, if_true] at this
      obtain ⟨e0, he0, h⟩ := List.mem_map.mp this
      exact Or.inl ⟨e0, he0, h⟩
    | false =>
      simp only [hd, Bool.false_eq_true, if_false, List.mem_append, List.mem_singleton] at this
      rcases this with this | this
      · obtain ⟨e0, he0, h⟩ := List.mem_map.mp this
        exact Or.inl ⟨e0, he0, h⟩
      · exact Or.inr ⟨this, rfl⟩
  have hedges1 : ∀ fp, (∃ e ∈ g1.edges, e.cert.fp = fp) ↔ ∃ o ∈ op :: H, o.cert.fp = fp := by
    intro fp
    constructor
    · rintro ⟨e, he, hfp⟩
      rcases hskelcases e he with ⟨e0, he0, h⟩ | ⟨h, _⟩
      · have hc : e0.cert = e.cert := congrArg Prod.fst h
        obtain ⟨o, ho, h2⟩ := (hh.edges fp).mp ⟨e0, he0, by rw [hc]; exact hfp⟩
        exact ⟨o, List.mem_cons_of_mem _ ho, h2⟩
      · have hc : e.cert = op.cert := congrArg Prod.fst h
        exact ⟨op, List.mem_cons_self, by rw [← hc]; exact hfp⟩
    · rintro ⟨o, ho, hfp⟩
      have hold : (∃ e0 ∈ g.edges, e0.cert.fp = fp) → ∃ e ∈ g1.edges, e.cert.fp = fp := by
        rintro ⟨e0, he0, h0⟩
        have : skel e0 ∈ (if hasEdge g.edges op.cert.fp = true then g.edges.map skel else g.edges.map skel ++ [(op.cert, op.cert.sk, false)]) := by
          split
          · exact List.mem_map.mpr ⟨e0, he0, rfl⟩
          · exact List.mem_append_left _ (List.mem_map.mpr ⟨e0, he0, rfl⟩)
        obtain ⟨e, he, h⟩ := hsk2 _ this
        have hc : e.cert = e0.cert := congrArg Prod.fst h
        exact ⟨e, he, by rw [hc]; exact h0⟩
      rcases List.mem_cons.mp ho with rfl | ho
      · cases hd : hasEdge g.edges o.cert.fp with
        | true =>
          obtain ⟨e0, he0, h0⟩ := hasEdge_iff.mp hd
          exact hold ⟨e0, he0, h0.trans hfp⟩
        | false =>
          have : (o.cert, o.cert.sk, false) ∈ (if hasEdge g.edges o.cert.fp = true then g.edges.map skel else g.edges.map skel ++ [(o.cert, o.cert.sk, false)]) := by
            simp [hd]
          obtain ⟨e, he, h⟩ := hsk2 _ this
          have hc : e.cert = o.cert := congrArg Prod.fst h
          exact ⟨e, he, by rw [hc]; exact hfp⟩
      · exact hold ((hh.edges fp).mpr ⟨o, ho, hfp⟩)
  have hcerts1 : ∀ e ∈ g1.edges, ∃ o ∈ op :: H, o.cert = e.cert := by
    intro e he
    rcases hskelcases e he with ⟨e0, he0, h⟩ | ⟨h, _⟩
    · have hc : e0.cert = e.cert := congrArg Prod.fst h
      obtain ⟨o, ho, h2⟩ := hh.certs e0 he0
      exact ⟨o, List.mem_cons_of_mem _ ho, by rw [h2, hc]⟩
    · have hc : e.cert = op.cert := congrArg Prod.fst h
      exact ⟨op, List.mem_cons_self, hc.symm⟩
  have hroots1 : ∀ e ∈ g1.edges, e.root = true ↔ ∃ c, Op.root c ∈ H ∧ c.fp = e.cert.fp := by
    intro e he
    rcases hskelcases e he with ⟨e0, he0, h⟩ | ⟨h, hd⟩
    · have hc : e0.cert = e.cert := congrArg Prod.fst h
      have hr : e0.root = e.root := congrArg (fun x => x.2.2) h
      rw [← hr, ← hc]; exact hh.roots e0 he0
    · have hc : e.cert = op.cert := congrArg Prod.fst h
      have hr : e.root = false := congrArg (fun x => x.2.2) h
      rw [hr]
      constructor
      · intro h; cases h
      · rintro ⟨c, hcH, hfp⟩
        exfalso
        obtain ⟨e0, he0, h0⟩ := (hh.edges c.fp).mpr ⟨Op.root c, hcH, rfl⟩
        have : hasEdge g.edges op.cert.fp = true := hasEdge_iff.mpr ⟨e0, he0, by rw [h0, hfp, hc]⟩
        rw [hd] at this; cases this
  cases op with
  | add c =>
    refine ⟨g1, hadd, hinv1, ⟨hnodes1, hedges1, hcerts1, ?_⟩⟩
    intro e he
    rw [hroots1 e he]
    constructor
    · rintro ⟨c', h1, h2⟩; exact ⟨c', List.mem_cons_of_mem _ h1, h2⟩
    · rintro ⟨c', h1, h2⟩
      rcases List.mem_cons.mp h1 with h1 | h1
      · cases h1
      · exact ⟨c', h1, h2⟩
  | root c =>
    have hhas : hasEdge g1.edges c.fp = true := by
      obtain ⟨e, he, hfp⟩ := (hedges1 c.fp).mpr ⟨Op.root c, List.mem_cons_self, rfl⟩
      exact hasEdge_iff.mpr ⟨e, he, hfp⟩
    refine ⟨{ g1 with edges := setRoot g1.edges c.fp }, ?_, inv_setRoot hinv1 c.fp, ⟨hnodes1, ?_, ?_, ?_⟩⟩
    · simp only [step, addRoot]
      simp only [Op.cert] at hadd
      rw [hadd]
      simp only [hhas, if_true]
    · intro fp
      rw [← hedges1 fp]
      constructor
      · rintro ⟨e', he', h⟩
        obtain ⟨e0, he0, rfl⟩ := mem_setRoot.mp he'
        exact ⟨e0, he0, by rw [← (setRoot_same e0 c.fp).1]; exact h⟩
      · rintro ⟨e0, he0, h⟩
        exact ⟨_, mem_setRoot.mpr ⟨e0, he0, rfl⟩, by rw [(setRoot_same e0 c.fp).1]; exact h⟩
    · intro e' he'
      obtain ⟨e0, he0, rfl⟩ := mem_setRoot.mp he'
      rw [(setRoot_same e0 c.fp).1]
      exact hcerts1 e0 he0
    · intro e' he'
      obtain ⟨e0, he0, rfl⟩ := mem_setRoot.mp he'
      rw [(setRoot_same e0 c.fp).1]
      by_cases hfp : (e0.cert.fp == c.fp) = true
      · simp only [hfp, if_true]
        constructor
        · intro _; exact ⟨c, List.mem_cons_self, (by simpa using hfp : e0.cert.fp = c.fp).symm⟩
        · intro _; trivial
      · simp only [hfp, Bool.false_eq_true, if_false]
        rw [hroots1 e0 he0]
        constructor
        · rintro ⟨c', h1, h2⟩; exact ⟨c', List.mem_cons_of_mem _ h1, h2⟩
        · rintro ⟨c', h1, h2⟩
          rcases List.mem_cons.mp h1 with h1 | h1
          · exfalso
            simp only [Op.root.injEq] at h1
            subst h1
            exact hfp (by simp [h2])
          · exact ⟨c', h1, h2⟩


theorem hasEdge_after_add {g g1 : Graph} {c : Cert}
    (hskel : g1.edges.map skel = (if hasEdge g.edges c.fp then g.edges.map skel else g.edges.map skel ++ [(c, c.sk, false)])) :
    hasEdge g1.edges c.fp = true := by
  obtain ⟨_, hsk2⟩ := mem_edges_of_skel hskel
  cases hd : hasEdge g.edges c.fp with
  | true =>
    obtain ⟨e0, he0, h0⟩ := hasEdge_iff.mp hd
    have : skel e0 ∈ (if hasEdge g.edges c.fp = true then g.edges.map skel else g.edges.map skel ++ [(c, c.sk, false)]) := by
      simp only [hd, if_true]; exact List.mem_map.mpr ⟨e0, he0, rfl⟩
    obtain ⟨e, he, h⟩ := hsk2 _ this
    have hc : e.cert = e0.cert := congrArg Prod.fst h
    exact hasEdge_iff.mpr ⟨e, he, by rw [hc]; exact h0⟩
  | false =>
    have : (c, c.sk, false) ∈ (if hasEdge g.edges c.fp = true then g.edges.map skel else g.edges.map skel ++ [(c, c.sk, false)]) := by
      simp [hd]
    obtain ⟨e, he, h⟩ := hsk2 _ this
    have hc : e.cert = c := congrArg Prod.fst h
    exact hasEdge_iff.mpr ⟨e, he, by rw [hc]⟩

/-- one operation never panics and keeps the invariant (no assumption on fingerprints) -/
theorem step_inv {V : Ver} {g : Graph} (hinv : Inv V g) (op : Op) :
    ∃ g', step V g op = .ok g' ∧ Inv V g' := by
  cases op with
  | add c =>
    obtain ⟨g1, hadd, hinv1, _, _⟩ := addCert_spec hinv c
    exact ⟨g1, hadd, hinv1⟩
  | root c =>
    obtain ⟨g1, hadd, hinv1, _, hskel⟩ := addCert_spec hinv c
    refine ⟨{ g1 with edges := setRoot g1.edges c.fp }, ?_, inv_setRoot hinv1 c.fp⟩
    have hh := hasEdge_after_add hskel
    simp only [step, addRoot, hadd, hh, if_true]

theorem run_inv {V : Ver} (ops : List Op) : ∀ {g : Graph}, Inv V g → ∃ g', run V g ops = .ok g' ∧ Inv V g' := by
  induction ops with
  | nil => intro g h; exact ⟨g, rfl, h⟩
  | cons op ops ih =>
    intro g h
    obtain ⟨g1, hs, h1⟩ := step_inv h op
    obtain ⟨g2, hr, h2⟩ := ih h1
    exact ⟨g2, by simp only [run, hs]; exact hr, h2⟩

theorem Hist.congr {H H' : List Op} {g : Graph} (hm : ∀ o, o ∈ H ↔ o ∈ H') (h : Hist H g) : Hist H' g := by
  refine ⟨?_, ?_, ?_, ?_⟩
  · intro k; rw [h.nodes k]
    constructor <;> rintro ⟨o, ho, hk⟩
    · exact ⟨o, (hm o).mp ho, hk⟩
    · exact ⟨o, (hm o).mpr ho, hk⟩
  · intro fp; rw [h.edges fp]
    constructor <;> rintro ⟨o, ho, hk⟩
    · exact ⟨o, (hm o).mp ho, hk⟩
    · exact ⟨o, (hm o).mpr ho, hk⟩
  · intro e he
    obtain ⟨o, ho, hk⟩ := h.certs e he
    exact ⟨o, (hm o).mp ho, hk⟩
  · intro e he; rw [h.roots e he]
    constructor <;> rintro ⟨c, hc, hk⟩
    · exact ⟨c, (hm _).mp hc, hk⟩
    · exact ⟨c, (hm _).mpr hc, hk⟩

theorem FpInj.mono {H H' : List Op} (hsub : ∀ o ∈ H', o ∈ H) (h : FpInj H) : FpInj H' :=
  fun a ha b hb => h a (hsub a ha) b (hsub b hb)

theorem hist_empty : Hist [] Graph.empty := by
  refine ⟨?_, ?_, ?_, ?_⟩ <;> simp [Graph.empty]

theorem run_hist {V : Ver} (ops : List Op) : ∀ {g : Graph} {H : List Op}, Inv V g → Hist H g → FpInj (ops ++ H) →
    ∃ g', run V g ops = .ok g' ∧ Inv V g' ∧ Hist (ops ++ H) g' := by
  induction ops with
  | nil => intro g H h hh _; exact ⟨g, rfl, h, hh⟩
  | cons op ops ih =>
    intro g H h hh hinj
    have hinj1 : FpInj (op :: H) := hinj.mono (by
      intro o ho
      rcases List.mem_cons.mp ho with rfl | ho
      · simp
      · simp [ho])
    obtain ⟨g1, hs, h1, hh1⟩ := step_spec h hh op hinj1
    have hinj2 : FpInj (ops ++ op :: H) := hinj.mono (by
      intro o ho
      simp only [List.mem_append, List.mem_cons] at ho ⊢
      rcases ho with ho | ho | ho
      · exact Or.inl (Or.inr ho)
      · exact Or.inl (Or.inl ho)
      · exact Or.inr ho)
    obtain ⟨g2, hr, h2, hh2⟩ := ih h1 hh1 hinj2
    refine ⟨g2, by simp only [run, hs]; exact hr, h2, hh2.congr ?_⟩
    intro o
    simp only [List.mem_append, List.mem_cons]
    constructor
    · rintro (ho | ho | ho)
      · exact Or.inl (Or.inr ho)
      · exact Or.inl (Or.inl ho)
      · exact Or.inr ho
    · rintro ((ho | ho) | ho)
      · exact Or.inr (Or.inl ho)
      · exact Or.inl ho
      · exact Or.inr (Or.inr ho)

end ZV.C10
