import ZV.Model.C26
/-! # C26 — published vectors proved by kernel evaluation of the model (instantiated with the executable hashes) -/
namespace ZV.C26
/-! ## published vectors, evaluated by the Lean kernel on the model instantiated with the executable hashes
(`decide +kernel`: kernel reduction only, no compiler, no extra axioms) -/
section Vectors
open ZV.Hash

/-- RFC 8448 §3: Early Secret without PSK -/
example : toHex (earlySecret (hash13OfAlg HashAlg.sha256) none)
    = "33ad0a1c607ec03b09e6cd9893680ce210adf300aa1f2660e1b22e10f170f92a" := by decide +kernel

/-- RFC 8448 §3: Derive-Secret(Early Secret, "derived", "") -/
example : (ofHex "33ad0a1c607ec03b09e6cd9893680ce210adf300aa1f2660e1b22e10f170f92a").map
      (fun e => showRes toHex (deriveSecret (hash13OfAlg HashAlg.sha256) e derivedLabel none))
    = some "ok 6f2615a108c702c5678f54fc9dbab69716c076189c48250cebeac3576c3611ba" := by decide +kernel

/-- RFC 8448 §3: Handshake Secret from the X25519 share -/
example : (ofHex "8bd4054fb55b9d63fdfbacf9f04b9f0d35e6d63f537563efd46272900f89492d").bind (fun ikm =>
      (ofHex "6f2615a108c702c5678f54fc9dbab69716c076189c48250cebeac3576c3611ba").map (fun salt =>
        toHex (extract (hash13OfAlg HashAlg.sha256) (some ikm) salt)))
    = some "1dc826e93606aa6fdc0aadc12f741b01046aa6b99f691ed221a9f0ca043fbeac" := by decide +kernel

-- The RFC 8448 traffic key/iv vector and the TLS 1.2 PRF vector need 8-16 more compression-function evaluations in
-- the kernel (> 3 min per file on a loaded machine); they stay T3 vectors of the harness (kat.go) and T2 corpus lines.

end Vectors

end ZV.C26
