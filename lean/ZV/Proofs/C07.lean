import ZV.Model.C07
/-! helper definitions and lemmas for `ZV.Props.C07` -/
namespace ZV.C07

/-! ### what a valid chain is -/

/-- path-length clause of `isValid` for a certificate placed on top of `below` certificates
    (`below - 1` of them intermediates), plus the global length bound. -/
def PathOK (x : Cert) (below : Nat) : Prop :=
  ¬ (x.bcValid = true ∧ x.maxPathLen ≥ 0 ∧ (below : Int) - 1 > x.maxPathLen) ∧ below ≤ maxIntermediateCount

/-- A valid PREFIX of a chain: the verified certificate followed by intermediates, each one
    * a member of the intermediates pool and not (by fingerprint) a root,
    * linked to its predecessor: issuer name = subject name, signature verifies, the parent
      passes the CA / key-usage gates of `CheckSignatureFrom`,
    * a CA certificate (`BasicConstraintsValid ∧ IsCA`) within its path-length limit at this depth,
    * not repeating the subject+key of any earlier certificate of the prefix. -/
inductive Prefix (env : Env) (leaf : Cert) : Chain → Cert → Prop
  | leaf : Prefix env leaf [leaf] leaf
  | step {cur : Chain} {c x : Cert} :
      Prefix env leaf cur c →
      x ∈ env.inters → containsFp env.roots x = false →
      checkSignatureFrom env c x = true →
      x.bcValid = true → x.isCA = true → PathOK x cur.length →
      subjectAndKeyInChain cur x = false →
      Prefix env leaf (cur ++ [x]) x

/-- `ValidChain`: either the verified certificate alone when it is itself (by fingerprint) one of
    the roots, or a valid prefix closed by a member of the roots pool that is linked to the last
    prefix element (issuer name, signature, CA gates), respects its own path-length limit and does
    not repeat (by raw bytes) a certificate of the prefix. -/
inductive ValidChain (env : Env) (leaf : Cert) : Chain → Prop
  | trusted : containsFp env.roots leaf = true → ValidChain env leaf [leaf]
  | close {cur : Chain} {c root : Cert} :
      Prefix env leaf cur c →
      root ∈ env.roots →
      checkSignatureFrom env c root = true →
      PathOK root cur.length →
      certificateInChain cur root = false →
      ValidChain env leaf (cur ++ [root])

/-! ### lists -/

theorem mem_enumFrom (l : List Cert) (n i : Nat) (x : Cert) (h : (i, x) ∈ enumFrom n l) : x ∈ l := by
  induction l generalizing n with
  | nil => simp [enumFrom] at h
  | cons a l ih =>
    simp only [enumFrom, List.mem_cons, Prod.mk.injEq] at h
    rcases h with ⟨_, rfl⟩ | h
    · exact List.mem_cons_self
    · exact List.mem_cons_of_mem _ (ih _ h)

/-- every parent returned by `findVerifiedParents` is a pool member whose signature check passed. -/
theorem fvp_mem (env : Env) (pool : List Cert) (c : Cert) (i : Nat) (x : Cert)
    (h : (i, x) ∈ findVerifiedParents env pool c) : x ∈ pool ∧ checkSignatureFrom env c x = true := by
  unfold findVerifiedParents at h
  simp only at h
  obtain ⟨hm, hc⟩ := List.mem_filter.mp h
  refine ⟨?_, by simpa using hc⟩
  have : (i, x) ∈ enumFrom 0 pool := by
    repeat' split at hm
    all_goals first
      | exact (List.mem_filter.mp hm).1
      | cases hm
  exact mem_enumFrom _ _ _ _ this

theorem prefix_ne_nil {env leaf cur c} (h : Prefix env leaf cur c) : cur ≠ [] := by
  cases h <;> simp

theorem validChain_ne_nil {env leaf ch} (h : ValidChain env leaf ch) : ch ≠ [] := by
  cases h <;> simp

/-! ### isValid -/

theorem isValid_none_pathOK (x : Cert) (t : CertType) (cur : Chain) (h : isValid x t cur = none) :
    PathOK x cur.length := by
  unfold isValid at h
  split at h
  · cases h
  · split at h
    · cases h
    · split at h
      · cases h
      · rename_i h2 h3
        exact ⟨h2, by omega⟩

theorem isValid_none_ca (x : Cert) (cur : Chain) (h : isValid x .intermediate cur = none) :
    x.bcValid = true ∧ x.isCA = true := by
  unfold isValid at h
  split at h
  · cases h
  · rename_i h1
    simp only [true_and, Bool.or_eq_true, Bool.not_eq_true', not_or, Bool.not_eq_false] at h1
    exact h1

/-! ### the loops of buildChains -/

def AllValid (env : Env) (leaf : Cert) (l : List Chain) : Prop := ∀ ch ∈ l, ValidChain env leaf ch

def CacheValid (env : Env) (leaf : Cert) (m : Cache) : Prop := ∀ k chs, m k = some chs → AllValid env leaf chs

theorem allValid_append {env leaf a b} (ha : AllValid env leaf a) (hb : AllValid env leaf b) :
    AllValid env leaf (a ++ b) := by
  intro ch h
  rcases List.mem_append.mp h with h | h
  · exact ha ch h
  · exact hb ch h

theorem rootLoop_sound (env : Env) (leaf c : Cert) (cur : Chain) (hp : Prefix env leaf cur c)
    (ps : List (Nat × Cert)) (hps : ∀ p ∈ ps, p.2 ∈ env.roots ∧ checkSignatureFrom env c p.2 = true)
    (st : List Chain × Option Err) (hst : AllValid env leaf st.1) :
    AllValid env leaf (rootLoop cur ps st).1 := by
  induction ps generalizing st with
  | nil => simpa [rootLoop] using hst
  | cons p ps ih =>
    obtain ⟨n, root⟩ := p
    obtain ⟨chains, e⟩ := st
    have hroot := hps (n, root) List.mem_cons_self
    have hps' : ∀ p ∈ ps, p.2 ∈ env.roots ∧ checkSignatureFrom env c p.2 = true :=
      fun p h => hps p (List.mem_cons_of_mem _ h)
    unfold rootLoop
    cases hv : isValid root .root cur with
    | some e' => simp only; exact ih hps' _ hst
    | none =>
      simp only
      cases hin : certificateInChain cur root with
      | true => simp only [Bool.not_true, Bool.false_eq_true, if_false]; exact ih hps' _ hst
      | false =>
        simp only [Bool.not_false, if_true]
        apply ih hps'
        apply allValid_append hst
        intro ch hch
        simp only [List.mem_cons, List.not_mem_nil, or_false] at hch
        subst hch
        exact ValidChain.close hp hroot.1 hroot.2 (isValid_none_pathOK _ _ _ hv) hin

/-- what the recursive call must guarantee -/
def RecSound (env : Env) (leaf : Cert) (rec : Cache → Cert → Chain → List Chain × Option Err × Cache) : Prop :=
  ∀ cache x cur, CacheValid env leaf cache → Prefix env leaf cur x →
    AllValid env leaf (rec cache x cur).1 ∧ CacheValid env leaf (rec cache x cur).2.2

theorem cacheValid_set {env leaf m} (hm : CacheValid env leaf m) (k : Nat) (v : List Chain)
    (hv : AllValid env leaf v) : CacheValid env leaf (setCache m k v) := by
  intro k' chs h
  unfold setCache at h
  split at h
  · cases h; exact hv
  · exact hm k' chs h

theorem interLoop_sound (env : Env) (leaf c : Cert) (cur : Chain) (hp : Prefix env leaf cur c)
    (rec : Cache → Cert → Chain → List Chain × Option Err × Cache) (hrec : RecSound env leaf rec)
    (ps : List (Nat × Cert)) (hps : ∀ p ∈ ps, p.2 ∈ env.inters ∧ checkSignatureFrom env c p.2 = true)
    (st : BState) (hch : AllValid env leaf st.chains) (hca : CacheValid env leaf st.cache) :
    AllValid env leaf (interLoop rec env cur ps st).chains ∧ CacheValid env leaf (interLoop rec env cur ps st).cache := by
  induction ps generalizing st with
  | nil => exact ⟨hch, hca⟩
  | cons p ps ih =>
    obtain ⟨num, inter⟩ := p
    have hi := hps (num, inter) List.mem_cons_self
    have hps' : ∀ p ∈ ps, p.2 ∈ env.inters ∧ checkSignatureFrom env c p.2 = true :=
      fun p h => hps p (List.mem_cons_of_mem _ h)
    unfold interLoop
    cases hr : containsFp env.roots inter with
    | true => simp only [if_true]; exact ih hps' st hch hca
    | false =>
      simp only [Bool.false_eq_true, if_false]
      cases hsk : subjectAndKeyInChain cur inter with
      | true => simp only [if_true]; exact ih hps' st hch hca
      | false =>
        simp only [Bool.false_eq_true, if_false]
        cases hv : isValid inter .intermediate cur with
        | some e => simp only; exact ih hps' _ hch hca
        | none =>
          simp only
          cases hc : st.cache num with
          | some childChains =>
            simp only
            exact ih hps' _ (allValid_append hch (hca num childChains hc)) hca
          | none =>
            simp only
            have hca' := isValid_none_ca _ _ hv
            have hpre : Prefix env leaf (cur ++ [inter]) inter :=
              Prefix.step hp hi.1 hr hi.2 hca'.1 hca'.2 (isValid_none_pathOK _ _ _ hv) hsk
            have := hrec st.cache inter (cur ++ [inter]) hca hpre
            exact ih hps' _ (allValid_append hch this.1) (cacheValid_set this.2 num _ this.1)

theorem buildChains_sound (env : Env) (leaf : Cert) (fuel : Nat) : RecSound env leaf (buildChains fuel env) := by
  induction fuel with
  | zero =>
    intro cache x cur hc _
    simp only [buildChains]
    exact ⟨fun ch h => (by cases h), hc⟩
  | succ fuel ih =>
    intro cache x cur hc hp
    simp only [buildChains]
    -- chains0
    have h0 : AllValid env leaf (if cur.length = 1 ∧ containsFp env.roots x = true then [[x]] else []) := by
      split
      · rename_i h
        intro ch hch
        simp only [List.mem_cons, List.not_mem_nil, or_false] at hch
        subst hch
        cases hp with
        | leaf => exact ValidChain.trusted h.2
        | step hp' _ _ _ _ _ _ _ =>
          exfalso
          have hne := prefix_ne_nil hp'
          have hl := h.1
          simp only [List.length_append, List.length_cons, List.length_nil] at hl
          exact hne (List.length_eq_zero_iff.mp (by omega))
      · intro ch h; cases h
    refine interLoop_sound env leaf x cur hp (buildChains fuel env) ih (findVerifiedParents env env.inters x)
      (fun p h => fvp_mem env env.inters x p.1 p.2 h) _ ?_ hc
    exact rootLoop_sound env leaf x cur hp (findVerifiedParents env env.roots x)
      (fun p h => fvp_mem env env.roots x p.1 p.2 h) (_, _) h0

/-! ### FilterByDate -/

/-- the chain's common validity window, declaratively -/
def maxNotBefore : Chain → Int
  | [] => 0
  | [c] => c.notBefore
  | c :: cs => if maxNotBefore cs > c.notBefore then maxNotBefore cs else c.notBefore

theorem filterByDate_mem (now : Int) (chains : List Chain) (acc d : Dated)
    (h : filterByDate now chains acc = .ok d) :
    ∀ ch, ch ∈ d.current ++ d.expired ++ d.never → ch ∈ acc.current ++ acc.expired ++ acc.never ∨ ch ∈ chains := by
  induction chains generalizing acc with
  | nil => simp only [filterByDate] at h; cases h; intro ch hch; exact Or.inl hch
  | cons c chains ih =>
    cases c with
    | nil =>
      simp only [filterByDate] at h
      intro ch hch
      rcases ih acc h ch hch with r | r
      · exact Or.inl r
      · exact Or.inr (List.mem_cons_of_mem _ r)
    | cons leaf rest =>
      simp only [filterByDate] at h
      intro ch hch
      split at h
      · cases h
      · split at h
        · rcases ih _ h ch hch with r | r
          · simp only [List.mem_append, List.mem_cons, List.not_mem_nil, or_false] at r
            rcases r with ((r | r) | r) | r
            · exact Or.inl (by simp [r])
            · exact Or.inr (by simp [r])
            · exact Or.inl (by simp [r])
            · exact Or.inl (by simp [r])
          · exact Or.inr (List.mem_cons_of_mem _ r)
        · split at h
          · rcases ih _ h ch hch with r | r
            · simp only [List.mem_append, List.mem_cons, List.not_mem_nil, or_false] at r
              rcases r with (r | (r | r)) | r
              · exact Or.inl (by simp [r])
              · exact Or.inl (by simp [r])
              · exact Or.inr (by simp [r])
              · exact Or.inl (by simp [r])
            · exact Or.inr (List.mem_cons_of_mem _ r)
          · rcases ih _ h ch hch with r | r
            · simp only [List.mem_append, List.mem_cons, List.not_mem_nil, or_false] at r
              rcases r with (r | r) | (r | r)
              · exact Or.inl (by simp [r])
              · exact Or.inl (by simp [r])
              · exact Or.inl (by simp [r])
              · exact Or.inr (by simp [r])
            · exact Or.inr (List.mem_cons_of_mem _ r)

/-- no chain is lost: the class sizes add up to the number of non-empty chains. -/
theorem filterByDate_count (now : Int) (chains : List Chain) (acc d : Dated)
    (h : filterByDate now chains acc = .ok d) :
    d.current.length + d.expired.length + d.never.length =
      acc.current.length + acc.expired.length + acc.never.length + (chains.filter (fun ch => !ch.isEmpty)).length := by
  induction chains generalizing acc with
  | nil => simp only [filterByDate] at h; cases h; simp
  | cons c chains ih =>
    cases c with
    | nil => simp only [filterByDate] at h; simpa using ih acc h
    | cons leaf rest =>
      simp only [filterByDate] at h
      split at h
      · cases h
      · split at h
        · have := ih _ h; simp only [List.length_append, List.length_cons, List.length_nil] at this
          simp only [List.filter_cons, List.isEmpty_cons, Bool.not_false, if_true, List.length_cons]; omega
        · split at h
          · have := ih _ h; simp only [List.length_append, List.length_cons, List.length_nil] at this
            simp only [List.filter_cons, List.isEmpty_cons, Bool.not_false, if_true, List.length_cons]; omega
          · have := ih _ h; simp only [List.length_append, List.length_cons, List.length_nil] at this
            simp only [List.filter_cons, List.isEmpty_cons, Bool.not_false, if_true, List.length_cons]; omega

end ZV.C07
