import ZV.Model.C24
import ZV.Proofs.C24
/-!
  `deprioritizeAES` as Go runs it for ≤ 20 ids (one insertion sort with the comparator `less`):
  order facts about `bubble` / `insertionSortRev`, for ANY content of the two id tables behind `less`.
  The accumulator is the already sorted prefix REVERSED, so "`[b, a] <+ acc`" reads "a stands before b".
-/
namespace ZV.C24

/-- `bubble` inserts `x` somewhere: the old prefix keeps its order -/
theorem bubble_sublist (x : Nat) (acc : List Nat) : acc.Sublist (bubble x acc) := by
  induction acc with
  | nil => simp [bubble]
  | cons p ps ih =>
    simp only [bubble]
    split
    · exact List.cons_sublist_cons.mpr ih
    · exact List.sublist_cons_self _ _

theorem mem_bubble {x a : Nat} {acc : List Nat} : a ∈ bubble x acc ↔ a = x ∨ a ∈ acc := by
  rw [(bubble_perm x acc).mem_iff, List.mem_cons]

/-- the new element stays behind every earlier element it is not `less` than -/
theorem bubble_keeps_new (x a : Nat) (acc : List Nat) (ha : a ∈ acc) (hn : less x a = false) :
    [x, a].Sublist (bubble x acc) := by
  induction acc with
  | nil => simp at ha
  | cons p ps ih =>
    simp only [bubble]
    split
    · rename_i hxp
      rcases List.mem_cons.mp ha with rfl | ha'
      · rw [hn] at hxp; exact absurd hxp (by simp)
      · exact (ih ha').trans (List.sublist_cons_self _ _)
    · exact List.cons_sublist_cons.mpr (List.singleton_sublist.mpr ha)

/-- every ordered pair of `bubble x acc` was already ordered that way, or involves `x`; `x` ends up IN FRONT of an
    earlier element (behind it in the reversed list) only when `less x` that element -/
theorem bubble_pairs (x b a : Nat) (acc : List Nat) (h : [b, a].Sublist (bubble x acc)) :
    [b, a].Sublist acc ∨ (b = x ∧ a ∈ acc) ∨ (a = x ∧ b ∈ acc ∧ less x b = true) := by
  induction acc with
  | nil =>
    simp only [bubble] at h
    have := h.length_le
    simp at this
  | cons p ps ih =>
    simp only [bubble] at h
    split at h
    · rename_i hxp
      rcases List.sublist_cons_iff.mp h with h' | ⟨r, hr, h'⟩
      · rcases ih h' with h1 | ⟨hb, ha⟩ | ⟨ha, hb, hl⟩
        · exact Or.inl (h1.trans (List.sublist_cons_self _ _))
        · exact Or.inr (Or.inl ⟨hb, List.mem_cons_of_mem _ ha⟩)
        · exact Or.inr (Or.inr ⟨ha, List.mem_cons_of_mem _ hb, hl⟩)
      · simp only [List.cons.injEq] at hr
        obtain ⟨hbp, hr⟩ := hr
        subst hr
        have ha := mem_bubble.mp (List.singleton_sublist.mp h')
        rcases ha with ha | ha
        · exact Or.inr (Or.inr ⟨ha, by rw [hbp]; exact List.mem_cons_self, by rw [hbp]; exact hxp⟩)
        · refine Or.inl ?_
          rw [hbp]
          exact List.cons_sublist_cons.mpr (List.singleton_sublist.mpr ha)
    · rcases List.sublist_cons_iff.mp h with h' | ⟨r, hr, h'⟩
      · exact Or.inl h'
      · simp only [List.cons.injEq] at hr
        obtain ⟨hbx, hr⟩ := hr
        subst hr
        exact Or.inr (Or.inl ⟨hbx, List.singleton_sublist.mp h'⟩)

/-- order preservation of the whole sort (reversed result) -/
theorem insertionSortRev_stable (a b : Nat) (acc l : List Nat) :
    ([b, a].Sublist acc → [b, a].Sublist (insertionSortRev acc l)) ∧
    (a ∈ acc → b ∈ l → less b a = false → [b, a].Sublist (insertionSortRev acc l)) ∧
    ([a, b].Sublist l → less b a = false → [b, a].Sublist (insertionSortRev acc l)) := by
  induction l generalizing acc with
  | nil =>
    refine ⟨fun h => by simpa [insertionSortRev] using h, fun _ hb => by simp at hb, fun h => ?_⟩
    have := h.length_le
    simp at this
  | cons x xs ih =>
    obtain ⟨ih1, ih2, ih3⟩ := ih (bubble x acc)
    simp only [insertionSortRev]
    refine ⟨fun h => ih1 (h.trans (bubble_sublist x acc)), fun ha hb hn => ?_, fun h hn => ?_⟩
    · rcases List.mem_cons.mp hb with rfl | hb'
      · exact ih1 (bubble_keeps_new _ a acc ha hn)
      · exact ih2 (mem_bubble.mpr (Or.inr ha)) hb' hn
    · rcases List.sublist_cons_iff.mp h with h' | ⟨r, hr, h'⟩
      · exact ih3 h' hn
      · simp only [List.cons.injEq] at hr
        obtain ⟨hax, hr⟩ := hr
        subst hr
        exact ih2 (mem_bubble.mpr (Or.inl hax)) (List.singleton_sublist.mp h') hn

/-- the only pairs whose order the sort changes are pairs `a`, `b` with `less a b` -/
theorem insertionSortRev_pairs (a b : Nat) (acc l : List Nat) (h : [b, a].Sublist (insertionSortRev acc l)) :
    [b, a].Sublist acc ∨ (a ∈ acc ∧ b ∈ l) ∨ [a, b].Sublist l ∨ less a b = true := by
  induction l generalizing acc with
  | nil => exact Or.inl (by simpa [insertionSortRev] using h)
  | cons x xs ih =>
    simp only [insertionSortRev] at h
    rcases ih (bubble x acc) h with h1 | ⟨ha, hb⟩ | h3 | h4
    · rcases bubble_pairs x b a acc h1 with h' | ⟨hb, ha⟩ | ⟨ha, _, hl⟩
      · exact Or.inl h'
      · exact Or.inr (Or.inl ⟨ha, by rw [hb]; exact List.mem_cons_self⟩)
      · exact Or.inr (Or.inr (Or.inr (by rw [ha]; exact hl)))
    · rcases mem_bubble.mp ha with ha | ha
      · refine Or.inr (Or.inr (Or.inl ?_))
        rw [ha]
        exact List.cons_sublist_cons.mpr (List.singleton_sublist.mpr hb)
      · exact Or.inr (Or.inl ⟨ha, List.mem_cons_of_mem _ hb⟩)
    · exact Or.inr (Or.inr (Or.inl (h3.trans (List.sublist_cons_self _ _))))
    · exact Or.inr (Or.inr (Or.inr h4))

/-! ### no adjacent inversion (needs: no id is in both tables) -/

/-- reversed prefix: each element is not `less` than the one before it -/
def AdjRev : List Nat → Prop
  | p :: q :: t => less p q = false ∧ AdjRev (q :: t)
  | _ => True

theorem less_flip_false (hd : ∀ x, nonAESGCMAEAD x = true → isAESGCM x = false) {x p : Nat} (h : less x p = true) :
    less p x = false := by
  unfold less at *
  simp only [Bool.and_eq_true] at h
  simp [hd x h.1]

theorem bubble_adj (hd : ∀ x, nonAESGCMAEAD x = true → isAESGCM x = false) (x : Nat) (acc : List Nat)
    (h : AdjRev acc) : AdjRev (bubble x acc) := by
  induction acc with
  | nil => simp [bubble, AdjRev]
  | cons p ps ih =>
    simp only [bubble]
    split
    · rename_i hxp
      cases ps with
      | nil => exact ⟨less_flip_false hd hxp, trivial⟩
      | cons p' t =>
        have ih' := ih h.2
        simp only [bubble] at ih' ⊢
        split
        · rename_i hxp'
          simp only [hxp', if_true] at ih'
          exact ⟨h.1, ih'⟩
        · rename_i hxp'
          simp only [hxp'] at ih'
          exact ⟨less_flip_false hd hxp, ih'⟩
    · rename_i hxp
      exact ⟨by simpa using hxp, h⟩

theorem insertionSortRev_adj (hd : ∀ x, nonAESGCMAEAD x = true → isAESGCM x = false) (acc l : List Nat)
    (h : AdjRev acc) : AdjRev (insertionSortRev acc l) := by
  induction l generalizing acc with
  | nil => simpa [insertionSortRev] using h
  | cons x xs ih => exact ih _ (bubble_adj hd x acc h)

theorem AdjRev_at : ∀ (A : List Nat) (q p : Nat) (B : List Nat), AdjRev (A ++ q :: p :: B) → less q p = false
  | [], _, _, _, h => h.1
  | [_], _, _, _, h => AdjRev_at [] _ _ _ h.2
  | _ :: a' :: A, q, p, B, h => AdjRev_at (a' :: A) q p B h.2

/-- a list without adjacent inversion passes through the sort unchanged -/
theorem insertionSortRev_fixed : ∀ (l acc : List Nat),
    (∀ p x, acc.head? = some p → l.head? = some x → less x p = false) →
    (∀ pre p q post, l = pre ++ p :: q :: post → less q p = false) →
    insertionSortRev acc l = l.reverse ++ acc
  | [], acc, _, _ => by simp [insertionSortRev]
  | x :: xs, acc, hh, ha => by
    have hb : bubble x acc = x :: acc := by
      cases acc with
      | nil => rfl
      | cons p ps => simp [bubble, hh p x rfl rfl]
    simp only [insertionSortRev, hb, List.reverse_cons, List.append_assoc, List.singleton_append]
    apply insertionSortRev_fixed xs (x :: acc)
    · intro p y hp hy
      simp only [List.head?_cons, Option.some.injEq] at hp
      subst hp
      cases xs with
      | nil => simp at hy
      | cons y' t =>
        simp only [List.head?_cons, Option.some.injEq] at hy
        subst hy
        exact ha [] _ _ t rfl
    · intro pre p q post he
      exact ha (x :: pre) p q post (by simp [he])

end ZV.C24
