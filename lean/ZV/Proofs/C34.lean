import ZV.Model.C34
/-! Invariant of the activeCall protocol over all interleavings (core Lean only). -/
namespace ZV.C34

def closeCount : List Ev → Nat
  | [] => 0
  | .closeWon _ _ _ :: es => closeCount es + 1
  | _ :: es => closeCount es

/-- events are most-recent-first: an `enter` may only sit on top of a history without a winning Close -/
def NoEnterAfterClose : List Ev → Prop
  | [] => True
  | .enter _ :: older => closeCount older = 0 ∧ NoEnterAfterClose older
  | _ :: older => NoEnterAfterClose older

def CloseSeesWriters : List Ev → Prop
  | [] => True
  | .closeWon _ x n :: older => x = 2 * (n : Int) ∧ CloseSeesWriters older
  | _ :: older => CloseSeesWriters older

structure Inv (s : Sys) : Prop where
  nonneg : 0 ≤ s.active
  count : s.active = 2 * (inflightOf s.threads : Int) + s.active % 2
  bit : (closeCount s.events : Int) = s.active % 2
  order : NoEnterAfterClose s.events
  sees : CloseSeesWriters s.events

theorem sum_set : ∀ (l : List Nat) (i : Nat) (a x : Nat), l[i]? = some a →
    (l.set i x).sum + a = l.sum + x := by
  intro l
  induction l with
  | nil => intro i a x h; simp at h
  | cons y ys ih =>
    intro i a x h
    cases i with
    | zero =>
      simp at h
      subst h
      simp [List.set]
      omega
    | succ i =>
      simp at h
      have := ih i a x h
      simp [List.set]
      omega

theorem inflight_set (ts : List Thread) (i : Nat) (t t' : Thread) (h : ts[i]? = some t) :
    inflightOf (ts.set i t') + inGate t = inflightOf ts + inGate t' := by
  simp only [inflightOf, List.map_set]
  apply sum_set
  simp [h]

theorem init_inv (progs : List (List Op)) : Inv (init progs) := by
  refine ⟨by simp [init], ?_, by simp [init, closeCount], trivial, trivial⟩
  have : inflightOf (init progs).threads = 0 := by
    simp only [init, inflightOf, List.map_map]
    induction progs with
    | nil => rfl
    | cons p ps ih => simpa [inGate] using ih
  rw [this]; simp [init]

theorem doHandshake_same (s : Sys) :
    (doHandshake s).1.active = s.active ∧ (doHandshake s).1.threads = s.threads
      ∧ (doHandshake s).1.events = s.events := by
  unfold doHandshake
  split
  · exact ⟨rfl, rfl, rfl⟩
  · exact ⟨rfl, rfl, rfl⟩
  · split <;> exact ⟨rfl, rfl, rfl⟩

theorem writeBody_same (s : Sys) :
    (writeBody s).1.active = s.active ∧ (writeBody s).1.threads = s.threads
      ∧ (writeBody s).1.events = s.events := by
  have h := doHandshake_same s
  unfold writeBody
  split
  · rename_i s1 heq; rw [heq] at h; exact h
  · rename_i s1 heq; rw [heq] at h
    split
    · exact h
    · split <;> exact h

theorem closeNotify_same (s : Sys) :
    (closeNotify s).1.active = s.active ∧ (closeNotify s).1.threads = s.threads
      ∧ (closeNotify s).1.events = s.events := by
  unfold closeNotify
  split
  · exact ⟨rfl, rfl, rfl⟩
  · split <;> exact ⟨rfl, rfl, rfl⟩

theorem inGate_of_pc {t : Thread} :
    (t.pc = .idle → inGate t = 0) ∧ (t.pc = .wStart → inGate t = 0) ∧ (∀ x, t.pc = .wLoaded x → inGate t = 0)
    ∧ (t.pc = .wIn → inGate t = 1) ∧ (∀ r, t.pc = .wExit r → inGate t = 1) ∧ (t.pc = .cStart → inGate t = 0)
    ∧ (∀ x, t.pc = .cLoaded x → inGate t = 0) ∧ (∀ x, t.pc = .cWon x → inGate t = 0) := by
  refine ⟨?_, ?_, ?_, ?_, ?_, ?_, ?_, ?_⟩ <;> intros <;> simp [inGate, *]

/-- a step that only replaces thread `i` by a thread with the same gate status and leaves the word and the
    events alone preserves the invariant -/
theorem inv_of_same {s s' : Sys} (inv : Inv s) (ha : s'.active = s.active) (he : s'.events = s.events)
    (hi : inflightOf s'.threads = inflightOf s.threads) : Inv s' := by
  refine ⟨?_, ?_, ?_, ?_, ?_⟩
  · rw [ha]; exact inv.nonneg
  · rw [ha, hi]; exact inv.count
  · rw [ha, he]; exact inv.bit
  · rw [he]; exact inv.order
  · rw [he]; exact inv.sees

theorem step_inv (i : Nat) (s : Sys) (inv : Inv s) : Inv (step i s) := by
  unfold step
  split
  · exact inv
  · rename_i t hi
    have hg := @inGate_of_pc t
    simp only []
    split
    · -- idle
      rename_i hpc
      have g0 := hg.1 hpc
      split
      · exact inv
      · -- handshake
        rename_i rest _
        have hs := doHandshake_same s
        cases hd : doHandshake s with
        | mk s1 ok =>
          rw [hd] at hs
          simp only []
          refine inv_of_same inv hs.1 hs.2.2 ?_
          have := inflight_set s.threads i t ⟨rest, .idle, (if ok = true then Out.ok else Out.err) :: t.outs⟩ hi
          have hth : s1.threads = s.threads := hs.2.1
          simp only [hth]
          first | rw [g0] at this | rw [g1] at this
          simp [inGate] at this ⊢
          omega
      · -- closeWrite
        rename_i rest _
        split
        · refine inv_of_same inv rfl rfl ?_
          have := inflight_set s.threads i t ⟨rest, .idle, .early :: t.outs⟩ hi
          first | rw [g0] at this | rw [g1] at this
          simp [inGate] at this ⊢
          omega
        · have hs := closeNotify_same s
          cases hd : closeNotify s with
          | mk s1 e =>
            rw [hd] at hs
            simp only []
            refine inv_of_same inv hs.1 hs.2.2 ?_
            have := inflight_set s.threads i t ⟨rest, .idle, (if e = true then Out.err else Out.ok) :: t.outs⟩ hi
            have hth : s1.threads = s.threads := hs.2.1
            simp only [hth]
            first | rw [g0] at this | rw [g1] at this
            simp [inGate] at this ⊢
            omega
      · rename_i rest _
        refine inv_of_same inv rfl rfl ?_
        have := inflight_set s.threads i t { t with prog := rest, pc := .wStart } hi
        first | rw [g0] at this | rw [g1] at this
        simp [inGate] at this ⊢
        omega
      · rename_i rest _
        refine inv_of_same inv rfl rfl ?_
        have := inflight_set s.threads i t { t with prog := rest, pc := .cStart } hi
        first | rw [g0] at this | rw [g1] at this
        simp [inGate] at this ⊢
        omega
    · -- wStart
      rename_i hpc
      have g0 := hg.2.1 hpc
      refine inv_of_same inv rfl rfl ?_
      have := inflight_set s.threads i t { t with pc := .wLoaded s.active } hi
      first | rw [g0] at this | rw [g1] at this
      simp [inGate] at this ⊢
      omega
    · -- wLoaded x
      rename_i x hpc
      have g0 := hg.2.2.1 x hpc
      split
      · -- refused
        have hfl := inflight_set s.threads i t { t with pc := .idle, outs := .closed :: t.outs } hi
        first | rw [g0] at hfl | rw [g1] at hfl
        simp [inGate] at hfl
        refine ⟨inv.nonneg, ?_, ?_, inv.order, inv.sees⟩
        · have := inv.count; simp only []; rw [show inflightOf (s.threads.set i _) = inflightOf s.threads by omega]; exact this
        · exact inv.bit
      · rename_i hodd
        split
        · -- CAS succeeds: enter
          rename_i heq
          have hfl := inflight_set s.threads i t { t with pc := .wIn } hi
          first | rw [g0] at hfl | rw [g1] at hfl
          simp [inGate] at hfl
          have hx : x % 2 = 0 := by
            simp only [isOdd, beq_iff_eq] at hodd
            omega
          have h1 := inv.nonneg; have h2 := inv.count; have h3 := inv.bit
          rw [heq] at h1 h2 h3
          refine ⟨?_, ?_, ?_, ?_, inv.sees⟩
          · simp only []; omega
          · simp only []; rw [show inflightOf (s.threads.set i _) = inflightOf s.threads + 1 by omega]; omega
          · simp only [closeCount]; omega
          · exact ⟨by omega, inv.order⟩
        · refine inv_of_same inv rfl rfl ?_
          have := inflight_set s.threads i t { t with pc := .wStart } hi
          first | rw [g0] at this | rw [g1] at this
          simp [inGate] at this ⊢
          omega
    · -- wIn
      rename_i hpc
      have g1 := hg.2.2.2.1 hpc
      have hs := writeBody_same s
      cases hd : writeBody s with
      | mk s1 r =>
        rw [hd] at hs
        simp only []
        refine inv_of_same inv hs.1 hs.2.2 ?_
        have := inflight_set s.threads i t { t with pc := .wExit r } hi
        have hth : s1.threads = s.threads := hs.2.1
        simp only [hth]
        first | rw [g0] at this | rw [g1] at this
        simp [inGate] at this ⊢
        omega
    · -- wExit r
      rename_i r hpc
      have g1 := hg.2.2.2.2.1 r hpc
      have hfl := inflight_set s.threads i t { t with pc := .idle, outs := r :: t.outs } hi
      first | rw [g0] at hfl | rw [g1] at hfl
      simp [inGate] at hfl
      have h1 := inv.nonneg; have h2 := inv.count; have h3 := inv.bit
      refine ⟨?_, ?_, ?_, inv.order, inv.sees⟩
      · simp only []; omega
      · simp only []
        have : (inflightOf s.threads : Int) = (inflightOf (s.threads.set i { t with pc := .idle, outs := r :: t.outs }) : Int) + 1 := by omega
        omega
      · simp only [closeCount]; omega
    · -- cStart
      rename_i hpc
      have g0 := hg.2.2.2.2.2.1 hpc
      refine inv_of_same inv rfl rfl ?_
      have := inflight_set s.threads i t { t with pc := .cLoaded s.active } hi
      first | rw [g0] at this | rw [g1] at this
      simp [inGate] at this ⊢
      omega
    · -- cLoaded x
      rename_i x hpc
      have g0 := hg.2.2.2.2.2.2.1 x hpc
      split
      · have hfl := inflight_set s.threads i t { t with pc := .idle, outs := .closed :: t.outs } hi
        first | rw [g0] at hfl | rw [g1] at hfl
        simp [inGate] at hfl
        refine ⟨inv.nonneg, ?_, ?_, inv.order, inv.sees⟩
        · have := inv.count; simp only []; rw [show inflightOf (s.threads.set i _) = inflightOf s.threads by omega]; exact this
        · exact inv.bit
      · rename_i hodd
        split
        · rename_i heq
          have hfl := inflight_set s.threads i t { t with pc := .cWon x } hi
          first | rw [g0] at hfl | rw [g1] at hfl
          simp [inGate] at hfl
          have hx : x % 2 = 0 := by
            simp only [isOdd, beq_iff_eq] at hodd
            omega
          have h1 := inv.nonneg; have h2 := inv.count; have h3 := inv.bit
          rw [heq] at h1 h2 h3
          refine ⟨?_, ?_, ?_, inv.order, ?_⟩
          · simp only []; omega
          · simp only []; rw [show inflightOf (s.threads.set i _) = inflightOf s.threads by omega]; omega
          · simp only [closeCount]; omega
          · exact ⟨by omega, inv.sees⟩
        · refine inv_of_same inv rfl rfl ?_
          have := inflight_set s.threads i t { t with pc := .cStart } hi
          first | rw [g0] at this | rw [g1] at this
          simp [inGate] at this ⊢
          omega
    · -- cWon x
      rename_i x hpc
      have g0 := hg.2.2.2.2.2.2.2 x hpc
      split
      · refine inv_of_same inv rfl rfl ?_
        have := inflight_set s.threads i t { t with pc := .idle, outs := .ok :: t.outs } hi
        first | rw [g0] at this | rw [g1] at this
        simp [inGate] at this ⊢
        omega
      · split
        · have hs := closeNotify_same s
          cases hd : closeNotify s with
          | mk s1 e =>
            rw [hd] at hs
            simp only []
            refine inv_of_same inv hs.1 hs.2.2 ?_
            have := inflight_set s.threads i t { t with pc := .idle, outs := (if e = true then Out.err else Out.ok) :: t.outs } hi
            have hth : s1.threads = s.threads := hs.2.1
            simp only [hth]
            first | rw [g0] at this | rw [g1] at this
            simp [inGate] at this ⊢
            omega
        · refine inv_of_same inv rfl rfl ?_
          have := inflight_set s.threads i t { t with pc := .idle, outs := .ok :: t.outs } hi
          first | rw [g0] at this | rw [g1] at this
          simp [inGate] at this ⊢
          omega

/-- the closed bit is never cleared -/
theorem step_bit_sticky (i : Nat) (s : Sys) (h : s.active % 2 = 1) : (step i s).active % 2 = 1 := by
  unfold step
  split
  · exact h
  · rename_i t hi
    simp only []
    split
    · split
      · exact h
      · have := (doHandshake_same s).1
        cases hd : doHandshake s with
        | mk s1 ok => rw [hd] at this; simp only [] at this ⊢; omega
      · split
        · exact h
        · have := (closeNotify_same s).1
          cases hd : closeNotify s with
          | mk s1 e => rw [hd] at this; simp only [] at this ⊢; omega
      · exact h
      · exact h
    · exact h
    · rename_i x _
      split
      · exact h
      · rename_i hodd
        split
        · rename_i heq
          simp only [isOdd, beq_iff_eq] at hodd
          omega
        · exact h
    · have := (writeBody_same s).1
      cases hd : writeBody s with
      | mk s1 r => rw [hd] at this; simp only [] at this ⊢; omega
    · simp only []; omega
    · exact h
    · rename_i x _
      split
      · exact h
      · rename_i hodd
        split
        · rename_i heq
          simp only [isOdd, beq_iff_eq] at hodd
          omega
        · exact h
    · split
      · exact h
      · split
        · have := (closeNotify_same s).1
          cases hd : closeNotify s with
          | mk s1 e => rw [hd] at this; simp only [] at this ⊢; omega
        · exact h

theorem run_bit_sticky (sched : List Nat) : ∀ (s : Sys), s.active % 2 = 1 → (run s sched).active % 2 = 1 := by
  induction sched with
  | nil => intro s h; exact h
  | cons i is ih => intro s h; exact ih _ (step_bit_sticky i s h)

theorem getElem?_set_self' {α} (l : List α) (i : Nat) (a x : α) (h : l[i]? = some a) : (l.set i x)[i]? = some x := by
  have hlt : i < l.length := by
    cases hl : decide (i < l.length) with
    | true => exact of_decide_eq_true hl
    | false =>
      have : ¬ i < l.length := of_decide_eq_false hl
      have : l[i]? = none := by simp; omega
      rw [this] at h; cases h
  simp [hlt]

theorem step_wStart (i : Nat) (s : Sys) (t : Thread) (hi : s.threads[i]? = some t) (hpc : t.pc = .wStart) :
    step i s = { s with threads := s.threads.set i { t with pc := .wLoaded s.active } } := by
  unfold step; simp only [hi, hpc]

theorem step_cStart (i : Nat) (s : Sys) (t : Thread) (hi : s.threads[i]? = some t) (hpc : t.pc = .cStart) :
    step i s = { s with threads := s.threads.set i { t with pc := .cLoaded s.active } } := by
  unfold step; simp only [hi, hpc]

theorem step_wLoaded_odd (i : Nat) (s : Sys) (t : Thread) (x : Int) (hi : s.threads[i]? = some t)
    (hpc : t.pc = .wLoaded x) (hodd : isOdd x = true) :
    step i s = { s with threads := s.threads.set i { t with pc := .idle, outs := .closed :: t.outs },
                        events := .refusedW i :: s.events } := by
  unfold step; simp only [hi, hpc, hodd, if_true]

theorem step_cLoaded_odd (i : Nat) (s : Sys) (t : Thread) (x : Int) (hi : s.threads[i]? = some t)
    (hpc : t.pc = .cLoaded x) (hodd : isOdd x = true) :
    step i s = { s with threads := s.threads.set i { t with pc := .idle, outs := .closed :: t.outs },
                        events := .refusedC i :: s.events } := by
  unfold step; simp only [hi, hpc, hodd, if_true]

theorem step_cLoaded_win (i : Nat) (s : Sys) (t : Thread) (x : Int) (hi : s.threads[i]? = some t)
    (hpc : t.pc = .cLoaded x) (hodd : isOdd x = false) (heq : s.active = x) :
    step i s = { s with threads := s.threads.set i { t with pc := .cWon x }, active := x + 1,
                        events := .closeWon i x (inflightOf s.threads) :: s.events } := by
  unfold step; simp only [hi, hpc, hodd, heq, if_true, Bool.false_eq_true, if_false]

/-- a Write that loads the word while the closed bit is set is refused -/
theorem write_refused_when_closed (i : Nat) (s : Sys) (t : Thread) (hi : s.threads[i]? = some t)
    (hpc : t.pc = .wStart) (h : s.active % 2 = 1) :
    (step i (step i s)).threads[i]? = some { t with pc := .idle, outs := .closed :: t.outs } := by
  have h1 := step_wStart i s t hi hpc
  have h2 : (step i s).threads[i]? = some { t with pc := .wLoaded s.active } := by
    rw [h1]; exact getElem?_set_self' _ _ _ _ hi
  have hodd : isOdd s.active = true := by simp [isOdd, h]
  rw [step_wLoaded_odd i (step i s) _ s.active h2 rfl hodd]
  exact getElem?_set_self' _ _ _ _ h2

/-- `Close` never waits for Writes: running alone from its first load it either is refused or wins its CAS
    at once … -/
theorem close_cas_alone (i : Nat) (s : Sys) (t : Thread) (hi : s.threads[i]? = some t) (hpc : t.pc = .cStart) :
    (step i (step i s)).threads[i]? =
      some (if s.active % 2 = 1 then { t with pc := .idle, outs := .closed :: t.outs }
            else { t with pc := .cWon s.active }) := by
  have h1 := step_cStart i s t hi hpc
  have h2 : (step i s).threads[i]? = some { t with pc := .cLoaded s.active } := by
    rw [h1]; exact getElem?_set_self' _ _ _ _ hi
  have hact : (step i s).active = s.active := by rw [h1]
  by_cases h : s.active % 2 = 1
  · have hodd : isOdd s.active = true := by simp [isOdd, h]
    rw [step_cLoaded_odd i (step i s) _ s.active h2 rfl hodd, if_pos h]
    exact getElem?_set_self' _ _ _ _ h2
  · have hodd : isOdd s.active = false := by simp [isOdd, h]
    rw [step_cLoaded_win i (step i s) _ s.active h2 rfl hodd hact, if_neg h]
    exact getElem?_set_self' _ _ _ _ h2

/-- … and after winning it returns in one more step, whatever the Writes in flight are doing -/
theorem close_won_returns (i : Nat) (s : Sys) (t : Thread) (x : Int) (hi : s.threads[i]? = some t)
    (hpc : t.pc = .cWon x) :
    ∃ r, r ≠ Out.closed ∧ (step i s).threads[i]? = some { t with pc := .idle, outs := r :: t.outs }
      ∧ (step i s).connClosed = true := by
  unfold step
  simp only [hi, hpc]
  split
  · exact ⟨.ok, by simp, getElem?_set_self' _ _ _ _ hi, rfl⟩
  · split
    · have hs := closeNotify_same s
      cases hd : closeNotify s with
      | mk s1 e =>
        rw [hd] at hs
        have hth : s1.threads = s.threads := hs.2.1
        refine ⟨if e = true then .err else .ok, by cases e <;> simp, ?_, rfl⟩
        simp only [hth]
        exact getElem?_set_self' _ _ _ _ hi
    · exact ⟨.ok, by simp, getElem?_set_self' _ _ _ _ hi, rfl⟩

theorem inflight_zero_of_quiescent (ts : List Thread) (h : ts.all (fun t => t.pc == .idle && t.prog.isEmpty) = true) :
    inflightOf ts = 0 := by
  induction ts with
  | nil => rfl
  | cons t ts ih =>
    simp only [List.all_cons, Bool.and_eq_true] at h
    have hpc : t.pc = .idle := by simpa using h.1.1
    have := ih h.2
    simp only [inflightOf, List.map_cons, List.sum_cons] at *
    simp [inGate, hpc, this]

theorem run_inv (sched : List Nat) : ∀ (s : Sys), Inv s → Inv (run s sched) := by
  induction sched with
  | nil => intro s h; exact h
  | cons i is ih => intro s h; exact ih _ (step_inv i s h)

end ZV.C34
