import ZV.Proofs.C04
import ZV.Proofs.C04Int
import ZV.Proofs.C04Oid
/-! Round trips of the extension value builders of `buildExtensions` through the matching arms of `parseCertificate`
    (helper lemmas; the property theorems are in `ZV.Props.C04`). -/
namespace ZV.C04
open ZV ZV.Der ZV.C06

@[simp] theorem elemOf_body (t : UInt8) (b : Bytes) : (elemOf t b).body = b := rfl
@[simp] theorem elemOf_hdr (t : UInt8) (b : Bytes) : (elemOf t b).hdr = hdrOf t b.length := rfl
@[simp] theorem elemOf_full (t : UInt8) (b : Bytes) : (elemOf t b).full = writeTLV t b := rfl

theorem field_tlv (w : Want) (o : Bool) (t : UInt8) (body rest : Bytes) (ht : t.toNat % 32 ≠ 31)
    (hl : body.length < 2147483648) (hw : w.ok (hdrOf t body.length) = true) :
    field w o (writeTLV t body ++ rest) = .ok (some (elemOf t body), rest) :=
  field_writeTLV w o t body rest ht hl hw

theorem field_tlv_end (w : Want) (o : Bool) (t : UInt8) (body : Bytes) (ht : t.toNat % 32 ≠ 31)
    (hl : body.length < 2147483648) (hw : w.ok (hdrOf t body.length) = true) :
    field w o (writeTLV t body) = .ok (some (elemOf t body), []) := by
  have := field_writeTLV w o t body [] ht hl hw
  simp only [List.append_nil] at this
  exact this

theorem first_tlv (w : Want) (t : UInt8) (body : Bytes) (ht : t.toNat % 32 ≠ 31)
    (hl : body.length < 2147483648) (hw : w.ok (hdrOf t body.length) = true) :
    first w (writeTLV t body) = .ok (elemOf t body) := first_writeTLV w t body ht hl hw

theorem mapRes_map {α β γ} (f : β → Res γ) (g : α → β) (h : α → γ) (xs : List α)
    (hx : ∀ x ∈ xs, f (g x) = .ok (h x)) : mapRes f (xs.map g) = .ok (xs.map h) := by
  induction xs with
  | nil => rfl
  | cons x xs ih =>
    simp only [List.map_cons, mapRes]
    rw [hx x List.mem_cons_self, ih (fun y hy => hx y (List.mem_cons_of_mem _ hy))]

/-- the length of a written SEQUENCE OF bounds the body and every element -/
theorem tlvs_bounds {α} (t0 : UInt8) (g : α → Bytes) (xs : List α) (N : Nat)
    (h : (writeTLV t0 ((xs.map g).flatten)).length < N) :
    ((xs.map g).flatten).length < N ∧ ∀ x ∈ xs, (g x).length < N := by
  have h1 := writeTLV_length_ge t0 ((xs.map g).flatten)
  refine ⟨by omega, ?_⟩
  intro x hx
  have := length_le_flatten (List.mem_map_of_mem (f := g) hx)
  omega

/-- `seqOf` on a written SEQUENCE OF elements that all carry the identifier octet `t` -/
theorem seqOf_tlvs {α} (tag : Nat) (cmp : Bool) (t : UInt8) (b : α → Bytes) (xs : List α)
    (ht : t.toNat % 32 ≠ 31)
    (htag : (t.toNat / 64 == 0 && t.toNat % 32 == tag && decide (t.toNat / 32 % 2 = 1) == cmp) = true)
    (hlen : (writeTLV 0x30 ((xs.map fun x => writeTLV t (b x)).flatten)).length < 2147483648) :
    seqOf tag cmp (writeTLV 0x30 ((xs.map fun x => writeTLV t (b x)).flatten))
      = .ok (xs.map fun x => elemOf t (b x)) := by
  obtain ⟨hb, he⟩ := tlvs_bounds 0x30 (fun x => writeTLV t (b x)) xs _ hlen
  unfold seqOf
  rw [first_tlv _ _ _ (by decide) hb (by simp [Want.ok, hdrOf])]
  simp only [elemOf_body]
  rw [readElems_writeTLVs (fun _ => t) b xs (by
    intro x hx
    have := he x hx
    have := writeTLV_length_ge t (b x)
    exact ⟨ht, by omega⟩)]
  simp only
  rw [if_pos]
  rw [List.all_eq_true]
  intro e he
  obtain ⟨x, _, rfl⟩ := List.mem_map.mp he
  simpa [hdrOf] using htag

theorem mapM_id_some {β} : ∀ (l : List (Option β)) (es : List β), l.mapM id = some es → l = es.map some := by
  intro l
  induction l with
  | nil => intro es h; simp at h; subst h; rfl
  | cons a l ih =>
    intro es h
    rw [List.mapM_cons] at h
    cases a with
    | none => simp at h
    | some a =>
      cases hl : l.mapM id with
      | none => simp [hl] at h
      | some r =>
        simp [hl] at h
        subst h
        rw [ih r hl]; rfl

theorem mapM_id_map_some {β} (es : List β) : (es.map some).mapM id = some es := by
  induction es with
  | nil => rfl
  | cons a l ih => rw [List.map_cons, List.mapM_cons, ih]; rfl

/-! ### OID lists (EKU, policies) -/

/-- the content octets of the OIDs of a list (those that `marshalObjectIdentifier` accepts — all of them whenever the
    builder succeeds) -/
def oidContents (oids : List (List Nat)) : List Bytes := oids.filterMap encOID

theorem mem_oidContents {oids : List (List Nat)} {c : Bytes} (h : c ∈ oidContents oids) :
    ∃ o ∈ oids, encOID o = some c := by
  simpa [oidContents] using h

theorem encOIDs_eq : ∀ (oids : List (List Nat)) (body : Bytes), encOIDs oids = some body →
    oids.map encOID = (oidContents oids).map some ∧
    body = ((oidContents oids).map fun c => writeTLV 0x06 c).flatten := by
  intro oids
  induction oids with
  | nil => intro body h; simp [encOIDs] at h; subst h; simp [oidContents]
  | cons o os ih =>
    intro body h
    simp only [encOIDs] at h
    split at h
    · rename_i b r hb hr
      simp only [Option.some.injEq] at h
      obtain ⟨h1, h2⟩ := ih r hr
      subst h
      simp only [oidContents, List.filterMap_cons, hb, List.map_cons, List.flatten_cons, tlv] at h1 h2 ⊢
      exact ⟨by rw [h1], by rw [h2]⟩
    · cases h

theorem valid_oidContents {oids : List (List Nat)} (hok : ∀ o ∈ oids, oidOk o = true) :
    ∀ c ∈ oidContents oids, validOID c = true := by
  intro c hc
  obtain ⟨o, ho, he⟩ := mem_oidContents hc
  exact validOID_encOID he (hok o ho)

theorem parseEKU_build (oids : List (List Nat)) (body : Bytes) (h : encOIDs oids = some body)
    (hok : ∀ o ∈ oids, oidOk o = true) (hlen : (tlv 0x30 body).length < 2147483648) :
    parseEKU (tlv 0x30 body) = .ok (oidContents oids) := by
  obtain ⟨_, hb⟩ := encOIDs_eq oids body h
  subst hb
  unfold parseEKU tlv
  rw [seqOf_tlvs 6 false 0x06 (fun c => c) (oidContents oids) (by decide) (by decide) hlen]
  simp only
  rw [if_pos]
  · simp [List.map_map, Function.comp_def]
  · rw [List.all_eq_true]
    intro e he
    obtain ⟨c, hc, rfl⟩ := List.mem_map.mp he
    exact valid_oidContents hok c hc

theorem map_encOID_some {β} (g : Bytes → β) : ∀ (ps : List (List Nat)) (es : List β),
    ps.map (fun p => (encOID p).map g) = es.map some → es = (oidContents ps).map g := by
  intro ps
  induction ps with
  | nil => intro es h; cases es <;> simp_all [oidContents]
  | cons p ps ih =>
    intro es h
    cases es with
    | nil => simp at h
    | cons e es =>
      simp only [List.map_cons, List.cons.injEq] at h
      obtain ⟨h1, h2⟩ := h
      cases hp : encOID p with
      | none => simp [hp] at h1
      | some c =>
        simp only [hp, Option.map_some, Option.some.injEq] at h1
        subst h1
        simp only [oidContents, List.filterMap_cons, hp, List.map_cons]
        rw [ih es h2]; rfl

theorem buildPolicies_eq (ps : List (List Nat)) (v : Bytes) (h : buildPolicies ps = some v) :
    v = writeTLV 0x30 (((oidContents ps).map fun c => writeTLV 0x30 (writeTLV 0x06 c)).flatten) := by
  unfold buildPolicies at h
  split at h
  · rename_i es he
    simp only [Option.some.injEq] at h
    have := map_encOID_some _ ps es (mapM_id_some _ _ he)
    subst this; subst h
    rfl
  · cases h

theorem parsePolicies_build (ps : List (List Nat)) (v : Bytes) (h : buildPolicies ps = some v)
    (hok : ∀ o ∈ ps, oidOk o = true) (hlen : v.length < 2147483648) :
    parsePolicies v = .ok (oidContents ps) := by
  have hv := buildPolicies_eq ps v h
  subst hv
  obtain ⟨_, he⟩ := tlvs_bounds 0x30 (fun c => writeTLV 0x30 (writeTLV 0x06 c)) (oidContents ps) _ hlen
  unfold parsePolicies
  rw [seqOf_tlvs 16 true 0x30 (fun c => writeTLV 0x06 c) (oidContents ps) (by decide) (by decide) hlen]
  simp only
  have := mapRes_map (fun e => (someElem (field (.univ 6 false) false e.body)).bind fun p =>
      if !validOID p.1.body then Res.err else Res.ok p.1.body) (fun c => elemOf 0x30 (writeTLV 0x06 c)) (fun c => c)
      (oidContents ps) (by
        intro c hc
        have h1 := he c hc
        have h2 := writeTLV_length_ge 0x30 (writeTLV 0x06 c)
        have h3 := writeTLV_length_ge 0x06 c
        simp only [elemOf_body]
        rw [field_tlv_end _ _ _ _ (by decide) (by omega) (by simp [Want.ok, hdrOf])]
        simp [someElem, Res.bind, valid_oidContents hok c hc])
  simpa using this

/-! ### CRL distribution points -/

theorem flatten_singletons {α} (l : List α) : (l.map fun u => [u]).flatten = l := by
  induction l with
  | nil => rfl
  | cons u us ih => simp [ih]

theorem readElems_tlv (t : UInt8) (b : Bytes) (ht : t.toNat % 32 ≠ 31) (hl : b.length < 2147483648) :
    readElems (writeTLV t b) = .ok [elemOf t b] := by
  have := readElems_writeTLVs (fun (_ : Unit) => t) (fun _ => b) [()] (by intro x _; exact ⟨ht, hl⟩)
  simpa using this

theorem parseDP_build (u : Bytes) (hl : (writeTLV 0xA0 (writeTLV 0xA0 (writeTLV 0x86 u))).length < 2147483648) :
    parseDP (elemOf 0x30 (writeTLV 0xA0 (writeTLV 0xA0 (writeTLV 0x86 u)))) = .ok [u] := by
  have h1 := writeTLV_length_ge 0xA0 (writeTLV 0xA0 (writeTLV 0x86 u))
  have h2 := writeTLV_length_ge 0xA0 (writeTLV 0x86 u)
  have h3 := writeTLV_length_ge 0x86 u
  unfold parseDP
  simp only [elemOf_body]
  rw [field_tlv_end _ _ _ _ (by decide) (by omega) (by simp [Want.ok, hdrOf])]
  simp only [Res.bind, elemOf_body]
  rw [field_tlv_end _ _ _ _ (by decide) (by omega) (by simp [Want.ok, hdrOf])]
  simp only [elemOf_body]
  rw [readElems_tlv _ _ (by decide) (by omega)]
  simp [hdrOf]

theorem parseCRLDP_build (urls : List Bytes) (hlen : (buildCRLDP urls).length < 2147483648) :
    parseCRLDP (buildCRLDP urls) = .ok urls := by
  unfold buildCRLDP tlv at hlen ⊢
  obtain ⟨_, he⟩ := tlvs_bounds 0x30 (fun u => writeTLV 0x30 (writeTLV 0xA0 (writeTLV 0xA0 (writeTLV 0x86 u)))) urls _ hlen
  unfold parseCRLDP
  rw [seqOf_tlvs 16 true 0x30 (fun u => writeTLV 0xA0 (writeTLV 0xA0 (writeTLV 0x86 u))) urls (by decide) (by decide) hlen]
  simp only
  rw [mapRes_map parseDP (fun u => elemOf 0x30 (writeTLV 0xA0 (writeTLV 0xA0 (writeTLV 0x86 u)))) (fun u => [u]) urls (by
    intro u hu
    have h1 := he u hu
    have h2 := writeTLV_length_ge 0x30 (writeTLV 0xA0 (writeTLV 0xA0 (writeTLV 0x86 u)))
    exact parseDP_build u (by omega))]
  simp only [Res.map, flatten_singletons]

/-! ### authority information access -/

def ocspB : Bytes := [0x2b, 0x06, 0x01, 0x05, 0x05, 0x07, 0x30, 0x01]
def issuersB : Bytes := [0x2b, 0x06, 0x01, 0x05, 0x05, 0x07, 0x30, 0x02]

theorem encOID_ocsp : encOID oidOcsp = some ocspB := by decide
theorem encOID_issuers : encOID oidIssuers = some issuersB := by decide

/-- (method OID contents, location) pairs in the order the builder writes them -/
def aiaList (ocsp issuing : List Bytes) : List (Bytes × Bytes) :=
  ocsp.map (fun u => (ocspB, u)) ++ issuing.map (fun u => (issuersB, u))

theorem buildAIA_eq (ocsp issuing : List Bytes) :
    buildAIA ocsp issuing = some (writeTLV 0x30 (((aiaList ocsp issuing).map fun x =>
      writeTLV 0x30 (writeTLV 0x06 x.1 ++ writeTLV 0x86 x.2)).flatten)) := by
  unfold buildAIA
  have e : ocsp.map (aiaEntry oidOcsp) ++ issuing.map (aiaEntry oidIssuers)
      = ((aiaList ocsp issuing).map fun x => writeTLV 0x30 (writeTLV 0x06 x.1 ++ writeTLV 0x86 x.2)).map some := by
    have e1 : aiaEntry oidOcsp = fun u => some (writeTLV 0x30 (writeTLV 0x06 ocspB ++ writeTLV 0x86 u)) := by
      funext u; simp [aiaEntry, encOID_ocsp, tlv]
    have e2 : aiaEntry oidIssuers = fun u => some (writeTLV 0x30 (writeTLV 0x06 issuersB ++ writeTLV 0x86 u)) := by
      funext u; simp [aiaEntry, encOID_issuers, tlv]
    rw [e1, e2]
    simp [aiaList, Function.comp_def]
  rw [e, mapM_id_map_some]
  rfl

theorem parseAIAEntry_build (m u : Bytes) (hv : validOID m = true)
    (hl : (writeTLV 0x06 m ++ writeTLV 0x86 u).length < 2147483648) :
    parseAIAEntry (elemOf 0x30 (writeTLV 0x06 m ++ writeTLV 0x86 u)) = .ok (m, 6, u) := by
  have h1 := writeTLV_length_ge 0x06 m
  have h2 := writeTLV_length_ge 0x86 u
  rw [List.length_append] at hl
  unfold parseAIAEntry
  simp only [elemOf_body]
  rw [field_tlv _ _ _ _ _ (by decide) (by omega) (by simp [Want.ok, hdrOf])]
  simp only [someElem, Res.bind, elemOf_body, hv]
  rw [field_tlv_end _ _ _ _ (by decide) (by omega) (by simp [Want.ok])]
  simp [hdrOf]

theorem filter_method (c c' : Bytes) (l : List Bytes) :
    ((l.map (fun u => ((c, 6, u) : Bytes × Nat × Bytes))).filter (fun x => x.2.1 == 6 && some x.1 == some c')).map (·.2.2)
      = if c = c' then l else [] := by
  induction l with
  | nil => simp
  | cons u us ih =>
    by_cases h : c = c'
    · subst h; simp at ih ⊢; exact ih
    · simp [h] at ih ⊢

theorem parseAIA_build (ocsp issuing : List Bytes) (v : Bytes) (h : buildAIA ocsp issuing = some v)
    (hlen : v.length < 2147483648) : parseAIA v = .ok (ocsp, issuing) := by
  rw [buildAIA_eq] at h
  simp only [Option.some.injEq] at h
  subst h
  obtain ⟨_, he⟩ := tlvs_bounds 0x30 (fun (x : Bytes × Bytes) => writeTLV 0x30 (writeTLV 0x06 x.1 ++ writeTLV 0x86 x.2))
    (aiaList ocsp issuing) _ hlen
  unfold parseAIA
  rw [seqOf_tlvs 16 true 0x30 (fun (x : Bytes × Bytes) => writeTLV 0x06 x.1 ++ writeTLV 0x86 x.2) (aiaList ocsp issuing)
    (by decide) (by decide) hlen]
  simp only
  rw [mapRes_map parseAIAEntry (fun (x : Bytes × Bytes) => elemOf 0x30 (writeTLV 0x06 x.1 ++ writeTLV 0x86 x.2))
    (fun x => (x.1, 6, x.2)) (aiaList ocsp issuing) (by
      intro x hx
      have h1 := he x hx
      have h2 := writeTLV_length_ge 0x30 (writeTLV 0x06 x.1 ++ writeTLV 0x86 x.2)
      have hv : validOID x.1 = true := by
        simp only [aiaList, List.mem_append, List.mem_map] at hx
        rcases hx with ⟨u, _, rfl⟩ | ⟨u, _, rfl⟩
        · show validOID ocspB = true; decide
        · show validOID issuersB = true; decide
      exact parseAIAEntry_build x.1 x.2 hv (by omega))]
  simp only [encOID_ocsp, encOID_issuers, aiaList, List.map_append, List.map_map, Function.comp_def,
    List.filter_append]
  rw [filter_method ocspB ocspB, filter_method issuersB ocspB, filter_method ocspB issuersB, filter_method issuersB issuersB]
  simp [ocspB, issuersB]

/-! ### subjectAltName / GeneralNames -/

/-- the GeneralName forms the parser stores: rfc822Name [1], dNSName [2], uniformResourceIdentifier [6] (IA5 strings,
    carried as octets) and iPAddress [7] -/
inductive GName where
  | email (b : Bytes)
  | dns (b : Bytes)
  | uri (b : Bytes)
  | ip (b : Bytes)
  deriving Repr, DecidableEq

def GName.tag : GName → UInt8
  | .email _ => 0x81
  | .dns _ => 0x82
  | .uri _ => 0x86
  | .ip _ => 0x87

def GName.bytes : GName → Bytes
  | .email b => b
  | .dns b => b
  | .uri b => b
  | .ip b => b

/-- an iPAddress must be 4 or 16 octets -/
def GName.ok : GName → Bool
  | .ip b => b.length == 4 || b.length == 16
  | _ => true

/-- `asn1.Marshal([]asn1.RawValue{…})` of context-tagged primitive names -/
def encGNames (l : List GName) : Bytes := writeTLV 0x30 ((l.map fun g => writeTLV g.tag g.bytes).flatten)

def SAN.add (acc : SAN) : GName → SAN
  | .email b => { acc with email := acc.email ++ [b] }
  | .dns b => { acc with dns := acc.dns ++ [b] }
  | .uri b => { acc with uris := acc.uris ++ [b] }
  | .ip b => { acc with ips := acc.ips ++ [b] }

theorem parseGeneralNameList_enc : ∀ (l : List GName) (acc : SAN), (∀ g ∈ l, g.ok = true) →
    parseGeneralNameList (l.map fun g => elemOf g.tag g.bytes) acc = .ok (l.foldl SAN.add acc) := by
  intro l
  induction l with
  | nil => intro acc _; rfl
  | cons g l ih =>
    intro acc h
    have hg := h g List.mem_cons_self
    have hl := fun x hx => h x (List.mem_cons_of_mem _ hx)
    cases g with
    | email b => simp [parseGeneralNameList, GName.tag, GName.bytes, hdrOf, SAN.add]; exact ih _ hl
    | dns b => simp [parseGeneralNameList, GName.tag, GName.bytes, hdrOf, SAN.add]; exact ih _ hl
    | uri b => simp [parseGeneralNameList, GName.tag, GName.bytes, hdrOf, SAN.add]; exact ih _ hl
    | ip b =>
      have : b.length = 4 ∨ b.length = 16 := by simpa [GName.ok] using hg
      simp [parseGeneralNameList, GName.tag, GName.bytes, hdrOf, SAN.add, this]; exact ih _ hl

/-- **GeneralNames reader ∘ writer**: any sequence of rfc822 / DNS / URI / IP names (IP of 4 or 16 octets) is parsed back
    into the four lists, each in input order. -/
theorem parseSAN_enc (l : List GName) (hok : ∀ g ∈ l, g.ok = true) (hlen : (encGNames l).length < 2147483648) :
    parseSAN (encGNames l) = .ok (l.foldl SAN.add ⟨[], [], [], []⟩) := by
  unfold encGNames at hlen ⊢
  obtain ⟨hb, he⟩ := tlvs_bounds 0x30 (fun (g : GName) => writeTLV g.tag g.bytes) l _ hlen
  unfold parseSAN
  rw [first_tlv _ _ _ (by decide) hb (by simp [Want.ok])]
  simp only [elemOf_hdr, elemOf_body]
  rw [readElems_writeTLVs GName.tag GName.bytes l (by
    intro g hg
    have := he g hg
    have := writeTLV_length_ge g.tag g.bytes
    refine ⟨by cases g <;> simp [GName.tag], by omega⟩)]
  have hc : (!(decide (UInt8.toNat 48 / 32 % 2 = 1) && UInt8.toNat 48 % 32 == 16 && UInt8.toNat 48 / 64 == 0)) = false := by
    decide
  simp only [hdrOf, hc, Bool.false_eq_true, if_false]
  exact parseGeneralNameList_enc l _ hok

theorem foldl_add_dns (l : List Bytes) (acc : SAN) :
    (l.map GName.dns).foldl SAN.add acc = { acc with dns := acc.dns ++ l } := by
  induction l generalizing acc with
  | nil => simp
  | cons b l ih => simp [SAN.add, ih]
theorem foldl_add_email (l : List Bytes) (acc : SAN) :
    (l.map GName.email).foldl SAN.add acc = { acc with email := acc.email ++ l } := by
  induction l generalizing acc with
  | nil => simp
  | cons b l ih => simp [SAN.add, ih]
theorem foldl_add_uri (l : List Bytes) (acc : SAN) :
    (l.map GName.uri).foldl SAN.add acc = { acc with uris := acc.uris ++ l } := by
  induction l generalizing acc with
  | nil => simp
  | cons b l ih => simp [SAN.add, ih]
theorem foldl_add_ip (f : Bytes → Bytes) (l : List Bytes) (acc : SAN) :
    (l.map (fun x => GName.ip (f x))).foldl SAN.add acc = { acc with ips := acc.ips ++ l.map f } := by
  induction l generalizing acc with
  | nil => simp
  | cons b l ih => simp [SAN.add, ih]

/-- the names `marshalSANs` writes, in its order: DNS, e-mail, then IP addresses after `To4` -/
def sanNames (dns email ips : List Bytes) : List GName :=
  dns.map GName.dns ++ email.map GName.email ++ (ips.map to4).map GName.ip

theorem buildSAN_eq (dns email ips : List Bytes) : buildSAN dns email ips = encGNames (sanNames dns email ips) := by
  have e : tlv = writeTLV := by funext t b; rfl
  simp [buildSAN, encGNames, sanNames, e, GName.tag, GName.bytes, Function.comp_def]

theorem parseSAN_build (dns email ips : List Bytes) (hip : ∀ ip ∈ ips, (to4 ip).length = 4 ∨ (to4 ip).length = 16)
    (hlen : (buildSAN dns email ips).length < 2147483648) :
    parseSAN (buildSAN dns email ips) = .ok ⟨dns, email, [], ips.map to4⟩ := by
  rw [buildSAN_eq] at hlen ⊢
  rw [parseSAN_enc _ _ hlen]
  · simp [sanNames, List.foldl_append, foldl_add_dns, foldl_add_email, foldl_add_ip, Function.comp_def]
  · intro g hg
    simp only [sanNames, List.mem_append, List.mem_map] at hg
    rcases hg with (⟨_, _, rfl⟩ | ⟨_, _, rfl⟩) | ⟨b, ⟨ip, hi, rfl⟩, rfl⟩
    · rfl
    · rfl
    · simpa [GName.ok] using hip ip hi

/-- the IP-length condition is exact: one address of another length makes the parser reject the whole extension -/
theorem parseGeneralNameList_bad : ∀ (l : List GName) (acc : SAN), (∃ g ∈ l, g.ok = false) →
    parseGeneralNameList (l.map fun g => elemOf g.tag g.bytes) acc = .err := by
  intro l
  induction l with
  | nil => intro acc h; obtain ⟨g, hg, _⟩ := h; cases hg
  | cons g l ih =>
    intro acc h
    by_cases hg : g.ok = true
    · have hl : ∃ g' ∈ l, g'.ok = false := by
        obtain ⟨g', hm, hb⟩ := h
        rcases List.mem_cons.mp hm with rfl | hm
        · rw [hg] at hb; cases hb
        · exact ⟨g', hm, hb⟩
      cases g with
      | email b => simp [parseGeneralNameList, GName.tag, GName.bytes, hdrOf]; exact ih _ hl
      | dns b => simp [parseGeneralNameList, GName.tag, GName.bytes, hdrOf]; exact ih _ hl
      | uri b => simp [parseGeneralNameList, GName.tag, GName.bytes, hdrOf]; exact ih _ hl
      | ip b =>
        have : b.length = 4 ∨ b.length = 16 := by simpa [GName.ok] using hg
        simp [parseGeneralNameList, GName.tag, GName.bytes, hdrOf, this]; exact ih _ hl
    · cases g with
      | email b => simp [GName.ok] at hg
      | dns b => simp [GName.ok] at hg
      | uri b => simp [GName.ok] at hg
      | ip b =>
        have : ¬ (b.length = 4 ∨ b.length = 16) := by simpa [GName.ok] using hg
        simp [parseGeneralNameList, GName.tag, GName.bytes, hdrOf, this]

theorem parseSAN_enc_bad (l : List GName) (hbad : ∃ g ∈ l, g.ok = false) (hlen : (encGNames l).length < 2147483648) :
    parseSAN (encGNames l) = .err := by
  unfold encGNames at hlen ⊢
  obtain ⟨hb, he⟩ := tlvs_bounds 0x30 (fun (g : GName) => writeTLV g.tag g.bytes) l _ hlen
  unfold parseSAN
  rw [first_tlv _ _ _ (by decide) hb (by simp [Want.ok])]
  simp only [elemOf_hdr, elemOf_body]
  rw [readElems_writeTLVs GName.tag GName.bytes l (by
    intro g hg
    have := he g hg
    have := writeTLV_length_ge g.tag g.bytes
    refine ⟨by cases g <;> simp [GName.tag], by omega⟩)]
  have hc : (!(decide (UInt8.toNat 48 / 32 % 2 = 1) && UInt8.toNat 48 % 32 == 16 && UInt8.toNat 48 / 64 == 0)) = false := by
    decide
  simp only [hdrOf, hc, Bool.false_eq_true, if_false]
  exact parseGeneralNameList_bad l _ hbad

theorem parseSAN_build_bad (dns email ips : List Bytes)
    (hip : ∃ ip ∈ ips, ¬ ((to4 ip).length = 4 ∨ (to4 ip).length = 16))
    (hlen : (buildSAN dns email ips).length < 2147483648) :
    parseSAN (buildSAN dns email ips) = .err := by
  rw [buildSAN_eq] at hlen ⊢
  apply parseSAN_enc_bad _ _ hlen
  obtain ⟨ip, hm, hb⟩ := hip
  refine ⟨GName.ip (to4 ip), ?_, by simpa [GName.ok] using hb⟩
  simp only [sanNames, List.mem_append, List.mem_map]
  exact Or.inr ⟨to4 ip, ⟨ip, hm, rfl⟩, rfl⟩

/-- `To4` on a 16-octet IPv4-mapped address returns its last four octets … -/
theorem to4_mapped (a b c d : UInt8) :
    to4 [0, 0, 0, 0, 0, 0, 0, 0, 0, 0, 0xff, 0xff, a, b, c, d] = [a, b, c, d] := by
  simp [to4]

/-- … and leaves every other address (any 4-octet one, any 16-octet one without the `::ffff:0:0/96` prefix) alone. -/
theorem to4_other (ip : Bytes) (h : ¬ (ip.length = 16 ∧ ip.take 12 = [0, 0, 0, 0, 0, 0, 0, 0, 0, 0, 0xff, 0xff])) :
    to4 ip = ip := by
  simp [to4, h]

theorem to4_length (ip : Bytes) (h : ip.length = 4 ∨ ip.length = 16) : (to4 ip).length = 4 ∨ (to4 ip).length = 16 := by
  unfold to4
  split
  · rename_i hc; left; simp [hc.1]
  · exact h

/-! ### basic constraints -/

theorem encInt_length_le (v : Int) (h1 : -9223372036854775808 ≤ v) (h2 : v ≤ 9223372036854775807) :
    (encInt v).length ≤ 9 := by
  have e8 : (256 : Int) ^ 8 = 18446744073709551616 := by decide
  obtain ⟨_, _, h⟩ := int_roundtrip 8 v (by omega) (by omega)
  rw [encInt_eq]; omega

theorem parseBasicConstraints_build (ca z : Bool) (mpl : Int)
    (h1 : -9223372036854775808 ≤ mpl) (h2 : mpl ≤ 9223372036854775807) :
    parseBasicConstraints (buildBasicConstraints ca mpl z) = .ok (ca, effectiveMaxPathLen mpl z) := by
  have hm1 : -9223372036854775808 ≤ effectiveMaxPathLen mpl z := by unfold effectiveMaxPathLen; split <;> omega
  have hm2 : effectiveMaxPathLen mpl z ≤ 9223372036854775807 := by unfold effectiveMaxPathLen; split <;> omega
  unfold buildBasicConstraints tlv
  simp only
  generalize effectiveMaxPathLen mpl z = m at *
  have hl := encInt_length_le m hm1 hm2
  have hi := parseInt64_encInt m hm1 hm2
  have ht := writeTLV_length 0x02 (encInt m)
  have hel := encLen_length (encInt m).length
  unfold parseBasicConstraints
  by_cases hm : m = -1
  · cases ca
    · simp only [hm, if_true, Bool.false_eq_true, if_false, List.append_nil]
      rw [first_tlv _ _ _ (by decide) (by simp) (by simp [Want.ok, hdrOf])]
      simp [field_nil_opt, Res.bind]
    · simp only [hm, if_true, List.append_nil]
      rw [first_tlv _ _ _ (by decide) (by simp [writeTLV, encLen]) (by simp [Want.ok, hdrOf])]
      simp only [elemOf_body]
      rw [field_tlv_end _ _ _ _ (by decide) (by simp) (by simp [Want.ok, hdrOf])]
      simp [field_nil_opt, Res.bind, parseBool]
  · cases ca
    · simp only [hm, Bool.false_eq_true, if_false, List.nil_append]
      rw [first_tlv _ _ _ (by decide) (by omega) (by simp [Want.ok, hdrOf])]
      simp only [elemOf_body]
      have := field_skip (.univ 1 false) 0x02 (encInt m) [] (by decide) (by omega) (by simp [Want.ok, hdrOf])
      simp only [List.append_nil] at this
      rw [this]
      simp only [Res.bind]
      rw [field_tlv_end _ _ _ _ (by decide) (by omega) (by simp [Want.ok, hdrOf])]
      simp [hi]
    · simp only [hm, if_true, if_false]
      have hb : (writeTLV 0x01 [0xff]).length = 3 := by decide
      rw [first_tlv _ _ _ (by decide) (by rw [List.length_append, hb]; omega) (by simp [Want.ok, hdrOf])]
      simp only [elemOf_body]
      rw [field_tlv _ _ _ _ _ (by decide) (by simp) (by simp [Want.ok, hdrOf])]
      simp only [Res.bind, elemOf_body]
      rw [field_tlv_end _ _ _ _ (by decide) (by omega) (by simp [Want.ok, hdrOf])]
      simp [hi, parseBool]

end ZV.C04
