import ZV.Model.C28
import ZV.Proofs.C28
/-!
  C28 — shared vocabulary and lemmas for the ClientHello / ServerHello EXTENSION mappings.

  * wire shapes: `FramedExts` (extension block), `Framed8s` / `Framed16s` (lists of length-prefixed strings),
    `FramedSNI` (server_name_list), `pairsBE` (big-endian uint16 list);
  * what the model's splitters (`splitExts`, `splitVec8s`, `splitVec16s`, `sniEntries`, `u16s`, `wholeVec8/16`)
    say about the bytes they accepted;
  * generic lemmas about the extension LOOP (`foldExts`): accumulating fields, last-one-wins fields, presence flags.
-/
namespace ZV.C28

/-! ### exact-fill vectors -/

theorem wholeVec8_spec {d v : Bytes} (h : wholeVec8 d = some v) : ∃ a, d = a :: v ∧ a.toNat = v.length := by
  unfold wholeVec8 at h
  match h1 : readVec8 d, h with
  | some (v', []), h =>
    simp only [Option.some.injEq] at h
    subst h
    obtain ⟨a, e, hl⟩ := readVec8_spec h1
    exact ⟨a, by simpa using e, hl⟩

theorem wholeVec16_spec {d v : Bytes} (h : wholeVec16 d = some v) :
    ∃ a b, d = a :: b :: v ∧ u16 a b = v.length := by
  unfold wholeVec16 at h
  match h1 : readVec16 d, h with
  | some (v', []), h =>
    simp only [Option.some.injEq] at h
    subst h
    obtain ⟨a, b, e, hl⟩ := readVec16_spec h1
    exact ⟨a, b, by simpa using e, hl⟩

theorem isEmpty_false_ne_nil {α : Type} {l : List α} (h : ¬ (l.isEmpty = true)) : l ≠ [] := by
  intro e; subst e; exact h rfl

/-! ### big-endian uint16 lists -/

/-- spec-side reading of a byte string as consecutive big-endian 16-bit numbers -/
def pairsBE : Bytes → List Nat
  | a :: b :: r => u16 a b :: pairsBE r
  | _ => []

theorem u16s_spec : ∀ (bs : Bytes) (l : List Nat), u16s bs = some l → l = pairsBE bs ∧ bs.length % 2 = 0 := by
  intro bs
  induction bs using u16s.induct with
  | case1 => intro l h; simp [u16s] at h; subst h; exact ⟨rfl, rfl⟩
  | case2 x => intro l h; simp [u16s] at h
  | case3 a b r hnone => intro l h; simp [u16s, hnone] at h
  | case4 a b r l' hsome ih =>
    intro l h
    simp only [u16s, hsome, Option.some.injEq] at h
    subst h
    obtain ⟨e1, e2⟩ := ih l' hsome
    refine ⟨by rw [e1]; rfl, ?_⟩
    simp only [List.length_cons]; omega

/-- conversely: an even-length byte string always decodes, to `pairsBE` -/
theorem u16s_of_even : ∀ (bs : Bytes), bs.length % 2 = 0 → u16s bs = some (pairsBE bs) := by
  intro bs
  induction bs using u16s.induct with
  | case1 => intro _; rfl
  | case2 x => intro h; simp at h
  | case3 a b r hnone ih =>
    intro h
    have : r.length % 2 = 0 := by simp only [List.length_cons] at h; omega
    rw [ih this] at hnone; cases hnone
  | case4 a b r l' hsome ih =>
    intro h
    have : r.length % 2 = 0 := by simp only [List.length_cons] at h; omega
    simp only [u16s, ih this, pairsBE]

theorem pairsBE_length : ∀ (bs : Bytes), bs.length % 2 = 0 → (pairsBE bs).length * 2 = bs.length := by
  intro bs
  induction bs using u16s.induct with
  | case1 => intro _; rfl
  | case2 x => intro h; simp at h
  | case3 a b r _ ih =>
    intro h
    have : r.length % 2 = 0 := by simp only [List.length_cons] at h; omega
    simp only [pairsBE, List.length_cons]; have := ih this; omega
  | case4 a b r _ _ ih =>
    intro h
    have : r.length % 2 = 0 := by simp only [List.length_cons] at h; omega
    simp only [pairsBE, List.length_cons]; have := ih this; omega

/-! ### the extension block -/

/-- `blk` is exactly the concatenation of  id(2, BE) ‖ len(2, BE) ‖ data  for the listed (id, data) pairs -/
inductive FramedExts : Bytes → List (Nat × Bytes) → Prop
  | nil : FramedExts [] []
  | cons (a b c d : UInt8) (data rest : Bytes) (es : List (Nat × Bytes)) :
      u16 c d = data.length → FramedExts rest es →
      FramedExts (a :: b :: c :: d :: (data ++ rest)) ((u16 a b, data) :: es)

theorem splitExts_framed : ∀ (blk : Bytes) (es : List (Nat × Bytes)), splitExts blk = some es → FramedExts blk es := by
  intro blk
  induction blk using splitExts.induct with
  | case1 => intro es h; simp [splitExts] at h; subst h; exact FramedExts.nil
  | case2 a b c d rest hle hnone ih =>
    intro es h
    rw [splitExts] at h
    simp [hle, hnone] at h
  | case3 a b c d rest hle l hsome ih =>
    intro es h
    rw [splitExts] at h
    simp only [hle, if_true, hsome, Option.some.injEq] at h
    subst h
    have e := (List.take_append_drop (u16 c d) rest).symm
    have := FramedExts.cons a b c d (rest.take (u16 c d)) (rest.drop (u16 c d)) l
      (by rw [List.length_take]; exact (Nat.min_eq_left hle).symm) (ih l hsome)
    rw [← e] at this
    exact this
  | case4 a b c d rest hnle => intro es h; rw [splitExts] at h; simp [hnle] at h
  | case5 x h1 h2 =>
    intro es h
    unfold splitExts at h
    split at h
    · exact absurd rfl h1
    · exact absurd rfl (h2 _ _ _ _ _)
    · cases h

theorem ofNat_u16_hi (a b : UInt8) : UInt8.ofNat (u16 a b / 256) = a := by
  apply UInt8.toNat_inj.mp
  have ha := a.toNat_lt
  have hb := b.toNat_lt
  simp only [UInt8.toNat_ofNat', u16]
  omega

theorem ofNat_u16_lo (a b : UInt8) : UInt8.ofNat (u16 a b) = b := by
  apply UInt8.toNat_inj.mp
  have ha := a.toNat_lt
  have hb := b.toNat_lt
  simp only [UInt8.toNat_ofNat', u16]
  omega

/-- `extBytes` of a framed extension is literally its wire encoding … -/
theorem extBytes_wire {a b c d : UInt8} {data : Bytes} (h : u16 c d = data.length) :
    extBytes (u16 a b) data = a :: b :: c :: d :: data := by
  unfold extBytes
  rw [← h, ofNat_u16_hi, ofNat_u16_lo, ofNat_u16_hi, ofNat_u16_lo]
  rfl

/-- … so the block is the concatenation of the `extBytes` of its extensions, in order -/
theorem framedExts_bytes {blk : Bytes} {es : List (Nat × Bytes)} (h : FramedExts blk es) :
    blk = (es.map (fun e => extBytes e.1 e.2)).flatten := by
  induction h with
  | nil => rfl
  | cons a b c d data rest es hl _ ih =>
    simp only [List.map_cons, List.flatten_cons, extBytes_wire hl]
    rw [← ih]
    simp

/-- identifiers and lengths of a framed block fit in 16 bits -/
theorem framedExts_bounds {blk : Bytes} {es : List (Nat × Bytes)} (h : FramedExts blk es) :
    ∀ e ∈ es, e.1 < 65536 ∧ e.2.length < 65536 := by
  induction h with
  | nil => intro e he; cases he
  | cons a b c d data rest es hl _ ih =>
    intro e he
    rcases List.mem_cons.mp he with rfl | he
    · have ha := a.toNat_lt; have hb := b.toNat_lt; have hc := c.toNat_lt; have hd := d.toNat_lt
      refine ⟨by simp only [u16]; omega, ?_⟩
      show data.length < 65536
      rw [← hl]; simp only [u16]; omega
    · exact ih e he

/-- the framing determines the extension list -/
theorem framedExts_unique : ∀ {blk : Bytes} {es es' : List (Nat × Bytes)},
    FramedExts blk es → FramedExts blk es' → es = es' := by
  intro blk es es' h
  induction h generalizing es' with
  | nil => intro h'; cases h'; rfl
  | cons a b c d data rest es hl _ ih =>
    intro h'
    generalize hb : a :: b :: c :: d :: (data ++ rest) = blk at h'
    cases h' with
    | nil => cases hb
    | cons a' b' c' d' data' rest' es'' hl' hr' =>
      simp only [List.cons.injEq] at hb
      obtain ⟨rfl, rfl, rfl, rfl, hb⟩ := hb
      have hlen : data.length = data'.length := by rw [← hl, ← hl']
      have h1 := List.append_inj_left hb hlen
      have h2 := List.append_inj_right hb hlen
      subst h1; subst h2
      rw [ih hr']

/-! ### lists of length-prefixed strings -/

/-- `bs` = concatenation of  len(1) ‖ item  -/
inductive Framed8s : Bytes → List Bytes → Prop
  | nil : Framed8s [] []
  | cons (c : UInt8) (item rest : Bytes) (l : List Bytes) :
      c.toNat = item.length → Framed8s rest l → Framed8s (c :: (item ++ rest)) (item :: l)

/-- `bs` = concatenation of  len(2, BE) ‖ item  -/
inductive Framed16s : Bytes → List Bytes → Prop
  | nil : Framed16s [] []
  | cons (c d : UInt8) (item rest : Bytes) (l : List Bytes) :
      u16 c d = item.length → Framed16s rest l → Framed16s (c :: d :: (item ++ rest)) (item :: l)

theorem splitVec8s_framed : ∀ (bs : Bytes) (l : List Bytes), splitVec8s bs = some l → Framed8s bs l := by
  intro bs
  induction bs using splitVec8s.induct with
  | case1 => intro l h; simp [splitVec8s] at h; subst h; exact Framed8s.nil
  | case2 c rest hle hnone ih => intro l h; rw [splitVec8s] at h; simp [hle, hnone] at h
  | case3 c rest hle l' hsome ih =>
    intro l h
    rw [splitVec8s] at h
    simp only [hle, if_true, hsome, Option.some.injEq] at h
    subst h
    have e := (List.take_append_drop c.toNat rest).symm
    have := Framed8s.cons c (rest.take c.toNat) (rest.drop c.toNat) l'
      (by rw [List.length_take]; exact (Nat.min_eq_left hle).symm) (ih l' hsome)
    rw [← e] at this
    exact this
  | case4 c rest hnle => intro l h; rw [splitVec8s] at h; simp [hnle] at h

theorem splitVec16s_framed : ∀ (bs : Bytes) (l : List Bytes), splitVec16s bs = some l → Framed16s bs l := by
  intro bs
  induction bs using splitVec16s.induct with
  | case1 => intro l h; simp [splitVec16s] at h; subst h; exact Framed16s.nil
  | case2 c d rest hle hnone ih => intro l h; rw [splitVec16s] at h; simp [hle, hnone] at h
  | case3 c d rest hle l' hsome ih =>
    intro l h
    rw [splitVec16s] at h
    simp only [hle, if_true, hsome, Option.some.injEq] at h
    subst h
    have e := (List.take_append_drop (u16 c d) rest).symm
    have := Framed16s.cons c d (rest.take (u16 c d)) (rest.drop (u16 c d)) l'
      (by rw [List.length_take]; exact (Nat.min_eq_left hle).symm) (ih l' hsome)
    rw [← e] at this
    exact this
  | case4 c d rest hnle => intro l h; rw [splitVec16s] at h; simp [hnle] at h
  | case5 x h1 h2 =>
    intro l h
    unfold splitVec16s at h
    split at h
    · exact absurd rfl h1
    · exact absurd rfl (h2 _ _ _)
    · cases h

theorem framed8s_unique : ∀ {bs : Bytes} {l l' : List Bytes}, Framed8s bs l → Framed8s bs l' → l = l' := by
  intro bs l l' h
  induction h generalizing l' with
  | nil => intro h'; cases h'; rfl
  | cons c item rest l hl _ ih =>
    intro h'
    generalize hb : c :: (item ++ rest) = bs at h'
    cases h' with
    | nil => cases hb
    | cons c' item' rest' l'' hl' hr' =>
      simp only [List.cons.injEq] at hb
      obtain ⟨rfl, hb⟩ := hb
      have hlen : item.length = item'.length := by rw [← hl, ← hl']
      have h1 := List.append_inj_left hb hlen
      have h2 := List.append_inj_right hb hlen
      subst h1; subst h2
      rw [ih hr']

theorem framed16s_unique : ∀ {bs : Bytes} {l l' : List Bytes}, Framed16s bs l → Framed16s bs l' → l = l' := by
  intro bs l l' h
  induction h generalizing l' with
  | nil => intro h'; cases h'; rfl
  | cons c d item rest l hl _ ih =>
    intro h'
    generalize hb : c :: d :: (item ++ rest) = bs at h'
    cases h' with
    | nil => cases hb
    | cons c' d' item' rest' l'' hl' hr' =>
      simp only [List.cons.injEq] at hb
      obtain ⟨rfl, rfl, hb⟩ := hb
      have hlen : item.length = item'.length := by rw [← hl, ← hl']
      have h1 := List.append_inj_left hb hlen
      have h2 := List.append_inj_right hb hlen
      subst h1; subst h2
      rw [ih hr']

/-! ### server_name_list -/

/-- `bs` = concatenation of  name_type(1) ‖ len(2, BE) ‖ name  with every name non-empty -/
inductive FramedSNI : Bytes → List (Nat × Bytes) → Prop
  | nil : FramedSNI [] []
  | cons (t c d : UInt8) (name rest : Bytes) (l : List (Nat × Bytes)) :
      u16 c d = name.length → name ≠ [] → FramedSNI rest l →
      FramedSNI (t :: c :: d :: (name ++ rest)) ((t.toNat, name) :: l)

theorem sniEntries_framed : ∀ (bs : Bytes) (l : List (Nat × Bytes)), sniEntries bs = some l → FramedSNI bs l := by
  intro bs
  induction bs using sniEntries.induct with
  | case1 => intro l h; simp [sniEntries] at h; subst h; exact FramedSNI.nil
  | case2 t c d rest hz => intro l h; rw [sniEntries] at h; simp [hz] at h
  | case3 t c d rest hz hle hnone ih => intro l h; rw [sniEntries] at h; simp [hz, hle, hnone] at h
  | case4 t c d rest hz hle l' hsome ih =>
    intro l h
    rw [sniEntries] at h
    simp only [hz, if_false, hle, if_true, hsome, Option.some.injEq] at h
    subst h
    have e := (List.take_append_drop (u16 c d) rest).symm
    have hlen : (rest.take (u16 c d)).length = u16 c d := by rw [List.length_take]; exact Nat.min_eq_left hle
    have := FramedSNI.cons t c d (rest.take (u16 c d)) (rest.drop (u16 c d)) l' hlen.symm
      (by intro hn; rw [hn] at hlen; exact hz hlen.symm) (ih l' hsome)
    rw [← e] at this
    exact this
  | case5 t c d rest hz hnle => intro l h; rw [sniEntries] at h; simp [hz, hnle] at h
  | case6 x h1 h2 =>
    intro l h
    unfold sniEntries at h
    split at h
    · exact absurd rfl h1
    · exact absurd rfl (h2 _ _ _ _)
    · cases h

theorem framedSNI_names_ne {bs : Bytes} {l : List (Nat × Bytes)} (h : FramedSNI bs l) : ∀ e ∈ l, e.2 ≠ [] := by
  induction h with
  | nil => intro e he; cases he
  | cons t c d name rest l _ hne _ ih =>
    intro e he
    rcases List.mem_cons.mp he with rfl | he
    · exact hne
    · exact ih e he

theorem sniPick_append : ∀ (l1 l2 : List (Nat × Bytes)) (cur : Bytes),
    sniPick cur (l1 ++ l2) = (sniPick cur l1).bind (fun c => sniPick c l2) := by
  intro l1
  induction l1 with
  | nil => intro l2 cur; rfl
  | cons e t ih =>
    intro l2 cur
    obtain ⟨ty, n⟩ := e
    simp only [List.cons_append, sniPick]
    by_cases h1 : ty ≠ 0
    · rw [if_pos h1, if_pos h1]; exact ih l2 cur
    rw [if_neg h1, if_neg h1]
    by_cases h2 : cur.length ≠ 0
    · rw [if_pos h2, if_pos h2]; rfl
    rw [if_neg h2, if_neg h2]
    by_cases h3 : n.getLast? = some 46
    · rw [if_pos h3, if_pos h3]; rfl
    rw [if_neg h3, if_neg h3]; exact ih l2 n

/-- the host names (name_type 0) among SNI entries, in wire order -/
def sniHosts (ents : List (Nat × Bytes)) : List Bytes := (ents.filter (fun e => e.1 == 0)).map (·.2)

/-- once a (non-empty) name has been picked, any further host name is an error -/
theorem sniPick_cur_ne {ents : List (Nat × Bytes)} {cur n : Bytes} (hc : cur ≠ [])
    (h : sniPick cur ents = some n) : sniHosts ents = [] ∧ n = cur := by
  induction ents with
  | nil => simp only [sniPick, Option.some.injEq] at h; exact ⟨rfl, h.symm⟩
  | cons e t ih =>
    obtain ⟨ty, nm⟩ := e
    simp only [sniPick] at h
    by_cases h1 : ty ≠ 0
    · rw [if_pos h1] at h
      obtain ⟨e1, e2⟩ := ih h
      refine ⟨?_, e2⟩
      have : ((ty, nm).1 == 0) = false := by simpa using h1
      simp only [sniHosts, List.filter_cons, this] at e1 ⊢
      exact e1
    rw [if_neg h1] at h
    have hl : cur.length ≠ 0 := by
      intro hl; exact hc (List.eq_nil_of_length_eq_zero hl)
    rw [if_pos hl] at h; cases h

/-- what the name loop yields, started with no name: nothing if there is no host name; otherwise there is exactly ONE
    host name in all the lists together, it has no trailing dot, and it is the result -/
theorem sniPick_spec {ents : List (Nat × Bytes)} {n : Bytes} (hne : ∀ e ∈ ents, e.2 ≠ [])
    (h : sniPick [] ents = some n) :
    (sniHosts ents = [] ∧ n = []) ∨ (sniHosts ents = [n] ∧ n ≠ [] ∧ n.getLast? ≠ some 46) := by
  induction ents with
  | nil => simp only [sniPick, Option.some.injEq] at h; exact Or.inl ⟨rfl, h.symm⟩
  | cons e t ih =>
    obtain ⟨ty, nm⟩ := e
    simp only [sniPick] at h
    by_cases h1 : ty ≠ 0
    · rw [if_pos h1] at h
      have hb : ((ty, nm).1 == 0) = false := by simpa using h1
      have := ih (fun e he => hne e (List.mem_cons_of_mem _ he)) h
      simpa only [sniHosts, List.filter_cons, hb, Bool.false_eq_true, if_false] using this
    rw [if_neg h1] at h
    have hty : ty = 0 := by simpa using h1
    have hb : ((ty, nm).1 == 0) = true := by simp [hty]
    simp only [List.length_nil, ne_eq, not_true_eq_false, if_false] at h
    by_cases h3 : nm.getLast? = some 46
    · rw [if_pos h3] at h; cases h
    rw [if_neg h3] at h
    have hnm : nm ≠ [] := hne (ty, nm) (List.mem_cons_self ..)
    obtain ⟨e1, e2⟩ := sniPick_cur_ne hnm h
    subst e2
    refine Or.inr ⟨?_, hnm, h3⟩
    simp only [sniHosts, List.filter_cons, hb, if_true, List.map_cons] at e1 ⊢
    rw [e1]

/-! ### pointwise relation between two lists (the decoded payloads of the matching extensions) -/

inductive ListRel {α β : Type} (R : α → β → Prop) : List α → List β → Prop
  | nil : ListRel R [] []
  | cons {a : α} {b : β} {as : List α} {bs : List β} : R a b → ListRel R as bs → ListRel R (a :: as) (b :: bs)

theorem ListRel.length_eq {α β : Type} {R : α → β → Prop} {as : List α} {bs : List β} (h : ListRel R as bs) :
    as.length = bs.length := by
  induction h with
  | nil => rfl
  | cons _ _ ih => simp [ih]

/-- a functional relation pins the second list down: it is the image of the first -/
theorem ListRel.eq_map {α β : Type} {g : α → β} {P : α → Prop} {as : List α} {bs : List β}
    (h : ListRel (fun a b => b = g a ∧ P a) as bs) : bs = as.map g ∧ ∀ a ∈ as, P a := by
  induction h with
  | nil => exact ⟨rfl, fun a ha => by cases ha⟩
  | cons hab _ ih =>
    obtain ⟨e, hp⟩ := hab
    obtain ⟨e2, hall⟩ := ih
    refine ⟨by rw [e, e2]; rfl, ?_⟩
    intro a ha
    rcases List.mem_cons.mp ha with rfl | ha
    · exact hp
    · exact hall a ha

theorem ListRel.mono {α β : Type} {R S : α → β → Prop} (hRS : ∀ a b, R a b → S a b) {as : List α} {bs : List β}
    (h : ListRel R as bs) : ListRel S as bs := by
  induction h with
  | nil => exact ListRel.nil
  | cons hab _ ih => exact ListRel.cons (hRS _ _ hab) ih

/-- deterministic relations give a unique decoded list -/
theorem ListRel.unique {α β : Type} {R : α → β → Prop} (hR : ∀ a b b', R a b → R a b' → b = b')
    {as : List α} {bs bs' : List β} (h : ListRel R as bs) (h' : ListRel R as bs') : bs = bs' := by
  induction h generalizing bs' with
  | nil => cases h'; rfl
  | cons hab _ ih =>
    cases h' with
    | cons hab' ht' => rw [hR _ _ _ hab hab', ih ht']

/-! ### the extension loop, generically -/

/-- `e` carries extension identifier `k` -/
def isId (k : Nat) (e : Nat × Bytes) : Bool := e.1 == k

/-- payload of the LAST extension satisfying `p` (none if there is none) -/
def lastExt (p : Nat × Bytes → Bool) (es : List (Nat × Bytes)) : Option Bytes :=
  ((es.filter p).getLast?).map (·.2)

theorem lastExt_nil (p : Nat × Bytes → Bool) : lastExt p [] = none := rfl

theorem lastExt_cons (p : Nat × Bytes → Bool) (e : Nat × Bytes) (es : List (Nat × Bytes)) :
    lastExt p (e :: es) =
      if p e then (match lastExt p es with | some d => some d | none => some e.2) else lastExt p es := by
  unfold lastExt
  by_cases hp : p e = true
  · simp only [List.filter_cons, hp, if_true]
    cases hf : es.filter p with
    | nil => rfl
    | cons x xs =>
      cases hg : (x :: xs).getLast? with
      | none => simp at hg
      | some y =>
        have : (e :: x :: xs).getLast? = some y := by rw [List.getLast?_cons_cons]; exact hg
        simp [this]
  · simp only [List.filter_cons, hp]
    rfl

/-- the shape of both extension loops: one step per (id, data), `isLast` = no extension follows -/
def foldExts {σ : Type} (step : σ → Nat → Bytes → Bool → Option σ) : σ → List (Nat × Bytes) → Option σ
  | m, [] => some m
  | m, (id, d) :: rest =>
    match step m id d rest.isEmpty with
    | none => none
    | some m' => foldExts step m' rest

theorem chExts_eq_fold : ∀ (es : List (Nat × Bytes)) (m : CHMsg), chExts m es = foldExts chExt m es := by
  intro es
  induction es with
  | nil => intro m; rfl
  | cons e t ih =>
    intro m
    obtain ⟨id, d⟩ := e
    simp only [chExts, foldExts]
    cases chExt m id d t.isEmpty with
    | none => rfl
    | some m' => exact ih m'

theorem shExts_eq_fold : ∀ (es : List (Nat × Bytes)) (m : SHMsg),
    shExts m es = foldExts (fun m id d _ => shExt m id d) m es := by
  intro es
  induction es with
  | nil => intro m; rfl
  | cons e t ih =>
    intro m
    obtain ⟨id, d⟩ := e
    simp only [shExts, foldExts]
    cases shExt m id d with
    | none => rfl
    | some m' => exact ih m'

section Fold
variable {σ : Type} {step : σ → Nat → Bytes → Bool → Option σ}

/-- every extension of an accepted block was accepted by the switch -/
theorem fold_all {Q : Nat × Bytes → Prop}
    (hQ : ∀ m id d l m', step m id d l = some m' → Q (id, d)) :
    ∀ (es : List (Nat × Bytes)) (m m' : σ), foldExts step m es = some m' → ∀ e ∈ es, Q e := by
  intro es
  induction es with
  | nil => intro m m' _ e he; cases he
  | cons e0 t ih =>
    intro m m' h e he
    obtain ⟨id, d⟩ := e0
    simp only [foldExts] at h
    cases hs : step m id d t.isEmpty with
    | none => rw [hs] at h; cases h
    | some m1 =>
      rw [hs] at h
      rcases List.mem_cons.mp he with rfl | he
      · exact hQ _ _ _ _ _ hs
      · exact ih m1 m' h e he

/-- a field that every matching extension APPENDS to: at the end it holds the initial value followed by the decoded
    contributions of the matching extensions, in wire order -/
theorem fold_acc {α : Type} (π : σ → List α) (p : Nat × Bytes → Bool) (R : Nat × Bytes → List α → Prop)
    (hit : ∀ m id d l m', p (id, d) = true → step m id d l = some m' → ∃ x, R (id, d) x ∧ π m' = π m ++ x)
    (miss : ∀ m id d l m', p (id, d) = false → step m id d l = some m' → π m' = π m) :
    ∀ (es : List (Nat × Bytes)) (m m' : σ), foldExts step m es = some m' →
      ∃ xs, ListRel R (es.filter p) xs ∧ π m' = π m ++ xs.flatten := by
  intro es
  induction es with
  | nil =>
    intro m m' h
    simp only [foldExts, Option.some.injEq] at h
    subst h
    exact ⟨[], ListRel.nil, by simp⟩
  | cons e0 t ih =>
    intro m m' h
    obtain ⟨id, d⟩ := e0
    simp only [foldExts] at h
    cases hs : step m id d t.isEmpty with
    | none => rw [hs] at h; cases h
    | some m1 =>
      rw [hs] at h
      obtain ⟨xs, hrel, heq⟩ := ih m1 m' h
      cases hp : p (id, d) with
      | true =>
        obtain ⟨x, hx, hπ⟩ := hit _ _ _ _ _ hp hs
        refine ⟨x :: xs, ?_, ?_⟩
        · simp only [List.filter_cons, hp, if_true]; exact ListRel.cons hx hrel
        · rw [heq, hπ]; simp
      | false =>
        refine ⟨xs, ?_, ?_⟩
        · simp only [List.filter_cons, hp]; exact hrel
        · rw [heq, miss _ _ _ _ _ hp hs]

/-- a field that every matching extension OVERWRITES: at the end it holds what the LAST matching extension put there
    (the initial value if there is none) -/
theorem fold_last {β : Type} (π : σ → β) (p : Nat × Bytes → Bool) (g : Bytes → β)
    (hit : ∀ m id d l m', p (id, d) = true → step m id d l = some m' → π m' = g d)
    (miss : ∀ m id d l m', p (id, d) = false → step m id d l = some m' → π m' = π m) :
    ∀ (es : List (Nat × Bytes)) (m m' : σ), foldExts step m es = some m' →
      π m' = (match lastExt p es with | some d => g d | none => π m) := by
  intro es
  induction es with
  | nil =>
    intro m m' h
    simp only [foldExts, Option.some.injEq] at h
    subst h
    rfl
  | cons e0 t ih =>
    intro m m' h
    obtain ⟨id, d⟩ := e0
    simp only [foldExts] at h
    cases hs : step m id d t.isEmpty with
    | none => rw [hs] at h; cases h
    | some m1 =>
      rw [hs] at h
      have h1 := ih m1 m' h
      rw [lastExt_cons]
      cases hp : p (id, d) with
      | true =>
        simp only [if_true]
        cases hl : lastExt p t with
        | none => rw [hl] at h1; simp only at h1 ⊢; rw [h1]; exact hit _ _ _ _ _ hp hs
        | some d' => rw [hl] at h1; exact h1
      | false =>
        simp only [Bool.false_eq_true, if_false]
        rw [h1, miss _ _ _ _ _ hp hs]

/-- a flag that every matching extension SETS and nothing clears -/
theorem fold_flag (π : σ → Bool) (p : Nat × Bytes → Bool)
    (hit : ∀ m id d l m', p (id, d) = true → step m id d l = some m' → π m' = true)
    (miss : ∀ m id d l m', p (id, d) = false → step m id d l = some m' → π m' = π m) :
    ∀ (es : List (Nat × Bytes)) (m m' : σ), foldExts step m es = some m' → π m' = (π m || es.any p) := by
  intro es
  induction es with
  | nil =>
    intro m m' h
    simp only [foldExts, Option.some.injEq] at h
    subst h
    simp
  | cons e0 t ih =>
    intro m m' h
    obtain ⟨id, d⟩ := e0
    simp only [foldExts] at h
    cases hs : step m id d t.isEmpty with
    | none => rw [hs] at h; cases h
    | some m1 =>
      rw [hs] at h
      rw [ih m1 m' h, List.any_cons]
      cases hp : p (id, d) with
      | true => rw [hit _ _ _ _ _ hp hs]; simp
      | false => rw [miss _ _ _ _ _ hp hs]; simp

end Fold

theorem any_isId_false_of_lastExt_none {k : Nat} {es : List (Nat × Bytes)} (h : lastExt (isId k) es = none) :
    es.any (isId k) = false := by
  induction es with
  | nil => rfl
  | cons e t ih =>
    rw [lastExt_cons] at h
    cases hp : isId k e with
    | true =>
      rw [hp] at h
      simp only [if_true] at h
      cases hl : lastExt (isId k) t with
      | none => rw [hl] at h; cases h
      | some d => rw [hl] at h; cases h
    | false =>
      rw [hp] at h
      simp only [Bool.false_eq_true, if_false] at h
      rw [List.any_cons, hp, ih h]; rfl

theorem any_isId_true_of_lastExt_some {k : Nat} {es : List (Nat × Bytes)} {d : Bytes}
    (h : lastExt (isId k) es = some d) : es.any (isId k) = true ∧ (k, d) ∈ es := by
  induction es with
  | nil => cases h
  | cons e t ih =>
    rw [lastExt_cons] at h
    cases hp : isId k e with
    | true =>
      rw [hp] at h
      simp only [if_true] at h
      refine ⟨by rw [List.any_cons, hp]; rfl, ?_⟩
      cases hl : lastExt (isId k) t with
      | none =>
        rw [hl] at h
        simp only [Option.some.injEq] at h
        have hk : e.1 = k := by simpa [isId] using hp
        have : e = (k, d) := by rw [← hk, ← h]
        rw [this]; exact List.mem_cons_self ..
      | some d' =>
        rw [hl] at h
        simp only [Option.some.injEq] at h
        subst h
        exact List.mem_cons_of_mem _ (ih hl).2
    | false =>
      rw [hp] at h
      simp only [Bool.false_eq_true, if_false] at h
      obtain ⟨h1, h2⟩ := ih h
      exact ⟨by rw [List.any_cons, h1]; simp, List.mem_cons_of_mem _ h2⟩

theorem isId_true {k id : Nat} {d : Bytes} : isId k (id, d) = true ↔ id = k := by simp [isId]
theorem isId_false {k id : Nat} {d : Bytes} : isId k (id, d) = false ↔ id ≠ k := by simp [isId]

theorem flatten_map_singleton {α β : Type} (g : α → β) (l : List α) : (l.map (fun a => [g a])).flatten = l.map g := by
  induction l with
  | nil => rfl
  | cons a t ih => simp only [List.map_cons, List.flatten_cons, ih]; rfl

theorem framedSNI_unique : ∀ {bs : Bytes} {l l' : List (Nat × Bytes)}, FramedSNI bs l → FramedSNI bs l' → l = l' := by
  intro bs l l' h
  induction h generalizing l' with
  | nil => intro h'; cases h'; rfl
  | cons t c d name rest l hl _ _ ih =>
    intro h'
    generalize hb : t :: c :: d :: (name ++ rest) = bs at h'
    cases h' with
    | nil => cases hb
    | cons t' c' d' name' rest' l'' hl' _ hr' =>
      simp only [List.cons.injEq] at hb
      obtain ⟨rfl, rfl, rfl, hb⟩ := hb
      have hlen : name.length = name'.length := by rw [← hl, ← hl']
      have h1 := List.append_inj_left hb hlen
      have h2 := List.append_inj_right hb hlen
      subst h1; subst h2
      rw [ih hr']

/-- `d` = len(1) ‖ v -/
def Vec8Ext (d : Bytes) : Prop := ∃ a v, d = a :: v ∧ a.toNat = v.length

/-! ### the loop lemmas, keyed by one extension identifier -/

section FoldId
variable {σ : Type} {step : σ → Nat → Bytes → Bool → Option σ}

theorem fold_all_mem {Q : Nat × Bytes → Prop}
    (hQ : ∀ m id d l m', step m id d l = some m' → Q (id, d))
    {es : List (Nat × Bytes)} {m m' : σ} (h : foldExts step m es = some m') : ∀ e ∈ es, Q e :=
  fold_all hQ es m m' h

theorem fold_acc_id {α : Type} (π : σ → List α) (k : Nat) (R : Bytes → List α → Prop)
    (hit : ∀ m d l m', step m k d l = some m' → ∃ x, R d x ∧ π m' = π m ++ x)
    (miss : ∀ m id d l m', id ≠ k → step m id d l = some m' → π m' = π m)
    {es : List (Nat × Bytes)} {m m' : σ} (h : foldExts step m es = some m') :
    ∃ xs, ListRel (fun e x => R e.2 x) (es.filter (isId k)) xs ∧ π m' = π m ++ xs.flatten :=
  fold_acc π (isId k) (fun e x => R e.2 x)
    (fun m id d l m' hp hs => by rw [isId_true] at hp; subst hp; exact hit m d l m' hs)
    (fun m id d l m' hp hs => miss m id d l m' (isId_false.mp hp) hs) es m m' h

theorem fold_acc_map_id {α : Type} (π : σ → List α) (k : Nat) (g : Bytes → List α)
    (hit : ∀ m d l m', step m k d l = some m' → π m' = π m ++ g d)
    (miss : ∀ m id d l m', id ≠ k → step m id d l = some m' → π m' = π m)
    {es : List (Nat × Bytes)} {m m' : σ} (h : foldExts step m es = some m') :
    π m' = π m ++ ((es.filter (isId k)).map (fun e => g e.2)).flatten := by
  obtain ⟨xs, hrel, heq⟩ := fold_acc π (isId k) (fun e x => x = g e.2 ∧ True)
    (fun m id d l m' hp hs => by
      rw [isId_true] at hp; subst hp; exact ⟨g d, ⟨rfl, trivial⟩, hit m d l m' hs⟩)
    (fun m id d l m' hp hs => miss m id d l m' (isId_false.mp hp) hs) es m m' h
  rw [heq, (ListRel.eq_map hrel).1]

theorem fold_last_id {β : Type} (π : σ → β) (k : Nat) (g : Bytes → β)
    (hit : ∀ m d l m', step m k d l = some m' → π m' = g d)
    (miss : ∀ m id d l m', id ≠ k → step m id d l = some m' → π m' = π m)
    {es : List (Nat × Bytes)} {m m' : σ} (h : foldExts step m es = some m') :
    π m' = (match lastExt (isId k) es with | some d => g d | none => π m) :=
  fold_last π (isId k) g
    (fun m id d l m' hp hs => by rw [isId_true] at hp; subst hp; exact hit m d l m' hs)
    (fun m id d l m' hp hs => miss m id d l m' (isId_false.mp hp) hs) es m m' h

theorem fold_flag_id (π : σ → Bool) (k : Nat)
    (hit : ∀ m d l m', step m k d l = some m' → π m' = true)
    (miss : ∀ m id d l m', id ≠ k → step m id d l = some m' → π m' = π m)
    {es : List (Nat × Bytes)} {m m' : σ} (h : foldExts step m es = some m') :
    π m' = (π m || es.any (isId k)) :=
  fold_flag π (isId k)
    (fun m id d l m' hp hs => by rw [isId_true] at hp; subst hp; exact hit m d l m' hs)
    (fun m id d l m' hp hs => miss m id d l m' (isId_false.mp hp) hs) es m m' h

end FoldId

/-- `lastExt … = some d` for an identifier-keyed field: the payload's length test, with `drop` removed -/
theorem drop_one_length_pos (d : Bytes) : decide (0 < (d.drop 1).length) = decide (1 < d.length) := by
  cases d with
  | nil => rfl
  | cons a t => simp

end ZV.C28
