import ZV.Proofs.C20X3
/-! C20, x509 level: certificate policies, `extStep`, the extension loop. -/
namespace ZV.C20.X
open ZV.C18

theorem qualNotice_perm (qid : List Int) (qfull : Bytes) (acc r : Pol) (h : qualNotice false qid qfull acc = (r, true)) :
    qualNotice true qid qfull acc = (r, true) := by
  unfold qualNotice at h ⊢
  by_cases hq : qid = oidUserNotice
  · simp only [if_pos hq] at h ⊢
    cases hu : un false userNoticeSchema {} qfull with
    | ok o => rw [un_perm _ _ _ _ hu]; simpa [hu] using h
    | err => simp [hu] at h
    | panic => simp [hu] at h
  · simpa only [if_neg hq] using h

theorem qualCPS_perm (qid : List Int) (qfull : Bytes) (acc r : Pol) (h : qualCPS false qid qfull acc = (r, true)) :
    qualCPS true qid qfull acc = (r, true) := by
  unfold qualCPS at h ⊢
  by_cases hq : qid = oidCPS
  · simp only [if_pos hq] at h ⊢
    cases hu : un false .raw {} qfull with
    | ok o => rw [un_perm _ _ _ _ hu]; simpa [hu] using h
    | err => simp [hu] at h
    | panic => simp [hu] at h
  · simpa only [if_neg hq] using h

theorem qualElem_perm (q : Val) (acc r : Pol) (h : qualElem false q acc = (r, true)) : qualElem true q acc = (r, true) := by
  unfold qualElem at h ⊢
  split
  · rename_i qid _ _ _ _ qfull
    simp only at h ⊢
    rcases pair_true_or (qualNotice false qid qfull { acc with qualifierIds := acc.qualifierIds ++ [.oid qid] }) with ⟨a, ha⟩ | ⟨a, ha⟩
    · rw [qualNotice_perm _ _ _ _ ha]
      simp only [ha] at h ⊢
      exact qualCPS_perm _ _ _ _ h
    · simp [ha] at h
  · rename_i hne
    split at h
    · rename_i a b c d e f
      exact absurd rfl (hne a b c d e f)
    · exact h

theorem polElem_perm (pv : Val) (acc r : List Pol) (h : polElem false pv acc = (r, true)) : polElem true pv acc = (r, true) := by
  unfold polElem at h ⊢
  split
  · rename_i pid quals
    simp only at h ⊢
    rcases pair_true_or (chainLoop (qualElem false) quals { id := pid }) with ⟨a, ha⟩ | ⟨a, ha⟩
    · rw [chainLoop_perm _ _ qualElem_perm _ _ _ ha]
      simpa [ha] using h
    · simp [ha] at h
  · rename_i hne
    split at h
    · rename_i a b
      exact absurd rfl (hne a b)
    · exact h

/-- what the theorems assume of the opaque sub-parsers: each is itself conservative -/
structure Sub.Conservative (sub : Sub) : Prop where
  tor : ∀ v n, sub.tor false v = some n → sub.tor true v = some n
  sct : ∀ v n, sub.sct false v = (n, true) → sub.sct true v = (n, true)
  qc : ∀ v, sub.qcParse false v = some () → sub.qcParse true v = some ()

theorem parseSCTList_perm (deser : Nat → Bytes → Bool) (v : Bytes) (n : Nat) (h : parseSCTList deser false v = (n, true)) :
    parseSCTList deser true v = (n, true) := by
  unfold parseSCTList at h ⊢
  cases hu : un false .octets {} v with
  | ok w => rw [un_perm _ _ _ _ hu]; simpa [hu] using h
  | err => simp [hu] at h
  | panic => simp [hu] at h

/-- sub-parsers with the SCT list modelled: its component of `Sub.Conservative` is a theorem -/
def subWithSCT (deser : Nat → Bytes → Bool) (tor : Bool → Bytes → Option Nat) (qc : Bool → Bytes → Option Unit) : Sub :=
  { tor := tor, sct := parseSCTList deser, qcParse := qc }

theorem subWithSCT_conservative (deser : Nat → Bytes → Bool) (tor : Bool → Bytes → Option Nat) (qc : Bool → Bytes → Option Unit)
    (ht : ∀ v n, tor false v = some n → tor true v = some n) (hq : ∀ v, qc false v = some () → qc true v = some ()) :
    (subWithSCT deser tor qc).Conservative :=
  ⟨ht, fun v n h => parseSCTList_perm deser v n h, hq⟩

theorem optRes_ok {α : Type} {o : Option α} {x : α} (h : optRes o = .ok x) : o = some x := by
  cases o with
  | none => simp [optRes] at h
  | some y => simp only [optRes, Res.ok.injEq] at h; rw [h]

theorem gnStep_perm (g gp : GN × Bool) (hg : ∀ r, g = (r, true) → gp = (r, true)) (mk : GN → Cert) (o : Cert)
    (h : (if !g.2 then (if false then Res.ok (mk g.1) else .err) else .ok (mk g.1)) = .ok o) :
    (if !gp.2 then (if true then Res.ok (mk gp.1) else .err) else .ok (mk gp.1)) = .ok o := by
  obtain ⟨a, b⟩ := g
  cases b with
  | false => simp at h
  | true =>
    rw [hg a rfl]
    simpa using h

theorem extStep_perm (sub : Sub) (hs : sub.Conservative) (e : Ext) (out o : Cert) (h : extStep sub false e out = .ok o) :
    extStep sub true e out = .ok o := by
  unfold extStep at h ⊢
  by_cases h17 : e.id = [2, 5, 29, 17]
  · simp only [if_pos h17] at h ⊢
    exact gnStep_perm _ _ (parseGeneralNames_perm e.value)
      (fun g => { out with san := { g with failed := [] }, failedNames := g.failed }) o h
  simp only [if_neg h17] at h ⊢
  by_cases h18 : e.id = [2, 5, 29, 18]
  · simp only [if_pos h18] at h ⊢
    exact gnStep_perm _ _ (parseGeneralNames_perm e.value)
      (fun g => { out with ian := { g with failed := [] }, failedNames := g.failed }) o h
  simp only [if_neg h18] at h ⊢
  by_cases h30 : e.id = [2, 5, 29, 30]
  · simp only [if_pos h30] at h ⊢
    exact guardStep_perm _ _ _ _ _ _ (un_perm _ _ _) (fun c hc => ncApply_perm _ _ _ _ hc) h
  simp only [if_neg h30] at h ⊢
  by_cases h31 : e.id = [2, 5, 29, 31]
  · simp only [if_pos h31] at h ⊢
    refine guardStep_perm _ _ _ _ _ _ (unCDP_perm _) (fun c hc => ?_) h
    rcases pair_true_or (chainLoop (dpElem false) c out.crldp) with ⟨a, ha⟩ | ⟨a, ha⟩
    · rw [chainLoop_perm _ _ dpElem_perm _ _ _ ha]; simpa [ha] using hc
    · simp [ha] at hc
  simp only [if_neg h31] at h ⊢
  by_cases h35 : e.id = [2, 5, 29, 35]
  · simp only [if_pos h35] at h ⊢
    exact guardStep_perm _ _ _ _ _ _ (un_perm _ _ _) (fun c hc => hc) h
  simp only [if_neg h35] at h ⊢
  by_cases h37 : e.id = [2, 5, 29, 37]
  · simp only [if_pos h37] at h ⊢
    exact guardStep_perm _ _ _ _ _ _ (un_perm _ _ _) (fun c hc => hc) h
  simp only [if_neg h37] at h ⊢
  by_cases h14 : e.id = [2, 5, 29, 14]
  · simp only [if_pos h14] at h ⊢
    exact guardStep_perm _ _ _ _ _ _ (un_perm _ _ _) (fun c hc => hc) h
  simp only [if_neg h14] at h ⊢
  by_cases h32 : e.id = [2, 5, 29, 32]
  · simp only [if_pos h32] at h ⊢
    refine guardStep_perm _ _ _ _ _ _ (un_perm _ _ _) (fun c hc => ?_) h
    rcases pair_true_or (chainLoop (polElem false) c []) with ⟨a, ha⟩ | ⟨a, ha⟩
    · rw [chainLoop_perm _ _ polElem_perm _ _ _ ha]; simpa [ha] using hc
    · simp [ha] at hc
  simp only [if_neg h32] at h ⊢
  by_cases hAIA : e.id = oidAIA
  · simp only [if_pos hAIA] at h ⊢
    exact guardStep_perm _ _ _ _ _ _ (un_perm _ _ _) (fun c hc => hc) h
  simp only [if_neg hAIA] at h ⊢
  by_cases hSCT : e.id = oidSCT
  · simp only [if_pos hSCT] at h ⊢
    rcases pair_true_or (sub.sct false e.value) with ⟨n, hn⟩ | ⟨n, hn⟩
    · rw [hs.sct _ _ hn]; simpa [hn] using h
    · simp [hn] at h
  simp only [if_neg hSCT] at h ⊢
  by_cases hP : e.id = oidPoison
  · simp only [if_pos hP] at h ⊢
    by_cases hv : e.value = [5, 0]
    · simpa only [if_pos hv] using h
    · simp [if_neg hv] at h
  simp only [if_neg hP] at h ⊢
  by_cases hT : e.id = oidTor
  · simp only [if_pos hT] at h ⊢
    refine guardStep_perm _ _ _ _ _ _ (fun x hx => ?_) (fun c hc => hc) h
    rw [hs.tor _ _ (optRes_ok hx)]; rfl
  simp only [if_neg hT] at h ⊢
  by_cases hC : e.id = oidCABF
  · simp only [if_pos hC] at h ⊢
    exact guardStep_perm _ _ _ _ _ _ (un_perm _ _ _) (fun c hc => hc) h
  simp only [if_neg hC] at h ⊢
  by_cases hQ : e.id = oidQC
  · simp only [if_pos hQ] at h ⊢
    refine guardStep_perm _ _ _ _ _ _ (un_perm _ _ _) (fun c hc => ?_) h
    refine guardStep_perm _ _ _ _ _ _ (fun x hx => ?_) (fun c hc => hc) hc
    rw [hs.qc _ (optRes_ok hx)]; rfl
  simpa only [if_neg hQ] using h

theorem parseExts_perm (sub : Sub) (hs : sub.Conservative) (es : List Ext) (out o : Cert)
    (h : parseExts sub false es out = .ok o) : parseExts sub true es out = .ok o := by
  induction es generalizing out with
  | nil => simpa [parseExts] using h
  | cons e rest ih =>
    simp only [parseExts] at h ⊢
    cases he : extStep sub false e out with
    | ok out' =>
      rw [extStep_perm sub hs e out out' he]
      simp only [he] at h ⊢
      exact ih _ h
    | err => simp [he] at h
    | panic => simp [he] at h

end ZV.C20.X
