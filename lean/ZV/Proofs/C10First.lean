import ZV.Proofs.C10
/-!
  Which issuer is chosen: after every operation sequence the issuer of an edge is the FIRST node, in
  creation order (`g.nodes`), that has the certificate's issuer name and whose key verifies it —
  whether the edge was linked directly (loop with `break` over `nodesBySubject`) or by the dangling-edge
  fix-up (`missingIssuerNode`).  This pins down the only freedom the property leaves.
-/
namespace ZV.C10

/-- first key of `ks` with name `iss` verifying `fp` -/
def firstVer (V : Ver) (ks : List NodeKey) (iss fp : Nat) : Option NodeKey :=
  ks.find? (fun k => k.1 == iss && V k fp)

theorem searchIssuer_key (V : Ver) (ns : List Node) (iss fp : Nat) :
    (searchIssuer V ns iss fp).map (·.key) = firstVer V (ns.map (·.key)) iss fp := by
  unfold searchIssuer firstVer
  induction ns with
  | nil => rfl
  | cons n ns ih =>
    simp only [List.find?_cons, List.map_cons]
    cases h : (n.key.1 == iss && V n.key fp) with
    | true => rfl
    | false => exact ih

theorem firstVer_append (V : Ver) (ks : List NodeKey) (sk : NodeKey) (iss fp : Nat) :
    firstVer V (ks ++ [sk]) iss fp =
      match firstVer V ks iss fp with
      | some k => some k
      | none => if (sk.1 == iss && V sk fp) = true then some sk else none := by
  unfold firstVer
  rw [List.find?_append]
  cases h : List.find? (fun k => k.1 == iss && V k fp) ks with
  | some k => rfl
  | none =>
    simp only [Option.none_or, List.find?_cons, List.find?_nil]
    cases (sk.1 == iss && V sk fp) <;> rfl

/-- the invariant -/
def FirstIss (V : Ver) (g : Graph) : Prop :=
  ∀ e ∈ g.edges, e.issuer = firstVer V (g.nodes.map (·.key)) e.cert.iss e.cert.fp

theorem firstIss_empty (V : Ver) : FirstIss V Graph.empty := by
  intro e he; cases he

theorem updNode_keys (ns : List Node) (k : NodeKey) (f : Node → Node) (hf : ∀ n, (f n).key = n.key) :
    (updNode ns k f).map (·.key) = ns.map (·.key) := by
  unfold updNode
  rw [List.map_map]
  apply List.map_congr_left
  intro n _
  simp only [Function.comp]
  split
  · exact hf n
  · rfl

theorem link_keys {ns ns' : List Node} {p c : NodeKey} {fp : Nat} (h : link ns p c fp = .ok ns') :
    ns'.map (·.key) = ns.map (·.key) := by
  unfold link at h
  split at h
  · cases h
  · simp only at h
    split at h
    · cases h
    · cases h
      refine Eq.trans (updNode_keys _ _ _ ?_) (updNode_keys _ _ _ ?_) <;> intro _ <;> rfl

/-- the edge list after the first half of `AddCert` -/
theorem stage1_edges {V : Ver} {g g1 : Graph} {c : Cert} (h : stage1 V g c = .ok g1) :
    g1.edges = g.edges ++ [{ cert := c, issuer := firstVer V (g1.nodes.map (·.key)) c.iss c.fp,
                             child := c.sk, root := false }] := by
  unfold stage1 at h
  simp only at h
  generalize (if (!hasNode g.nodes c.sk) = true then g.nodes ++ [newNode c.sk] else g.nodes) = nodes1 at h
  have hk := searchIssuer_key V nodes1 c.iss c.fp
  cases hs : searchIssuer V nodes1 c.iss c.fp with
  | some p =>
    rw [hs] at h hk
    simp only at h
    cases hl : link nodes1 p.key c.sk c.fp with
    | ok nodes2 =>
      rw [hl] at h
      cases h
      simp only
      rw [link_keys hl, ← hk]
      rfl
    | err => rw [hl] at h; cases h
    | panic => rw [hl] at h; cases h
  | none =>
    rw [hs] at h hk
    simp only at h
    split at h
    · cases h
    · cases h
      simp only
      rw [← hk]
      rfl

/-- the edge list after the fix-up phase -/
theorem fixup_edges {V : Ver} {g1 g2 : Graph} (c : Cert) (h : PreInv V g1 (some c.sk))
    (hnode : ∃ n ∈ g1.nodes, n.key = c.sk) (hf : fixup V g1 c = .ok g2) :
    g2.edges = match g1.missing.get c.subj with
      | none => g1.edges
      | some cands => fixEdges c.sk g1.edges (cands.filter (fun fp => V c.sk fp)) := by
  unfold fixup at hf
  cases hget : g1.missing.get c.subj with
  | none =>
    rw [hget] at hf
    cases hf
    rfl
  | some cands =>
    rw [hget] at hf
    simp only at hf ⊢
    have hmem : (c.subj, cands) ∈ g1.missing := mem_of_get _ _ _ hget
    have hnd : cands.Nodup := h.mgroups _ hmem
    have hall : ∀ fp ∈ cands, ∃ e ∈ g1.edges, e.cert.fp = fp ∧ e.issuer = none ∧ e.cert.iss = c.sk.1 := by
      intro fp hfp
      exact (h.missing c.subj fp).mp ⟨cands, hmem, hfp⟩
    obtain ⟨ns', hloop, _, _⟩ := fixLoop_spec V c.sk cands g1.nodes g1.edges [] h.core hnode hnd hall
    rw [hloop] at hf
    cases hf
    rfl

theorem addCert_first {V : Ver} {g g' : Graph} (hinv : Inv V g) (hfi : FirstIss V g) {c : Cert}
    (hadd : addCert V g c = .ok g') : FirstIss V g' := by
  rw [addCert_eq] at hadd
  cases hdup : hasEdge g.edges c.fp with
  | true =>
    simp only [hdup, if_true] at hadd
    cases hadd
    exact hfi
  | false =>
    simp only [hdup, Bool.false_eq_true, if_false] at hadd
    have hfresh : ∀ e ∈ g.edges, e.cert.fp ≠ c.fp := by
      intro e he hfp
      have : hasEdge g.edges c.fp = true := hasEdge_iff.mpr ⟨e, he, hfp⟩
      rw [hdup] at this; cases this
    obtain ⟨g1, hs1, hpre, hkeys, _⟩ := stage1_spec hinv c hfresh
    have hed1 := stage1_edges hs1
    rw [hs1] at hadd
    simp only at hadd
    cases hn : hasNode g.nodes c.sk with
    | true =>
      simp only [hn, Bool.not_true, Bool.false_eq_true, if_false, if_true] at hadd hkeys
      cases hadd
      intro e he
      rw [hed1] at he
      rcases List.mem_append.mp he with he | he
      · rw [hkeys]; exact hfi e he
      · simp only [List.mem_singleton] at he
        subst he
        rfl
    | false =>
      simp only [hn, Bool.not_false, if_true, Bool.false_eq_true, if_false] at hadd hkeys hpre
      have hnode : ∃ n ∈ g1.nodes, n.key = c.sk := by
        have : c.sk ∈ g1.nodes.map (·.key) := by rw [hkeys]; simp
        obtain ⟨n, hnn, hk⟩ := List.mem_map.mp this
        exact ⟨n, hnn, hk⟩
      -- every edge of g1 has the right issuer, or is dangling and waits for the new node
      have hpfi : ∀ e ∈ g1.edges,
          e.issuer = firstVer V (g1.nodes.map (·.key)) e.cert.iss e.cert.fp ∨
          (e.issuer = none ∧ firstVer V (g1.nodes.map (·.key)) e.cert.iss e.cert.fp = some c.sk) := by
        intro e he
        rw [hed1] at he
        rcases List.mem_append.mp he with he | he
        · have h0 := hfi e he
          rw [hkeys, firstVer_append]
          cases hi : firstVer V (g.nodes.map (·.key)) e.cert.iss e.cert.fp with
          | some k => left; rw [h0, hi]
          | none =>
            rw [hi] at h0
            simp only
            by_cases hb : (c.sk.1 == e.cert.iss && V c.sk e.cert.fp) = true
            · right; rw [if_pos hb]; exact ⟨h0, rfl⟩
            · left; rw [if_neg hb]; exact h0
        · simp only [List.mem_singleton] at he
          subst he
          left; rfl
      obtain ⟨g2, hf2, _, hk2, _⟩ := fixup_spec c hpre hnode
      rw [hf2] at hadd
      cases hadd
      have hed2 := fixup_edges c hpre hnode hf2
      intro e' he'
      rw [hk2]
      -- facts about "waiting" edges
      have hwait : ∀ e ∈ g1.edges, e.issuer = none → e.cert.iss = c.subj →
          ∃ cands, g1.missing.get c.subj = some cands ∧ e.cert.fp ∈ cands := by
        intro e he hnone hiss
        obtain ⟨l, hl, hfl⟩ := (hpre.missing c.subj e.cert.fp).mpr ⟨e, he, rfl, hnone, hiss⟩
        exact ⟨l, get_of_mem _ _ _ hpre.mkeys hl, hfl⟩
      have hfv : ∀ (e : Edge), firstVer V (g1.nodes.map (·.key)) e.cert.iss e.cert.fp = some c.sk →
          e.cert.iss = c.subj ∧ V c.sk e.cert.fp = true := by
        intro e h
        unfold firstVer at h
        have := List.find?_some h
        simp only [Bool.and_eq_true, beq_iff_eq] at this
        exact ⟨this.1.symm, this.2⟩
      cases hget : g1.missing.get c.subj with
      | none =>
        rw [hget] at hed2
        simp only at hed2
        rw [hed2] at he'
        rcases hpfi e' he' with h | ⟨h1, h2⟩
        · exact h
        · exfalso
          obtain ⟨hiss, _⟩ := hfv e' h2
          obtain ⟨cands, hc, _⟩ := hwait e' he' h1 hiss
          rw [hget] at hc; cases hc
      | some cands =>
        rw [hget] at hed2
        simp only at hed2
        rw [hed2] at he'
        obtain ⟨e0, he0, rfl⟩ := mem_fixEdges.mp he'
        have hmem : (c.subj, cands) ∈ g1.missing := mem_of_get _ _ _ hget
        by_cases hF : (cands.filter (fun fp => V c.sk fp)).contains e0.cert.fp = true
        · simp only [hF, if_true]
          have hF' := hF
          simp only [List.contains_eq_mem, List.mem_filter, decide_eq_true_eq] at hF'
          obtain ⟨e1, he1, h4, h5, h6⟩ := (hpre.missing c.subj e0.cert.fp).mp ⟨cands, hmem, hF'.1⟩
          have : e1 = e0 := edge_eq_of_fp hpre.core.edgesNodup he1 he0 h4
          subst this
          rcases hpfi e1 he0 with h | ⟨_, h2⟩
          · exfalso
            rw [h5] at h
            unfold firstVer at h
            have hnone := List.find?_eq_none.mp h.symm c.sk (by rw [hkeys]; simp)
            simp only [Bool.and_eq_true, beq_iff_eq, not_and, Bool.not_eq_true] at hnone
            have := hnone h6.symm
            rw [hF'.2] at this; cases this
          · exact h2.symm
        · simp only [hF, Bool.false_eq_true, if_false]
          rcases hpfi e0 he0 with h | ⟨h1, h2⟩
          · exact h
          · exfalso
            obtain ⟨hiss, hv⟩ := hfv e0 h2
            obtain ⟨cands', hc, hin⟩ := hwait e0 he0 h1 hiss
            rw [hget] at hc; cases hc
            apply hF
            simp only [List.contains_eq_mem, List.mem_filter, decide_eq_true_eq]
            exact ⟨hin, hv⟩

theorem firstIss_setRoot {V : Ver} {g : Graph} (h : FirstIss V g) (fp : Nat) :
    FirstIss V { g with edges := setRoot g.edges fp } := by
  intro e' he'
  obtain ⟨e0, he0, rfl⟩ := mem_setRoot.mp he'
  obtain ⟨h1, _, h3⟩ := setRoot_same e0 fp
  rw [h1, h3]
  exact h e0 he0

theorem step_first {V : Ver} {g g' : Graph} (hinv : Inv V g) (hfi : FirstIss V g) (op : Op)
    (hs : step V g op = .ok g') : FirstIss V g' := by
  cases op with
  | add c => exact addCert_first hinv hfi hs
  | root c =>
    simp only [step, addRoot] at hs
    cases hadd : addCert V g c with
    | ok g1 =>
      rw [hadd] at hs
      simp only at hs
      split at hs
      · cases hs
        exact firstIss_setRoot (addCert_first hinv hfi hadd) c.fp
      · cases hs
    | err => rw [hadd] at hs; cases hs
    | panic => rw [hadd] at hs; cases hs

theorem run_first {V : Ver} (ops : List Op) : ∀ {g g' : Graph}, Inv V g → FirstIss V g →
    run V g ops = .ok g' → FirstIss V g' := by
  induction ops with
  | nil => intro g g' _ hfi h; cases h; exact hfi
  | cons op ops ih =>
    intro g g' hinv hfi h
    obtain ⟨g1, hs, hinv1⟩ := step_inv hinv op
    simp only [run, hs] at h
    exact ih hinv1 (step_first hinv hfi op hs) h

end ZV.C10
