import ZV.Model.C23
import ZV.Proofs.C23
import ZV.Proofs.C23Bytes
import ZV.Proofs.C23Pss
/-! composing the padding layers with the RSA primitives (`decrypt` then `encrypt` and back) — for `ZV.Props.C23`.
    The key enters only through the three facts the flagship theorems of `ZV.Props.C23` provide:
    `decryptCore k c = c^d mod n`, and the two round trips. -/
namespace ZV.C23
open ZV ZV.Hash

theorem prod_primes_pos (ps : List Nat) (h : ∀ p ∈ ps, p.Prime) : 0 < ps.prod := by
  induction ps with
  | nil => simp
  | cons p ps ih =>
    rw [List.prod_cons]
    exact Nat.mul_pos (h p (by simp)).pos (ih (fun q hq => h q (by simp [hq])))

theorem checkPub_priv {k : Priv} (hn : 0 < k.n) (he : 2 ≤ k.e) : checkPub k.pub = .ok (k.n, k.e) := by
  unfold checkPub Priv.pub
  have h1 : ¬ ((Int.ofNat k.n) ≤ 0) := by simp; omega
  have h2 : ¬ ((Int.ofNat k.e) < 2) := by simp; omega
  simp only [h1, h2, if_false]
  simp

/-! ### sizes -/

theorem pow_sizeBytes_pred_le {n : Nat} (hn : 0 < n) : 256 ^ (sizeBytes n - 1) ≤ n := by
  unfold sizeBytes bitLen
  rw [if_neg (by omega)]
  have h1 : 2 ^ n.log2 ≤ n := Nat.log2_self_le (by omega)
  have h3 : (256 : Nat) ^ ((n.log2 + 1 + 7) / 8 - 1) = 2 ^ (8 * ((n.log2 + 1 + 7) / 8 - 1)) := by
    rw [show (256 : Nat) = 2 ^ 8 by norm_num, ← pow_mul]
  rw [h3]
  exact Nat.le_trans (Nat.pow_le_pow_right (by decide) (by omega)) h1

theorem two_pow_emBits_le {n : Nat} (hn : 0 < n) : 2 ^ (bitLen n - 1) ≤ n := by
  unfold bitLen
  rw [if_neg (by omega)]
  exact Nat.log2_self_le (by omega)

theorem emLen_le_sizeBytes (n : Nat) : (bitLen n - 1 + 7) / 8 ≤ sizeBytes n := by
  unfold sizeBytes; omega

/-! ### integers of byte strings with a known head -/

theorem os2ip_cons_lt (b : UInt8) (rest : Bytes) : os2ip (b :: rest) < (b.toNat + 1) * 256 ^ rest.length := by
  rw [os2ip_cons]
  have := os2ip_lt rest
  rw [Nat.add_mul, Nat.one_mul]
  omega

theorem os2ip_replicate_zero (j : Nat) (bs : Bytes) : os2ip (List.replicate j 0 ++ bs) = os2ip bs := by
  induction j with
  | zero => simp
  | succ j ih => rw [List.replicate_succ, List.cons_append, os2ip_cons, ih]; simp

/-- an encoded message `00 01 …` on `k = Size()` octets is below the modulus -/
theorem os2ip_00_01_lt {n : Nat} (hn : 0 < n) (rest : Bytes) (hl : (0 :: 1 :: rest : Bytes).length = sizeBytes n) :
    os2ip (0 :: 1 :: rest) < n := by
  have h1 := os2ip_cons_lt 1 rest
  have h2 := pow_sizeBytes_pred_le hn
  rw [← hl] at h2
  simp only [List.length_cons, Nat.add_sub_cancel] at h2
  rw [pow_succ] at h2
  rw [os2ip_cons]
  simp only [UInt8.toNat_zero, Nat.zero_mul, Nat.zero_add]
  have h3 : (1 : UInt8).toNat = 1 := rfl
  rw [h3] at h1
  omega

/-- an encoded message `00 …` on `k = Size()` octets is below the modulus -/
theorem os2ip_00_lt {n : Nat} (hn : 0 < n) (rest : Bytes) (hl : (0 :: rest : Bytes).length = sizeBytes n) :
    os2ip (0 :: rest) < n := by
  have h1 := os2ip_lt rest
  have h2 := pow_sizeBytes_pred_le hn
  rw [← hl] at h2
  simp only [List.length_cons, Nat.add_sub_cancel] at h2
  rw [os2ip_cons]
  simp only [UInt8.toNat_zero, Nat.zero_mul, Nat.zero_add]
  omega

/-! ### private operation, then public operation (signatures) -/

theorem decrypt_ok_of_lt {k : Priv} (hcore : ∀ c, decryptCore k c = c ^ k.d % k.n)
    (henc : ∀ c, c < k.n → modPow (decryptCore k c) k.e k.n = c) (em : Bytes) (check : Bool) (hlt : os2ip em < k.n) :
    decrypt k em check = .ok (natToBytesBE (sizeBytes k.n) (decryptCore k (os2ip em))) := by
  unfold decrypt i2osp
  have hn : 0 < k.n := by omega
  have hm : decryptCore k (os2ip em) < 256 ^ sizeBytes k.n := by
    rw [hcore]; exact Nat.lt_trans (Nat.mod_lt _ hn) (lt_pow_sizeBytes _)
  simp [Nat.not_le.2 hlt, henc _ hlt, hm]

/-- if the private operation on an encoded message of `Size()` octets succeeds, its result has `Size()` octets, is below
    the modulus and the public operation maps it back to the encoded message -/
theorem decrypt_then_encrypt {k : Priv} (hcore : ∀ c, decryptCore k c = c ^ k.d % k.n)
    (henc : ∀ c, c < k.n → modPow (decryptCore k c) k.e k.n = c) (em sig : Bytes) (check : Bool)
    (hlen : em.length = sizeBytes k.n) (hd : decrypt k em check = .ok sig) :
    sig.length = sizeBytes k.n ∧ os2ip sig < k.n ∧ encrypt k.n k.e sig = .ok em := by
  have hlt : os2ip em < k.n := by
    by_cases h : os2ip em < k.n
    · exact h
    · unfold decrypt at hd; simp [Nat.not_lt.1 h] at hd
  have hn : 0 < k.n := by omega
  rw [decrypt_ok_of_lt hcore henc em check hlt] at hd
  have hs := Res.ok.inj hd
  have hm : decryptCore k (os2ip em) < k.n := by rw [hcore]; exact Nat.mod_lt _ hn
  have hm2 : decryptCore k (os2ip em) < 256 ^ sizeBytes k.n := Nat.lt_trans hm (lt_pow_sizeBytes _)
  subst hs
  refine ⟨natToBytesBE_length _ _, ?_, ?_⟩
  · rw [os2ip_natToBytesBE_of_lt hm2]; exact hm
  · rw [encrypt_eq, os2ip_natToBytesBE_of_lt hm2, if_pos hm, ← modPow_eq, henc _ hlt, ← hlen, natToBytesBE_os2ip]

/-! ### public operation, then private operation (encryption) -/

theorem encrypt_then_decrypt {k : Priv}
    (hdec : ∀ m, m < k.n → decryptCore k (modPow m k.e k.n) = m) (em c : Bytes)
    (hlen : em.length = sizeBytes k.n) (he : encrypt k.n k.e em = .ok c) :
    c.length = sizeBytes k.n ∧ decrypt k c false = .ok em := by
  rw [encrypt_eq] at he
  by_cases hlt : os2ip em < k.n
  · rw [if_pos hlt] at he
    have hc := Res.ok.inj he
    subst hc
    have hn : 0 < k.n := by omega
    have hb : os2ip em ^ k.e % k.n < 256 ^ sizeBytes k.n :=
      Nat.lt_trans (Nat.mod_lt _ hn) (lt_pow_sizeBytes _)
    refine ⟨natToBytesBE_length _ _, ?_⟩
    unfold decrypt i2osp
    dsimp only
    rw [os2ip_natToBytesBE_of_lt hb, ← modPow_eq, hdec _ hlt]
    have h1 : ¬ (modPow (os2ip em) k.e k.n ≥ k.n) := by rw [modPow_eq]; exact Nat.not_le.2 (Nat.mod_lt _ hn)
    have h2 : os2ip em < 256 ^ sizeBytes k.n := Nat.lt_trans hlt (lt_pow_sizeBytes _)
    simp only [h1, if_false, Bool.false_and, h2, if_true]
    rw [← hlen, natToBytesBE_os2ip]
    simp
  · rw [if_neg hlt] at he; contradiction

/-- `decrypt` reads its input as an integer: leading zero octets do not matter -/
theorem decrypt_pad (k : Priv) (c : Bytes) (j : Nat) (check : Bool) :
    decrypt k (List.replicate j 0 ++ c) check = decrypt k c check := by
  unfold decrypt
  rw [os2ip_replicate_zero]

/-! ### `VerifyPSS`: the leading octets -/

theorem stripTo_pad (emLen j : Nat) (em : Bytes) (hl : em.length = emLen) :
    stripTo emLen (List.replicate j 0 ++ em) = some em := by
  induction j with
  | zero =>
    cases em with
    | nil => rfl
    | cons b rest => simp only [List.replicate_zero, List.nil_append]; unfold stripTo; rw [if_neg (by omega)]
  | succ j ih =>
    rw [List.replicate_succ, List.cons_append]
    unfold stripTo
    rw [if_pos (by simp; omega), if_neg (by simp)]
    exact ih

/-- the EMSA-PSS encoded message is below `2^emBits` (the top-bit mask) -/
theorem os2ip_pssEM_lt {h : HashAlg} (hk : HashOk h) (mHash salt : Bytes) (emBits : Nat)
    (hbound : h.outSize + salt.length + 2 ≤ (emBits + 7) / 8) : os2ip (pssEM h mHash emBits salt) < 2 ^ emBits := by
  have hlen := pssEM_length hk mHash emBits salt hbound
  have hxl := mgf1XOR_length hk (pssDB ((emBits + 7) / 8 - salt.length - h.outSize - 2) salt)
    (h.hash (zeros8 ++ mHash ++ salt))
  cases hX : mgf1XOR h (pssDB ((emBits + 7) / 8 - salt.length - h.outSize - 2) salt)
      (h.hash (zeros8 ++ mHash ++ salt)) with
  | nil => rw [hX, pssDB_length] at hxl; simp at hxl
  | cons x r =>
    have hem : pssEM h mHash emBits salt = (x &&& topMask ((emBits + 7) / 8) emBits) ::
        (r ++ h.hash (zeros8 ++ mHash ++ salt) ++ [0xbc]) := by
      simp only [pssEM, hX, maskHead, List.cons_append]
    rw [hem] at hlen ⊢
    have h1 := os2ip_cons_lt (x &&& topMask ((emBits + 7) / 8) emBits) (r ++ h.hash (zeros8 ++ mHash ++ salt) ++ [0xbc])
    have h2 := and_shift_lt x (8 * ((emBits + 7) / 8) - emBits) (topMask_shift emBits)
    have hl' : (r ++ h.hash (zeros8 ++ mHash ++ salt) ++ [0xbc]).length = (emBits + 7) / 8 - 1 := by
      simp only [List.length_cons] at hlen; omega
    rw [hl'] at h1
    have h3 : (256 : Nat) ^ ((emBits + 7) / 8 - 1) = 2 ^ (8 * ((emBits + 7) / 8 - 1)) := by
      rw [show (256 : Nat) = 2 ^ 8 by norm_num, ← pow_mul]
    have h4 : 2 ^ (8 - (8 * ((emBits + 7) / 8) - emBits)) * 2 ^ (8 * ((emBits + 7) / 8 - 1)) = 2 ^ emBits := by
      rw [← pow_add]; congr 1; omega
    calc os2ip _ < ((x &&& topMask ((emBits + 7) / 8) emBits).toNat + 1) * 256 ^ ((emBits + 7) / 8 - 1) := h1
      _ ≤ 2 ^ (8 - (8 * ((emBits + 7) / 8) - emBits)) * 256 ^ ((emBits + 7) / 8 - 1) :=
        Nat.mul_le_mul_right _ h2
      _ = 2 ^ emBits := by rw [h3, h4]

end ZV.C23
