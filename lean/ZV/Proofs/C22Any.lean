import ZV.Model.C22Any
import ZV.Proofs.C22
import ZV.Proofs.C22Der
/-! helper lemmas for the parse direction of C22 through the ANY arm (`ZV.Model.C22Any`) -/
namespace ZV.C22

theorem strRes_str (r : Res C18.Val) (s : Bytes) (h : strRes r = .ok (.str s)) : r = .ok (.bytes s) := by
  unfold strRes at h
  split at h <;> first | cases h | skip
  rfl

theorem strRes_not_other (r : Res C18.Val) (t : Nat) (raw : Bytes) : strRes r ≠ .ok (.other t raw) := by
  unfold strRes; split <;> simp

theorem timeRes_not_str (r : Res Time.GoTime) (s : Bytes) : timeRes r ≠ .ok (.str s) := by
  unfold timeRes; split <;> simp

/-- a parser of the string group returns a string or fails … -/
theorem runAny_string (p : AnyP) (hp : p.isString = true) (inner : Bytes) (t : Nat) (raw : Bytes) :
    runAny p inner ≠ .ok (.other t raw) := by
  cases p <;> simp [AnyP.isString] at hp <;> simp only [runAny] <;> exact strRes_not_other _ _ _

/-- … and a parser outside it never returns one -/
theorem runAny_nonstring (p : AnyP) (hp : p.isString = false) (inner s : Bytes) : runAny p inner ≠ .ok (.str s) := by
  cases p <;> simp [AnyP.isString] at hp
  · simp only [runAny]; split <;> simp
  · simp only [runAny]; split <;> simp
  · simp only [runAny]; split <;> simp
  · simp only [runAny]; exact timeRes_not_str _ _
  · simp only [runAny]; exact timeRes_not_str _ _
  · simp [runAny]

/-- what the string parsers return: the content itself, except BMPString (UTF-16 → UTF-8, one terminator stripped) -/
theorem runAny_content (p : AnyP) (inner s : Bytes) (h : runAny p inner = .ok (.str s)) :
    (p ≠ .bmp → s = inner) ∧ (p = .bmp → s = C18.utf16ToUtf8 (C18.stripTerm (C18.pairs16 inner))) := by
  cases p
  case printable =>
    simp only [runAny] at h; have := strRes_str _ _ h; unfold C18.parsePrintableString at this; split at this <;> simp_all
  case numeric =>
    simp only [runAny] at h; have := strRes_str _ _ h; unfold C18.parseNumericString at this; split at this <;> simp_all
  case ia5 =>
    simp only [runAny] at h; have := strRes_str _ _ h; unfold C18.parseIA5String at this; split at this <;> simp_all
  case t61 =>
    simp only [runAny] at h; have := strRes_str _ _ h; unfold C18.parseT61String at this; simp_all
  case utf8 =>
    simp only [runAny] at h; have := strRes_str _ _ h; unfold C18.parseUTF8String at this; split at this <;> simp_all
  case bmp =>
    simp only [runAny] at h; have := strRes_str _ _ h; unfold C18.parseBMPString at this; split at this <;> simp_all
  all_goals exact absurd h (runAny_nonstring _ rfl _ _)

theorem lookupAny_mem (tag : Nat) (p : AnyP) : ∀ (tbl : List (Nat × AnyP)), lookupAny tag tbl = some p → (tag, p) ∈ tbl
  | [], h => by simp [lookupAny] at h
  | (t, q) :: rest, h => by
    unfold lookupAny at h
    split at h
    · rename_i ht; cases h; subst ht; simp
    · exact List.mem_cons_of_mem _ (lookupAny_mem tag p rest h)

/-- the ANY arm reads back what `makeField` writes for a string value -/
theorem anyOf_choice (s : Bytes) (t : Nat) (h : stringChoice s = some t) : anyOf 0 t false s = .ok (.str s) := by
  have hr := readBack_choice s t h
  unfold stringChoice C18.stringTag at h
  simp only [if_true] at h
  split at h
  · cases h
    have : C18.parsePrintableString false s = .ok (.bytes s) := by simpa [readBack, C18.parseString] using hr
    simp [anyOf, anyTable, lookupAny, runAny, this, strRes]
  · split at h
    · cases h
      have : C18.parseUTF8String false s = .ok (.bytes s) := by simpa [readBack, C18.parseString] using hr
      simp [anyOf, anyTable, lookupAny, runAny, this, strRes]
    · cases h

end ZV.C22
