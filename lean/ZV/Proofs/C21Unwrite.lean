import ZV.Proofs.C21Build
/-!
  `Unwrite` / `SetError` / blocks: the low-level Builder (`bbuild`) refines the block-accumulating
  specification `bspec`.  Invariant: no error, no panic, `result = R ++ acc` where `R` is everything up to and
  including the block's reserved length prefix (`R.length = pendingLenLen + offset`).
-/
open ZV ZV.Der0
namespace ZV.C21

theorem bbuild_err (p : BProg) : ∀ b : Builder, b.err = true → bbuild p b = b := by
  induction p with
  | done => intro b _; rfl
  | add bs k ih => intro b h; simp only [bbuild, add, h, if_true]; exact ih b h
  | unwrite n k ih => intro b h; simp only [bbuild, unwrite, h, if_true]; exact ih b h
  | setErr k ih =>
    intro b h
    have : setError b = b := by cases b; simp only [setError]; simp at h; simp [h]
    simp only [bbuild, this]; exact ih b h
  | lp n body k _ ih => intro b h; simp only [bbuild, addLengthPrefixed, h, if_true]; exact ih b h
  | asn1 tag body k _ ih => intro b h; simp only [bbuild, addASN1, h, if_true]; exact ih b h

theorem flushChild_panicked (b child : Builder) (h : child.panicked = true) :
    flushChild b child = { b with err := true, panicked := true } := by
  simp [flushChild, h]

def mkB (res : Bytes) (off pll : Nat) (pia : Bool) : Builder :=
  { err := false, panicked := false, result := res, offset := off, pendingLenLen := pll, pendingIsASN1 := pia }

/-- what `bbuild p b` must be, given the specification result -/
def Refines (b' : Builder) (R : Bytes) (off pll : Nat) (pia : Bool) (r : Res Bytes) : Prop :=
  match r with
  | .ok acc' => b' = mkB (R ++ acc') off pll pia
  | .err => b'.err = true ∧ b'.panicked = false
  | .panic => b'.panicked = true ∧ b'.err = true

theorem bbuild_refines (p : BProg) : ∀ (R acc : Bytes) (off pll : Nat) (pia : Bool), R.length = pll + off →
    Refines (bbuild p (mkB (R ++ acc) off pll pia)) R off pll pia (bspec p acc) := by
  induction p with
  | done => intro R acc off pll pia _; simp only [bbuild, bspec, Refines]
  | add bs k ih =>
    intro R acc off pll pia hl
    have e : add (mkB (R ++ acc) off pll pia) bs = mkB (R ++ (acc ++ bs)) off pll pia := by
      simp [add, mkB]
    simp only [bbuild, bspec, e]
    exact ih R (acc ++ bs) off pll pia hl
  | unwrite n k ih =>
    intro R acc off pll pia hl
    simp only [bbuild, bspec]
    by_cases hn : n > acc.length
    · have e : unwrite (mkB (R ++ acc) off pll pia) n = { mkB (R ++ acc) off pll pia with err := true, panicked := true } := by
        have h1 : ¬ (R.length + acc.length < pll + off) := by omega
        have h2 : n > R.length + acc.length - pll - off := by omega
        simp [unwrite, mkB, h1, h2]
      rw [e, bbuild_err k _ (by simp)]
      simp [hn, Refines]
    · have e : unwrite (mkB (R ++ acc) off pll pia) n = mkB (R ++ acc.take (acc.length - n)) off pll pia := by
        have h1 : ¬ (R.length + acc.length < pll + off) := by omega
        have h2 : ¬ (n > R.length + acc.length - pll - off) := by omega
        have ht : (R ++ acc).take (R.length + acc.length - n) = R ++ acc.take (acc.length - n) := by
          rw [List.take_append]
          have : R.length + acc.length - n - R.length = acc.length - n := by omega
          rw [this, List.take_of_length_le (by omega)]
        simp [unwrite, mkB, h1, h2, ht]
      rw [e]
      simp only [hn, if_false]
      exact ih R _ off pll pia hl
  | setErr k ih =>
    intro R acc off pll pia _
    simp only [bbuild, bspec]
    rw [bbuild_err k _ (by simp [setError])]
    exact ⟨by simp [setError], by simp [setError, mkB]⟩
  | lp n body k ihb ihk =>
    intro R acc off pll pia hl
    have hb := ihb (R ++ acc ++ zeros n) [] (R ++ acc).length n false (by simp [zeros_length]; omega)
    simp only [List.append_nil] at hb
    have e0 : addLengthPrefixed (mkB (R ++ acc) off pll pia) n false (bbuild body)
        = flushChild (mkB (R ++ acc ++ zeros n) off pll pia) (bbuild body (mkB (R ++ acc ++ zeros n) (R ++ acc).length n false)) := by
      simp [addLengthPrefixed, mkB, add]
    simp only [bbuild, bspec, e0]
    cases hs : bspec body [] with
    | panic =>
      rw [hs] at hb
      simp only [Refines] at hb
      rw [flushChild_panicked _ _ hb.1, bbuild_err k _ (by simp)]
      simp [Refines]
    | err =>
      rw [hs] at hb
      simp only [Refines] at hb
      rw [flushChild_err _ _ hb.1 hb.2, bbuild_err k _ (by simp)]
      exact ⟨by simp, by simp [mkB]⟩
    | ok c =>
      rw [hs] at hb
      simp only [Refines] at hb
      rw [hb]
      have hf := flushChild_lp (mkB (R ++ acc ++ zeros n) off pll pia) (R ++ acc) c n
      simp only [mkB] at hf ⊢
      rw [hf]
      by_cases hge : c.length ≥ 256 ^ n
      · simp only [hge, if_true, lpBytes]
        rw [bbuild_err k _ (by simp)]
        exact ⟨by simp, by simp⟩
      · simp only [hge, if_false, lpBytes]
        have := ihk R (acc ++ (beBytes n c.length ++ c)) off pll pia hl
        simp only [mkB, List.append_assoc] at this ⊢
        exact this
  | asn1 tag body k ihb ihk =>
    intro R acc off pll pia hl
    simp only [bbuild, bspec]
    by_cases htag : tag.toNat % 32 = 31
    · have e : addASN1 (mkB (R ++ acc) off pll pia) tag (bbuild body) = { mkB (R ++ acc) off pll pia with err := true } := by
        simp [addASN1, mkB, htag]
      rw [e, bbuild_err k _ (by simp)]
      simp only [htag, if_true]
      exact ⟨by simp, by simp [mkB]⟩
    · have hb := ihb (R ++ acc ++ [tag] ++ zeros 1) [] ((R ++ acc).length + 1) 1 true (by simp [zeros_length]; omega)
      simp only [List.append_nil] at hb
      have e0 : addASN1 (mkB (R ++ acc) off pll pia) tag (bbuild body)
          = flushChild (mkB (R ++ acc ++ [tag] ++ zeros 1) off pll pia)
              (bbuild body (mkB (R ++ acc ++ [tag] ++ zeros 1) ((R ++ acc).length + 1) 1 true)) := by
        simp [addASN1, addLengthPrefixed, mkB, add, htag, Nat.add_assoc]
      simp only [e0, htag, if_false]
      cases hs : bspec body [] with
      | panic =>
        rw [hs] at hb
        simp only [Refines] at hb
        rw [flushChild_panicked _ _ hb.1, bbuild_err k _ (by simp)]
        simp [Refines]
      | err =>
        rw [hs] at hb
        simp only [Refines] at hb
        rw [flushChild_err _ _ hb.1 hb.2, bbuild_err k _ (by simp)]
        exact ⟨by simp, by simp [mkB]⟩
      | ok c =>
        rw [hs] at hb
        simp only [Refines] at hb
        rw [hb]
        have hf := flushChild_asn1 (mkB (R ++ acc ++ [tag] ++ zeros 1) off pll pia) (R ++ acc) c tag
        simp only [mkB] at hf ⊢
        rw [hf]
        simp only [CB.element, htag, if_false]
        cases hd : CB.derLength c.length with
        | panic => exact absurd hd (derLength_ne_panic _)
        | err =>
          simp only
          rw [bbuild_err k _ (by simp)]
          exact ⟨by simp, by simp⟩
        | ok l =>
          simp only
          have := ihk R (acc ++ (tag :: l ++ c)) off pll pia hl
          simp only [mkB, List.append_assoc] at this ⊢
          exact this

theorem bbuildBytes_eq_bspec (p : BProg) : bbuildBytes p = bspec p [] := by
  have h := bbuild_refines p [] [] 0 0 false rfl
  have e : mkB ([] ++ []) 0 0 false = {} := rfl
  rw [e] at h
  unfold bbuildBytes
  cases hs : bspec p [] with
  | ok c => rw [hs] at h; simp only [Refines] at h; simp [h, mkB]
  | err => rw [hs] at h; simp only [Refines] at h; simp [h.1, h.2]
  | panic => rw [hs] at h; simp only [Refines] at h; simp [h.1]

end ZV.C21
