import ZV.Model.C01
namespace ZV.C01

theorem idx_of_lt {bs : Bytes} {i : Nat} (h : i < bs.length) : ∃ b, idx bs i = .ok b := by
  unfold idx
  rw [List.getElem?_eq_getElem h]
  exact ⟨_, rfl⟩

theorem idx_not_panic {bs : Bytes} {i : Nat} (h : i < bs.length) : idx bs i ≠ .panic := by
  obtain ⟨b, hb⟩ := idx_of_lt h
  rw [hb]; simp

theorem b128Loop_no_panic (bs : Bytes) (sh acc off : Nat) : b128Loop bs sh acc off ≠ .panic := by
  fun_induction b128Loop bs sh acc off <;> simp_all
  exact idx_not_panic (by assumption) (by assumption)

theorem b128Loop_consumed (bs : Bytes) (sh acc off : Nat) (r o : Nat)
    (h : b128Loop bs sh acc off = .ok (r, o)) : off < o ∧ o ≤ bs.length ∧ r ≤ 2147483647 := by
  fun_induction b128Loop bs sh acc off <;> simp_all <;> omega

theorem lenLoop_no_panic (bs : Bytes) (n len off : Nat) : lenLoop bs n len off ≠ .panic := by
  induction n generalizing len off with
  | zero => simp [lenLoop]
  | succ n ih =>
    simp only [lenLoop]
    split
    · simp
    · split
      · split
        · simp
        · split
          · simp
          · exact ih _ _
      · simp
      · rename_i h1 h2; exact absurd h2 (idx_not_panic (by omega))

theorem lenLoop_consumed (bs : Bytes) (n len off len' off' : Nat)
    (h : lenLoop bs n len off = .ok (len', off')) (hl : len < 2147483648) :
    off' = off + n ∧ (n > 0 → off' ≤ bs.length) ∧ len' < 2147483648 := by
  induction n generalizing len off with
  | zero => simp [lenLoop] at h; omega
  | succ n ih =>
    simp only [lenLoop] at h
    split at h
    · simp at h
    · split at h
      · split at h
        · simp at h
        · split at h
          · simp at h
          · rename_i b _ hlen _
            have hb : b.toNat < 256 := UInt8.toNat_lt b
            have := ih _ _ h (by omega)
            refine ⟨by omega, fun _ => ?_, this.2.2⟩
            cases n with
            | zero => simp [lenLoop] at h; omega
            | succ m => have := this.2.1 (by omega); omega
      · simp at h
      · simp at h

theorem parseLength_no_panic (perm : Bool) (bs : Bytes) (cls tag : Nat) (comp : Bool) (off : Nat) :
    parseLength perm bs cls tag comp off ≠ .panic := by
  unfold parseLength
  split
  · simp
  · split
    · split
      · simp
      · simp only []
        split
        · simp
        · split
          · split <;> simp
          · simp
          · rename_i h; exact absurd h (lenLoop_no_panic _ _ _ _)
    · simp
    · rename_i h1 h2; exact absurd h2 (idx_not_panic (by omega))

theorem parseLength_consumed (perm : Bool) (bs : Bytes) (cls tag : Nat) (comp : Bool) (off : Nat)
    (t : TL) (o : Nat) (h : parseLength perm bs cls tag comp off = .ok (t, o)) :
    off < o ∧ o ≤ bs.length ∧ t.len < 2147483648 ∧ t.cls = cls ∧ t.tag = tag := by
  unfold parseLength at h
  split at h
  · simp at h
  · split at h
    · split at h
      · rename_i b _ _
        simp at h
        obtain ⟨h1, h2⟩ := h
        subst h1 h2
        have : (b &&& 0x7f).toNat ≤ 127 := by
          have : (b &&& 0x7f) ≤ 0x7f := UInt8.and_le_right
          exact this
        have h3 : b.toNat &&& 127 ≤ 127 := Nat.and_le_right
        simp; omega
      · simp only [] at h
        split at h
        · simp at h
        · split at h
          · split at h
            · simp at h
            · rename_i hn _ _ len off' hl _
              simp at h
              obtain ⟨h1, h2⟩ := h
              subst h1 h2
              have := lenLoop_consumed _ _ _ _ _ _ hl (by omega)
              simp
              refine ⟨by omega, ?_, this.2.2⟩
              exact this.2.1 (by omega)
          · simp at h
          · simp at h
    · simp at h
    · simp at h

theorem parseTagAndLength_no_panic (perm : Bool) (bs : Bytes) (off : Nat) :
    parseTagAndLength perm bs off ≠ .panic := by
  unfold parseTagAndLength
  split
  · simp
  · split
    · simp only []
      split
      · split
        · split
          · simp
          · exact parseLength_no_panic _ _ _ _ _ _
        · simp
        · rename_i h; exact absurd h (b128Loop_no_panic _ _ _ _)
      · exact parseLength_no_panic _ _ _ _ _ _
    · simp
    · rename_i h1 h2; exact absurd h2 (idx_not_panic (by omega))

theorem parseTagAndLength_consumed (perm : Bool) (bs : Bytes) (off : Nat) (t : TL) (o : Nat)
    (h : parseTagAndLength perm bs off = .ok (t, o)) :
    off + 2 ≤ o ∧ o ≤ bs.length ∧ t.len < 2147483648 := by
  unfold parseTagAndLength at h
  split at h
  · simp at h
  · split at h
    · simp only [] at h
      split at h
      · split at h
        · split at h
          · simp at h
          · rename_i hb _
            have h1 := b128Loop_consumed _ _ _ _ _ _ hb
            have h2 := parseLength_consumed _ _ _ _ _ _ _ _ h
            omega
        · simp at h
        · simp at h
      · have h2 := parseLength_consumed _ _ _ _ _ _ _ _ h
        omega
    · simp at h
    · simp at h

theorem invalidLength_false {o l s : Nat} (h : invalidLength o l s = false) : o + l ≤ s := by
  unfold invalidLength at h
  simp at h
  omega

theorem countElems_no_panic (perm : Bool) (bs : Bytes) (off n : Nat) : countElems perm bs off n ≠ .panic := by
  fun_induction countElems perm bs off n
  · simp
  · assumption
  · rename_i hp _ hlt
    have := parseTagAndLength_consumed _ _ _ _ _ hp
    omega
  · simp
  · rename_i hp; exact absurd hp (parseTagAndLength_no_panic _ _ _)
  · simp

/-- the number of elements the counting loop finds is bounded by half the bytes it walks over (every
    element has at least a tag and a length octet): the slice `parseSequenceOf` then allocates with
    `reflect.MakeSlice(sliceType, numElements, numElements)` is linear in the input. -/
theorem countElems_bound (perm : Bool) (bs : Bytes) (off n m : Nat) (h : countElems perm bs off n = .ok m) :
    2 * m + 2 * off ≤ 2 * n + 2 * off + (bs.length - off) ∧ n ≤ m := by
  fun_induction countElems perm bs off n
  · simp_all
  · rename_i off n hlt t o hp hinv hlt2 ih
    have hc := parseTagAndLength_consumed _ _ _ _ _ hp
    have hi := invalidLength_false (by simpa using hinv)
    have := ih h
    omega
  · simp_all
  · simp_all
  · simp_all
  · simp at h; omega

theorem slice_ok {bs : Bytes} {lo hi : Nat} (h1 : lo ≤ hi) (h2 : hi ≤ bs.length) :
    slice bs lo hi = .ok ((bs.drop lo).take (hi - lo)) := by
  unfold slice; simp [h1, h2]

theorem unmarshalRawSeq_no_panic (perm : Bool) (bs : Bytes) : unmarshalRawSeq perm bs ≠ .panic := by
  unfold unmarshalRawSeq
  split
  · simp
  · split
    · split
      · simp
      · split
        · simp
        · rename_i hinv
          have := invalidLength_false (by simpa using hinv)
          rw [slice_ok (by omega) this]
          simp only []
          split
          · simp
          · simp
          · rename_i h; exact absurd h (countElems_no_panic _ _ _ _)
    · simp
    · rename_i h; exact absurd h (parseTagAndLength_no_panic _ _ _)


theorem invalidLength_eq_int (o l s : Nat) (ho : o < 9223372036854775808) (hl : l < 9223372036854775808): invalidLengthInt o l s = invalidLength o l s := by
  unfold invalidLengthInt invalidLength wrap64
  by_cases h : o + l ≥ 9223372036854775808
  · have e : ((o:Int) + l + 9223372036854775808) % 18446744073709551616 = (o:Int) + l - 9223372036854775808 := by omega
    rw [e]
    simp [h]
    left; omega
  · have e : ((o:Int) + l + 9223372036854775808) % 18446744073709551616 = (o:Int) + l + 9223372036854775808 := by omega
    rw [e]
    simp [h]
    have h1 : ¬ ((o:Int) + l < o) := by omega
    have h2 : ((s:Int) < (o:Int) + l) ↔ (s < o + l) := by omega
    simp [h1, h2]


theorem cbHeader_no_panic (s : Bytes) (lb : UInt8) : cbHeader s lb ≠ .panic := by
  unfold cbHeader
  split
  · simp
  · simp only []
    split
    · simp
    · rename_i h
      rw [slice_ok (by omega) (by omega)]
      simp only []
      split
      · simp
      · split
        · simp
        · split
          · simp
          · split <;> simp

theorem cbHeader_le (s : Bytes) (lb : UInt8) (length hl : Nat) (h : cbHeader s lb = .ok (length, hl)) :
    hl ≤ length := by
  unfold cbHeader at h
  split at h
  · simp at h; omega
  · simp only [] at h
    split at h
    · simp at h
    · split at h
      · split at h
        · simp at h
        · split at h
          · simp at h
          · split at h
            · simp at h
            · split at h
              · simp at h
              · simp at h; omega
      · simp at h
      · simp at h

theorem cbHeader_ge2 (s : Bytes) (lb : UInt8) (length hl : Nat) (h : cbHeader s lb = .ok (length, hl)) :
    2 ≤ length := by
  unfold cbHeader at h
  split at h
  · simp at h; omega
  · simp only [] at h
    split at h
    · simp at h
    · split at h
      · split at h
        · simp at h
        · split at h
          · simp at h
          · split at h
            · simp at h
            · split at h
              · simp at h
              · simp at h; omega
      · simp at h
      · simp at h

theorem cbRead_some {s : Bytes} {n : Int} {v r : Bytes} (h : cbRead s n = some (v, r)) :
    0 ≤ n ∧ v.length = n.toNat ∧ v.length + r.length = s.length := by
  unfold cbRead at h
  split at h
  · simp at h
  · simp at h
    obtain ⟨h1, h2⟩ := h
    subst h1 h2
    simp
    omega

theorem cbReadASN1_no_panic (s : Bytes) (skip : Bool) : cbReadASN1 s skip ≠ .panic := by
  by_cases hlen : s.length < 2
  · simp [cbReadASN1, hlen]
  · obtain ⟨t, ht⟩ := idx_of_lt (bs := s) (i := 0) (by omega)
    obtain ⟨lb, hlb⟩ := idx_of_lt (bs := s) (i := 1) (by omega)
    simp only [cbReadASN1, hlen, if_false, ht, hlb]
    by_cases htag : t &&& 0x1f = 0x1f
    · simp [htag]
    · simp only [htag, if_false]
      cases hh : cbHeader s lb with
      | panic => exact absurd hh (cbHeader_no_panic _ _)
      | err => simp
      | ok v =>
        obtain ⟨length, hl⟩ := v
        simp only []
        cases hr : cbRead s length with
        | none => simp
        | some w =>
          obtain ⟨out, rest⟩ := w
          simp only []
          cases skip with
          | false => simp
          | true =>
            simp only [if_true]
            cases hn : cbRead out hl with
            | some w2 => simp
            | none =>
              exfalso
              have h1 := cbHeader_le _ _ _ _ hh
              have h2 := cbRead_some hr
              unfold cbRead at hn
              simp at hn
              omega

/-- what is handed out plus what remains is exactly the input (nothing is read twice or invented) -/
theorem cbReadASN1_consumed (s : Bytes) (skip : Bool) (tag : UInt8) (out rest : Bytes)
    (h : cbReadASN1 s skip = .ok (tag, out, rest)) : out.length + rest.length ≤ s.length ∧ rest.length + 2 ≤ s.length := by
  by_cases hlen : s.length < 2
  · simp [cbReadASN1, hlen] at h
  · obtain ⟨t, ht⟩ := idx_of_lt (bs := s) (i := 0) (by omega)
    obtain ⟨lb, hlb⟩ := idx_of_lt (bs := s) (i := 1) (by omega)
    simp only [cbReadASN1, hlen, if_false, ht, hlb] at h
    by_cases htag : t &&& 0x1f = 0x1f
    · simp [htag] at h
    · simp only [htag, if_false] at h
      cases hh : cbHeader s lb with
      | panic => simp [hh] at h
      | err => simp [hh] at h
      | ok v =>
        obtain ⟨length, hl⟩ := v
        simp only [hh] at h
        have hl2 := cbHeader_ge2 _ _ _ _ hh
        cases hr : cbRead s length with
        | none => simp [hr] at h
        | some w =>
          obtain ⟨o1, r1⟩ := w
          simp only [hr] at h
          have h2 := cbRead_some hr
          cases skip with
          | false =>
            simp at h
            obtain ⟨_, h3, h4⟩ := h
            subst h3 h4
            omega
          | true =>
            simp only [if_true] at h
            cases hn : cbRead o1 hl with
            | none => simp [hn] at h
            | some w2 =>
              obtain ⟨hd, body⟩ := w2
              simp [hn] at h
              obtain ⟨_, h3, h4⟩ := h
              subst h3 h4
              have h5 := cbRead_some hn
              omega



/-! SST -/
theorem sstLoop_no_panic (rd : Bytes) (acc : SstOut) : sstLoop rd acc ≠ .panic := by
  fun_induction sstLoop rd acc <;> simp_all

/-- allocation accounting of the entry loop: every certificate entry allocates 2·len for a length
    that is present in the reader, so the total stays below twice what was consumed. -/
theorem sstLoop_alloc (rd : Bytes) (acc o : SstOut) (h : sstLoop rd acc = .ok o) :
    o.alloc ≤ acc.alloc + 2 * rd.length := by
  fun_induction sstLoop rd acc
  · simp_all
  · simp_all
  · simp_all
  · rename_i rd acc h0 r2 r3 h32 hf hlen ih
    have := ih h
    have h1 := rdU32_fst_ne_zero rd h0
    have h2 := rdU32_snd_len (rdU32 rd).2
    have h3 := rdU32_snd_len r2.2
    simp only [List.length_drop] at this
    have e2 : r2 = rdU32 (rdU32 rd).2 := rfl
    have e3 : r3 = rdU32 r2.2 := rfl
    rw [← e3] at h3
    rw [← e2] at h2
    omega
  · rename_i rd acc h0 r2 r3 h32 ih
    have := ih h
    have h1 := rdU32_fst_ne_zero rd h0
    have h2 := rdU32_snd_len (rdU32 rd).2
    have h3 := rdU32_snd_len r2.2
    simp only [List.length_drop] at this
    have e2 : r2 = rdU32 (rdU32 rd).2 := rfl
    have e3 : r3 = rdU32 r2.2 := rfl
    rw [← e3] at h3
    rw [← e2] at h2
    omega

theorem sstPost_no_panic (f : Bytes → Bool) (cs : List Bytes) (n : Nat) : sstPost f cs n ≠ .panic := by
  induction cs generalizing n with
  | nil => simp [sstPost]
  | cons c cs ih => simp only [sstPost]; split; exact ih _; simp


theorem sstParse_no_panic (f : Bytes → Bool) (bs : Bytes) : sstParse f bs ≠ .panic := by
  unfold sstParse
  simp only []
  split
  · simp
  · split
    · split
      · simp
      · simp
      · rename_i h; exact absurd h (sstPost_no_panic _ _ _)
    · simp
    · rename_i h; exact absurd h (sstLoop_no_panic _ _)

theorem sstParse_alloc (f : Bytes → Bool) (bs : Bytes) (n a : Nat) (h : sstParse f bs = .ok (n, a)) :
    a ≤ 2 * bs.length := by
  unfold sstParse at h
  simp only [] at h
  split at h
  · simp at h
  · split at h
    · rename_i o ho
      have h1 := sstLoop_alloc _ _ _ ho
      have h2 := rdU32_snd_len bs
      split at h
      · simp at h
        simp only [List.length_drop] at h1
        simp at h1
        omega
      · simp at h
      · simp at h
    · simp at h
    · simp at h

/-! CRLSet -/
theorem serialLoop_no_panic (k : Nat) (rest : Bytes) (n a : Nat) : serialLoop k rest n a ≠ .panic := by
  induction k generalizing rest n a with
  | zero => simp [serialLoop]
  | succ k ih =>
    cases rest with
    | nil => simp [serialLoop]
    | cons l r => simp only [serialLoop]; split; simp; exact ih _ _ _

/-- allocation of the serial loop is at most 64 bytes per input byte it consumes -/
theorem serialLoop_alloc (k : Nat) (rest : Bytes) (n a n' : Nat) (r' : Bytes) (a' : Nat)
    (h : serialLoop k rest n a = .ok (n', r', a')) : a' + 64 * r'.length ≤ a + 64 * rest.length := by
  induction k generalizing rest n a with
  | zero => simp [serialLoop] at h; obtain ⟨_, h2, h3⟩ := h; subst h2 h3; omega
  | succ k ih =>
    cases rest with
    | nil => simp [serialLoop] at h
    | cons l r =>
      simp only [serialLoop] at h
      split at h
      · simp at h
      · have := ih _ _ _ h
        simp only [List.length_drop, List.length_cons] at *
        omega

theorem crlLoop_no_panic (rest : Bytes) (acc : CrlOut) : crlLoop rest acc ≠ .panic := by
  fun_induction crlLoop rest acc <;> simp_all
  rename_i hs; exact absurd hs (serialLoop_no_panic _ _ _ _)

theorem crlLoop_alloc (rest : Bytes) (acc o : CrlOut) (h : crlLoop rest acc = .ok o) :
    o.alloc ≤ acc.alloc + 64 * rest.length := by
  fun_induction crlLoop rest acc
  · simp_all
  · simp_all
  · rename_i rest acc hz h32 hash b0 b1 b2 b3 r2 hr n r3 a hs ih
    have := ih h
    have h1 := serialLoop_alloc _ _ _ _ _ _ _ hs
    have h2 : (rest.drop 32).length = r2.length + 4 := by rw [hr]; simp
    simp only [List.length_drop] at h2
    simp at this
    omega
  · simp_all
  · simp_all
  · simp_all


theorem crlsetParse_no_panic (hok : Bool) (bs : Bytes) : crlsetParse hok bs ≠ .panic := by
  by_cases hlen : bs.length < 2
  · simp [crlsetParse, hlen]
  · obtain ⟨l0, h0⟩ := idx_of_lt (bs := bs) (i := 0) (by omega)
    obtain ⟨l1, h1⟩ := idx_of_lt (bs := bs) (i := 1) (by omega)
    simp only [crlsetParse, hlen, if_false, h0, h1]
    rw [slice_ok (by omega) (Nat.le_refl _)]
    simp only []
    split
    · simp
    · rename_i hc
      rw [slice_ok (Nat.zero_le _) (by omega), slice_ok (by omega) (Nat.le_refl _)]
      simp only []
      split
      · simp
      · split
        · simp
        · simp
        · rename_i h; exact absurd h (crlLoop_no_panic _ _)

theorem crlsetParse_alloc (hok : Bool) (bs : Bytes) (k n a : Nat) (h : crlsetParse hok bs = .ok (k, n, a)) :
    a ≤ 64 * bs.length := by
  by_cases hlen : bs.length < 2
  · simp [crlsetParse, hlen] at h
  · obtain ⟨l0, h0⟩ := idx_of_lt (bs := bs) (i := 0) (by omega)
    obtain ⟨l1, h1⟩ := idx_of_lt (bs := bs) (i := 1) (by omega)
    simp only [crlsetParse, hlen, if_false, h0, h1] at h
    rw [slice_ok (by omega) (Nat.le_refl _)] at h
    simp only [] at h
    split at h
    · simp at h
    · rename_i hc
      rw [slice_ok (Nat.zero_le _) (by omega), slice_ok (by omega) (Nat.le_refl _)] at h
      simp only [] at h
      split at h
      · simp at h
      · split at h
        · rename_i o ho
          have := crlLoop_alloc _ _ _ ho
          simp at h
          simp at this
          omega
        · simp at h
        · simp at h

/-! OneCRL -/
theorem entryUnmarshal_no_panic (r : Rec) : entryUnmarshal r ≠ .panic := by
  cases r with
  | null => simp [entryUnmarshal]
  | obj s p i sn => simp only [entryUnmarshal]; split <;> (try split) <;> (try split) <;> simp

/-- what `Parse` later dereferences is there: an accepted record is either a blocked-key entry or
    carries an issuer. -/
theorem entryUnmarshal_complete (r : Rec) (e : Entry) (h : entryUnmarshal r = .ok e) :
    e = .blocked ∨ e = .serial true := by
  cases r with
  | null => simp [entryUnmarshal] at h
  | obj s p i sn =>
    simp only [entryUnmarshal] at h
    split at h
    · split at h
      · simp at h
      · split at h
        · simp at h
        · simp at h; exact Or.inl h.symm
    · split at h
      · simp at h
      · simp at h; exact Or.inr h.symm

theorem onecrlLoop_no_panic (es : List Entry) (n : Nat) (h : ∀ e ∈ es, e = .blocked ∨ e = .serial true) :
    onecrlLoop es n ≠ .panic := by
  induction es generalizing n with
  | nil => simp [onecrlLoop]
  | cons e es ih =>
    have he := h e (List.mem_cons_self)
    have ht := fun x hx => h x (List.mem_cons_of_mem _ hx)
    rcases he with he | he <;> subst he <;> simp only [onecrlLoop] <;> exact ih _ ht

theorem mapM_some_mem {α β} (f : α → Option β) (l : List α) (out : List β) (h : l.mapM f = some out) :
    ∀ b ∈ out, ∃ a ∈ l, f a = some b := by
  induction l generalizing out with
  | nil => simp at h; subst h; simp
  | cons a l ih =>
    rw [List.mapM_cons] at h
    cases hfa : f a with
    | none => simp [hfa] at h
    | some b0 =>
      cases hr : l.mapM f with
      | none => simp [hfa, hr] at h
      | some bs =>
        simp [hfa, hr] at h
        subst h
        intro b hb
        rcases List.mem_cons.mp hb with hb | hb
        · exact ⟨a, List.mem_cons_self, by rw [hb]; exact hfa⟩
        · obtain ⟨a', ha', hf⟩ := ih _ hr b hb
          exact ⟨a', List.mem_cons_of_mem _ ha', hf⟩

theorem onecrlParse_no_panic (recs : List Rec) : onecrlParse recs ≠ .panic := by
  unfold onecrlParse
  split
  · simp
  · rename_i es hes
    apply onecrlLoop_no_panic
    intro e he
    obtain ⟨r, _, hr⟩ := mapM_some_mem _ _ _ hes e he
    cases hu : entryUnmarshal r with
    | ok e' => simp [hu] at hr; subst hr; exact entryUnmarshal_complete _ _ hu
    | err => simp [hu] at hr
    | panic => simp [hu] at hr

/-! Ed25519 / RSA -/
theorem parseEdKey_ok_len (isEd : Bool) (keyLen : Nat) (k : PubKey) (h : parseEdKey isEd keyLen = .ok k) :
    (∃ l, k = .x25519 l) ∨ k = .ed 32 := by
  unfold parseEdKey at h
  cases isEd with
  | true =>
    simp at h
    split at h
    · simp at h
    · split at h
      · rename_i h32; simp at h; right; rw [← h, h32]
      · simp at h
  | false =>
    simp at h
    split at h
    · simp at h
    · simp at h; left; exact ⟨_, h.symm⟩

theorem edKeyFlow_no_panic (isEd : Bool) (keyLen sigLen : Nat) : edKeyFlow isEd keyLen sigLen ≠ .panic := by
  unfold edKeyFlow
  cases hp : parseEdKey isEd keyLen with
  | err => simp
  | panic =>
    unfold parseEdKey at hp
    cases isEd <;> simp at hp <;> (repeat' split at hp) <;> simp at hp
  | ok k =>
    rcases parseEdKey_ok_len _ _ _ hp with ⟨l, hk⟩ | hk <;> subst hk <;> simp [checkSigEd, ed25519Verify]

theorem size_of_checkPub (p : RsaPub) (h : checkPub p = true) : ∃ k, size p = .ok k := by
  unfold checkPub at h
  unfold size
  split at h
  · rename_i n e hn he; simp [hn]
  · simp at h

theorem encrypt_of_checkPub (p : RsaPub) (m : Nat) (h : checkPub p = true) : encrypt p m ≠ .panic := by
  unfold checkPub at h
  split at h
  · rename_i n e hn he
    simp at h
    unfold encrypt
    simp only [hn, he]
    split
    · simp
    · split
      · omega
      · simp
  · simp at h

theorem verify_no_panic (p : RsaPub) (sigLen sig : Nat) : verify p sigLen sig ≠ .panic := by
  unfold verify
  by_cases hc : checkPub p = true
  · obtain ⟨k, hk⟩ := size_of_checkPub p hc
    have := encrypt_of_checkPub p sig hc
    simp only [hc, hk]
    by_cases hks : k = sigLen
    · cases he : encrypt p sig <;> simp_all
    · simp [hks]
  · simp [hc]

theorem encryptPKCS1v15_no_panic (p : RsaPub) (msgLen : Nat) : encryptPKCS1v15 p msgLen ≠ .panic := by
  unfold encryptPKCS1v15
  by_cases hc : checkPub p = true
  · obtain ⟨k, hk⟩ := size_of_checkPub p hc
    simp only [hc, hk]; simp; split <;> simp
  · simp [hc]


/-- the permissive switch only ever accepts more headers: whatever the strict reader returns, the
    permissive reader returns too. -/
theorem parseLength_strict_perm (bs : Bytes) (cls tag : Nat) (comp : Bool) (off : Nat) (r : TL × Nat)
    (h : parseLength false bs cls tag comp off = .ok r) : parseLength true bs cls tag comp off = .ok r := by
  unfold parseLength at *
  split at h
  · simp at h
  · rename_i hge
    simp only [hge, if_false]
    split at h
    · rename_i b hb
      split at h
      · rename_i h80; simp only [h80, if_true]; exact h
      · rename_i h80
        simp only [h80, if_false]
        simp only [] at h ⊢
        split at h
        · simp at h
        · rename_i hnb
          simp only [hnb, if_false]
          split at h
          · rename_i len off' hl
            split at h
            · simp at h
            · simp at h ⊢; exact h
          · simp at h
          · simp at h
    · simp at h
    · simp at h

theorem parseTagAndLength_strict_perm (bs : Bytes) (off : Nat) (r : TL × Nat)
    (h : parseTagAndLength false bs off = .ok r) : parseTagAndLength true bs off = .ok r := by
  unfold parseTagAndLength at *
  split at h
  · simp at h
  · rename_i hge
    simp only [hge, if_false]
    split at h
    · rename_i b hb
      simp only [] at h ⊢
      split at h
      · rename_i h1f
        simp only [h1f, if_true]
        split at h
        · rename_i t o hp
          split at h
          · simp at h
          · rename_i hlt; simp only [hlt, if_false]; exact parseLength_strict_perm _ _ _ _ _ _ h
        · simp at h
        · simp at h
      · rename_i h1f
        simp only [h1f, if_false]
        exact parseLength_strict_perm _ _ _ _ _ _ h
    · simp at h
    · simp at h

end ZV.C01
