import ZV.Model.Wire
/-!
  Laws of the wire-format combinators (engine E1).  `Lawful c` bundles
  * `rt`        — what `ser` produced, followed by any tail, parses back to the value and leaves the tail;
  * `consumes`  — a successful parse never returns more input than it was given;
  * `parNoPanic` / `serNoPanic` — neither direction panics.
  `Codec α` is a format together with its laws; every combinator has a `Lawful` lemma, so a grammar built
  from combinators needs no proof of its own.
-/
namespace ZV.Wire

/-! ### integers -/

theorem leBytes_length (k v : Nat) : (leBytes k v).length = k := by
  induction k generalizing v with
  | zero => rfl
  | succ k ih => simp [leBytes, ih]

theorem leVal_leBytes (k v : Nat) : leVal (leBytes k v) = v % 256 ^ k := by
  induction k generalizing v with
  | zero => simp [leBytes, leVal, Nat.mod_one]
  | succ k ih =>
    have hb : (UInt8.ofNat (v % 256)).toNat = v % 256 := by
      rw [UInt8.toNat_ofNat']; omega
    simp only [leBytes, leVal, ih, hb]
    rw [Nat.pow_succ, Nat.mul_comm (256 ^ k) 256, Nat.mod_mul]

theorem leVal_lt (bs : Bytes) : leVal bs < 256 ^ bs.length := by
  induction bs with
  | nil => simp [leVal]
  | cons b rest ih =>
    simp only [leVal, List.length_cons, Nat.pow_succ]
    have := b.toNat_lt
    omega

theorem leBytes_leVal (bs : Bytes) : leBytes bs.length (leVal bs) = bs := by
  induction bs with
  | nil => rfl
  | cons b rest ih =>
    have hb := b.toNat_lt
    simp only [List.length_cons, leBytes, leVal]
    have h1 : (b.toNat + 256 * leVal rest) % 256 = b.toNat := by omega
    have h2 : (b.toNat + 256 * leVal rest) / 256 = leVal rest := by omega
    rw [h1, h2, ih]
    simp

theorem beBytes_length (k v : Nat) : (beBytes k v).length = k := by
  simp [beBytes, leBytes_length]

theorem beVal_beBytes (k v : Nat) : beVal (beBytes k v) = v % 256 ^ k := by
  simp [beVal, beBytes, leVal_leBytes]

theorem beVal_lt (bs : Bytes) : beVal bs < 256 ^ bs.length := by
  have := leVal_lt bs.reverse
  simpa [beVal] using this

theorem beBytes_beVal (bs : Bytes) : beBytes bs.length (beVal bs) = bs := by
  have := leBytes_leVal bs.reverse
  simp only [List.length_reverse] at this
  simp [beBytes, beVal, this]

/-! ### the laws -/

structure Lawful {α : Type} (c : Fmt α) : Prop where
  rt : ∀ (a : α) (bs tail : Bytes), c.ser a = .ok bs → c.par (bs ++ tail) = .ok (a, tail)
  consumes : ∀ (bs : Bytes) (a : α) (rest : Bytes), c.par bs = .ok (a, rest) → rest.length ≤ bs.length
  parNoPanic : ∀ bs, c.par bs ≠ .panic
  serNoPanic : ∀ a, c.ser a ≠ .panic

/-- a format bundled with its laws -/
structure Codec (α : Type) where
  fmt : Fmt α
  laws : Lawful fmt

/-- consequences used by every instance -/
theorem Lawful.roundtrip {α} {c : Fmt α} (h : Lawful c) (a : α) (bs : Bytes) (hs : c.ser a = .ok bs) :
    c.par bs = .ok (a, []) := by
  have := h.rt a bs [] hs
  simpa using this

/-- "serialisation either fails with an error or round-trips" -/
theorem Lawful.err_or_roundtrip {α} {c : Fmt α} (h : Lawful c) (a : α) :
    c.ser a = .err ∨ ∃ bs, c.ser a = .ok bs ∧ c.par bs = .ok (a, []) := by
  cases hs : c.ser a with
  | ok bs => exact Or.inr ⟨bs, rfl, h.roundtrip a bs hs⟩
  | err => exact Or.inl rfl
  | panic => exact absurd hs (h.serNoPanic a)

theorem lawful_uintBE (k : Nat) : Lawful (uintBE k) where
  rt a bs tail h := by
    simp only [uintBE] at h ⊢
    split at h
    · rename_i hlt
      cases h
      have hl := beBytes_length k a
      have : ¬ ((beBytes k a).length + tail.length < k) := by omega
      simp only [List.length_append, this, if_false]
      rw [List.take_left' hl, List.drop_left' hl, beVal_beBytes, Nat.mod_eq_of_lt hlt]
    · cases h
  consumes bs a rest h := by
    simp only [uintBE] at h
    split at h
    · cases h
    · cases h; simp
  parNoPanic bs := by simp only [uintBE]; split <;> simp
  serNoPanic a := by simp only [uintBE]; split <;> simp

theorem lawful_uintLE (k : Nat) : Lawful (uintLE k) where
  rt a bs tail h := by
    simp only [uintLE] at h ⊢
    split at h
    · rename_i hlt
      cases h
      have hl := leBytes_length k a
      have : ¬ ((leBytes k a).length + tail.length < k) := by omega
      simp only [List.length_append, this, if_false]
      rw [List.take_left' hl, List.drop_left' hl, leVal_leBytes, Nat.mod_eq_of_lt hlt]
    · cases h
  consumes bs a rest h := by
    simp only [uintLE] at h
    split at h
    · cases h
    · cases h; simp
  parNoPanic bs := by simp only [uintLE]; split <;> simp
  serNoPanic a := by simp only [uintLE]; split <;> simp

theorem lawful_bytesN (n : Nat) : Lawful (bytesN n) where
  rt a bs tail h := by
    simp only [bytesN] at h ⊢
    split at h
    · rename_i hl
      cases h
      have : ¬ (a.length + tail.length < n) := by omega
      simp only [List.length_append, this, if_false]
      rw [List.take_left' hl, List.drop_left' hl]
    · cases h
  consumes bs a rest h := by
    simp only [bytesN] at h
    split at h
    · cases h
    · cases h; simp
  parNoPanic bs := by simp only [bytesN]; split <;> simp
  serNoPanic a := by simp only [bytesN]; split <;> simp

theorem lawful_varBytes {len : Fmt Nat} (hl : Lawful len) : Lawful (varBytes len) where
  rt a bs tail h := by
    simp only [varBytes] at h ⊢
    cases hs : len.ser a.length with
    | ok l =>
      rw [hs] at h
      cases h
      rw [List.append_assoc, hl.rt a.length l (a ++ tail) hs]
      have : ¬ (a.length + tail.length < a.length) := by omega
      simp only [List.length_append, this, if_false]
      rw [List.take_left' rfl, List.drop_left' rfl]
    | err => rw [hs] at h; cases h
    | panic => rw [hs] at h; cases h
  consumes bs a rest h := by
    simp only [varBytes] at h
    cases hp : len.par bs with
    | ok r =>
      obtain ⟨l, rest'⟩ := r
      rw [hp] at h
      have hc := hl.consumes bs l rest' hp
      simp only at h
      split at h
      · cases h
      · cases h; simp only [List.length_drop]; omega
    | err => rw [hp] at h; cases h
    | panic => rw [hp] at h; cases h
  parNoPanic bs := by
    simp only [varBytes]
    cases hp : len.par bs with
    | ok r => obtain ⟨l, rest'⟩ := r; simp only; split <;> simp
    | err => simp
    | panic => exact absurd hp (hl.parNoPanic bs)
  serNoPanic a := by
    simp only [varBytes]
    cases hs : len.ser a.length with
    | ok l => simp
    | err => simp
    | panic => exact absurd hs (hl.serNoPanic _)

theorem lawful_opaqueBE (k : Nat) : Lawful (opaqueBE k) := lawful_varBytes (lawful_uintBE k)

theorem lawful_pair {α β} {a : Fmt α} {b : Fmt β} (ha : Lawful a) (hb : Lawful b) : Lawful (pair a b) where
  rt v bs tail h := by
    obtain ⟨v1, v2⟩ := v
    simp only [pair] at h ⊢
    cases h1 : a.ser v1 with
    | ok x =>
      rw [h1] at h
      cases h2 : b.ser v2 with
      | ok y =>
        rw [h2] at h
        cases h
        rw [List.append_assoc, ha.rt v1 x (y ++ tail) h1]
        simp only
        rw [hb.rt v2 y tail h2]
      | err => rw [h2] at h; cases h
      | panic => rw [h2] at h; cases h
    | err => rw [h1] at h; cases h
    | panic => rw [h1] at h; cases h
  consumes bs v rest h := by
    simp only [pair] at h
    cases h1 : a.par bs with
    | ok r1 =>
      obtain ⟨x, r⟩ := r1
      rw [h1] at h
      simp only at h
      cases h2 : b.par r with
      | ok r2 =>
        obtain ⟨y, r'⟩ := r2
        rw [h2] at h
        cases h
        have := ha.consumes bs x r h1
        have := hb.consumes r y rest h2
        omega
      | err => rw [h2] at h; cases h
      | panic => rw [h2] at h; cases h
    | err => rw [h1] at h; cases h
    | panic => rw [h1] at h; cases h
  parNoPanic bs := by
    simp only [pair]
    cases h1 : a.par bs with
    | ok r1 =>
      obtain ⟨x, r⟩ := r1
      simp only
      cases h2 : b.par r with
      | ok r2 => simp
      | err => simp
      | panic => exact absurd h2 (hb.parNoPanic r)
    | err => simp
    | panic => exact absurd h1 (ha.parNoPanic bs)
  serNoPanic v := by
    simp only [pair]
    cases h1 : a.ser v.1 with
    | ok x =>
      simp only
      cases h2 : b.ser v.2 with
      | ok y => simp
      | err => simp
      | panic => exact absurd h2 (hb.serNoPanic _)
    | err => simp
    | panic => exact absurd h1 (ha.serNoPanic _)

theorem lawful_iso {α β} {c : Fmt α} (f : α → β) (g : β → α) (hfg : ∀ b, f (g b) = b) (hc : Lawful c) :
    Lawful (iso f g c) where
  rt v bs tail h := by
    simp only [iso] at h ⊢
    rw [hc.rt (g v) bs tail h]
    simp [hfg]
  consumes bs v rest h := by
    simp only [iso] at h
    cases h1 : c.par bs with
    | ok r =>
      obtain ⟨x, r'⟩ := r
      rw [h1] at h
      cases h
      exact hc.consumes bs x rest h1
    | err => rw [h1] at h; cases h
    | panic => rw [h1] at h; cases h
  parNoPanic bs := by
    simp only [iso]
    cases h1 : c.par bs with
    | ok r => simp
    | err => simp
    | panic => exact absurd h1 (hc.parNoPanic bs)
  serNoPanic v := by simp only [iso]; exact hc.serNoPanic _

theorem lawful_piso {α β} {c : Fmt α} (f : α → β) (g : β → Option α) (hfg : ∀ b a, g b = some a → f a = b)
    (hc : Lawful c) : Lawful (piso f g c) where
  rt v bs tail h := by
    simp only [piso] at h ⊢
    cases hg : g v with
    | none => rw [hg] at h; cases h
    | some a =>
      rw [hg] at h
      rw [hc.rt a bs tail h]
      simp [hfg v a hg]
  consumes bs v rest h := by
    simp only [piso] at h
    cases h1 : c.par bs with
    | ok r =>
      obtain ⟨x, r'⟩ := r
      rw [h1] at h
      cases h
      exact hc.consumes bs x rest h1
    | err => rw [h1] at h; cases h
    | panic => rw [h1] at h; cases h
  parNoPanic bs := by
    simp only [piso]
    cases h1 : c.par bs with
    | ok r => simp
    | err => simp
    | panic => exact absurd h1 (hc.parNoPanic bs)
  serNoPanic v := by
    simp only [piso]
    cases g v with
    | none => simp
    | some a => exact hc.serNoPanic a

theorem lawful_guard {α} {c : Fmt α} (p : α → Bool) (hc : Lawful c) : Lawful (guard p c) where
  rt v bs tail h := by
    simp only [guard] at h ⊢
    split at h
    · rename_i hp
      rw [hc.rt v bs tail h]
      simp [hp]
    · cases h
  consumes bs v rest h := by
    simp only [guard] at h
    cases h1 : c.par bs with
    | ok r =>
      obtain ⟨x, r'⟩ := r
      rw [h1] at h
      simp only at h
      split at h
      · cases h; exact hc.consumes bs _ _ h1
      · cases h
    | err => rw [h1] at h; cases h
    | panic => rw [h1] at h; cases h
  parNoPanic bs := by
    simp only [guard]
    cases h1 : c.par bs with
    | ok r => obtain ⟨x, r'⟩ := r; simp only; split <;> simp
    | err => simp
    | panic => exact absurd h1 (hc.parNoPanic bs)
  serNoPanic v := by
    simp only [guard]
    split
    · exact hc.serNoPanic v
    · simp

theorem lawful_dep {τ β} {t : Fmt τ} (tag : β → τ) (body : τ → Fmt β) (ht : Lawful t) (hb : ∀ x, Lawful (body x)) :
    Lawful (dep t tag body) where
  rt v bs tail h := by
    simp only [dep] at h ⊢
    cases h1 : t.ser (tag v) with
    | ok x =>
      rw [h1] at h
      cases h2 : (body (tag v)).ser v with
      | ok y =>
        rw [h2] at h
        cases h
        rw [List.append_assoc, ht.rt (tag v) x (y ++ tail) h1]
        simp only
        exact (hb (tag v)).rt v y tail h2
      | err => rw [h2] at h; cases h
      | panic => rw [h2] at h; cases h
    | err => rw [h1] at h; cases h
    | panic => rw [h1] at h; cases h
  consumes bs v rest h := by
    simp only [dep] at h
    cases h1 : t.par bs with
    | ok r1 =>
      obtain ⟨x, r⟩ := r1
      rw [h1] at h
      have := ht.consumes bs x r h1
      have := (hb x).consumes r v rest h
      omega
    | err => rw [h1] at h; cases h
    | panic => rw [h1] at h; cases h
  parNoPanic bs := by
    simp only [dep]
    cases h1 : t.par bs with
    | ok r1 => obtain ⟨x, r⟩ := r1; exact (hb x).parNoPanic r
    | err => simp
    | panic => exact absurd h1 (ht.parNoPanic bs)
  serNoPanic v := by
    simp only [dep]
    cases h1 : t.ser (tag v) with
    | ok x =>
      simp only
      cases h2 : (body (tag v)).ser v with
      | ok y => simp
      | err => simp
      | panic => exact absurd h2 ((hb _).serNoPanic _)
    | err => simp
    | panic => exact absurd h1 (ht.serNoPanic _)

theorem parN_serAll {α} {c : Fmt α} (hc : Lawful c) (l : List α) (bs tail : Bytes) (h : serAll c l = .ok bs) :
    parN c l.length (bs ++ tail) = .ok (l, tail) := by
  induction l generalizing bs with
  | nil => simp only [serAll] at h; cases h; simp [parN]
  | cons x xs ih =>
    simp only [serAll] at h
    cases h1 : c.ser x with
    | ok a =>
      rw [h1] at h
      cases h2 : serAll c xs with
      | ok b =>
        rw [h2] at h
        cases h
        simp only [List.length_cons, parN]
        rw [List.append_assoc, hc.rt x a (b ++ tail) h1]
        simp only
        rw [ih b h2]
      | err => rw [h2] at h; cases h
      | panic => rw [h2] at h; cases h
    | err => rw [h1] at h; cases h
    | panic => rw [h1] at h; cases h

theorem parN_consumes {α} {c : Fmt α} (hc : Lawful c) (n : Nat) (bs : Bytes) (l : List α) (rest : Bytes)
    (h : parN c n bs = .ok (l, rest)) : rest.length ≤ bs.length ∧ l.length = n := by
  induction n generalizing bs l with
  | zero => simp only [parN] at h; cases h; simp
  | succ n ih =>
    simp only [parN] at h
    cases h1 : c.par bs with
    | ok r =>
      obtain ⟨x, r1⟩ := r
      rw [h1] at h
      simp only at h
      cases h2 : parN c n r1 with
      | ok r2 =>
        obtain ⟨xs, r2'⟩ := r2
        rw [h2] at h
        cases h
        have := hc.consumes bs x r1 h1
        have := ih r1 xs h2
        simp only [List.length_cons]
        omega
      | err => rw [h2] at h; cases h
      | panic => rw [h2] at h; cases h
    | err => rw [h1] at h; cases h
    | panic => rw [h1] at h; cases h

theorem parN_noPanic {α} {c : Fmt α} (hc : Lawful c) (n : Nat) (bs : Bytes) : parN c n bs ≠ .panic := by
  induction n generalizing bs with
  | zero => simp [parN]
  | succ n ih =>
    simp only [parN]
    cases h1 : c.par bs with
    | ok r =>
      obtain ⟨x, r1⟩ := r
      simp only
      have := ih r1
      cases h2 : parN c n r1 <;> simp_all
    | err => simp
    | panic => exact absurd h1 (hc.parNoPanic bs)

theorem serAll_noPanic {α} {c : Fmt α} (hc : Lawful c) (l : List α) : serAll c l ≠ .panic := by
  induction l with
  | nil => simp [serAll]
  | cons x xs ih =>
    simp only [serAll]
    cases h1 : c.ser x with
    | ok a => simp only; cases h2 : serAll c xs <;> simp_all
    | err => simp
    | panic => exact absurd h1 (hc.serNoPanic x)

theorem lawful_countList {α} {cnt : Fmt Nat} {c : Fmt α} (hn : Lawful cnt) (hc : Lawful c) : Lawful (countList cnt c) where
  rt l bs tail h := by
    simp only [countList] at h ⊢
    cases h1 : cnt.ser l.length with
    | ok a =>
      rw [h1] at h
      cases h2 : serAll c l with
      | ok b =>
        rw [h2] at h
        cases h
        rw [List.append_assoc, hn.rt l.length a (b ++ tail) h1]
        exact parN_serAll hc l b tail h2
      | err => rw [h2] at h; cases h
      | panic => rw [h2] at h; cases h
    | err => rw [h1] at h; cases h
    | panic => rw [h1] at h; cases h
  consumes bs l rest h := by
    simp only [countList] at h
    cases h1 : cnt.par bs with
    | ok r =>
      obtain ⟨n, r1⟩ := r
      rw [h1] at h
      have := hn.consumes bs n r1 h1
      have := (parN_consumes hc n r1 l rest h).1
      omega
    | err => rw [h1] at h; cases h
    | panic => rw [h1] at h; cases h
  parNoPanic bs := by
    simp only [countList]
    cases h1 : cnt.par bs with
    | ok r => obtain ⟨n, r1⟩ := r; exact parN_noPanic hc n r1
    | err => simp
    | panic => exact absurd h1 (hn.parNoPanic bs)
  serNoPanic l := by
    simp only [countList]
    cases h1 : cnt.ser l.length with
    | ok a =>
      simp only
      have := serAll_noPanic hc l
      cases h2 : serAll c l <;> simp_all
    | err => simp
    | panic => exact absurd h1 (hn.serNoPanic _)

theorem lawful_fail {α} : Lawful (fail : Fmt α) where
  rt _ _ _ h := by simp [fail] at h
  consumes _ _ _ h := by simp [fail] at h
  parNoPanic _ := by simp [fail]
  serNoPanic _ := by simp [fail]

/-! ### length formulas -/

theorem uintBE_ser_length {k v : Nat} {bs : Bytes} (h : (uintBE k).ser v = .ok bs) : bs.length = k := by
  simp only [uintBE] at h
  split at h
  · cases h; exact beBytes_length k v
  · cases h

theorem opaqueBE_ser_length {k : Nat} {v bs : Bytes} (h : (opaqueBE k).ser v = .ok bs) : bs.length = k + v.length := by
  simp only [opaqueBE, varBytes] at h
  cases hs : (uintBE k).ser v.length with
  | ok l => rw [hs] at h; cases h; simp [uintBE_ser_length hs]
  | err => rw [hs] at h; cases h
  | panic => rw [hs] at h; cases h

theorem opaqueBE_ser_ok_iff (k : Nat) (v : Bytes) :
    (∃ bs, (opaqueBE k).ser v = .ok bs) ↔ v.length < 256 ^ k := by
  simp only [opaqueBE, varBytes, uintBE]
  by_cases h : v.length < 256 ^ k <;> simp [h]

end ZV.Wire
