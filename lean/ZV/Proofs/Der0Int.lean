import ZV.Proofs.Der0
/-! INTEGER: minimal two's complement. `check bs → encode (value bs) = bs`. -/
open ZV ZV.Der0
namespace ZV.Der0

theorem checkInteger_ne_nil {bs : Bytes} (h : checkInteger bs = true) : bs ≠ [] := by
  intro h0; subst h0; simp [checkInteger] at h

theorem checkInteger_init {init : Bytes} {b : UInt8} (hne : init ≠ [])
    (h : checkInteger (init ++ [b]) = true) : checkInteger init = true := by
  match init, hne with
  | [a], _ => simp [checkInteger]
  | a :: c :: t, _ => simpa [checkInteger] using h

theorem twos_single (b : UInt8) :
    twos [b] = if b.toNat ≥ 128 then (b.toNat : Int) - 256 else b.toNat := by
  simp [twos, natOfBytes, natOfBytesAux]

theorem twos_snoc {init : Bytes} (b : UInt8) (hne : init ≠ []) :
    twos (init ++ [b]) = twos init * 256 + b.toNat := by
  match init, hne with
  | a :: t, _ =>
    simp only [twos, List.cons_append]
    have e : (a :: (t ++ [b])) = (a :: t) ++ [b] := rfl
    rw [e, natOfBytes_snoc]
    simp only [List.length_append, List.length_cons, List.length_singleton, List.length_nil, Nat.pow_succ]
    split <;> push_cast <;> ring

theorem twos_range_single (b : UInt8) : -128 ≤ twos [b] ∧ twos [b] ≤ 127 := by
  rw [twos_single]; have := toNat_lt b; split <;> omega

/-- a minimally encoded integer of ≥ 2 octets does not fit one octet -/
theorem twos_out_of_range {bs : Bytes} (h : checkInteger bs = true) (hl : 2 ≤ bs.length) :
    twos bs > 127 ∨ twos bs < -128 := by
  induction bs using List.reverseRecOn with
  | nil => simp at hl
  | append_singleton init l ih =>
    have hne : init ≠ [] := by intro h0; subst h0; simp at hl
    rw [twos_snoc l hne]
    have hl' := toNat_lt l
    by_cases h2 : 2 ≤ init.length
    · have := ih (checkInteger_init hne h) h2
      omega
    · -- init = [a]
      match init, hne with
      | [a], _ =>
        rw [twos_single]
        have ha := toNat_lt a
        simp only [List.cons_append, List.nil_append, checkInteger] at h
        have h0 : (a == 0) = true ↔ a.toNat = 0 := by simp [← UInt8.toNat_inj]
        have hf : (a == 0xff) = true ↔ a.toNat = 255 := by simp [← UInt8.toNat_inj]
        split at h
        · simp at h
        · rename_i hc
          simp only [Bool.or_eq_true, Bool.and_eq_true, decide_eq_true_eq, h0, hf, not_or, not_and] at hc
          split <;> omega
      | a :: c :: t, _ => simp at h2

theorem intLen_small {v : Int} (h1 : -128 ≤ v) (h2 : v ≤ 127) : intLen v = 1 := by
  rw [intLen]; simp; omega

theorem intLen_big {v : Int} (h : v > 127 ∨ v < -128) : intLen v = intLen (v / 256) + 1 := by
  rw [intLen]; simp [h]

theorem byteOfInt_mul_add (t : Int) (b : UInt8) : byteOfInt (t * 256 + b.toNat) = b := by
  unfold byteOfInt
  have := toNat_lt b
  have : ((t * 256 + (b.toNat : Int)) % 256).toNat = b.toNat := by omega
  rw [this, UInt8.ofNat_toNat]

theorem intBytes_snoc (v : Int) (n : Nat) :
    intBytes v (n + 1) = intBytes (v / 256) n ++ [byteOfInt v] := by
  induction n with
  | zero => simp [intBytes]
  | succ n ih =>
    rw [intBytes, ih]
    simp only [intBytes, List.cons_append]
    congr 2
    rw [Int.ediv_ediv_of_nonneg (by decide)]
    congr 1
    push_cast; ring

/-- core canonicity lemma for INTEGER contents -/
theorem int_canon {bs : Bytes} (h : checkInteger bs = true) :
    intLen (twos bs) = bs.length ∧ intBytes (twos bs) bs.length = bs := by
  induction bs using List.reverseRecOn with
  | nil => simp [checkInteger] at h
  | append_singleton init l ih =>
    by_cases hne : init = []
    · subst hne
      have := twos_range_single l
      have hl := toNat_lt l
      refine ⟨by simpa using intLen_small this.1 this.2, ?_⟩
      simp only [List.nil_append, List.length_singleton, intBytes]
      rw [twos_single]
      congr 1
      unfold byteOfInt
      apply ofNat_eq_of
      split <;> omega
    · have hi := checkInteger_init hne h
      obtain ⟨ih1, ih2⟩ := ih hi
      have hlen : 2 ≤ (init ++ [l]).length := by
        cases init with
        | nil => exact absurd rfl hne
        | cons a t => simp
      have hout := twos_out_of_range h hlen
      have hl := toNat_lt l
      have hdiv : twos (init ++ [l]) / 256 = twos init := by rw [twos_snoc l hne]; omega
      refine ⟨?_, ?_⟩
      · rw [intLen_big hout, hdiv, ih1]; simp
      · rw [List.length_append, List.length_singleton, intBytes_snoc, hdiv, ih2, twos_snoc l hne,
          byteOfInt_mul_add]

end ZV.Der0

namespace ZV.Der0

/-! ### big integers -/
theorem notB_toNat (b : UInt8) : (notB b).toNat = 255 - b.toNat := by
  unfold notB; have := toNat_lt b; rw [toNat_ofNat_lt (by omega)]

theorem notB_notB (b : UInt8) : notB (notB b) = b := by
  apply eq_of_toNat; rw [notB_toNat, notB_toNat]; have := toNat_lt b; omega

theorem map_notB_notB (bs : Bytes) : (bs.map notB).map notB = bs := by
  induction bs with
  | nil => rfl
  | cons a t ih => simp [notB_notB, ih]

theorem natOfBytes_map_notB (bs : Bytes) :
    natOfBytes (bs.map notB) + natOfBytes bs + 1 = 256 ^ bs.length := by
  induction bs with
  | nil => simp [natOfBytes_nil]
  | cons a t ih =>
    simp only [List.map_cons, natOfBytes_cons, List.length_map, List.length_cons, notB_toNat, Nat.pow_succ]
    have ha := toNat_lt a
    have e : (255 - a.toNat) * 256 ^ t.length + a.toNat * 256 ^ t.length = 255 * 256 ^ t.length := by
      rw [← Nat.add_mul]; congr 1; omega
    omega

theorem bigOfBytes_eq_twos (bs : Bytes) : bigOfBytes bs = twos bs := by
  cases bs with
  | nil => rfl
  | cons a t =>
    simp only [bigOfBytes, twos]
    split
    · have := natOfBytes_map_notB (a :: t)
      omega
    · rfl

theorem natOfBytes_eq_zero_head {a : UInt8} {t : Bytes} (h : natOfBytes (a :: t) = 0) : a = 0 := by
  by_contra hne
  have := natOfBytes_pos (bs := t) hne
  omega

theorem uint8_eq_zero_iff (a : UInt8) : a = 0 ↔ a.toNat = 0 := by simp [← UInt8.toNat_inj]
theorem uint8_eq_ff_iff (a : UInt8) : a = 0xff ↔ a.toNat = 255 := by simp [← UInt8.toNat_inj]

/-- what `checkInteger` says about the first two octets -/
theorem checkInteger_cons2 {a c : UInt8} {t : Bytes} (h : checkInteger (a :: c :: t) = true) :
    (a.toNat = 0 → 128 ≤ c.toNat) ∧ (a.toNat = 255 → c.toNat < 128) := by
  simp only [checkInteger] at h
  split at h
  · simp at h
  · rename_i hc
    have h0 : (a == 0) = true ↔ a.toNat = 0 := by simp [← UInt8.toNat_inj]
    have hf : (a == 0xff) = true ↔ a.toNat = 255 := by simp [← UInt8.toNat_inj]
    simp only [Bool.or_eq_true, Bool.and_eq_true, decide_eq_true_eq, h0, hf, not_or, not_and] at hc
    omega

theorem bigIntBytes_canon {bs : Bytes} (h : checkInteger bs = true) : bigIntBytes (twos bs) = bs := by
  match bs, h with
  | [a], _ =>
    have ha := toNat_lt a
    rw [twos_single]
    by_cases hneg : a.toNat ≥ 128
    · simp only [hneg, if_true]
      unfold bigIntBytes
      have hlt : (a.toNat : Int) - 256 < 0 := by omega
      simp only [hlt, if_true]
      have e : (-((a.toNat : Int) - 256) - 1).toNat = 255 - a.toNat := by omega
      rw [e]
      by_cases hff : a.toNat = 255
      · have : a = 0xff := (uint8_eq_ff_iff a).2 hff
        subst this; simp [natToBytes_zero]
      · have hnz : 255 - a.toNat ≠ 0 := by omega
        rw [natToBytes_step hnz]
        have e1 : (255 - a.toNat) / 256 = 0 := by omega
        have e2 : (255 - a.toNat) % 256 = 255 - a.toNat := by omega
        rw [e1, e2, natToBytes_zero]
        simp only [List.nil_append, List.map_cons, List.map_nil]
        have e3 : notB (UInt8.ofNat (255 - a.toNat)) = a := by
          apply eq_of_toNat; rw [notB_toNat, toNat_ofNat_lt (by omega)]; omega
        rw [e3]; simp; omega
    · simp only [hneg, if_false]
      unfold bigIntBytes
      have hnl : ¬ ((a.toNat : Int) < 0) := by omega
      simp only [hnl, if_false]
      by_cases hz : a.toNat = 0
      · have : a = 0 := (uint8_eq_zero_iff a).2 hz
        subst this; simp
      · have : ¬ ((a.toNat : Int) = 0) := by omega
        simp only [this, if_false, Int.toNat_natCast]
        rw [natToBytes_step hz]
        have e1 : a.toNat / 256 = 0 := by omega
        have e2 : a.toNat % 256 = a.toNat := by omega
        rw [e1, e2, natToBytes_zero, UInt8.ofNat_toNat]
        simp; omega
  | a :: c :: t, h =>
    have ha := toNat_lt a
    have hc := toNat_lt c
    obtain ⟨hz, hf⟩ := checkInteger_cons2 h
    by_cases hneg : a.toNat ≥ 128
    · -- negative
      have hv : twos (a :: c :: t) = -((natOfBytes ((a :: c :: t).map notB) : Int) + 1) := by
        rw [← bigOfBytes_eq_twos]; simp [bigOfBytes, hneg]
      rw [hv]
      unfold bigIntBytes
      have hlt : -((natOfBytes ((a :: c :: t).map notB) : Int) + 1) < 0 := by omega
      simp only [hlt, if_true]
      have e : (- -((natOfBytes ((a :: c :: t).map notB) : Int) + 1) - 1).toNat
          = natOfBytes ((a :: c :: t).map notB) := by omega
      rw [e]
      by_cases hff : a.toNat = 255
      · have h1 : notB a = 0 := by apply eq_of_toNat; rw [notB_toNat]; simp; omega
        have h2 : notB c ≠ 0 := by
          intro h0; have := congrArg UInt8.toNat h0; rw [notB_toNat] at this; simp at this
          have := hf hff; omega
        simp only [List.map_cons, h1, natOfBytes_zero_cons]
        rw [← List.map_cons, natToBytes_natOfBytes _ (by simpa [headNZ] using h2), map_notB_notB]
        have := hf hff
        have : a = 0xff := (uint8_eq_ff_iff a).2 hff
        subst this
        simp; omega
      · have h1 : notB a ≠ 0 := by
          intro h0; have := congrArg UInt8.toNat h0; rw [notB_toNat] at this; simp at this; omega
        rw [natToBytes_natOfBytes _ (by simpa [headNZ] using h1), map_notB_notB]
        simp; omega
    · -- non-negative
      have hv : twos (a :: c :: t) = (natOfBytes (a :: c :: t) : Int) := by simp [twos, hneg]
      rw [hv]
      unfold bigIntBytes
      have hnl : ¬ ((natOfBytes (a :: c :: t) : Int) < 0) := by omega
      simp only [hnl, if_false, Int.toNat_natCast]
      by_cases hz0 : a.toNat = 0
      · have a0 : a = 0 := (uint8_eq_zero_iff a).2 hz0
        have hc0 : c ≠ 0 := by
          intro h0; have := hz hz0; rw [h0] at this; simp at this
        subst a0
        have hpos := natOfBytes_pos (bs := t) hc0
        rw [natOfBytes_zero_cons]
        have : ¬ ((natOfBytes (c :: t) : Int) = 0) := by omega
        simp only [this, if_false]
        rw [natToBytes_natOfBytes _ (by simpa [headNZ] using hc0)]
        have := hz hz0
        simp; omega
      · have a0 : a ≠ 0 := fun h0 => hz0 ((uint8_eq_zero_iff a).1 h0)
        have hpos := natOfBytes_pos (bs := c :: t) a0
        have : ¬ ((natOfBytes (a :: c :: t) : Int) = 0) := by omega
        simp only [this, if_false]
        rw [natToBytes_natOfBytes _ (by simpa [headNZ] using a0)]
        simp; omega

end ZV.Der0
