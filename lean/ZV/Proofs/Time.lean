import ZV.Model.Time
/-!
  Shared lemmas about `ZV.Model.Time`: the calendar (days ↔ civil date, Unix seconds ↔ broken-down time).
  Digit fields, `time.Parse` / `Format` lemmas are in `ZV/Proofs/TimeFmt.lean`.
-/
namespace ZV.Time

/-! ## year of era -/

theorem yoeDoy_spec (C Q A doy : Int) (hC0 : 0 ≤ C) (hC : C ≤ 3) (hQ0 : 0 ≤ Q) (hQ : Q ≤ 24)
    (hA0 : 0 ≤ A) (hA : A ≤ 3) (hd0 : 0 ≤ doy) (hd1 : doy ≤ 365)
    (hl : doy ≤ 364 ∨ (A = 3 ∧ (Q ≠ 24 ∨ C = 3))) :
    yoeDoy (36524 * C + 1461 * Q + 365 * A + doy) = (100 * C + 4 * Q + A, doy) := by
  unfold yoeDoy
  extract_lets c0 c d1 q d2 a0 a
  have h1 : c = C := by
    simp only [c, c0]; split <;> omega
  have h2 : d1 = 1461 * Q + 365 * A + doy := by simp only [d1, h1]; omega
  have h3 : q = Q := by simp only [q, h2]; omega
  have h4 : d2 = 365 * A + doy := by simp only [d2, h3, h2]; omega
  have h5 : a = A := by simp only [a, a0, h4]; split <;> omega
  rw [h1, h3, h5, h4]
  congr 1
  omega

/-- the decomposition computed by `yoeDoy` on any day of an era -/
theorem yoeDoy_decomp (doe : Int) (h0 : 0 ≤ doe) (h1 : doe ≤ 146096) :
    ∃ C Q A doy : Int, 0 ≤ C ∧ C ≤ 3 ∧ 0 ≤ Q ∧ Q ≤ 24 ∧ 0 ≤ A ∧ A ≤ 3 ∧ 0 ≤ doy ∧ doy ≤ 365 ∧
      (doy ≤ 364 ∨ (A = 3 ∧ (Q ≠ 24 ∨ C = 3))) ∧ doe = 36524 * C + 1461 * Q + 365 * A + doy := by
  have hc : ∃ C : Int, C = (if doe / 36524 = 4 then 3 else doe / 36524) := ⟨_, rfl⟩
  obtain ⟨C, hC⟩ := hc
  have hq : ∃ Q : Int, Q = (doe - 36524 * C) / 1461 := ⟨_, rfl⟩
  obtain ⟨Q, hQ⟩ := hq
  have ha : ∃ A : Int, A = (if (doe - 36524 * C - 1461 * Q) / 365 = 4 then 3 else (doe - 36524 * C - 1461 * Q) / 365) :=
    ⟨_, rfl⟩
  obtain ⟨A, hA⟩ := ha
  refine ⟨C, Q, A, doe - 36524 * C - 1461 * Q - 365 * A, ?_⟩
  have hCb : 0 ≤ C ∧ C ≤ 3 ∧ 0 ≤ doe - 36524 * C ∧ doe - 36524 * C ≤ 36524 ∧
      (doe - 36524 * C = 36524 → C = 3) := by
    split at hC <;> omega
  have hQb : 0 ≤ Q ∧ Q ≤ 24 ∧ 0 ≤ doe - 36524 * C - 1461 * Q ∧ doe - 36524 * C - 1461 * Q ≤ 1460 ∧
      (Q = 24 → doe - 36524 * C - 1461 * Q = 1460 → C = 3) := by omega
  have hAb : 0 ≤ A ∧ A ≤ 3 ∧ 0 ≤ doe - 36524 * C - 1461 * Q - 365 * A ∧
      doe - 36524 * C - 1461 * Q - 365 * A ≤ 365 ∧
      (doe - 36524 * C - 1461 * Q - 365 * A = 365 → A = 3) := by
    split at hA <;> omega
  omega

/-! ## month and day -/

theorem mp_inv (mp d' : Int) (h0 : 0 ≤ mp) (h1 : mp ≤ 11) (hd0 : 0 ≤ d')
    (hd : (mp ≤ 10 ∧ d' < (153 * (mp + 1) + 2) / 5 - (153 * mp + 2) / 5) ∨ (mp = 11 ∧ d' ≤ 28)) :
    (5 * ((153 * mp + 2) / 5 + d') + 2) / 153 = mp := by
  omega

/-- `daysIn` as arithmetic facts -/
theorem daysIn_cases (m : Nat) (y : Int) (hm1 : 1 ≤ m) (hm2 : m ≤ 12) :
    (m = 2 ∧ daysIn m y = (if y % 4 = 0 ∧ (y % 100 ≠ 0 ∨ y % 400 = 0) then 29 else 28)) ∨
    ((m = 4 ∨ m = 6 ∨ m = 9 ∨ m = 11) ∧ daysIn m y = 30) ∨
    ((m = 1 ∨ m = 3 ∨ m = 5 ∨ m = 7 ∨ m = 8 ∨ m = 10 ∨ m = 12) ∧ daysIn m y = 31) := by
  have : m = 1 ∨ m = 2 ∨ m = 3 ∨ m = 4 ∨ m = 5 ∨ m = 6 ∨ m = 7 ∨ m = 8 ∨ m = 9 ∨ m = 10 ∨ m = 11 ∨ m = 12 := by
    omega
  rcases this with h | h | h | h | h | h | h | h | h | h | h | h <;> subst h <;> simp [daysIn, isLeap]

/-! ## days ↔ civil date -/

/-- `daysFromCivil` in terms of the cycle components of the (March-based) year -/
theorem daysFromCivil_eq (y : Int) (m d : Nat) :
    daysFromCivil y m d =
      (let y' : Int := if m ≤ 2 then y - 1 else y
       let mp : Int := if m ≤ 2 then (m : Int) + 9 else (m : Int) - 3
       let yoe := y' - y' / 400 * 400
       y' / 400 * 146097 + (36524 * (yoe / 100) + 1461 * (yoe % 100 / 4) + 365 * (yoe % 4) +
         ((153 * mp + 2) / 5 + ((d : Int) - 1))) - 719468) := by
  unfold daysFromCivil
  extract_lets y' era yoe mp doy doe
  omega

/-- **civil → days → civil.**  For every year (no range restriction), month 1..12 and day of that month. -/
theorem civilFromDays_daysFromCivil (y : Int) (m d : Nat) (hm1 : 1 ≤ m) (hm2 : m ≤ 12) (hd1 : 1 ≤ d)
    (hd2 : d ≤ daysIn m y) : civilFromDays (daysFromCivil y m d) = (y, m, d) := by
  rw [daysFromCivil_eq]
  extract_lets y' mp yoe
  have hy' : y' = if m ≤ 2 then y - 1 else y := rfl
  have hmp : mp = if m ≤ 2 then (m : Int) + 9 else (m : Int) - 3 := rfl
  have hyoe : yoe = y' - y' / 400 * 400 := rfl
  clear_value y' mp yoe
  have hyb : 0 ≤ yoe ∧ yoe ≤ 399 := by omega
  have hmpb : 0 ≤ mp ∧ mp ≤ 11 := by split at hmp <;> omega
  -- the day fits its month
  have hdm : (mp ≤ 10 ∧ ((d : Int) - 1) < (153 * (mp + 1) + 2) / 5 - (153 * mp + 2) / 5) ∨
      (mp = 11 ∧ ((d : Int) - 1) ≤ 28) := by
    rcases daysIn_cases m y hm1 hm2 with ⟨h, e⟩ | ⟨h, e⟩ | ⟨h, e⟩
    · right; subst h; rw [e] at hd2; simp at hmp; split at hd2 <;> omega
    · left; rw [e] at hd2; rcases h with h | h | h | h <;> subst h <;> simp at hmp <;> omega
    · left; rw [e] at hd2
      rcases h with h | h | h | h | h | h | h <;> subst h <;> simp at hmp <;> omega
  -- the leap day is the last day of a 4-year cycle
  have hleap : (153 * mp + 2) / 5 + ((d : Int) - 1) ≤ 364 ∨
      (yoe % 4 = 3 ∧ (yoe % 100 / 4 ≠ 24 ∨ yoe / 100 = 3)) := by
    by_cases h365 : (153 * mp + 2) / 5 + ((d : Int) - 1) ≤ 364
    · exact Or.inl h365
    · right
      have hm : m = 2 := by split at hmp <;> omega
      subst hm
      have hd29 : d = 29 := by simp at hmp; omega
      rcases daysIn_cases 2 y (by omega) (by omega) with ⟨_, e⟩ | ⟨h, _⟩ | ⟨h, _⟩
      · rw [e] at hd2
        split at hd2
        · rename_i hl
          simp at hy'
          omega
        · omega
      · omega
      · omega
  unfold civilFromDays
  extract_lets z' era yd mp' dd mm
  have hz' : z' = y' / 400 * 146097 + (36524 * (yoe / 100) + 1461 * (yoe % 100 / 4) + 365 * (yoe % 4) +
      ((153 * mp + 2) / 5 + ((d : Int) - 1))) := by simp only [z']; omega
  have hera : era = y' / 400 := by simp only [era, hz']; omega
  have hyd : yd = (100 * (yoe / 100) + 4 * (yoe % 100 / 4) + yoe % 4, (153 * mp + 2) / 5 + ((d : Int) - 1)) := by
    simp only [yd, hera, hz']
    rw [show y' / 400 * 146097 + (36524 * (yoe / 100) + 1461 * (yoe % 100 / 4) + 365 * (yoe % 4) +
        ((153 * mp + 2) / 5 + ((d : Int) - 1))) - y' / 400 * 146097 =
        36524 * (yoe / 100) + 1461 * (yoe % 100 / 4) + 365 * (yoe % 4) + ((153 * mp + 2) / 5 + ((d : Int) - 1)) by omega]
    exact yoeDoy_spec _ _ _ _ (by omega) (by omega) (by omega) (by omega) (by omega) (by omega) (by omega)
      (by omega) hleap
  have hmp' : mp' = mp := by
    simp only [mp', hyd]
    exact mp_inv mp ((d : Int) - 1) hmpb.1 hmpb.2 (by omega) hdm
  have hdd : dd = (d : Int) := by simp only [dd, hyd, hmp']; omega
  have hmm : mm = (m : Int) := by simp only [mm, hmp']; split at hmp <;> split <;> omega
  rw [hmm, hdd, hyd, hera]
  simp only [Int.toNat_natCast]
  congr 1
  split at hy' <;> split <;> omega

/-- what `civilFromDays` computes, with the intermediate quantities named -/
theorem civilFromDays_spec (z : Int) :
    ∃ era yoe doy mp : Int, 0 ≤ yoe ∧ yoe ≤ 399 ∧ 0 ≤ doy ∧ doy ≤ 365 ∧ 0 ≤ mp ∧ mp ≤ 11 ∧
      (doy ≤ 364 ∨ (yoe % 4 = 3 ∧ (yoe % 100 ≠ 99 ∨ yoe = 399))) ∧
      z + 719468 = era * 146097 + (yoe * 365 + yoe / 4 - yoe / 100 + doy) ∧
      (153 * mp + 2) / 5 ≤ doy ∧ (mp ≤ 10 → doy < (153 * (mp + 1) + 2) / 5) ∧
      civilFromDays z = (yoe + era * 400 + (if mp < 10 then 0 else 1),
        (if mp < 10 then mp + 3 else mp - 9).toNat, (doy - (153 * mp + 2) / 5 + 1).toNat) := by
  obtain ⟨C, Q, A, doy, hC0, hC, hQ0, hQ, hA0, hA, hd0, hd1, hl, hdoe⟩ :=
    yoeDoy_decomp (z + 719468 - (z + 719468) / 146097 * 146097) (by omega) (by omega)
  have hq4 : (100 * C + 4 * Q + A) / 4 = 25 * C + Q := by omega
  have hq100 : (100 * C + 4 * Q + A) / 100 = C := by omega
  refine ⟨(z + 719468) / 146097, 100 * C + 4 * Q + A, doy, (5 * doy + 2) / 153,
    by omega, by omega, hd0, hd1, by omega, by omega, ?_, by rw [hq4, hq100]; omega, by omega, by omega, ?_⟩
  · rcases hl with h | h
    · exact Or.inl h
    · right; omega
  · unfold civilFromDays
    extract_lets z' era yd mp' dd mm
    have hyd : yd = (100 * C + 4 * Q + A, doy) := by
      simp only [yd, era, z']
      rw [hdoe]
      exact yoeDoy_spec C Q A doy hC0 hC hQ0 hQ hA0 hA hd0 hd1 hl
    have hmp' : mp' = (5 * doy + 2) / 153 := by simp only [mp', hyd]
    have hmm : mm = if (5 * doy + 2) / 153 < 10 then (5 * doy + 2) / 153 + 3 else (5 * doy + 2) / 153 - 9 := by
      simp only [mm, hmp']
    have hdd : dd = doy - (153 * ((5 * doy + 2) / 153) + 2) / 5 + 1 := by simp only [dd, hyd, hmp']
    rw [hdd, hyd, hmm]
    congr 1
    simp only [era, z']
    split <;> split <;> omega

/-- **days → civil → days**, and the result is a date of the calendar. -/
theorem daysFromCivil_civilFromDays (z : Int) :
    daysFromCivil (civilFromDays z).1 (civilFromDays z).2.1 (civilFromDays z).2.2 = z ∧
    1 ≤ (civilFromDays z).2.1 ∧ (civilFromDays z).2.1 ≤ 12 ∧ 1 ≤ (civilFromDays z).2.2 ∧
    (civilFromDays z).2.2 ≤ daysIn (civilFromDays z).2.1 (civilFromDays z).1 := by
  obtain ⟨era, yoe, doy, mp, hy0, hy1, hd0, hd1, hm0, hm1, hl, hz, hlo, hhi, hc⟩ := civilFromDays_spec z
  rw [hc]
  simp only
  have hmp : mp = 0 ∨ mp = 1 ∨ mp = 2 ∨ mp = 3 ∨ mp = 4 ∨ mp = 5 ∨ mp = 6 ∨ mp = 7 ∨ mp = 8 ∨ mp = 9 ∨
      mp = 10 ∨ mp = 11 := by omega
  have hday : ((doy - (153 * mp + 2) / 5 + 1).toNat : Int) = doy - (153 * mp + 2) / 5 + 1 := by
    rw [Int.toNat_of_nonneg]; omega
  refine ⟨?_, ?_, ?_, ?_, ?_⟩
  · rw [daysFromCivil_eq]
    extract_lets y' mpb yoe'
    have h1 : y' = yoe + era * 400 := by
      simp only [y']
      rcases hmp with h | h | h | h | h | h | h | h | h | h | h | h <;> subst h <;> simp <;> omega
    have h2 : mpb = mp := by
      simp only [mpb]
      rcases hmp with h | h | h | h | h | h | h | h | h | h | h | h <;> subst h <;> simp
    have h3 : yoe' = yoe := by simp only [yoe', h1]; omega
    rw [h1, h2, h3, hday]
    omega
  · rcases hmp with h | h | h | h | h | h | h | h | h | h | h | h <;> subst h <;> simp
  · rcases hmp with h | h | h | h | h | h | h | h | h | h | h | h <;> subst h <;> simp
  · omega
  · rcases hmp with h | h | h | h | h | h | h | h | h | h | h | h <;> subst h <;>
      simp [daysIn, isLeap] <;> (try split) <;> omega

/-! ## Unix seconds ↔ broken-down time -/

theorem valid_iff (c : Civil) : c.valid = true ↔
    (1 ≤ c.month ∧ c.month ≤ 12 ∧ 1 ≤ c.day ∧ c.day ≤ daysIn c.month c.year ∧ c.hour < 24 ∧ c.min < 60 ∧ c.sec < 60) := by
  simp [Civil.valid]

/-- `Date(y, m, d, h, mi, s, 0, zone).In(zone)` broken down again gives the same fields. -/
theorem ofUnix_toUnix (c : Civil) (hv : c.valid = true) : ofUnix (toUnix c) c.off = c := by
  obtain ⟨hm1, hm2, hd1, hd2, hh, hmi, hs⟩ := (valid_iff c).1 hv
  unfold ofUnix toUnix
  extract_lets l days rem ymd
  have hl : l = daysFromCivil c.year c.month c.day * 86400 + ((c.hour : Int) * 3600 + (c.min : Int) * 60 + (c.sec : Int)) := by
    simp only [l]; omega
  have hdays : days = daysFromCivil c.year c.month c.day := by simp only [days, hl]; omega
  have hrem : rem = (c.hour : Int) * 3600 + (c.min : Int) * 60 + (c.sec : Int) := by simp only [rem, hl]; omega
  have hymd : ymd = (c.year, c.month, c.day) := by
    simp only [ymd, hdays]; exact civilFromDays_daysFromCivil _ _ _ hm1 hm2 hd1 hd2
  have h1 : (rem / 3600).toNat = c.hour := by rw [hrem]; omega
  have h2 : (rem % 3600 / 60).toNat = c.min := by rw [hrem]; omega
  have h3 : (rem % 60).toNat = c.sec := by rw [hrem]; omega
  rw [h1, h2, h3, hymd]

/-- the broken-down time of any instant in any zone is normalised … -/
theorem ofUnix_valid (u o : Int) : (ofUnix u o).valid = true := by
  rw [valid_iff]
  unfold ofUnix
  extract_lets l days rem ymd
  obtain ⟨_, h1, h2, h3, h4⟩ := daysFromCivil_civilFromDays days
  refine ⟨h1, h2, h3, h4, ?_, ?_, ?_⟩ <;> simp only [rem] <;> omega

/-- … and `time.Date` of it is the instant again. -/
theorem toUnix_ofUnix (u o : Int) : toUnix (ofUnix u o) = u := by
  unfold toUnix ofUnix
  extract_lets l days rem ymd
  obtain ⟨h0, _⟩ := daysFromCivil_civilFromDays days
  simp only [ymd]
  rw [h0]
  simp only [days, rem, l]
  omega

@[simp] theorem ofUnix_off (u o : Int) : (ofUnix u o).off = o := rfl

/-- the local clock reading depends on `unix + off` only -/
theorem ofUnix_shift (u o k : Int) : ofUnix (u + k) (o - k) = { ofUnix u o with off := o - k } := by
  unfold ofUnix
  simp only [show u + k + (o - k) = u + o by omega]

end ZV.Time
