import ZV.Model.C16Rd
import ZV.Proofs.Wire
/-! the reader layer: on failure-free scripts the result depends on the concatenated bytes only -/
namespace ZV.C16
open ZV.Wire

def erase {α} : RRes α → Res α
  | .ok a => .ok a
  | .fail _ => .err

theorem readFull_ok (s : Script) (n : Nat) (acc : Bytes) (hs : noFail s = true) (hn : n ≤ (flat s).length) :
    (readFull s n acc).1 = .ok (acc ++ (flat s).take n) ∧ flat (readFull s n acc).2 = (flat s).drop n ∧
      noFail (readFull s n acc).2 = true := by
  induction s generalizing n acc with
  | nil =>
    simp [flat] at hn; subst hn
    simp [readFull, flat, noFail]
  | cons e r ih =>
    cases e with
    | fail => simp [noFail] at hs
    | data b =>
      cases n with
      | zero => simp [readFull, hs]
      | succ m =>
        simp only [readFull]
        have hr : noFail r = true := by simpa [noFail] using hs
        simp only [flat, List.length_append] at hn
        split
        · rename_i hb
          obtain ⟨h1, h2, h3⟩ := ih (m + 1 - b.length) (acc ++ b) hr (by omega)
          refine ⟨?_, ?_, h3⟩
          · rw [h1]; simp [flat, List.take_append, List.take_of_length_le hb]
          · rw [h2]; simp [flat, List.drop_append, List.drop_of_length_le hb]
        · rename_i hb
          have hb' : m + 1 ≤ b.length := by omega
          refine ⟨?_, ?_, ?_⟩
          · simp [flat, List.take_append_of_le_length hb']
          · simp [flat, List.drop_append_of_le_length hb']
          · simpa [noFail] using hr

theorem readFull_short (s : Script) (n : Nat) (acc : Bytes) (hs : noFail s = true) (hn : (flat s).length < n) :
    (readFull s n acc).1 = .fail (if (acc ++ flat s).isEmpty then .eof else .uexp) := by
  induction s generalizing n acc with
  | nil =>
    cases n with
    | zero => simp at hn
    | succ m => simp [readFull, flat]
  | cons e r ih =>
    cases e with
    | fail => simp [noFail] at hs
    | data b =>
      cases n with
      | zero => simp at hn
      | succ m =>
        have hr : noFail r = true := by simpa [noFail] using hs
        simp only [flat, List.length_append] at hn
        simp only [readFull]
        have hb : b.length ≤ m + 1 := by omega
        simp only [hb, if_true]
        rw [ih (m + 1 - b.length) (acc ++ b) hr (by omega)]
        simp [flat]

/-- readVarBytes on a bytes.Reader is the `opaque<…>` parser of the wire engine (error classes erased) -/
theorem readVarBytesB_erase (k : Nat) (bs : Bytes) (hk : 0 < k) (hk8 : k ≤ 8) :
    erase (readVarBytesB k bs) = (opaqueBE k).par bs := by
  have h1 : ¬ k > 8 := by omega
  have h2 : ¬ k = 0 := by omega
  simp only [readVarBytesB, h1, h2, if_false, opaqueBE, varBytes, uintBE]
  by_cases hl : bs.length < k
  · simp [hl, erase]
  · simp only [hl, if_false]
    by_cases hb : bs.length - k < beVal (bs.take k)
    · simp [hb, erase, List.length_drop]
    · simp [hb, erase, List.length_drop]

/-- the element loop with error classes refines the loop used by the chain decoder -/
theorem certLoopB_erase (k : Nat) (bs : Bytes) (hk : 0 < k) (hk8 : k ≤ 8) :
    erase (certLoopB k bs) = parseEntries k bs := by
  induction hn : bs.length using Nat.strongRecOn generalizing bs with
  | _ n ih =>
    have h1 : ¬ k > 8 := by omega
    have h2 : ¬ k = 0 := by omega
    rw [certLoopB, parseEntries]
    simp only [h1, h2, if_false]
    by_cases hl : bs.length < k
    · simp [hl, erase]
    · simp only [hl, if_false]
      by_cases hb : bs.length - k < beVal (bs.take k)
      · simp [hb, erase, List.length_drop]
      · simp only [List.length_drop, hb, if_false]
        have hlt : ((bs.drop k).drop (beVal (bs.take k))).length < n := by
          simp only [List.length_drop]; omega
        have := ih _ hlt _ rfl
        rw [← this]
        cases certLoopB k ((bs.drop k).drop (beVal (bs.take k))) <;> simp [erase]

end ZV.C16
