import ZV.Model.C06
import ZV.Proofs.DerLite
/-! Lemmas for C06: how the field parsers consume their input. -/
namespace ZV.C06
open ZV ZV.Der

theorem field_some {w : Want} {o : Bool} {bs : Bytes} {e : Elem} {rest : Bytes}
    (h : field w o bs = .ok (some e, rest)) : readElem bs = .ok (e, rest) := by
  unfold field at h
  split at h
  · split at h <;> simp at h
  · split at h
    · split at h
      · split at h <;> simp at h
      · split at h
        · rename_i e' r' heq
          simp at h; obtain ⟨h1, h2⟩ := h; subst h1; subst h2; exact heq
        · cases h
        · cases h
    · cases h
    · cases h

theorem field_none {w : Want} {o : Bool} {bs rest : Bytes}
    (h : field w o bs = .ok (none, rest)) : rest = bs := by
  unfold field at h
  split at h
  · split at h <;> simp at h; exact h.symm
  · split at h
    · split at h
      · split at h <;> simp at h; exact h.symm
      · split at h <;> simp at h
    · cases h
    · cases h

theorem someElem_field {w : Want} {o : Bool} {bs : Bytes} {e : Elem} {rest : Bytes}
    (h : someElem (field w o bs) = .ok (e, rest)) : readElem bs = .ok (e, rest) := by
  unfold someElem at h
  split at h
  · rename_i e' r' heq
    simp at h; obtain ⟨h1, h2⟩ := h; subst h1; subst h2; exact field_some heq
  · cases h
  · cases h
  · cases h

/-- an optional field either consumes one element or nothing -/
theorem field_opt_split {w : Want} {o : Bool} {bs : Bytes} {oe : Option Elem} {rest : Bytes}
    (h : field w o bs = .ok (oe, rest)) : ∃ pre, bs = pre ++ rest := by
  cases oe with
  | none => exact ⟨[], by simp [field_none h]⟩
  | some e => exact ⟨e.full, (readElem_split _ _ _ (field_some h)).1⟩

theorem take_sub_suffix (pre rest : Bytes) : (pre ++ rest).take ((pre ++ rest).length - rest.length) = pre := by
  simp

/-- the explicit optional field: what is reported as consumed really is the prefix that was consumed -/
theorem explicitField_split {k : Nat} {w : Want} {bs : Bytes} {r : Option (Elem × Bytes)} {rest : Bytes}
    (h : explicitField k w bs = .ok (r, rest)) :
    bs = consumed r ++ rest := by
  unfold explicitField at h
  split at h
  · simp at h; obtain ⟨h1, h2⟩ := h; subst h1; subst h2; simp [consumed]
  · split at h
    · rename_i hd after heq
      split at h
      · split at h
        · cases h
        · split at h
          · cases h
          · split at h
            · split at h
              · simp at h; obtain ⟨h1, h2⟩ := h; subst h1; subst h2; simp [consumed]
              · split at h
                · rename_i e rest' heq2
                  simp at h; obtain ⟨h1, h2⟩ := h; subst h1; subst h2
                  obtain ⟨pre, _, hp⟩ := readHdr_suffix _ _ _ heq
                  obtain ⟨hs, _, _⟩ := readElem_split _ _ _ heq2
                  subst hp
                  simp only [consumed]
                  rw [hs]
                  have : pre ++ (e.full ++ rest') = (pre ++ e.full) ++ rest' := by simp
                  rw [this, take_sub_suffix]
                · cases h
                · cases h
            · cases h
            · cases h
      · simp at h; obtain ⟨h1, h2⟩ := h; subst h1; subst h2; simp [consumed]
    · cases h
    · cases h

theorem bind_ok {α β} {r : Res α} {f : α → Res β} {b : β} :
    r.bind f = .ok b ↔ ∃ a, r = .ok a ∧ f a = .ok b := by
  cases r <;> simp [Res.bind]

theorem optBitString_split {t : Nat} {bs rest : Bytes} (h : optBitString t bs = .ok rest) :
    ∃ pre, bs = pre ++ rest := by
  unfold optBitString at h
  rw [bind_ok] at h
  obtain ⟨⟨oe, r⟩, h1, h2⟩ := h
  obtain ⟨pre, hp⟩ := field_opt_split h1
  cases oe with
  | none => simp at h2; subst h2; exact ⟨pre, hp⟩
  | some e =>
    simp only at h2
    rw [bind_ok] at h2
    obtain ⟨_, _, h3⟩ := h2
    simp at h3; subst h3; exact ⟨pre, hp⟩

/-- Layout of the TBS body: the fields before the extensions are consecutive elements. -/
theorem parseTbsPre_layout {body : Bytes} {p : TbsPre} {r8 : Bytes} (h : parseTbsPre body = .ok (p, r8)) :
    ∃ tail, body = p.verRaw ++ p.serial.full ++ p.sigalg.full ++ p.issuer.full ++ p.validity.full
              ++ p.subject.full ++ p.spki.full ++ tail ∧ (∃ u, tail = u ++ r8) := by
  unfold parseTbsPre at h
  rw [bind_ok] at h; obtain ⟨⟨ver, r0⟩, hver, h⟩ := h
  rw [bind_ok] at h; obtain ⟨v, _, h⟩ := h
  rw [bind_ok] at h; obtain ⟨⟨serial, r1⟩, hserial, h⟩ := h
  split at h
  · cases h
  · rw [bind_ok] at h; obtain ⟨⟨sigalg, r2⟩, hsigalg, h⟩ := h
    rw [bind_ok] at h; obtain ⟨⟨issuer, r3⟩, hissuer, h⟩ := h
    rw [bind_ok] at h; obtain ⟨⟨validity, r4⟩, hvalidity, h⟩ := h
    rw [bind_ok] at h; obtain ⟨⟨subject, r5⟩, hsubject, h⟩ := h
    rw [bind_ok] at h; obtain ⟨⟨spki, r6⟩, hspki, h⟩ := h
    rw [bind_ok] at h; obtain ⟨r7, hu1, h⟩ := h
    rw [bind_ok] at h; obtain ⟨r8', hu2, h⟩ := h
    simp only [Res.ok.injEq, Prod.mk.injEq] at h
    obtain ⟨hp, hr⟩ := h
    subst hp; subst hr
    have e0 := explicitField_split hver
    have e1 := (readElem_split _ _ _ (someElem_field hserial)).1
    have e2 := (readElem_split _ _ _ (someElem_field hsigalg)).1
    have e3 := (readElem_split _ _ _ (someElem_field hissuer)).1
    have e4 := (readElem_split _ _ _ (someElem_field hvalidity)).1
    have e5 := (readElem_split _ _ _ (someElem_field hsubject)).1
    have e6 := (readElem_split _ _ _ (someElem_field hspki)).1
    obtain ⟨u1, hu1⟩ := optBitString_split hu1
    obtain ⟨u2, hu2⟩ := optBitString_split hu2
    simp only at e0 e1 e2 e3 e4 e5 e6 hu1 hu2
    refine ⟨r6, ?_, ⟨u1 ++ u2, by rw [hu1, hu2]; simp⟩⟩
    simp only
    conv => lhs; rw [e0, e1, e2, e3, e4, e5, e6]
    simp

theorem extract_mid (A X B : Bytes) : (A ++ X ++ B).extract A.length (A.length + X.length) = X := by
  simp [List.extract_eq_take_drop]

theorem hlen_of_split {e : Elem} {hb : Bytes} (h : e.full = hb ++ e.body) : hlen e = hb.length := by
  simp [hlen, h]

/-- Global layout of an accepted certificate. -/
theorem parseCert_layout {bs : Bytes} {c : Cert} (h : parseCert bs = .ok c) :
    c.raw.full = bs ∧
    ∃ hb hb2 tail after,
      hb.length = hlen c.raw ∧ hb2.length = hlen c.tbsE ∧
      c.tbsE.full = hb2 ++ c.tbsE.body ∧
      c.tbsE.body = c.tbs.verRaw ++ c.tbs.serial.full ++ c.tbs.sigalg.full ++ c.tbs.issuer.full
        ++ c.tbs.validity.full ++ c.tbs.subject.full ++ c.tbs.spki.full ++ tail ∧
      bs = hb ++ c.tbsE.full ++ after := by
  unfold parseCert at h
  rw [bind_ok] at h; obtain ⟨⟨ce, rest⟩, hc, h⟩ := h
  split at h
  · cases h
  · rename_i hrest
    rw [bind_ok] at h; obtain ⟨⟨tbsE, r1⟩, htbsE, h⟩ := h
    rw [bind_ok] at h; obtain ⟨tbs, htbs, h⟩ := h
    rw [bind_ok] at h; obtain ⟨⟨sa, r2⟩, _, h⟩ := h
    rw [bind_ok] at h; obtain ⟨⟨sv, r3⟩, _, h⟩ := h
    rw [bind_ok] at h; obtain ⟨_, _, h⟩ := h
    simp only [Res.ok.injEq] at h
    subst h
    simp only at hrest htbsE htbs
    have hre : rest = [] := by simpa using hrest
    obtain ⟨c1, ⟨hb, _, c2⟩, _⟩ := readElem_split _ _ _ (someElem_field hc)
    obtain ⟨t1, ⟨hb2, _, t2⟩, _⟩ := readElem_split _ _ _ (someElem_field htbsE)
    unfold parseTbs at htbs
    rw [bind_ok] at htbs; obtain ⟨⟨p, r8⟩, hp, htbs⟩ := htbs
    rw [bind_ok] at htbs; obtain ⟨x, _, htbs⟩ := htbs
    rw [bind_ok] at htbs; obtain ⟨xs, _, htbs⟩ := htbs
    simp only [Res.ok.injEq] at htbs
    subst htbs
    obtain ⟨tail, hl, _⟩ := parseTbsPre_layout hp
    simp only
    refine ⟨by rw [c1, hre]; simp, hb, hb2, tail, r1, (hlen_of_split c2).symm, (hlen_of_split t2).symm, t2, hl, ?_⟩
    rw [c1, hre, c2, t1]; simp

end ZV.C06
