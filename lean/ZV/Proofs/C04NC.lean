import ZV.Proofs.C04Ext
import ZV.Model.C04NC
/-! Lemmas for the name-constraints round trip (`buildNC` → `parseNC`). -/
namespace ZV.C04
open ZV ZV.Der ZV.C06

theorem Base.tag_ok (b : Base) : b.tag.toNat % 32 ≠ 31 := by cases b <;> simp [Base.tag]

/-- the subtree the parser must see for a template base -/
def subOf (b : Base) : Subtree := ⟨some (elemOf b.tag b.bytes), 0, 0⟩

theorem parseSubtree_enc (b : Base) (hl : (writeTLV b.tag b.bytes).length < 2147483648) :
    parseSubtree (elemOf 0x30 (writeTLV b.tag b.bytes)) = .ok (subOf b) := by
  have h1 := writeTLV_length_ge b.tag b.bytes
  unfold parseSubtree
  simp only [elemOf_body]
  rw [field_tlv_end _ _ _ _ b.tag_ok (by omega) (by simp [Want.ok])]
  simp [Res.bind, optInt, field_nil_opt, subOf]

theorem parseSubtrees_enc (w : Want) (t : UInt8) (l : List Base) (rest : Bytes) (ht : t.toNat % 32 ≠ 31)
    (hw : ∀ n, w.ok (hdrOf t n) = true) (hne : l.isEmpty = false)
    (hlen : (writeTLV t (l.map encSubtree).flatten).length < 2147483648) :
    parseSubtrees w (encSubtrees t l ++ rest) = .ok (l.map subOf, rest) := by
  have h0 := writeTLV_length_ge t (l.map encSubtree).flatten
  have he : ∀ b ∈ l, (encSubtree b).length < 2147483648 := by
    intro b hb
    have := length_le_flatten (List.mem_map_of_mem (f := encSubtree) hb)
    omega
  unfold parseSubtrees encSubtrees
  simp only [hne, Bool.false_eq_true, if_false, tlv]
  rw [field_tlv _ _ _ _ _ ht (by omega) (hw _)]
  simp only [Res.bind, elemOf_body]
  have hre := readElems_writeTLVs (fun (_ : Base) => (0x30 : UInt8)) (fun b => writeTLV b.tag b.bytes) l (by
    intro b hb
    have h1 := he b hb
    have h2 := writeTLV_length_ge 0x30 (writeTLV b.tag b.bytes)
    simp only [encSubtree, tlv] at h1
    exact ⟨by decide, by omega⟩)
  have hmap : (l.map encSubtree) = (l.map fun b => writeTLV 0x30 (writeTLV b.tag b.bytes)) := rfl
  rw [hmap, hre]
  simp only
  rw [if_pos (by
    rw [List.all_eq_true]
    intro e he'
    obtain ⟨b, _, rfl⟩ := List.mem_map.mp he'
    simp [hdrOf])]
  rw [mapRes_map parseSubtree (fun b => elemOf 0x30 (writeTLV b.tag b.bytes)) subOf l (by
    intro b hb
    have h1 := he b hb
    have h2 := writeTLV_length_ge 0x30 (writeTLV b.tag b.bytes)
    simp only [encSubtree, tlv] at h1
    exact parseSubtree_enc b (by omega))]

theorem parseSubtrees_absent_nil (w : Want) : parseSubtrees w [] = .ok ([], []) := by
  simp [parseSubtrees, field_nil_opt, Res.bind]

theorem parseSubtrees_skip (w : Want) (t : UInt8) (body : Bytes) (ht : t.toNat % 32 ≠ 31)
    (hl : body.length < 2147483648) (hw : w.ok (hdrOf t body.length) = false) :
    parseSubtrees w (writeTLV t body) = .ok ([], writeTLV t body) := by
  have := field_skip w t body [] ht hl hw
  simp only [List.append_nil] at this
  simp [parseSubtrees, this, Res.bind]

/-! ### the switch over the decoded subtrees -/

def addBase (acc : NCOutSide) : Base → NCOutSide
  | .email d => { acc with email := acc.email ++ [(d, 0, 0)] }
  | .dns d => { acc with dns := acc.dns ++ [(d, 0, 0)] }
  | .dir d => { acc with dir := acc.dir ++ [(d, 0, 0)] }
  | .ip a m => { acc with ip := acc.ip ++ [(a, m, 0, 0)] }

/-- the per-entry domain: a directory name the RDN decoder accepts; an IP range whose address and mask both have 4 or
    both have 16 octets -/
def Base.ok (rdnOK : Bytes → Bool) : Base → Bool
  | .dir d => rdnOK d
  | .ip a m => (a.length == 4 && m.length == 4) || (a.length == 16 && m.length == 16)
  | _ => true

theorem addSubtree_sub (rdnOK : Bytes → Bool) (acc : NCOutSide) (b : Base) (h : b.ok rdnOK = true) :
    addSubtree rdnOK acc (subOf b) = .ok (addBase acc b) := by
  cases b with
  | email d => simp [addSubtree, subOf, hdrOf, Base.tag, Base.bytes, addBase]
  | dns d => simp [addSubtree, subOf, hdrOf, Base.tag, Base.bytes, addBase]
  | dir d =>
    simp only [Base.ok] at h
    simp [addSubtree, subOf, hdrOf, Base.tag, Base.bytes, addBase, h]
  | ip a m =>
    simp only [Base.ok, Bool.or_eq_true, Bool.and_eq_true, beq_iff_eq] at h
    rcases h with ⟨ha, hm⟩ | ⟨ha, hm⟩
    · have h8 : (a ++ m).length = 8 := by simp [ha, hm]
      simp [addSubtree, subOf, hdrOf, Base.tag, Base.bytes, addBase, h8, List.take_left' ha, List.drop_left' ha]
    · have h32 : (a ++ m).length = 32 := by simp [ha, hm]
      simp [addSubtree, subOf, hdrOf, Base.tag, Base.bytes, addBase, h32, List.take_left' ha, List.drop_left' ha]

theorem foldSubtrees_map (rdnOK : Bytes → Bool) : ∀ (l : List Base) (acc : NCOutSide), (∀ b ∈ l, b.ok rdnOK = true) →
    foldSubtrees rdnOK acc (l.map subOf) = .ok (l.foldl addBase acc)
  | [], acc, _ => rfl
  | b :: bs, acc, h => by
    simp only [List.map_cons, foldSubtrees, List.foldl_cons]
    rw [addSubtree_sub rdnOK acc b (h b List.mem_cons_self)]
    exact foldSubtrees_map rdnOK bs _ (fun x hx => h x (List.mem_cons_of_mem _ hx))

theorem foldl_email (l : List Bytes) (acc : NCOutSide) :
    (l.map Base.email).foldl addBase acc = { acc with email := acc.email ++ l.map (fun d => (d, 0, 0)) } := by
  induction l generalizing acc with
  | nil => simp
  | cons d ds ih => simp [ih, addBase]

theorem foldl_dns (l : List Bytes) (acc : NCOutSide) :
    (l.map Base.dns).foldl addBase acc = { acc with dns := acc.dns ++ l.map (fun d => (d, 0, 0)) } := by
  induction l generalizing acc with
  | nil => simp
  | cons d ds ih => simp [ih, addBase]

theorem foldl_dir (l : List Bytes) (acc : NCOutSide) :
    (l.map Base.dir).foldl addBase acc = { acc with dir := acc.dir ++ l.map (fun d => (d, 0, 0)) } := by
  induction l generalizing acc with
  | nil => simp
  | cons d ds ih => simp [ih, addBase]

theorem foldl_ip (l : List (Bytes × Bytes)) (acc : NCOutSide) :
    (l.map (fun p => Base.ip p.1 p.2)).foldl addBase acc = { acc with ip := acc.ip ++ l.map (fun p => (p.1, p.2, 0, 0)) } := by
  induction l generalizing acc with
  | nil => simp
  | cons d ds ih => simp [ih, addBase]

theorem foldl_bases (s : NCSide) : s.bases.foldl addBase {} = s.out := by
  simp [NCSide.bases, List.foldl_append, foldl_email, foldl_dns, foldl_dir, foldl_ip, NCSide.out]

theorem foldSubtrees_side (rdnOK : Bytes → Bool) (s : NCSide) (h : ∀ b ∈ s.bases, b.ok rdnOK = true) :
    foldSubtrees rdnOK {} (s.bases.map subOf) = .ok s.out := by
  rw [foldSubtrees_map rdnOK _ _ h, foldl_bases]

/-- both `optional,tag:n` slices, in the four present/absent combinations -/
theorem parseSubtrees_both (P X : List Base)
    (hlen : (encSubtrees 0xA0 P ++ encSubtrees 0xA1 X).length < 2147483648) :
    parseSubtrees (.ctx 0 true) (encSubtrees 0xA0 P ++ encSubtrees 0xA1 X) = .ok (P.map subOf, encSubtrees 0xA1 X) ∧
    parseSubtrees (.ctx 1 true) (encSubtrees 0xA1 X) = .ok (X.map subOf, []) := by
  have hX : parseSubtrees (.ctx 1 true) (encSubtrees 0xA1 X) = .ok (X.map subOf, []) := by
    cases hx : X.isEmpty with
    | true =>
      have : X = [] := by simpa using hx
      subst this
      simp [encSubtrees, parseSubtrees_absent_nil]
    | false =>
      have := parseSubtrees_enc (.ctx 1 true) 0xA1 X [] (by decide) (by intro n; simp [Want.ok, hdrOf]) hx (by
        simp only [encSubtrees, hx, Bool.false_eq_true, if_false, tlv, List.length_append] at hlen
        omega)
      simpa using this
  refine ⟨?_, hX⟩
  cases hp : P.isEmpty with
  | true =>
    have : P = [] := by simpa using hp
    subst this
    cases hx : X.isEmpty with
    | true =>
      have : X = [] := by simpa using hx
      subst this
      simp [encSubtrees, parseSubtrees_absent_nil]
    | false =>
      simp only [encSubtrees, hx, Bool.false_eq_true, if_false, tlv, List.isEmpty_nil, if_true, List.nil_append,
        List.map_nil] at hlen ⊢
      have h0 := writeTLV_length_ge 0xA1 (X.map encSubtree).flatten
      exact parseSubtrees_skip _ _ _ (by decide) (by omega) (by simp [Want.ok, hdrOf])
  | false =>
    exact parseSubtrees_enc (.ctx 0 true) 0xA0 P _ (by decide) (by intro n; simp [Want.ok, hdrOf]) hp (by
      simp only [encSubtrees, hp, Bool.false_eq_true, if_false, tlv, List.length_append] at hlen
      omega)

theorem parseNC_build (rdnOK : Bytes → Bool) (n : NCT)
    (hok : ∀ b ∈ n.permitted.bases ++ n.excluded.bases, b.ok rdnOK = true)
    (hlen : (buildNC n).length < 2147483648) :
    parseNC rdnOK (buildNC n) = .ok (n.permitted.out, n.excluded.out) := by
  unfold buildNC tlv at hlen ⊢
  have h0 := writeTLV_length_ge 0x30 (encSubtrees 0xA0 n.permitted.bases ++ encSubtrees 0xA1 n.excluded.bases)
  obtain ⟨hP, hX⟩ := parseSubtrees_both n.permitted.bases n.excluded.bases (by omega)
  unfold parseNC
  rw [first_tlv _ _ _ (by decide) (by omega) (by simp [Want.ok, hdrOf])]
  simp only [elemOf_body, hP, Res.bind, hX]
  rw [foldSubtrees_side rdnOK _ (fun b hb => hok b (List.mem_append_left _ hb)),
    foldSubtrees_side rdnOK _ (fun b hb => hok b (List.mem_append_right _ hb))]

end ZV.C04
