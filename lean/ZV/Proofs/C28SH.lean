import ZV.Model.C28
import ZV.Proofs.C28
import ZV.Proofs.C28Ext
/-!
  C28 — ServerHello: inversion of every arm of the extension switch `shExt` (shape of the extension data, the field it
  changes, all others unchanged) and of `parseSH` including the extension block.
-/
namespace ZV.C28

/-- the first two bytes as a big-endian number (0 if there are fewer than two) -/
def be16 : Bytes → Nat
  | a :: b :: _ => u16 a b
  | _ => 0

/-- signed_certificate_timestamp: `d` = len(2) ‖ list,  list non-empty = len(2)‖sct …, every sct non-empty -/
def SctExt (d : Bytes) (scts : List Bytes) : Prop :=
  ∃ a b sl, d = a :: b :: sl ∧ u16 a b = sl.length ∧ sl ≠ [] ∧ Framed16s sl scts ∧ ∀ s ∈ scts, s ≠ []

/-- ServerHello ALPN: `d` = len(2) ‖ len(1) ‖ proto  with exactly one, non-empty, protocol -/
def Alpn1Ext (d : Bytes) : Prop :=
  ∃ a b c p, d = a :: b :: c :: p ∧ u16 a b = p.length + 1 ∧ c.toNat = p.length ∧ p ≠ []

/-- key_share of a ServerHello (not the 2-byte HelloRetryRequest form): group(2) ‖ len(2) ‖ key_exchange -/
def KeyShareExt (d : Bytes) : Prop :=
  ∃ g1 g2 a b ke, d = g1 :: g2 :: a :: b :: ke ∧ u16 a b = ke.length

theorem shExt_ocsp {m m' : SHMsg} {d : Bytes} (h : shExt m 5 d = some m') :
    d = [] ∧ m' = { m with ocsp := true } := by
  simp only [shExt, if_true] at h
  by_cases he : d.isEmpty = true
  · rw [if_pos he] at h
    simp only [Option.some.injEq] at h
    exact ⟨List.isEmpty_iff.mp he, h.symm⟩
  · rw [if_neg he] at h; cases h

theorem shExt_tick {m m' : SHMsg} {d : Bytes} (h : shExt m 35 d = some m') :
    d = [] ∧ m' = { m with tick := true } := by
  simp only [shExt, Nat.reduceEqDiff, if_false, if_true] at h
  by_cases he : d.isEmpty = true
  · rw [if_pos he] at h
    simp only [Option.some.injEq] at h
    exact ⟨List.isEmpty_iff.mp he, h.symm⟩
  · rw [if_neg he] at h; cases h

theorem shExt_ems {m m' : SHMsg} {d : Bytes} (h : shExt m 23 d = some m') :
    d = [] ∧ m' = { m with ems := true } := by
  simp only [shExt, Nat.reduceEqDiff, if_false, if_true] at h
  by_cases he : d.isEmpty = true
  · rw [if_pos he] at h
    simp only [Option.some.injEq] at h
    exact ⟨List.isEmpty_iff.mp he, h.symm⟩
  · rw [if_neg he] at h; cases h

theorem shExt_reneg {m m' : SHMsg} {d : Bytes} (h : shExt m 0xff01 d = some m') :
    Vec8Ext d ∧ m' = { m with reneg := d.drop 1, renegSup := true } := by
  simp only [shExt, Nat.reduceEqDiff, if_false, if_true] at h
  match h1 : wholeVec8 d, h with
  | some v, h =>
    simp only [Option.some.injEq] at h
    subst h
    obtain ⟨a, rfl, hl⟩ := wholeVec8_spec h1
    exact ⟨⟨a, v, rfl, hl⟩, rfl⟩

theorem shExt_alpn {m m' : SHMsg} {d : Bytes} (h : shExt m 16 d = some m') :
    Alpn1Ext d ∧ m' = { m with alpn := d.drop 3 } := by
  simp only [shExt, Nat.reduceEqDiff, if_false, if_true] at h
  match h1 : wholeVec16 d, h with
  | some pl, h =>
    simp only at h
    by_cases he : pl.isEmpty = true
    · rw [if_pos he] at h; cases h
    rw [if_neg he] at h
    match h2 : wholeVec8 pl, h with
    | some p, h =>
      simp only at h
      by_cases hp : p.isEmpty = true
      · rw [if_pos hp] at h; cases h
      rw [if_neg hp] at h
      simp only [Option.some.injEq] at h
      subst h
      obtain ⟨a, b, rfl, hl⟩ := wholeVec16_spec h1
      obtain ⟨c, rfl, hc⟩ := wholeVec8_spec h2
      exact ⟨⟨a, b, c, p, rfl, by rw [hl]; rfl, hc, isEmpty_false_ne_nil hp⟩, rfl⟩

theorem shExt_scts {m m' : SHMsg} {d : Bytes} (h : shExt m 18 d = some m') :
    ∃ l, SctExt d l ∧ m' = { m with scts := m.scts ++ l } := by
  simp only [shExt, Nat.reduceEqDiff, if_false, if_true] at h
  match h1 : wholeVec16 d, h with
  | some sl, h =>
    simp only at h
    by_cases he : sl.isEmpty = true
    · rw [if_pos he] at h; cases h
    rw [if_neg he] at h
    match h2 : splitVec16s sl, h with
    | some lst, h =>
      simp only at h
      by_cases ha : lst.any (·.isEmpty) = true
      · rw [if_pos ha] at h; cases h
      rw [if_neg ha] at h
      simp only [Option.some.injEq] at h
      subst h
      obtain ⟨a, b, rfl, hl⟩ := wholeVec16_spec h1
      refine ⟨lst, ⟨a, b, sl, rfl, hl, isEmpty_false_ne_nil he, splitVec16s_framed sl lst h2, ?_⟩, rfl⟩
      intro s hs hnil
      apply ha
      rw [List.any_eq_true]
      exact ⟨s, hs, by rw [hnil]; rfl⟩

theorem shExt_sv {m m' : SHMsg} {d : Bytes} (h : shExt m 43 d = some m') :
    (∃ a b, d = [a, b]) ∧ m' = { m with sv := be16 d } := by
  simp only [shExt, Nat.reduceEqDiff, if_false, if_true] at h
  match h1 : readU16 d, h with
  | some (v, []), h =>
    simp only [Option.some.injEq] at h
    subst h
    obtain ⟨a, b, rfl, rfl⟩ := readU16_spec h1
    exact ⟨⟨a, b, rfl⟩, rfl⟩

theorem shExt_keyShare {m m' : SHMsg} {d : Bytes} (h : shExt m 51 d = some m') :
    (d.length = 2 ∧ m' = { m with selGroup := be16 d }) ∨
    (d.length ≠ 2 ∧ KeyShareExt d ∧ m' = { m with shareGroup := be16 d }) := by
  simp only [shExt, Nat.reduceEqDiff, if_false, if_true] at h
  by_cases hl : d.length = 2
  · rw [if_pos hl] at h
    match h1 : readU16 d, h with
    | some (g, r), h =>
      simp only [Option.some.injEq] at h
      subst h
      obtain ⟨a, b, rfl, rfl⟩ := readU16_spec h1
      exact Or.inl ⟨hl, rfl⟩
  · rw [if_neg hl] at h
    match h1 : readU16 d, h with
    | some (g, r), h =>
      simp only at h
      match h2 : wholeVec16 r, h with
      | some ke, h =>
        simp only [Option.some.injEq] at h
        subst h
        obtain ⟨g1, g2, rfl, rfl⟩ := readU16_spec h1
        obtain ⟨a, b, rfl, hk⟩ := wholeVec16_spec h2
        exact Or.inr ⟨hl, ⟨g1, g2, a, b, ke, rfl, hk⟩, rfl⟩

set_option hygiene false in
macro "sh_arm" : tactic =>
  `(tactic| (repeat' split at h
             all_goals (cases h; try rfl)))

/-- cookie (44), pre_shared_key (41), ec_point_formats (11): checked, nothing recorded -/
theorem shExt_nolog {m m' : SHMsg} {id : Nat} {d : Bytes} (hid : id = 44 ∨ id = 41 ∨ id = 11)
    (h : shExt m id d = some m') : m' = m := by
  rcases hid with rfl | rfl | rfl
  · simp only [shExt, Nat.reduceEqDiff, if_false, if_true] at h; sh_arm
  · simp only [shExt, Nat.reduceEqDiff, if_false, if_true] at h; sh_arm
  · simp only [shExt, Nat.reduceEqDiff, if_false, if_true] at h; sh_arm

/-- the identifiers with an arm of their own in `serverHelloMsg.unmarshal` -/
def shKnown : List Nat := [5, 35, 0xff01, 16, 18, 43, 44, 51, 41, 11, 23]

/-- default arm: the extension is appended VERBATIM (identifier, length, data) to the unknown list -/
theorem shExt_unknown {m m' : SHMsg} {id : Nat} {d : Bytes} (hid : id ∉ shKnown) (h : shExt m id d = some m') :
    m' = { m with unknown := m.unknown ++ [extBytes id d] } := by
  simp only [shKnown, List.mem_cons, List.not_mem_nil, or_false, not_or] at hid
  obtain ⟨h5, h35, hff, h16, h18, h43, h44, h51, h41, h11, h23⟩ := hid
  simp only [shExt, h5, h35, hff, h16, h18, h43, h44, h51, h41, h11, h23, if_false, Option.some.injEq] at h
  exact h.symm

/-- the FRAME: an extension changes no field other than its own -/
theorem shExt_frame {m m' : SHMsg} {id : Nat} {d : Bytes} (h : shExt m id d = some m') :
    (id ≠ 5 → m'.ocsp = m.ocsp) ∧ (id ≠ 35 → m'.tick = m.tick) ∧
    (id ≠ 0xff01 → m'.reneg = m.reneg ∧ m'.renegSup = m.renegSup) ∧ (id ≠ 16 → m'.alpn = m.alpn) ∧
    (id ≠ 18 → m'.scts = m.scts) ∧ (id ≠ 43 → m'.sv = m.sv) ∧
    (id ≠ 51 → m'.shareGroup = m.shareGroup ∧ m'.selGroup = m.selGroup) ∧ (id ≠ 23 → m'.ems = m.ems) ∧
    (id ∈ shKnown → m'.unknown = m.unknown) := by
  by_cases hid : id ∈ shKnown
  · have hid' := hid
    simp only [shKnown, List.mem_cons, List.not_mem_nil, or_false] at hid'
    rcases hid' with rfl | rfl | rfl | rfl | rfl | rfl | rfl | rfl | rfl | rfl | rfl
    · obtain ⟨_, e⟩ := shExt_ocsp h; rw [e]; simp
    · obtain ⟨_, e⟩ := shExt_tick h; rw [e]; simp
    · obtain ⟨_, e⟩ := shExt_reneg h; rw [e]; simp
    · obtain ⟨_, e⟩ := shExt_alpn h; rw [e]; simp
    · obtain ⟨_, _, e⟩ := shExt_scts h; rw [e]; simp
    · obtain ⟨_, e⟩ := shExt_sv h; rw [e]; simp
    · rw [shExt_nolog (Or.inl rfl) h]; simp
    · rcases shExt_keyShare h with ⟨_, e⟩ | ⟨_, _, e⟩ <;> (rw [e]; simp)
    · rw [shExt_nolog (Or.inr (Or.inl rfl)) h]; simp
    · rw [shExt_nolog (Or.inr (Or.inr rfl)) h]; simp
    · obtain ⟨_, e⟩ := shExt_ems h; rw [e]; simp
  · rw [shExt_unknown hid h]
    simp only [shKnown, List.mem_cons, List.not_mem_nil, or_false, not_or] at hid
    obtain ⟨h5, h35, hff, h16, h18, h43, h44, h51, h41, h11, h23⟩ := hid
    simp [shKnown, h5, h35, hff, h16, h18, h43, h44, h51, h41, h11, h23]

/-! ### `parseSH` including the extension block -/

theorem parseSH_inv {msg : Bytes} {f : SHFixed} {m : SHMsg} {ids : Option (List Nat)}
    (h : parseSH msg = some (f, m, ids)) :
    ∃ hdr v1 v2 sl c1 c2 cm ext,
      msg = hdr ++ (v1 :: v2 :: (f.random ++ (sl :: (f.sid ++ (c1 :: c2 :: cm :: ext))))) ∧
      hdr.length = 4 ∧ f.vers = u16 v1 v2 ∧ f.random.length = 32 ∧ sl.toNat = f.sid.length ∧
      f.suite = u16 c1 c2 ∧ f.comp = cm.toNat ∧
      ((ext = [] ∧ m = {} ∧ ids = none) ∨
       (∃ e1 e2 blk es, ext = e1 :: e2 :: blk ∧ u16 e1 e2 = blk.length ∧ FramedExts blk es ∧
          shExts {} es = some m ∧ ids = some (es.map (·.1)))) := by
  unfold parseSH at h
  match h0 : takeN 4 msg, h with
  | some (hdr, b0), ha =>
    clear h
    simp only at ha
    match h1 : readU16 b0, ha with
    | some (vers, b1), hb =>
      clear ha
      simp only at hb
      match h2 : takeN 32 b1, hb with
      | some (random, b2), hc =>
        clear hb
        simp only at hc
        match h3 : readVec8 b2, hc with
        | some (sid, b3), hd =>
          clear hc
          simp only at hd
          match h4 : readU16 b3, hd with
          | some (suite, b4), he =>
            clear hd
            simp only at he
            match h5 : readU8 b4, he with
            | some (comp, b5), h =>
              clear he
              simp only at h
              obtain ⟨rfl, hl0⟩ := takeN_spec h0
              obtain ⟨v1, v2, rfl, rfl⟩ := readU16_spec h1
              obtain ⟨rfl, hl2⟩ := takeN_spec h2
              obtain ⟨sl, rfl, hsl⟩ := readVec8_spec h3
              obtain ⟨c1, c2, rfl, rfl⟩ := readU16_spec h4
              obtain ⟨cm, rfl, rfl⟩ := readU8_spec h5
              by_cases hemp : b5.isEmpty = true
              · rw [if_pos hemp] at h
                simp only [Option.some.injEq, Prod.mk.injEq] at h
                obtain ⟨rfl, rfl, rfl⟩ := h
                exact ⟨hdr, v1, v2, sl, c1, c2, cm, b5, rfl, hl0, rfl, hl2, hsl, rfl, rfl,
                  Or.inl ⟨List.isEmpty_iff.mp hemp, rfl, rfl⟩⟩
              · rw [if_neg hemp] at h
                match h7 : wholeVec16 b5, h with
                | some blk, h =>
                  simp only at h
                  match h8 : splitExts blk, h with
                  | some es, h =>
                    simp only at h
                    match h9 : shExts {} es, h with
                    | some m', h =>
                      simp only [Option.some.injEq, Prod.mk.injEq] at h
                      obtain ⟨rfl, rfl, rfl⟩ := h
                      obtain ⟨e1, e2, rfl, hblk⟩ := wholeVec16_spec h7
                      exact ⟨hdr, v1, v2, sl, c1, c2, cm, e1 :: e2 :: blk, rfl, hl0, rfl, hl2, hsl, rfl, rfl,
                        Or.inr ⟨e1, e2, blk, es, rfl, hblk, splitExts_framed blk es h8, h9, rfl⟩⟩

theorem sctExt_unique {d : Bytes} {l l' : List Bytes} (h : SctExt d l) (h' : SctExt d l') : l = l' := by
  obtain ⟨a, b, sl, rfl, _, _, hf, _⟩ := h
  obtain ⟨a', b', sl', he, _, _, hf', _⟩ := h'
  simp only [List.cons.injEq] at he
  obtain ⟨_, _, rfl⟩ := he
  exact framed16s_unique hf hf'

/-- the wire shape of every ServerHello extension that reaches the log -/
def SHExtShape (e : Nat × Bytes) : Prop :=
  (e.1 = 5 → e.2 = []) ∧ (e.1 = 35 → e.2 = []) ∧ (e.1 = 23 → e.2 = []) ∧ (e.1 = 0xff01 → Vec8Ext e.2) ∧
  (e.1 = 16 → Alpn1Ext e.2) ∧ (e.1 = 18 → ∃ l, SctExt e.2 l) ∧ (e.1 = 43 → ∃ a b, e.2 = [a, b]) ∧
  (e.1 = 51 → e.2.length = 2 ∨ KeyShareExt e.2)

theorem shExt_shape {m m' : SHMsg} {id : Nat} {d : Bytes} (h : shExt m id d = some m') : SHExtShape (id, d) := by
  refine ⟨?_, ?_, ?_, ?_, ?_, ?_, ?_, ?_⟩ <;> intro hid <;> simp only at hid <;> subst hid
  · exact (shExt_ocsp h).1
  · exact (shExt_tick h).1
  · exact (shExt_ems h).1
  · exact (shExt_reneg h).1
  · exact (shExt_alpn h).1
  · obtain ⟨l, hs, _⟩ := shExt_scts h; exact ⟨l, hs⟩
  · exact (shExt_sv h).1
  · rcases shExt_keyShare h with ⟨hl, _⟩ | ⟨_, hk, _⟩
    · exact Or.inl hl
    · exact Or.inr hk

/-- key_share in its ServerHello form (group + key) / in its 2-byte HelloRetryRequest form (group only) -/
def isShare (e : Nat × Bytes) : Bool := e.1 == 51 && e.2.length != 2
def isSel (e : Nat × Bytes) : Bool := e.1 == 51 && e.2.length == 2

/-- the group named by the last extension satisfying `p` (0 if none) -/
def lastGroup (p : Nat × Bytes → Bool) (es : List (Nat × Bytes)) : Nat :=
  match lastExt p es with
  | some d => be16 d
  | none => 0

/-- extensions that fall into the default arm -/
def isUnknown (e : Nat × Bytes) : Bool := !(shKnown.contains e.1)

theorem shExts_shareGroup {es : List (Nat × Bytes)} {m m' : SHMsg}
    (h : foldExts (fun m id d _ => shExt m id d) m es = some m') :
    m'.shareGroup = (match lastExt isShare es with | some d => be16 d | none => m.shareGroup) := by
  refine fold_last SHMsg.shareGroup isShare be16 ?_ ?_ es m m' h
  · intro m id d l m' hp hs
    simp only [isShare, Bool.and_eq_true, beq_iff_eq, bne_iff_ne, ne_eq] at hp
    obtain ⟨rfl, hl⟩ := hp
    rcases shExt_keyShare hs with ⟨hl2, _⟩ | ⟨_, _, e⟩
    · exact absurd hl2 hl
    · rw [e]
  · intro m id d l m' hp hs
    by_cases hid : id = 51
    · subst hid
      rcases shExt_keyShare hs with ⟨_, e⟩ | ⟨hl2, _, _⟩
      · rw [e]
      · simp [isShare, hl2] at hp
    · exact ((shExt_frame hs).2.2.2.2.2.2.1 hid).1

theorem shExts_selGroup {es : List (Nat × Bytes)} {m m' : SHMsg}
    (h : foldExts (fun m id d _ => shExt m id d) m es = some m') :
    m'.selGroup = (match lastExt isSel es with | some d => be16 d | none => m.selGroup) := by
  refine fold_last SHMsg.selGroup isSel be16 ?_ ?_ es m m' h
  · intro m id d l m' hp hs
    simp only [isSel, Bool.and_eq_true, beq_iff_eq] at hp
    obtain ⟨rfl, hl⟩ := hp
    rcases shExt_keyShare hs with ⟨_, e⟩ | ⟨hl2, _, _⟩
    · rw [e]
    · exact absurd hl hl2
  · intro m id d l m' hp hs
    by_cases hid : id = 51
    · subst hid
      rcases shExt_keyShare hs with ⟨hl2, _⟩ | ⟨_, _, e⟩
      · simp [isSel, hl2] at hp
      · rw [e]
    · exact ((shExt_frame hs).2.2.2.2.2.2.1 hid).2

theorem shExts_unknown {es : List (Nat × Bytes)} {m m' : SHMsg}
    (h : foldExts (fun m id d _ => shExt m id d) m es = some m') :
    m'.unknown = m.unknown ++ (es.filter isUnknown).map (fun e => extBytes e.1 e.2) := by
  obtain ⟨xs, hrel, heq⟩ := fold_acc SHMsg.unknown isUnknown (fun e x => x = [extBytes e.1 e.2] ∧ True)
    (fun m id d l m' hp hs => by
      have hid : id ∉ shKnown := by
        simpa [isUnknown] using hp
      exact ⟨[extBytes id d], ⟨rfl, trivial⟩, by rw [shExt_unknown hid hs]⟩)
    (fun m id d l m' hp hs => by
      have hid : id ∈ shKnown := by
        simpa [isUnknown] using hp
      exact (shExt_frame hs).2.2.2.2.2.2.2.2 hid) es m m' h
  rw [heq, (ListRel.eq_map hrel).1, flatten_map_singleton]

end ZV.C28
