import ZV.Model.C05
import ZV.Proofs.C04
namespace ZV.C05
end ZV.C05
