import ZV.Model.C05
import ZV.Proofs.C04
import ZV.Proofs.C04Ext
/-! Lemmas for C05: INTEGER / ENUMERATED contents of any size, the revocation time, the entry-extension codec, the
    reason scan lifted from OID arcs to content octets, and the entry / entry-list round trips. -/
namespace ZV.C05
open ZV ZV.Der ZV.C06 ZV.C04

theorem encBigInt_eq (v : Int) :
    encBigInt v = beBytes (intLen (v.natAbs.log2 + 2) v) (twos (intLen (v.natAbs.log2 + 2) v) v) := rfl

theorem bigint_fits (v : Int) :
    -(128 * (256 : Int) ^ (v.natAbs.log2 + 2)) ≤ v ∧ v < 128 * (256 : Int) ^ (v.natAbs.log2 + 2) := by
  have h1 : v.natAbs < 2 ^ (v.natAbs.log2 + 1) := Nat.lt_log2_self
  have h2 : 2 ^ (v.natAbs.log2 + 1) ≤ 2 ^ (8 * (v.natAbs.log2 + 2)) := Nat.pow_le_pow_right (by decide) (by omega)
  have h3 : 2 ^ (8 * (v.natAbs.log2 + 2)) = 256 ^ (v.natAbs.log2 + 2) := by rw [Nat.pow_mul]
  have h4 : (256 : Int) ^ (v.natAbs.log2 + 2) = ((256 ^ (v.natAbs.log2 + 2) : Nat) : Int) := by simp
  rw [h4]
  generalize 256 ^ (v.natAbs.log2 + 2) = P at *
  omega

/-- **`parseBigInt ∘ encBigInt = id` for EVERY integer** (serial numbers, ENUMERATED reason codes, CRL numbers). -/
theorem parseBigInt_encBigInt (v : Int) : parseBigInt (encBigInt v) = .ok v := by
  obtain ⟨h1, h2⟩ := bigint_fits v
  obtain ⟨c1, c2, _⟩ := int_roundtrip (v.natAbs.log2 + 2) v h1 h2
  rw [← encBigInt_eq] at c1 c2
  simp [parseBigInt, c1, c2]

theorem encBigInt_length (v : Int) : 1 ≤ (encBigInt v).length ∧ (encBigInt v).length ≤ v.natAbs.log2 + 3 := by
  obtain ⟨h1, h2⟩ := bigint_fits v
  obtain ⟨k, hk, hkf, _⟩ := intLen_spec (v.natAbs.log2 + 2) v h1 h2
  rw [encBigInt_eq, beBytes_length, hk]; omega

/-! ### revocation time -/

/-- 14 octets, the first four ASCII digits (the year; the remaining ten are copied verbatim by both sides) -/
def validTime (t : Bytes) : Bool :=
  t.length == 14 && (t.take 4).all (fun d => decide (48 ≤ d.toNat) && decide (d.toNat ≤ 57))

theorem u8_eq (a : UInt8) (n : Nat) (hn : n < 256) (h : a.toNat = n) : a = UInt8.ofNat n := by
  apply UInt8.toNat_inj.mp
  rw [h, UInt8.toNat_ofNat']; omega

theorem timeDigits_utc (body : Bytes) (h : body.length = 13) :
    timeDigits (elemOf 0x17 body) = .ok ((if yearOf ([0x30, 0x30] ++ body.take 2) ≥ 50 then [0x31, 0x39] else [0x32, 0x30])
      ++ body.take 12) := by
  unfold timeDigits
  rw [if_pos ⟨rfl, rfl, rfl, h⟩]
  rfl

theorem timeDigits_gen (body : Bytes) (h : body.length = 15) :
    timeDigits (elemOf 0x18 body) = .ok (body.take 14) := by
  unfold timeDigits
  have hne : ¬ (hdrOf 0x18 body.length).tag = 23 := by simp [hdrOf]
  rw [if_neg (fun hp => absurd hp.2.1 hne), if_pos ⟨rfl, rfl, rfl, h⟩]
  rfl

/-- the time element the encoder writes (`encTime t = writeTLV tag body`) is read back to `t` by `timeDigits`:
    UTCTime for 1950..2049 with the century restored from the two-digit year, GeneralizedTime otherwise. -/
theorem encTime_decode (t : Bytes) (h : validTime t = true) :
    ∃ tag body, encTime t = writeTLV tag body ∧ tag.toNat % 32 ≠ 31 ∧ body.length ≤ 15 ∧
      timeDigits (elemOf tag body) = .ok t := by
  simp only [validTime, Bool.and_eq_true, beq_iff_eq] at h
  obtain ⟨hl, hd⟩ := h
  match t, hl with
  | [a0, a1, a2, a3, a4, a5, a6, a7, a8, a9, a10, a11, a12, a13], _ =>
    simp only [List.take, List.all_cons, List.all_nil, Bool.and_true, Bool.and_eq_true, decide_eq_true_eq] at hd
    obtain ⟨⟨h0a, h0b⟩, ⟨h1a, h1b⟩, ⟨h2a, h2b⟩, ⟨h3a, h3b⟩⟩ := hd
    unfold encTime
    have hy : yearOf [a0, a1, a2, a3, a4, a5, a6, a7, a8, a9, a10, a11, a12, a13]
        = (((0 * 10 + (a0.toNat - 48)) * 10 + (a1.toNat - 48)) * 10 + (a2.toNat - 48)) * 10 + (a3.toNat - 48) := by
      simp [yearOf]
    simp only [hy]
    split
    · rename_i hc
      refine ⟨0x17, _, rfl, by decide, by simp, ?_⟩
      have e0 : a0.toNat = 49 ∨ a0.toNat = 50 := by omega
      have hyy : yearOf ([0x30, 0x30] ++ List.take 2 ([a2, a3, a4, a5, a6, a7, a8, a9, a10, a11, a12, a13] ++ [0x5a]))
          = (a2.toNat - 48) * 10 + (a3.toNat - 48) := by
        simp [yearOf]
      rw [timeDigits_utc _ (by simp)]
      simp only [List.drop, hyy]
      rcases e0 with e0 | e0
      · have e1 : a1.toNat = 57 := by omega
        have : (a2.toNat - 48) * 10 + (a3.toNat - 48) ≥ 50 := by omega
        rw [if_pos this, u8_eq a0 49 (by decide) e0, u8_eq a1 57 (by decide) e1]
        rfl
      · have e1 : a1.toNat = 48 := by omega
        have : ¬ (a2.toNat - 48) * 10 + (a3.toNat - 48) ≥ 50 := by omega
        rw [if_neg this, u8_eq a0 50 (by decide) e0, u8_eq a1 48 (by decide) e1]
        rfl
    · refine ⟨0x18, _, rfl, by decide, by simp, ?_⟩
      rw [timeDigits_gen _ (by simp)]
      rfl

/-! ### entry extensions -/

/-- content octets of the extension's OID ([] when `marshalObjectIdentifier` rejects it — then `encExtension` fails) -/
def oidC (x : EExt) : Bytes := (encOID x.oid).getD []

/-- the body of the `Extension` SEQUENCE -/
def extBody (x : EExt) : Bytes :=
  writeTLV 0x06 (oidC x) ++ (if x.critical then writeTLV 0x01 [0xff] else []) ++ writeTLV 0x04 x.value

theorem encExtension_eq {x : EExt} {b : Bytes} (h : encExtension x = some b) :
    encOID x.oid = some (oidC x) ∧ b = writeTLV 0x30 (extBody x) := by
  unfold encExtension at h
  cases ho : encOID x.oid with
  | none => simp [ho] at h
  | some o =>
    simp only [ho, Option.some.injEq] at h
    exact ⟨by simp [oidC, ho], by rw [← h]; simp [extBody, oidC, ho, tlv]⟩

theorem mapM_some_map {α β} (f : α → Option β) (g : α → β) (P : α → Prop)
    (hfg : ∀ a b, f a = some b → b = g a ∧ P a) :
    ∀ (l : List α) (bs : List β), l.mapM f = some bs → bs = l.map g ∧ ∀ a ∈ l, P a := by
  intro l
  induction l with
  | nil => intro bs h; simp at h; subst h; simp
  | cons a l ih =>
    intro bs h
    rw [List.mapM_cons] at h
    cases ha : f a with
    | none => simp [ha] at h
    | some b =>
      cases hl : l.mapM f with
      | none => simp [ha, hl] at h
      | some r =>
        simp [ha, hl] at h
        subst h
        obtain ⟨e1, p1⟩ := hfg a b ha
        obtain ⟨e2, p2⟩ := ih r hl
        refine ⟨by simp [e1, e2], ?_⟩
        intro x hx
        rcases List.mem_cons.mp hx with rfl | hx
        · exact p1
        · exact p2 x hx

/-- `parseExtension` on a written extension -/
theorem parseEExt_build (x : EExt) (hv : validOID (oidC x) = true) (hl : (extBody x).length < 2147483648) :
    parseEExt (elemOf 0x30 (extBody x)) = .ok (oidC x, x.critical, x.value) := by
  have h1 := writeTLV_length_ge 0x06 (oidC x)
  have h2 := writeTLV_length_ge 0x04 x.value
  unfold extBody at hl ⊢
  simp only [List.length_append] at hl
  unfold parseEExt
  simp only [elemOf_body, List.append_assoc]
  rw [field_tlv _ _ _ _ _ (by decide) (by omega) (by simp [Want.ok, hdrOf])]
  simp only [someElem, Res.bind, elemOf_body, hv]
  cases hc : x.critical
  · simp only [Bool.false_eq_true, if_false, List.nil_append]
    have := field_skip (.univ 1 false) 0x04 x.value [] (by decide) (by omega) (by simp [Want.ok, hdrOf])
    simp only [List.append_nil] at this
    rw [this]
    simp only
    rw [field_tlv_end _ _ _ _ (by decide) (by omega) (by simp [Want.ok, hdrOf])]
    simp
  · simp only [if_true]
    rw [field_tlv _ _ _ _ _ (by decide) (by simp) (by simp [Want.ok, hdrOf])]
    simp only [elemOf_body, parseBool]
    rw [field_tlv_end _ _ _ _ (by decide) (by omega) (by simp [Want.ok, hdrOf])]
    simp

/-! ### the reason scan, lifted from OID arcs to content octets -/

/-- abstract view of the parser's reason scan: the LAST reasonCode extension wins (each one overwrites). -/
def scanReasonA : List EExt → Option Int → (EExt → Option Int) → Option Int
  | [], acc, _ => acc
  | x :: xs, acc, dec => if x.oid = reasonOID then scanReasonA xs (dec x) dec else scanReasonA xs acc dec

/-- the model's own decoder of a reasonCode extension value -/
def decM (x : EExt) : Option Int := match parseEnum x.value with | .ok n => some n | _ => none

def roB : Bytes := [0x55, 0x1d, 0x15]
theorem encOID_reason : encOID reasonOID = some roB := by decide
theorem oidOk_reason : oidOk reasonOID = true := by decide

def triple (x : EExt) : Bytes × Bool × Bytes := (oidC x, x.critical, x.value)

/-- on extensions whose OIDs encode (and, unless they are reasonCode, are in the reader's domain), the byte-level scan
    that compares content octets computes the arc-level scan with the model's ENUMERATED decoder. -/
theorem scanReason_lift : ∀ (l : List EExt) (acc : Option Int),
    (∀ x ∈ l, encOID x.oid = some (oidC x) ∧ (x.oid = reasonOID ∨ oidOk x.oid = true)) →
    (∀ x ∈ l, x.oid = reasonOID → ∃ n, parseEnum x.value = .ok n) →
    scanReason roB (l.map triple) acc = .ok (scanReasonA l acc decM) := by
  intro l
  induction l with
  | nil => intro acc _ _; rfl
  | cons x xs ih =>
    intro acc h1 h2
    obtain ⟨he, hd⟩ := h1 x List.mem_cons_self
    have h1' := fun y hy => h1 y (List.mem_cons_of_mem _ hy)
    have h2' := fun y hy => h2 y (List.mem_cons_of_mem _ hy)
    simp only [List.map_cons, scanReason, scanReasonA, triple]
    by_cases hx : x.oid = reasonOID
    · have hc : oidC x = roB := by
        rw [hx, encOID_reason] at he
        exact (Option.some.inj he).symm
      obtain ⟨n, hn⟩ := h2 x List.mem_cons_self hx
      simp only [hc, hx, if_true, hn, decM]
      exact ih (some n) h1' h2'
    · have hc : oidC x ≠ roB := by
        intro hc
        rw [hc] at he
        rcases hd with hd | hd
        · exact hx hd
        · exact hx (encOID_inj he encOID_reason hd oidOk_reason)
      simp only [hc, hx, if_false]
      exact ih acc h1' h2'

/-- scanning the synthesised list with any decoder that reads back the synthesised value yields the normalised
    `ReasonCode` -/
theorem scanReasonA_synth (e : Entry) (dec : EExt → Option Int)
    (hdec : ∀ n, normReason e.reason = some n → dec (reasonExt n) = some n) :
    scanReasonA (synthExts e) none dec = normReason e.reason := by
  have app : ∀ (l1 l2 : List EExt) (acc : Option Int), (∀ x ∈ l1, x.oid ≠ reasonOID) →
      scanReasonA (l1 ++ l2) acc dec = scanReasonA l2 acc dec := by
    intro l1
    induction l1 with
    | nil => intro l2 acc _; rfl
    | cons x xs ih =>
      intro l2 acc hx
      have : x.oid ≠ reasonOID := hx x List.mem_cons_self
      simp only [List.cons_append, scanReasonA, this, if_false]
      exact ih l2 acc (fun y hy => hx y (List.mem_cons_of_mem _ hy))
  unfold synthExts
  rw [app _ _ _ (by intro x hx; have := (List.mem_filter.mp hx).2; simpa using this)]
  cases h : normReason e.reason with
  | none => rfl
  | some n => simp [scanReasonA, reasonExt]; exact hdec n h

/-- ENUMERATED round trip for EVERY integer reason code (the contents must fit a DER length, < 2^31 octets). -/
theorem parseEnum_reasonExt (n : Int) (hl : (encBigInt n).length < 2147483648) :
    parseEnum (reasonExt n).value = .ok n := by
  unfold parseEnum reasonExt tlv
  simp only
  rw [field_tlv_end _ _ _ _ (by decide) hl (by simp [Want.ok, hdrOf])]
  simp [someElem, Res.bind, parseBigInt_encBigInt]

/-! ### entries -/

/-- domain of the byte-level entry theorem (decidable): a well-formed 14-digit time whose year is four ASCII digits,
    and extra extensions whose OIDs — other than reasonCode ones, which are dropped — are in the reader's domain. -/
def Entry.ok (e : Entry) : Bool :=
  validTime e.time && e.extras.all (fun x => x.oid == reasonOID || oidOk x.oid)

/-- what the parser reports for an entry -/
def Entry.parsed (e : Entry) : PEntry := ⟨e.serial, e.time, normReason e.reason, (synthExts e).length⟩

def extsField (e : Entry) : Bytes :=
  if (synthExts e).isEmpty then [] else writeTLV 0x30 (((synthExts e).map fun x => writeTLV 0x30 (extBody x)).flatten)

/-- contents of the `RevokedCertificate` SEQUENCE -/
def entryBody (e : Entry) : Bytes := writeTLV 0x02 (encBigInt e.serial) ++ (encTime e.time ++ extsField e)

theorem encEntry_eq {e : Entry} {bs : Bytes} (h : encEntry e = some bs) :
    bs = writeTLV 0x30 (entryBody e) ∧ ∀ x ∈ synthExts e, encOID x.oid = some (oidC x) := by
  unfold encEntry at h
  cases hm : (synthExts e).mapM encExtension with
  | none => simp [hm] at h
  | some xs =>
    simp only [hm, Option.some.injEq] at h
    obtain ⟨e1, p1⟩ := mapM_some_map encExtension (fun x => writeTLV 0x30 (extBody x))
      (fun x => encOID x.oid = some (oidC x)) (fun a b hab => ⟨(encExtension_eq hab).2, (encExtension_eq hab).1⟩) _ _ hm
    refine ⟨?_, p1⟩
    rw [← h, e1]
    simp [entryBody, extsField, tlv]

theorem synth_mem (e : Entry) (x : EExt) (hx : x ∈ synthExts e) :
    (x ∈ e.extras ∧ x.oid ≠ reasonOID) ∨ (∃ n, normReason e.reason = some n ∧ x = reasonExt n) := by
  unfold synthExts at hx
  rcases List.mem_append.mp hx with hx | hx
  · left
    have := List.mem_filter.mp hx
    exact ⟨this.1, by simpa using this.2⟩
  · right
    cases hn : normReason e.reason with
    | none => simp [hn] at hx
    | some n => simp [hn] at hx; exact ⟨n, rfl, hx⟩

theorem reason_len (n : Int) (N : Nat) (h : (extBody (reasonExt n)).length < N) : (encBigInt n).length < N := by
  have h2 := writeTLV_length_ge 0x04 (writeTLV 0x0A (encBigInt n))
  have h3 := writeTLV_length_ge 0x0A (encBigInt n)
  have hv : (reasonExt n).value = writeTLV 0x0A (encBigInt n) := rfl
  simp only [extBody, List.length_append, hv] at h
  omega

/-- **byte-level entry round trip (core)**: `parseEntry` on the element the encoder writes. -/
theorem parseEntry_build (e : Entry) (henc : ∀ x ∈ synthExts e, encOID x.oid = some (oidC x))
    (hok : e.ok = true) (hlen : (entryBody e).length < 2147483648) :
    parseEntry (elemOf 0x30 (entryBody e)) = .ok e.parsed := by
  simp only [Entry.ok, Bool.and_eq_true] at hok
  obtain ⟨htime, hext⟩ := hok
  obtain ⟨tag, tb, het, htag, htl, htd⟩ := encTime_decode e.time htime
  have hS := writeTLV_length_ge 0x02 (encBigInt e.serial)
  have hT := writeTLV_length_ge tag tb
  unfold entryBody at hlen ⊢
  rw [het] at hlen ⊢
  simp only [List.length_append] at hlen
  unfold parseEntry
  simp only [elemOf_body]
  rw [field_tlv _ _ _ _ _ (by decide) (by omega) (by simp [Want.ok, hdrOf])]
  simp only [someElem, Res.bind, elemOf_body, parseBigInt_encBigInt]
  rw [field_tlv _ _ _ _ _ htag (by omega) (by simp [Want.ok])]
  simp only [htd]
  -- the optional extensions field
  have hoidok : ∀ x ∈ synthExts e, x.oid = reasonOID ∨ oidOk x.oid = true := by
    intro x hx
    rcases synth_mem e x hx with ⟨hm, _⟩ | ⟨n, _, rfl⟩
    · have := List.all_eq_true.mp hext x hm
      simpa using this
    · left; rfl
  unfold extsField at hlen ⊢
  by_cases hemp : (synthExts e).isEmpty = true
  · simp only [hemp, if_true, field_nil_opt]
    have hnil : synthExts e = [] := by simpa using hemp
    have hr : normReason e.reason = none := by
      have := scanReasonA_synth e (fun x => decM x) (by
        intro n hn
        have : reasonExt n ∈ synthExts e := by simp [synthExts, hn]
        rw [hnil] at this; cases this)
      rw [hnil] at this
      exact this.symm
    simp [Entry.parsed, hnil, hr]
  · simp only [hemp, Bool.false_eq_true, if_false] at hlen ⊢
    have hX := writeTLV_length_ge 0x30 (((synthExts e).map fun x => writeTLV 0x30 (extBody x)).flatten)
    obtain ⟨_, hel⟩ := tlvs_bounds 0x30 (fun x => writeTLV 0x30 (extBody x)) (synthExts e) 2147483648 (by omega)
    have hbl : ∀ x ∈ synthExts e, (extBody x).length < 2147483648 := by
      intro x hx
      have := hel x hx
      have := writeTLV_length_ge 0x30 (extBody x)
      omega
    rw [field_tlv_end _ _ _ _ (by decide) (by omega) (by simp [Want.ok, hdrOf])]
    simp only [elemOf_body]
    rw [readElems_writeTLVs (fun _ => 0x30) extBody (synthExts e) (fun x hx => ⟨by decide, hbl x hx⟩)]
    simp only
    have hall : ((synthExts e).map fun x => elemOf 0x30 (extBody x)).all (fun el => isSeqHdr el.hdr) = true := by
      rw [List.all_eq_true]
      intro el hel
      obtain ⟨x, _, rfl⟩ := List.mem_map.mp hel
      simp [isSeqHdr, hdrOf]
    simp only [hall, Bool.not_true, Bool.false_eq_true, if_false]
    rw [mapRes_map parseEExt (fun x => elemOf 0x30 (extBody x)) triple (synthExts e) (by
      intro x hx
      have hv : validOID (oidC x) = true := by
        rcases hoidok x hx with h | h
        · have := henc x hx
          rw [h, encOID_reason] at this
          rw [← Option.some.inj this]; decide
        · exact validOID_encOID (henc x hx) h
      exact parseEExt_build x hv (hbl x hx))]
    simp only [encOID_reason]
    rw [scanReason_lift (synthExts e) none (fun x hx => ⟨henc x hx, hoidok x hx⟩) (by
      intro x hx ho
      rcases synth_mem e x hx with ⟨_, hne⟩ | ⟨n, _, rfl⟩
      · exact absurd ho hne
      · exact ⟨n, parseEnum_reasonExt n (reason_len n _ (hbl _ hx))⟩)]
    simp only
    rw [scanReasonA_synth e decM (by
      intro n hn
      have hx : reasonExt n ∈ synthExts e := by simp [synthExts, hn]
      simp only [decM, parseEnum_reasonExt n (reason_len n _ (hbl _ hx))])]
    simp [Entry.parsed]

/-- **byte-level entry round trip**: what `encEntry` writes is one element, and `parseEntry` maps it to the entry
    (reason normalised, number of extensions = synthesised list). -/
theorem parseEntry_encEntry (e : Entry) (bs : Bytes) (h : encEntry e = some bs) (hok : e.ok = true)
    (hlen : bs.length < 2147483648) :
    ∃ el, readElem bs = .ok (el, []) ∧ el.full = bs ∧ parseEntry el = .ok e.parsed := by
  obtain ⟨hb, henc⟩ := encEntry_eq h
  subst hb
  have h1 := writeTLV_length_ge 0x30 (entryBody e)
  refine ⟨elemOf 0x30 (entryBody e), ?_, rfl, parseEntry_build e henc hok (by omega)⟩
  have := readElem_writeTLV 0x30 (entryBody e) [] (by decide) (by omega)
  simp only [List.append_nil] at this
  exact this

/-- **list level**: `parseEntries (encEntries es) = es` (normalised), for every list of entries of the domain whose
    individual encodings are shorter than 2^31 octets (the list as a whole may be longer). -/
theorem parseEntries_encEntries (es : List Entry) (bs : Bytes) (h : encEntries es = some bs)
    (hok : ∀ e ∈ es, e.ok = true) (hlen : ∀ e ∈ es, ∀ b, encEntry e = some b → b.length < 2147483648) :
    parseEntries bs = .ok (es.map Entry.parsed) := by
  unfold encEntries at h
  cases hm : es.mapM encEntry with
  | none => simp [hm] at h
  | some bss =>
    simp only [hm, Option.map_some, Option.some.injEq] at h
    obtain ⟨e1, p1⟩ := mapM_some_map encEntry (fun e => writeTLV 0x30 (entryBody e))
      (fun e => encEntry e = some (writeTLV 0x30 (entryBody e)) ∧ ∀ x ∈ synthExts e, encOID x.oid = some (oidC x))
      (fun a b hab => ⟨(encEntry_eq hab).1, by rw [← (encEntry_eq hab).1]; exact hab, (encEntry_eq hab).2⟩) _ _ hm
    subst e1; subst h
    have hbl : ∀ e ∈ es, (entryBody e).length < 2147483648 := by
      intro e he
      have := hlen e he _ (p1 e he).1
      have := writeTLV_length_ge 0x30 (entryBody e)
      omega
    unfold parseEntries
    rw [readElems_writeTLVs (fun _ => 0x30) entryBody es (fun e he => ⟨by decide, hbl e he⟩)]
    simp only [Res.bind]
    have hall : (es.map fun e => elemOf 0x30 (entryBody e)).all (fun el => isSeqHdr el.hdr) = true := by
      rw [List.all_eq_true]
      intro el hel
      obtain ⟨x, _, rfl⟩ := List.mem_map.mp hel
      simp [isSeqHdr, hdrOf]
    simp only [hall, Bool.not_true, Bool.false_eq_true, if_false]
    exact mapRes_map parseEntry (fun e => elemOf 0x30 (entryBody e)) Entry.parsed es
      (fun e he => parseEntry_build e (p1 e he).2 (hok e he) (hbl e he))

end ZV.C05
