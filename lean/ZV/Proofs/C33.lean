import ZV.Model.C33
namespace ZV.C33

theorem rlookup_mem_keys (t : List (Nat × Str)) (n : Str) (k : Nat) (h : rlookup t n = some k) : k ∈ keys t := by
  induction t with
  | nil => simp [rlookup] at h
  | cons e r ih =>
    obtain ⟨k', n'⟩ := e
    simp only [rlookup] at h
    split at h
    · injection h with h; subst h; simp [keys]
    · have := ih h
      simp only [keys, List.map_cons, List.mem_cons] at *
      exact Or.inr this

theorem inRange_iff (lo hi i : Int) : inRange lo hi i = true ↔ lo ≤ i ∧ i ≤ hi := by
  simp [inRange]

theorem toUint16_ofNat (v : Nat) (h : v < 65536) : toUint16 (Int.ofNat v) = v := by
  simp only [toUint16, Int.ofNat_eq_natCast]; omega

theorem bytesNatFrom_eq (a : Nat) (l : Bytes) : bytesNatFrom a l = a * 256 ^ l.length + bytesNatFrom 0 l := by
  induction l generalizing a with
  | nil => simp [bytesNatFrom]
  | cons b r ih =>
    simp only [bytesNatFrom, List.length_cons]
    rw [ih (a * 256 + b.toNat), ih (0 * 256 + b.toNat)]
    rw [Nat.pow_succ]
    simp only [Nat.zero_mul, Nat.zero_add]
    rw [Nat.add_mul, Nat.mul_assoc, Nat.mul_comm 256 (256 ^ r.length)]
    omega

theorem natBytesAux_spec (f n : Nat) (acc : Bytes) (h : n ≤ f) :
    bytesNat (natBytesAux f n acc) = n * 256 ^ acc.length + bytesNat acc := by
  induction f generalizing n acc with
  | zero =>
    have : n = 0 := by omega
    subst this
    simp [natBytesAux]
  | succ f ih =>
    simp only [natBytesAux]
    split
    · rename_i h0; subst h0; simp
    · rename_i h0
      have hle : n / 256 ≤ f := by
        have : n / 256 < n := Nat.div_lt_self (by omega) (by decide)
        omega
      rw [ih (n / 256) _ hle]
      simp only [List.length_cons, bytesNat, bytesNatFrom]
      rw [bytesNatFrom_eq (0 * 256 + (UInt8.ofNat (n % 256)).toNat) acc]
      have hb : (UInt8.ofNat (n % 256)).toNat = n % 256 := by
        simp
      rw [hb, Nat.pow_succ]
      simp only [Nat.zero_mul, Nat.zero_add]
      have hn : n = n / 256 * 256 + n % 256 := by omega
      generalize 256 ^ acc.length = P at *
      generalize bytesNatFrom 0 acc = Q
      conv => rhs; rw [hn]
      rw [Nat.add_mul, Nat.mul_assoc, Nat.mul_comm 256 P]
      omega

theorem bytesNat_natBytes (n : Nat) : bytesNat (natBytes n) = n := by
  unfold natBytes
  rw [natBytesAux_spec n n [] (Nat.le_refl n)]
  simp [bytesNat, bytesNatFrom]

end ZV.C33
