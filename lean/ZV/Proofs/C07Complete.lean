import ZV.Model.C07
import ZV.Proofs.C07
/-!
  Completeness facts that survive the memoisation: the loops only ever append chains, and every
  verified root parent that passes `isValid` and is not already in the chain closes the current
  chain.  (Completeness through intermediates is false for the memoised builder: a cached child
  result computed in one context is reused in another.)

  Also the declarative reading of the candidate selection of `findVerifiedParents`.
-/
namespace ZV.C07

theorem rootLoop_mono (cur : Chain) (ps : List (Nat × Cert)) (st : List Chain × Option Err) :
    ∀ ch ∈ st.1, ch ∈ (rootLoop cur ps st).1 := by
  induction ps generalizing st with
  | nil => intro ch h; simpa [rootLoop] using h
  | cons p ps ih =>
    obtain ⟨n, root⟩ := p
    obtain ⟨chains, e⟩ := st
    intro ch h
    unfold rootLoop
    cases hv : isValid root .root cur with
    | some e' => simp only; exact ih _ ch h
    | none =>
      simp only
      split
      · exact ih _ ch (List.mem_append_left _ h)
      · exact ih _ ch h

theorem rootLoop_complete (cur : Chain) (ps : List (Nat × Cert)) (st : List Chain × Option Err)
    (n : Nat) (root : Cert) (hm : (n, root) ∈ ps) (hv : isValid root .root cur = none)
    (hin : certificateInChain cur root = false) :
    cur ++ [root] ∈ (rootLoop cur ps st).1 := by
  induction ps generalizing st with
  | nil => cases hm
  | cons p ps ih =>
    obtain ⟨n', root'⟩ := p
    obtain ⟨chains, e⟩ := st
    rcases List.mem_cons.mp hm with heq | hm'
    · cases heq
      unfold rootLoop
      rw [hv]
      simp only [hin, Bool.not_false, if_true]
      exact rootLoop_mono cur ps _ _ (List.mem_append_right _ (List.mem_singleton.mpr rfl))
    · unfold rootLoop
      cases hv' : isValid root' .root cur with
      | some e' => simp only; exact ih _ hm'
      | none =>
        simp only
        split
        · exact ih _ hm'
        · exact ih _ hm'

theorem interLoop_mono (rec : Cache → Cert → Chain → List Chain × Option Err × Cache) (env : Env) (cur : Chain)
    (ps : List (Nat × Cert)) (st : BState) :
    ∀ ch ∈ st.chains, ch ∈ (interLoop rec env cur ps st).chains := by
  induction ps generalizing st with
  | nil => intro ch h; simpa [interLoop] using h
  | cons p ps ih =>
    obtain ⟨num, inter⟩ := p
    intro ch h
    unfold interLoop
    split
    · exact ih st ch h
    · split
      · exact ih st ch h
      · cases hv : isValid inter .intermediate cur with
        | some e => simp only; exact ih _ ch h
        | none =>
          simp only
          cases hc : st.cache num with
          | some childChains => simp only; exact ih _ ch (List.mem_append_left _ h)
          | none => simp only; exact ih _ ch (List.mem_append_left _ h)

/-- every verified root parent that passes `isValid` and is not already in the current chain
    closes it, whatever the cache contains -/
theorem buildChains_root_complete (fuel : Nat) (env : Env) (cache : Cache) (c : Cert) (cur : Chain)
    (n : Nat) (root : Cert) (hm : (n, root) ∈ findVerifiedParents env env.roots c)
    (hv : isValid root .root cur = none) (hin : certificateInChain cur root = false) :
    cur ++ [root] ∈ (buildChains (fuel + 1) env cache c cur).1 := by
  simp only [buildChains]
  apply interLoop_mono
  exact rootLoop_complete cur _ _ n root hm hv hin

/-! ### the candidate selection of findVerifiedParents -/

theorem mem_enumFrom_iff (l : List Cert) (n i : Nat) (x : Cert) :
    (i, x) ∈ enumFrom n l ↔ n ≤ i ∧ l[i - n]? = some x := by
  induction l generalizing n with
  | nil => simp [enumFrom]
  | cons a l ih =>
    simp only [enumFrom, List.mem_cons, Prod.mk.injEq, ih]
    constructor
    · rintro (⟨rfl, rfl⟩ | ⟨h1, h2⟩)
      · simp
      · refine ⟨by omega, ?_⟩
        have : i - n = (i - (n + 1)) + 1 := by omega
        rw [this]; simpa using h2
    · rintro ⟨h1, h2⟩
      by_cases hi : i = n
      · subst hi
        simp only [Nat.sub_self, List.getElem?_cons_zero, Option.some.injEq] at h2
        exact Or.inl ⟨rfl, h2.symm⟩
      · right
        refine ⟨by omega, ?_⟩
        have : i - n = (i - (n + 1)) + 1 := by omega
        rw [this] at h2; simpa using h2

/-- `findVerifiedParents` returns exactly the pool entries that pass `CheckSignatureFrom` among the
    CANDIDATES: the entries whose SubjectKeyId equals the child's non-empty AuthorityKeyId if there
    is any such entry, otherwise the entries whose subject equals the child's issuer. -/
theorem fvp_mem_iff (env : Env) (pool : List Cert) (c : Cert) (i : Nat) (x : Cert) :
    (i, x) ∈ findVerifiedParents env pool c ↔
      pool[i]? = some x ∧ checkSignatureFrom env c x = true ∧
      (if c.akid ≠ 0 ∧ ∃ y ∈ pool, y.skid = c.akid then x.skid = c.akid else x.subject = c.issuer) := by
  unfold findVerifiedParents
  simp only
  by_cases hak : c.akid ≠ 0
  · simp only [hak, ne_eq, not_false_eq_true, if_true, true_and]
    by_cases hex : ∃ y ∈ pool, y.skid = c.akid
    · obtain ⟨y, hy, hys⟩ := hex
      obtain ⟨j, hj⟩ := List.getElem?_of_mem hy
      have hne : ¬ ((enumFrom 0 pool).filter (fun p => decide (p.2.skid = c.akid))).length = 0 := by
        intro h0
        have := List.length_eq_zero_iff.mp h0
        have hmem : (j, y) ∈ (enumFrom 0 pool).filter (fun p => decide (p.2.skid = c.akid)) :=
          List.mem_filter.mpr ⟨(mem_enumFrom_iff pool 0 j y).mpr ⟨Nat.zero_le _, by simpa using hj⟩, by simpa using hys⟩
        rw [this] at hmem; cases hmem
      have hex' : ∃ y ∈ pool, y.skid = c.akid := ⟨y, hy, hys⟩
      simp only [hne, if_false, hex', if_true, List.mem_filter, mem_enumFrom_iff, Nat.zero_le, true_and,
        Nat.sub_zero, decide_eq_true_eq]
      constructor
      · rintro ⟨⟨a, b⟩, d⟩; exact ⟨a, d, b⟩
      · rintro ⟨a, d, b⟩; exact ⟨⟨a, b⟩, d⟩
    · have h0 : ((enumFrom 0 pool).filter (fun p => decide (p.2.skid = c.akid))).length = 0 := by
        apply List.length_eq_zero_iff.mpr
        apply List.filter_eq_nil_iff.mpr
        rintro ⟨j, y⟩ hm hs
        exact hex ⟨y, mem_enumFrom _ _ _ _ hm, by simpa using hs⟩
      simp only [h0, if_true, hex, if_false, List.mem_filter, mem_enumFrom_iff, Nat.zero_le, true_and,
        Nat.sub_zero, decide_eq_true_eq]
      constructor
      · rintro ⟨⟨a, b⟩, d⟩; exact ⟨a, d, b⟩
      · rintro ⟨a, d, b⟩; exact ⟨⟨a, b⟩, d⟩
  · simp only [hak, if_false, List.length_nil, if_true, false_and, List.mem_filter, mem_enumFrom_iff, Nat.zero_le,
      true_and, Nat.sub_zero, decide_eq_true_eq]
    constructor
    · rintro ⟨⟨a, b⟩, d⟩; exact ⟨a, d, b⟩
    · rintro ⟨a, d, b⟩; exact ⟨⟨a, b⟩, d⟩

end ZV.C07
