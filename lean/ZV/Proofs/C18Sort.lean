import ZV.Model.C18
import Mathlib.Tactic.SplitIfs
/-! C18: the DER sort of SET OF (`setEncoder`): `bytesLt` is a strict total order, `sortEnc` is a permutation,
    its output is sorted, and sorting a sorted list is the identity (hence `sortEnc` is idempotent). -/
namespace ZV.C18

theorem bytesLt_irrefl (a : Bytes) : bytesLt a a = false := by
  induction a with
  | nil => rfl
  | cons x xs ih => simp [bytesLt, ih]

theorem bytesLt_asymm : ∀ (a b : Bytes), bytesLt a b = true → bytesLt b a = false
  | [], [], h => by simp [bytesLt] at h
  | [], _ :: _, _ => by simp [bytesLt]
  | _ :: _, [], h => by simp [bytesLt] at h
  | x :: xs, y :: ys, h => by
    simp only [bytesLt] at h ⊢
    split_ifs at h ⊢ <;> first | omega | rfl | exact bytesLt_asymm xs ys h

theorem bytesLt_trans : ∀ (a b c : Bytes), bytesLt a b = true → bytesLt b c = true → bytesLt a c = true
  | [], [], _, h, _ => by simp [bytesLt] at h
  | [], _ :: _, [], _, h => by simp [bytesLt] at h
  | [], _ :: _, _ :: _, _, _ => by simp [bytesLt]
  | _ :: _, [], _, h, _ => by simp [bytesLt] at h
  | _ :: _, _ :: _, [], _, h => by simp [bytesLt] at h
  | x :: xs, y :: ys, z :: zs, h1, h2 => by
    simp only [bytesLt] at h1 h2 ⊢
    split_ifs at h1 h2 ⊢ <;> first | omega | rfl | exact bytesLt_trans xs ys zs h1 h2

/-- trichotomy: two byte strings neither of which is smaller are equal -/
theorem bytesLt_total : ∀ (a b : Bytes), bytesLt a b = false → bytesLt b a = false → a = b
  | [], [], _, _ => rfl
  | [], _ :: _, h, _ => by simp [bytesLt] at h
  | _ :: _, [], _, h => by simp [bytesLt] at h
  | x :: xs, y :: ys, h1, h2 => by
    simp only [bytesLt] at h1 h2
    split_ifs at h1 h2
    have hxy : x = y := UInt8.toNat_inj.mp (by omega)
    rw [hxy, bytesLt_total xs ys h1 h2]

theorem perm_insertSorted (x : Bytes) (l : List Bytes) : (insertSorted x l).Perm (x :: l) := by
  induction l with
  | nil => exact List.Perm.refl _
  | cons y ys ih =>
    simp only [insertSorted]
    split_ifs
    · exact List.Perm.refl _
    · exact ((List.Perm.cons y ih).trans (List.Perm.swap x y ys))

/-- the sort only permutes the encodings -/
theorem perm_sortEnc (l : List Bytes) : (sortEnc l).Perm l := by
  induction l with
  | nil => exact List.Perm.refl _
  | cons x xs ih => exact (perm_insertSorted x (sortEnc xs)).trans (List.Perm.cons x ih)

/-- ascending w.r.t. `bytes.Compare` -/
def SortedEnc : List Bytes → Prop
  | [] => True
  | x :: xs => (∀ y ∈ xs, bytesLt y x = false) ∧ SortedEnc xs

theorem mem_insertSorted {z x : Bytes} {l : List Bytes} (h : z ∈ insertSorted x l) : z = x ∨ z ∈ l := by
  have := (perm_insertSorted x l).mem_iff.mp h
  simpa using this

theorem sorted_insertSorted (x : Bytes) (l : List Bytes) (h : SortedEnc l) : SortedEnc (insertSorted x l) := by
  induction l with
  | nil => exact ⟨by simp, trivial⟩
  | cons y ys ih =>
    simp only [insertSorted]
    by_cases hlt : bytesLt x y = true
    · rw [if_pos hlt]
      refine ⟨?_, h⟩
      intro z hz
      rcases List.mem_cons.mp hz with rfl | hz'
      · exact bytesLt_asymm _ _ hlt
      · cases hzx : bytesLt z x with
        | false => rfl
        | true =>
          have := bytesLt_trans z x y hzx hlt
          rw [h.1 z hz'] at this; cases this
    · rw [if_neg hlt]
      refine ⟨?_, ih h.2⟩
      intro z hz
      rcases mem_insertSorted hz with rfl | hz'
      · simpa using hlt
      · exact h.1 z hz'

theorem sorted_sortEnc (l : List Bytes) : SortedEnc (sortEnc l) := by
  induction l with
  | nil => trivial
  | cons x xs ih => exact sorted_insertSorted x _ ih

theorem insertSorted_of_le (x : Bytes) (l : List Bytes) (h : ∀ y ∈ l, bytesLt y x = false) :
    insertSorted x l = x :: l := by
  induction l with
  | nil => rfl
  | cons y ys ih =>
    simp only [insertSorted]
    by_cases hlt : bytesLt x y = true
    · rw [if_pos hlt]
    · rw [if_neg hlt]
      have hxy : x = y := bytesLt_total x y (by simpa using hlt) (h y (by simp))
      subst hxy
      rw [ih (fun z hz => h z (by simp [hz]))]

/-- sorting a sorted list changes nothing -/
theorem sortEnc_of_sorted (l : List Bytes) (h : SortedEnc l) : sortEnc l = l := by
  induction l with
  | nil => rfl
  | cons x xs ih =>
    simp only [sortEnc]
    rw [ih h.2, insertSorted_of_le x xs h.1]

/-- the DER sort is idempotent -/
theorem sortEnc_sortEnc (l : List Bytes) : sortEnc (sortEnc l) = sortEnc l :=
  sortEnc_of_sorted _ (sorted_sortEnc l)

end ZV.C18
