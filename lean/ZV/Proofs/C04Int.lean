import ZV.Model.C04
import ZV.Proofs.DerLite
/-! INTEGER contents: the encoder `beBytes (intLen f v) (two's complement of v)` (`encInt` of C04 with fuel 8,
    `encBigInt` of C05 with fuel `log2 |v| + 2`) is decoded by `checkInteger` + `intOfBytes` for every `v`
    the fuel covers. -/
namespace ZV.C04
open ZV ZV.Der

theorem beBytes_length (n v : Nat) : (beBytes n v).length = n := by
  induction n with
  | zero => rfl
  | succ n ih => simp [beBytes, ih]

theorem natOfBytes_beBytes (n v : Nat) : natOfBytes (beBytes n v) = v % 256 ^ n := by
  induction n with
  | zero => simp [beBytes, natOfBytes, Nat.mod_one]
  | succ n ih =>
    simp only [beBytes]
    rw [natOfBytes_cons, ih, beBytes_length, Nat.mod_pow_succ]
    have : (UInt8.ofNat (v / 256 ^ n % 256)).toNat = v / 256 ^ n % 256 := by
      simp [UInt8.toNat_ofNat']
    rw [this, Nat.mul_comm]; omega

/-- `intLen` with enough fuel returns the minimal two's-complement length: `v` fits `k+1` octets and not `k`. -/
theorem intLen_spec : ∀ (f : Nat) (v : Int), -(128 * (256 : Int) ^ f) ≤ v → v < 128 * (256 : Int) ^ f →
    ∃ k, intLen f v = k + 1 ∧ k ≤ f ∧ -(128 * (256 : Int) ^ k) ≤ v ∧ v < 128 * (256 : Int) ^ k ∧
      ∀ j, k = j + 1 → v < -(128 * (256 : Int) ^ j) ∨ 128 * (256 : Int) ^ j ≤ v := by
  intro f
  induction f with
  | zero =>
    intro v h1 h2
    exact ⟨0, rfl, Nat.le_refl _, h1, h2, by intro j hj; omega⟩
  | succ f ih =>
    intro v h1 h2
    by_cases hs : -128 ≤ v ∧ v ≤ 127
    · refine ⟨0, by simp [intLen, hs], by omega, by simp; omega, by simp; omega, by intro j hj; omega⟩
    · have hfd : Int.fdiv v 256 = v / 256 := Int.fdiv_eq_ediv_of_nonneg v (by decide)
      rw [Int.pow_succ] at h1 h2
      have hpos : (0 : Int) < 256 ^ f := Int.pow_pos (by decide)
      obtain ⟨k, hk, hkf, hlo, hhi, hmin⟩ := ih (v / 256) (by omega) (by omega)
      refine ⟨k + 1, ?_, by omega, ?_, ?_, ?_⟩
      · simp only [intLen, hs, if_false, hfd, hk]; omega
      · rw [Int.pow_succ]; omega
      · rw [Int.pow_succ]; omega
      · intro j hj
        have hjk : j = k := by omega
        subst hjk
        cases j with
        | zero => simp; omega
        | succ i =>
          have := hmin i rfl
          rw [Int.pow_succ]; omega

/-- the unsigned residue the encoders write -/
def twos (l : Nat) (v : Int) : Nat := if v < 0 then (v + (256 : Int) ^ l).toNat else v.toNat

/-- **INTEGER encoder/decoder round trip** (any fuel `f` that covers `v`): the written octets pass the strict
    minimality check and decode to `v`. -/
theorem int_roundtrip (f : Nat) (v : Int) (h1 : -(128 * (256 : Int) ^ f) ≤ v) (h2 : v < 128 * (256 : Int) ^ f) :
    checkInteger (beBytes (intLen f v) (twos (intLen f v) v)) = true ∧
    intOfBytes (beBytes (intLen f v) (twos (intLen f v) v)) = v ∧
    (beBytes (intLen f v) (twos (intLen f v) v)).length ≤ f + 1 := by
  obtain ⟨k, hk, hkf, hlo, hhi, hmin⟩ := intLen_spec f v h1 h2
  rw [hk]
  have hlen := beBytes_length (k + 1) (twos (k + 1) v)
  have hpos : (0 : Int) < 256 ^ k := Int.pow_pos (by decide)
  have hP1 : (256 : Int) ^ (k + 1) = ((256 ^ (k + 1) : Nat) : Int) := by simp
  have hlt : twos (k + 1) v < 256 ^ (k + 1) := by
    have e := hP1
    rw [Int.pow_succ] at e
    unfold twos
    rw [Int.pow_succ]
    split <;> omega
  have hnat := natOfBytes_beBytes (k + 1) (twos (k + 1) v)
  rw [Nat.mod_eq_of_lt hlt] at hnat
  have hu : (natOfBytes (beBytes (k + 1) (twos (k + 1) v)) : Int) =
      if v < 0 then v + (256 : Int) ^ (k + 1) else v := by
    rw [hnat]; unfold twos
    rw [Int.pow_succ]
    split <;> omega
  obtain ⟨c1, c2⟩ := int_decode _ k v hlen hu hlo hhi hmin
  exact ⟨c1, c2, by omega⟩

/-- `encInt` (fuel 8, `int64Encoder`) in the shape of `int_roundtrip`. -/
theorem encInt_eq (v : Int) : encInt v = beBytes (intLen 8 v) (twos (intLen 8 v) v) := rfl

/-- **`parseInt64 ∘ encInt = id` on the whole 64-bit range.** -/
theorem parseInt64_encInt (v : Int) (h1 : -9223372036854775808 ≤ v) (h2 : v ≤ 9223372036854775807) :
    parseInt64 (encInt v) = .ok v := by
  have e8 : (256 : Int) ^ 8 = 18446744073709551616 := by decide
  have e7 : (256 : Int) ^ 7 = 72057594037927936 := by decide
  obtain ⟨c1, c2, _⟩ := int_roundtrip 8 v (by omega) (by omega)
  obtain ⟨k, hk, hkf, _, _, hmin⟩ := intLen_spec 8 v (by omega) (by omega)
  have hk7 : k ≤ 7 := by
    apply Decidable.byContradiction
    intro hc
    have := hmin 7 (by omega)
    omega
  have hlen : (encInt v).length = k + 1 := by rw [encInt_eq, beBytes_length, hk]
  rw [← encInt_eq] at c1 c2
  unfold parseInt64
  rw [c1, c2, hlen]
  simp; omega

end ZV.C04
