import ZV.Model.C29
/-!
  Helper lemmas for C29: readers undo writers; the framing of each extension encoder;
  one step of the extension loop; the structure of a successful `marshal`.
-/
namespace ZV.C29
open ZV.TlsHello

/-! ### readers undo writers -/

theorem readU8_u8 {n : Nat} (h : n < 256) (r : Bytes) : readU8 (u8 n ++ r) = some (n, r) := by
  simp [u8, readU8]; omega

theorem readU16_u16 {n : Nat} (h : n < 65536) (r : Bytes) : readU16 (u16 n ++ r) = some (n, r) := by
  simp [u16, readU16]; omega

theorem readU24_u24 {n : Nat} (h : n < 16777216) (r : Bytes) : readU24 (u24 n ++ r) = some (n, r) := by
  simp [u24, readU24]; omega

/-- `u32` writes the low 32 bits, big-endian -/
theorem readU32_u32 (n : Nat) (r : Bytes) : readU32 (u32 n ++ r) = some (n % 4294967296, r) := by
  simp [u32, readU32]; omega

theorem u32_mod (n : Nat) : u32 (n % 4294967296) = u32 n := by
  simp only [u32, List.cons.injEq, and_true]
  refine ⟨?_, ?_, ?_, ?_⟩ <;> apply UInt8.toNat_inj.mp <;> simp <;> omega

theorem readU16_w16 (x : UInt16) (r : Bytes) : readU16 (w16 x ++ r) = some (x.toNat, r) :=
  readU16_u16 x.toNat_lt r

theorem readBytes_append (b r : Bytes) : readBytes b.length (b ++ r) = some (b, r) := by
  simp [readBytes]

theorem readBytes_append' {n : Nat} (b r : Bytes) (h : b.length = n) : readBytes n (b ++ r) = some (b, r) := by
  subst h; exact readBytes_append b r

theorem readU8LP_lp (b r : Bytes) (h : b.length < 256) : readU8LP (u8 b.length ++ (b ++ r)) = some (b, r) := by
  rw [readU8LP, readU8_u8 h]; exact readBytes_append b r

theorem readU16LP_lp (b r : Bytes) (h : b.length < 65536) : readU16LP (u16 b.length ++ (b ++ r)) = some (b, r) := by
  rw [readU16LP, readU16_u16 h]; exact readBytes_append b r

theorem readU24LP_lp (b r : Bytes) (h : b.length < 16777216) : readU24LP (u24 b.length ++ (b ++ r)) = some (b, r) := by
  rw [readU24LP, readU24_u24 h]; exact readBytes_append b r

@[simp] theorem u8_length (n : Nat) : (u8 n).length = 1 := rfl
@[simp] theorem u16_length (n : Nat) : (u16 n).length = 2 := rfl
@[simp] theorem u24_length (n : Nat) : (u24 n).length = 3 := rfl
@[simp] theorem u32_length (n : Nat) : (u32 n).length = 4 := rfl
@[simp] theorem w16_length (x : UInt16) : (w16 x).length = 2 := rfl

@[simp] theorem w16s_length (l : List UInt16) : (w16s l).length = 2 * l.length := by
  induction l with
  | nil => rfl
  | cons a t ih => simp only [w16s, List.map_cons, List.flatten_cons, List.length_append, w16_length, List.length_cons] at *; omega

theorem readU16s_w16s (l : List UInt16) : readU16s (w16s l) = some (l.map (·.toNat)) := by
  induction l with
  | nil => rfl
  | cons a t ih =>
    have ha := a.toNat_lt
    have : w16s (a :: t) = UInt8.ofNat (a.toNat / 256) :: UInt8.ofNat a.toNat :: w16s t := by
      simp [w16s, w16, u16]
    rw [this, readU16s, ih]
    simp; omega

/-- the two cipher-suite length bytes `uint8(n>>7), uint8(n<<1)` are always the big-endian 16-bit
    truncation of the byte count `2n` -/
theorem suiteBlock_eq (l : List UInt16) : suiteBlock l = u16 (w16s l).length ++ w16s l := by
  have h1 : l.length / 128 = 2 * l.length / 256 := by omega
  have h2 : l.length * 2 = 2 * l.length := by omega
  simp only [suiteBlock, u16, w16s_length, h1, h2]

/-! ### framing of the extension encoders: type ‖ u16 length ‖ body -/

/-- the extension type each encoder writes -/
def extType : Ext → Nat
  | .null => 0
  | .sni _ => extensionServerName
  | .alpn _ => extensionALPN
  | .reneg => extensionRenegotiationInfo
  | .ems => extensionExtendedMasterSecret
  | .status => extensionStatusRequest
  | .sct => extensionSCT
  | .curves _ => extensionSupportedCurves
  | .points _ => extensionSupportedPoints
  | .ticket _ => extensionSessionTicket
  | .sigalgs _ => extensionSignatureAlgorithms

/-- the extension_data each encoder writes (inner length bytes as the code computes them) -/
def extBody : Ext → Bytes
  | .null => []
  | .sni ds => u16 ((sniNames ds).length + 1) ++ ([0] ++ sniNames ds)
  | .alpn ps => u16 (alpnProtos ps).length ++ alpnProtos ps
  | .reneg => [0]
  | .ems => []
  | .status => [1, 0, 0, 0, 0]
  | .sct => []
  | .curves l => u16 (2 * l.length) ++ w16s l
  | .points l => u8 l.length ++ l
  | .ticket t => t
  | .sigalgs l => u16 (2 * l.length) ++ w16s l

theorem extType_lt (e : Ext) : extType e < 65536 := by
  cases e <;> simp only [extType] <;> decide

/-- every encoder except NullExtension writes `type ‖ uint16(len body) ‖ body`
    (the 2-byte length being the truncation of the body length, as in the code) -/
theorem marshalExt_frame (e : Ext) (h : e ≠ .null) :
    marshalExt e = u16 (extType e) ++ (u16 (extBody e).length ++ extBody e) := by
  cases e with
  | null => exact absurd rfl h
  | sni ds => simp [marshalExt, extType, extBody, extensionServerName, u16]
  | alpn ps => simp [marshalExt, extType, extBody]
  | reneg => decide
  | ems => decide
  | status => decide
  | sct => decide
  | curves l =>
    simp only [marshalExt, extType, extBody, List.length_append, u16_length, w16s_length, List.append_assoc]
  | points l =>
    simp only [marshalExt, extType, extBody, List.length_append, u8_length, List.append_assoc]
  | ticket t => simp only [marshalExt, extType, extBody, List.append_assoc]
  | sigalgs l =>
    simp only [marshalExt, extType, extBody, List.length_append, u16_length, w16s_length, List.append_assoc]

/-- one turn of the extension loop on a well-framed extension -/
theorem parseExts_step {t : Nat} (ht : t < 65536) (body rest : Bytes) (hb : body.length < 65536) (m : ClientHello) :
    parseExts (u16 t ++ (u16 body.length ++ (body ++ rest))) m =
      match parseExt t body rest.isEmpty m with
      | none => none
      | some m' => parseExts rest m' := by
  rw [parseExts]
  have hne : (u16 t ++ (u16 body.length ++ (body ++ rest))).isEmpty = false := by simp [u16]
  simp only [hne, Bool.false_eq_true, if_false]
  split
  · rename_i h1; rw [readU16_u16 ht] at h1; cases h1
  · rename_i ext r1 h1
    rw [readU16_u16 ht] at h1
    cases h1
    split
    · rename_i h2; rw [readU16LP_lp body rest hb] at h2; cases h2
    · rename_i extData r2 h2
      rw [readU16LP_lp body rest hb] at h2
      cases h2
      rfl

theorem parseExts_nil (m : ClientHello) : parseExts [] m = some m := by
  rw [parseExts]; rfl

/-! ### what the parser must read back, and the domain of `ext_parse_back` -/

/-- the effect on the parsed message that the configured extension is meant to have -/
def applyExt (e : Ext) (m : ClientHello) : ClientHello :=
  match e with
  | .null => m
  | .sni [name] => { m with serverName := name }
  | .sni _ => m
  | .alpn ps => { m with alpnProtocols := m.alpnProtocols ++ ps }
  | .reneg => { m with secureRenegotiation := [], secureRenegotiationSupported := true }
  | .ems => { m with extendedMasterSecret := true }
  | .status => { m with ocspStapling := true }
  | .sct => { m with scts := true }
  | .curves l => { m with supportedCurves := m.supportedCurves ++ l.map (·.toNat) }
  | .points l => { m with supportedPoints := l }
  | .ticket t => { m with ticketSupported := true, sessionTicket := t }
  | .sigalgs l => { m with sigAlgs := m.sigAlgs ++ l.map (·.toNat) }

/-- domain of `ext_parse_back`: contents the encoder frames correctly and the parser accepts.
    SNI: exactly one non-empty name without trailing dot, and no host name seen before (D13: with 0 or
    ≥ 2 names the encoder's output is not a server_name list). Lists non-empty (the parser rejects empty
    ones), ALPN protocols 1..255 bytes, every length within its length field. -/
def extOk (e : Ext) (m : ClientHello) : Bool :=
  match e with
  | .sni [name] => decide (name ≠ [] ∧ name.getLast? ≠ some 46 ∧ name.length < 65531 ∧ m.serverName = [])
  | .sni _ => false
  | .alpn ps => decide (ps ≠ [] ∧ (∀ p ∈ ps, p ≠ [] ∧ p.length < 256) ∧ (alpnProtos ps).length < 65534)
  | .curves l => decide (l ≠ [] ∧ l.length < 32767)
  | .points l => decide (l ≠ [] ∧ l.length < 256)
  | .ticket t => decide (t.length < 65536)
  | .sigalgs l => decide (l ≠ [] ∧ l.length < 32767)
  | _ => true

theorem isEmpty_false_of_ne {α} {l : List α} (h : l ≠ []) : l.isEmpty = false := by
  cases l with
  | nil => exact absurd rfl h
  | cons a t => rfl

theorem parseNameList_nil (cur : Bytes) : parseNameList [] cur = some cur := by
  rw [parseNameList]; rfl

/-- one turn of the server_name list loop -/
theorem parseNameList_cons (t : UInt8) (name rest cur : Bytes) (hl : name.length < 65536) :
    parseNameList (t :: (u16 name.length ++ (name ++ rest))) cur =
      if name.isEmpty then none
      else if t.toNat != 0 then parseNameList rest cur
      else if !cur.isEmpty then none
      else if name.getLast? == some 46 then none
      else parseNameList rest name := by
  rw [parseNameList]
  simp only [List.isEmpty_cons, Bool.false_eq_true, if_false]
  split
  · rename_i h; simp [readU8] at h
  · rename_i nameType r1 hr
    simp only [readU8, Option.some.injEq, Prod.mk.injEq] at hr
    obtain ⟨hr1, hr2⟩ := hr
    subst hr1 hr2
    split
    · rename_i h; rw [readU16LP_lp name rest hl] at h; cases h
    · rename_i nm r2 h
      rw [readU16LP_lp name rest hl] at h
      cases h
      rfl

theorem parseProtoList_alpnProtos (ps : List Bytes) (h : ∀ p ∈ ps, p ≠ [] ∧ p.length < 256) :
    parseProtoList (alpnProtos ps) = some ps := by
  induction ps with
  | nil => rw [parseProtoList]; rfl
  | cons p t ih =>
    have hp := h p (List.mem_cons_self ..)
    have ht : ∀ q ∈ t, q ≠ [] ∧ q.length < 256 := fun q hq => h q (List.mem_cons_of_mem _ hq)
    have hcons : alpnProtos (p :: t) = u8 p.length ++ (p ++ alpnProtos t) := by
      simp [alpnProtos]
    rw [parseProtoList, hcons]
    have hne : (u8 p.length ++ (p ++ alpnProtos t)).isEmpty = false := by simp [u8]
    simp only [hne, Bool.false_eq_true, if_false]
    split
    · rename_i h1; rw [readU8LP_lp p _ hp.2] at h1; cases h1
    · rename_i proto r h1
      rw [readU8LP_lp p _ hp.2] at h1
      cases h1
      simp only [isEmpty_false_of_ne hp.1, Bool.false_eq_true, if_false, ih ht]

/-! ### each arm of the switch reads back what the encoder wrote -/

theorem arm_sni (name : Bytes) (m : ClientHello) (h1 : name ≠ []) (h2 : name.getLast? ≠ some 46)
    (h3 : name.length < 65531) (h4 : m.serverName = []) :
    armServerName (extBody (.sni [name])) m = some ({ m with serverName := name }, []) := by
  have hb : extBody (.sni [name]) =
      u16 ((0 : UInt8) :: (u16 name.length ++ (name ++ []))).length ++ (((0 : UInt8) :: (u16 name.length ++ (name ++ []))) ++ []) := by
    simp [extBody, sniNames]
  rw [hb, armServerName, readU16LP_lp _ _ (by simp; omega)]
  simp only [List.isEmpty_cons, Bool.false_eq_true, if_false, h4]
  rw [parseNameList_cons 0 name [] [] (by omega)]
  simp [h1, h2, parseNameList_nil]

theorem arm_alpn (ps : List Bytes) (m : ClientHello) (h1 : ps ≠ []) (h2 : ∀ p ∈ ps, p ≠ [] ∧ p.length < 256)
    (h3 : (alpnProtos ps).length < 65534) :
    armALPN (extBody (.alpn ps)) m = some ({ m with alpnProtocols := m.alpnProtocols ++ ps }, []) := by
  have hb : extBody (.alpn ps) = u16 (alpnProtos ps).length ++ (alpnProtos ps ++ []) := by simp [extBody]
  have hne : alpnProtos ps ≠ [] := by
    cases ps with
    | nil => exact absurd rfl h1
    | cons p t => simp [alpnProtos, u8]
  rw [hb, armALPN, readU16LP_lp _ _ (by omega)]
  simp only [isEmpty_false_of_ne hne, Bool.false_eq_true, if_false, parseProtoList_alpnProtos ps h2]

theorem w16s_ne_nil {l : List UInt16} (h : l ≠ []) : w16s l ≠ [] := by
  intro hc
  have := congrArg List.length hc
  simp at this
  exact h (List.eq_nil_of_length_eq_zero (by omega))

theorem arm_curves (l : List UInt16) (m : ClientHello) (h1 : l ≠ []) (h2 : l.length < 32767) :
    armSupportedCurves (extBody (.curves l)) m =
      some ({ m with supportedCurves := m.supportedCurves ++ l.map (·.toNat) }, []) := by
  have hb : extBody (.curves l) = u16 (w16s l).length ++ (w16s l ++ []) := by simp [extBody]
  rw [hb, armSupportedCurves, readU16LP_lp _ _ (by simp; omega)]
  simp only [isEmpty_false_of_ne (w16s_ne_nil h1), Bool.false_eq_true, if_false, readU16s_w16s]

theorem arm_sigalgs (l : List UInt16) (m : ClientHello) (h1 : l ≠ []) (h2 : l.length < 32767) :
    armSignatureAlgorithms (extBody (.sigalgs l)) m =
      some ({ m with sigAlgs := m.sigAlgs ++ l.map (·.toNat) }, []) := by
  have hb : extBody (.sigalgs l) = u16 (w16s l).length ++ (w16s l ++ []) := by simp [extBody]
  rw [hb, armSignatureAlgorithms, readU16LP_lp _ _ (by simp; omega)]
  simp only [isEmpty_false_of_ne (w16s_ne_nil h1), Bool.false_eq_true, if_false, readU16s_w16s]

theorem arm_points (l : Bytes) (m : ClientHello) (h1 : l ≠ []) (h2 : l.length < 256) :
    armSupportedPoints (extBody (.points l)) m = some ({ m with supportedPoints := l }, []) := by
  have hb : extBody (.points l) = u8 l.length ++ (l ++ []) := by simp [extBody]
  rw [hb, armSupportedPoints, readU8LP_lp _ _ h2]
  simp only [isEmpty_false_of_ne h1, Bool.false_eq_true, if_false]

theorem arm_ticket (t : Bytes) (m : ClientHello) :
    armSessionTicket (extBody (.ticket t)) m = some ({ m with ticketSupported := true, sessionTicket := t }, []) := by
  have := readBytes_append t []
  simp only [List.append_nil] at this
  simp only [extBody, armSessionTicket, this]

theorem arm_reneg (m : ClientHello) :
    armRenegotiationInfo (extBody .reneg) m =
      some ({ m with secureRenegotiation := [], secureRenegotiationSupported := true }, []) := by
  simp [extBody, armRenegotiationInfo, readU8LP, readU8, readBytes]

theorem arm_status (m : ClientHello) :
    armStatusRequest (extBody .status) m = some ({ m with ocspStapling := true }, []) := by
  simp [extBody, armStatusRequest, readU16LP, readU16, readU8, readBytes, statusTypeOCSP]

/-- `ext_parse_back`, all types at once: in the domain `extOk`, the switch arm selected by the type the
    encoder wrote, applied to the extension_data the encoder wrote, succeeds (including the
    trailing-data check) and yields exactly the configured value in the corresponding field. -/
theorem parseExt_extBody (e : Ext) (m : ClientHello) (isLast : Bool) (hn : e ≠ .null) (h : extOk e m = true) :
    parseExt (extType e) (extBody e) isLast m = some (applyExt e m) := by
  cases e with
  | null => exact absurd rfl hn
  | sni ds =>
    match ds, h with
    | [name], h =>
      simp only [extOk, decide_eq_true_eq] at h
      simp [parseExt, extType, extensionServerName, arm_sni name m h.1 h.2.1 h.2.2.1 h.2.2.2, finish, applyExt]
    | [], h => simp [extOk] at h
    | _ :: _ :: _, h => simp [extOk] at h
  | alpn ps =>
    simp only [extOk, decide_eq_true_eq] at h
    simp [parseExt, extType, extensionServerName, extensionStatusRequest, extensionSupportedCurves,
      extensionSupportedPoints, extensionSessionTicket, extensionSignatureAlgorithms,
      extensionSignatureAlgorithmsCert, extensionRenegotiationInfo, extensionALPN,
      arm_alpn ps m h.1 h.2.1 h.2.2, finish, applyExt]
  | reneg =>
    simp [parseExt, extType, extensionServerName, extensionStatusRequest, extensionSupportedCurves,
      extensionSupportedPoints, extensionSessionTicket, extensionSignatureAlgorithms,
      extensionSignatureAlgorithmsCert, extensionRenegotiationInfo, arm_reneg, finish, applyExt]
  | ems =>
    simp [parseExt, extType, extBody, extensionServerName, extensionStatusRequest, extensionSupportedCurves,
      extensionSupportedPoints, extensionSessionTicket, extensionSignatureAlgorithms,
      extensionSignatureAlgorithmsCert, extensionRenegotiationInfo, extensionALPN, extensionSCT,
      extensionSupportedVersions, extensionCookie, extensionKeyShare, extensionEarlyData, extensionPSKModes,
      extensionPreSharedKey, extensionExtendedRandom, extensionExtendedMasterSecret, finish, applyExt]
  | status =>
    simp [parseExt, extType, extensionServerName, extensionStatusRequest, arm_status, finish, applyExt]
  | sct =>
    simp [parseExt, extType, extBody, extensionServerName, extensionStatusRequest, extensionSupportedCurves,
      extensionSupportedPoints, extensionSessionTicket, extensionSignatureAlgorithms,
      extensionSignatureAlgorithmsCert, extensionRenegotiationInfo, extensionALPN, extensionSCT, finish, applyExt]
  | curves l =>
    simp only [extOk, decide_eq_true_eq] at h
    simp [parseExt, extType, extensionServerName, extensionStatusRequest, extensionSupportedCurves,
      arm_curves l m h.1 h.2, finish, applyExt]
  | points l =>
    simp only [extOk, decide_eq_true_eq] at h
    simp [parseExt, extType, extensionServerName, extensionStatusRequest, extensionSupportedCurves,
      extensionSupportedPoints, arm_points l m h.1 h.2, finish, applyExt]
  | ticket t =>
    simp [parseExt, extType, extensionServerName, extensionStatusRequest, extensionSupportedCurves,
      extensionSupportedPoints, extensionSessionTicket, arm_ticket, finish, applyExt]
  | sigalgs l =>
    simp only [extOk, decide_eq_true_eq] at h
    simp [parseExt, extType, extensionServerName, extensionStatusRequest, extensionSupportedCurves,
      extensionSupportedPoints, extensionSessionTicket, extensionSignatureAlgorithms,
      arm_sigalgs l m h.1 h.2, finish, applyExt]

theorem extBody_length_lt (e : Ext) (m : ClientHello) (h : extOk e m = true) : (extBody e).length < 65536 := by
  cases e with
  | sni ds =>
    match ds, h with
    | [name], h =>
      simp only [extOk, decide_eq_true_eq] at h
      simp [extBody, sniNames]; omega
    | [], h => simp [extOk] at h
    | _ :: _ :: _, h => simp [extOk] at h
  | alpn ps => simp only [extOk, decide_eq_true_eq] at h; simp [extBody]; omega
  | curves l => simp only [extOk, decide_eq_true_eq] at h; simp [extBody]; omega
  | sigalgs l => simp only [extOk, decide_eq_true_eq] at h; simp [extBody]; omega
  | points l => simp only [extOk, decide_eq_true_eq] at h; simp [extBody]; omega
  | ticket t => simp only [extOk, decide_eq_true_eq] at h; simpa [extBody] using h
  | null => simp [extBody]
  | reneg => simp [extBody]
  | ems => simp [extBody]
  | status => simp [extBody]
  | sct => simp [extBody]

/-- the loop consumes one encoded extension and continues with the updated message -/
theorem parseExts_marshalExt (e : Ext) (rest : Bytes) (m : ClientHello) (h : extOk e m = true) :
    parseExts (marshalExt e ++ rest) m = parseExts rest (applyExt e m) := by
  by_cases hn : e = .null
  · subst hn; simp [marshalExt, applyExt]
  · rw [marshalExt_frame e hn]
    simp only [List.append_assoc]
    rw [parseExts_step (extType_lt e) (extBody e) rest (extBody_length_lt e m h) m,
      parseExt_extBody e m rest.isEmpty hn h]

/-- the list of extensions is in the domain: each one is, in the state the parser has reached -/
def extsOk (m : ClientHello) : List Ext → Bool
  | [] => true
  | e :: es => extOk e m && extsOk (applyExt e m) es

def applyExts (m : ClientHello) (es : List Ext) : ClientHello := es.foldl (fun m e => applyExt e m) m

theorem parseExts_marshalExts (es : List Ext) (m : ClientHello) (h : extsOk m es = true) :
    parseExts (marshalExts es) m = some (applyExts m es) := by
  induction es generalizing m with
  | nil => simp [marshalExts, applyExts, parseExts_nil]
  | cons e t ih =>
    simp only [extsOk, Bool.and_eq_true] at h
    have : marshalExts (e :: t) = marshalExt e ++ marshalExts t := by simp [marshalExts]
    rw [this, parseExts_marshalExt e _ m h.1, ih _ h.2]
    simp [applyExts]


/-! ### what a list of extensions leaves in each field -/

theorem applyExt_header (e : Ext) (m : ClientHello) :
    (applyExt e m).vers = m.vers ∧ (applyExt e m).random = m.random ∧ (applyExt e m).sessionId = m.sessionId ∧
    (applyExt e m).cipherSuites = m.cipherSuites ∧ (applyExt e m).compressionMethods = m.compressionMethods := by
  cases e with
  | sni ds =>
    match ds with
    | [] => simp [applyExt]
    | [n] => simp [applyExt]
    | _ :: _ :: _ => simp [applyExt]
  | _ => simp [applyExt]

theorem applyExts_header (es : List Ext) (m : ClientHello) :
    (applyExts m es).vers = m.vers ∧ (applyExts m es).random = m.random ∧ (applyExts m es).sessionId = m.sessionId ∧
    (applyExts m es).cipherSuites = m.cipherSuites ∧ (applyExts m es).compressionMethods = m.compressionMethods := by
  induction es generalizing m with
  | nil => simp [applyExts]
  | cons e t ih =>
    have h1 := applyExt_header e m
    have h2 := ih (applyExt e m)
    simp only [applyExts, List.foldl_cons] at h2 ⊢
    refine ⟨h2.1.trans h1.1, h2.2.1.trans h1.2.1, h2.2.2.1.trans h1.2.2.1, h2.2.2.2.1.trans h1.2.2.2.1,
      h2.2.2.2.2.trans h1.2.2.2.2⟩

/-- no built-in extension writes the parsed message's supported_versions -/
theorem applyExt_supportedVersions (e : Ext) (m : ClientHello) :
    (applyExt e m).supportedVersions = m.supportedVersions := by
  cases e with
  | sni ds =>
    match ds with
    | [] => simp [applyExt]
    | [n] => simp [applyExt]
    | _ :: _ :: _ => simp [applyExt]
  | _ => simp [applyExt]

theorem applyExts_supportedVersions (es : List Ext) (m : ClientHello) :
    (applyExts m es).supportedVersions = m.supportedVersions := by
  induction es generalizing m with
  | nil => simp [applyExts]
  | cons e t ih =>
    have h2 := ih (applyExt e m)
    simp only [applyExts, List.foldl_cons] at h2 ⊢
    exact h2.trans (applyExt_supportedVersions e m)

theorem applyExts_cons (e : Ext) (t : List Ext) (m : ClientHello) :
    applyExts m (e :: t) = applyExts (applyExt e m) t := rfl

/-- the curves of all SupportedCurvesExtensions, in order -/
def curvesOf : Ext → List Nat
  | .curves l => l.map (·.toNat)
  | _ => []
def sigalgsOf : Ext → List Nat
  | .sigalgs l => l.map (·.toNat)
  | _ => []
def alpnOf : Ext → List Bytes
  | .alpn ps => ps
  | _ => []

theorem applyExts_lists (es : List Ext) (m : ClientHello) :
    (applyExts m es).supportedCurves = m.supportedCurves ++ es.flatMap curvesOf ∧
    (applyExts m es).sigAlgs = m.sigAlgs ++ es.flatMap sigalgsOf ∧
    (applyExts m es).alpnProtocols = m.alpnProtocols ++ es.flatMap alpnOf := by
  induction es generalizing m with
  | nil => simp [applyExts]
  | cons e t ih =>
    have h2 := ih (applyExt e m)
    rw [applyExts_cons]
    cases e with
    | sni ds =>
      match ds with
      | [] => simpa [applyExt, curvesOf, sigalgsOf, alpnOf] using h2
      | [n] => simpa [applyExt, curvesOf, sigalgsOf, alpnOf] using h2
      | _ :: _ :: _ => simpa [applyExt, curvesOf, sigalgsOf, alpnOf] using h2
    | _ => simpa [applyExt, curvesOf, sigalgsOf, alpnOf, List.append_assoc] using h2

/-- presence flags only ever go up -/
theorem applyExt_flags (e : Ext) (m : ClientHello) :
    (m.extendedMasterSecret = true → (applyExt e m).extendedMasterSecret = true) ∧
    (m.ocspStapling = true → (applyExt e m).ocspStapling = true) ∧
    (m.scts = true → (applyExt e m).scts = true) ∧
    (m.secureRenegotiationSupported = true → (applyExt e m).secureRenegotiationSupported = true) ∧
    (m.ticketSupported = true → (applyExt e m).ticketSupported = true) := by
  cases e with
  | sni ds =>
    match ds with
    | [] => simp [applyExt]
    | [n] => simp [applyExt]
    | _ :: _ :: _ => simp [applyExt]
  | _ => simp [applyExt]

theorem applyExts_flags_mono (es : List Ext) (m : ClientHello) :
    (m.extendedMasterSecret = true → (applyExts m es).extendedMasterSecret = true) ∧
    (m.ocspStapling = true → (applyExts m es).ocspStapling = true) ∧
    (m.scts = true → (applyExts m es).scts = true) ∧
    (m.secureRenegotiationSupported = true → (applyExts m es).secureRenegotiationSupported = true) ∧
    (m.ticketSupported = true → (applyExts m es).ticketSupported = true) := by
  induction es generalizing m with
  | nil => simp [applyExts]
  | cons e t ih =>
    have h1 := applyExt_flags e m
    have h2 := ih (applyExt e m)
    rw [applyExts_cons]
    exact ⟨fun h => h2.1 (h1.1 h), fun h => h2.2.1 (h1.2.1 h), fun h => h2.2.2.1 (h1.2.2.1 h),
      fun h => h2.2.2.2.1 (h1.2.2.2.1 h), fun h => h2.2.2.2.2 (h1.2.2.2.2 h)⟩

theorem applyExts_flags (es : List Ext) (m : ClientHello) :
    (.ems ∈ es → (applyExts m es).extendedMasterSecret = true) ∧
    (.status ∈ es → (applyExts m es).ocspStapling = true) ∧
    (.sct ∈ es → (applyExts m es).scts = true) ∧
    (.reneg ∈ es → (applyExts m es).secureRenegotiationSupported = true) ∧
    (∀ t, .ticket t ∈ es → (applyExts m es).ticketSupported = true) := by
  induction es generalizing m with
  | nil => simp
  | cons e t ih =>
    have h2 := ih (applyExt e m)
    have hm := applyExts_flags_mono t (applyExt e m)
    rw [applyExts_cons]
    refine ⟨?_, ?_, ?_, ?_, ?_⟩
    · intro h
      rcases List.mem_cons.mp h with h | h
      · subst h; exact hm.1 rfl
      · exact h2.1 h
    · intro h
      rcases List.mem_cons.mp h with h | h
      · subst h; exact hm.2.1 rfl
      · exact h2.2.1 h
    · intro h
      rcases List.mem_cons.mp h with h | h
      · subst h; exact hm.2.2.1 rfl
      · exact h2.2.2.1 h
    · intro h
      rcases List.mem_cons.mp h with h | h
      · subst h; exact hm.2.2.2.1 rfl
      · exact h2.2.2.2.1 h
    · intro tk h
      rcases List.mem_cons.mp h with h | h
      · subst h; exact hm.2.2.2.2 rfl
      · exact h2.2.2.2.2 tk h

/-- once a host name is stored, an in-domain list cannot contain another SNI extension, and nothing else
    touches the field -/
theorem applyExts_serverName_keep (es : List Ext) (m : ClientHello) (hne : m.serverName ≠ [])
    (hok : extsOk m es = true) : (applyExts m es).serverName = m.serverName := by
  induction es generalizing m with
  | nil => rfl
  | cons e t ih =>
    simp only [extsOk, Bool.and_eq_true] at hok
    rw [applyExts_cons]
    have hkeep : (applyExt e m).serverName = m.serverName := by
      cases e with
      | sni ds =>
        match ds, hok with
        | [], _ => rfl
        | [n], hok => simp [extOk, hne] at hok
        | _ :: _ :: _, _ => rfl
      | _ => rfl
    rw [ih (applyExt e m) (by rw [hkeep]; exact hne) hok.2, hkeep]

theorem applyExts_serverName (es : List Ext) (m : ClientHello) (name : Bytes) (h0 : m.serverName = [])
    (hok : extsOk m es = true) (hmem : .sni [name] ∈ es) : (applyExts m es).serverName = name := by
  induction es generalizing m with
  | nil => simp at hmem
  | cons e t ih =>
    simp only [extsOk, Bool.and_eq_true] at hok
    rw [applyExts_cons]
    by_cases he : e = .sni [name]
    · subst he
      have hn : name ≠ [] := by
        have := hok.1; simp only [extOk, decide_eq_true_eq] at this; exact this.1
      have : (applyExt (.sni [name]) m).serverName = name := rfl
      rw [applyExts_serverName_keep t _ (by rw [this]; exact hn) hok.2, this]
    · have hmem' : .sni [name] ∈ t := by
        rcases List.mem_cons.mp hmem with h | h
        · exact absurd h.symm he
        · exact h
      cases e with
      | sni ds =>
        match ds, hok with
        | [], hok => simp [extOk] at hok
        | _ :: _ :: _, hok => simp [extOk] at hok
        | [n], hok =>
          -- a different host name first: then `t` could not contain another SNI extension
          have hn : n ≠ [] := by
            have := hok.1; simp only [extOk, decide_eq_true_eq] at this; exact this.1
          exfalso
          have hkeep : ∀ (l : List Ext) (m' : ClientHello), m'.serverName ≠ [] → extsOk m' l = true →
              .sni [name] ∉ l := by
            intro l
            induction l with
            | nil => intro _ _ _ h; simp at h
            | cons a l' ihl =>
              intro m' hne' hok' hm
              simp only [extsOk, Bool.and_eq_true] at hok'
              have hk : (applyExt a m').serverName = m'.serverName := by
                cases a with
                | sni ds' =>
                  match ds', hok' with
                  | [], _ => rfl
                  | [x], hok' => simp [extOk, hne'] at hok'
                  | _ :: _ :: _, _ => rfl
                | _ => rfl
              rcases List.mem_cons.mp hm with h | h
              · subst h; simp [extOk, hne'] at hok'
              · exact ihl (applyExt a m') (by rw [hk]; exact hne') hok'.2 h
          exact hkeep t (applyExt (.sni [n]) m) (by simpa [applyExt] using hn) hok.2 hmem'
      | _ => exact ih _ (by simpa [applyExt] using h0) hok.2 hmem'

/-! ### the structure of a successful `marshal` -/

/-- the message body (after the 4-byte handshake header) that `marshal` assembles -/
def helloBody (cfg : Cfg) (random : Bytes) : Bytes :=
  w16 cfg.vers ++ (random ++ (u8 cfg.sessionId.length ++ (cfg.sessionId ++ (suiteBlock cfg.suites ++
    (u8 cfg.comp.length ++ (cfg.comp ++ extBlock cfg.exts))))))

theorem randomField_length {cfg : Cfg} {rand : Bytes} {time : Nat} {random : Bytes}
    (h : randomField cfg rand time = some random) : random.length = 32 := by
  unfold randomField at h
  split at h
  · cases h; assumption
  · split at h
    · split at h
      · cases h
      · cases h; simp; omega
    · split at h
      · cases h
      · cases h; simp; omega

theorem marshal_some {cfg : Cfg} {force : Bool} {rand : Bytes} {time : Nat} {out : Bytes}
    (h : marshal cfg force rand time = some out) :
    ∃ random, randomField cfg rand time = some random ∧
      cfg.exts.all checkExt = true ∧
      (force = true ∨ cfg.suites.all (fun s => Gen.implementedSuites.contains s.toNat) = true) ∧
      cfg.sessionId.length < 256 ∧ cfg.comp = [0] ∧
      (helloBody cfg random).length < 16777216 ∧
      out = 1 :: (u24 (helloBody cfg random).length ++ helloBody cfg random) := by
  unfold marshal at h
  split at h
  · cases h
  · rename_i hchk
    split at h
    · cases h
    · rename_i random hrand
      refine ⟨random, hrand, by simpa using hchk, ?_⟩
      simp only at h
      split at h
      · cases h
      · rename_i hsid
        split at h
        · cases h
        · rename_i hsuites
          split at h
          · cases h
          · rename_i hcomp
            split at h
            · cases h
            · rename_i c0 rest hc
              split at h
              · cases h
              · rename_i hc0
                split at h
                · cases h
                · rename_i hrest
                  split at h
                  · cases h
                  · rename_i hlen
                    have hc0' : c0 = 0 := by simpa using hc0
                    have hrest' : rest = [] := by
                      cases rest with
                      | nil => rfl
                      | cons a t => simp at hrest
                    subst hc0' hrest'
                    have hbody : ([1, 0, 0, 0] ++ w16 cfg.vers ++ random ++ (u8 cfg.sessionId.length ++ cfg.sessionId) ++
                        suiteBlock cfg.suites ++ (u8 cfg.comp.length ++ cfg.comp) ++ extBlock cfg.exts) =
                        1 :: 0 :: 0 :: 0 :: helloBody cfg random := by
                      simp [helloBody]
                    rw [hbody] at h hlen
                    simp only [List.length_cons, Nat.add_sub_cancel, List.drop_succ_cons, List.drop_zero] at h hlen
                    refine ⟨?_, by omega, hc, by omega, ?_⟩
                    · cases force <;> simp_all
                    · cases h; simp

theorem applyExts_append (a b : List Ext) (m : ClientHello) :
    applyExts m (a ++ b) = applyExts (applyExts m a) b := by
  simp [applyExts, List.foldl_append]

theorem applyExts_points_keep (es : List Ext) (m : ClientHello) (h : ∀ l, .points l ∉ es) :
    (applyExts m es).supportedPoints = m.supportedPoints := by
  induction es generalizing m with
  | nil => rfl
  | cons e t ih =>
    rw [applyExts_cons, ih _ (fun l hl => h l (List.mem_cons_of_mem _ hl))]
    cases e with
    | points l => exact absurd (List.mem_cons_self ..) (h l)
    | sni ds =>
      match ds with
      | [] => rfl
      | [n] => rfl
      | _ :: _ :: _ => rfl
    | _ => rfl

theorem applyExts_ticket_keep (es : List Ext) (m : ClientHello) (h : ∀ l, .ticket l ∉ es) :
    (applyExts m es).sessionTicket = m.sessionTicket := by
  induction es generalizing m with
  | nil => rfl
  | cons e t ih =>
    rw [applyExts_cons, ih _ (fun l hl => h l (List.mem_cons_of_mem _ hl))]
    cases e with
    | ticket l => exact absurd (List.mem_cons_self ..) (h l)
    | sni ds =>
      match ds with
      | [] => rfl
      | [n] => rfl
      | _ :: _ :: _ => rfl
    | _ => rfl

/-- the last PointFormatExtension / SessionTicketExtension wins (the parser overwrites these fields) -/
theorem applyExts_points_last (pre post : List Ext) (l : Bytes) (m : ClientHello) (h : ∀ l', .points l' ∉ post) :
    (applyExts m (pre ++ .points l :: post)).supportedPoints = l := by
  rw [applyExts_append, applyExts_cons, applyExts_points_keep post _ h]; rfl

theorem applyExts_ticket_last (pre post : List Ext) (t : Bytes) (m : ClientHello) (h : ∀ t', .ticket t' ∉ post) :
    (applyExts m (pre ++ .ticket t :: post)).sessionTicket = t := by
  rw [applyExts_append, applyExts_cons, applyExts_ticket_keep post _ h]; rfl

/-- converse of `marshal_some`: when no guard fires, `marshal` produces header ‖ body -/
theorem marshal_of_guards (cfg : Cfg) (force : Bool) (rand : Bytes) (time : Nat) (random : Bytes)
    (hr : randomField cfg rand time = some random)
    (hchk : cfg.exts.all checkExt = true)
    (hsu : force = true ∨ cfg.suites.all (fun s => Gen.implementedSuites.contains s.toNat) = true)
    (hsid : cfg.sessionId.length < 256) (hcomp : cfg.comp = [0])
    (hlen : (helloBody cfg random).length < 16777216) :
    marshal cfg force rand time = some (1 :: (u24 (helloBody cfg random).length ++ helloBody cfg random)) := by
  have hbody : ([1, 0, 0, 0] ++ w16 cfg.vers ++ random ++ (u8 cfg.sessionId.length ++ cfg.sessionId) ++
      suiteBlock cfg.suites ++ (u8 cfg.comp.length ++ cfg.comp) ++ extBlock cfg.exts) =
      1 :: 0 :: 0 :: 0 :: helloBody cfg random := by
    simp [helloBody]
  have hsu' : (!force && !cfg.suites.all (fun s => Gen.implementedSuites.contains s.toNat)) = false := by
    rcases hsu with h | h
    · simp [h]
    · rw [h]; simp
  unfold marshal
  simp only [hchk, Bool.not_true, Bool.false_eq_true, if_false, hr, hsu']
  have h1 : ¬ cfg.sessionId.length ≥ 256 := by omega
  simp only [h1, if_false]
  rw [hcomp] at hbody ⊢
  simp only [hbody]
  simp only [List.length_cons, List.length_nil, List.drop_succ_cons, List.drop_zero]
  simp
  exact hlen


/-! ### the hello a real client sends (`wireHello`) -/

/-- without `Autopopulate` entries `ClientFingerprintConfiguration.WriteToConfig` leaves the list alone -/
theorem wtcLoop_plain (fuel i : Nat) (exts : List WExt) (sn : Bytes)
    (h : ∀ w ∈ exts, w.auto = false) : (wtcLoop fuel i exts sn).1 = exts := by
  induction fuel generalizing i sn with
  | zero => simp [wtcLoop]
  | succ n ih =>
    simp only [wtcLoop]
    cases hg : exts[i]? with
    | none => simp
    | some w =>
      have hw : w.auto = false := h w (List.mem_of_getElem? hg)
      simp only [hw]
      split <;> simp [ih]

/-- without `Autopopulate` entries the session-ticket loop changes nothing and reads no randomness -/
theorem ticketLoop_plain (session : Option Bytes) (force : Bool) (rsid : Nat) (exts : List WExt) (sid rand : Bytes)
    (h : ∀ w ∈ exts, w.auto = false) : ticketLoop session force rsid exts sid rand = some (exts, sid, rand) := by
  induction exts with
  | nil => simp [ticketLoop]
  | cons w rest ih =>
    have hw : w.auto = false := h w (by simp)
    have hr : ∀ w ∈ rest, w.auto = false := fun x hx => h x (by simp [hx])
    simp [ticketLoop, hw, ih hr]

end ZV.C29
