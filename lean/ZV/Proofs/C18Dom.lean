import ZV.Proofs.C18
import ZV.Proofs.C18Leaf
import ZV.Proofs.C18Opt
import ZV.Proofs.C18Seq
/-!
  C18: the DOMAIN of the round-trip theorem (`InDomain`, decidable), the equivalence `VEq` up to which a value comes back
  (SET OF members as a multiset, nil = empty for slices), the sub-domain `Exact` on which it comes back identically, and the
  per-field facts the main induction (ZV.Props.C18) needs.
-/
namespace ZV.C18

theorem goodB_good (p : Params) (h : goodB p = true) : Good p := by
  unfold goodB at h
  simp only [Bool.and_eq_true, Bool.not_eq_true', Bool.or_eq_true, beq_iff_eq, Bool.and_eq_false_imp] at h
  obtain ⟨⟨h2, h4⟩, h5⟩ := h
  refine ⟨fun ⟨a, b⟩ => by simp [h2 a] at b, ?_, ?_, by omega⟩
  · intro tg ht; rw [ht] at h4; simpa using h4
  · intro he ht; rw [ht] at h4; simp [he] at h4

theorem good_default : Good {} := goodB_good {} (by decide)

/-- the leaf kinds -/
def isLeaf : Schema → Bool
  | .struct _ => false | .seqOf _ _ => false | .fnil => false | .fcons _ _ _ => false | _ => true

theorem InDomain_leaf (s : Schema) (p : Params) (v : Val) (h : isLeaf s = true) :
    InDomain s p v = (goodB p && (if omitted s p v then absentOK s p v else leafOK s p v)) := by
  cases s <;> first | (simp [isLeaf] at h; done) | simp only [InDomain]

/-- nil `[]byte` and the empty `[]byte` are the same value for the property -/
def normBytes : Val → Val
  | .null => .bytes []
  | v => v

/-- equality of leaf values, nil = empty for `[]byte` -/
def leafEq (s : Schema) (v v' : Val) : Prop :=
  match s with
  | .octets => normBytes v = normBytes v'
  | _ => v = v'

/-- **`v ≈ v'` at type `s` under parameters `p`**: equal leaf for leaf (nil `[]byte` = empty `[]byte`), structs field by
    field, SEQUENCE OF element by element in order (nil slice = empty slice), SET OF (`set` parameter or a slice type named
    `…SET`) up to a PERMUTATION of the elements (Marshal sorts the element encodings). -/
def VEq : Schema → Params → Val → Val → Prop
  | .struct fs, _, v, v' => VEq fs {} v v'
  | .seqOf sn e, p, v, v' =>
    if p.set || sn then ∃ l, l.Perm (elems v) ∧ All2 (fun a b => VEq e {} a b) l (elems v')
    else All2 (fun a b => VEq e {} a b) (elems v) (elems v')
  | .fcons q s rest, _, v, v' =>
    (match v, v' with
     | .vcons a as, .vcons b bs => VEq s q a b ∧ VEq rest {} as bs
     | _, _ => v = v')
  | .fnil, _, v, v' => v = v'
  | .int64, _, v, v' => v = v'
  | .int32, _, v, v' => v = v'
  | .enum, _, v, v' => v = v'
  | .bigint, _, v, v' => v = v'
  | .bool, _, v, v' => v = v'
  | .oid, _, v, v' => v = v'
  | .bits, _, v, v' => v = v'
  | .octets, _, v, v' => normBytes v = normBytes v'
  | .str, _, v, v' => v = v'
  | .raw, _, v, v' => v = v'
  | .flag, _, v, v' => v = v'

theorem VEq_leaf (s : Schema) (p : Params) (v v' : Val) (h : isLeaf s = true) : VEq s p v v' = leafEq s v v' := by
  cases s <;> first | (simp [isLeaf] at h; done) | simp only [VEq, leafEq]

theorem All2_refl {α : Type} {R : α → α → Prop} : ∀ (l : List α), (∀ a ∈ l, R a a) → All2 R l l
  | [], _ => trivial
  | a :: as, h => ⟨h a (by simp), All2_refl as (fun x hx => h x (by simp [hx]))⟩

theorem VEq_refl (s : Schema) : ∀ p v, VEq s p v v := by
  induction s with
  | struct fs ih => intro p v; simp only [VEq]; exact ih {} v
  | seqOf sn e ih =>
    intro p v
    simp only [VEq]
    split_ifs
    · exact ⟨elems v, List.Perm.refl _, All2_refl _ (fun a _ => ih {} a)⟩
    · exact All2_refl _ (fun a _ => ih {} a)
  | fcons q s rest ihs ihr =>
    intro p v
    cases v <;> simp only [VEq]
    exact ⟨ihs _ _, ihr _ _⟩
  | _ => intro p v; simp only [VEq]

/-- what the main induction establishes for one field -/
def RT (s : Schema) (p : Params) (v : Val) (enc rest : Bytes) : Prop :=
  ∃ v', parseField false s p (enc ++ rest) = .ok (v', rest) ∧ VEq s p v v' ∧ makeField s p v' = .ok enc ∧
    (Exact s p v = true → v' = v) ∧ (v' = zeroVal s → v = zeroVal s)

theorem makeField_univ (s : Schema) (p : Params) (v : Val) (enc : Bytes) (h : makeField s p v = .ok enc) :
    univ s ≠ none := by
  cases s <;> simp [makeField, univ] at h ⊢

/-- a left-out field of the domain round-trips (identically) in front of anything that lets the decoder skip it -/
theorem absent_rt (s : Schema) (p : Params) (v : Val) (enc rest : Bytes) (hm : makeField s p v = .ok enc)
    (homit : omitted s p v = true) (hab : absentOK s p v = true) (hsk : Skips s p rest) : RT s p v enc rest := by
  have hu := makeField_univ s p v enc hm
  simp only [absentOK, Bool.and_eq_true, beq_iff_eq] at hab
  obtain ⟨⟨hopt, hv⟩, _⟩ := hab
  rw [makeField_omitted s p v hu homit] at hm
  simp only [Res.ok.injEq] at hm
  subst hm
  refine ⟨dfltVal s p, ?_, ?_, ?_, fun _ => hv.symm, fun h => by rw [hv]; exact h⟩
  · simp only [List.nil_append]; exact parseField_absent s p rest hu hopt hsk
  · rw [hv]; exact VEq_refl s p _
  · exact makeField_omitted s p _ hu (omitted_dflt s p v homit)

theorem parseField_leaf (s : Schema) (perm : Bool) (p : Params) (bs : Bytes) (h : isLeaf s = true) :
    parseField perm s p bs = primField perm s p bs := by
  cases s <;> first | (simp [isLeaf] at h; done) | simp only [parseField]

theorem makeField_leaf (s : Schema) (p : Params) (v : Val) (h : isLeaf s = true) (hr : isRaw s = false) :
    makeField s p v = primMake s p v := by
  cases s <;> first | (simp [isLeaf] at h; done) | (simp [isRaw] at hr; done) | simp only [makeField]

/-- a present leaf of the domain round-trips in front of anything -/
theorem leaf_present (s : Schema) (p : Params) (v : Val) (enc rest : Bytes) (hleaf : isLeaf s = true) (hg : Good p)
    (hok : leafOK s p v = true) (homit : omitted s p v = false) (hm : makeField s p v = .ok enc)
    (hlen : enc.length < 2147483648) : RT s p v enc rest := by
  suffices h : ∃ v', primField false s p (enc ++ rest) = .ok (v', rest) ∧ leafEq s v v' ∧ makeField s p v' = .ok enc ∧
      (Exact s p v = true → v' = v) ∧ (v' = zeroVal s → v = zeroVal s) by
    obtain ⟨v', h1, h2, h3⟩ := h
    exact ⟨v', by rw [parseField_leaf s false p _ hleaf]; exact h1, by rw [VEq_leaf s p v _ hleaf]; exact h2, h3⟩
  cases s with
  | struct _ => simp [isLeaf] at hleaf
  | seqOf _ _ => simp [isLeaf] at hleaf
  | fnil => simp [isLeaf] at hleaf
  | fcons _ _ _ => simp [isLeaf] at hleaf
  | bool =>
    cases v <;> simp only [leafOK, Bool.false_eq_true] at hok
    simp only [makeField] at hm
    exact ⟨_, bool_field_roundtrip p _ enc rest hg homit hm hlen, rfl, by simpa [makeField] using hm, fun _ => rfl, fun h => h⟩
  | flag =>
    cases v <;> simp only [leafOK, Bool.false_eq_true] at hok
    subst hok
    simp only [makeField] at hm
    exact ⟨_, flag_field_roundtrip p _ enc rest hg homit hm hlen, rfl, by simpa [makeField] using hm, fun _ => rfl, fun h => h⟩
  | octets =>
    cases v <;> simp only [leafOK, Bool.false_eq_true] at hok
    · simp only [makeField] at hm
      exact ⟨_, octets_field_roundtrip p _ enc rest hg homit hm hlen, rfl, by simpa [makeField] using hm, fun _ => rfl, fun h => h⟩
    · simp only [makeField] at hm
      refine ⟨_, octets_null_roundtrip p enc rest hg homit hm hlen, rfl, ?_, ?_, fun h => by simp [zeroVal] at h⟩
      · simp only [makeField]; rw [octets_null_same p homit]; exact hm
      · intro h; simp [Exact, homit] at h
  | str =>
    cases v <;> simp only [leafOK, Bool.false_eq_true] at hok
    simp only [makeField] at hm
    exact ⟨_, str_field_roundtrip p _ enc rest hg hok homit hm hlen, rfl, by simpa [makeField] using hm, fun _ => rfl, fun h => h⟩
  | int64 =>
    cases v <;> simp only [leafOK, Bool.false_eq_true, Bool.and_eq_true, decide_eq_true_eq] at hok
    simp only [makeField] at hm
    exact ⟨_, int64_field_roundtrip p _ enc rest hg hok.1 hok.2 homit hm hlen, rfl, by simpa [makeField] using hm, fun _ => rfl, fun h => h⟩
  | int32 =>
    cases v <;> simp only [leafOK, Bool.false_eq_true, Bool.and_eq_true, decide_eq_true_eq] at hok
    simp only [makeField] at hm
    exact ⟨_, int32_field_roundtrip p _ enc rest hg hok.1 hok.2 homit hm hlen, rfl, by simpa [makeField] using hm, fun _ => rfl, fun h => h⟩
  | enum =>
    cases v <;> simp only [leafOK, Bool.false_eq_true, Bool.and_eq_true, decide_eq_true_eq] at hok
    simp only [makeField] at hm
    exact ⟨_, enum_field_roundtrip p _ enc rest hg hok.1 hok.2 homit hm hlen, rfl, by simpa [makeField] using hm, fun _ => rfl, fun h => h⟩
  | bigint =>
    cases v <;> simp only [leafOK, Bool.false_eq_true] at hok
    simp only [makeField] at hm
    exact ⟨_, bigint_field_roundtrip p _ enc rest hg homit hm hlen, rfl, by simpa [makeField] using hm, fun _ => rfl, fun h => h⟩
  | oid =>
    cases v <;> simp only [leafOK, Bool.false_eq_true] at hok
    simp only [makeField] at hm
    exact ⟨_, oid_field_roundtrip p _ enc rest hg hok homit hm hlen, rfl, by simpa [makeField] using hm, fun _ => rfl, fun h => h⟩
  | bits =>
    cases v <;> simp only [leafOK, Bool.false_eq_true] at hok
    simp only [makeField] at hm
    exact ⟨_, bits_field_roundtrip p _ _ enc rest hg hok homit hm hlen, rfl, by simpa [makeField] using hm, fun _ => rfl, fun h => h⟩
  | raw =>
    cases v <;> simp only [leafOK, Bool.false_eq_true, Bool.and_eq_true, Option.isNone_iff_eq_none] at hok
    exact ⟨_, raw_field_roundtrip p _ _ _ _ _ enc rest hg hok.1 hok.2 homit hm hlen, rfl, hm, fun _ => rfl, fun h => h⟩

theorem InDomain_good (s : Schema) (p : Params) (v : Val) (enc : Bytes) (hd : InDomain s p v = true)
    (hm : makeField s p v = .ok enc) : Good p := by
  apply goodB_good
  cases s <;> first
    | (simp [makeField] at hm; done)
    | (simp only [InDomain, Bool.and_eq_true] at hd; first | exact hd.1 | exact hd.1.1)

theorem InDomain_raw (p : Params) (v : Val) (hd : InDomain .raw p v = true) (homit : omitted .raw p v = false) :
    ∀ cls tag comp bs full, v = .raw cls tag comp bs full → rawOK cls tag comp bs full = true := by
  intro cls tag comp bs full hv
  subst hv
  simp only [InDomain, homit, Bool.false_eq_true, if_false, leafOK, Bool.and_eq_true] at hd
  exact hd.2.2

/-- header of the encoding of a field list: empty iff all fields are left out, else it starts with the identifier of the first
    present field -/
def HdrFact (h : Option (Nat × Nat × Bool)) (enc : Bytes) : Prop :=
  match h with
  | none => enc = []
  | some h => ∃ t r, parseTL false enc = .ok (t, r) ∧ (t.cls, t.tag, t.compound) = h

theorem fields_hdr (s : Schema) : ∀ v enc, InDomain s {} v = true → makeFields s v = .ok enc →
    enc.length < 2147483648 → HdrFact (firstHdr s v) enc := by
  induction s with
  | fnil =>
    intro v enc hd hm _
    cases v <;> simp [makeFields] at hm
    subst hm
    simp [firstHdr, HdrFact]
  | fcons p s r _ ihr =>
    intro v enc hd hm hl
    cases v <;> simp only [InDomain, Bool.false_eq_true, Bool.and_eq_true] at hd
    rename_i x xs
    simp only [makeFields] at hm
    cases h1 : makeField s p x with
    | err => rw [h1] at hm; cases hm
    | panic => rw [h1] at hm; cases hm
    | ok b =>
      rw [h1] at hm
      cases h2 : makeFields r xs with
      | err => rw [h2] at hm; cases hm
      | panic => rw [h2] at hm; cases hm
      | ok bs =>
        rw [h2] at hm
        simp only [Res.ok.injEq] at hm
        subst hm
        simp only [List.length_append] at hl
        have hu := makeField_univ s p x b h1
        simp only [firstHdr]
        cases homit : omitted s p x with
        | true =>
          rw [makeField_omitted s p x hu homit] at h1
          simp only [Res.ok.injEq] at h1
          subst h1
          simp only [if_true, List.nil_append]
          exact ihr xs bs hd.1.2 h2 (by omega)
        | false =>
          simp only [Bool.false_eq_true, if_false]
          have hg := InDomain_good s p x b hd.1.1 h1
          obtain ⟨t, r', hp, hf⟩ := field_hdr s p x b bs hg h1 homit (by omega)
            (fun cls tag comp bs full hs hv => by subst hs; exact InDomain_raw p x hd.1.1 homit cls tag comp bs full hv)
          rw [hf]
          exact ⟨t, r', hp, rfl⟩
  | _ => intro v enc hd hm _; simp [makeFields] at hm

/-- a present slice element has the shape the first pass of `parseSequenceOf` checks -/
theorem elem_shape (e : Schema) (x : Val) (b : Bytes) (ma : Bool) (etag : Nat) (ecomp : Bool)
    (hd : InDomain e {} x = true) (hm : makeField e {} x = .ok b) (hl : b.length < 2147483648)
    (hu : univ e = some (ma, etag, ecomp)) : ElemShape ma etag ecomp b := by
  have homit : omitted e {} x = false := omitted_false e {} x rfl rfl
  by_cases hr : isRaw e = true
  · have hs : e = .raw := by cases e <;> simp_all [isRaw]
    subst hs
    simp only [univ, Option.some.injEq, Prod.mk.injEq] at hu
    simp only [makeField, homit, Bool.false_eq_true, if_false] at hm
    cases x <;> simp only [reduceCtorEq] at hm
    rename_i cls tag comp bs full
    have hok := InDomain_raw {} _ hd homit cls tag comp bs full rfl
    simp only [rawOK, Bool.and_eq_true, decide_eq_true_eq] at hok
    obtain ⟨⟨hc, ht⟩, hfull⟩ := hok
    have hfl : full.length ≠ 0 := by
      have := appendTL_length_pos { cls := cls, tag := tag, len := bs.length, compound := comp }
      rw [hfull, List.length_append]; omega
    simp only [hfl, ne_eq, not_false_eq_true, if_true, Res.ok.injEq] at hm
    subst hm
    exact ⟨_, bs, hfull, rfl, hc, ht, Or.inl hu.1.symm⟩
  · have hr' : isRaw e = false := by simpa using hr
    obtain ⟨ma', utag0, comp, tag, body, hu', henc, ht30, htag⟩ := makeField_shape e {} x b good_default hm homit hr'
    rw [hu] at hu'
    simp only [Option.some.injEq, Prod.mk.injEq] at hu'
    obtain ⟨rfl, rfl, rfl⟩ := hu'
    refine ⟨{ cls := 0, tag := tag, len := body.length, compound := ecomp }, body, by rw [henc]; rfl, rfl, by simp, by simp; omega,
      Or.inr ⟨rfl, rfl, ?_⟩⟩
    simp only
    by_cases h19 : etag = 19
    · rw [if_pos h19] at htag
      subst h19
      unfold marshalTag at htag
      simp only [if_true] at htag
      cases x <;> simp only [reduceCtorEq] at htag
      rcases stringTag_cases {} _ tag htag with ⟨_, h, _⟩ | ⟨_, h, _⟩ | ⟨h, _⟩
      · subst h; decide
      · subst h; decide
      · exact absurd rfl h
    · rw [if_neg h19] at htag
      simp only [Bool.false_eq_true, if_false, Option.some.injEq] at htag
      subst htag
      cases e <;> simp only [univ, Option.some.injEq, Prod.mk.injEq, reduceCtorEq] at hu <;>
        first
          | (obtain ⟨_, rfl, _⟩ := hu; first | decide | exact absurd rfl h19)
          | (rename_i sn _; obtain ⟨_, rfl, _⟩ := hu; cases sn <;> decide)

theorem allChain_mem (f : Val → Bool) : ∀ v, allChain f v = true → ∀ x ∈ elems v, f x = true := by
  intro v
  induction v with
  | vcons a r _ ihr =>
    intro h x hx
    simp only [allChain, Bool.and_eq_true] at h
    simp only [elems, List.mem_cons] at hx
    rcases hx with rfl | hx
    · exact h.1
    · exact ihr h.2 x hx
  | _ => intro _ x hx; simp [elems] at hx

/-- the decoded (non-nil) slice is left out by Marshal no more than the original was -/
theorem omitted_seq_ofList (sn : Bool) (e : Schema) (p : Params) (v : Val) (ys : List Val) (f : Val → Res Bytes)
    (encs : List Bytes) (homit : omitted (.seqOf sn e) p v = false) (hmap : mapElems f v = .ok encs)
    (hlen : (elems v).length = ys.length) : omitted (.seqOf sn e) p (ofList ys) = false := by
  unfold omitted at homit ⊢
  simp only [isSliceKind, isIntKind, zeroVal, Bool.true_and, Bool.false_and, Bool.or_eq_false_iff,
    Bool.and_eq_false_iff] at homit ⊢
  constructor
  · rcases homit.1 with h | h
    · left
      cases v with
      | vcons a r =>
        simp only [elems, List.length_cons] at hlen
        cases ys with
        | nil => simp at hlen
        | cons y ys' => simp [ofList, lenZero]
      | vnil => simp [lenZero] at h
      | null => simp [lenZero] at h
      | _ => simp [mapElems] at hmap
    · right; exact h
  · cases ys <;> cases p.optional <;> cases p.defaultValue <;> simp [ofList]

end ZV.C18
