import ZV.Proofs.Time
/-!
  Digit fields, `time.Parse` and `Time.Format` of `ZV.Model.Time` on the texts that the encoders write.
-/
namespace ZV.Time
open ZV

/-! ## digits -/

theorem digit_toNat (n : Nat) : (digit n).toNat = 48 + n % 10 := by
  simp [digit]
  omega

theorem isDigit_digit (n : Nat) : isDigit (digit n) = true := by
  simp [isDigit, digit_toNat]
  omega

theorem commaOrPeriod_digit (n : Nat) : commaOrPeriod (digit n) = false := by
  simp [commaOrPeriod, digit_toNat]
  omega

theorem getnum_digits (v : Nat) (hv : v < 100) (r : Bytes) (fixed : Bool) :
    getnum (digit (v / 10) :: digit v :: r) fixed = some (v, r) := by
  simp [getnum, isDigit_digit, digit_toNat]
  omega

theorem leadingInt_digit (x n : Nat) (r : Bytes) (hx : x < 100000000000000000) :
    leadingInt x (digit n :: r) = leadingInt (x * 10 + n % 10) r := by
  have h := digit_toNat n
  have e2 : ¬ ((digit n).toNat < 48 ∨ (digit n).toNat > 57) := by omega
  have e3 : ¬ (x > 9223372036854775808 / 10) := by omega
  have e4 : ¬ (x * 10 + ((digit n).toNat - 48) > 9223372036854775808) := by omega
  rw [leadingInt]
  simp only [e2, e3, e4, if_false]
  congr 1
  omega

theorem atoi_digits_aux (d0 : Nat) (r : Bytes) :
    atoi (digit d0 :: r) =
      (match leadingInt 0 (digit d0 :: r) with
       | none => none
       | some (q, rem) => if !rem.isEmpty then none else some (q : Int)) := by
  have h := digit_toNat d0
  have e1 : ¬ ((digit d0).toNat = 45 ∨ (digit d0).toNat = 43) := by omega
  have e1' : ¬ ((digit d0).toNat = 45) := by omega
  have e1'' : ¬ ((digit d0).toNat = 43) := by omega
  simp only [atoi, e1', e1'', or_self, if_false, decide_false]
  cases leadingInt 0 (digit d0 :: r) with
  | none => rfl
  | some p => simp

theorem atoi_two (v : Nat) (hv : v < 100) : atoi [digit (v / 10), digit v] = some (v : Int) := by
  rw [atoi_digits_aux, leadingInt_digit _ _ _ (by omega), leadingInt_digit _ _ _ (by omega)]
  simp [leadingInt]
  omega

theorem atoi_four (v : Nat) (hv : v < 10000) :
    atoi [digit (v / 1000), digit (v / 100), digit (v / 10), digit v] = some (v : Int) := by
  rw [atoi_digits_aux, leadingInt_digit _ _ _ (by omega), leadingInt_digit _ _ _ (by omega),
    leadingInt_digit _ _ _ (by omega), leadingInt_digit _ _ _ (by omega)]
  simp [leadingInt]
  omega

/-! ## one iteration of `parse` on a two-digit field -/

theorem step_year (st : PState) (v : Nat) (hv : v < 100) (r : Bytes) :
    step .year st (digit (v / 10) :: digit v :: r) =
      some ({ st with year := if (v : Int) ≥ 69 then (v : Int) + 1900 else (v : Int) + 2000 }, r) := by
  simp [step, atoi_two v hv]

theorem step_longYear (st : PState) (v : Nat) (hv : v < 10000) (r : Bytes) :
    step .longYear st (digit (v / 1000) :: digit (v / 100) :: digit (v / 10) :: digit v :: r) =
      some ({ st with year := (v : Int) }, r) := by
  simp [step, isDigitAt, isDigit_digit, atoi_four v hv]

theorem step_zeroMonth (st : PState) (v : Nat) (h1 : 1 ≤ v) (h2 : v ≤ 12) (r : Bytes) :
    step .zeroMonth st (digit (v / 10) :: digit v :: r) = some ({ st with month := (v : Int) }, r) := by
  have : ¬ (v = 0 ∨ 12 < v) := by omega
  simp [step, getnum_digits v (by omega), this]

theorem step_zeroDay (st : PState) (v : Nat) (hv : v < 100) (r : Bytes) :
    step .zeroDay st (digit (v / 10) :: digit v :: r) = some ({ st with day := (v : Int) }, r) := by
  simp [step, getnum_digits v hv]

theorem step_hour (st : PState) (v : Nat) (hv : v < 24) (r : Bytes) :
    step .hour st (digit (v / 10) :: digit v :: r) = some ({ st with hour := v }, r) := by
  have : ¬ (24 ≤ v) := by omega
  simp [step, getnum_digits v (by omega), this]

theorem step_zeroMinute (st : PState) (v : Nat) (hv : v < 60) (r : Bytes) :
    step .zeroMinute st (digit (v / 10) :: digit v :: r) = some ({ st with min := v }, r) := by
  have : ¬ (60 ≤ v) := by omega
  simp [step, getnum_digits v (by omega), this]

/-- the seconds field, followed by something that does not start a fraction -/
theorem step_zeroSecond (st : PState) (v : Nat) (hv : v < 60) (r : Bytes)
    (hr : ∀ c0 r', r = c0 :: r' → commaOrPeriod c0 = false) :
    step .zeroSecond st (digit (v / 10) :: digit v :: r) = some ({ st with sec := v }, r) := by
  have : ¬ (60 ≤ v) := by omega
  simp only [step, getnum_digits v (by omega), this, if_false]
  match r, hr with
  | [], _ => rfl
  | [_], _ => rfl
  | c0 :: c1 :: r2, hr => simp [hr c0 _ rfl]

/-! ## the zone chunk -/

theorem step_tz_Z (st : PState) : step .isoTZ st [90] = some ({ st with utc := true }, []) := by
  simp [step]

theorem step_tz_num (st : PState) (sg : UInt8) (hh mm : Nat) (hsg : sg.toNat = 43 ∨ sg.toNat = 45)
    (hhh : hh ≤ 24) (hmm : mm < 60) :
    step .isoTZ st [sg, digit (hh / 10), digit hh, digit (mm / 10), digit mm] =
      some ({ st with zoneOffset := if sg.toNat = 43 then (((hh * 60 + mm) * 60 : Nat) : Int)
                                     else - (((hh * 60 + mm) * 60 : Nat) : Int) }, []) := by
  have h90 : ¬ (sg.toNat = 90) := by omega
  have hr : ¬ (hh > 24 ∨ mm > 60) := by omega
  simp only [step, h90, if_false, List.length_cons, List.length_nil]
  simp only [show ¬ (0 + 1 + 1 + 1 + 1 + 1 < 5) by omega, if_false, List.drop_succ_cons, List.drop_zero, List.take_succ_cons,
    List.take_zero, getnum_digits hh (by omega), getnum_digits mm (by omega), hr]
  rcases hsg with h | h
  · simp [h]
  · have : ¬ (sg.toNat = 43) := by omega
    simp [h, this]

/-! ## the date / clock fields followed by a zone text -/

/-- MMDDhhmmss -/
def fieldsText (c : Civil) : Bytes :=
  EA.twoDigits c.month ++ EA.twoDigits c.day ++ EA.twoDigits c.hour ++ EA.twoDigits c.min ++ EA.twoDigits c.sec

def PState.withFields (st : PState) (c : Civil) : PState :=
  { st with month := (c.month : Int), day := (c.day : Int), hour := c.hour, min := c.min, sec := c.sec }

theorem daysIn_le (m : Nat) (y : Int) : daysIn m y ≤ 31 := by
  unfold daysIn
  split <;> (try split) <;> omega

theorem parseLoop_fields (st : PState) (c : Civil) (hv : c.valid = true) (z : Bytes) (f : PState → PState)
    (hz : ∀ s, step .isoTZ s z = some (f s, []))
    (hz0 : ∀ c0 r', z = c0 :: r' → commaOrPeriod c0 = false) :
    parseLoop [.zeroMonth, .zeroDay, .hour, .zeroMinute, .zeroSecond, .isoTZ] st (fieldsText c ++ z) =
      some (f (st.withFields c)) := by
  obtain ⟨hm1, hm2, hd1, hd2, hh, hmi, hs⟩ := (valid_iff c).1 hv
  have hd3 := daysIn_le c.month c.year
  simp only [fieldsText, EA.twoDigits, List.cons_append, List.nil_append, List.append_assoc]
  rw [parseLoop, step_zeroMonth _ _ hm1 hm2]; simp only
  rw [parseLoop, step_zeroDay _ _ (by omega)]; simp only
  rw [parseLoop, step_hour _ _ hh]; simp only
  rw [parseLoop, step_zeroMinute _ _ hmi]; simp only
  rw [parseLoop, step_zeroSecond _ _ hs _ hz0]; simp only
  rw [parseLoop, hz]; simp only
  simp [parseLoop, PState.withFields]

/-! ## Go's truncated division by 60 -/

theorem tdiv_tmod_60 (a : Int) :
    (0 ≤ a → Int.tdiv a 60 = a / 60 ∧ Int.tmod a 60 = a % 60) ∧
    (a ≤ 0 → Int.tdiv a 60 = -((-a) / 60) ∧ Int.tmod a 60 = -((-a) % 60)) := by
  constructor
  · intro h
    exact ⟨Int.tdiv_eq_ediv_of_nonneg h, Int.tmod_eq_emod_of_nonneg h⟩
  · intro h
    have h' : 0 ≤ -a := by omega
    have e1 := Int.neg_tdiv (-a) 60
    have e2 := Int.neg_tmod (-a) 60
    rw [Int.neg_neg] at e1 e2
    rw [e1, e2, Int.tdiv_eq_ediv_of_nonneg h', Int.tmod_eq_emod_of_nonneg h']
    exact ⟨rfl, rfl⟩

/-- `readBack` spelled with floor division (the form `omega` understands) -/
theorem tmod_cases (a : Int) :
    (0 ≤ a ∧ Int.tdiv a 60 = a / 60 ∧ Int.tmod a 60 = a % 60) ∨
    (a < 0 ∧ Int.tdiv a 60 = -((-a) / 60) ∧ Int.tmod a 60 = -((-a) % 60)) := by
  by_cases h : 0 ≤ a
  · exact Or.inl ⟨h, (tdiv_tmod_60 a).1 h⟩
  · exact Or.inr ⟨by omega, (tdiv_tmod_60 a).2 (by omega)⟩

/-! ## the zone text of `appendTimeCommon` -/

/-- `Z`, or sign and hhmm of the offset truncated to minutes -/
def zoneText (off : Int) : Bytes :=
  if Int.tdiv off 60 = 0 then [90]
  else [if off > 0 then 43 else 45] ++ EA.twoDigits ((Int.tdiv off 60).natAbs / 60) ++
    EA.twoDigits ((Int.tdiv off 60).natAbs % 60)

/-- what the zone chunk leaves in the parse state -/
def zoneState (off : Int) (s : PState) : PState :=
  if Int.tdiv off 60 = 0 then { s with utc := true } else { s with zoneOffset := 60 * Int.tdiv off 60 }

theorem appendTimeCommon_eq (t : GoTime) :
    EA.appendTimeCommon t = fieldsText t.civil ++ zoneText t.off := by
  simp only [EA.appendTimeCommon, fieldsText, zoneText, GoTime.civil, ofUnix_off]
  by_cases h : Int.tdiv t.off 60 = 0
  · simp only [h, if_true]
  · simp only [h, if_false, List.append_assoc]
    rfl

theorem zoneText_not_fraction (off : Int) :
    ∀ c0 r', zoneText off = c0 :: r' → commaOrPeriod c0 = false := by
  intro c0 r' h
  unfold zoneText at h
  split at h
  · simp only [List.cons.injEq] at h; rw [← h.1]; decide
  · simp only [List.cons_append, List.nil_append, List.cons.injEq] at h
    rw [← h.1]; split <;> decide

theorem step_zoneText (off : Int) (h1 : -90000 < off) (h2 : off < 90000) (s : PState) :
    step .isoTZ s (zoneText off) = some (zoneState off s, []) := by
  unfold zoneText zoneState
  have hc := tmod_cases off
  generalize Int.tdiv off 60 = k at hc ⊢
  generalize Int.tmod off 60 = r at hc
  by_cases hk : k = 0
  · rw [if_pos hk, if_pos hk]; exact step_tz_Z s
  · rw [if_neg hk, if_neg hk]
    simp only [EA.twoDigits, List.cons_append, List.nil_append]
    rw [step_tz_num s _ _ _ (by split <;> simp) (by omega) (by omega)]
    by_cases hp : off > 0
    · simp only [hp, if_true]
      have : (43 : UInt8).toNat = 43 := rfl
      simp only [this, if_true]
      have : (((k.natAbs / 60 * 60 + k.natAbs % 60) * 60 : Nat) : Int) = 60 * k := by omega
      rw [this]
    · simp only [hp, if_false]
      have : ¬ ((45 : UInt8).toNat = 43) := by decide
      simp only [this, if_false]
      have : - (((k.natAbs / 60 * 60 + k.natAbs % 60) * 60 : Nat) : Int) = 60 * k := by omega
      rw [this]

/-! ## `finish` on the state reached from such a text -/

theorem toUnix_off0 (c : Civil) : toUnix { c with off := 0 } = toUnix c + c.off := by
  simp only [toUnix]; omega

theorem finish_zoneState (c : Civil) (hv : c.valid = true) (st : PState) (hy : st.year = c.year)
    (hn : st.nsec = 0) (hu : st.utc = false) :
    finish (zoneState c.off (st.withFields c)) =
      some { unix := toUnix c + Int.tmod c.off 60, off := c.off - Int.tmod c.off 60, nsec := 0 } := by
  obtain ⟨hm1, hm2, hd1, hd2, hh, hmi, hs⟩ := (valid_iff c).1 hv
  have hsplit := Int.mul_tdiv_add_tmod c.off 60
  unfold zoneState
  by_cases hk : Int.tdiv c.off 60 = 0
  · rw [if_pos hk]
    simp only [finish, PState.withFields, hy, hn]
    have e1 : ¬ ((c.month : Int) < 0) := by omega
    have e2 : ¬ ((c.day : Int) < 0) := by omega
    simp only [e1, e2, if_false, Int.toNat_natCast]
    have e3 : ¬ ((c.day : Int) < 1 ∨ (c.day : Int) > (daysIn c.month c.year : Int)) := by omega
    simp only [e3, if_false, if_true, date]
    rw [toUnix_off0 c]
    simp only [Option.some.injEq, GoTime.mk.injEq, and_true]
    omega
  · rw [if_neg hk]
    simp only [finish, PState.withFields, hy, hn, hu]
    have e1 : ¬ ((c.month : Int) < 0) := by omega
    have e2 : ¬ ((c.day : Int) < 0) := by omega
    simp only [e1, e2, if_false, Int.toNat_natCast]
    have e3 : ¬ ((c.day : Int) < 1 ∨ (c.day : Int) > (daysIn c.month c.year : Int)) := by omega
    have e4 : (60 * Int.tdiv c.off 60 ≠ -1) := by omega
    simp only [e3, if_false, Bool.false_eq_true, ne_eq, e4, not_false_eq_true, if_true, date]
    rw [toUnix_off0 c]
    simp only [Option.some.injEq, GoTime.mk.injEq, and_true]
    omega

/-- **`time.Parse("20060102150405Z0700", …)` of YYYYMMDDhhmmss + zone text.** -/
theorem parse_gen_text (c : Civil) (hv : c.valid = true) (hy0 : 0 ≤ c.year) (hy1 : c.year ≤ 9999)
    (h1 : -90000 < c.off) (h2 : c.off < 90000) :
    parse layoutGen (EA.fourDigits c.year.toNat ++ (fieldsText c ++ zoneText c.off)) =
      some { unix := toUnix c + Int.tmod c.off 60, off := c.off - Int.tmod c.off 60, nsec := 0 } := by
  simp only [parse, layoutGen, EA.fourDigits, List.cons_append, List.nil_append]
  rw [parseLoop, step_longYear _ _ (by omega)]
  simp only
  rw [parseLoop_fields _ c hv (zoneText c.off) (zoneState c.off) (step_zoneText c.off h1 h2)
    (zoneText_not_fraction c.off)]
  simp only
  exact finish_zoneState c hv _ (by simp only []; omega) rfl rfl

/-- **`time.Parse("060102150405Z0700", …)` of YYMMDDhhmmss + zone text**: the year is 19YY for YY ≥ 69, else 20YY. -/
theorem parse_utcsec_text (c : Civil) (hv : c.valid = true) (yy : Nat) (hyy : yy < 100)
    (hy : c.year = if (yy : Int) ≥ 69 then (yy : Int) + 1900 else (yy : Int) + 2000)
    (h1 : -90000 < c.off) (h2 : c.off < 90000) :
    parse layoutUTCSec (EA.twoDigits yy ++ (fieldsText c ++ zoneText c.off)) =
      some { unix := toUnix c + Int.tmod c.off 60, off := c.off - Int.tmod c.off 60, nsec := 0 } := by
  simp only [parse, layoutUTCSec, EA.twoDigits, List.cons_append, List.nil_append]
  rw [parseLoop, step_year _ _ hyy]
  simp only
  rw [parseLoop_fields _ c hv (zoneText c.off) (zoneState c.off) (step_zoneText c.off h1 h2)
    (zoneText_not_fraction c.off)]
  simp only
  exact finish_zoneState c hv _ (by simp only []; rw [hy]) rfl rfl

/-- the zone chunk of the layout WITHOUT seconds fails on "ss" + zone text -/
theorem step_tz_on_seconds (st : PState) (v : Nat) (off : Int) :
    step .isoTZ st (digit (v / 10) :: digit v :: zoneText off) = none := by
  have hd := digit_toNat (v / 10)
  have h90 : ¬ ((digit (v / 10)).toNat = 90) := by omega
  unfold zoneText
  by_cases hk : Int.tdiv off 60 = 0
  · rw [if_pos hk]
    simp [step, h90]
  · rw [if_neg hk]
    have hs : isDigit (if off > 0 then (43 : UInt8) else 45) = false := by split <;> decide
    simp [step, h90, EA.twoDigits, getnum, isDigit_digit, hs]

/-- **`time.Parse("0601021504Z0700", …)` rejects the form with seconds** that `appendUTCTime` writes. -/
theorem parse_utcmin_text (c : Civil) (hv : c.valid = true) (yy : Nat) (hyy : yy < 100) :
    parse layoutUTCMin (EA.twoDigits yy ++ (fieldsText c ++ zoneText c.off)) = none := by
  obtain ⟨hm1, hm2, hd1, hd2, hh, hmi, hs⟩ := (valid_iff c).1 hv
  have hd3 := daysIn_le c.month c.year
  simp only [parse, layoutUTCMin, fieldsText, EA.twoDigits, List.cons_append, List.nil_append, List.append_assoc]
  rw [parseLoop, step_year _ _ hyy]; simp only
  rw [parseLoop, step_zeroMonth _ _ hm1 hm2]; simp only
  rw [parseLoop, step_zeroDay _ _ (by omega)]; simp only
  rw [parseLoop, step_hour _ _ hh]; simp only
  rw [parseLoop, step_zeroMinute _ _ hmi]; simp only
  rw [parseLoop, step_tz_on_seconds]

/-! ## `Time.Format` -/

theorem appendInt_two (v : Nat) (hv : v < 100) : appendInt (v : Int) 2 = EA.twoDigits v := by
  have : ¬ ((v : Int) < 0) := by omega
  simp [appendInt, hv, this, EA.twoDigits]

theorem appendInt_four (y : Int) (h0 : 0 ≤ y) (h1 : y ≤ 9999) : appendInt y 4 = EA.fourDigits y.toNat := by
  have e1 : ¬ (y < 0) := by omega
  have e2 : y.natAbs < 10000 := by omega
  have e3 : y.natAbs = y.toNat := by omega
  have e4 : y.toNat < 10000 := by omega
  simp only [appendInt, e1, e3, e4, EA.fourDigits, if_false, and_true, and_self, if_true, List.nil_append]
  simp

/-- the zone text of `Format` equals that of `appendTimeCommon` unless the offset is a non-zero number of seconds
    below one minute (where `Format` writes `+0000` and `appendTimeCommon` writes `Z`). -/
theorem formatChunk_tz (cv : Civil) (h1 : -360000 < cv.off) (h2 : cv.off < 360000)
    (hz : cv.off = 0 ∨ Int.tdiv cv.off 60 ≠ 0) : formatChunk .isoTZ cv = zoneText cv.off := by
  unfold formatChunk zoneText
  have hc := tmod_cases cv.off
  by_cases h0 : cv.off = 0
  · simp [h0]
  · have hk : Int.tdiv cv.off 60 ≠ 0 := by rcases hz with h | h; exact absurd h h0; exact h
    simp only [h0, if_false, hk]
    generalize Int.tdiv cv.off 60 = k at hc hk ⊢
    generalize Int.tmod cv.off 60 = r at hc
    by_cases hneg : k < 0
    · have hp : ¬ (cv.off > 0) := by omega
      simp only [hneg, if_true, hp, if_false]
      have e1 : (-k) / 60 = ((k.natAbs / 60 : Nat) : Int) := by omega
      have e2 : (-k) % 60 = ((k.natAbs % 60 : Nat) : Int) := by omega
      rw [e1, e2, appendInt_two _ (by omega), appendInt_two _ (by omega)]
      simp
    · have hp : cv.off > 0 := by omega
      simp only [hneg, if_false, hp, if_true]
      have e1 : k / 60 = ((k.natAbs / 60 : Nat) : Int) := by omega
      have e2 : k % 60 = ((k.natAbs % 60 : Nat) : Int) := by omega
      rw [e1, e2, appendInt_two _ (by omega), appendInt_two _ (by omega)]
      simp

theorem format_fields (cv : Civil) (hv : cv.valid = true) :
    formatChunk .zeroMonth cv ++ (formatChunk .zeroDay cv ++ (formatChunk .hour cv ++
      (formatChunk .zeroMinute cv ++ formatChunk .zeroSecond cv))) = fieldsText cv := by
  obtain ⟨hm1, hm2, hd1, hd2, hh, hmi, hs⟩ := (valid_iff cv).1 hv
  have hd3 := daysIn_le cv.month cv.year
  simp only [formatChunk, fieldsText, appendInt_two _ (show cv.month < 100 by omega),
    appendInt_two _ (show cv.day < 100 by omega), appendInt_two _ (show cv.hour < 100 by omega),
    appendInt_two _ (show cv.min < 100 by omega), appendInt_two _ (show cv.sec < 100 by omega),
    List.append_assoc]

/-- `t.Format("20060102150405Z0700")` -/
theorem format_gen_eq (t : GoTime) (hy0 : 0 ≤ t.year) (hy1 : t.year ≤ 9999) (h1 : -360000 < t.off) (h2 : t.off < 360000)
    (hz : t.off = 0 ∨ Int.tdiv t.off 60 ≠ 0) :
    format layoutGen t = EA.fourDigits t.year.toNat ++ (fieldsText t.civil ++ zoneText t.off) := by
  have hv : t.civil.valid = true := ofUnix_valid _ _
  have hoff : t.civil.off = t.off := rfl
  simp only [format, layoutGen, List.map_cons, List.map_nil, List.flatten_cons, List.flatten_nil, List.append_nil]
  rw [← format_fields t.civil hv, ← hoff, ← formatChunk_tz t.civil (by rw [hoff]; exact h1) (by rw [hoff]; exact h2)
    (by rw [hoff]; exact hz)]
  simp only [formatChunk, List.append_assoc]
  have : appendInt t.civil.year 4 = EA.fourDigits t.year.toNat := appendInt_four _ hy0 hy1
  rw [this]

/-- `t.Format("060102150405Z0700")` -/
theorem format_utcsec_eq (t : GoTime) (h1 : -360000 < t.off) (h2 : t.off < 360000)
    (hz : t.off = 0 ∨ Int.tdiv t.off 60 ≠ 0) :
    format layoutUTCSec t = EA.twoDigits (t.year.natAbs % 100) ++ (fieldsText t.civil ++ zoneText t.off) := by
  have hv : t.civil.valid = true := ofUnix_valid _ _
  have hoff : t.civil.off = t.off := rfl
  simp only [format, layoutUTCSec, List.map_cons, List.map_nil, List.flatten_cons, List.flatten_nil, List.append_nil]
  rw [← format_fields t.civil hv, ← hoff, ← formatChunk_tz t.civil (by rw [hoff]; exact h1) (by rw [hoff]; exact h2)
    (by rw [hoff]; exact hz)]
  simp only [formatChunk, List.append_assoc]
  have : ((t.civil.year.natAbs : Int) % 100) = ((t.civil.year.natAbs % 100 : Nat) : Int) := by omega
  rw [this, appendInt_two _ (by omega)]
  rfl

end ZV.Time
