import ZV.Proofs.C21Build
/-!
  Sequencing of write programs (`Prog.seq`): the low-level Builder runs `p` then `q`; the specification
  serializer appends.  Used for the error-latching theorems of ZV/Props/C21.lean.
-/
open ZV ZV.Der0
namespace ZV.C21

theorem Res.append_assoc (a b c : Res Bytes) :
    Res.append (Res.append a b) c = Res.append a (Res.append b c) := by
  cases a <;> cases b <;> cases c <;> simp [Res.append]

theorem build_seq (p q : Prog) : ∀ b, build (p.seq q) b = build q (build p b) := by
  induction p with
  | done => intro b; rfl
  | lp n body k _ ihk => intro b; simp only [Prog.seq, build, ihk]
  | asn1 tag body k _ ihk => intro b; simp only [Prog.seq, build, ihk]
  | optAsn1 tag body k _ ihk => intro b; simp only [Prog.seq, build, ihk]
  | value body fail k _ ihk => intro b; simp only [Prog.seq, build, ihk]
  | _ => rename_i ih; intro b; simp only [Prog.seq, build, ih]

theorem ser_seq (p q : Prog) : ser (p.seq q) = Res.append (ser p) (ser q) := by
  induction p with
  | done =>
    simp only [Prog.seq, ser]
    cases ser q <;> simp [Res.append]
  | lp n body k _ ihk => simp only [Prog.seq, ser, ihk, Res.append_assoc]
  | asn1 tag body k _ ihk => simp only [Prog.seq, ser, ihk, Res.append_assoc]
  | optAsn1 tag body k _ ihk => simp only [Prog.seq, ser, ihk, Res.append_assoc]
  | value body fail k _ ihk => simp only [Prog.seq, ser, ihk, Res.append_assoc]
  | _ => rename_i ih; simp only [Prog.seq, ser, ih, Res.append_assoc]

theorem append_err_left (r : Res Bytes) (h : r ≠ .panic) : Res.append .err r = .err := by
  cases r <;> simp_all [Res.append]

theorem append_err_right (r : Res Bytes) (h : r ≠ .panic) : Res.append r .err = .err := by
  cases r <;> simp_all [Res.append]

end ZV.C21
