import ZV.Model.C12
/-! helper lemmas for `ZV.Props.C12` (kept apart from the property theorems) -/
namespace ZV.C12
open ZV.C10 ZV.C11

/-! ### `later` / `earlier` folds are max / min -/

theorem foldl_later_lt (tl : Chain) (a t : Int) :
    tl.foldl (fun lb c => later lb c.notBefore) a < t ↔ a < t ∧ ∀ c ∈ tl, c.notBefore < t := by
  induction tl generalizing a with
  | nil => simp
  | cons x tl ih =>
    simp only [List.foldl_cons, ih, List.mem_cons, forall_eq_or_imp]
    unfold later
    constructor
    · rintro ⟨h1, h2⟩
      split at h1
      · exact ⟨h1, by omega, h2⟩
      · exact ⟨by omega, h1, h2⟩
    · rintro ⟨h1, h2, h3⟩
      refine ⟨?_, h3⟩
      split <;> omega

theorem lt_foldl_earlier (tl : Chain) (a t : Int) :
    t < tl.foldl (fun ub c => earlier ub c.notAfter) a ↔ t < a ∧ ∀ c ∈ tl, t < c.notAfter := by
  induction tl generalizing a with
  | nil => simp
  | cons x tl ih =>
    simp only [List.foldl_cons, ih, List.mem_cons, forall_eq_or_imp]
    unfold earlier
    constructor
    · rintro ⟨h1, h2⟩
      split at h1
      · exact ⟨h1, by omega, h2⟩
      · exact ⟨by omega, h1, h2⟩
    · rintro ⟨h1, h2, h3⟩
      refine ⟨?_, h3⟩
      split <;> omega

theorem lowerBound_lt (leaf : Cert) (tl : Chain) (t : Int) :
    lowerBound leaf tl < t ↔ ∀ c ∈ leaf :: tl, c.notBefore < t := by
  simp only [lowerBound, foldl_later_lt, List.mem_cons, forall_eq_or_imp]

theorem lt_upperBound (leaf : Cert) (tl : Chain) (t : Int) :
    t < upperBound leaf tl ↔ ∀ c ∈ leaf :: tl, t < c.notAfter := by
  simp only [upperBound, lt_foldl_earlier, List.mem_cons, forall_eq_or_imp]

theorem lower_lt_upper (leaf : Cert) (tl : Chain) :
    lowerBound leaf tl < upperBound leaf tl ↔
      ∀ c ∈ leaf :: tl, ∀ d ∈ leaf :: tl, c.notBefore < d.notAfter := by
  rw [lt_upperBound]
  constructor
  · intro h c hc d hd
    exact (lowerBound_lt leaf tl _).mp (h d hd) c hc
  · intro h d hd
    exact (lowerBound_lt leaf tl _).mpr (fun c hc => h c hc d hd)

/-! ### `time.Time` comparisons against whole-second certificate times -/

/-- `t` is strictly earlier than `u` on the time line (seconds, then nanoseconds) -/
def Time.lt (t u : Time) : Prop := t.sec < u.sec ∨ (t.sec = u.sec ∧ t.nsec < u.nsec)

instance (t u : Time) : Decidable (t.lt u) := inferInstanceAs (Decidable (_ ∨ _))

/-- the first whole second that is not before `t` -/
def Time.up (t : Time) : Int := if t.nsec > 0 then t.sec + 1 else t.sec

theorem Time.up_bounds (t : Time) : t.sec ≤ t.up ∧ t.up ≤ t.sec + 1 := by
  unfold Time.up; split <;> omega

theorem before_iff_lt (t u : Time) : t.before u = true ↔ t.lt u := by
  simp only [Time.before, Time.lt, Bool.or_eq_true, Bool.and_eq_true, decide_eq_true_eq]

theorem after_iff_lt (t u : Time) : t.after u = true ↔ u.lt t := by
  simp only [Time.after, Time.lt, Bool.or_eq_true, Bool.and_eq_true, decide_eq_true_eq, gt_iff_lt]
  constructor
  · rintro (h | ⟨h1, h2⟩)
    · exact Or.inl h
    · exact Or.inr ⟨h1.symm, h2⟩
  · rintro (h | ⟨h1, h2⟩)
    · exact Or.inl h
    · exact Or.inr ⟨h1.symm, h2⟩

theorem ofSec_lt_iff (a : Int) (t : Time) : (Time.ofSec a).lt t ↔ a < t.up := by
  simp only [Time.lt, Time.ofSec, Time.up]
  split <;> omega

theorem lt_ofSec_iff (t : Time) (a : Int) : t.lt (Time.ofSec a) ↔ t.sec < a := by
  simp only [Time.lt, Time.ofSec]
  omega

theorem ofSec_lt_ofSec (a b : Int) : (Time.ofSec a).lt (Time.ofSec b) ↔ a < b := by
  simp only [Time.lt, Time.ofSec]
  omega

/-! ### Boolean classifiers computed by `FilterByDate` -/

/-- the `valid` flag of `FilterByDate` (false for the skipped empty chain) -/
def validB (ch : Chain) (now : Time) : Bool :=
  match ch with
  | [] => false
  | leaf :: tl => (Time.ofSec (lowerBound leaf tl)).before now && (Time.ofSec (upperBound leaf tl)).after now

/-- the `wasValid` flag of `FilterByDate` (false for the skipped empty chain) -/
def wasValidB (ch : Chain) : Bool :=
  match ch with
  | [] => false
  | leaf :: tl => (Time.ofSec (lowerBound leaf tl)).before (Time.ofSec (upperBound leaf tl))

theorem validB_iff (ch : Chain) (now : Time) :
    validB ch now = true ↔
      ch ≠ [] ∧ ∀ c ∈ ch, (Time.ofSec c.notBefore).lt now ∧ now.lt (Time.ofSec c.notAfter) := by
  cases ch with
  | nil => simp [validB]
  | cons leaf tl =>
    simp only [validB, Bool.and_eq_true, before_iff_lt, after_iff_lt, ofSec_lt_iff, lt_ofSec_iff,
      lowerBound_lt, lt_upperBound, ne_eq, reduceCtorEq, not_false_eq_true, true_and]
    constructor
    · rintro ⟨h1, h2⟩ c hc
      exact ⟨h1 c hc, h2 c hc⟩
    · intro h
      exact ⟨fun c hc => (h c hc).1, fun c hc => (h c hc).2⟩

theorem wasValidB_iff (ch : Chain) :
    wasValidB ch = true ↔ ch ≠ [] ∧ ∀ c ∈ ch, ∀ d ∈ ch, c.notBefore < d.notAfter := by
  cases ch with
  | nil => simp [wasValidB]
  | cons leaf tl =>
    simp only [wasValidB, before_iff_lt, ofSec_lt_ofSec, lower_lt_upper, ne_eq, reduceCtorEq,
      not_false_eq_true, true_and]

/-- the branch guarded by `panic("valid && !wasValid …")` is dead -/
theorem validB_wasValidB (ch : Chain) (now : Time) (h : validB ch now = true) : wasValidB ch = true := by
  cases ch with
  | nil => simp [validB] at h
  | cons leaf tl =>
    simp only [validB, Bool.and_eq_true, before_iff_lt, after_iff_lt, ofSec_lt_iff, lt_ofSec_iff] at h
    simp only [wasValidB, before_iff_lt, ofSec_lt_ofSec]
    have := now.up_bounds
    omega

/-! ### `FilterByDate` is three filters -/

def currentOf (chains : List Chain) (now : Time) : List Chain := chains.filter (fun ch => validB ch now)
def expiredOf (chains : List Chain) (now : Time) : List Chain :=
  chains.filter (fun ch => !validB ch now && wasValidB ch)
def neverOf (chains : List Chain) : List Chain := chains.filter (fun ch => !ch.isEmpty && !wasValidB ch)

theorem filterByDate_eq (chains : List Chain) (now : Time) :
    filterByDate chains now =
      .ok { current := currentOf chains now, expired := expiredOf chains now, never := neverOf chains } := by
  induction chains with
  | nil => rfl
  | cons ch rest ih =>
    cases ch with
    | nil =>
      simp only [filterByDate, ih, currentOf, expiredOf, neverOf, List.filter_cons, validB, wasValidB,
        List.isEmpty_nil, Bool.not_true, Bool.false_and, Bool.false_eq_true, if_false, Bool.and_false]
    | cons leaf tl =>
      have hv : validB (leaf :: tl) now =
          ((Time.ofSec (lowerBound leaf tl)).before now && (Time.ofSec (upperBound leaf tl)).after now) := rfl
      have hw : wasValidB (leaf :: tl) =
          (Time.ofSec (lowerBound leaf tl)).before (Time.ofSec (upperBound leaf tl)) := rfl
      have hvw := validB_wasValidB (leaf :: tl) now
      simp only [filterByDate, ih, ← hv, ← hw]
      simp only [currentOf, expiredOf, neverOf, List.filter_cons, List.isEmpty_cons, Bool.not_false,
        Bool.true_and]
      cases hvb : validB (leaf :: tl) now <;> cases hwb : wasValidB (leaf :: tl) <;> simp_all

/-- the three classes partition the non-empty chains (order inside each class is kept) -/
theorem partition_perm_aux (chains : List Chain) (now : Time) :
    (currentOf chains now ++ expiredOf chains now ++ neverOf chains).Perm
      (chains.filter (fun ch => !ch.isEmpty)) := by
  induction chains with
  | nil => exact List.Perm.refl _
  | cons ch rest ih =>
    have hvw := validB_wasValidB ch now
    cases ch with
    | nil =>
      simpa only [currentOf, expiredOf, neverOf, List.filter_cons, validB, wasValidB, List.isEmpty_nil,
        Bool.not_true, Bool.false_and, Bool.false_eq_true, if_false, Bool.and_false] using ih
    | cons leaf tl =>
      simp only [currentOf, expiredOf, neverOf, List.filter_cons, List.isEmpty_cons, Bool.not_false,
        Bool.true_and, if_true] at ih ⊢
      cases hvb : validB (leaf :: tl) now <;> cases hwb : wasValidB (leaf :: tl)
      · simp only [Bool.false_eq_true, if_false, Bool.not_false, Bool.and_false, if_true]
        exact List.perm_middle.trans (List.Perm.cons _ ih)
      · simp only [Bool.false_eq_true, if_false, Bool.not_false, Bool.and_true, if_true, Bool.not_true]
        rw [List.append_assoc, List.cons_append]
        refine List.perm_middle.trans (List.Perm.cons _ ?_)
        rw [← List.append_assoc]; exact ih
      · rw [hvb] at hvw; exact absurd (hvw rfl) (by simp [hwb])
      · simp only [if_true, Bool.not_true, Bool.false_and, Bool.false_eq_true, if_false,
          List.cons_append]
        exact List.Perm.cons _ ih

theorem mem_currentOf {chains : List Chain} {now : Time} {ch : Chain} :
    ch ∈ currentOf chains now ↔ ch ∈ chains ∧ ch ≠ [] ∧
      ∀ c ∈ ch, (Time.ofSec c.notBefore).lt now ∧ now.lt (Time.ofSec c.notAfter) := by
  simp only [currentOf, List.mem_filter, validB_iff]

theorem mem_expiredOf {chains : List Chain} {now : Time} {ch : Chain} :
    ch ∈ expiredOf chains now ↔ ch ∈ chains ∧ ch ≠ [] ∧
      (¬ ∀ c ∈ ch, (Time.ofSec c.notBefore).lt now ∧ now.lt (Time.ofSec c.notAfter)) ∧
      ∀ c ∈ ch, ∀ d ∈ ch, c.notBefore < d.notAfter := by
  simp only [expiredOf, List.mem_filter, Bool.and_eq_true, Bool.not_eq_true', wasValidB_iff]
  rw [← Bool.not_eq_true, validB_iff]
  constructor
  · rintro ⟨h1, h2, h3, h4⟩
    exact ⟨h1, h3, fun h => h2 ⟨h3, h⟩, h4⟩
  · rintro ⟨h1, h2, h3, h4⟩
    exact ⟨h1, fun h => h3 h.2, h2, h4⟩

theorem mem_neverOf {chains : List Chain} {ch : Chain} :
    ch ∈ neverOf chains ↔ ch ∈ chains ∧ ch ≠ [] ∧
      ¬ ∀ c ∈ ch, ∀ d ∈ ch, c.notBefore < d.notAfter := by
  simp only [neverOf, List.mem_filter, Bool.and_eq_true, Bool.not_eq_true', List.isEmpty_eq_false_iff]
  rw [← Bool.not_eq_true, wasValidB_iff]
  constructor
  · rintro ⟨h1, h2, h3⟩
    exact ⟨h1, h2, fun h => h3 ⟨h2, h⟩⟩
  · rintro ⟨h1, h2, h3⟩
    exact ⟨h1, h2, fun h => h3 h.2⟩

theorem mem_allChains {chains : List Chain} {now : Time} {ch : Chain} :
    ch ∈ currentOf chains now ++ expiredOf chains now ++ neverOf chains ↔ ch ∈ chains ∧ ch ≠ [] := by
  rw [(partition_perm_aux chains now).mem_iff]
  simp only [List.mem_filter, Bool.not_eq_true', List.isEmpty_eq_false_iff]

theorem filter_nonempty_eq (chains : List Chain) (h : ∀ ch ∈ chains, ch ≠ []) :
    chains.filter (fun ch => !ch.isEmpty) = chains := by
  rw [List.filter_eq_self]
  intro ch hch
  simp only [Bool.not_eq_true', List.isEmpty_eq_false_iff]
  exact h ch hch

/-! ### `parentsFromChains` -/

/-- the map update `parents[fp] = p` -/
def putParent (acc : List Cert) (p : Cert) : List Cert :=
  if acc.any (fun q => q.fp == p.fp) then acc.map (fun q => if q.fp == p.fp then p else q) else acc ++ [p]

theorem parentsFromChains_eq (chains : List Chain) :
    parentsFromChains chains = (chains.filterMap second).foldl putParent [] := rfl

theorem putParent_fps (acc : List Cert) (p : Cert) :
    (putParent acc p).map (·.fp) =
      if acc.any (fun q => q.fp == p.fp) then acc.map (·.fp) else acc.map (·.fp) ++ [p.fp] := by
  unfold putParent
  split
  · rw [List.map_map]
    apply List.map_congr_left
    intro q _
    simp only [Function.comp]
    split
    · rename_i h; exact (beq_iff_eq.mp h).symm
    · rfl
  · simp

theorem putParent_nodup (acc : List Cert) (p : Cert) (h : (acc.map (·.fp)).Nodup) :
    ((putParent acc p).map (·.fp)).Nodup := by
  rw [putParent_fps]
  split
  · exact h
  · rename_i hn
    rw [List.nodup_append]
    refine ⟨h, by simp, ?_⟩
    intro a ha b hb
    simp only [List.mem_singleton] at hb
    subst hb
    intro hab
    apply hn
    simp only [List.any_eq_true, beq_iff_eq]
    obtain ⟨q, hq, hqf⟩ := List.mem_map.mp ha
    exact ⟨q, hq, hqf.trans hab⟩

theorem mem_putParent {acc : List Cert} {p x : Cert} (h : x ∈ putParent acc p) : x ∈ acc ∨ x = p := by
  unfold putParent at h
  split at h
  · obtain ⟨q, hq, hx⟩ := List.mem_map.mp h
    split at hx
    · exact Or.inr hx.symm
    · exact Or.inl (hx ▸ hq)
  · simpa using h

theorem putParent_covers (acc : List Cert) (p x : Cert) (h : x ∈ acc ∨ x = p) :
    ∃ y ∈ putParent acc p, y.fp = x.fp := by
  unfold putParent
  split
  · rename_i hany
    rcases h with h | h
    · by_cases hx : x.fp = p.fp
      · exact ⟨p, List.mem_map.mpr ⟨x, h, by simp [hx]⟩, hx.symm⟩
      · exact ⟨x, List.mem_map.mpr ⟨x, h, by simp [hx]⟩, rfl⟩
    · subst h
      simp only [List.any_eq_true, beq_iff_eq] at hany
      obtain ⟨q, hq, hqf⟩ := hany
      exact ⟨x, List.mem_map.mpr ⟨q, hq, by simp [hqf]⟩, rfl⟩
  · rcases h with h | h
    · exact ⟨x, by simp [h], rfl⟩
    · exact ⟨x, by simp [h], rfl⟩

theorem foldl_putParent_nodup (ps acc : List Cert) (h : (acc.map (·.fp)).Nodup) :
    ((ps.foldl putParent acc).map (·.fp)).Nodup := by
  induction ps generalizing acc with
  | nil => exact h
  | cons p ps ih => exact ih _ (putParent_nodup acc p h)

theorem mem_foldl_putParent (ps acc : List Cert) (x : Cert) (h : x ∈ ps.foldl putParent acc) :
    x ∈ acc ∨ x ∈ ps := by
  induction ps generalizing acc with
  | nil => exact Or.inl h
  | cons p ps ih =>
    rcases ih _ h with h1 | h1
    · rcases mem_putParent h1 with h2 | h2
      · exact Or.inl h2
      · exact Or.inr (by simp [h2])
    · exact Or.inr (List.mem_cons_of_mem _ h1)

theorem foldl_putParent_covers (ps acc : List Cert) (x : Cert) (h : x ∈ acc ∨ x ∈ ps) :
    ∃ y ∈ ps.foldl putParent acc, y.fp = x.fp := by
  induction ps generalizing acc x with
  | nil =>
    rcases h with h | h
    · exact ⟨x, h, rfl⟩
    · cases h
  | cons p ps ih =>
    simp only [List.foldl_cons]
    rcases h with h | h
    · obtain ⟨y, hy, hyf⟩ := putParent_covers acc p x (Or.inl h)
      obtain ⟨z, hz, hzf⟩ := ih (putParent acc p) y (Or.inl hy)
      exact ⟨z, hz, hzf.trans hyf⟩
    · rcases List.mem_cons.mp h with h | h
      · obtain ⟨y, hy, hyf⟩ := putParent_covers acc p x (Or.inr h)
        obtain ⟨z, hz, hzf⟩ := ih (putParent acc p) y (Or.inl hy)
        exact ⟨z, hz, hzf.trans hyf⟩
      · exact ih _ x (Or.inr h)

theorem parentsFromChains_nodup (chains : List Chain) :
    ((parentsFromChains chains).map (·.fp)).Nodup := by
  rw [parentsFromChains_eq]
  exact foldl_putParent_nodup _ [] (by simp)

theorem parentsFromChains_sound (chains : List Chain) (p : Cert) (h : p ∈ parentsFromChains chains) :
    ∃ ch ∈ chains, second ch = some p := by
  rw [parentsFromChains_eq] at h
  rcases mem_foldl_putParent _ [] p h with h | h
  · cases h
  · exact List.mem_filterMap.mp h

theorem parentsFromChains_complete (chains : List Chain) (ch : Chain) (q : Cert)
    (hch : ch ∈ chains) (hq : second ch = some q) :
    ∃ p ∈ parentsFromChains chains, p.fp = q.fp := by
  rw [parentsFromChains_eq]
  exact foldl_putParent_covers _ [] q (Or.inr (List.mem_filterMap.mpr ⟨ch, hch, hq⟩))

/-! ### walked chains extend the start chain (so they are never empty) -/

theorem walk_prefix (g : Graph) (fuel : Nat) (soFar : List Cert) (last : Edge) :
    ∀ ch ∈ walk g fuel soFar last, soFar <+: ch := by
  induction fuel generalizing soFar last with
  | zero =>
    intro ch hch
    unfold walk at hch
    split at hch
    · simp only [List.mem_singleton] at hch; subst hch; exact List.prefix_refl _
    · split at hch
      · cases hch
      · split at hch
        · cases hch
        · rename_i heq; cases heq
  | succ n ih =>
    intro ch hch
    unfold walk at hch
    split at hch
    · simp only [List.mem_singleton] at hch; subst hch; exact List.prefix_refl _
    · split at hch
      · cases hch
      · split at hch
        · cases hch
        · rename_i heq
          cases heq
          split at hch
          · cases hch
          · simp only [List.mem_flatMap] at hch
            obtain ⟨grp, _, hch⟩ := hch
            split at hch
            · cases hch
            · simp only [List.mem_flatMap] at hch
              obtain ⟨fp, _, hch⟩ := hch
              split at hch
              · cases hch
              · split at hch
                · exact (List.prefix_append _ _).trans (ih _ _ ch hch)
                · cases hch

theorem walkChains_ne_nil (V : Ver) (g : Graph) (c : Cert) : ∀ ch ∈ walkChains V g c, ch ≠ [] := by
  intro ch hch hnil
  have := walk_prefix g _ _ _ ch hch
  subst hnil
  simp at this

/-! ### revocation sets -/

theorem oneCRL_check_iff (o : OneCRL) (c : Cert) :
    o.check c = true ↔ (c.subj, c.key) ∈ o.blocked ∨ (c.iss, c.serial) ∈ o.issuerSerial := by
  simp only [OneCRL.check, Bool.or_eq_true, List.any_eq_true, Bool.and_eq_true, beq_iff_eq]
  constructor
  · rintro (⟨b, hb, h1, h2⟩ | ⟨b, hb, h1, h2⟩)
    · left; rw [← h1, ← h2]; exact hb
    · right; rw [← h1, ← h2]; exact hb
  · rintro (h | h)
    · exact Or.inl ⟨_, h, rfl, rfl⟩
    · exact Or.inr ⟨_, h, rfl, rfl⟩

theorem crlSet_check_iff (s : CRLSet) (c : Cert) (k : Nat) :
    s.check c k = true ↔ k ∈ s.blockedSPKIs ∨ (k, c.serial) ∈ s.issuerSerial := by
  simp only [CRLSet.check, Bool.or_eq_true, List.any_eq_true, Bool.and_eq_true, beq_iff_eq]
  constructor
  · rintro (⟨b, hb, h1⟩ | ⟨b, hb, h1, h2⟩)
    · left; rw [← h1]; exact hb
    · right; rw [← h1, ← h2]; exact hb
  · rintro (h | h)
    · exact Or.inl ⟨_, h, rfl⟩
    · exact Or.inr ⟨_, h, rfl, rfl⟩

theorem revocationFlag_iff (opts : Opts) (c : Cert) (parents : List Cert) :
    revocationFlag opts c parents = true ↔
      (∃ o, opts.oneCRL = some o ∧ ((c.subj, c.key) ∈ o.blocked ∨ (c.iss, c.serial) ∈ o.issuerSerial)) ∨
      (∃ s, opts.crlSet = some s ∧
        ∃ p ∈ parents, p.key ∈ s.blockedSPKIs ∨ (p.key, c.serial) ∈ s.issuerSerial) := by
  have h1 : (∃ o, opts.oneCRL = some o ∧ ((c.subj, c.key) ∈ o.blocked ∨ (c.iss, c.serial) ∈ o.issuerSerial)) ↔
      (match opts.oneCRL with | some o => o.check c | none => false) = true := by
    cases opts.oneCRL with
    | none => simp
    | some o => simp [oneCRL_check_iff]
  have h2 : (∃ s, opts.crlSet = some s ∧
        ∃ p ∈ parents, p.key ∈ s.blockedSPKIs ∨ (p.key, c.serial) ∈ s.issuerSerial) ↔
      (match opts.crlSet with | some s => parents.any (fun p => s.check c p.key) | none => false) = true := by
    cases opts.crlSet with
    | none => simp
    | some s => simp [List.any_eq_true, crlSet_check_iff]
  rw [h1, h2]
  clear h1 h2
  unfold revocationFlag
  cases opts.oneCRL <;> cases opts.crlSet <;> simp

/-! ### certificate type, root test -/

theorem isRoot_iff' (g : Graph) (c : Cert) :
    isRoot g c = true ↔ ∃ e, findEdge g.edges c.fp = some e ∧ e.root = true := by
  unfold isRoot
  cases findEdge g.edges c.fp with
  | none => simp
  | some e => simp

theorem certType_rule (g : Graph) (c : Cert) (parents : List Cert) :
    (certType g c parents = .root ↔ isRoot g c = true) ∧
    (certType g c parents = .intermediate ↔ isRoot g c = false ∧ c.isCA = true ∧ parents ≠ []) ∧
    (certType g c parents = .leaf ↔ isRoot g c = false ∧ c.isCA = false ∧ parents ≠ []) ∧
    (certType g c parents = .unknown ↔ isRoot g c = false ∧ parents = []) := by
  unfold certType
  cases parents with
  | nil => cases isRoot g c <;> cases c.isCA <;> simp
  | cons p ps => cases isRoot g c <;> cases c.isCA <;> simp

/-! ### the assembled result, in closed form -/

/-- the `parents` field: from the chains valid at expiry when the certificate is expired at `t`,
    otherwise from the current chains -/
def parentsOf (c : Cert) (opts : Opts) (chains : List Chain) : List Cert :=
  if !timeInValidityPeriod c opts.now then
    parentsFromChains (currentOf (currentOf chains opts.now ++ expiredOf chains opts.now ++ neverOf chains)
      (Time.ofSec (c.notAfter - 1)))
  else parentsFromChains (currentOf chains opts.now)

theorem assemble_eq (g : Graph) (c : Cert) (opts : Opts) (chains : List Chain) :
    assemble g c opts chains = .ok
      { expired := !timeInValidityPeriod c opts.now
        current := currentOf chains opts.now
        expiredChains := expiredOf chains opts.now
        never := neverOf chains
        validAtExpiration :=
          currentOf (currentOf chains opts.now ++ expiredOf chains opts.now ++ neverOf chains)
            (Time.ofSec (c.notAfter - 1))
        parents := parentsOf c opts chains
        nameError := match opts.name with
          | .none => Option.none
          | n => some (!nameMatches c n)
        inRevocationSet := revocationFlag opts c (parentsOf c opts chains)
        ctype := certType g c (parentsOf c opts chains)
        parentSK := (parentsOf c opts chains).head?.map (·.sk)
        ocspCall := if ocspDue opts then some (parentsOf c opts chains).head? else none
        ocsp := if ocspDue opts then (providerOf opts).ocsp else ProvAns.zero
        crlCall := crlDue opts
        crl := if crlDue opts then (providerOf opts).crl else ProvAns.zero } := by
  simp only [assemble, filterByDate_eq]
  rfl

end ZV.C12
