import ZV.Proofs.TimeFmt
/-!
  Round trips of `ZV.Model.Time`: what the encoders of `encoding/asn1` and `cryptobyte` write is parsed back
  (`time.Parse` + the strict re-serialisation test) as `readBack t`.
-/
namespace ZV.Time
open ZV

/-! ## `readBack` -/

theorem readBack_civil (t : GoTime) :
    (readBack t).civil = { t.civil with off := t.off - Int.tmod t.off 60 } := by
  simp only [readBack, GoTime.civil]
  exact ofUnix_shift t.unix t.off (Int.tmod t.off 60)

theorem readBack_year (t : GoTime) : (readBack t).year = t.year := by
  simp only [GoTime.year, readBack_civil]

theorem fieldsText_off (c : Civil) (o : Int) : fieldsText { c with off := o } = fieldsText c := rfl

/-- the offset kept by `readBack` is a whole number of minutes -/
theorem readBack_off (t : GoTime) : (readBack t).off = 60 * Int.tdiv t.off 60 := by
  have := Int.mul_tdiv_add_tmod t.off 60
  simp only [readBack]; omega

theorem tdiv_mul60 (k : Int) : Int.tdiv (60 * k) 60 = k := by
  rcases tmod_cases (60 * k) with ⟨_, h, _⟩ | ⟨_, h, _⟩ <;> rw [h] <;> omega

theorem zoneText_readBack (t : GoTime) : zoneText (readBack t).off = zoneText t.off := by
  rw [readBack_off]
  unfold zoneText
  rw [tdiv_mul60]
  by_cases hk : Int.tdiv t.off 60 = 0
  · simp only [hk, if_true]
  · simp only [hk, if_false]
    have hc := tmod_cases t.off
    have : (60 * Int.tdiv t.off 60 > 0) ↔ (t.off > 0) := by
      generalize Int.tdiv t.off 60 = k at hc hk ⊢
      generalize Int.tmod t.off 60 = r at hc
      omega
    simp only [this]

theorem readBack_zone_ok (t : GoTime) : (readBack t).off = 0 ∨ Int.tdiv (readBack t).off 60 ≠ 0 := by
  rw [readBack_off, tdiv_mul60]
  omega

theorem readBack_bounds (t : GoTime) (h1 : -90000 < t.off) (h2 : t.off < 90000) :
    -90000 < (readBack t).off ∧ (readBack t).off < 90000 := by
  have hc := tmod_cases t.off
  simp only [readBack]
  generalize Int.tdiv t.off 60 = k at hc
  generalize Int.tmod t.off 60 = r at hc ⊢
  omega

/-- `readBack` is the identity (to the second) on zones of whole minutes -/
theorem readBack_whole (t : GoTime) (h : Int.tmod t.off 60 = 0) :
    readBack t = { unix := t.unix, off := t.off, nsec := 0 } := by
  simp only [readBack, h]; simp

theorem readBack_idem (t : GoTime) : readBack (readBack t) = readBack t := by
  have h : Int.tmod (readBack t).off 60 = 0 := by
    rw [readBack_off]
    rcases tmod_cases (60 * Int.tdiv t.off 60) with ⟨_, _, h⟩ | ⟨_, _, h⟩ <;> rw [h] <;> omega
  rw [readBack_whole _ h]
  simp [readBack]

/-! ## the common text -/

/-- the text that `appendGeneralizedTime` writes -/
def genText (t : GoTime) : Bytes := EA.fourDigits t.year.toNat ++ (fieldsText t.civil ++ zoneText t.off)

/-- the text that `appendUTCTime` writes -/
def utcText (t : GoTime) : Bytes :=
  EA.twoDigits (t.year.natAbs % 100) ++ (fieldsText t.civil ++ zoneText t.off)

theorem zoneText_length (off : Int) : (zoneText off).length ≤ 5 := by
  unfold zoneText; split <;> simp [EA.twoDigits]

theorem genText_length (t : GoTime) : (genText t).length ≤ 19 := by
  have := zoneText_length t.off
  simp only [genText, fieldsText, EA.fourDigits, EA.twoDigits, List.length_append, List.length_cons, List.length_nil]
  omega

theorem genText_readBack (t : GoTime) : genText (readBack t) = genText t := by
  simp only [genText, readBack_year, readBack_civil, fieldsText_off, zoneText_readBack]

theorem utcText_readBack (t : GoTime) : utcText (readBack t) = utcText t := by
  simp only [utcText, readBack_year, readBack_civil, fieldsText_off, zoneText_readBack]

/-- `time.Parse` of the GeneralizedTime text -/
theorem parse_genText (t : GoTime) (hy0 : 0 ≤ t.year) (hy1 : t.year ≤ 9999) (h1 : -90000 < t.off) (h2 : t.off < 90000) :
    parse layoutGen (genText t) = some (readBack t) := by
  have hv : t.civil.valid = true := ofUnix_valid _ _
  have := parse_gen_text t.civil hv hy0 hy1 h1 h2
  simp only [GoTime.civil, ofUnix_off, toUnix_ofUnix] at this
  exact this

/-- `Format` of the value read back reproduces the text: the strict re-serialisation test passes -/
theorem format_gen_readBack (t : GoTime) (hy0 : 0 ≤ t.year) (hy1 : t.year ≤ 9999) (h1 : -90000 < t.off)
    (h2 : t.off < 90000) : format layoutGen (readBack t) = genText t := by
  have hb := readBack_bounds t h1 h2
  rw [format_gen_eq (readBack t) (by rw [readBack_year]; exact hy0) (by rw [readBack_year]; exact hy1) (by omega) (by omega)
    (readBack_zone_ok t)]
  exact genText_readBack t

/-! ## `encoding/asn1`: GeneralizedTime -/

theorem appendGeneralizedTime_eq (t : GoTime) (hy0 : 0 ≤ t.year) (hy1 : t.year ≤ 9999) :
    EA.appendGeneralizedTime t = .ok (genText t) := by
  have : ¬ (t.year < 0 ∨ t.year > 9999) := by omega
  simp only [EA.appendGeneralizedTime, this, if_false, appendTimeCommon_eq, genText]

theorem appendGeneralizedTime_err (t : GoTime) (h : t.year < 0 ∨ t.year > 9999) :
    EA.appendGeneralizedTime t = .err := by
  simp only [EA.appendGeneralizedTime, h, if_true]

theorem parseGeneralizedTime_genText (perm : Bool) (t : GoTime) (hy0 : 0 ≤ t.year) (hy1 : t.year ≤ 9999)
    (h1 : -90000 < t.off) (h2 : t.off < 90000) :
    EA.parseGeneralizedTime perm (genText t) = .ok (readBack t) := by
  simp only [EA.parseGeneralizedTime, parse_genText t hy0 hy1 h1 h2, EA.reserialises,
    format_gen_readBack t hy0 hy1 h1 h2]
  simp

/-! ## `encoding/asn1`: UTCTime -/

theorem appendUTCTime_eq (t : GoTime) (hy0 : 1950 ≤ t.year) (hy1 : t.year < 2050) :
    EA.appendUTCTime t = .ok (utcText t) := by
  simp only [EA.appendUTCTime, appendTimeCommon_eq, utcText]
  by_cases h : t.year < 2000
  · have e1 : 1950 ≤ t.year ∧ t.year < 2000 := ⟨hy0, h⟩
    have e2 : (t.year - 1900).toNat = t.year.natAbs % 100 := by omega
    simp only [e1, and_self, if_true, e2]
  · have e1 : ¬ (1950 ≤ t.year ∧ t.year < 2000) := by omega
    have e3 : 2000 ≤ t.year ∧ t.year < 2050 := by omega
    have e2 : (t.year - 2000).toNat = t.year.natAbs % 100 := by omega
    simp only [e1, if_false, e3, and_self, if_true, e2]

theorem appendUTCTime_err (t : GoTime) (h : t.year < 1950 ∨ t.year ≥ 2050) : EA.appendUTCTime t = .err := by
  have e1 : ¬ (1950 ≤ t.year ∧ t.year < 2000) := by omega
  have e2 : ¬ (2000 ≤ t.year ∧ t.year < 2050) := by omega
  simp only [EA.appendUTCTime, e1, e2, if_false]

/-- a date of the years 1950..1968 is also a date one century later (29 February included) -/
theorem valid_plus100 (c : Civil) (hv : c.valid = true) (h0 : 1950 ≤ c.year) (h1 : c.year ≤ 1968) :
    ({ c with year := c.year + 100 } : Civil).valid = true := by
  obtain ⟨hm1, hm2, hd1, hd2, hh, hmi, hs⟩ := (valid_iff c).1 hv
  rw [valid_iff]
  refine ⟨hm1, hm2, hd1, ?_, hh, hmi, hs⟩
  simp only
  rcases daysIn_cases c.month c.year hm1 hm2 with ⟨h, e⟩ | ⟨h, e⟩ | ⟨h, e⟩ <;>
    rcases daysIn_cases c.month (c.year + 100) hm1 hm2 with ⟨h', e'⟩ | ⟨h', e'⟩ | ⟨h', e'⟩ <;>
    (try omega)
  rw [e'] ; rw [e] at hd2
  split at hd2 <;> split <;> omega

theorem toUnix_setOff (c : Civil) (o : Int) : toUnix { c with off := o } = toUnix c + c.off - o := by
  simp only [toUnix]; omega

/-- what `time.Parse` returns for the UTCTime text of a year in the window, before the `AddDate(-100, 0, 0)` step -/
theorem parse_utcText (t : GoTime) (hy0 : 1950 ≤ t.year) (hy1 : t.year < 2050) (h1 : -90000 < t.off)
    (h2 : t.off < 90000) :
    parse layoutUTCMin (utcText t) = none ∧
    parse layoutUTCSec (utcText t) =
      some (if t.year ≤ 1968 then
              { unix := toUnix { t.civil with year := t.year + 100 } + Int.tmod t.off 60,
                off := t.off - Int.tmod t.off 60, nsec := 0 }
            else readBack t) := by
  have hv : t.civil.valid = true := ofUnix_valid _ _
  have hyy : t.year.natAbs % 100 < 100 := by omega
  constructor
  · exact parse_utcmin_text t.civil hv _ hyy
  · by_cases hc : t.year ≤ 1968
    · rw [if_pos hc]
      have hv' := valid_plus100 t.civil hv hy0 hc
      have := parse_utcsec_text { t.civil with year := t.year + 100 } hv' (t.year.natAbs % 100) hyy
        (by simp only []; split <;> omega) h1 h2
      simp only [fieldsText_off] at this
      exact this
    · rw [if_neg hc]
      have := parse_utcsec_text t.civil hv (t.year.natAbs % 100) hyy
        (by show t.year = _; split <;> omega) h1 h2
      simp only [GoTime.civil, ofUnix_off, toUnix_ofUnix] at this
      exact this

theorem format_utc_readBack (t : GoTime) (h1 : -90000 < t.off) (h2 : t.off < 90000) :
    format layoutUTCSec (readBack t) = utcText t := by
  have hb := readBack_bounds t h1 h2
  rw [format_utcsec_eq (readBack t) (by omega) (by omega) (readBack_zone_ok t)]
  exact utcText_readBack t

/-- the time one century later that `time.Parse` produces for the years 50..68 -/
def plus100 (t : GoTime) : GoTime :=
  { unix := toUnix { t.civil with year := t.year + 100 } + Int.tmod t.off 60,
    off := t.off - Int.tmod t.off 60, nsec := 0 }

theorem ofUnix_toUnix_shift (c : Civil) (hv : c.valid = true) (k : Int) :
    ofUnix (toUnix c + k) (c.off - k) = { c with off := c.off - k } := by
  rw [ofUnix_shift, ofUnix_toUnix c hv]

theorem plus100_civil (t : GoTime) (hy0 : 1950 ≤ t.year) (hy1 : t.year ≤ 1968) :
    (plus100 t).civil = { t.civil with year := t.year + 100, off := t.off - Int.tmod t.off 60 } := by
  have hv' := valid_plus100 t.civil (ofUnix_valid _ _) hy0 hy1
  exact ofUnix_toUnix_shift _ hv' _

theorem format_utc_plus100 (t : GoTime) (hy0 : 1950 ≤ t.year) (hy1 : t.year ≤ 1968) (h1 : -90000 < t.off)
    (h2 : t.off < 90000) : format layoutUTCSec (plus100 t) = utcText t := by
  have hb := readBack_bounds t h1 h2
  have hoff : (plus100 t).off = (readBack t).off := rfl
  rw [format_utcsec_eq (plus100 t) (by rw [hoff]; omega) (by rw [hoff]; omega)
    (by rw [hoff]; exact readBack_zone_ok t)]
  have hy : (plus100 t).year = t.year + 100 := by simp only [GoTime.year, plus100_civil t hy0 hy1]
  rw [hy, plus100_civil t hy0 hy1, hoff, zoneText_readBack]
  simp only [utcText]
  have : (t.year + 100).natAbs % 100 = t.year.natAbs % 100 := by omega
  rw [this]
  rfl

theorem addYears_plus100 (t : GoTime) (hy0 : 1950 ≤ t.year) (hy1 : t.year ≤ 1968) :
    addYears (plus100 t) (-100) = readBack t := by
  simp only [addYears, plus100_civil t hy0 hy1, date]
  have hoff : (plus100 t).off = t.off - Int.tmod t.off 60 := rfl
  have hns : (plus100 t).nsec = 0 := rfl
  rw [hoff, hns]
  have e : t.year + 100 + -100 = t.civil.year := by show _ = t.year; omega
  rw [e]
  have := toUnix_setOff t.civil (t.off - Int.tmod t.off 60)
  simp only [GoTime.civil, ofUnix_off, toUnix_ofUnix] at this ⊢
  simp only [readBack, GoTime.mk.injEq, and_true]
  rw [this]
  omega

/-- **`parseUTCTime ∘ appendUTCTime`** (strict or permissive) -/
theorem parseUTCTime_utcText (perm : Bool) (t : GoTime) (hy0 : 1950 ≤ t.year) (hy1 : t.year < 2050)
    (h1 : -90000 < t.off) (h2 : t.off < 90000) :
    EA.parseUTCTime perm (utcText t) = .ok (readBack t) := by
  obtain ⟨hmin, hsec⟩ := parse_utcText t hy0 hy1 h1 h2
  simp only [EA.parseUTCTime, hmin, hsec]
  by_cases hc : t.year ≤ 1968
  · simp only [hc, if_true]
    have hfmt := format_utc_plus100 t hy0 hc h1 h2
    simp only [plus100] at hfmt
    simp only [EA.reserialises, hfmt, beq_self_eq_true, Bool.or_true, Bool.not_true, Bool.false_eq_true, if_false]
    have hy : (plus100 t).year = t.year + 100 := by simp only [GoTime.year, plus100_civil t hy0 hc]
    simp only [plus100] at hy
    have : t.year + 100 ≥ 2050 := by omega
    simp only [hy, this, if_true]
    exact congrArg Res.ok (addYears_plus100 t hy0 hc)
  · simp only [hc, if_false]
    simp only [EA.reserialises, format_utc_readBack t h1 h2, beq_self_eq_true, Bool.or_true, Bool.not_true,
      Bool.false_eq_true, if_false, readBack_year]
    have : ¬ (t.year ≥ 2050) := by omega
    simp only [this, if_false]

/-! ## zones of 25 hours and more -/

/-- the zone chunk refuses an hour field above 24 -/
theorem step_tz_hour_range (st : PState) (sg : UInt8) (hh mm : Nat) (hsg : sg.toNat ≠ 90) (hhh : 24 < hh)
    (hh100 : hh < 100) (hmm : mm < 60) :
    step .isoTZ st [sg, digit (hh / 10), digit hh, digit (mm / 10), digit mm] = none := by
  have hr : hh > 24 ∨ mm > 60 := Or.inl hhh
  simp only [step, hsg, if_false, List.length_cons, List.length_nil]
  simp only [show ¬ (0 + 1 + 1 + 1 + 1 + 1 < 5) by omega, if_false, List.drop_succ_cons, List.drop_zero, List.take_succ_cons,
    List.take_zero, getnum_digits hh (by omega), getnum_digits mm (by omega), hr, if_true]

/-- the date / clock chunks followed by a zone text that the zone chunk refuses -/
theorem parseLoop_fields_none (st : PState) (c : Civil) (hv : c.valid = true) (z : Bytes)
    (hz : ∀ s, step .isoTZ s z = none)
    (hz0 : ∀ c0 r', z = c0 :: r' → commaOrPeriod c0 = false) :
    parseLoop [.zeroMonth, .zeroDay, .hour, .zeroMinute, .zeroSecond, .isoTZ] st (fieldsText c ++ z) = none := by
  obtain ⟨hm1, hm2, hd1, hd2, hh, hmi, hs⟩ := (valid_iff c).1 hv
  have hd3 := daysIn_le c.month c.year
  simp only [fieldsText, EA.twoDigits, List.cons_append, List.nil_append, List.append_assoc]
  rw [parseLoop, step_zeroMonth _ _ hm1 hm2]; simp only
  rw [parseLoop, step_zeroDay _ _ (by omega)]; simp only
  rw [parseLoop, step_hour _ _ hh]; simp only
  rw [parseLoop, step_zeroMinute _ _ hmi]; simp only
  rw [parseLoop, step_zeroSecond _ _ hs _ hz0]; simp only
  rw [parseLoop, hz]

/-- `time.Parse` refuses the GeneralizedTime text of a zone of 25 hours or more (below 100 hours) -/
theorem parse_genText_25h (t : GoTime) (hy0 : 0 ≤ t.year) (hy1 : t.year ≤ 9999)
    (hbig : t.off ≤ -90000 ∨ 90000 ≤ t.off) (h1 : -360000 < t.off) (h2 : t.off < 360000) :
    parse layoutGen (genText t) = none := by
  have hc := tmod_cases t.off
  have hk : Int.tdiv t.off 60 ≠ 0 := by
    rcases hc with ⟨_, e, _⟩ | ⟨_, e, _⟩ <;> rw [e] <;> omega
  have hv : t.civil.valid = true := ofUnix_valid _ _
  simp only [parse, layoutGen, genText, EA.fourDigits, List.cons_append, List.nil_append]
  rw [parseLoop, step_longYear _ _ (by omega)]
  simp only
  rw [parseLoop_fields_none _ t.civil hv (zoneText t.off) ?_ (zoneText_not_fraction t.off)]
  intro s
  unfold zoneText
  rw [if_neg hk]
  simp only [EA.twoDigits, List.cons_append, List.nil_append]
  generalize Int.tdiv t.off 60 = k at hc hk
  generalize Int.tmod t.off 60 = r at hc
  exact step_tz_hour_range s _ _ _ (by split <;> decide) (by omega) (by omega) (by omega)

/-- … so `parseGeneralizedTime` (either mode) rejects what `appendGeneralizedTime` wrote for such a zone -/
theorem parseGeneralizedTime_25h (perm : Bool) (t : GoTime) (hy0 : 0 ≤ t.year) (hy1 : t.year ≤ 9999)
    (hbig : t.off ≤ -90000 ∨ 90000 ≤ t.off) (h1 : -360000 < t.off) (h2 : t.off < 360000) :
    EA.parseGeneralizedTime perm (genText t) = .err := by
  simp only [EA.parseGeneralizedTime, parse_genText_25h t hy0 hy1 hbig h1 h2]

end ZV.Time
