import ZV.Proofs.C13Der
/-! C13, ASN.1 leg: typing of the decoder (`engine_pres`: what `parseField` returns for a Go type is a present value of that
    type or, for an OPTIONAL field, its default) and its consequence for the read-out of ZV.Model.C13Der: `decodeOuter`,
    `decodeSingle`, `decodeBasic` never meet a value of an unexpected shape. -/
namespace ZV.C13
open ZV.C18

/-- the values the decoder produces for an element of Go type `s` that is PRESENT in the input (a field that is absent
    takes `dfltVal`, see `Pres (.fcons …)`) -/
def Pres : Schema → Val → Prop
  | .int64, v => ∃ i, v = .int i
  | .int32, v => ∃ i, v = .int i
  | .enum, v => ∃ i, v = .int i
  | .bigint, v => ∃ i, v = .int i
  | .bool, v => ∃ b, v = .bool b
  | .flag, v => ∃ b, v = .bool b
  | .oid, v => ∃ l, v = .oid l
  | .bits, v => ∃ bs n, v = .bits bs n
  | .octets, v => ∃ b, v = .bytes b
  | .str, v => ∃ b, v = .bytes b
  | .raw, v => ∃ c t k b f, v = .raw c t k b f ∧ f ≠ []
  | .struct fs, v => Pres fs v
  | .seqOf _ e, v => properChain v = true ∧ ∀ x ∈ elems v, Pres e x
  | .fnil, v => v = .vnil
  | .fcons p s rest, v => ∃ x xs, v = .vcons x xs ∧ (Pres s x ∨ (p.optional = true ∧ x = dfltVal s p)) ∧ Pres rest xs

theorem dfltOrErr_val (s : Schema) (p : Params) (bs : Bytes) (v : Val) (r : Bytes) (h : dfltOrErr s p bs = .ok (v, r)) :
    p.optional = true ∧ v = dfltVal s p := by
  cases ho : p.optional with
  | false => simp [dfltOrErr, ho] at h
  | true =>
    rw [dfltOrErr_optional s p bs ho] at h
    simp only [Res.ok.injEq, Prod.mk.injEq] at h
    exact ⟨rfl, h.1.symm⟩

theorem explicitStage_flag_isFlag (perm : Bool) (s : Schema) (p : Params) (t0 : TL) (r0 r : Bytes)
    (h : explicitStage perm s p t0 r0 = .flag r) : isFlag s = true := by
  unfold explicitStage at h
  split_ifs at h with h1 h2 h3 h4 h5 h6
  all_goals first
    | (cases h; done)
    | assumption
    | (split at h <;> cases h)

theorem parsePre_flag_isFlag (perm : Bool) (s : Schema) (p : Params) (bs r : Bytes)
    (h : parsePre perm s p bs = .flag r) : isFlag s = true := by
  unfold parsePre at h
  split at h
  · cases h
  · cases h
  · split at h
    · cases h
    · cases h
    · rename_i r' he
      exact explicitStage_flag_isFlag perm s p _ _ _ he
    · rename_i t1 r1 _
      unfold matchStage at h
      split at h
      · cases h
      · simp only at h
        split_ifs at h

theorem resInt_val {r : Res Int} {v : Val} (h : resInt r = .ok v) : ∃ i, v = .int i := by
  unfold resInt at h
  split at h
  · cases h; exact ⟨_, rfl⟩
  · cases h
  · cases h

theorem parseString_val (perm : Bool) (utag : Nat) (bs : Bytes) (v : Val) (h : parseString perm utag bs = .ok v) :
    ∃ b, v = .bytes b := by
  unfold parseString at h
  simp only [parsePrintableString, parseNumericString, parseIA5String, parseT61String, parseUTF8String, parseBMPString] at h
  split_ifs at h
  all_goals (cases h; exact ⟨_, rfl⟩)

theorem parsePrim_pres (perm : Bool) (s : Schema) (utag : Nat) (t : TL) (inner full : Bytes) (v : Val) (hf : full ≠ [])
    (h : parsePrim perm s utag t inner full = .ok v) : Pres s v := by
  cases s with
  | raw => simp only [parsePrim, Res.ok.injEq] at h; subst h; exact ⟨_, _, _, _, _, rfl, hf⟩
  | oid =>
    simp only [parsePrim, parseOID] at h
    split at h
    · cases h
    · split at h
      · split at h
        · split_ifs at h <;> (cases h; exact ⟨_, rfl⟩)
        · cases h
        · cases h
      · cases h
      · cases h
  | bits =>
    simp only [parsePrim, parseBitString] at h
    split at h
    · cases h
    · split_ifs at h
      cases h; exact ⟨_, _, rfl⟩
  | enum => simp only [parsePrim] at h; exact resInt_val h
  | flag => simp only [parsePrim, Res.ok.injEq] at h; subst h; exact ⟨_, rfl⟩
  | bigint => simp only [parsePrim] at h; exact resInt_val h
  | bool =>
    simp only [parsePrim, parseBool] at h
    split at h
    · split_ifs at h <;> (cases h; exact ⟨_, rfl⟩)
    · cases h
  | int32 => simp only [parsePrim] at h; exact resInt_val h
  | int64 => simp only [parsePrim] at h; exact resInt_val h
  | octets => simp only [parsePrim, Res.ok.injEq] at h; subst h; exact ⟨_, rfl⟩
  | str => simp only [parsePrim] at h; exact parseString_val perm utag inner v h
  | struct _ => simp [parsePrim] at h
  | seqOf _ _ => simp [parsePrim] at h
  | fnil => simp [parsePrim] at h
  | fcons _ _ _ => simp [parsePrim] at h

theorem takeFull_ne_nil (bs rest : Bytes) (h : rest.length + 2 ≤ bs.length) : takeFull bs rest ≠ [] := by
  unfold takeFull
  intro hc
  have := congrArg List.length hc
  simp only [List.length_take, List.length_nil] at this
  omega

theorem primField_pres (perm : Bool) (s : Schema) (p : Params) (bs : Bytes) (v : Val) (r : Bytes)
    (hleaf : isLeaf s = true) (h : primField perm s p bs = .ok (v, r)) :
    Pres s v ∨ (p.optional = true ∧ v = dfltVal s p) := by
  unfold primField at h
  split_ifs at h
  · exact Or.inr (dfltOrErr_val s p bs v r h)
  · split at h
    · cases h
    · exact Or.inr (dfltOrErr_val s p bs v r h)
    · rename_i r' hp
      have hfl := parsePre_flag_isFlag perm s p bs r' hp
      simp only [Res.ok.injEq, Prod.mk.injEq] at h
      left
      cases s <;> simp [isFlag] at hfl
      exact ⟨true, h.1.symm⟩
    · rename_i t utag inner rest hp
      have hg := C01Asn1.parsePre_go perm s p bs t utag inner rest hp
      split at h
      · rename_i v' hv
        simp only [Res.ok.injEq, Prod.mk.injEq] at h
        left
        rw [← h.1]
        exact parsePrim_pres perm s utag t inner _ v' (takeFull_ne_nil bs rest (by have := hg.2.2.1.2; omega)) hv
      · cases h
      · cases h

theorem parseElems_pres (pf : Bytes → Res (Val × Bytes)) (P : Val → Prop)
    (hpf : ∀ bs v r, pf bs = .ok (v, r) → P v) : ∀ (n : Nat) (bs : Bytes) (vs : Val), parseElems pf n bs = .ok vs →
    properChain vs = true ∧ ∀ x ∈ elems vs, P x
  | 0, bs, vs, h => by
    simp only [parseElems, Res.ok.injEq] at h; subst h
    exact ⟨rfl, by intro x hx; simp [elems] at hx⟩
  | n + 1, bs, vs, h => by
    simp only [parseElems] at h
    split at h
    · rename_i v r hv
      split at h
      · rename_i vs' hvs
        simp only [Res.ok.injEq] at h; subst h
        obtain ⟨h1, h2⟩ := parseElems_pres pf P hpf n r vs' hvs
        refine ⟨by simpa [properChain] using h1, ?_⟩
        intro x hx
        simp only [elems, List.mem_cons] at hx
        rcases hx with rfl | hx
        · exact hpf bs x r hv
        · exact h2 x hx
      · cases h
      · cases h
    · cases h
    · cases h

/-- **typing of the decoder**: what `parseField` returns for Go type `s` is a present value of that type or, for an OPTIONAL
    field, its default; what the field loop returns is a field list of that shape -/
theorem engine_pres (perm : Bool) (s : Schema) :
    (∀ p bs v r, parseField perm s p bs = .ok (v, r) → Pres s v ∨ (p.optional = true ∧ v = dfltVal s p)) ∧
    (∀ bs v r, parseFields perm s bs = .ok (v, r) → Pres s v) := by
  induction s with
  | struct fs ih =>
    refine ⟨fun p bs v r h => ?_, fun bs v r h => by simp [parseFields] at h⟩
    simp only [parseField] at h
    split_ifs at h
    · exact Or.inr (dfltOrErr_val _ p bs v r h)
    · split at h
      · cases h
      · exact Or.inr (dfltOrErr_val _ p bs v r h)
      · rename_i r' hp
        have := parsePre_flag_isFlag perm _ p bs r' hp
        simp [isFlag] at this
      · split at h
        · rename_i vs r'' hfs
          simp only [Res.ok.injEq, Prod.mk.injEq] at h
          left
          rw [← h.1]
          exact ih.2 _ _ _ hfs
        · cases h
        · cases h
  | seqOf sn e ih =>
    refine ⟨fun p bs v r h => ?_, fun bs v r h => by simp [parseFields] at h⟩
    simp only [parseField] at h
    split_ifs at h
    · exact Or.inr (dfltOrErr_val _ p bs v r h)
    · split at h
      · cases h
      · exact Or.inr (dfltOrErr_val _ p bs v r h)
      · rename_i r' hp
        have := parsePre_flag_isFlag perm _ p bs r' hp
        simp [isFlag] at this
      · split at h
        · cases h
        · split at h
          · cases h
          · cases h
          · split at h
            · rename_i vs hvs
              simp only [Res.ok.injEq, Prod.mk.injEq] at h
              left
              rw [← h.1]
              refine parseElems_pres _ (Pres e) (fun bs' v' r' hv => ?_) _ _ _ hvs
              rcases ih.1 {} bs' v' r' hv with h1 | h1
              · exact h1
              · simp at h1
            · cases h
            · cases h
  | fnil =>
    refine ⟨fun p bs v r h => by simp [parseField] at h, fun bs v r h => ?_⟩
    simp only [parseFields, Res.ok.injEq, Prod.mk.injEq] at h
    exact h.1.symm
  | fcons q s rest ihs ihr =>
    refine ⟨fun p bs v r h => by simp [parseField] at h, fun bs v r h => ?_⟩
    simp only [parseFields] at h
    split at h
    · rename_i x r1 hx
      split at h
      · rename_i xs r2 hxs
        simp only [Res.ok.injEq, Prod.mk.injEq] at h
        rw [← h.1]
        exact ⟨x, xs, rfl, ihs.1 q bs x r1 hx, ihr.2 r1 xs r2 hxs⟩
      · cases h
      · cases h
    · cases h
    · cases h
  | _ =>
    refine ⟨fun p bs v r h => ?_, fun bs v r h => by simp [parseFields] at h⟩
    rw [parseField_leaf _ perm p bs rfl] at h
    exact primField_pres perm _ p bs v r rfl h

theorem unmarshal_pres (perm : Bool) (s : Schema) (bs : Bytes) (v : Val) (r : Bytes)
    (h : unmarshal perm s {} bs = .ok (v, r)) : Pres s v := by
  rcases (engine_pres perm s).1 {} bs v r h with h1 | h1
  · exact h1
  · simp at h1

theorem decodeOuter_no_shape (der : Bytes) : ¬ (decodeOuter der matches .shape) := by
  unfold decodeOuter
  cases hu : unmarshal false responseASN1S {} der with
  | err => simp
  | panic => exact absurd hu (C01.asn1_unmarshal_no_panic _ _ _ _)
  | ok x =>
    obtain ⟨v, rest⟩ := x
    have hp := unmarshal_pres false _ _ _ _ hu
    simp only [responseASN1S, responseBytesS, Pres] at hp
    obtain ⟨x1, xs1, rfl, h1, x2, xs2, rfl, h2, rfl⟩ := hp
    rcases h1 with ⟨i, rfl⟩ | ⟨hc, _⟩
    · rcases h2 with ⟨y1, ys1, rfl, hy1, y2, ys2, rfl, hy2, rfl⟩ | ⟨_, rfl⟩
      · rcases hy1 with ⟨l, rfl⟩ | ⟨hc, _⟩
        · simp
        · simp at hc
      · simp [dfltVal, zeroVal]
    · simp at hc

theorem velems_eq (v : Val) : velems v = elems v := by
  induction v <;> simp_all [velems, elems]

/-! #### the pieces of `decodeSingle` -/

theorem algOf_some (v : Val) (h : Pres algIdS v) : ∃ o f, algOf v = some (o, f) := by
  simp only [algIdS, Pres] at h
  obtain ⟨x1, xs1, rfl, h1, x2, xs2, rfl, h2, rfl⟩ := h
  rcases h1 with ⟨l, rfl⟩ | ⟨hc, _⟩
  · rcases h2 with ⟨c, t, k, b, f, rfl, _⟩ | ⟨_, rfl⟩
    · exact ⟨_, _, rfl⟩
    · exact ⟨_, _, rfl⟩
  · simp at hc

theorem revokedOf_no_shape (v : Val)
    (h : Pres revokedInfoS v ∨ v = dfltVal revokedInfoS { tag := some 1, optional := true }) :
    ¬ (revokedOf v matches .shape) := by
  rcases h with h | rfl
  · simp only [revokedInfoS, Pres] at h
    obtain ⟨x1, xs1, rfl, h1, x2, xs2, rfl, h2, rfl⟩ := h
    rcases h1 with ⟨c, t, k, b, f, rfl, _⟩ | ⟨hc, _⟩
    · rcases h2 with ⟨i, rfl⟩ | ⟨_, rfl⟩
      · simp only [revokedOf]
        split_ifs
        · simp
        · cases timeOfRaw (Val.raw c t k b f) <;> simp
      · simp only [revokedOf, dfltVal, zeroVal]
        split_ifs
        · simp
        · cases timeOfRaw (Val.raw c t k b f) <;> simp
    · simp at hc
  · simp [revokedOf, dfltVal, revokedInfoS, zeroVal]

theorem extOf_some (v : Val) (h : Pres extensionS v) : ∃ e, extOf v = some e := by
  simp only [extensionS, Pres] at h
  obtain ⟨x1, xs1, rfl, h1, x2, xs2, rfl, h2, x3, xs3, rfl, h3, rfl⟩ := h
  rcases h1 with ⟨l, rfl⟩ | ⟨hc, _⟩
  · rcases h2 with ⟨b, rfl⟩ | ⟨_, rfl⟩
    · exact ⟨_, rfl⟩
    · exact ⟨_, rfl⟩
  · simp at hc

theorem mapM_extOf_some : ∀ (l : List Val), (∀ x ∈ l, Pres extensionS x) → ∃ es, l.mapM extOf = some es
  | [], _ => ⟨[], rfl⟩
  | x :: l, h => by
    obtain ⟨e, he⟩ := extOf_some x (h x (by simp))
    obtain ⟨es, hes⟩ := mapM_extOf_some l (fun y hy => h y (by simp [hy]))
    exact ⟨e :: es, by simp [List.mapM_cons, he, hes]⟩

theorem decodeSingle_no_shape (v : Val) (h : Pres .raw v) : ¬ (decodeSingle v matches .shape) := by
  obtain ⟨c, t, k, b, f, rfl, _⟩ := h
  simp only [decodeSingle]
  split_ifs
  · simp
  · cases hp : parseFields false singlePrefixF b with
    | err => simp
    | panic => exact absurd hp (C01.asn1_fields_no_panic _ _ _)
    | ok x =>
      obtain ⟨pv, r1⟩ := x
      have hpres := (engine_pres false singlePrefixF).2 b pv r1 hp
      simp only [singlePrefixF, certIDS, Pres] at hpres
      obtain ⟨x1, xs1, rfl, h1, x2, xs2, rfl, h2, x3, xs3, rfl, h3, x4, xs4, rfl, h4, x5, xs5, rfl, h5, rfl⟩ := hpres
      rcases h1 with ⟨a1, as1, rfl, ha1, a2, as2, rfl, ha2, a3, as3, rfl, ha3, a4, as4, rfl, ha4, rfl⟩ | ⟨hc, _⟩
      swap
      · simp at hc
      have halg : Pres algIdS a1 := by
        rcases ha1 with h | ⟨hc, _⟩
        · exact h
        · simp at hc
      obtain ⟨oid, pf, halg'⟩ := algOf_some a1 halg
      have hsn : ∃ i, a4 = .int i := by
        rcases ha4 with h | ⟨hc, _⟩
        · exact h
        · simp at hc
      obtain ⟨sn, rfl⟩ := hsn
      have hgood : ∃ g, x2 = .bool g := by
        rcases h2 with h | ⟨_, rfl⟩
        · exact h
        · exact ⟨false, rfl⟩
      obtain ⟨good, rfl⟩ := hgood
      have hunk : ∃ g, x4 = .bool g := by
        rcases h4 with h | ⟨_, rfl⟩
        · exact h
        · exact ⟨false, rfl⟩
      obtain ⟨unk, rfl⟩ := hunk
      have hrev : ¬ (revokedOf x3 matches .shape) := by
        apply revokedOf_no_shape
        rcases h3 with h | ⟨_, h⟩
        · exact Or.inl h
        · exact Or.inr h
      simp only [halg']
      cases hr : revokedOf x3 with
      | shape => rw [hr] at hrev; simp at hrev
      | err => simp
      | ok ra =>
        obtain ⟨ra, reason⟩ := ra
        cases htu : timeOfRaw x5 with
        | err => simp
        | panic => simp
        | ok th =>
          simp only
          cases hn : parseNext r1 with
          | err => simp
          | panic => simp
          | ok nr =>
            obtain ⟨nx, r2⟩ := nr
            simp only
            cases hs : parseFields false singleSuffixF r2 with
            | err => simp
            | panic => exact absurd hs (C01.asn1_fields_no_panic _ _ _)
            | ok y =>
              obtain ⟨sv, r3⟩ := y
              have hsp := (engine_pres false singleSuffixF).2 r2 sv r3 hs
              simp only [singleSuffixF, Pres] at hsp
              obtain ⟨e1, es1, rfl, he1, rfl⟩ := hsp
              simp only
              have hall : ∀ x ∈ velems e1, Pres extensionS x := by
                rw [velems_eq]
                rcases he1 with ⟨_, h⟩ | ⟨_, rfl⟩
                · exact h
                · intro x hx; simp [dfltVal, zeroVal, elems] at hx
              obtain ⟨es, hes⟩ := mapM_extOf_some (velems e1) hall
              simp [hes]

theorem decodeSingles_no_shape : ∀ (l : List Val), (∀ x ∈ l, Pres .raw x) → ¬ (decodeSingles l matches .shape)
  | [], _ => by simp [decodeSingles]
  | v :: l, h => by
    have h1 := decodeSingle_no_shape v (h v (by simp))
    have h2 := decodeSingles_no_shape l (fun y hy => h y (by simp [hy]))
    simp only [decodeSingles]
    cases hv : decodeSingle v <;> cases hl : decodeSingles l <;> simp_all

theorem matchStage_struct_plain (fs : Schema) (t : TL) (r : Bytes) :
    matchStage (.struct fs) {} t r =
      if (t.cls ≠ 0 ∨ t.tag ≠ 16) ∨ t.compound = false then .dflt
      else if t.len > r.length then .err else .go t 16 (r.take t.len) (r.drop t.len) := by
  simp [matchStage, univ, substTag, expected]

theorem matchStage_raw_plain (t : TL) (r : Bytes) :
    matchStage .raw {} t r = if t.len > r.length then .err else .go t 0 (r.take t.len) (r.drop t.len) := by
  simp [matchStage, univ, substTag, expected]

theorem parsePre_plain (perm : Bool) (s : Schema) (bs : Bytes) (t0 : TL) (r0 : Bytes) (hp : parseTL perm bs = .ok (t0, r0)) :
    parsePre perm s {} bs = matchStage s {} t0 r0 := by
  simp [parsePre, hp, explicitStage]

/-- whatever a struct-typed field without parameters accepts, a RawValue field accepts too, with the same remainder -/
theorem struct_then_raw (perm : Bool) (fs : Schema) (bs : Bytes) (v : Val) (r : Bytes)
    (h : parseField perm (.struct fs) {} bs = .ok (v, r)) :
    ∃ c t k b f, parseField perm .raw {} bs = .ok (.raw c t k b f, r) ∧ f ≠ [] := by
  simp only [parseField] at h
  split_ifs at h with he
  · simp [dfltOrErr] at h
  · cases hp : parseTL perm bs with
    | err => simp [parsePre, hp] at h
    | panic => simp [parsePre, hp] at h
    | ok tr =>
      obtain ⟨t0, r0⟩ := tr
      have h0 := C01.asn1_header_consumed perm bs t0 r0 hp
      rw [parsePre_plain perm _ bs t0 r0 hp, matchStage_struct_plain] at h
      by_cases hm : (t0.cls ≠ 0 ∨ t0.tag ≠ 16) ∨ t0.compound = false
      · rw [if_pos hm] at h
        simp [dfltOrErr] at h
      · rw [if_neg hm] at h
        by_cases hl : t0.len > r0.length
        · rw [if_pos hl] at h
          simp at h
        rw [if_neg hl] at h
        simp only at h
        split at h
        · simp only [Res.ok.injEq, Prod.mk.injEq] at h
          refine ⟨t0.cls, t0.tag, t0.compound, r0.take t0.len, takeFull bs (r0.drop t0.len), ?_, ?_⟩
          · simp only [parseField, primField, he, if_false, parsePre_plain perm _ bs t0 r0 hp, matchStage_raw_plain, hl, parsePrim, h.2]
            simp
          · apply takeFull_ne_nil
            have : (List.drop t0.len r0).length ≤ r0.length := by simp
            omega
        · cases h
        · cases h

theorem parsePre_struct_irrel (perm : Bool) (a b : Schema) (p : Params) (bs : Bytes) :
    parsePre perm (.struct a) p bs = parsePre perm (.struct b) p bs := by
  unfold parsePre explicitStage matchStage
  simp only [univ, isRaw, isFlag]
  rfl

theorem parseFields_cons (perm : Bool) (p : Params) (s rest : Schema) (bs : Bytes) :
    parseFields perm (.fcons p s rest) bs =
      (match parseField perm s p bs with
       | .ok (v, r) =>
         (match parseFields perm rest r with
          | .ok (vs, r') => .ok (.vcons v vs, r')
          | .err => .err
          | .panic => .panic)
       | .err => .err
       | .panic => .panic) := by
  simp only [parseFields]
  rfl

/-- if `basicResponse` over a struct-typed first field decodes, so does `basicResponse` with that field kept raw, to a value
    whose first component is a RawValue with non-empty `FullBytes`, with the same rest -/
theorem basicOver_raw (perm : Bool) (fs : Schema) (body : Bytes) (v : Val) (rest : Bytes)
    (h : parseField perm (basicOver (.struct fs)) {} body = .ok (v, rest)) :
    ∃ c t k b f vs, parseField perm (basicOver .raw) {} body = .ok (.vcons (.raw c t k b f) vs, rest) ∧ f ≠ [] := by
  simp only [basicOver, parseField] at h ⊢
  rw [parsePre_struct_irrel perm _ (.fcons {} .raw (.fcons {} algIdS (.fcons {} .bits
    (.fcons { explicit := true, tag := some 0, optional := true } (.seqOf false .raw) .fnil)))) {} body] at h
  split_ifs at h ⊢ with he
  · simp [dfltOrErr] at h
  · split at h
    · cases h
    · simp [dfltOrErr] at h
    · rename_i r' hp
      have := parsePre_flag_isFlag perm _ _ _ _ hp
      simp [isFlag] at this
    · rename_i t utag inner rest' hp
      rw [parseFields_cons] at h ⊢
      cases h1 : parseField perm (.struct fs) {} inner with
      | err => rw [h1] at h; cases h
      | panic => rw [h1] at h; cases h
      | ok x =>
        obtain ⟨v1, r1⟩ := x
        rw [h1] at h
        obtain ⟨c, t', k, b, f, hraw, hf⟩ := struct_then_raw perm fs inner v1 r1 h1
        rw [hraw]
        simp only at h ⊢
        cases h2 : parseFields perm (.fcons {} algIdS (.fcons {} .bits
            (.fcons { explicit := true, tag := some 0, optional := true } (.seqOf false .raw) .fnil))) r1 with
        | err => rw [h2] at h; cases h
        | panic => rw [h2] at h; cases h
        | ok y =>
          obtain ⟨vs, r2⟩ := y
          rw [h2] at h
          simp only [Res.ok.injEq, Prod.mk.injEq] at h
          exact ⟨c, t', k, b, f, vs, by simp [h.2], hf⟩

theorem decodeBasic_no_shape (body : Bytes) : ¬ (decodeBasic body matches .shape) := by
  unfold decodeBasic
  cases hu : unmarshal false basicResponseRS {} body with
  | err => simp
  | panic => exact absurd hu (C01.asn1_unmarshal_no_panic _ _ _ _)
  | ok x =>
    obtain ⟨V, rest⟩ := x
    have hp := unmarshal_pres false _ _ _ _ hu
    obtain ⟨c, t, k, b, f, vs, hraw, hf⟩ := basicOver_raw false _ body V rest hu
    simp only [basicResponseRS, basicOver, responseDataRS, responseDataOver, Pres] at hp
    obtain ⟨x1, xs1, rfl, h1, x2, xs2, rfl, h2, x3, xs3, rfl, h3, x4, xs4, rfl, h4, rfl⟩ := hp
    rcases h1 with ⟨a1, as1, rfl, ha1, a2, as2, rfl, ha2, a3, as3, rfl, ha3, a4, as4, rfl, ha4, rfl⟩ | ⟨hc, _⟩
    swap
    · simp at hc
    have hver : ∃ i, a1 = .int i := by
      rcases ha1 with h | ⟨_, rfl⟩
      · exact h
      · exact ⟨0, rfl⟩
    obtain ⟨ver, rfl⟩ := hver
    have hrid : ∃ c t k b f, a2 = .raw c t k b f := by
      rcases ha2 with ⟨c, t, k, b, f, h, _⟩ | ⟨hc, _⟩
      · exact ⟨c, t, k, b, f, h⟩
      · simp at hc
    obtain ⟨rc, rt, rk, rb, rf, rfl⟩ := hrid
    have hsig : ∃ sb sn, x3 = .bits sb sn := by
      rcases h3 with h | ⟨hc, _⟩
      · exact h
      · simp at hc
    obtain ⟨sb, sn, rfl⟩ := hsig
    have halg : Pres algIdS x2 := by
      rcases h2 with h | ⟨hc, _⟩
      · exact h
      · simp at hc
    obtain ⟨so, sp, halg'⟩ := algOf_some x2 halg
    have hsingles : ∀ x ∈ velems a4, Pres .raw x := by
      rw [velems_eq]
      rcases ha4 with ⟨_, h⟩ | ⟨hc, _⟩
      · exact h
      · simp at hc
    have hss := decodeSingles_no_shape (velems a4) hsingles
    simp only
    rw [show unmarshal false basicResponseRawS {} body = .ok (.vcons (.raw c t k b f) vs, rest) from hraw]
    simp only [fullOf, hf, if_false, halg']
    cases hd : decodeSingles (velems a4) with
    | shape => rw [hd] at hss; simp at hss
    | err => simp
    | ok ss =>
      simp only
      cases timeOfRaw a3 <;> simp

/-- hence the abstract input is always built -/
theorem inputOfBytes_no_shape {K B : Type} (tbsOf : Bytes → B) (sigOf : Bytes → Int → B) (algOf : List Int → Nat)
    (certOf : Bytes → Option (ECert K B)) (der : Bytes) : ∃ inp, inputOfBytes tbsOf sigOf algOf certOf der = .ok inp := by
  unfold inputOfBytes
  simp only
  have ho := decodeOuter_no_shape der
  cases hd : decodeOuter der with
  | shape => rw [hd] at ho; simp at ho
  | err => exact ⟨_, rfl⟩
  | ok x =>
    obtain ⟨st, ty, body, rest⟩ := x
    simp only
    split_ifs
    · exact ⟨_, rfl⟩
    · have hb := decodeBasic_no_shape body
      cases hdb : decodeBasic body with
      | shape => rw [hdb] at hb; simp at hb
      | err => exact ⟨_, rfl⟩
      | ok y =>
        obtain ⟨b, rest2⟩ := y
        simp only
        split_ifs <;> exact ⟨_, rfl⟩

end ZV.C13
