import ZV.Model.C14
/-! C14 helper lemmas: the decimal rendering `decChars` (model of `(*big.Int).String()`) has a left inverse. -/
namespace ZV.C14

def digitVal (c : Char) : Nat := c.toNat - 48

/-- base-10 value of a digit string -/
def valOf (cs : List Char) : Nat := cs.foldl (fun a c => a * 10 + digitVal c) 0

/-- `SetString(s, 10)` restricted to what `String()` produces: optional '-', digits -/
def parseDec (cs : List Char) : Int :=
  match cs with
  | '-' :: r => - (valOf r : Int)
  | r => (valOf r : Int)

theorem digitVal_digitChar {d : Nat} (h : d < 10) : digitVal (digitChar d) = d := by
  have : ∀ d : Fin 10, digitVal (digitChar d.val) = d.val := by decide
  exact this ⟨d, h⟩

theorem digitChar_ne_minus {d : Nat} (h : d < 10) : digitChar d ≠ '-' := by
  have : ∀ d : Fin 10, digitChar d.val ≠ '-' := by decide
  exact this ⟨d, h⟩

theorem digitChar_isDigit {d : Nat} (h : d < 10) : (digitChar d).isDigit = true := by
  have : ∀ d : Fin 10, (digitChar d.val).isDigit = true := by decide
  exact this ⟨d, h⟩

theorem valOf_natDigits (n : Nat) : valOf (natDigits n) = n := by
  induction n using Nat.strongRecOn with
  | _ n ih =>
    rw [natDigits]
    split
    · rename_i h
      simp [valOf, digitVal_digitChar h]
    · rename_i h
      have := ih (n / 10) (by omega)
      simp only [valOf, List.foldl_append, List.foldl_cons, List.foldl_nil] at this ⊢
      rw [this, digitVal_digitChar (by omega)]; omega

theorem natDigits_head (n : Nat) : ∃ d r, d < 10 ∧ natDigits n = digitChar d :: r := by
  induction n using Nat.strongRecOn with
  | _ n ih =>
    rw [natDigits]
    split
    · rename_i h
      exact ⟨n, [], h, rfl⟩
    · obtain ⟨d, r, hd, he⟩ := ih (n / 10) (by omega)
      exact ⟨d, r ++ [digitChar (n % 10)], hd, by rw [he]; rfl⟩

theorem natDigits_all_digits (n : Nat) : ∀ c ∈ natDigits n, c.isDigit = true := by
  induction n using Nat.strongRecOn with
  | _ n ih =>
    rw [natDigits]
    split
    · rename_i h
      intro c hc
      simp only [List.mem_singleton] at hc
      subst hc; exact digitChar_isDigit h
    · intro c hc
      simp only [List.mem_append, List.mem_singleton] at hc
      rcases hc with hc | hc
      · exact ih (n / 10) (by omega) c hc
      · subst hc; exact digitChar_isDigit (by omega)

theorem natDigits_injective {a b : Nat} (h : natDigits a = natDigits b) : a = b := by
  have := congrArg valOf h
  simpa [valOf_natDigits] using this

theorem natDigits_ne_minus (n : Nat) (r : List Char) : natDigits n ≠ '-' :: r := by
  obtain ⟨d, r', hd, he⟩ := natDigits_head n
  rw [he]
  intro h
  exact digitChar_ne_minus hd (List.cons.inj h).1

theorem parseDec_decChars (i : Int) : parseDec (decChars i) = i := by
  cases i with
  | ofNat n =>
    obtain ⟨d, r, hd, he⟩ := natDigits_head n
    have hv := valOf_natDigits n
    simp only [decChars]
    rw [he] at hv ⊢
    unfold parseDec
    split
    · rename_i r' heq
      exact absurd (List.cons.inj heq).1 (digitChar_ne_minus hd)
    · simp [hv]
  | negSucc n =>
    simp only [decChars, parseDec, valOf_natDigits]
    omega

end ZV.C14
