import ZV.Proofs.C20X2
/-! C20, x509 level: conservativity of the extension loop of `parseCertificate`. -/
namespace ZV.C20.X
open ZV.C18

theorem ncPermitted_perm (st : Val) (acc r : List NCE) (h : ncPermitted false st acc = (r, true)) :
    ncPermitted true st acc = (r, true) := by
  unfold ncPermitted at h ⊢
  cases hp : subtreeParts st with
  | none => simpa [hp] using h
  | some x =>
    obtain ⟨v, tag, inner, full, mn, mx⟩ := x
    simp only [hp] at h ⊢
    by_cases h1 : tag = 1 ∨ tag = 2 ∨ tag = 6
    · simpa only [if_pos h1] using h
    simp only [if_neg h1] at h ⊢
    by_cases h3 : tag = 3
    · simpa only [if_pos h3] using h
    simp only [if_neg h3] at h ⊢
    by_cases h4 : tag = 4
    · simp only [if_pos h4] at h ⊢
      cases hu : unRDN false inner with
      | ok o => rw [unRDN_perm _ _ hu]; simpa [hu] using h
      | err => simp [hu] at h
      | panic => simp [hu] at h
    simp only [if_neg h4] at h ⊢
    by_cases h5 : tag = 5
    · simp only [if_pos h5] at h ⊢
      cases hu : un false ediSchema { tag := some 5 } full with
      | ok o => rw [un_perm _ _ _ _ hu]; simpa [hu] using h
      | err => simp [hu] at h
      | panic => simp [hu] at h
    simp only [if_neg h5] at h ⊢
    by_cases h7 : tag = 7
    · simp only [if_pos h7] at h ⊢
      by_cases hl : inner.length = 8 ∨ inner.length = 32
      · simpa only [if_pos hl] using h
      · simp [if_neg hl] at h
    simp only [if_neg h7] at h ⊢
    by_cases h8 : tag = 8
    · simp only [if_pos h8] at h ⊢
      cases hu : un false .oid { tag := some 8 } full with
      | ok o => rw [un_perm _ _ _ _ hu]; simpa [hu] using h
      | err => simp [hu] at h
      | panic => simp [hu] at h
    simpa only [if_neg h8] using h

theorem ncExcluded_perm (st : Val) (acc r : List NCE) (h : ncExcluded false st acc = (r, true)) :
    ncExcluded true st acc = (r, true) := by
  unfold ncExcluded at h ⊢
  cases hp : subtreeParts st with
  | none => simpa [hp] using h
  | some x =>
    obtain ⟨v, tag, inner, full, mn, mx⟩ := x
    simp only [hp] at h ⊢
    by_cases h1 : tag = 1 ∨ tag = 2 ∨ tag = 6
    · simpa only [if_pos h1] using h
    simp only [if_neg h1] at h ⊢
    by_cases h3 : tag = 3
    · simpa only [if_pos h3] using h
    simp only [if_neg h3] at h ⊢
    by_cases h4 : tag = 4
    · simp only [if_pos h4] at h ⊢
      cases hu : unRDN false inner with
      | ok o => rw [unRDN_perm _ _ hu]; simpa [hu] using h
      | err => simp [hu] at h
      | panic => simp [hu] at h
    simp only [if_neg h4] at h ⊢
    by_cases h5 : tag = 5
    · simp only [if_pos h5] at h ⊢
      cases hu : un false ediSchema {} inner with
      | ok o => rw [un_perm _ _ _ _ hu]; simpa [hu] using h
      | err => simp [hu] at h
      | panic => simp [hu] at h
    simp only [if_neg h5] at h ⊢
    by_cases h7 : tag = 7
    · simp only [if_pos h7] at h ⊢
      by_cases hl : inner.length = 8 ∨ inner.length = 32
      · simpa only [if_pos hl] using h
      · simp [if_neg hl] at h
    simp only [if_neg h7] at h ⊢
    by_cases h8 : tag = 8
    · simp only [if_pos h8] at h ⊢
      cases hu : un false .oid {} inner with
      | ok o => rw [un_perm _ _ _ _ hu]; simpa [hu] using h
      | err => simp [hu] at h
      | panic => simp [hu] at h
    simpa only [if_neg h8] using h

theorem pair_true_or {σ : Type} (x : σ × Bool) : (∃ a, x = (a, true)) ∨ (∃ a, x = (a, false)) := by
  obtain ⟨a, b⟩ := x
  cases b
  · exact Or.inr ⟨a, rfl⟩
  · exact Or.inl ⟨a, rfl⟩

theorem ncApply_perm (critical : Bool) (c : Val) (out o : Cert) (h : ncApply false critical c out = .ok o) :
    ncApply true critical c out = .ok o := by
  unfold ncApply at h ⊢
  split
  · rename_i p x
    simp only at h ⊢
    rcases pair_true_or (chainLoop (ncPermitted false) p (if critical = true then { out with ncCritical := true } else out).permitted) with ⟨pl, hp⟩ | ⟨pl, hp⟩
    · rw [chainLoop_perm _ _ ncPermitted_perm _ _ _ hp]
      simp only [hp] at h ⊢
      rcases pair_true_or (chainLoop (ncExcluded false) x (if critical = true then { out with ncCritical := true } else out).excluded) with ⟨xl, hx⟩ | ⟨xl, hx⟩
      · rw [chainLoop_perm _ _ ncExcluded_perm _ _ _ hx]
        simpa [hx] using h
      · simp [hx] at h
    · simp [hp] at h
  · rename_i hne
    split at h
    · rename_i p x
      exact absurd rfl (hne p x)
    · simp at h

theorem dpLoop_perm (f : Nat) (bs : Bytes) (acc r : List Bytes) (h : dpLoop false f bs acc = (r, true)) :
    dpLoop true f bs acc = (r, true) := by
  induction f generalizing bs acc with
  | zero =>
    cases bs with
    | nil => simpa [dpLoop] using h
    | cons b t => simp [dpLoop] at h
  | succ n ih =>
    cases bs with
    | nil => simpa [dpLoop] using h
    | cons b t =>
      simp only [dpLoop] at h ⊢
      cases hu : unmarshal false .raw {} (b :: t) with
      | ok x =>
        obtain ⟨v, rest⟩ := x
        rw [unm_perm _ _ _ _ hu]
        simp only [hu] at h ⊢
        cases v with
        | raw cls tag k inner full =>
          simp only at h ⊢
          exact ih _ _ h
        | _ => simp at h
      | err => simp [hu] at h
      | panic => simp [hu] at h

theorem dpElem_perm (dp : Val) (acc r : List Bytes) (h : dpElem false dp acc = (r, true)) :
    dpElem true dp acc = (r, true) := by
  unfold dpElem at h ⊢
  split
  · simp only at h ⊢
    split_ifs at h ⊢
    · exact h
    · exact dpLoop_perm _ _ _ _ h
  · rename_i hne
    split at h
    · rename_i a b c d e f g
      exact absurd rfl (hne a b c d e f g)
    · exact h

theorem guardStep_perm {α : Type} (rs rp : Res α) (us up : α → Res Cert) (out o : Cert)
    (hr : ∀ x, rs = .ok x → rp = .ok x) (hu : ∀ x, us x = .ok o → up x = .ok o)
    (h : guardStep false rs us out = .ok o) : guardStep true rp up out = .ok o := by
  unfold guardStep at h ⊢
  cases rs with
  | ok x => rw [hr x rfl]; exact hu x h
  | err => simp at h
  | panic => simp at h

end ZV.C20.X
