import ZV.Model.C04
import ZV.Drv.C04
import ZV.Proofs.DerLite
/-! OBJECT IDENTIFIER contents: what `encOID` writes is accepted by `validOID` (`parseObjectIdentifier`) and
    decoded back to the same arcs by the driver's `decOID`; hence `encOID` is injective on its domain. -/
namespace ZV.C04
open ZV ZV.Der ZV.C06

/-- arcs the reader accepts: every encoded sub-identifier (the first two arcs are merged into `40a+b`) is at most
    `MaxInt32`. -/
def oidOk : List Nat → Bool
  | a :: b :: rest => decide (a * 40 + b ≤ 2147483647) && rest.all (fun x => decide (x ≤ 2147483647))
  | _ => false

def arcsBytes (l : List Nat) : Bytes := (l.map encBase128).flatten

theorem arcsBytes_cons (a : Nat) (l : List Nat) : arcsBytes (a :: l) = encBase128 a ++ arcsBytes l := by
  simp [arcsBytes]

theorem encOID_eq {o : List Nat} {c : Bytes} (h : encOID o = some c) :
    ∃ a b rest, o = a :: b :: rest ∧ ¬ (a > 2 ∨ (a < 2 ∧ b ≥ 40)) ∧ c = arcsBytes ((a * 40 + b) :: rest) := by
  match o, h with
  | a :: b :: rest, h =>
    simp only [encOID] at h
    split at h
    · cases h
    · rename_i hc
      simp only [Option.some.injEq] at h
      exact ⟨a, b, rest, rfl, hc, by rw [← h, arcsBytes_cons]; rfl⟩

theorem validOIDFuel_arcs : ∀ (l : List Nat) (f : Nat), (∀ x ∈ l, x ≤ 2147483647) → (arcsBytes l).length ≤ f →
    validOIDFuel f (arcsBytes l) = true := by
  intro l
  induction l with
  | nil => intro f _ _; cases f <;> simp [arcsBytes, validOIDFuel]
  | cons a l ih =>
    intro f h hf
    rw [arcsBytes_cons] at hf ⊢
    have h1 := encBase128_length a
    rw [List.length_append] at hf
    cases f with
    | zero => omega
    | succ f =>
      have hne : (encBase128 a ++ arcsBytes l).isEmpty = false := by
        cases hh : encBase128 a with
        | nil => rw [hh] at h1; simp at h1
        | cons _ _ => simp
      simp only [validOIDFuel, hne, Bool.false_eq_true, if_false]
      rw [readBase128_encBase128 a _ (h a List.mem_cons_self)]
      exact ih f (fun x hx => h x (List.mem_cons_of_mem _ hx)) (by omega)

theorem decArcs_arcs : ∀ (l : List Nat) (f : Nat), (∀ x ∈ l, x ≤ 2147483647) → (arcsBytes l).length ≤ f →
    decArcs f (arcsBytes l) = some l := by
  intro l
  induction l with
  | nil => intro f _ _; cases f <;> simp [arcsBytes, decArcs]
  | cons a l ih =>
    intro f h hf
    rw [arcsBytes_cons] at hf ⊢
    have h1 := encBase128_length a
    rw [List.length_append] at hf
    cases f with
    | zero => omega
    | succ f =>
      have hne : (encBase128 a ++ arcsBytes l).isEmpty = false := by
        cases hh : encBase128 a with
        | nil => rw [hh] at h1; simp at h1
        | cons _ _ => simp
      simp only [decArcs, hne, Bool.false_eq_true, if_false]
      rw [readBase128_encBase128 a _ (h a List.mem_cons_self)]
      simp only
      rw [ih f (fun x hx => h x (List.mem_cons_of_mem _ hx)) (by omega)]
      rfl

theorem oidOk_arcs {a b : Nat} {rest : List Nat} (h : oidOk (a :: b :: rest) = true) :
    ∀ x ∈ (a * 40 + b) :: rest, x ≤ 2147483647 := by
  simp only [oidOk, Bool.and_eq_true, decide_eq_true_eq, List.all_eq_true] at h
  intro x hx
  rcases List.mem_cons.mp hx with hx | hx
  · subst hx; exact h.1
  · exact h.2 x hx

/-- **`validOID ∘ encOID`**: the contents `marshalObjectIdentifier` writes are accepted by `parseObjectIdentifier`. -/
theorem validOID_encOID {o : List Nat} {c : Bytes} (h : encOID o = some c) (hok : oidOk o = true) :
    validOID c = true := by
  obtain ⟨a, b, rest, ho, _, hc⟩ := encOID_eq h
  subst ho; subst hc
  have h1 := encBase128_length (a * 40 + b)
  unfold validOID
  rw [validOIDFuel_arcs _ _ (oidOk_arcs hok) (Nat.le_refl _)]
  rw [arcsBytes_cons]
  cases hh : encBase128 (a * 40 + b) with
  | nil => rw [hh] at h1; simp at h1
  | cons _ _ => simp

/-- **`decOID ∘ encOID = id`** (the decoder of the driver, `parseObjectIdentifier`'s arc split). -/
theorem decOID_encOID {o : List Nat} {c : Bytes} (h : encOID o = some c) (hok : oidOk o = true) :
    decOID c = some o := by
  obtain ⟨a, b, rest, ho, hc2, hc⟩ := encOID_eq h
  subst ho; subst hc
  unfold decOID
  rw [decArcs_arcs _ _ (oidOk_arcs hok) (Nat.le_refl _)]
  simp only
  split
  · have h1 : (a * 40 + b) / 40 = a := by omega
    have h2 : (a * 40 + b) % 40 = b := by omega
    rw [h1, h2]
  · have h1 : a = 2 := by omega
    subst h1
    have h2 : 2 * 40 + b - 80 = b := by omega
    rw [h2]

/-- `encOID` is injective on the accepted arcs. -/
theorem encOID_inj {o1 o2 : List Nat} {c : Bytes} (h1 : encOID o1 = some c) (h2 : encOID o2 = some c)
    (k1 : oidOk o1 = true) (k2 : oidOk o2 = true) : o1 = o2 := by
  have a := decOID_encOID h1 k1
  have b := decOID_encOID h2 k2
  rw [a] at b
  exact Option.some.inj b

end ZV.C04
