import ZV.Model.C32Kx
/-! helper lemmas for C32: the key-exchange parameter parsers never reach a failing index / slice expression, and an
    accepted message is exactly the concatenation of the parsed fields -/
namespace ZV.C32

theorem idx_eq (l : Bytes) (i : Nat) (h : i < l.length) : idx l i = .ok l[i] := by
  unfold idx
  rw [List.getElem?_eq_getElem h]

theorem sliceFrom_eq (s : Bytes) (lo : Nat) (h : lo ≤ s.length) : sliceFrom s lo = .ok (s.drop lo) := by
  unfold sliceFrom; rw [if_pos h]

theorem sliceTo_eq (s : Bytes) (hi : Nat) (h : hi ≤ s.length) : sliceTo s hi = .ok (s.take hi) := by
  unfold sliceTo; rw [if_pos h]

/-- the first two bytes of a list of length ≥ 2 -/
theorem two_of_len {s : Bytes} (h : 2 ≤ s.length) : ∃ a b r, s = a :: b :: r := by
  match s, h with
  | a :: b :: r, _ => exact ⟨a, b, r, rfl⟩

theorem four_of_len {s : Bytes} (h : 4 ≤ s.length) : ∃ a b c d r, s = a :: b :: c :: d :: r := by
  match s, h with
  | a :: b :: c :: d :: r, _ => exact ⟨a, b, c, d, r, rfl⟩

theorem be16_lt (a b : UInt8) : be16 a b < 65536 := by
  unfold be16
  have := a.toNat_lt
  have := b.toNat_lt
  omega

/-! ### message-level unmarshal -/

theorem skxUnmarshal_spec (data : Bytes) :
    (data.length < 4 ∧ skxUnmarshal data = .err) ∨ (4 ≤ data.length ∧ skxUnmarshal data = .ok (data.drop 4)) := by
  unfold skxUnmarshal
  by_cases h : data.length < 4
  · left; exact ⟨h, by rw [if_pos h]⟩
  · right; rw [if_neg h]; exact ⟨by omega, sliceFrom_eq _ _ (by omega)⟩

theorem ckxUnmarshal_spec (data : Bytes) :
    ckxUnmarshal data = .err ∨
    ∃ t a b c ct, data = t :: a :: b :: c :: ct ∧ be24 a b c = ct.length ∧ ckxUnmarshal data = .ok ct := by
  unfold ckxUnmarshal
  by_cases h : data.length < 4
  · left; rw [if_pos h]
  · rw [if_neg h]
    obtain ⟨t, a, b, c, ct, rfl⟩ := four_of_len (s := data) (by omega)
    simp only [idx, List.getElem?_cons_succ, List.getElem?_cons_zero, List.length_cons]
    by_cases hl : be24 a b c ≠ ct.length + 1 + 1 + 1 + 1 - 4
    · left; rw [if_pos hl]
    · right
      rw [if_neg hl]
      refine ⟨t, a, b, c, ct, rfl, by omega, ?_⟩
      rw [sliceFrom_eq _ _ (by simp)]
      rfl

/-! ### ECDHE ServerKeyExchange -/

/-- what an accepted ECDHE signature tail says about the bytes -/
theorem ecdheSigTail_spec (c : EcdheCtx) (curve : Nat) (pub : Bytes) (t h : Nat) (sig : Bytes) (h2 : 2 ≤ sig.length) :
    ecdheSigTail c curve pub t h sig = .err ∨
    ∃ l1 l2 raw, sig = l1 :: l2 :: raw ∧ be16 l1 l2 = raw.length ∧
      ((decide (t = signaturePKCS1v15) || decide (t = signatureRSAPSS)) = c.isRSA) ∧
      ecdheSigTail c curve pub t h sig = .ok ⟨curve, pub, t, h, raw⟩ := by
  obtain ⟨l1, l2, raw, rfl⟩ := two_of_len h2
  unfold ecdheSigTail
  by_cases g1 : ((decide (t = signaturePKCS1v15) || decide (t = signatureRSAPSS)) != c.isRSA) = true
  · left; rw [if_pos g1]
  · rw [if_neg g1]
    simp only [idx, List.getElem?_cons_succ, List.getElem?_cons_zero, List.length_cons]
    by_cases g2 : be16 l1 l2 + 2 ≠ raw.length + 1 + 1
    · left; rw [if_pos g2]
    · right
      rw [if_neg g2]
      refine ⟨l1, l2, raw, rfl, by omega, by simpa using g1, ?_⟩
      rw [sliceFrom_eq _ _ (by simp)]
      rfl

theorem ecdheSigPart_spec (c : EcdheCtx) (curve : Nat) (pub : Bytes) (sig : Bytes) (h2 : 2 ≤ sig.length) :
    ecdheSigPart c curve pub sig = .err ∨
    ∃ algB l1 l2 raw t h, sig = algB ++ l1 :: l2 :: raw ∧ be16 l1 l2 = raw.length ∧
      (c.vers ≥ versionTLS12 → ∃ a b, algB = [a, b] ∧ typeAndHash (be16 a b) = some (t, h) ∧
          c.clientSigAlgs.contains (be16 a b) = true) ∧
      (c.vers < versionTLS12 → algB = [] ∧ legacyTypeAndHash c.keyType = some (t, h)) ∧
      ((decide (t = signaturePKCS1v15) || decide (t = signatureRSAPSS)) = c.isRSA) ∧
      ecdheSigPart c curve pub sig = .ok ⟨curve, pub, t, h, raw⟩ := by
  unfold ecdheSigPart
  by_cases hv : c.vers ≥ versionTLS12
  · rw [if_pos hv]
    obtain ⟨a, b, sig1, rfl⟩ := two_of_len h2
    simp only [idx, List.getElem?_cons_succ, List.getElem?_cons_zero]
    rw [sliceFrom_eq _ _ (by simp)]
    simp only [List.drop_succ_cons, List.drop_zero]
    by_cases g1 : sig1.length < 2
    · left; rw [if_pos g1]
    rw [if_neg g1]
    by_cases g2 : (!(c.clientSigAlgs.contains (be16 a b))) = true
    · left; rw [if_pos g2]
    rw [if_neg g2]
    cases hta : typeAndHash (be16 a b) with
    | none => left; rfl
    | some p =>
      obtain ⟨t, h⟩ := p
      simp only
      rcases ecdheSigTail_spec c curve pub t h sig1 (by omega) with he | ⟨l1, l2, raw, rfl, hl, hr, hok⟩
      · left; exact he
      · right
        refine ⟨[a, b], l1, l2, raw, t, h, rfl, hl, ?_, ?_, hr, hok⟩
        · intro _; exact ⟨a, b, rfl, hta, by simpa using g2⟩
        · intro hlt; omega
  · rw [if_neg hv]
    cases hta : legacyTypeAndHash c.keyType with
    | none => left; rfl
    | some p =>
      obtain ⟨t, h⟩ := p
      simp only
      rcases ecdheSigTail_spec c curve pub t h sig h2 with he | ⟨l1, l2, raw, rfl, hl, hr, hok⟩
      · left; exact he
      · right
        refine ⟨[], l1, l2, raw, t, h, rfl, hl, ?_, ?_, hr, hok⟩
        · intro hge; omega
        · intro _; exact ⟨rfl, rfl⟩

/-- the shape of everything `ecdheSKX` accepts; it never panics -/
theorem ecdheSKX_spec (c : EcdheCtx) (key : Bytes) :
    ecdheSKX c key = .err ∨
    ∃ c1 c2 pl pub algB l1 l2 raw t h,
      key = 3 :: c1 :: c2 :: pl :: (pub ++ (algB ++ l1 :: l2 :: raw)) ∧ pl.toNat = pub.length ∧
      be16 l1 l2 = raw.length ∧ curveSupported (be16 c1 c2) = true ∧ c.pointOK = true ∧
      (c.vers ≥ versionTLS12 → ∃ a b, algB = [a, b] ∧ typeAndHash (be16 a b) = some (t, h) ∧
          c.clientSigAlgs.contains (be16 a b) = true) ∧
      (c.vers < versionTLS12 → algB = [] ∧ legacyTypeAndHash c.keyType = some (t, h)) ∧
      ((decide (t = signaturePKCS1v15) || decide (t = signatureRSAPSS)) = c.isRSA) ∧
      ecdheSKX c key = .ok ⟨be16 c1 c2, pub, t, h, raw⟩ := by
  unfold ecdheSKX
  by_cases h4 : key.length < 4
  · left; rw [if_pos h4]
  rw [if_neg h4]
  obtain ⟨k0, c1, c2, pl, rest, rfl⟩ := four_of_len (s := key) (by omega)
  simp only [idx, List.getElem?_cons_succ, List.getElem?_cons_zero, List.length_cons]
  by_cases g1 : k0.toNat ≠ 3
  · left; rw [if_pos g1]
  rw [if_neg g1]
  have hk0 : k0 = 3 := by
    have : k0.toNat = 3 := by omega
    exact UInt8.toNat_inj.mp (by simpa using this)
  subst hk0
  by_cases g2 : pl.toNat + 4 > rest.length + 1 + 1 + 1 + 1
  · left; rw [if_pos g2]
  rw [if_neg g2]
  have hpl : pl.toNat ≤ rest.length := by omega
  rw [sliceTo_eq _ _ (by simp; omega)]
  simp only
  rw [sliceFrom_eq _ 4 (by simp; omega), sliceFrom_eq _ (4 + pl.toNat) (by simp; omega)]
  simp only
  have e1 : List.drop 4 (List.take (4 + pl.toNat) (3 :: c1 :: c2 :: pl :: rest)) = rest.take pl.toNat := by
    have : 4 + pl.toNat = pl.toNat + 1 + 1 + 1 + 1 := by omega
    rw [this]
    simp [List.take_succ_cons]
  have e2 : List.drop (4 + pl.toNat) (3 :: c1 :: c2 :: pl :: rest) = rest.drop pl.toNat := by
    have : 4 + pl.toNat = pl.toNat + 1 + 1 + 1 + 1 := by omega
    rw [this]
    simp [List.drop_succ_cons]
  rw [e1, e2]
  by_cases g3 : (rest.drop pl.toNat).length < 2
  · left; rw [if_pos g3]
  rw [if_neg g3]
  by_cases g4 : (!(curveSupported (be16 c1 c2))) = true
  · left; rw [if_pos g4]
  rw [if_neg g4]
  by_cases g5 : (!c.pointOK) = true
  · left; rw [if_pos g5]
  rw [if_neg g5]
  rcases ecdheSigPart_spec c (be16 c1 c2) (rest.take pl.toNat) (rest.drop pl.toNat) (by omega) with
    he | ⟨algB, l1, l2, raw, t, h, hs, hl, h12, h10, hr, hok⟩
  · left; exact he
  · right
    refine ⟨c1, c2, pl, rest.take pl.toNat, algB, l1, l2, raw, t, h, ?_, ?_, hl, by simpa using g4, by simpa using g5,
      h12, h10, hr, hok⟩
    · rw [← hs, List.take_append_drop]
    · rw [List.length_take]; omega

/-! ### DHE ServerKeyExchange -/

theorem readDH_spec (k : Bytes) :
    readDH k = .err ∨ ∃ a b v r, k = a :: b :: (v ++ r) ∧ be16 a b = v.length ∧ readDH k = .ok (v, r) := by
  unfold readDH
  by_cases h2 : k.length < 2
  · left; rw [if_pos h2]
  rw [if_neg h2]
  obtain ⟨a, b, k1, rfl⟩ := two_of_len (s := k) (by omega)
  simp only [idx, List.getElem?_cons_succ, List.getElem?_cons_zero]
  rw [sliceFrom_eq _ _ (by simp)]
  simp only [List.drop_succ_cons, List.drop_zero]
  by_cases g1 : k1.length < be16 a b
  · left; rw [if_pos g1]
  rw [if_neg g1]
  rw [sliceTo_eq _ _ (by omega), sliceFrom_eq _ _ (by omega)]
  right
  refine ⟨a, b, k1.take (be16 a b), k1.drop (be16 a b), ?_, ?_, rfl⟩
  · rw [List.take_append_drop]
  · rw [List.length_take]; omega

theorem verifyTail_spec (c : DheCtx) (hid : Nat) (sig : Bytes) (h2 : 2 ≤ sig.length) :
    verifyTail c hid sig = .err ∨
    ∃ l1 l2 raw, sig = l1 :: l2 :: raw ∧ be16 l1 l2 = raw.length ∧ (c.vers ≥ versionTLS12 → hashKnown hid = true) ∧
      verifyTail c hid sig = .ok (hid, raw) := by
  obtain ⟨l1, l2, raw, rfl⟩ := two_of_len h2
  unfold verifyTail
  simp only [idx, List.getElem?_cons_succ, List.getElem?_cons_zero, List.length_cons]
  by_cases g2 : be16 l1 l2 + 2 ≠ raw.length + 1 + 1
  · left; rw [if_pos g2]
  · rw [if_neg g2]
    rw [sliceFrom_eq _ _ (by simp)]
    simp only [List.drop_succ_cons, List.drop_zero]
    by_cases g3 : c.vers ≥ versionTLS12 ∧ hashKnown hid = false
    · left; rw [if_pos g3]
    · right
      rw [if_neg g3]
      refine ⟨l1, l2, raw, rfl, by omega, ?_, rfl⟩
      intro hv
      cases hk : hashKnown hid with
      | true => rfl
      | false => exact absurd ⟨hv, hk⟩ g3

theorem verifyParameters_spec (c : DheCtx) (sig : Bytes) :
    verifyParameters c sig = .err ∨
    ∃ algB l1 l2 raw hid, sig = algB ++ l1 :: l2 :: raw ∧ be16 l1 l2 = raw.length ∧
      (c.vers ≥ versionTLS12 → ∃ h s, algB = [h, s] ∧ hid = h.toNat ∧ s.toNat = c.sigType ∧
          (c.sigType, h.toNat) ∈ c.clientSigHashes ∧ hashKnown h.toNat = true) ∧
      (c.vers < versionTLS12 → algB = [] ∧ hid = 0) ∧
      verifyParameters c sig = .ok (hid, raw) := by
  unfold verifyParameters
  by_cases h2 : sig.length < 2
  · left; rw [if_pos h2]
  rw [if_neg h2]
  by_cases hv : c.vers ≥ versionTLS12
  · rw [if_pos hv]
    obtain ⟨h, s, sig1, rfl⟩ := two_of_len (s := sig) (by omega)
    rw [sliceTo_eq _ _ (by simp), sliceFrom_eq _ _ (by simp)]
    simp only [List.take_succ_cons, List.take_zero, List.drop_succ_cons, List.drop_zero, idx, List.getElem?_cons_succ,
      List.getElem?_cons_zero]
    by_cases g1 : s.toNat ≠ c.sigType
    · left; rw [if_pos g1]
    rw [if_neg g1]
    by_cases g2 : sig1.length < 2
    · left; rw [if_pos g2]
    rw [if_neg g2]
    by_cases g3 : (!(c.clientSigHashes.contains (c.sigType, h.toNat))) = true
    · left; rw [if_pos g3]
    rw [if_neg g3]
    have hmem : (c.sigType, h.toNat) ∈ c.clientSigHashes := by
      have : c.clientSigHashes.contains (c.sigType, h.toNat) = true := by simpa using g3
      exact List.contains_iff_mem.mp this
    rcases verifyTail_spec c h.toNat sig1 (by omega) with he | ⟨l1, l2, raw, rfl, hl, hkn, hok⟩
    · left; exact he
    · right
      refine ⟨[h, s], l1, l2, raw, h.toNat, rfl, hl, ?_, ?_, hok⟩
      · intro _; exact ⟨h, s, rfl, rfl, by omega, hmem, hkn hv⟩
      · intro hlt; omega
  · rw [if_neg hv]
    rcases verifyTail_spec c 0 sig (by omega) with he | ⟨l1, l2, raw, rfl, hl, _, hok⟩
    · left; exact he
    · right
      refine ⟨[], l1, l2, raw, 0, rfl, hl, ?_, ?_, hok⟩
      · intro hge; exact absurd hge hv
      · intro _; exact ⟨rfl, rfl⟩

theorem dheSKX_spec (c : DheCtx) (key : Bytes) :
    dheSKX c key = .err ∨
    ∃ a1 a2 p b1 b2 g c1 c2 ys algB l1 l2 raw hid,
      key = a1 :: a2 :: (p ++ b1 :: b2 :: (g ++ c1 :: c2 :: (ys ++ (algB ++ l1 :: l2 :: raw)))) ∧
      be16 a1 a2 = p.length ∧ be16 b1 b2 = g.length ∧ be16 c1 c2 = ys.length ∧ be16 l1 l2 = raw.length ∧
      0 < natOf ys ∧ natOf ys < natOf p ∧
      (c.vers ≥ versionTLS12 → ∃ h s, algB = [h, s] ∧ hid = h.toNat ∧ s.toNat = c.sigType ∧
          (c.sigType, h.toNat) ∈ c.clientSigHashes ∧ hashKnown h.toNat = true) ∧
      (c.vers < versionTLS12 → algB = [] ∧ hid = 0) ∧
      dheSKX c key = .ok ⟨p, g, ys, a1 :: a2 :: (p ++ b1 :: b2 :: (g ++ c1 :: c2 :: ys)), hid, raw⟩ := by
  unfold dheSKX
  rcases readDH_spec key with he | ⟨a1, a2, p, k1, rfl, hp, h1⟩
  · left; rw [he]
  rw [h1]
  simp only
  rcases readDH_spec k1 with he | ⟨b1, b2, g, k2, rfl, hg, h2⟩
  · left; rw [he]
  rw [h2]
  simp only
  rcases readDH_spec k2 with he | ⟨c1, c2, ys, sig, rfl, hy, h3⟩
  · left; rw [he]
  rw [h3]
  simp only
  by_cases g1 : natOf ys = 0 ∨ natOf ys ≥ natOf p
  · left; rw [if_pos g1]
  rw [if_neg g1]
  rw [sliceTo_eq _ _ (by omega)]
  simp only
  rcases verifyParameters_spec c sig with he | ⟨algB, l1, l2, raw, hid, rfl, hl, h12, h10, hok⟩
  · left; rw [he]
  · right
    rw [hok]
    simp only
    refine ⟨a1, a2, p, b1, b2, g, c1, c2, ys, algB, l1, l2, raw, hid, rfl, hp, hg, hy, hl,
      Nat.pos_of_ne_zero (fun h => g1 (Or.inl h)), Nat.lt_of_not_le (fun h => g1 (Or.inr h)), h12, h10, ?_⟩
    congr 2
    -- the signed parameters are the message without the signature block
    have : (a1 :: a2 :: (p ++ b1 :: b2 :: (g ++ c1 :: c2 :: (ys ++ (algB ++ l1 :: l2 :: raw))))) =
        (a1 :: a2 :: (p ++ b1 :: b2 :: (g ++ c1 :: c2 :: ys))) ++ (algB ++ l1 :: l2 :: raw) := by simp
    rw [this, List.length_append, Nat.add_sub_cancel, List.take_left]

/-! ### the client step after an accepted DHE ServerKeyExchange -/

theorem verifyParameters_no_panic (c : DheCtx) (sig : Bytes) : verifyParameters c sig ≠ .panic := by
  rcases verifyParameters_spec c sig with he | ⟨_, _, _, _, _, _, _, _, _, hok⟩
  · rw [he]; simp
  · rw [hok]; simp

/-- the shape of everything an InsecureSkipVerify client accepts: three length-prefixed numbers with 0 < Ys < p, then
    anything; it never panics -/
theorem dheSKXSkipVerify_spec (c : DheCtx) (key : Bytes) :
    dheSKXSkipVerify c key = .err ∨
    ∃ a1 a2 p b1 b2 g c1 c2 ys sig,
      key = a1 :: a2 :: (p ++ b1 :: b2 :: (g ++ c1 :: c2 :: (ys ++ sig))) ∧
      be16 a1 a2 = p.length ∧ be16 b1 b2 = g.length ∧ be16 c1 c2 = ys.length ∧
      0 < natOf ys ∧ natOf ys < natOf p ∧
      dheSKXSkipVerify c key = .ok (p, g, ys) := by
  unfold dheSKXSkipVerify
  rcases readDH_spec key with he | ⟨a1, a2, p, k1, rfl, hp, h1⟩
  · left; rw [he]
  rw [h1]
  simp only
  rcases readDH_spec k1 with he | ⟨b1, b2, g, k2, rfl, hg, h2⟩
  · left; rw [he]
  rw [h2]
  simp only
  rcases readDH_spec k2 with he | ⟨c1, c2, ys, sig, rfl, hy, h3⟩
  · left; rw [he]
  rw [h3]
  simp only
  by_cases g1 : natOf ys = 0 ∨ natOf ys ≥ natOf p
  · left; rw [if_pos g1]
  rw [if_neg g1]
  rw [sliceTo_eq _ _ (by omega)]
  simp only
  right
  refine ⟨a1, a2, p, b1, b2, g, c1, c2, ys, sig, rfl, hp, hg, hy,
    Nat.pos_of_ne_zero (fun h => g1 (Or.inl h)), Nat.lt_of_not_le (fun h => g1 (Or.inr h)), ?_⟩
  cases hv : verifyParameters c sig with
  | ok r => rfl
  | err => rfl
  | panic => exact absurd hv (verifyParameters_no_panic c sig)

/-! `big.Int.Bytes` / `SetBytes` arithmetic -/

theorem natOf_append_one (l : Bytes) (b : UInt8) : natOf (l ++ [b]) = natOf l * 256 + b.toNat := by
  unfold natOf
  rw [List.foldl_append]
  rfl

theorem natOf_bytesOfNat (n : Nat) : natOf (bytesOfNat n) = n := by
  induction n using Nat.strongRecOn with
  | _ n ih =>
    rw [bytesOfNat]
    by_cases h : n = 0
    · rw [dif_pos h, h]; rfl
    · rw [dif_neg h, natOf_append_one, ih (n / 256) (by omega)]
      have : (UInt8.ofNat (n % 256)).toNat = n % 256 := by
        simp
      omega

theorem bytesOfNat_length (k n : Nat) (h : n < 256 ^ k) : (bytesOfNat n).length ≤ k := by
  induction k generalizing n with
  | zero =>
    have : n = 0 := by simpa using h
    subst this
    rw [bytesOfNat]; simp
  | succ k ih =>
    rw [bytesOfNat]
    by_cases h0 : n = 0
    · rw [dif_pos h0]; simp
    · rw [dif_neg h0, List.length_append]
      have : n / 256 < 256 ^ k := by
        rw [Nat.pow_succ] at h
        exact Nat.div_lt_of_lt_mul (by omega)
      have := ih (n / 256) this
      simp
      omega

theorem foldl_lt (l : Bytes) (acc : Nat) :
    l.foldl (fun a b => a * 256 + b.toNat) acc < (acc + 1) * 256 ^ l.length := by
  induction l generalizing acc with
  | nil => simp
  | cons b r ih =>
    rw [List.foldl_cons, List.length_cons, Nat.pow_succ]
    have h1 := ih (acc * 256 + b.toNat)
    have hb := b.toNat_lt
    have h2 : (acc * 256 + b.toNat + 1) * 256 ^ r.length ≤ ((acc + 1) * 256) * 256 ^ r.length :=
      Nat.mul_le_mul_right _ (by omega)
    calc _ < (acc * 256 + b.toNat + 1) * 256 ^ r.length := h1
      _ ≤ ((acc + 1) * 256) * 256 ^ r.length := h2
      _ = (acc + 1) * (256 ^ r.length * 256) := by rw [Nat.mul_assoc, Nat.mul_comm 256]

theorem natOf_lt (l : Bytes) : natOf l < 256 ^ l.length := by
  have := foldl_lt l 0
  simpa [natOf] using this

theorem be16_ofNat (l : Nat) (h : l < 65536) : be16 (UInt8.ofNat (l / 256)) (UInt8.ofNat (l % 256)) = l := by
  unfold be16
  have h1 : (UInt8.ofNat (l / 256)).toNat = l / 256 := by
    simp; omega
  have h2 : (UInt8.ofNat (l % 256)).toNat = l % 256 := by
    simp
  omega

/-- the ClientKeyExchange a client produces after an accepted DHE ServerKeyExchange is well-formed for the server-side
    parser with the same modulus: accepted exactly when Yc ≠ 0, and then parsed back to Yc -/
theorem dheGenCKX_roundtrip (p g ys : Bytes) (x : Nat) (hp : p.length ≤ 65535) (h0 : 0 < natOf p)
    (t a b c : UInt8) :
    ∃ ct pms, dheGenCKX p g ys x = .ok (ct, pms) ∧ natOf pms = natOf ys ^ x % natOf p ∧
      (be24 a b c = ct.length → natOf g ^ x % natOf p ≠ 0 →
        ckxMsg (.dhe p) (t :: a :: b :: c :: ct) = .ok (bytesOfNat (natOf g ^ x % natOf p))) := by
  unfold dheGenCKX
  rw [if_neg (by omega)]
  refine ⟨_, _, rfl, natOf_bytesOfNat _, ?_⟩
  intro h24 hne
  generalize hn : natOf g ^ x % natOf p = n at *
  have hlt : n < natOf p := by rw [← hn]; exact Nat.mod_lt _ h0
  have hlen : (bytesOfNat n).length ≤ 65535 := by
    have := bytesOfNat_length p.length n (Nat.lt_trans hlt (natOf_lt p))
    omega
  unfold ckxMsg ckxUnmarshal
  simp only [List.length_cons] at h24 ⊢
  rw [if_neg (by omega)]
  simp only [idx, List.getElem?_cons_succ, List.getElem?_cons_zero]
  rw [if_neg (by omega)]
  rw [sliceFrom_eq _ _ (by simp)]
  simp only [List.drop_succ_cons, List.drop_zero]
  unfold dheCKX
  simp only [List.length_cons]
  rw [if_neg (by omega)]
  simp only [idx, List.getElem?_cons_succ, List.getElem?_cons_zero]
  rw [be16_ofNat _ (by omega)]
  rw [if_neg (by omega)]
  rw [sliceFrom_eq _ _ (by simp)]
  simp only [List.drop_succ_cons, List.drop_zero]
  rw [natOf_bytesOfNat]
  rw [if_neg (by omega)]


/-! ### ClientKeyExchange -/

theorem rsaCKX_spec (ct : Bytes) :
    rsaCKX ct = .err ∨ ∃ a b n, ct = a :: b :: n ∧ be16 a b = n.length ∧ rsaCKX ct = .ok n := by
  unfold rsaCKX
  by_cases h2 : ct.length < 2
  · left; rw [if_pos h2]
  rw [if_neg h2]
  obtain ⟨a, b, n, rfl⟩ := two_of_len (s := ct) (by omega)
  simp only [idx, List.getElem?_cons_succ, List.getElem?_cons_zero, List.length_cons]
  by_cases g : be16 a b ≠ n.length + 1 + 1 - 2
  · left; rw [if_pos g]
  · right
    rw [if_neg g]
    refine ⟨a, b, n, rfl, by omega, ?_⟩
    rw [sliceFrom_eq _ _ (by simp)]
    rfl

theorem ecdheCKX_spec (ok : Bool) (ct : Bytes) :
    ecdheCKX ok ct = .err ∨ ∃ n pt, ct = n :: pt ∧ n.toNat = pt.length ∧ ok = true ∧ ecdheCKX ok ct = .ok pt := by
  unfold ecdheCKX
  cases ct with
  | nil => left; rfl
  | cons n pt =>
    rw [if_neg (by simp)]
    simp only [idx, List.getElem?_cons_zero, List.length_cons]
    by_cases g : n.toNat ≠ pt.length + 1 - 1
    · left; rw [if_pos g]
    · rw [if_neg g]
      rw [sliceFrom_eq _ _ (by simp)]
      simp only [List.drop_succ_cons, List.drop_zero]
      cases ok with
      | false => left; rfl
      | true => right; exact ⟨n, pt, rfl, by omega, rfl, rfl⟩

theorem dheCKX_spec (p : Bytes) (ct : Bytes) :
    dheCKX p ct = .err ∨
    ∃ a b y, ct = a :: b :: y ∧ be16 a b = y.length ∧ 0 < natOf y ∧ natOf y < natOf p ∧ dheCKX p ct = .ok y := by
  unfold dheCKX
  by_cases h2 : ct.length < 2
  · left; rw [if_pos h2]
  rw [if_neg h2]
  obtain ⟨a, b, y, rfl⟩ := two_of_len (s := ct) (by omega)
  simp only [idx, List.getElem?_cons_succ, List.getElem?_cons_zero, List.length_cons]
  by_cases g : be16 a b ≠ y.length + 1 + 1 - 2
  · left; rw [if_pos g]
  · rw [if_neg g]
    rw [sliceFrom_eq _ _ (by simp)]
    simp only [List.drop_succ_cons, List.drop_zero]
    by_cases g1 : natOf y = 0 ∨ natOf y ≥ natOf p
    · left; rw [if_pos g1]
    · right
      rw [if_neg g1]
      exact ⟨a, b, y, rfl, by omega, by omega, by omega, rfl⟩

end ZV.C32
