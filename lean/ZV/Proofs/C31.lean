import ZV.Model.C31
/-! helper lemmas for Props/C31 -/
namespace ZV.C31

/-! ### xor -/

theorem xorWith_length (d k : Bytes) : (xorWith d k).length = d.length := by
  induction d generalizing k with
  | nil => simp [xorWith]
  | cons x xs ih => cases k <;> simp [xorWith, ih]

theorem xorWith_involutive (d k : Bytes) : xorWith (xorWith d k) k = d := by
  induction d generalizing k with
  | nil => simp [xorWith]
  | cons x xs ih =>
    cases k with
    | nil => simp [xorWith, ih]
    | cons y ys =>
      simp only [xorWith, ih]
      rw [UInt8.xor_assoc, UInt8.xor_self, UInt8.xor_zero]

/-! ### ticket layout -/

section layout
variable (name iv ct tag : Bytes)

theorem layout_length (hn : name.length = 16) (hi : iv.length = 16) (ht : tag.length = 32) :
    (name ++ iv ++ ct ++ tag).length = 64 + ct.length := by
  simp [hn, hi, ht]; omega

theorem layout_body (ht : tag.length = 32) : ticketBody (name ++ iv ++ ct ++ tag) = name ++ iv ++ ct := by
  unfold ticketBody macLen
  apply List.take_left'
  simp [ht]; omega

theorem layout_tag (ht : tag.length = 32) : ticketTag (name ++ iv ++ ct ++ tag) = tag := by
  unfold ticketTag macLen
  apply List.drop_left'
  simp [ht]; omega

theorem layout_name (hn : name.length = 16) : ticketName (name ++ iv ++ ct ++ tag) = name := by
  unfold ticketName ticketKeyNameLen
  rw [List.append_assoc, List.append_assoc]
  exact List.take_left' hn

theorem layout_iv (hn : name.length = 16) (hi : iv.length = 16) : ticketIV (name ++ iv ++ ct ++ tag) = iv := by
  unfold ticketIV ticketKeyNameLen ivLen
  rw [List.append_assoc, List.append_assoc, List.drop_left' hn]
  exact List.take_left' hi

theorem layout_ct (hn : name.length = 16) (hi : iv.length = 16) (ht : tag.length = 32) :
    ticketCiphertext (name ++ iv ++ ct ++ tag) = ct := by
  unfold ticketCiphertext
  rw [layout_body name iv ct tag ht]
  unfold ticketKeyNameLen ivLen
  apply List.drop_left'
  simp [hn, hi]

end layout

theorem body_append_tag (t : Bytes) : ticketBody t ++ ticketTag t = t := by
  unfold ticketBody ticketTag
  exact List.take_append_drop _ _

/-! ### key search -/

theorem findKey_head (name : Bytes) (k : TicketKey) (ks : List TicketKey) (i : Nat) (h : name = k.name) :
    findKey name (k :: ks) i = some (i, k) := by
  simp [findKey, h]

/-- what a successful search returns: a key of the list carrying that name, the first such, at its index -/
theorem findKey_some {name : Bytes} {ks : List TicketKey} {i j : Nat} {k : TicketKey}
    (h : findKey name ks i = some (j, k)) :
    ∃ pre post, ks = pre ++ k :: post ∧ name = k.name ∧ (∀ k' ∈ pre, name ≠ k'.name) ∧ j = i + pre.length := by
  induction ks generalizing i with
  | nil => simp [findKey] at h
  | cons x xs ih =>
    unfold findKey at h
    by_cases hx : name = x.name
    · simp only [hx, if_true, Option.some.injEq, Prod.mk.injEq] at h
      obtain ⟨h1, h2⟩ := h
      subst h2
      exact ⟨[], xs, by simp, hx, by simp, by simp [h1]⟩
    · simp only [hx, if_false] at h
      obtain ⟨pre, post, he, hn, hp, hj⟩ := ih h
      refine ⟨x :: pre, post, by simp [he], hn, ?_, by simp [hj]; omega⟩
      intro k' hk'
      cases hk' with
      | head => exact hx
      | tail _ hm => exact hp k' hm

theorem findKey_none {name : Bytes} {ks : List TicketKey} {i : Nat} :
    findKey name ks i = none ↔ ∀ k ∈ ks, name ≠ k.name := by
  induction ks generalizing i with
  | nil => simp [findKey]
  | cons x xs ih =>
    unfold findKey
    by_cases hx : name = x.name
    · simp [hx]
    · simp only [hx, if_false, ih]
      constructor
      · intro h k hk
        cases hk with
        | head => exact hx
        | tail _ hm => exact h k hm
      · intro h k hk
        exact h k (List.mem_cons_of_mem _ hk)

/-- search through a prefix of keys none of which carries the name -/
theorem findKey_skip (name : Bytes) (pre : List TicketKey) (k : TicketKey) (post : List TicketKey) (i : Nat)
    (hp : ∀ k' ∈ pre, name ≠ k'.name) (hk : name = k.name) :
    findKey name (pre ++ k :: post) i = some (i + pre.length, k) := by
  induction pre generalizing i with
  | nil => simp [findKey, hk]
  | cons x xs ih =>
    have hx : name ≠ x.name := hp x (by simp)
    simp only [List.cons_append, findKey, hx, if_false]
    rw [ih (i + 1) (fun k' hk' => hp k' (List.mem_cons_of_mem _ hk'))]
    simp; omega

end ZV.C31

namespace ZV.C31

/-! ### cipher-suite selection -/

theorem selectCipherSuite_some {sb : Nat → Option SuiteInfo} {ok : SuiteInfo → Bool} {supported ids : List Nat} {s : Nat}
    (h : selectCipherSuite sb ok supported ids = some s) :
    s ∈ ids ∧ s ∈ supported ∧ ∃ c, sb s = some c ∧ ok c = true := by
  induction ids with
  | nil => simp [selectCipherSuite] at h
  | cons id rest ih =>
    unfold selectCipherSuite at h
    split at h
    · obtain ⟨h1, h2, h3⟩ := ih h
      exact ⟨List.mem_cons_of_mem _ h1, h2, h3⟩
    · rename_i c hc
      split at h
      · obtain ⟨h1, h2, h3⟩ := ih h
        exact ⟨List.mem_cons_of_mem _ h1, h2, h3⟩
      · rename_i hok
        split at h
        · rename_i hsup
          simp only [Option.some.injEq] at h
          subst h
          refine ⟨by simp, by simpa using hsup, c, hc, by simpa using hok⟩
        · obtain ⟨h1, h2, h3⟩ := ih h
          exact ⟨List.mem_cons_of_mem _ h1, h2, h3⟩

/-- the way `checkForResumption` uses it: a one-element preference list -/
theorem selectCipherSuite_single {sb : Nat → Option SuiteInfo} {ok : SuiteInfo → Bool} {supported : List Nat} {id : Nat}
    {c : SuiteInfo} (hc : sb id = some c) (hok : ok c = true) (hs : id ∈ supported) :
    selectCipherSuite sb ok supported [id] = some id := by
  simp [selectCipherSuite, hc, hok, hs]

end ZV.C31

namespace ZV.C31

/-! ### cryptobyte integers and vectors -/

theorem natBE_length (n v : Nat) : (natBE n v).length = n := by
  induction n with
  | zero => simp [natBE]
  | succ n ih => simp [natBE, ih]

theorem beNat_acc (bs : Bytes) (acc : Nat) : beNat bs acc = acc * 256 ^ bs.length + beNat bs 0 := by
  induction bs generalizing acc with
  | nil => simp [beNat]
  | cons b bs ih =>
    simp only [beNat, List.length_cons]
    rw [ih (acc * 256 + b.toNat), ih (0 * 256 + b.toNat)]
    simp [Nat.pow_succ, Nat.add_mul, Nat.mul_assoc, Nat.mul_comm 256]
    omega

theorem beNat_natBE (n v : Nat) : beNat (natBE n v) 0 = v % 256 ^ n := by
  induction n with
  | zero => simp [natBE, beNat, Nat.mod_one]
  | succ n ih =>
    simp only [natBE, beNat]
    rw [beNat_acc, natBE_length, ih]
    have h1 : (UInt8.ofNat (v / 256 ^ n)).toNat = v / 256 ^ n % 256 := by simp
    rw [h1, Nat.mod_pow_succ]
    simp [Nat.mul_comm]; omega

theorem readUint_natBE (n v : Nat) (rest : Bytes) (hv : v < 256 ^ n) :
    readUint n (natBE n v ++ rest) = some (v, rest) := by
  unfold readUint
  have hl : ¬ (natBE n v ++ rest).length < n := by simp [natBE_length]
  simp only [hl, if_false]
  rw [List.take_left' (natBE_length n v), List.drop_left' (natBE_length n v), beNat_natBE, Nat.mod_eq_of_lt hv]

theorem readVec_append (n : Nat) (c rest : Bytes) (hc : c.length < 256 ^ n) :
    readVec n (natBE n c.length ++ c ++ rest) = some (c, rest) := by
  unfold readVec
  rw [List.append_assoc, readUint_natBE n c.length _ hc]
  have hl : ¬ (c ++ rest).length < c.length := by simp
  simp only [hl, if_false]
  rw [List.take_left' rfl, List.drop_left' rfl]

/-! ### sessionState round trip -/

/-- the certificate list as `marshal` writes it -/
def certsBytes12 : List Bytes → Bytes
  | [] => []
  | c :: cs => natBE 3 c.length ++ c ++ certsBytes12 cs

theorem marshalCerts12_ok (certs : List Bytes) (h : ∀ c ∈ certs, c.length < 256 ^ 3) :
    marshalCerts12 certs = .ok (certsBytes12 certs) := by
  induction certs with
  | nil => rfl
  | cons c cs ih =>
    have hc : c.length < 256 ^ 3 := h c (by simp)
    simp only [marshalCerts12, addVec, hc, if_true, certsBytes12]
    rw [ih (fun c' hc' => h c' (List.mem_cons_of_mem _ hc'))]
    simp [resAppend]

theorem parseCerts12_step (fuel : Nat) (s : Bytes) (hs : s ≠ []) :
    parseCerts12 (fuel + 1) s =
      match readVec 3 s with
      | none => none
      | some (cert, rest) =>
        match parseCerts12 fuel rest with
        | none => none
        | some cs => some (cert :: cs) := by
  cases s with
  | nil => exact absurd rfl hs
  | cons b bs => rfl

theorem parseCerts12_certsBytes (certs : List Bytes) (h : ∀ c ∈ certs, c.length < 256 ^ 3) (fuel : Nat)
    (hf : (certsBytes12 certs).length ≤ fuel) : parseCerts12 fuel (certsBytes12 certs) = some certs := by
  induction certs generalizing fuel with
  | nil => cases fuel <;> simp [certsBytes12, parseCerts12]
  | cons c cs ih =>
    have hc : c.length < 256 ^ 3 := h c (by simp)
    have hlen : (certsBytes12 (c :: cs)).length = 3 + c.length + (certsBytes12 cs).length := by
      simp [certsBytes12, natBE_length]; omega
    cases fuel with
    | zero => rw [hlen] at hf; omega
    | succ fuel =>
      have hne : certsBytes12 (c :: cs) ≠ [] := by
        intro he
        have : (certsBytes12 (c :: cs)).length = 0 := by rw [he]; rfl
        omega
      rw [parseCerts12_step fuel _ hne]
      have he : certsBytes12 (c :: cs) = natBE 3 c.length ++ c ++ certsBytes12 cs := rfl
      rw [he, readVec_append 3 c _ hc]
      simp only
      rw [ih (fun c' hc' => h c' (List.mem_cons_of_mem _ hc')) fuel (by rw [hlen] at hf; omega)]

/-- the field bounds under which `sessionState.marshal` does not panic and `unmarshal` accepts the result -/
structure SessionState.Bounded (s : SessionState) : Prop where
  vers : s.vers < 256 ^ 2
  suite : s.cipherSuite < 256 ^ 2
  created : s.createdAt < 256 ^ 8
  msNonempty : s.masterSecret ≠ []
  ms : s.masterSecret.length < 256 ^ 2
  cert : ∀ c ∈ s.certificates, c.length < 256 ^ 3
  certs : (certsBytes12 s.certificates).length < 256 ^ 3

/-- the bytes `marshal` produces -/
def SessionState.bytes (s : SessionState) : Bytes :=
  natBE 2 s.vers ++ (natBE 2 s.cipherSuite ++ (natBE 8 s.createdAt ++
    (natBE 2 s.masterSecret.length ++ s.masterSecret ++
      (natBE 3 (certsBytes12 s.certificates).length ++ certsBytes12 s.certificates ++ []))))

theorem SessionState.marshal_ok (s : SessionState) (b : s.Bounded) : s.marshal = .ok s.bytes := by
  unfold SessionState.marshal SessionState.bytes
  rw [marshalCerts12_ok _ b.cert]
  simp [addVec, b.ms, b.certs, resAppend]

theorem SessionState.unmarshal_bytes (s : SessionState) (b : s.Bounded) (old : Bool) :
    SessionState.unmarshal old s.bytes = some { s with usedOldKey := old } := by
  unfold SessionState.unmarshal SessionState.bytes
  rw [readUint_natBE 2 _ _ b.vers]
  simp only
  rw [readUint_natBE 2 _ _ b.suite]
  simp only
  rw [readUint_natBE 8 _ _ b.created]
  simp only
  rw [readVec_append 2 _ _ b.ms]
  have hne : s.masterSecret.isEmpty = false := by
    cases hm : s.masterSecret with
    | nil => exact absurd hm b.msNonempty
    | cons a l => rfl
  simp only [hne]
  rw [readVec_append 3 _ _ b.certs]
  simp [parseCerts12_certsBytes _ b.cert _ (Nat.le_refl _)]

end ZV.C31

namespace ZV.C31

/-! ### sessionStateTLS13 round trip (certificates without leaf extensions) -/

/-- certificate entries as `marshalCertificate` writes them when there is no OCSP staple and no SCT list -/
def certEntries13 : List Bytes → Bytes
  | [] => []
  | c :: cs => natBE 3 c.length ++ c ++ (natBE 2 0 ++ certEntries13 cs)

theorem marshalCertEntries_plain (c : Cert13) (ho : c.ocsp = none) (hs : c.scts = none) (first : Bool) (certs : List Bytes)
    (h : ∀ x ∈ certs, x.length < 256 ^ 3) : marshalCertEntries c first certs = .ok (certEntries13 certs) := by
  induction certs generalizing first with
  | nil => rfl
  | cons x xs ih =>
    have hx : x.length < 256 ^ 3 := h x (by simp)
    have hl : leafExtensions c = .ok [] := by simp [leafExtensions, ho, hs, resAppend]
    unfold marshalCertEntries
    rw [ih false (fun y hy => h y (List.mem_cons_of_mem _ hy))]
    cases first <;> simp [addVec, hx, hl, resAppend, certEntries13]

theorem parseExtensions_nil (fuel : Nat) (leaf : Bool) (st : Option Bytes × List Bytes) :
    parseExtensions fuel leaf [] st = some st := by
  cases fuel <;> rfl

theorem parseCertEntries_step (fuel n : Nat) (s : Bytes) (st : Option Bytes × List Bytes) (hs : s ≠ []) :
    parseCertEntries (fuel + 1) n s st =
      match readVec 3 s with
      | none => none
      | some (cert, s1) =>
        match readVec 2 s1 with
        | none => none
        | some (exts, rest) =>
          match parseExtensions exts.length (decide (n + 1 ≤ 1)) exts st with
          | none => none
          | some st1 =>
            match parseCertEntries fuel (n + 1) rest st1 with
            | none => none
            | some (cs, o, l) => some (cert :: cs, o, l) := by
  cases s with
  | nil => exact absurd rfl hs
  | cons b bs => rfl

theorem parseCertEntries_plain (certs : List Bytes) (h : ∀ x ∈ certs, x.length < 256 ^ 3) (fuel n : Nat)
    (st : Option Bytes × List Bytes) (hf : (certEntries13 certs).length ≤ fuel) :
    parseCertEntries fuel n (certEntries13 certs) st = some (certs, st.1, st.2) := by
  induction certs generalizing fuel n with
  | nil => cases fuel <;> simp [certEntries13, parseCertEntries]
  | cons x xs ih =>
    have hx : x.length < 256 ^ 3 := h x (by simp)
    have hlen : (certEntries13 (x :: xs)).length = 3 + x.length + 2 + (certEntries13 xs).length := by
      simp [certEntries13, natBE_length]; omega
    cases fuel with
    | zero => rw [hlen] at hf; omega
    | succ fuel =>
      have hne : certEntries13 (x :: xs) ≠ [] := by
        intro he
        have : (certEntries13 (x :: xs)).length = 0 := by rw [he]; rfl
        omega
      rw [parseCertEntries_step fuel n _ st hne]
      have he : certEntries13 (x :: xs) = natBE 3 x.length ++ x ++ (natBE 2 0 ++ certEntries13 xs) := rfl
      rw [he, readVec_append 3 x _ hx]
      simp only
      have h0 : natBE 2 0 ++ certEntries13 xs = natBE 2 ([] : Bytes).length ++ [] ++ certEntries13 xs := by simp
      rw [h0, readVec_append 2 [] _ (by decide)]
      simp only [List.length_nil, parseExtensions_nil]
      rw [ih (fun y hy => h y (List.mem_cons_of_mem _ hy)) fuel (n + 1) (by rw [hlen] at hf; omega)]

/-- bounds for the round trip of `sessionStateTLS13` (PARTIAL: no OCSP staple / SCT list stored) -/
structure SessionState13.Bounded (s : SessionState13) : Prop where
  suite : s.cipherSuite < 256 ^ 2
  created : s.createdAt < 256 ^ 8
  secNonempty : s.resumptionSecret ≠ []
  sec : s.resumptionSecret.length < 256 ^ 1
  noOcsp : s.certificate.ocsp = none
  noScts : s.certificate.scts = none
  cert : ∀ c ∈ s.certificate.certificates, c.length < 256 ^ 3
  certs : (certEntries13 s.certificate.certificates).length < 256 ^ 3

def SessionState13.bytes (s : SessionState13) : Bytes :=
  natBE 2 0x0304 ++ (natBE 1 0 ++ (natBE 2 s.cipherSuite ++ (natBE 8 s.createdAt ++
    (natBE 1 s.resumptionSecret.length ++ s.resumptionSecret ++
      (natBE 3 (certEntries13 s.certificate.certificates).length ++ certEntries13 s.certificate.certificates ++ [])))))

theorem SessionState13.marshal_ok (s : SessionState13) (b : s.Bounded) : s.marshal = .ok s.bytes := by
  unfold SessionState13.marshal SessionState13.bytes marshalCertificate
  rw [marshalCertEntries_plain _ b.noOcsp b.noScts true _ b.cert]
  simp [addVec, b.sec, b.certs, resAppend]

theorem SessionState13.unmarshal_bytes (s : SessionState13) (b : s.Bounded) :
    SessionState13.unmarshal s.bytes = some s := by
  unfold SessionState13.unmarshal SessionState13.bytes
  rw [readUint_natBE 2 _ _ (by decide)]
  simp only [ne_eq, not_true_eq_false, if_false]
  rw [readUint_natBE 1 _ _ (by decide)]
  simp only [not_true_eq_false, if_false]
  rw [readUint_natBE 2 _ _ b.suite]
  simp only
  rw [readUint_natBE 8 _ _ b.created]
  simp only
  rw [readVec_append 1 _ _ b.sec]
  have hne : s.resumptionSecret.isEmpty = false := by
    cases hm : s.resumptionSecret with
    | nil => exact absurd hm b.secNonempty
    | cons a l => rfl
  simp only [hne]
  unfold unmarshalCertificate
  rw [readVec_append 3 _ _ b.certs]
  simp only [Bool.false_eq_true, if_false]
  rw [parseCertEntries_plain _ b.cert _ _ _ (Nat.le_refl _)]
  obtain ⟨suite, created, secret, ⟨certs, ocsp, scts⟩⟩ := s
  have ho : ocsp = none := b.noOcsp
  have hs : scts = none := b.noScts
  subst ho; subst hs
  simp

end ZV.C31
