import ZV.Model.DerLite
/-! Basic lemmas of the DER TLV reader/writer: consumption (what is returned is a suffix, strictly
    shorter), element boundaries (`full ++ rest = input`, `full = header ++ body`), and
    reader ∘ writer = id. -/
namespace ZV.Der

/-! ### consumption -/

theorem readBase128_suffix : ∀ (f s acc : Nat) (bs : Bytes) (v : Nat) (rest : Bytes),
    readBase128 f s acc bs = .ok (v, rest) → ∃ pre, pre ≠ [] ∧ bs = pre ++ rest := by
  intro f
  induction f with
  | zero => intro s acc bs v rest h; simp [readBase128] at h
  | succ f ih =>
    intro s acc bs v rest h
    cases bs with
    | nil => simp [readBase128] at h
    | cons b tl =>
      simp only [readBase128] at h
      split at h
      · cases h
      · split at h
        · split at h
          · cases h
          · injection h with h; injection h with h1 h2; subst h2
            exact ⟨[b], by simp, by simp⟩
        · obtain ⟨pre, _, hp⟩ := ih _ _ _ _ _ h
          exact ⟨b :: pre, by simp, by simp [hp]⟩

theorem readLenLoop_suffix : ∀ (n acc : Nat) (bs : Bytes) (v : Nat) (rest : Bytes),
    readLenLoop n acc bs = .ok (v, rest) → ∃ pre, pre.length = n ∧ bs = pre ++ rest := by
  intro n
  induction n with
  | zero => intro acc bs v rest h; simp [readLenLoop] at h; exact ⟨[], rfl, by simp [h.2]⟩
  | succ n ih =>
    intro acc bs v rest h
    cases bs with
    | nil => simp [readLenLoop] at h
    | cons b tl =>
      simp only [readLenLoop] at h
      split at h
      · cases h
      · split at h
        · cases h
        · obtain ⟨pre, hl, hp⟩ := ih _ _ _ _ h
          exact ⟨b :: pre, by simp [hl], by simp [hp]⟩

theorem readLen_suffix (bs : Bytes) (v : Nat) (rest : Bytes) (h : readLen bs = .ok (v, rest)) :
    ∃ pre, pre ≠ [] ∧ bs = pre ++ rest := by
  cases bs with
  | nil => simp [readLen] at h
  | cons b tl =>
    simp only [readLen] at h
    split at h
    · injection h with h; injection h with h1 h2; subst h2; exact ⟨[b], by simp, by simp⟩
    · split at h
      · cases h
      · split at h
        · rename_i len rest' heq
          split at h
          · cases h
          · injection h with h; injection h with h1 h2; subst h2
            obtain ⟨pre, _, hp⟩ := readLenLoop_suffix _ _ _ _ _ heq
            exact ⟨b :: pre, by simp, by simp [hp]⟩
        · cases h
        · cases h

theorem readHdr_suffix (bs : Bytes) (hd : Hdr) (rest : Bytes) (h : readHdr bs = .ok (hd, rest)) :
    ∃ pre, 2 ≤ pre.length ∧ bs = pre ++ rest := by
  cases bs with
  | nil => simp [readHdr] at h
  | cons b tl =>
    simp only [readHdr] at h
    split at h
    · split at h
      · rename_i t rest1 heq
        split at h
        · cases h
        · split at h
          · rename_i l rest2 heq2
            injection h with h; injection h with h1 h2; subst h2
            obtain ⟨p1, _, hp1⟩ := readBase128_suffix _ _ _ _ _ _ heq
            obtain ⟨p2, hn2, hp2⟩ := readLen_suffix _ _ _ heq2
            refine ⟨b :: (p1 ++ p2), ?_, by simp [hp1, hp2]⟩
            cases p2 with
            | nil => exact absurd rfl hn2
            | cons _ _ => simp; omega
          · cases h
          · cases h
      · cases h
      · cases h
    · split at h
      · rename_i l rest2 heq2
        injection h with h; injection h with h1 h2; subst h2
        obtain ⟨p2, hn2, hp2⟩ := readLen_suffix _ _ _ heq2
        refine ⟨b :: p2, ?_, by simp [hp2]⟩
        cases p2 with
        | nil => exact absurd rfl hn2
        | cons _ _ => simp
      · cases h
      · cases h

/-- Element boundaries: an accepted element is `header ++ body`, the input is `full ++ rest`,
    the body has exactly the announced length and the header is at least two octets. -/
theorem readElem_split (bs : Bytes) (e : Elem) (rest : Bytes) (h : readElem bs = .ok (e, rest)) :
    bs = e.full ++ rest ∧ (∃ hb, 2 ≤ hb.length ∧ e.full = hb ++ e.body) ∧ e.body.length = e.hdr.len := by
  simp only [readElem] at h
  split at h
  · rename_i hd after heq
    split at h
    · cases h
    · rename_i hlen
      injection h with h; injection h with h1 h2
      subst h1; subst h2
      obtain ⟨pre, hpl, hp⟩ := readHdr_suffix _ _ _ heq
      have hlen' : hd.len ≤ after.length := by omega
      subst hp
      have e1 : (pre ++ after).length - after.length + hd.len = pre.length + hd.len := by
        simp
      simp only [e1]
      refine ⟨?_, ⟨pre, hpl, ?_⟩, ?_⟩
      · rw [List.take_append]
        simp [List.take_of_length_le (Nat.le_add_right pre.length hd.len)]
      · rw [List.take_append]
        simp [List.take_of_length_le (Nat.le_add_right pre.length hd.len)]
      · simp [List.length_take]; omega
  · cases h
  · cases h

theorem readElem_rest_lt (bs : Bytes) (e : Elem) (rest : Bytes) (h : readElem bs = .ok (e, rest)) :
    rest.length + 2 ≤ bs.length := by
  obtain ⟨h1, ⟨hb, h2, h3⟩, _⟩ := readElem_split bs e rest h
  rw [h1, h3]; simp; omega

/-- An accepted element is the sub-slice `[0, |full|)` of the input. -/
theorem readElem_full_eq_take (bs : Bytes) (e : Elem) (rest : Bytes) (h : readElem bs = .ok (e, rest)) :
    e.full = bs.take e.full.length := by
  obtain ⟨h1, _, _⟩ := readElem_split bs e rest h
  conv => rhs; rw [h1]
  simp

/-! ### reader ∘ writer -/

theorem lenDigits_length (n : Nat) : 1 ≤ (lenDigits n).length ∧ (lenDigits n).length ≤ 4 := by
  unfold lenDigits; split
  · simp
  · split
    · simp
    · split <;> simp

set_option maxRecDepth 20000 in
theorem readLen_encLen (n : Nat) (rest : Bytes) (hn : n < 2147483648) :
    readLen (encLen n ++ rest) = .ok (n, rest) := by
  unfold encLen
  split
  · rename_i h
    have : n % 256 = n := by omega
    simp [readLen, UInt8.toNat_ofNat', this, h]
  · rename_i h
    have a4 : ¬ n < 128 := h
    have a9 : n ≠ 0 := by omega
    unfold lenDigits
    split
    · rename_i h1
      have a0 : n % 256 = n := by omega
      simp [readLen, readLenLoop, UInt8.toNat_ofNat', a0, a9, a4]
    · split
      · rename_i h1 h2
        have a0 : n / 256 % 256 = n / 256 := by omega
        have a1 : n / 256 ≠ 0 := by omega
        have a2 : ¬ 8388608 ≤ n / 256 := by omega
        have a3 : n / 256 * 256 + n % 256 = n := by omega
        simp [readLen, readLenLoop, UInt8.toNat_ofNat', a0, a1, a2, a3, a4, a9]
      · split
        · rename_i h1 h2 h3
          have a0 : n / 65536 % 256 = n / 65536 := by omega
          have a1 : n / 65536 ≠ 0 := by omega
          have a2 : ¬ 8388608 ≤ n / 65536 := by omega
          have a3 : n / 65536 * 256 + n / 256 % 256 = n / 256 := by omega
          have a5 : ¬ 8388608 ≤ n / 256 := by omega
          have a6 : n / 256 * 256 + n % 256 = n := by omega
          have a7 : n / 256 ≠ 0 := by omega
          simp [readLen, readLenLoop, UInt8.toNat_ofNat', a0, a1, a2, a3, a4, a9, a5, a6, a7]
        · rename_i h1 h2 h3
          have a0 : n / 16777216 % 256 = n / 16777216 := by omega
          have a1 : n / 16777216 ≠ 0 := by omega
          have a2 : ¬ 8388608 ≤ n / 16777216 := by omega
          have a3 : n / 16777216 * 256 + n / 65536 % 256 = n / 65536 := by omega
          have a5 : ¬ 8388608 ≤ n / 65536 := by omega
          have b3 : n / 65536 * 256 + n / 256 % 256 = n / 256 := by omega
          have b5 : ¬ 8388608 ≤ n / 256 := by omega
          have a6 : n / 256 * 256 + n % 256 = n := by omega
          have a7 : n / 256 ≠ 0 := by omega
          have a8 : n / 65536 ≠ 0 := by omega
          simp [readLen, readLenLoop, UInt8.toNat_ofNat', a0, a1, a2, a3, a4, a9, a5, a6, a7, a8, b3, b5]

theorem encLen_length (n : Nat) : 1 ≤ (encLen n).length ∧ (encLen n).length ≤ 5 := by
  have := lenDigits_length n
  unfold encLen; split <;> simp <;> omega

/-- `readHdr` of a written header (low tag number, length < 2^31). -/
theorem readHdr_writeTLV (t : UInt8) (body rest : Bytes) (ht : t.toNat % 32 ≠ 31)
    (hl : body.length < 2147483648) :
    readHdr (writeTLV t body ++ rest) = .ok (hdrOf t body.length, body ++ rest) := by
  simp only [writeTLV, List.cons_append, readHdr, ht, if_false, List.append_assoc]
  rw [readLen_encLen _ _ hl]
  simp [hdrOf]

/-- **Reader ∘ writer**: reading `writeTLV t body ++ rest` yields exactly `t`'s header, `body`, the
    full encoding and `rest` (for every low-tag identifier octet and every body shorter than 2^31). -/
theorem readElem_writeTLV (t : UInt8) (body rest : Bytes) (ht : t.toNat % 32 ≠ 31)
    (hl : body.length < 2147483648) :
    readElem (writeTLV t body ++ rest) = .ok (⟨hdrOf t body.length, body, writeTLV t body⟩, rest) := by
  simp only [readElem]
  rw [readHdr_writeTLV t body rest ht hl]
  have e1 : (writeTLV t body ++ rest).length - (body ++ rest).length + (hdrOf t body.length).len
      = (writeTLV t body).length := by
    simp [hdrOf, writeTLV]; omega
  have e2 : ¬ (body ++ rest).length < (hdrOf t body.length).len := by simp [hdrOf]
  simp only [if_neg e2, e1]
  simp [hdrOf]

theorem writeTLV_length (t : UInt8) (body : Bytes) :
    (writeTLV t body).length = 1 + (encLen body.length).length + body.length := by
  simp [writeTLV]; omega

/-- consecutive written elements are read back one by one. -/
theorem readElemsFuel_nil (f : Nat) : readElemsFuel f [] = .ok [] := by
  cases f <;> simp [readElemsFuel]

end ZV.Der
