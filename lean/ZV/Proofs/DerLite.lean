import ZV.Model.DerLite
/-! Basic lemmas of the DER TLV reader/writer: consumption (what is returned is a suffix, strictly
    shorter), element boundaries (`full ++ rest = input`, `full = header ++ body`), and
    reader ∘ writer = id. -/
namespace ZV.Der

/-! ### consumption -/

theorem readBase128_suffix : ∀ (f s acc : Nat) (bs : Bytes) (v : Nat) (rest : Bytes),
    readBase128 f s acc bs = .ok (v, rest) → ∃ pre, pre ≠ [] ∧ bs = pre ++ rest := by
  intro f
  induction f with
  | zero => intro s acc bs v rest h; simp [readBase128] at h
  | succ f ih =>
    intro s acc bs v rest h
    cases bs with
    | nil => simp [readBase128] at h
    | cons b tl =>
      simp only [readBase128] at h
      split at h
      · cases h
      · split at h
        · split at h
          · cases h
          · injection h with h; injection h with h1 h2; subst h2
            exact ⟨[b], by simp, by simp⟩
        · obtain ⟨pre, _, hp⟩ := ih _ _ _ _ _ h
          exact ⟨b :: pre, by simp, by simp [hp]⟩

theorem readLenLoop_suffix : ∀ (n acc : Nat) (bs : Bytes) (v : Nat) (rest : Bytes),
    readLenLoop n acc bs = .ok (v, rest) → ∃ pre, pre.length = n ∧ bs = pre ++ rest := by
  intro n
  induction n with
  | zero => intro acc bs v rest h; simp [readLenLoop] at h; exact ⟨[], rfl, by simp [h.2]⟩
  | succ n ih =>
    intro acc bs v rest h
    cases bs with
    | nil => simp [readLenLoop] at h
    | cons b tl =>
      simp only [readLenLoop] at h
      split at h
      · cases h
      · split at h
        · cases h
        · obtain ⟨pre, hl, hp⟩ := ih _ _ _ _ h
          exact ⟨b :: pre, by simp [hl], by simp [hp]⟩

theorem readLen_suffix (bs : Bytes) (v : Nat) (rest : Bytes) (h : readLen bs = .ok (v, rest)) :
    ∃ pre, pre ≠ [] ∧ bs = pre ++ rest := by
  cases bs with
  | nil => simp [readLen] at h
  | cons b tl =>
    simp only [readLen] at h
    split at h
    · injection h with h; injection h with h1 h2; subst h2; exact ⟨[b], by simp, by simp⟩
    · split at h
      · cases h
      · split at h
        · rename_i len rest' heq
          split at h
          · cases h
          · injection h with h; injection h with h1 h2; subst h2
            obtain ⟨pre, _, hp⟩ := readLenLoop_suffix _ _ _ _ _ heq
            exact ⟨b :: pre, by simp, by simp [hp]⟩
        · cases h
        · cases h

theorem readHdr_suffix (bs : Bytes) (hd : Hdr) (rest : Bytes) (h : readHdr bs = .ok (hd, rest)) :
    ∃ pre, 2 ≤ pre.length ∧ bs = pre ++ rest := by
  cases bs with
  | nil => simp [readHdr] at h
  | cons b tl =>
    simp only [readHdr] at h
    split at h
    · split at h
      · rename_i t rest1 heq
        split at h
        · cases h
        · split at h
          · rename_i l rest2 heq2
            injection h with h; injection h with h1 h2; subst h2
            obtain ⟨p1, _, hp1⟩ := readBase128_suffix _ _ _ _ _ _ heq
            obtain ⟨p2, hn2, hp2⟩ := readLen_suffix _ _ _ heq2
            refine ⟨b :: (p1 ++ p2), ?_, by simp [hp1, hp2]⟩
            cases p2 with
            | nil => exact absurd rfl hn2
            | cons _ _ => simp; omega
          · cases h
          · cases h
      · cases h
      · cases h
    · split at h
      · rename_i l rest2 heq2
        injection h with h; injection h with h1 h2; subst h2
        obtain ⟨p2, hn2, hp2⟩ := readLen_suffix _ _ _ heq2
        refine ⟨b :: p2, ?_, by simp [hp2]⟩
        cases p2 with
        | nil => exact absurd rfl hn2
        | cons _ _ => simp
      · cases h
      · cases h

/-- Element boundaries: an accepted element is `header ++ body`, the input is `full ++ rest`,
    the body has exactly the announced length and the header is at least two octets. -/
theorem readElem_split (bs : Bytes) (e : Elem) (rest : Bytes) (h : readElem bs = .ok (e, rest)) :
    bs = e.full ++ rest ∧ (∃ hb, 2 ≤ hb.length ∧ e.full = hb ++ e.body) ∧ e.body.length = e.hdr.len := by
  simp only [readElem] at h
  split at h
  · rename_i hd after heq
    split at h
    · cases h
    · rename_i hlen
      injection h with h; injection h with h1 h2
      subst h1; subst h2
      obtain ⟨pre, hpl, hp⟩ := readHdr_suffix _ _ _ heq
      have hlen' : hd.len ≤ after.length := by omega
      subst hp
      have e1 : (pre ++ after).length - after.length + hd.len = pre.length + hd.len := by
        simp
      simp only [e1]
      refine ⟨?_, ⟨pre, hpl, ?_⟩, ?_⟩
      · rw [List.take_append]
        simp [List.take_of_length_le (Nat.le_add_right pre.length hd.len)]
      · rw [List.take_append]
        simp [List.take_of_length_le (Nat.le_add_right pre.length hd.len)]
      · simp [List.length_take]; omega
  · cases h
  · cases h

theorem readElem_rest_lt (bs : Bytes) (e : Elem) (rest : Bytes) (h : readElem bs = .ok (e, rest)) :
    rest.length + 2 ≤ bs.length := by
  obtain ⟨h1, ⟨hb, h2, h3⟩, _⟩ := readElem_split bs e rest h
  rw [h1, h3]; simp; omega

/-- An accepted element is the sub-slice `[0, |full|)` of the input. -/
theorem readElem_full_eq_take (bs : Bytes) (e : Elem) (rest : Bytes) (h : readElem bs = .ok (e, rest)) :
    e.full = bs.take e.full.length := by
  obtain ⟨h1, _, _⟩ := readElem_split bs e rest h
  conv => rhs; rw [h1]
  simp

/-! ### reader ∘ writer -/

theorem lenDigits_length (n : Nat) : 1 ≤ (lenDigits n).length ∧ (lenDigits n).length ≤ 4 := by
  unfold lenDigits; split
  · simp
  · split
    · simp
    · split <;> simp

set_option maxRecDepth 20000 in
theorem readLen_encLen (n : Nat) (rest : Bytes) (hn : n < 2147483648) :
    readLen (encLen n ++ rest) = .ok (n, rest) := by
  unfold encLen
  split
  · rename_i h
    have : n % 256 = n := by omega
    simp [readLen, UInt8.toNat_ofNat', this, h]
  · rename_i h
    have a4 : ¬ n < 128 := h
    have a9 : n ≠ 0 := by omega
    unfold lenDigits
    split
    · rename_i h1
      have a0 : n % 256 = n := by omega
      simp [readLen, readLenLoop, UInt8.toNat_ofNat', a0, a9, a4]
    · split
      · rename_i h1 h2
        have a0 : n / 256 % 256 = n / 256 := by omega
        have a1 : n / 256 ≠ 0 := by omega
        have a2 : ¬ 8388608 ≤ n / 256 := by omega
        have a3 : n / 256 * 256 + n % 256 = n := by omega
        simp [readLen, readLenLoop, UInt8.toNat_ofNat', a0, a1, a2, a3, a4, a9]
      · split
        · rename_i h1 h2 h3
          have a0 : n / 65536 % 256 = n / 65536 := by omega
          have a1 : n / 65536 ≠ 0 := by omega
          have a2 : ¬ 8388608 ≤ n / 65536 := by omega
          have a3 : n / 65536 * 256 + n / 256 % 256 = n / 256 := by omega
          have a5 : ¬ 8388608 ≤ n / 256 := by omega
          have a6 : n / 256 * 256 + n % 256 = n := by omega
          have a7 : n / 256 ≠ 0 := by omega
          simp [readLen, readLenLoop, UInt8.toNat_ofNat', a0, a1, a2, a3, a4, a9, a5, a6, a7]
        · rename_i h1 h2 h3
          have a0 : n / 16777216 % 256 = n / 16777216 := by omega
          have a1 : n / 16777216 ≠ 0 := by omega
          have a2 : ¬ 8388608 ≤ n / 16777216 := by omega
          have a3 : n / 16777216 * 256 + n / 65536 % 256 = n / 65536 := by omega
          have a5 : ¬ 8388608 ≤ n / 65536 := by omega
          have b3 : n / 65536 * 256 + n / 256 % 256 = n / 256 := by omega
          have b5 : ¬ 8388608 ≤ n / 256 := by omega
          have a6 : n / 256 * 256 + n % 256 = n := by omega
          have a7 : n / 256 ≠ 0 := by omega
          have a8 : n / 65536 ≠ 0 := by omega
          simp [readLen, readLenLoop, UInt8.toNat_ofNat', a0, a1, a2, a3, a4, a9, a5, a6, a7, a8, b3, b5]

theorem encLen_length (n : Nat) : 1 ≤ (encLen n).length ∧ (encLen n).length ≤ 5 := by
  have := lenDigits_length n
  unfold encLen; split <;> simp <;> omega

/-- `readHdr` of a written header (low tag number, length < 2^31). -/
theorem readHdr_writeTLV (t : UInt8) (body rest : Bytes) (ht : t.toNat % 32 ≠ 31)
    (hl : body.length < 2147483648) :
    readHdr (writeTLV t body ++ rest) = .ok (hdrOf t body.length, body ++ rest) := by
  simp only [writeTLV, List.cons_append, readHdr, ht, if_false, List.append_assoc]
  rw [readLen_encLen _ _ hl]
  simp [hdrOf]

/-- **Reader ∘ writer**: reading `writeTLV t body ++ rest` yields exactly `t`'s header, `body`, the
    full encoding and `rest` (for every low-tag identifier octet and every body shorter than 2^31). -/
theorem readElem_writeTLV (t : UInt8) (body rest : Bytes) (ht : t.toNat % 32 ≠ 31)
    (hl : body.length < 2147483648) :
    readElem (writeTLV t body ++ rest) = .ok (⟨hdrOf t body.length, body, writeTLV t body⟩, rest) := by
  simp only [readElem]
  rw [readHdr_writeTLV t body rest ht hl]
  have e1 : (writeTLV t body ++ rest).length - (body ++ rest).length + (hdrOf t body.length).len
      = (writeTLV t body).length := by
    simp [hdrOf, writeTLV]; omega
  have e2 : ¬ (body ++ rest).length < (hdrOf t body.length).len := by simp [hdrOf]
  simp only [if_neg e2, e1]
  simp [hdrOf]

theorem writeTLV_length (t : UInt8) (body : Bytes) :
    (writeTLV t body).length = 1 + (encLen body.length).length + body.length := by
  simp [writeTLV]; omega

/-- consecutive written elements are read back one by one. -/
theorem readElemsFuel_nil (f : Nat) : readElemsFuel f [] = .ok [] := by
  cases f <;> simp [readElemsFuel]

/-! ### SEQUENCE OF: reading back a concatenation of written elements -/

/-- the element `readElem` reports for a written TLV -/
def elemOf (t : UInt8) (body : Bytes) : Elem := ⟨hdrOf t body.length, body, writeTLV t body⟩

theorem length_le_flatten {α} {x : List α} {l : List (List α)} (h : x ∈ l) : x.length ≤ l.flatten.length := by
  induction l with
  | nil => cases h
  | cons y ys ih =>
    simp only [List.flatten_cons, List.length_append]
    rcases List.mem_cons.mp h with h | h
    · subst h; omega
    · have := ih h; omega

theorem writeTLV_length_ge (t : UInt8) (body : Bytes) : body.length + 2 ≤ (writeTLV t body).length := by
  have := encLen_length body.length
  rw [writeTLV_length]; omega

theorem readElemsFuel_writeTLVs {α} (t : α → UInt8) (b : α → Bytes) : ∀ (xs : List α) (f : Nat),
    (∀ x ∈ xs, (t x).toNat % 32 ≠ 31 ∧ (b x).length < 2147483648) →
    ((xs.map fun x => writeTLV (t x) (b x)).flatten).length ≤ f →
    readElemsFuel f ((xs.map fun x => writeTLV (t x) (b x)).flatten) = .ok (xs.map fun x => elemOf (t x) (b x)) := by
  intro xs
  induction xs with
  | nil => intro f _ _; simp [readElemsFuel_nil]
  | cons x xs ih =>
    intro f h hf
    have hx := h x List.mem_cons_self
    simp only [List.map_cons, List.flatten_cons, List.length_append] at hf ⊢
    have h2 := writeTLV_length_ge (t x) (b x)
    cases f with
    | zero => omega
    | succ f =>
      have hne : (writeTLV (t x) (b x) ++ (xs.map fun x => writeTLV (t x) (b x)).flatten).isEmpty = false := by
        simp [writeTLV]
      simp only [readElemsFuel, hne]
      rw [readElem_writeTLV _ _ _ hx.1 hx.2]
      simp only [Bool.false_eq_true, if_false]
      rw [ih f (fun y hy => h y (List.mem_cons_of_mem _ hy)) (by omega)]
      rfl

/-- **SEQUENCE OF reader ∘ writer**: a concatenation of written TLVs is read back element by element. -/
theorem readElems_writeTLVs {α} (t : α → UInt8) (b : α → Bytes) (xs : List α)
    (h : ∀ x ∈ xs, (t x).toNat % 32 ≠ 31 ∧ (b x).length < 2147483648) :
    readElems ((xs.map fun x => writeTLV (t x) (b x)).flatten) = .ok (xs.map fun x => elemOf (t x) (b x)) :=
  readElemsFuel_writeTLVs t b xs _ h (Nat.le_refl _)

/-! ### INTEGER contents: big-endian value, two's complement, minimality -/

theorem foldl256 (bs : Bytes) (a : Nat) :
    bs.foldl (fun acc b => acc * 256 + b.toNat) a
      = a * 256 ^ bs.length + bs.foldl (fun acc b => acc * 256 + b.toNat) 0 := by
  induction bs generalizing a with
  | nil => simp
  | cons b t ih =>
    simp only [List.foldl_cons, List.length_cons]
    rw [ih, ih (0 * 256 + b.toNat)]
    simp only [Nat.pow_succ, Nat.add_mul, Nat.zero_mul, Nat.zero_add, Nat.mul_assoc, Nat.mul_comm 256]
    omega

theorem natOfBytes_nil : natOfBytes [] = 0 := rfl

theorem natOfBytes_cons (a : UInt8) (t : Bytes) :
    natOfBytes (a :: t) = a.toNat * 256 ^ t.length + natOfBytes t := by
  simp only [natOfBytes, List.foldl_cons]
  rw [foldl256]; simp

theorem natOfBytes_lt (bs : Bytes) : natOfBytes bs < 256 ^ bs.length := by
  induction bs with
  | nil => simp [natOfBytes]
  | cons a t ih =>
    rw [natOfBytes_cons, List.length_cons, Nat.pow_succ]
    have := a.toNat_lt
    have h : a.toNat * 256 ^ t.length ≤ 255 * 256 ^ t.length := Nat.mul_le_mul_right _ (by omega)
    omega

/-- **Two's complement decoding.**  A byte string of `k+1` octets whose unsigned value is the
    residue of `v` modulo `256^(k+1)`, with `v` inside the `k+1`-octet signed range and outside the
    `k`-octet one (minimality), passes `checkInteger` and decodes to `v`. -/
theorem int_decode (bs : Bytes) (k : Nat) (v : Int) (hl : bs.length = k + 1)
    (hu : (natOfBytes bs : Int) = if v < 0 then v + (256 : Int) ^ (k + 1) else v)
    (hlo : -(128 * (256 : Int) ^ k) ≤ v) (hhi : v < 128 * (256 : Int) ^ k)
    (hmin : ∀ j, k = j + 1 → v < -(128 * (256 : Int) ^ j) ∨ 128 * (256 : Int) ^ j ≤ v) :
    checkInteger bs = true ∧ intOfBytes bs = v := by
  have hP : (256 : Int) ^ k = ((256 ^ k : Nat) : Int) := by simp
  have hP1 : (256 : Int) ^ (k + 1) = ((256 ^ k * 256 : Nat) : Int) := by simp [Int.pow_succ]
  rw [hP] at hlo hhi
  rw [hP1] at hu
  have hPpos : 0 < 256 ^ k := Nat.pow_pos (by decide)
  cases bs with
  | nil => simp at hl
  | cons a t =>
    have hk : t.length = k := by simpa using hl
    have hcons := natOfBytes_cons a t
    have hN := natOfBytes_lt t
    rw [hk] at hcons hN
    have ha := a.toNat_lt
    constructor
    · -- minimality
      cases t with
      | nil => simp [checkInteger]
      | cons b t' =>
        have hj : k = t'.length + 1 := by simpa using hk.symm
        have hm := hmin t'.length hj
        have hQ : (256 : Int) ^ t'.length = ((256 ^ t'.length : Nat) : Int) := by simp
        rw [hQ] at hm
        have hcons2 := natOfBytes_cons b t'
        have hN2 := natOfBytes_lt t'
        have hPQ : 256 ^ k = 256 ^ t'.length * 256 := by rw [hj, Nat.pow_succ]
        have hQpos : 0 < 256 ^ t'.length := Nat.pow_pos (by decide)
        rw [hPQ] at hcons hlo hhi hu
        rw [hcons2] at hcons
        generalize 256 ^ t'.length = Q at *
        generalize natOfBytes t' = N' at *
        generalize natOfBytes (a :: b :: t') = U at *
        simp only [checkInteger]
        simp only [Bool.not_eq_true', decide_eq_false_iff_not]
        rintro (⟨h0, hb1⟩ | ⟨h0, hb1⟩)
        · have : b.toNat * Q ≤ 127 * Q := Nat.mul_le_mul_right _ (by omega)
          rw [h0] at hcons
          split at hu <;> omega
        · have : 128 * Q ≤ b.toNat * Q := Nat.mul_le_mul_right _ hb1
          rw [h0] at hcons
          split at hu <;> omega
    · simp only [intOfBytes]
      have h2 : 2 ^ (8 * (a :: t).length) = 256 ^ k * 256 := by
        rw [hl, Nat.pow_mul, Nat.pow_succ]
      rw [h2]
      generalize natOfBytes (a :: t) = U at *
      generalize natOfBytes t = N at *
      generalize 256 ^ k = P at *
      by_cases h : a.toNat ≥ 128
      · have : 128 * P ≤ a.toNat * P := Nat.mul_le_mul_right _ h
        rw [if_pos h]
        split at hu <;> omega
      · have : a.toNat * P ≤ 127 * P := Nat.mul_le_mul_right _ (by omega)
        rw [if_neg h]
        split at hu <;> omega

/-! ### base-128 (OID arcs, high tag numbers): reader ∘ writer -/

theorem base128Aux_zero (f : Nat) (acc : Bytes) : base128Aux f 0 acc = acc := by
  cases f <;> simp [base128Aux]

/-- Reading the continuation octets `base128Aux` prepends: `k` octets are consumed, the accumulator
    becomes `a * 128^k + m`. -/
theorem readBase128_aux : ∀ (f m : Nat) (tl : Bytes), m ≤ f →
    ∃ k, (k = 0 ↔ m = 0) ∧ (∀ j, k = j + 1 → 128 ^ j ≤ m) ∧
      ∀ (g s a : Nat) (rest : Bytes), k ≤ g →
        readBase128 g s a (base128Aux f m tl ++ rest) = readBase128 (g - k) (s + k) (a * 128 ^ k + m) (tl ++ rest) := by
  intro f
  induction f with
  | zero =>
    intro m tl hm
    have : m = 0 := by omega
    subst this
    exact ⟨0, by simp, by intro j hj; omega, by intro g s a rest _; simp [base128Aux]⟩
  | succ f ih =>
    intro m tl hm
    by_cases h0 : m = 0
    · subst h0
      exact ⟨0, by simp, by intro j hj; omega, by intro g s a rest _; simp [base128Aux]⟩
    · have hle : m / 128 ≤ f := by omega
      obtain ⟨k', hk0, hkp, hrd⟩ := ih (m / 128) (UInt8.ofNat (128 + m % 128) :: tl) hle
      refine ⟨k' + 1, by simp [h0], ?_, ?_⟩
      · intro j hj
        have hjk : j = k' := by omega
        subst hjk
        cases j with
        | zero => simp; omega
        | succ i =>
          have := hkp i rfl
          rw [Nat.pow_succ]; omega
      · intro g s a rest hg
        simp only [base128Aux, h0, if_false]
        rw [hrd g s a rest (by omega)]
        have hg1 : g - k' = (g - (k' + 1)) + 1 := by omega
        rw [hg1]
        simp only [List.cons_append, readBase128]
        have hb : (UInt8.ofNat (128 + m % 128)).toNat = 128 + m % 128 := by
          simp [UInt8.toNat_ofNat']; omega
        rw [hb]
        have hc : ¬ (s + k' = 0 ∧ 128 + m % 128 = 128) := by
          rintro ⟨h1, h2⟩
          have : k' = 0 := by omega
          have := hk0.mp this
          omega
        rw [if_neg hc]
        have hd : ¬ (128 + m % 128 < 128) := by omega
        simp only [hd, if_false]
        congr 1
        · rw [Nat.pow_succ]
          have : (128 + m % 128) % 128 = m % 128 := by omega
          rw [this]
          have hm : m = m / 128 * 128 + m % 128 := by omega
          generalize 128 ^ k' = P
          rw [Nat.add_mul, Nat.mul_assoc]; omega

/-- **base-128 reader ∘ writer**: every value up to `MaxInt32` written by `appendBase128Int` is read back by
    `parseBase128Int`, consuming exactly the written octets. -/
theorem readBase128_encBase128 (n : Nat) (rest : Bytes) (hn : n ≤ 2147483647) :
    readBase128 5 0 0 (encBase128 n ++ rest) = .ok (n, rest) := by
  unfold encBase128
  obtain ⟨k, hk0, hkp, hrd⟩ := readBase128_aux (n + 1) (n / 128) [UInt8.ofNat (n % 128)] (by omega)
  have hk4 : k ≤ 4 := by
    apply Decidable.byContradiction
    intro hc
    have h5 : 128 ^ 4 ≤ 128 ^ (k - 1) := Nat.pow_le_pow_right (by decide) (by omega)
    have := hkp (k - 1) (by omega)
    have e : (128 : Nat) ^ 4 = 268435456 := by decide
    omega
  rw [hrd 5 0 0 rest (by omega)]
  have hg : 5 - k = (4 - k) + 1 := by omega
  rw [hg]
  simp only [List.cons_append, List.nil_append, readBase128]
  have hb : (UInt8.ofNat (n % 128)).toNat = n % 128 := by
    simp [UInt8.toNat_ofNat']; omega
  rw [hb]
  have hc : ¬ (0 + k = 0 ∧ n % 128 = 128) := by omega
  have hd : n % 128 < 128 := by omega
  have he : (0 * 128 ^ k + n / 128) * 128 + n % 128 % 128 = n := by omega
  rw [if_neg hc, he]
  simp only [hd, if_true]
  rw [if_neg (by omega)]

theorem base128Aux_length (f m : Nat) (acc : Bytes) : acc.length ≤ (base128Aux f m acc).length := by
  induction f generalizing m acc with
  | zero => simp [base128Aux]
  | succ f ih =>
    simp only [base128Aux]
    split
    · exact Nat.le_refl _
    · have := ih (m / 128) (UInt8.ofNat (128 + m % 128) :: acc)
      simp only [List.length_cons] at this; omega

theorem encBase128_length (n : Nat) : 1 ≤ (encBase128 n).length := by
  unfold encBase128
  have := base128Aux_length (n + 1) (n / 128) [UInt8.ofNat (n % 128)]
  simpa using this

end ZV.Der
