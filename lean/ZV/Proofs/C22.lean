import ZV.Model.C22
/-! helper lemmas for C22 (core Lean only): field access after updates, the effect of
    `FillFromRDNSequence` on a flat attribute list, `ToRDNSequence` as a list expression. -/
namespace ZV.C22

/-! ### field access after updates -/

theorem Field.mem_all (f : Field) : f ∈ Field.all := by cases f <;> simp [Field.all]
theorem Scalar.mem_all (s : Scalar) : s ∈ Scalar.all := by cases s <;> simp [Scalar.all]

theorem get_modify (n : Name) (f g : Field) (h : List Bytes → List Bytes) :
    (n.modify f h).get g = if g = f then h (n.get g) else n.get g := by
  cases f <;> cases g <;> simp [Name.modify, Name.get]

@[simp] theorem getS_modify (n : Name) (f : Field) (h) (s : Scalar) : (n.modify f h).getS s = n.getS s := by
  cases f <;> cases s <;> rfl
@[simp] theorem names_modify (n : Name) (f : Field) (h) : (n.modify f h).names = n.names := by cases f <;> rfl
@[simp] theorem extra_modify (n : Name) (f : Field) (h) : (n.modify f h).extraNames = n.extraNames := by cases f <;> rfl
@[simp] theorem orig_modify (n : Name) (f : Field) (h) : (n.modify f h).originalRDNS = n.originalRDNS := by cases f <;> rfl

@[simp] theorem get_setS (n : Name) (s : Scalar) (v) (g : Field) : (n.setS s v).get g = n.get g := by
  cases s <;> cases g <;> rfl
theorem getS_setS (n : Name) (s s' : Scalar) (v) : (n.setS s v).getS s' = if s' = s then v else n.getS s' := by
  cases s <;> cases s' <;> simp [Name.setS, Name.getS]
@[simp] theorem names_setS (n : Name) (s : Scalar) (v) : (n.setS s v).names = n.names := by cases s <;> rfl
@[simp] theorem extra_setS (n : Name) (s : Scalar) (v) : (n.setS s v).extraNames = n.extraNames := by cases s <;> rfl
@[simp] theorem orig_setS (n : Name) (s : Scalar) (v) : (n.setS s v).originalRDNS = n.originalRDNS := by cases s <;> rfl

@[simp] theorem get_withNames (n : Name) (l) (g : Field) : ({ n with names := l } : Name).get g = n.get g := by
  cases g <;> rfl
@[simp] theorem getS_withNames (n : Name) (l) (s : Scalar) : ({ n with names := l } : Name).getS s = n.getS s := by
  cases s <;> rfl
@[simp] theorem get_withOrig (n : Name) (o) (g : Field) : ({ n with originalRDNS := o } : Name).get g = n.get g := by
  cases g <;> rfl
@[simp] theorem getS_withOrig (n : Name) (o) (s : Scalar) : ({ n with originalRDNS := o } : Name).getS s = n.getS s := by
  cases s <;> rfl


/-! ### what one attribute / a flat attribute list does to a Name -/

/-- the values an attribute contributes to slice field `f` -/
def valsFor (f : Field) (a : ATV) : List Bytes :=
  match a.value with
  | .str v => List.replicate ((armOf a.type).count (.app f)) v
  | .other _ _ => []

/-- the value of scalar `s` after an attribute ("last one wins") -/
def stepS (s : Scalar) (cur : Bytes) (a : ATV) : Bytes :=
  match a.value with
  | .str v => if Act.set s ∈ armOf a.type then v else cur
  | .other _ _ => cur

theorem acts_get (v : Bytes) (f : Field) (acts : List Act) (n : Name) :
    (acts.foldl (applyAct v) n).get f = n.get f ++ List.replicate (acts.count (.app f)) v := by
  induction acts generalizing n with
  | nil => simp
  | cons a rest ih =>
    rw [List.foldl_cons, ih]
    cases a with
    | set s => simp [applyAct]
    | app g =>
      simp only [applyAct, get_modify, List.count_cons]
      by_cases hfg : f = g
      · subst hfg; simp [List.replicate_succ]
      · have : ¬ g = f := fun h => hfg h.symm
        simp [hfg, this]

theorem acts_getS (v : Bytes) (s : Scalar) (acts : List Act) (n : Name) :
    (acts.foldl (applyAct v) n).getS s = if Act.set s ∈ acts then v else n.getS s := by
  induction acts generalizing n with
  | nil => simp
  | cons a rest ih =>
    rw [List.foldl_cons, ih]
    cases a with
    | app g => simp [applyAct]
    | set s' =>
      simp only [applyAct, getS_setS, List.mem_cons]
      by_cases h1 : Act.set s ∈ rest
      · simp [h1]
      · by_cases h2 : s = s'
        · subst h2; simp [h1]
        · have : ¬ Act.set s = Act.set s' := fun h => h2 (by injection h)
          simp [h1, h2, this]

theorem acts_names (v : Bytes) (acts : List Act) (n : Name) :
    (acts.foldl (applyAct v) n).names = n.names ∧ (acts.foldl (applyAct v) n).extraNames = n.extraNames ∧
    (acts.foldl (applyAct v) n).originalRDNS = n.originalRDNS := by
  induction acts generalizing n with
  | nil => simp
  | cons a rest ih =>
    rw [List.foldl_cons]
    have := ih (applyAct v n a)
    cases a <;> simp_all [applyAct]

theorem fillATV_get (n : Name) (a : ATV) (f : Field) : (fillATV n a).get f = n.get f ++ valsFor f a := by
  unfold fillATV valsFor
  cases a.value with
  | str v => simp [acts_get]
  | other t r => simp

theorem fillATV_getS (n : Name) (a : ATV) (s : Scalar) : (fillATV n a).getS s = stepS s (n.getS s) a := by
  unfold fillATV stepS
  cases a.value with
  | str v => simp [acts_getS]
  | other t r => simp

theorem fillATV_rest (n : Name) (a : ATV) :
    (fillATV n a).names = n.names ++ [a] ∧ (fillATV n a).extraNames = n.extraNames ∧
    (fillATV n a).originalRDNS = n.originalRDNS := by
  unfold fillATV
  cases a.value with
  | str v => simp [acts_names]
  | other t r => simp

/-- `FillFromRDNSequence` restricted to a flat attribute list -/
def fillFlat (n : Name) (atvs : List ATV) : Name := atvs.foldl fillATV n

theorem fillFlat_get (atvs : List ATV) (n : Name) (f : Field) :
    (fillFlat n atvs).get f = n.get f ++ atvs.flatMap (valsFor f) := by
  unfold fillFlat
  induction atvs generalizing n with
  | nil => simp
  | cons a rest ih => rw [List.foldl_cons, ih, fillATV_get]; simp

theorem fillFlat_getS (atvs : List ATV) (n : Name) (s : Scalar) :
    (fillFlat n atvs).getS s = atvs.foldl (stepS s) (n.getS s) := by
  unfold fillFlat
  induction atvs generalizing n with
  | nil => simp
  | cons a rest ih => rw [List.foldl_cons, ih, fillATV_getS]; simp

theorem fillFlat_rest (atvs : List ATV) (n : Name) :
    (fillFlat n atvs).names = n.names ++ atvs ∧ (fillFlat n atvs).extraNames = n.extraNames ∧
    (fillFlat n atvs).originalRDNS = n.originalRDNS := by
  unfold fillFlat
  induction atvs generalizing n with
  | nil => simp
  | cons a rest ih =>
    rw [List.foldl_cons]
    have h1 := ih (fillATV n a)
    have h2 := fillATV_rest n a
    simp [h1, h2]

theorem fillRDN_eq (n : Name) (rdn : RDN) : fillRDN n rdn = fillFlat n rdn := by
  unfold fillRDN fillFlat
  split
  · next h => have : rdn = [] := List.eq_nil_of_length_eq_zero h
              subst this; rfl
  · rfl

theorem foldl_fillRDN (s : RDNSeq) (n : Name) : s.foldl fillRDN n = fillFlat n s.flatten := by
  induction s generalizing n with
  | nil => rfl
  | cons r rest ih =>
    rw [List.foldl_cons, ih, fillRDN_eq]
    simp [fillFlat, List.foldl_append]

/-- the attributes of a (possibly nil) sequence in document order -/
def flat : Option RDNSeq → List ATV
  | none => []
  | some s => s.flatten

theorem fillInto_eq (n : Name) (seq : Option RDNSeq) :
    fillInto n seq = fillFlat { n with originalRDNS := seq } (flat seq) := by
  unfold fillInto flat
  cases seq with
  | none => rfl
  | some s => simp [foldl_fillRDN]


/-! ### `ToRDNSequence` as a list expression -/

/-- the `values` argument a row passes to `appendRDNs` (a skipped guarded call passes nothing) -/
def Src.vals (n : Name) : Src → List Bytes
  | .slice f => n.get f
  | .guarded s => if (n.getS s).length > 0 then [n.getS s] else []

def mkATV (oid : OID) (v : Bytes) : ATV := { type := oid, value := .str v }

/-- the RDN(s) one `appendRDNs` call adds: none for no values, else one multi-valued RDN -/
def mkRDN (oid : OID) (vals : List Bytes) : RDNSeq :=
  match vals with
  | [] => []
  | _ :: _ => [vals.map (mkATV oid)]

theorem appendRDNs_eq (inp : RDNSeq) (vals : List Bytes) (oid : OID) :
    appendRDNs inp vals oid = inp ++ mkRDN oid vals := by
  unfold appendRDNs mkRDN
  cases vals with
  | nil => simp
  | cons v vs => simp [mkATV]

theorem emitStep_eq (n : Name) (ret : RDNSeq) (row : Src × OID) :
    emitStep n ret row = ret ++ mkRDN row.2 (row.1.vals n) := by
  obtain ⟨src, oid⟩ := row
  cases src with
  | slice f => simp [emitStep, Src.vals, appendRDNs_eq]
  | guarded s =>
    simp only [emitStep, Src.vals]
    split
    · simp [appendRDNs_eq]
    · simp [mkRDN]

/-- the RDNs produced by a list of rows -/
def emitL (rows : List (Src × OID)) (n : Name) : RDNSeq :=
  rows.flatMap (fun row => mkRDN row.2 (row.1.vals n))

theorem foldl_emitStep (n : Name) (rows : List (Src × OID)) (acc : RDNSeq) :
    rows.foldl (emitStep n) acc = acc ++ emitL rows n := by
  induction rows generalizing acc with
  | nil => simp [emitL]
  | cons r rest ih => rw [List.foldl_cons, ih, emitStep_eq]; simp [emitL]

theorem foldl_extra (l : List ATV) (acc : RDNSeq) :
    l.foldl (fun ret atv => ret ++ [[atv]]) acc = acc ++ l.map (fun a => [a]) := by
  induction l generalizing acc with
  | nil => simp
  | cons a rest ih => rw [List.foldl_cons, ih]; simp

theorem emit_eq (n : Name) : emit n = emitL emitRows n ++ n.extraNames.map (fun a => [a]) := by
  unfold emit
  rw [foldl_extra, foldl_emitStep]; simp

theorem mkRDN_flatten (oid : OID) (vals : List Bytes) : (mkRDN oid vals).flatten = vals.map (mkATV oid) := by
  cases vals <;> simp [mkRDN]

theorem emitL_flatten (rows : List (Src × OID)) (n : Name) :
    (emitL rows n).flatten = rows.flatMap (fun row => (row.1.vals n).map (mkATV row.2)) := by
  induction rows with
  | nil => simp [emitL]
  | cons r rest ih =>
    simp only [emitL, List.flatMap_cons, List.flatten_append, mkRDN_flatten] at ih ⊢
    rw [ih]

theorem flat_nilIfEmpty (s : RDNSeq) : flat (nilIfEmpty s) = s.flatten := by
  cases s <;> simp [nilIfEmpty, flat]

def rep (c : Nat) (vals : List Bytes) : List Bytes := vals.flatMap (fun v => List.replicate c v)
@[simp] theorem rep_zero (vals) : rep 0 vals = [] := by induction vals <;> simp_all [rep]
@[simp] theorem rep_one (vals) : rep 1 vals = vals := by induction vals <;> simp_all [rep]

theorem contrib (oid : OID) (vals : List Bytes) (f : Field) :
    (vals.map (mkATV oid)).flatMap (valsFor f) = rep ((armOf oid).count (.app f)) vals := by
  induction vals <;> simp_all [valsFor, mkATV, rep]

/-! ### per-OID facts of the dispatch (finite table, by evaluation) -/
@[simp] theorem armOf_cn : armOf oidCommonName = [.set .commonName, .app .commonNames] := by decide
@[simp] theorem armOf_email : armOf oidDNEmailAddress = [.app .emailAddress] := by decide
@[simp] theorem armOf_ou : armOf oidOrganizationalUnit = [.app .organizationalUnit] := by decide
@[simp] theorem armOf_o : armOf oidOrganization = [.app .organization] := by decide
@[simp] theorem armOf_street : armOf oidStreetAddress = [.app .streetAddress] := by decide
@[simp] theorem armOf_l : armOf oidLocality = [.app .locality] := by decide
@[simp] theorem armOf_st : armOf oidProvince = [.app .province] := by decide
@[simp] theorem armOf_pc : armOf oidPostalCode = [.app .postalCode] := by decide
@[simp] theorem armOf_c : armOf oidCountry = [.app .country] := by decide
@[simp] theorem armOf_dc : armOf oidDomainComponent = [.app .domainComponent] := by decide
@[simp] theorem armOf_jl : armOf oidJurisdictionLocality = [.app .jurisdictionLocality] := by decide
@[simp] theorem armOf_jst : armOf oidJurisdictionProvince = [.app .jurisdictionProvince] := by decide
@[simp] theorem armOf_jc : armOf oidJurisdictionCountry = [.app .jurisdictionCountry] := by decide
@[simp] theorem armOf_orgid : armOf oidOrganizationID = [.app .organizationIDs] := by decide
@[simp] theorem armOf_sn : armOf oidSerialNumber = [.set .serialNumber, .app .serialNumbers] := by decide

/-- what `ToRDNSequence` emits of slice field `f` (used in the statement of `fill_to`):
    the 13 emitted slice fields as they are; `CommonNames`/`SerialNumbers` receive the scalar when it is
    non-empty; `GivenName`/`Surname` are not emitted. -/
def emittedView (n : Name) : Field → List Bytes
  | .commonNames => if n.commonName.length > 0 then [n.commonName] else []
  | .serialNumbers => if n.serialNumber.length > 0 then [n.serialNumber] else []
  | .givenName => []
  | .surname => []
  | f => n.get f

theorem rows_view (n : Name) (f : Field) :
    ((emitL emitRows n).flatten).flatMap (valsFor f) = emittedView n f := by
  rw [emitL_flatten]
  simp only [emitRows, List.flatMap_cons, List.flatMap_nil, List.flatMap_append, contrib, List.append_nil]
  cases f <;> simp [Src.vals, Name.get, Name.getS, emittedView]


theorem flatten_singletons (l : List ATV) : (l.map (fun a => [a])).flatten = l := by
  induction l <;> simp_all

theorem stepS_fold (s : Scalar) (oid : OID) (vals : List Bytes) (cur : Bytes) :
    (vals.map (mkATV oid)).foldl (stepS s) cur =
      if Act.set s ∈ armOf oid then vals.getLast?.getD cur else cur := by
  induction vals generalizing cur with
  | nil => simp
  | cons v rest ih =>
    rw [List.map_cons, List.foldl_cons, ih]
    by_cases h : Act.set s ∈ armOf oid
    · cases rest <;> simp [h, stepS, mkATV, List.getLast?_cons]
    · simp [h, stepS, mkATV]

theorem rows_scalar (n : Name) (s : Scalar) :
    ((emitL emitRows n).flatten).foldl (stepS s) [] = n.getS s := by
  rw [emitL_flatten]
  simp only [emitRows, List.flatMap_cons, List.flatMap_nil, List.foldl_append, stepS_fold, List.append_nil]
  cases s <;> simp [Src.vals, Name.getS] <;> split <;> simp_all

/-! ### canonical sequences -/

/-- the Go-string values of an RDN -/
def strVals (rdn : RDN) : List Bytes :=
  rdn.filterMap (fun a => match a.value with | .str v => some v | .other _ _ => none)

/-- extra condition on the values of an RDN produced by a row: a guarded scalar yields exactly one non-empty value -/
def guardOK : Src → List Bytes → Bool
  | .slice _, _ => true
  | .guarded _, [v] => decide (v.length > 0)
  | .guarded _, _ => false

/-- `rdn` is an RDN the `appendRDNs` call `row` can produce: non-empty, every member has the row's OID and a
    string value, (guarded scalar rows: exactly one, non-empty, value). -/
def rowMatch (row : Src × OID) (rdn : RDN) : Bool :=
  !rdn.isEmpty && decide (rdn = (strVals rdn).map (mkATV row.2)) && guardOK row.1 (strVals rdn)

/-- walk the rows in emission order; each RDN must be produced by a row later than the previous RDN's row. -/
def canonAux : List (Src × OID) → RDNSeq → Bool
  | _, [] => true
  | [], _ :: _ => false
  | row :: rows, rdn :: rest =>
    if rowMatch row rdn then canonAux rows rest else canonAux rows (rdn :: rest)

/-- the sequences `ToRDNSequence` produces from the fields of a Name (no ExtraNames, OriginalRDNS nil) -/
def Canonical (seq : RDNSeq) : Bool := canonAux emitRows seq

def touches (acts : List Act) : Src → Bool
  | .slice f => acts.contains (.app f)
  | .guarded s => acts.contains (.set s)

def shapeOK (row : Src × OID) : Bool :=
  match row.1 with
  | .slice f => (armOf row.2).count (.app f) == 1
  | .guarded s => (armOf row.2).contains (.set s)

/-- every row's OID dispatches back to the row's own source, and to no other row's source -/
def rowsOK : List (Src × OID) → Bool
  | [] => true
  | row :: rest =>
    shapeOK row && rest.all (fun r => !touches (armOf row.2) r.1 && !touches (armOf r.2) row.1) && rowsOK rest

theorem strVals_map (oid : OID) (vals : List Bytes) : strVals (vals.map (mkATV oid)) = vals := by
  induction vals <;> simp_all [strVals, mkATV]

theorem rowMatch_iff (row : Src × OID) (rdn : RDN) :
    rowMatch row rdn = true ↔ rdn ≠ [] ∧ rdn = (strVals rdn).map (mkATV row.2) ∧ guardOK row.1 (strVals rdn) = true := by
  simp [rowMatch, and_assoc]

theorem canon_types (rows : List (Src × OID)) (seq : RDNSeq) (h : canonAux rows seq = true) :
    ∀ a ∈ seq.flatten, ∃ r ∈ rows, a.type = r.2 := by
  induction rows generalizing seq with
  | nil => cases seq <;> simp_all [canonAux]
  | cons row rows ih =>
    cases seq with
    | nil => simp
    | cons rdn rest =>
      simp only [canonAux] at h
      split at h
      · next hm =>
        obtain ⟨_, heq, _⟩ := (rowMatch_iff row rdn).1 hm
        intro a ha
        rw [List.flatten_cons, List.mem_append] at ha
        cases ha with
        | inl ha =>
          rw [heq, List.mem_map] at ha
          obtain ⟨v, _, rfl⟩ := ha
          exact ⟨row, by simp, rfl⟩
        | inr ha =>
          obtain ⟨r, hr, e⟩ := ih rest h a ha
          exact ⟨r, List.mem_cons_of_mem _ hr, e⟩
      · intro a ha
        obtain ⟨r, hr, e⟩ := ih _ h a ha
        exact ⟨r, List.mem_cons_of_mem _ hr, e⟩

theorem frame (src : Src) (atvs : List ATV) (n : Name)
    (h : ∀ a ∈ atvs, touches (armOf a.type) src = false) : src.vals (fillFlat n atvs) = src.vals n := by
  cases src with
  | slice f =>
    simp only [Src.vals, fillFlat_get]
    have : atvs.flatMap (valsFor f) = [] := by
      rw [List.flatMap_eq_nil_iff]
      intro a ha
      have := h a ha
      simp only [touches, List.contains_eq_mem, decide_eq_false_iff_not] at this
      unfold valsFor
      cases a.value <;> simp [List.count_eq_zero_of_not_mem this]
    simp [this]
  | guarded s =>
    have : (fillFlat n atvs).getS s = n.getS s := by
      rw [fillFlat_getS]
      generalize n.getS s = cur
      induction atvs generalizing cur with
      | nil => rfl
      | cons a rest ih =>
        have h1 := h a (by simp)
        simp only [touches, List.contains_eq_mem, decide_eq_false_iff_not] at h1
        rw [List.foldl_cons]
        have : stepS s cur a = cur := by unfold stepS; cases a.value <;> simp [h1]
        rw [this]
        exact ih (fun a ha => h a (List.mem_cons_of_mem _ ha)) cur
    simp [Src.vals, this]


/-- filling the RDN a row produced sets that row's source to the RDN's values (when it was empty before) -/
theorem fill_own_rdn (src : Src) (oid : OID) (vals : List Bytes) (n : Name)
    (hs : shapeOK (src, oid) = true) (h0 : src.vals n = []) (hg : guardOK src vals = true) :
    src.vals (fillFlat n (vals.map (mkATV oid))) = vals := by
  cases src with
  | slice f =>
    simp only [shapeOK, beq_iff_eq] at hs
    simp only [Src.vals] at h0
    simp [Src.vals, fillFlat_get, contrib, hs, h0]
  | guarded s =>
    simp only [shapeOK, List.contains_eq_mem, decide_eq_true_eq] at hs
    match vals, hg with
    | [v], hg =>
      simp only [guardOK, decide_eq_true_eq] at hg
      have : (fillFlat n [mkATV oid v]).getS s = v := by
        simp [fillFlat_getS, stepS, mkATV, hs]
      simp [Src.vals, this, hg]

theorem emitL_nil (rows : List (Src × OID)) (n : Name) (h : ∀ r ∈ rows, r.1.vals n = []) : emitL rows n = [] := by
  induction rows with
  | nil => rfl
  | cons r rest ih =>
    have hr := h r (by simp)
    have := ih (fun r' hr' => h r' (List.mem_cons_of_mem _ hr'))
    simp only [emitL, List.flatMap_cons] at this ⊢
    rw [hr, this]; rfl

theorem canon_roundtrip (rows : List (Src × OID)) (hok : rowsOK rows = true) (seq : RDNSeq) (n : Name)
    (hc : canonAux rows seq = true) (h0 : ∀ r ∈ rows, r.1.vals n = []) :
    emitL rows (fillFlat n seq.flatten) = seq := by
  induction rows generalizing seq n with
  | nil =>
    cases seq with
    | nil => rfl
    | cons _ _ => simp [canonAux] at hc
  | cons row rows ih =>
    simp only [rowsOK, Bool.and_eq_true, List.all_eq_true, Bool.not_eq_true'] at hok
    obtain ⟨⟨hshape, hpair⟩, hrest⟩ := hok
    cases seq with
    | nil => simpa [fillFlat] using emitL_nil (row :: rows) n h0
    | cons rdn rest =>
      simp only [canonAux] at hc
      have htypes := canon_types rows
      split at hc
      · next hm =>
        obtain ⟨hne, heq, hg⟩ := (rowMatch_iff row rdn).1 hm
        -- state after the RDN of `row`
        have hfold : fillFlat n (rdn :: rest).flatten = fillFlat (fillFlat n rdn) rest.flatten := by
          simp [fillFlat, List.foldl_append]
        have hrow1 : row.1.vals (fillFlat n rdn) = strVals rdn := by
          have := fill_own_rdn row.1 row.2 (strVals rdn) n hshape (h0 row (by simp)) hg
          rw [← heq] at this; exact this
        have hothers : ∀ r ∈ rows, r.1.vals (fillFlat n rdn) = [] := by
          intro r hr
          rw [frame r.1 rdn n, h0 r (List.mem_cons_of_mem _ hr)]
          intro a ha
          rw [heq, List.mem_map] at ha
          obtain ⟨v, _, rfl⟩ := ha
          exact (hpair r hr).1
        have hIH := ih hrest rest (fillFlat n rdn) hc hothers
        have hrowm : row.1.vals (fillFlat (fillFlat n rdn) rest.flatten) = strVals rdn := by
          rw [frame row.1 rest.flatten, hrow1]
          intro a ha
          obtain ⟨r, hr, e⟩ := htypes rest hc a ha
          rw [e]; exact (hpair r hr).2
        rw [hfold]
        simp only [emitL, List.flatMap_cons] at hIH ⊢
        rw [hIH, hrowm]
        have hsv : strVals rdn ≠ [] := by
          intro h; rw [h] at heq; exact hne (by simpa using heq)
        cases hv : strVals rdn with
        | nil => exact absurd hv hsv
        | cons v vs => simp only [mkRDN]; rw [← hv, ← heq]; rfl
      · have hIH := ih hrest (rdn :: rest) n hc (fun r hr => h0 r (List.mem_cons_of_mem _ hr))
        have hrowm : row.1.vals (fillFlat n (rdn :: rest).flatten) = [] := by
          rw [frame row.1 _ n, h0 row (by simp)]
          intro a ha
          obtain ⟨r, hr, e⟩ := htypes _ hc a ha
          rw [e]; exact (hpair r hr).2
        simp only [emitL, List.flatMap_cons] at hIH ⊢
        rw [hIH, hrowm]; simp [mkRDN]

theorem emitRows_ok : rowsOK emitRows = true := by decide


/-! ### the converse: everything `ToRDNSequence` emits from the fields is canonical -/

def oidsDistinct : List (Src × OID) → Bool
  | [] => true
  | row :: rest => rest.all (fun r => decide (r.2 ≠ row.2)) && oidsDistinct rest

theorem emitL_mem (rows : List (Src × OID)) (n : Name) (rdn : RDN) (h : rdn ∈ emitL rows n) :
    ∃ r ∈ rows, ∃ v vs, rdn = (v :: vs).map (mkATV r.2) := by
  simp only [emitL, List.mem_flatMap] at h
  obtain ⟨r, hr, hm⟩ := h
  refine ⟨r, hr, ?_⟩
  cases hv : r.1.vals n with
  | nil => simp [hv, mkRDN] at hm
  | cons v vs =>
    simp only [hv, mkRDN, List.mem_singleton] at hm
    exact ⟨v, vs, hm⟩

theorem guardOK_vals (src : Src) (n : Name) (h : src.vals n ≠ []) : guardOK src (src.vals n) = true := by
  cases src with
  | slice f => rfl
  | guarded s =>
    simp only [Src.vals] at h ⊢
    split
    · next hl => simp [guardOK, hl]
    · next hl => simp [hl] at h

theorem emitL_canon (rows : List (Src × OID)) (hd : oidsDistinct rows = true) (n : Name) :
    canonAux rows (emitL rows n) = true := by
  induction rows with
  | nil => rfl
  | cons row rest ih =>
    simp only [oidsDistinct, Bool.and_eq_true, List.all_eq_true, decide_eq_true_eq] at hd
    obtain ⟨hne, hdr⟩ := hd
    have ih := ih hdr
    have hsplit : emitL (row :: rest) n = mkRDN row.2 (row.1.vals n) ++ emitL rest n := by
      simp [emitL]
    rw [hsplit]
    cases hv : row.1.vals n with
    | nil =>
      simp only [mkRDN, List.nil_append]
      cases he : emitL rest n with
      | nil => cases rest <;> rfl
      | cons rdn tl =>
        have hmem : rdn ∈ emitL rest n := by rw [he]; simp
        obtain ⟨r, hr, v, vs, hrdn⟩ := emitL_mem rest n rdn hmem
        have hnm : rowMatch row rdn = false := by
          cases hrm : rowMatch row rdn with
          | false => rfl
          | true =>
            obtain ⟨_, heq, _⟩ := (rowMatch_iff row rdn).1 hrm
            rw [hrdn, strVals_map] at heq
            simp only [List.map_cons, List.cons.injEq, mkATV, ATV.mk.injEq, and_true] at heq
            exact absurd heq.1 (hne r hr)
        simp only [canonAux, hnm]
        rw [← he]; simpa using ih
    | cons v vs =>
      have hm : rowMatch row ((v :: vs).map (mkATV row.2)) = true := by
        rw [rowMatch_iff, strVals_map]
        refine ⟨by simp, rfl, ?_⟩
        rw [← hv]; exact guardOK_vals row.1 n (by simp [hv])
      simp only [mkRDN, List.singleton_append, canonAux, hm]
      simpa using ih

theorem emitRows_distinct : oidsDistinct emitRows = true := by decide

/-- `emitL` reads a Name only through the rows' sources -/
theorem emitL_congr (rows : List (Src × OID)) (m m' : Name) (h : ∀ src : Src, src.vals m = src.vals m') :
    emitL rows m = emitL rows m' := by
  induction rows with
  | nil => rfl
  | cons r rest ih => simp only [emitL, List.flatMap_cons] at ih ⊢; rw [ih, h]

theorem vals_withOrig (n : Name) (o : Option RDNSeq) (src : Src) :
    src.vals ({ n with originalRDNS := o } : Name) = src.vals n := by
  cases src <;> simp [Src.vals]

theorem vals_fillFlat_orig (n : Name) (o : Option RDNSeq) (atvs : List ATV) (src : Src) :
    src.vals (fillFlat ({ n with originalRDNS := o } : Name) atvs) = src.vals (fillFlat n atvs) := by
  cases src <;> simp [Src.vals, fillFlat_get, fillFlat_getS]

/-- the field part of `ToRDNSequence` of the Name filled from `seq`, i.e. with the OriginalRDNS short-cut disabled. -/
def reemit (seq : RDNSeq) : RDNSeq := emit { fill (some seq) with originalRDNS := none }

/-- `reemit` reads the filled Name only through the emission rows (helper for the next three theorems). -/
theorem reemit_eq (seq : RDNSeq) : reemit seq = emitL emitRows (fillFlat Name.empty seq.flatten) := by
  have hfill : fill (some seq) = fillFlat ({ Name.empty with originalRDNS := some seq } : Name) seq.flatten := by
    unfold fill; rw [fillInto_eq]; rfl
  have hx : ({ fill (some seq) with originalRDNS := none } : Name).extraNames = [] := by
    show (fill (some seq)).extraNames = []
    rw [hfill, (fillFlat_rest _ _).2.1]; rfl
  unfold reemit
  rw [emit_eq, hx]
  simp only [List.map_nil, List.append_nil]
  apply emitL_congr
  intro src
  rw [vals_withOrig (fill (some seq)) none src, hfill,
    vals_fillFlat_orig Name.empty (some seq) seq.flatten src]

end ZV.C22
