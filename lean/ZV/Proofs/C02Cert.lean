import ZV.Model.C02Cert
import ZV.Proofs.C23Hash
namespace ZV.C02

theorem natOfBytes_append (l : Bytes) (b : UInt8) : natOfBytes (l ++ [b]) = natOfBytes l * 256 + b.toNat := by
  simp [natOfBytes, List.foldl_append]

theorem natOfBytes_beBytes (n : Nat) : natOfBytes (beBytes n) = n := by
  induction n using Nat.strongRecOn with
  | _ n ih =>
    unfold beBytes
    split
    · rename_i h; subst h; rfl
    · rename_i h
      rw [natOfBytes_append, ih (n / 256) (by omega)]
      have : (UInt8.ofNat (n % 256)).toNat = n % 256 := by
        simp [UInt8.toNat_ofNat']
      rw [this]
      omega

theorem beBytes_head_ne_zero (n : Nat) : (beBytes n).head? ≠ some 0 := by
  induction n using Nat.strongRecOn with
  | _ n ih =>
    unfold beBytes
    split
    · simp
    · rename_i h
      have ih' := ih (n / 256) (by omega)
      by_cases h0 : n / 256 = 0
      · have hlt : n < 256 := by omega
        have hb : beBytes (n / 256) = [] := by rw [h0]; unfold beBytes; simp
        rw [hb]
        simp only [List.nil_append, List.head?_cons]
        intro he
        have h1 := congrArg (Option.map UInt8.toNat) he
        simp [UInt8.toNat_ofNat'] at h1
        omega
      · have hne : beBytes (n / 256) ≠ [] := by
          intro he
          have := natOfBytes_beBytes (n / 256)
          rw [he] at this
          simp [natOfBytes] at this
          omega
        cases hb : beBytes (n / 256) with
        | nil => exact absurd hb hne
        | cons x xs => rw [hb] at ih'; simpa using ih'

end ZV.C02
