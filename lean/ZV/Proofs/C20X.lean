import ZV.Model.C20X
import ZV.Proofs.C20
/-! Helper lemmas for the x509-level theorems of C20: every function of `ZV.Model.C20X`, run strictly with a
    successful result, gives the same result permissively. -/
namespace ZV.C20.X
open ZV.C18

theorem un_perm (s : Schema) (p : Params) (bs : Bytes) (v : Val) (h : un false s p bs = .ok v) : un true s p bs = .ok v := by
  unfold un at h ⊢
  unfold unmarshal at h ⊢
  cases hs : parseField false s p bs with
  | ok x =>
    obtain ⟨v', r⟩ := x
    rw [(perm_both s).1 p bs _ hs]
    simpa [hs] using h
  | err => simp [hs] at h
  | panic => simp [hs] at h

theorem un_ne_panic (perm : Bool) (s : Schema) (p : Params) (bs : Bytes) : un perm s p bs ≠ .panic := by
  unfold un; split <;> simp

theorem utctime_perm (s : Bytes) (t : ZV.Time.GoTime) (h : ZV.Time.EA.parseUTCTime false s = .ok t) :
    ZV.Time.EA.parseUTCTime true s = .ok t := by
  unfold ZV.Time.EA.parseUTCTime at h ⊢
  cases hmin : ZV.Time.parse ZV.Time.layoutUTCMin s with
  | some r =>
    simp only [hmin] at h ⊢
    split at h
    · simp at h
    · simpa [ZV.Time.EA.reserialises] using h
  | none =>
    cases hsec : ZV.Time.parse ZV.Time.layoutUTCSec s with
    | some r =>
      simp only [hmin, hsec] at h ⊢
      split at h
      · simp at h
      · simpa [ZV.Time.EA.reserialises] using h
    | none => simp [hmin, hsec] at h

theorem gentime_perm (s : Bytes) (t : ZV.Time.GoTime) (h : ZV.Time.EA.parseGeneralizedTime false s = .ok t) :
    ZV.Time.EA.parseGeneralizedTime true s = .ok t := by
  unfold ZV.Time.EA.parseGeneralizedTime at h ⊢
  cases hp : ZV.Time.parse ZV.Time.layoutGen s with
  | some r =>
    simp only [hp] at h ⊢
    split at h
    · simp at h
    · simpa [ZV.Time.EA.reserialises] using h
  | none => simp [hp] at h

theorem isOk_mono {α : Type} {a b : Res α} (h : ∀ v, a = .ok v → b = .ok v) (ha : a.isOk = true) : b.isOk = true := by
  cases a with
  | ok v => rw [h v rfl]; rfl
  | err => simp [Res.isOk] at ha
  | panic => simp [Res.isOk] at ha

theorem anyPrim_perm (tag : Nat) (inner : Bytes) (h : anyPrim false tag inner = true) : anyPrim true tag inner = true := by
  unfold anyPrim at h ⊢
  by_cases h19 : tag = 19
  · simp only [if_pos h19] at h ⊢; simp [parsePrintableString, Res.isOk]
  simp only [if_neg h19] at h ⊢
  by_cases h18 : tag = 18
  · simp only [if_pos h18] at h ⊢; simp [parseNumericString, Res.isOk]
  simp only [if_neg h18] at h ⊢
  by_cases h22 : tag = 22
  · simp only [if_pos h22] at h ⊢; simp [parseIA5String, Res.isOk]
  simp only [if_neg h22] at h ⊢
  by_cases h20 : tag = 20
  · simp only [if_pos h20] at h ⊢
  simp only [if_neg h20] at h ⊢
  by_cases h12 : tag = 12
  · simp only [if_pos h12] at h ⊢; simp [parseUTF8String, Res.isOk]
  simp only [if_neg h12] at h ⊢
  by_cases h2 : tag = 2
  · simp only [if_pos h2] at h ⊢; exact isOk_mono (parseInt64_perm inner) h
  simp only [if_neg h2] at h ⊢
  by_cases h3 : tag = 3
  · simp only [if_pos h3] at h ⊢; exact h
  simp only [if_neg h3] at h ⊢
  by_cases h6 : tag = 6
  · simp only [if_pos h6] at h ⊢; exact h
  simp only [if_neg h6] at h ⊢
  by_cases h23 : tag = 23
  · simp only [if_pos h23] at h ⊢; exact isOk_mono (utctime_perm inner) h
  simp only [if_neg h23] at h ⊢
  by_cases h24 : tag = 24
  · simp only [if_pos h24] at h ⊢; exact isOk_mono (gentime_perm inner) h
  simp only [if_neg h24] at h ⊢
  by_cases h4 : tag = 4
  · simp only [if_pos h4] at h ⊢
  simp only [if_neg h4] at h ⊢
  by_cases h30 : tag = 30
  · simp only [if_pos h30] at h ⊢; exact h
  simp only [if_neg h30] at h ⊢

theorem anyOk_perm (v : Val) (h : anyOk false v = true) : anyOk true v = true := by
  unfold anyOk at h ⊢
  split
  · rename_i cls tag k inner full
    simp only at h
    split_ifs at h ⊢
    · exact anyPrim_perm _ _ h
    · rfl
  · rfl

theorem atvOk_perm (v : Val) (h : atvOk false v = true) : atvOk true v = true := by
  unfold atvOk at h ⊢
  split
  · simp only at h; exact anyOk_perm _ h
  · rfl

theorem allChain_mono (f g : Val → Bool) (hfg : ∀ v, f v = true → g v = true) (v : Val) (h : allChain f v = true) :
    allChain g v = true := by
  induction v with
  | vcons a r _ ihr =>
    simp only [allChain, Bool.and_eq_true] at h ⊢
    exact ⟨hfg a h.1, ihr h.2⟩
  | _ => simp [allChain]

theorem rdnAnyOk_perm (v : Val) (h : rdnAnyOk false v = true) : rdnAnyOk true v = true :=
  allChain_mono _ _ (fun w hw => allChain_mono _ _ atvOk_perm w hw) v h

theorem unRDN_perm (bs : Bytes) (v : Val) (h : unRDN false bs = .ok v) : unRDN true bs = .ok v := by
  unfold unRDN at h ⊢
  cases hu : un false rdnSchema {} bs with
  | ok w =>
    rw [un_perm _ _ _ _ hu]
    simp only [hu] at h ⊢
    split_ifs at h with hc
    rw [if_pos (rdnAnyOk_perm w hc)]; exact h
  | err => simp [hu] at h
  | panic => simp [hu] at h

theorem unRDN_ne_panic (perm : Bool) (bs : Bytes) : unRDN perm bs ≠ .panic := by
  unfold unRDN; split <;> (try split) <;> simp

theorem dpAnyOk_perm (v : Val) (h : dpAnyOk false v = true) : dpAnyOk true v = true := by
  unfold dpAnyOk at h ⊢
  split
  · simp only at h; exact rdnAnyOk_perm _ h
  · rfl

theorem unCDP_perm (bs : Bytes) (v : Val) (h : unCDP false bs = .ok v) : unCDP true bs = .ok v := by
  unfold unCDP at h ⊢
  cases hu : un false cdpSchema {} bs with
  | ok w =>
    rw [un_perm _ _ _ _ hu]
    simp only [hu] at h ⊢
    split_ifs at h with hc
    rw [if_pos (allChain_mono _ _ dpAnyOk_perm w hc)]; exact h
  | err => simp [hu] at h
  | panic => simp [hu] at h

end ZV.C20.X
