import ZV.Model.TlsWire
/-!
  Laws of the codec combinators of `ZV.Wire`, proved once per combinator for unbounded sizes.

  * `Lawful c D`    — round trip with an arbitrary tail: for values in the domain `D`,
                      `ser a = some bs → par (bs ++ tl) = some (a, tl)`;
  * `NoPrefix c D`  — no strict prefix of a valid encoding is accepted;
  * `NonEmptyEnc c` — encodings are never empty (needed under `many`);
  * `MLawful`, `MNoPrefix` — the same for whole-buffer formats.
  The domain predicate collects the decoder-side checks (`guard`) the encoder does not make.
-/
namespace ZV.TlsWire

structure Lawful {α} (c : Fmt α) (D : α → Prop) : Prop where
  rt : ∀ a bs tl, D a → c.ser a = some bs → c.par (bs ++ tl) = some (a, tl)

structure NoPrefix {α} (c : Fmt α) (D : α → Prop) : Prop where
  np : ∀ a bs p, D a → c.ser a = some bs → p <+: bs → p ≠ bs → c.par p = none

structure NonEmptyEnc {α} (c : Fmt α) : Prop where
  ne : ∀ a bs, c.ser a = some bs → bs ≠ []

structure MLawful {α} (m : MFmt α) (D : α → Prop) : Prop where
  rt : ∀ a bs, D a → m.ser a = some bs → m.par bs = some a

structure MNoPrefix {α} (m : MFmt α) (D : α → Prop) : Prop where
  np : ∀ a bs p, D a → m.ser a = some bs → p <+: bs → p ≠ bs → m.par p = none

/-! ### big-endian numbers -/

@[simp] theorem natBE_length (k n : Nat) : (natBE k n).length = k := by
  induction k with
  | zero => rfl
  | succ k ih => simp [natBE, ih]

theorem beNat_natBE (k n : Nat) : beNat (natBE k n) = n % 256 ^ k := by
  induction k generalizing n with
  | zero => simp [natBE, beNat, Nat.mod_one]
  | succ k ih =>
    simp only [natBE, beNat, natBE_length, ih]
    have h256 : 0 < 256 ^ k := Nat.pow_pos (by decide)
    have : (UInt8.ofNat (n / 256 ^ k)).toNat = (n / 256 ^ k) % 256 := by
      simp [UInt8.toNat_ofNat']
    rw [this, Nat.pow_succ, Nat.mod_mul, Nat.mul_comm]
    omega

theorem beNat_natBE_lt {k n : Nat} (h : n < 256 ^ k) : beNat (natBE k n) = n := by
  rw [beNat_natBE, Nat.mod_eq_of_lt h]

/-! ### prefixes -/

theorem prefix_strict_length {p bs : Bytes} (h : p <+: bs) (hne : p ≠ bs) : p.length < bs.length := by
  obtain ⟨t, rfl⟩ := h
  cases t with
  | nil => simp at hne
  | cons x t => simp

/-- a strict prefix of `a ++ b` is a strict prefix of `a`, or `a` followed by a strict prefix of `b` -/
theorem prefix_append_cases {p a b : Bytes} (h : p <+: a ++ b) (hne : p ≠ a ++ b) :
    (p <+: a ∧ p ≠ a) ∨ ∃ q, p = a ++ q ∧ q <+: b ∧ q ≠ b := by
  obtain ⟨t, ht⟩ := h
  rcases List.append_eq_append_iff.mp ht with ⟨as, ha, _⟩ | ⟨q, hq, hb⟩
  · by_cases hpa : p = a
    · subst hpa
      right
      refine ⟨[], by simp, List.nil_prefix, ?_⟩
      intro hb
      subst hb
      simp at hne
    · exact Or.inl ⟨⟨as, ha.symm⟩, hpa⟩
  · right
    refine ⟨q, hq, ⟨t, hb.symm⟩, ?_⟩
    intro hb'
    subst hb'
    exact hne hq


/-! ### primitives -/

theorem uN_lawful (k : Nat) : Lawful (uN k) (fun _ => True) := by
  refine ⟨fun a bs tl _ h => ?_⟩
  simp only [uN] at h ⊢
  split at h
  · rename_i hlt
    cases h
    simp [beNat_natBE_lt hlt]
  · cases h

theorem uN_noPrefix (k : Nat) : NoPrefix (uN k) (fun _ => True) := by
  refine ⟨fun a bs p _ h hp hne => ?_⟩
  have hl := prefix_strict_length hp hne
  simp only [uN] at h ⊢
  split at h
  · cases h
    simp at hl
    simp [hl]
  · cases h

theorem uN_nonEmpty {k : Nat} (hk : 0 < k) : NonEmptyEnc (uN k) := by
  refine ⟨fun a bs h hbs => ?_⟩
  simp only [uN] at h
  split at h
  · cases h
    have := natBE_length k a
    rw [hbs] at this
    simp at this
    omega
  · cases h

theorem bytesN_lawful (n : Nat) : Lawful (bytesN n) (fun _ => True) := by
  refine ⟨fun a bs tl _ h => ?_⟩
  simp only [bytesN] at h ⊢
  split at h
  · rename_i hl
    cases h
    subst hl
    simp
  · cases h

theorem bytesN_noPrefix (n : Nat) : NoPrefix (bytesN n) (fun _ => True) := by
  refine ⟨fun a bs p _ h hp hne => ?_⟩
  have hl := prefix_strict_length hp hne
  simp only [bytesN] at h ⊢
  split at h
  · rename_i hn
    cases h
    simp [hn ▸ hl]
  · cases h

theorem opq_par_ser (k : Nat) (b tl : Bytes) (h : b.length < 256 ^ k) :
    (opq k).par (natBE k b.length ++ b ++ tl) = some (b, tl) := by
  simp only [opq]
  have h1 : ¬ (natBE k b.length ++ b ++ tl).length < k := by simp
  rw [if_neg h1]
  simp [beNat_natBE_lt h, List.append_assoc]

theorem opq_lawful (k : Nat) : Lawful (opq k) (fun _ => True) := by
  refine ⟨fun a bs tl _ h => ?_⟩
  simp only [opq] at h
  split at h
  · rename_i hlt
    cases h
    exact opq_par_ser k a tl hlt
  · cases h

/-- any strict prefix of `len ‖ body` is rejected by the length-prefixed reader -/
theorem opq_par_prefix_none (k : Nat) (b p : Bytes) (h : b.length < 256 ^ k)
    (hp : p <+: natBE k b.length ++ b) (hne : p ≠ natBE k b.length ++ b) : (opq k).par p = none := by
  have hl := prefix_strict_length hp hne
  simp only [opq]
  by_cases hk : p.length < k
  · simp [hk]
  · rw [if_neg hk]
    have hpk : p.take k = natBE k b.length := by
      have := List.prefix_iff_eq_take.mp hp
      rw [this, List.take_take]
      simp [Nat.min_eq_left (Nat.le_of_not_lt hk)]
    simp only [hpk, beNat_natBE_lt h]
    simp at hl
    have : p.length - k < b.length := by omega
    simp [this]

theorem opq_noPrefix (k : Nat) : NoPrefix (opq k) (fun _ => True) := by
  refine ⟨fun a bs p _ h hp hne => ?_⟩
  simp only [opq] at h
  split at h
  · rename_i hlt
    cases h
    exact opq_par_prefix_none k a p hlt hp hne
  · cases h

theorem opq_nonEmpty {k : Nat} (hk : 0 < k) : NonEmptyEnc (opq k) := by
  refine ⟨fun a bs h hbs => ?_⟩
  simp only [opq] at h
  split at h
  · cases h
    have := congrArg List.length hbs
    simp at this
    omega
  · cases h

theorem skipC_lawful (c : Bytes) : Lawful (skipC c) (fun _ => True) := by
  refine ⟨fun a bs tl _ h => ?_⟩
  simp only [skipC] at h ⊢
  cases h
  simp

theorem skipC_noPrefix (c : Bytes) : NoPrefix (skipC c) (fun _ => True) := by
  refine ⟨fun a bs p _ h hp hne => ?_⟩
  have hl := prefix_strict_length hp hne
  simp only [skipC] at h ⊢
  cases h
  simp [hl]

theorem constC_lawful (c : Bytes) : Lawful (constC c) (fun _ => True) := by
  refine ⟨fun a bs tl _ h => ?_⟩
  simp only [constC] at h ⊢
  cases h
  simp

theorem constC_noPrefix (c : Bytes) : NoPrefix (constC c) (fun _ => True) := by
  refine ⟨fun a bs p _ h hp hne => ?_⟩
  have hl := prefix_strict_length hp hne
  simp only [constC] at h ⊢
  cases h
  have : p.take c.length ≠ c := by
    intro h
    have := congrArg List.length h
    simp at this
    omega
  simp [this]

/-! ### combinators -/

theorem pair_lawful {α β} {a : Fmt α} {b : Fmt β} {Da Db}
    (ha : Lawful a Da) (hb : Lawful b Db) : Lawful (pair a b) (fun x => Da x.1 ∧ Db x.2) := by
  refine ⟨fun x bs tl hD h => ?_⟩
  simp only [pair] at h ⊢
  cases h1 : a.ser x.1 with
  | none => simp [h1] at h
  | some p =>
    cases h2 : b.ser x.2 with
    | none => simp [h1, h2] at h
    | some q =>
      simp [h1, h2] at h
      subst h
      rw [List.append_assoc, ha.rt _ _ _ hD.1 h1]
      simp [hb.rt _ _ _ hD.2 h2]

theorem pair_noPrefix {α β} {a : Fmt α} {b : Fmt β} {Da Db}
    (ha : Lawful a Da) (hna : NoPrefix a Da) (hnb : NoPrefix b Db) :
    NoPrefix (pair a b) (fun x => Da x.1 ∧ Db x.2) := by
  refine ⟨fun x bs p hD h hp hne => ?_⟩
  simp only [pair] at h ⊢
  cases h1 : a.ser x.1 with
  | none => simp [h1] at h
  | some p1 =>
    cases h2 : b.ser x.2 with
    | none => simp [h1, h2] at h
    | some q =>
      simp [h1, h2] at h
      subst h
      rcases prefix_append_cases hp hne with ⟨hpa, hnea⟩ | ⟨r, rfl, hr, hner⟩
      · simp [hna.np _ _ _ hD.1 h1 hpa hnea]
      · rw [ha.rt _ _ _ hD.1 h1]
        simp [hnb.np _ _ _ hD.2 h2 hr hner]

theorem pair_nonEmpty_left {α β} {a : Fmt α} {b : Fmt β} (ha : NonEmptyEnc a) : NonEmptyEnc (pair a b) := by
  refine ⟨fun x bs h hbs => ?_⟩
  simp only [pair] at h
  cases h1 : a.ser x.1 with
  | none => simp [h1] at h
  | some p =>
    cases h2 : b.ser x.2 with
    | none => simp [h1, h2] at h
    | some q =>
      simp [h1, h2] at h
      subst hbs
      simp at h
      exact ha.ne _ _ h1 h.1

theorem guard_lawful {α} {c : Fmt α} {D} (p : α → Bool) (hc : Lawful c D) :
    Lawful (guard p c) (fun a => D a ∧ p a = true) := by
  refine ⟨fun a bs tl hD h => ?_⟩
  simp only [guard] at h ⊢
  rw [hc.rt _ _ _ hD.1 h]
  simp [hD.2]

theorem guard_noPrefix {α} {c : Fmt α} {D} (p : α → Bool) (hc : NoPrefix c D) :
    NoPrefix (guard p c) (fun a => D a ∧ p a = true) := by
  refine ⟨fun a bs q hD h hq hne => ?_⟩
  simp only [guard] at h ⊢
  rw [hc.np _ _ _ hD.1 h hq hne]

theorem guard_nonEmpty {α} {c : Fmt α} (p : α → Bool) (hc : NonEmptyEnc c) : NonEmptyEnc (guard p c) :=
  ⟨fun a bs h => hc.ne a bs h⟩

/-- `minLen n` is transparent on encodings of at least `n` bytes; the domain records that fact. -/
theorem minLen_lawful {α} {c : Fmt α} {D} (n : Nat) (hc : Lawful c D) :
    Lawful (minLen n c) (fun a => D a ∧ ∀ bs, c.ser a = some bs → n ≤ bs.length) := by
  refine ⟨fun a bs tl hD h => ?_⟩
  simp only [minLen] at h ⊢
  have := hD.2 bs h
  have h1 : ¬ (bs ++ tl).length < n := by simp; omega
  rw [if_neg h1]
  exact hc.rt _ _ _ hD.1 h

theorem minLen_noPrefix {α} {c : Fmt α} {D} (n : Nat) (hc : NoPrefix c D) :
    NoPrefix (minLen n c) (fun a => D a ∧ ∀ bs, c.ser a = some bs → n ≤ bs.length) := by
  refine ⟨fun a bs q hD h hq hne => ?_⟩
  simp only [minLen] at h ⊢
  split
  · rfl
  · exact hc.np _ _ _ hD.1 h hq hne

theorem minLen_nonEmpty {α} {c : Fmt α} (n : Nat) (hc : NonEmptyEnc c) : NonEmptyEnc (minLen n c) :=
  ⟨fun a bs h => hc.ne a bs h⟩

theorem iso_lawful {α β} {c : Fmt α} {D} (f : α → β) (g : β → α) (hc : Lawful c D) :
    Lawful (iso f g c) (fun b => D (g b) ∧ f (g b) = b) := by
  refine ⟨fun b bs tl hD h => ?_⟩
  simp only [iso] at h ⊢
  rw [hc.rt _ _ _ hD.1 h]
  simp [hD.2]

theorem iso_noPrefix {α β} {c : Fmt α} {D} (f : α → β) (g : β → α) (hc : NoPrefix c D) :
    NoPrefix (iso f g c) (fun b => D (g b) ∧ f (g b) = b) := by
  refine ⟨fun b bs q hD h hq hne => ?_⟩
  simp only [iso] at h ⊢
  rw [hc.np _ _ _ hD.1 h hq hne]

theorem iso_nonEmpty {α β} {c : Fmt α} (f : α → β) (g : β → α) (hc : NonEmptyEnc c) : NonEmptyEnc (iso f g c) :=
  ⟨fun b bs h => hc.ne (g b) bs h⟩

theorem lp_lawful {α} {m : MFmt α} {D} (k : Nat) (hm : MLawful m D) : Lawful (lp k m) D := by
  refine ⟨fun a bs tl hD h => ?_⟩
  simp only [lp] at h ⊢
  cases h1 : m.ser a with
  | none => simp [h1] at h
  | some b =>
    simp only [h1] at h
    split at h
    · rename_i hlt
      cases h
      rw [opq_par_ser k b tl hlt]
      simp [hm.rt _ _ hD h1]
    · cases h

/-- a length-prefixed region rejects every strict prefix, whatever is inside -/
theorem lp_noPrefix {α} {m : MFmt α} (D : α → Prop) (k : Nat) : NoPrefix (lp k m) D := by
  refine ⟨fun a bs p _ h hp hne => ?_⟩
  simp only [lp] at h ⊢
  cases h1 : m.ser a with
  | none => simp [h1] at h
  | some b =>
    simp only [h1] at h
    split at h
    · rename_i hlt
      cases h
      rw [opq_par_prefix_none k b p hlt hp hne]
    · cases h

theorem lp_nonEmpty {α} {m : MFmt α} {k : Nat} (hk : 0 < k) : NonEmptyEnc (lp k m) := by
  refine ⟨fun a bs h hbs => ?_⟩
  simp only [lp] at h
  cases h1 : m.ser a with
  | none => simp [h1] at h
  | some b =>
    simp only [h1] at h
    split at h
    · cases h
      have := congrArg List.length hbs
      simp at this
      omega
    · cases h


/-! ### whole-buffer formats -/

theorem restB_lawful : MLawful restB (fun _ => True) := by
  refine ⟨fun a bs _ h => ?_⟩
  simp only [restB] at h ⊢
  cases h
  rfl

theorem complete_lawful {α} {c : Fmt α} {D} (hc : Lawful c D) : MLawful (complete c) D := by
  refine ⟨fun a bs hD h => ?_⟩
  simp only [complete] at h ⊢
  have := hc.rt a bs [] hD h
  rw [List.append_nil] at this
  rw [this]

theorem complete_noPrefix {α} {c : Fmt α} {D} (hc : NoPrefix c D) : MNoPrefix (complete c) D := by
  refine ⟨fun a bs p hD h hp hne => ?_⟩
  simp only [complete] at h ⊢
  rw [hc.np a bs p hD h hp hne]

theorem parMany_nil {α} (par : Bytes → Option (α × Bytes)) : parMany par [] = some [] := by
  rw [parMany]

theorem parMany_step {α} (par : Bytes → Option (α × Bytes)) (s r : Bytes) (a : α)
    (hs : s ≠ []) (hp : par s = some (a, r)) (hlt : r.length < s.length) :
    parMany par s = (parMany par r).map (a :: ·) := by
  cases s with
  | nil => exact absurd rfl hs
  | cons b t =>
    rw [parMany]
    simp only [hp]
    rw [dif_pos hlt]
    cases parMany par r <;> rfl

theorem many_lawful {α} {c : Fmt α} {D} (hc : Lawful c D) (hne : NonEmptyEnc c) :
    MLawful (many c) (fun l => ∀ x ∈ l, D x) := by
  refine ⟨fun l => ?_⟩
  induction l with
  | nil =>
    intro bs _ h
    simp only [many, serMany] at h ⊢
    cases h
    exact parMany_nil _
  | cons a l ih =>
    intro bs hD h
    simp only [many, serMany] at h ⊢
    cases h1 : c.ser a with
    | none => simp [h1] at h
    | some p =>
      cases h2 : serMany c.ser l with
      | none => simp [h1, h2] at h
      | some q =>
        simp [h1, h2] at h
        subst h
        have hp : p ≠ [] := hne.ne a p h1
        have hpar := hc.rt a p q (hD a (by simp)) h1
        have hlt : q.length < (p ++ q).length := by
          cases p with
          | nil => exact absurd rfl hp
          | cons x t => simp; omega
        rw [parMany_step c.par (p ++ q) q a (by simp [hp]) hpar hlt]
        have := ih q (fun x hx => hD x (by simp [hx])) h2
        simp only [many] at this
        rw [this]
        rfl

theorem mguard_lawful {α} {m : MFmt α} {D} (p : α → Bool) (hm : MLawful m D) :
    MLawful (mguard p m) (fun a => D a ∧ p a = true) := by
  refine ⟨fun a bs hD h => ?_⟩
  simp only [mguard] at h ⊢
  rw [hm.rt _ _ hD.1 h]
  simp [hD.2]

theorem miso_lawful {α β} {m : MFmt α} {D} (f : α → β) (g : β → α) (hm : MLawful m D) :
    MLawful (miso f g m) (fun b => D (g b) ∧ f (g b) = b) := by
  refine ⟨fun b bs hD h => ?_⟩
  simp only [miso] at h ⊢
  rw [hm.rt _ _ hD.1 h]
  simp [hD.2]

theorem miso_noPrefix {α β} {m : MFmt α} {D} (f : α → β) (g : β → α) (hm : MNoPrefix m D) :
    MNoPrefix (miso f g m) (fun b => D (g b) ∧ f (g b) = b) := by
  refine ⟨fun b bs q hD h hq hne => ?_⟩
  simp only [miso] at h ⊢
  rw [hm.np _ _ _ hD.1 h hq hne]
  rfl

/-- optional tail: the tail, when present, must have a non-empty encoding (otherwise the decoder
    cannot tell it from an absent one). -/
theorem optTail_lawful {α β} {c : Fmt α} {t : MFmt β} {Dc Dt} (hc : Lawful c Dc) (ht : MLawful t Dt) :
    MLawful (optTail c t)
      (fun x => Dc x.1 ∧ ∀ y, x.2 = some y → Dt y ∧ ∀ q, t.ser y = some q → q ≠ []) := by
  refine ⟨fun x bs hD h => ?_⟩
  obtain ⟨a, o⟩ := x
  simp only [optTail] at h ⊢
  cases h1 : c.ser a with
  | none => simp [h1] at h
  | some p =>
    simp only [h1] at h
    cases o with
    | none =>
      simp at h
      subst h
      have := hc.rt a p [] hD.1 h1
      rw [List.append_nil] at this
      rw [this]
    | some y =>
      simp only at h
      cases h2 : t.ser y with
      | none => simp [h2] at h
      | some q =>
        simp [h2] at h
        subst h
        obtain ⟨hDt, hq⟩ := hD.2 y rfl
        have hqne := hq q h2
        rw [hc.rt a p q hD.1 h1]
        cases q with
        | nil => exact absurd rfl hqne
        | cons b r =>
          simp only
          rw [ht.rt y _ hDt h2]

theorem hdrSkip_lawful {α} {m : MFmt α} {D} (typ : Nat) (hm : MLawful m D) : MLawful (hdrSkip typ m) D := by
  refine ⟨fun a bs hD h => ?_⟩
  simp only [hdrSkip] at h ⊢
  cases h1 : m.ser a with
  | none => simp [h1] at h
  | some b =>
    simp only [h1] at h
    split at h
    · cases h
      simp [hm.rt _ _ hD h1]
    · cases h

theorem hdrSkip_noPrefix {α} {m : MFmt α} {D} (typ : Nat) (hm : MNoPrefix m D) : MNoPrefix (hdrSkip typ m) D := by
  refine ⟨fun a bs p hD h hp hne => ?_⟩
  simp only [hdrSkip] at h ⊢
  cases h1 : m.ser a with
  | none => simp [h1] at h
  | some b =>
    simp only [h1] at h
    split at h
    · cases h
      split
      · rfl
      · rename_i hl
        have hp' : p <+: (UInt8.ofNat typ :: natBE 3 b.length) ++ b := by simpa using hp
        have hne' : p ≠ (UInt8.ofNat typ :: natBE 3 b.length) ++ b := by simpa using hne
        rcases prefix_append_cases hp' hne' with ⟨hpa, hnea⟩ | ⟨r, rfl, hr, hner⟩
        · have := prefix_strict_length hpa hnea
          simp at this
          omega
        · have : (UInt8.ofNat typ :: natBE 3 b.length ++ r).drop 4 = r := by
            have : (UInt8.ofNat typ :: natBE 3 b.length).length = 4 := by simp
            rw [← this, List.drop_left]
          simp only [List.cons_append] at this ⊢
          rw [this]
          exact hm.np _ _ _ hD h1 hr hner
    · cases h

theorem hdrSkipT_lawful {α} {m : MFmt α} {D} (typ : Nat) (hm : MLawful m D) : MLawful (hdrSkipT typ m) D := by
  refine ⟨fun a bs hD h => ?_⟩
  simp only [hdrSkipT] at h ⊢
  cases h1 : m.ser a with
  | none => simp [h1] at h
  | some b =>
    simp only [h1] at h
    cases h
    simp [hm.rt _ _ hD h1]

theorem hdrSkipT_noPrefix {α} {m : MFmt α} {D} (typ : Nat) (hm : MNoPrefix m D) : MNoPrefix (hdrSkipT typ m) D := by
  refine ⟨fun a bs p hD h hp hne => ?_⟩
  simp only [hdrSkipT] at h ⊢
  cases h1 : m.ser a with
  | none => simp [h1] at h
  | some b =>
    simp only [h1] at h
    cases h
    split
    · rfl
    · rename_i hl
      have hp' : p <+: (UInt8.ofNat typ :: natBE 3 b.length) ++ b := by simpa using hp
      have hne' : p ≠ (UInt8.ofNat typ :: natBE 3 b.length) ++ b := by simpa using hne
      rcases prefix_append_cases hp' hne' with ⟨hpa, hnea⟩ | ⟨r, rfl, hr, hner⟩
      · have := prefix_strict_length hpa hnea
        simp at this
        omega
      · have : (UInt8.ofNat typ :: natBE 3 b.length ++ r).drop 4 = r := by
          have : (UInt8.ofNat typ :: natBE 3 b.length).length = 4 := by simp
          rw [← this, List.drop_left]
        simp only [List.cons_append] at this ⊢
        rw [this]
        exact hm.np _ _ _ hD h1 hr hner

/-- the checked header round-trips for bodies that fit the 24-bit length -/
theorem hdrChecked_lawful {α} {m : MFmt α} {D} (typ : Nat) (hm : MLawful m D) :
    MLawful (hdrChecked typ m) (fun a => D a ∧ ∀ b, m.ser a = some b → b.length < 256 ^ 3) := by
  refine ⟨fun a bs hD h => ?_⟩
  simp only [hdrChecked] at h ⊢
  cases h1 : m.ser a with
  | none => simp [h1] at h
  | some b =>
    simp only [h1] at h
    cases h
    have hlt := hD.2 b h1
    have h3 : ((UInt8.ofNat typ :: natBE 3 b.length ++ b).drop 1).take 3 = natBE 3 b.length := by
      simp
    rw [h3, beNat_natBE_lt hlt]
    simp [hm.rt _ _ hD.1 h1]

/-- the checked header rejects every strict prefix, whatever the body format -/
theorem hdrChecked_noPrefix {α} {m : MFmt α} (typ : Nat) :
    MNoPrefix (hdrChecked typ m) (fun a => ∀ b, m.ser a = some b → b.length < 256 ^ 3) := by
  refine ⟨fun a bs p hD h hp hne => ?_⟩
  simp only [hdrChecked] at h ⊢
  cases h1 : m.ser a with
  | none => simp [h1] at h
  | some b =>
    simp only [h1] at h
    cases h
    have hlt := hD b h1
    have hl := prefix_strict_length hp hne
    split
    · rfl
    · rename_i hl4
      have h3 : (p.drop 1).take 3 = natBE 3 b.length := by
        have := List.prefix_iff_eq_take.mp hp
        rw [this]
        have h4 : 4 ≤ p.length := by omega
        obtain ⟨n, hn⟩ : ∃ n, p.length = n + 4 := ⟨p.length - 4, by omega⟩
        rw [hn]
        simp only [List.cons_append, List.take_succ_cons, List.drop_succ_cons, List.drop_zero]
        rw [List.take_take, Nat.min_eq_left (by omega), List.take_append_of_le_length (by simp)]
        exact List.take_of_length_le (by simp)
      rw [h3, beNat_natBE_lt hlt]
      simp at hl
      have : b.length ≠ p.length - 4 := by omega
      simp [this]


/-! ### lengths of encodings (for the 24-bit bounds of the checked headers) -/

theorem uN_ser_length {k n : Nat} {bs : Bytes} (h : (uN k).ser n = some bs) : bs.length = k := by
  simp only [uN] at h
  split at h
  · cases h; simp
  · cases h

theorem opq_ser_length {k : Nat} {b bs : Bytes} (h : (opq k).ser b = some bs) :
    bs.length = k + b.length ∧ b.length < 256 ^ k := by
  simp only [opq] at h
  split at h
  · rename_i hlt
    cases h
    simp [hlt]
  · cases h

theorem lp_ser_length {α} {m : MFmt α} {k : Nat} {a : α} {bs : Bytes} (h : (lp k m).ser a = some bs) :
    ∃ body, m.ser a = some body ∧ bs.length = k + body.length ∧ body.length < 256 ^ k := by
  simp only [lp] at h
  cases h1 : m.ser a with
  | none => simp [h1] at h
  | some b =>
    simp only [h1] at h
    split at h
    · rename_i hlt
      cases h
      exact ⟨b, rfl, by simp, hlt⟩
    · cases h

theorem pair_ser_inv {α β} {a : Fmt α} {b : Fmt β} {x : α × β} {bs : Bytes} (h : (pair a b).ser x = some bs) :
    ∃ p q, a.ser x.1 = some p ∧ b.ser x.2 = some q ∧ bs = p ++ q := by
  simp only [pair] at h
  cases h1 : a.ser x.1 with
  | none => simp [h1] at h
  | some p =>
    cases h2 : b.ser x.2 with
    | none => simp [h1, h2] at h
    | some q =>
      simp [h1, h2] at h
      exact ⟨p, q, rfl, rfl, h.symm⟩


/-! ### the other inverse: re-encoding a decoded number gives the bytes back -/

theorem beNat_lt (l : Bytes) : beNat l < 256 ^ l.length := by
  induction l with
  | nil => simp [beNat]
  | cons b bs ih =>
    simp only [beNat, List.length_cons, Nat.pow_succ]
    have hb : b.toNat < 256 := b.toNat_lt
    have : b.toNat * 256 ^ bs.length ≤ 255 * 256 ^ bs.length := Nat.mul_le_mul_right _ (by omega)
    omega

theorem natBE_add_mul (k x y : Nat) : natBE k (x * 256 ^ k + y) = natBE k y := by
  induction k generalizing x y with
  | zero => rfl
  | succ k ih =>
    simp only [natBE]
    have h256 : 0 < 256 ^ k := Nat.pow_pos (by decide)
    have e1 : (x * 256 ^ (k + 1) + y) / 256 ^ k = x * 256 + y / 256 ^ k := by
      have : x * 256 ^ (k + 1) + y = y + (x * 256) * 256 ^ k := by
        rw [Nat.pow_succ, Nat.mul_assoc, Nat.mul_comm (256 ^ k) 256, Nat.add_comm]
      rw [this, Nat.add_mul_div_right _ _ h256, Nat.add_comm]
    have e2 : UInt8.ofNat (x * 256 + y / 256 ^ k) = UInt8.ofNat (y / 256 ^ k) := by
      apply UInt8.toNat_inj.mp
      simp [UInt8.toNat_ofNat']
    have e3 : x * 256 ^ (k + 1) + y = (x * 256) * 256 ^ k + y := by
      rw [Nat.pow_succ, Nat.mul_assoc, Nat.mul_comm (256 ^ k) 256]
    rw [e1, e2, e3, ih]

theorem natBE_beNat (l : Bytes) : natBE l.length (beNat l) = l := by
  induction l with
  | nil => rfl
  | cons b bs ih =>
    simp only [List.length_cons, natBE, beNat]
    have hlt := beNat_lt bs
    have h256 : 0 < 256 ^ bs.length := Nat.pow_pos (by decide)
    have e1 : (b.toNat * 256 ^ bs.length + beNat bs) / 256 ^ bs.length = b.toNat := by
      rw [Nat.add_comm, Nat.add_mul_div_right _ _ h256, Nat.div_eq_of_lt hlt, Nat.zero_add]
    rw [e1, natBE_add_mul, ih]
    simp

end ZV.TlsWire
