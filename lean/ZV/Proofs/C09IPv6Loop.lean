import ZV.Model.C09
import ZV.Proofs.C09
import ZV.Proofs.C09IPv4
import ZV.Proofs.C09IPv6
/-!
  IPv6, part 2: the group loop `v6Loop` against the sequence grammar `V6Seq`
  (soundness by induction on the remaining room, completeness by induction on the grammar).
-/
namespace ZV.C09

theorem groupBytes_length (v : Nat) : (groupBytes v).length = 2 := rfl

theorem IsOctet.head_dec {f : Str} {v : Nat} (h : IsOctet f v) : ∃ c t, f = c :: t ∧ IsDec c := by
  match f, h with
  | [], h => exact absurd rfl h.ne
  | c :: t, h => exact ⟨c, t, rfl, h.digits c (by simp)⟩

theorem IsHexGroup.head_hex {g : Str} {v : Nat} (h : IsHexGroup g v) : ∃ c t, g = c :: t ∧ IsHexCh c := by
  match g, h with
  | [], h => exact absurd rfl h.ne
  | c :: t, h => exact ⟨c, t, rfl, h.hex c (by simp)⟩

/-- every sequence starts with a hex digit (in particular not with ':') -/
theorem V6Seq.head_hex {s : Str} {bs : List UInt8} {hq : Bool} (h : V6Seq s bs hq) :
    ∃ c t, s = c :: t ∧ IsHexCh c := by
  cases h with
  | one hg => exact hg.head_hex
  | quad hd =>
    obtain ⟨f1, f2, f3, f4, rfl, o1, _⟩ := hd
    obtain ⟨c, t, rfl, hc⟩ := o1.head_dec
    exact ⟨c, _, rfl, isDec_isHex hc⟩
  | cons hg _ =>
    obtain ⟨c, t, rfl, hc⟩ := hg.head_hex
    exact ⟨c, _, rfl, hc⟩

theorem V6Seq.length_ge {s : Str} {bs : List UInt8} {hq : Bool} (h : V6Seq s bs hq) : 2 ≤ bs.length := by
  induction h with
  | one _ => simp [groupBytes]
  | quad _ => simp
  | cons _ _ ih => simp [groupBytes]

/-! ### soundness -/

theorem v6Loop_sound : ∀ (n : Nat) (ip : List UInt8) (ell : Option Nat) (s : Str) (out : List UInt8)
    (ell' : Option Nat), 16 - ip.length ≤ n → ip.length < 16 →
    v6Loop ip ell s = some (out, ell', []) →
    (ell' = ell ∧ ∃ bs hq, V6Seq s bs hq ∧ out = ip ++ bs ∧ (hq = true → ell ≠ none ∨ out.length = 16)) ∨
    (ell = none ∧ ∃ l r L R, s = l ++ 58 :: 58 :: r ∧ V6Seq l L false ∧ V6Right r R ∧
       ell' = some (ip.length + L.length) ∧ out = ip ++ (L ++ R)) := by
  intro n
  induction n with
  | zero => intro ip _ _ _ _ hn hlt _; omega
  | succ n ih =>
    intro ip ell s out ell' hn hlt h
    obtain ⟨acc, off, s', hg, hoff, halt⟩ := (v6Loop_step ip ell s _ hlt).mp h
    obtain ⟨g, hs, hgrp, _, hx⟩ := hexGroup_start s acc off s' hg hoff
    have hlen' : (ip ++ groupBytes acc).length = ip.length + 2 := by simp [groupBytes]
    rcases halt with ⟨hs', hr⟩ | ⟨rest, f, hs', hcond, hroom, hf, hr⟩ | ⟨hs', hell, hr⟩ |
      ⟨rest2, hne, hs', hell, hrec⟩ | ⟨c2, rest2, hc2, hs', hrec⟩
    · -- last group
      simp only [Prod.mk.injEq] at hr
      obtain ⟨rfl, rfl, _⟩ := hr
      subst hs'
      left
      refine ⟨rfl, groupBytes acc, false, ?_, rfl, by simp⟩
      rw [hs, List.append_nil]
      exact V6Seq.one hgrp
    · -- embedded IPv4
      simp only [Prod.mk.injEq] at hr
      obtain ⟨rfl, rfl, _⟩ := hr
      obtain ⟨a, b, c, d, rfl, hq⟩ := parseIPv4Fields_some s f hf
      left
      refine ⟨rfl, [a, b, c, d], true, V6Seq.quad hq, rfl, ?_⟩
      intro _
      rcases hcond with hc | hc
      · exact Or.inl hc
      · right; simp [hc]
    · -- "::" at the end
      simp only [Prod.mk.injEq] at hr
      obtain ⟨rfl, rfl, _⟩ := hr
      right
      refine ⟨hell, g, [], groupBytes acc, [], by rw [hs, hs'], V6Seq.one hgrp, Or.inl ⟨rfl, rfl⟩, ?_, by simp⟩
      simp [groupBytes]
    · -- "::" in the middle
      by_cases hlt' : (ip ++ groupBytes acc).length < 16
      · rcases ih _ _ _ _ _ (by omega) hlt' hrec with ⟨he, bs, hq, hseq, hout, _⟩ | ⟨he, _⟩
        · right
          refine ⟨hell, g, rest2, groupBytes acc, bs, by rw [hs, hs'], V6Seq.one hgrp, Or.inr ⟨hq, hseq⟩, ?_, ?_⟩
          · rw [he]; simp [groupBytes]
          · rw [hout, List.append_assoc]
        · cases he
      · rw [v6Loop_full _ _ _ hlt'] at hrec
        simp only [Option.some.injEq, Prod.mk.injEq] at hrec
        exact absurd hrec.2.2 hne
    · -- ':' and more groups
      by_cases hlt' : (ip ++ groupBytes acc).length < 16
      · rcases ih _ _ _ _ _ (by omega) hlt' hrec with ⟨he, bs, hq, hseq, hout, hcond⟩ |
          ⟨he, l, r, L, R, hsplit, hl, hr, hell', hout⟩
        · left
          refine ⟨he, groupBytes acc ++ bs, hq, ?_, by rw [hout, List.append_assoc], hcond⟩
          rw [hs, hs']
          exact V6Seq.cons hgrp hseq
        · right
          refine ⟨he, g ++ 58 :: l, r, groupBytes acc ++ L, R, ?_, V6Seq.cons hgrp hl, hr, ?_, ?_⟩
          · rw [hs, hs', hsplit]; simp
          · rw [hell', hlen']; simp [groupBytes]; omega
          · rw [hout]; simp
      · rw [v6Loop_full _ _ _ hlt'] at hrec
        simp only [Option.some.injEq, Prod.mk.injEq] at hrec
        exact absurd hrec.2.2 (by simp)

/-! ### completeness -/

theorem not_hex_head_nil : ∀ c, ([] : Str).head? = some c → ¬ IsHexCh c := by
  intro c h; cases h

theorem not_hex_head_colon (t : Str) : ∀ c, (58 :: t).head? = some c → ¬ IsHexCh c := by
  intro c h
  simp only [List.head?_cons, Option.some.injEq] at h
  subst h; exact not_hex_colon

theorem not_hex_head_dot (t : Str) : ∀ c, ((46 : UInt8) :: t).head? = some c → ¬ IsHexCh c := by
  intro c h
  simp only [List.head?_cons, Option.some.injEq] at h
  subst h; exact not_hex_dot

/-- a sequence without "::" is read group by group -/
theorem v6Loop_complete_seq {s : Str} {bs : List UInt8} {hq : Bool} (h : V6Seq s bs hq) :
    ∀ (ip : List UInt8) (ell : Option Nat), ip.length + bs.length ≤ 16 →
      (hq = true → ell ≠ none ∨ ip.length + bs.length = 16) →
      v6Loop ip ell s = some (ip ++ bs, ell, []) := by
  induction h with
  | @one g v hg =>
    intro ip ell hlen _
    have hlt : ip.length < 16 := by simp [groupBytes] at hlen; omega
    refine (v6Loop_step ip ell g _ hlt).mpr ⟨v, g.length, [], ?_, ?_, Or.inl ⟨rfl, rfl⟩⟩
    · have := hexGroup_of_group hg [] not_hex_head_nil
      simpa using this
    · have := hg.ne
      intro e; exact this (List.length_eq_zero_iff.mp e)
  | @quad q a b c d hd =>
    intro ip ell hlen hcond
    have hcond' := hcond rfl
    simp only [List.length_cons, List.length_nil] at hlen hcond'
    have hlt : ip.length < 16 := by omega
    have hp : parseIPv4Fields q = some [a, b, c, d] := (parseIPv4Fields_iff q a b c d).mpr hd
    obtain ⟨f1, f2, f3, f4, hq', o1, _⟩ := hd
    have hg1 : IsHexGroup f1 (hexVal f1) :=
      ⟨o1.ne, by have := o1.length_le; omega, fun x hx => isDec_isHex (o1.digits x hx), rfl⟩
    refine (v6Loop_step ip ell q _ hlt).mpr ⟨hexVal f1, f1.length, 46 :: (f2 ++ 46 :: (f3 ++ 46 :: f4)), ?_, ?_,
      Or.inr (Or.inl ⟨_, [a, b, c, d], rfl, ?_, by omega, hp, rfl⟩)⟩
    · rw [hq']
      exact hexGroup_of_group hg1 _ (not_hex_head_dot _)
    · intro e; exact o1.ne (List.length_eq_zero_iff.mp e)
    · rcases hcond' with hc | hc
      · exact Or.inl hc
      · right; omega
  | @cons g v t bs hq hg ht ih =>
    intro ip ell hlen hcond
    simp only [List.length_append, groupBytes_length] at hlen hcond
    have hlt : ip.length < 16 := by omega
    obtain ⟨c2, rest2, rfl, hc2⟩ := ht.head_hex
    refine (v6Loop_step ip ell _ _ hlt).mpr ⟨v, g.length, 58 :: c2 :: rest2,
      hexGroup_of_group hg _ (not_hex_head_colon _), ?_,
      Or.inr (Or.inr (Or.inr (Or.inr ⟨c2, rest2, isHex_ne_colon hc2, rfl, ?_⟩)))⟩
    · intro e; exact hg.ne (List.length_eq_zero_iff.mp e)
    · rw [ih (ip ++ groupBytes v) ell (by simp [groupBytes]; omega)
        (by intro hh; simp only [List.length_append, groupBytes_length]
            rcases hcond hh with hc | hc
            · exact Or.inl hc
            · right; omega)]
      simp

/-- a sequence with "::" after the groups `l` -/
theorem v6Loop_complete_ell {l : Str} {L : List UInt8} {hq : Bool} (h : V6Seq l L hq) :
    hq = false → ∀ (ip : List UInt8) (r : Str) (R : List UInt8), V6Right r R →
      ip.length + L.length + R.length ≤ 16 →
      v6Loop ip none (l ++ 58 :: 58 :: r) = some (ip ++ (L ++ R), some (ip.length + L.length), []) := by
  induction h with
  | @one g v hg =>
    intro _ ip r R hr hlen
    simp only [groupBytes_length] at hlen
    have hlt : ip.length < 16 := by omega
    have hoff : g.length ≠ 0 := fun e => hg.ne (List.length_eq_zero_iff.mp e)
    rcases hr with ⟨rfl, rfl⟩ | ⟨hq', hseq⟩
    · refine (v6Loop_step ip none _ _ hlt).mpr ⟨v, g.length, [58, 58],
        hexGroup_of_group hg _ (not_hex_head_colon _), hoff, Or.inr (Or.inr (Or.inl ⟨rfl, rfl, ?_⟩))⟩
      simp [groupBytes]
    · obtain ⟨c2, rest2, rfl, hc2⟩ := hseq.head_hex
      refine (v6Loop_step ip none _ _ hlt).mpr ⟨v, g.length, 58 :: 58 :: c2 :: rest2,
        hexGroup_of_group hg _ (not_hex_head_colon _), hoff,
        Or.inr (Or.inr (Or.inr (Or.inl ⟨c2 :: rest2, by simp, rfl, rfl, ?_⟩)))⟩
      rw [v6Loop_complete_seq hseq (ip ++ groupBytes v) (some (ip.length + 2))
        (by simp [groupBytes]; omega) (fun _ => Or.inl (by simp))]
      simp [groupBytes]
  | @quad q a b c d hd => intro hh; cases hh
  | @cons g v t bs hq hg ht ih =>
    intro hh ip r R hr hlen
    simp only [List.length_append, groupBytes_length] at hlen
    have hlt : ip.length < 16 := by omega
    obtain ⟨c2, rest2, rfl, hc2⟩ := ht.head_hex
    have hoff : g.length ≠ 0 := fun e => hg.ne (List.length_eq_zero_iff.mp e)
    have e1 : g ++ 58 :: (c2 :: rest2) ++ 58 :: 58 :: r = g ++ 58 :: c2 :: (rest2 ++ 58 :: 58 :: r) := by simp
    rw [e1]
    refine (v6Loop_step ip none _ _ hlt).mpr ⟨v, g.length, 58 :: c2 :: (rest2 ++ 58 :: 58 :: r),
      hexGroup_of_group hg _ (not_hex_head_colon _), hoff,
      Or.inr (Or.inr (Or.inr (Or.inr ⟨c2, _, isHex_ne_colon hc2, rfl, ?_⟩)))⟩
    have := ih hh (ip ++ groupBytes v) r R hr (by simp [groupBytes]; omega)
    simp only [List.cons_append] at this
    rw [this]
    simp [groupBytes]
    omega

end ZV.C09
