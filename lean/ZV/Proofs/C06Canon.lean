import ZV.Proofs.C06Enc
import ZV.Proofs.DerLiteCanon
/-! C06: inversion of the structural parser — every accepted certificate of canonical shape (`Cert.shapeOK`) is
    in the image of the canonical encoder, with well-formed arguments. -/
namespace ZV.C06
open ZV ZV.Der

/-! ### inversion of the field parsers -/

theorem field_some_ok {w : Want} {o : Bool} {bs : Bytes} {e : Elem} {rest : Bytes}
    (h : field w o bs = .ok (some e, rest)) : w.ok e.hdr = true := by
  have hr := field_some h
  unfold field at h
  split at h
  · split at h <;> simp at h
  · split at h
    · rename_i hd after heq
      split at h
      · split at h <;> simp at h
      · rename_i hw
        obtain ⟨after', hh, _, _⟩ := readElem_hdr _ _ _ hr
        rw [heq] at hh
        injection hh with hh; injection hh with h1 _
        rw [← h1]; simpa using hw
    · cases h
    · cases h

theorem isElem_of_read {w : Want} {bs : Bytes} {e : Elem} {rest : Bytes} (hr : readElem bs = .ok (e, rest))
    (hw : w.ok e.hdr = true) : isElem w e.full = true ∧ elemAt e.full = e := by
  have ht := readElem_trunc _ _ _ hr
  unfold isElem elemAt
  rw [ht]
  exact ⟨by simpa using hw, rfl⟩

theorem field_some_inv {w : Want} {o : Bool} {bs : Bytes} {e : Elem} {rest : Bytes}
    (h : field w o bs = .ok (some e, rest)) :
    bs = e.full ++ rest ∧ isElem w e.full = true ∧ elemAt e.full = e := by
  have hr := field_some h
  obtain ⟨a, b⟩ := isElem_of_read hr (field_some_ok h)
  exact ⟨(readElem_split _ _ _ hr).1, a, b⟩

theorem someElem_inv {w : Want} {o : Bool} {bs : Bytes} {e : Elem} {rest : Bytes}
    (h : someElem (field w o bs) = .ok (e, rest)) :
    bs = e.full ++ rest ∧ isElem w e.full = true ∧ elemAt e.full = e :=
  field_some_inv (someElem_field_nil h)

theorem optBitString_inv {k : Nat} {bs rest : Bytes} (h : optBitString k bs = .ok rest) :
    ∃ u : Option Bytes, wfUID k u = true ∧ bs = optBytes u ++ rest := by
  unfold optBitString at h
  rw [bind_ok] at h
  obtain ⟨⟨oe, r⟩, h1, h2⟩ := h
  cases oe with
  | none =>
    simp only [Res.ok.injEq] at h2; subst h2
    exact ⟨none, rfl, by simp [optBytes, field_none h1]⟩
  | some e =>
    simp only at h2
    rw [bind_ok] at h2
    obtain ⟨v, hv, h3⟩ := h2
    simp only [Res.ok.injEq] at h3; subst h3
    obtain ⟨a, b, c⟩ := field_some_inv h1
    refine ⟨some e.full, ?_, by simpa [optBytes] using a⟩
    simp only [wfUID, b, c, hv, Res.isOk, Bool.and_self]

/-- inversion of the explicit optional field -/
theorem explicitField_inv {k : Nat} {w : Want} {bs : Bytes} {r : Option (Elem × Bytes)} {rest : Bytes}
    (h : explicitField k w bs = .ok (r, rest)) :
    (r = none ∧ rest = bs) ∨
    ∃ e pre hd, r = some (e, pre ++ e.full) ∧ bs = pre ++ e.full ++ rest ∧ readHdr pre = .ok (hd, []) ∧
      hd.cls = 2 ∧ hd.tag = k ∧ hd.compound = true ∧ hd.len ≠ 0 ∧ isElem w e.full = true ∧ elemAt e.full = e := by
  unfold explicitField at h
  split at h
  · simp only [Res.ok.injEq, Prod.mk.injEq] at h; exact Or.inl ⟨h.1.symm, h.2.symm⟩
  · split at h
    · rename_i hd after heq
      split at h
      · rename_i hcond
        split at h
        · cases h
        · rename_i hlen0
          split at h
          · cases h
          · split at h
            · rename_i h2 after2 heq2
              split at h
              · simp only [Res.ok.injEq, Prod.mk.injEq] at h; exact Or.inl ⟨h.1.symm, h.2.symm⟩
              · rename_i hwok
                split at h
                · rename_i e rest' heq3
                  simp only [Res.ok.injEq, Prod.mk.injEq] at h
                  obtain ⟨h1, h3⟩ := h
                  subst h3
                  obtain ⟨pre, hp, hpr⟩ := readHdr_trunc _ _ _ heq
                  obtain ⟨hs, _, _⟩ := readElem_split _ _ _ heq3
                  obtain ⟨after3, hh3, _, _⟩ := readElem_hdr _ _ _ heq3
                  rw [heq2] at hh3
                  injection hh3 with hh3; injection hh3 with hh3 _
                  have hw : w.ok e.hdr = true := by rw [← hh3]; simpa using hwok
                  obtain ⟨ie, ia⟩ := isElem_of_read heq3 hw
                  have hbs : bs = pre ++ e.full ++ rest' := by rw [hp, hs]; simp
                  simp only [Bool.and_eq_true, beq_iff_eq, Bool.or_eq_true] at hcond
                  have hl0 : hd.len ≠ 0 := by simpa using hlen0
                  refine Or.inr ⟨e, pre, hd, ?_, hbs, hpr, hcond.1.1, hcond.1.2, ?_, hl0, ie, ia⟩
                  · rw [← h1]
                    congr 2
                    conv => lhs; rw [hbs]
                    exact take_sub_suffix _ _
                  · rcases hcond.2 with hc | hc
                    · exact absurd hc hl0
                    · exact hc
                · cases h
                · cases h
            · cases h
            · cases h
      · simp only [Res.ok.injEq, Prod.mk.injEq] at h; exact Or.inl ⟨h.1.symm, h.2.symm⟩
    · cases h
    · cases h

/-! ### the fields before the extensions, inverted -/

/-- what `parseTbsPre` accepted, as encoder arguments: every field is one element of the expected kind, the
    unique ids are optional well-formed elements, and the input is their concatenation followed by the rest. -/
theorem parseTbsPre_fields {body : Bytes} {p : TbsPre} {r8 : Bytes} (h : parseTbsPre body = .ok (p, r8)) :
    ∃ (vo iu su : Option Bytes),
      wfVersion vo = true ∧
      (match vo with
       | none => p.verRaw = []
       | some v => ∃ pre hd, p.verRaw = pre ++ v ∧ readHdr pre = .ok (hd, [])) ∧
      isElem (.univ 2 false) p.serial.full = true ∧ checkInteger (elemAt p.serial.full).body = true ∧
      isElem (.univ 16 true) p.sigalg.full = true ∧ isElem .any p.issuer.full = true ∧
      isElem (.univ 16 true) p.validity.full = true ∧ isElem .any p.subject.full = true ∧
      isElem (.univ 16 true) p.spki.full = true ∧ wfUID 1 iu = true ∧ wfUID 2 su = true ∧
      body = p.verRaw ++ p.serial.full ++ p.sigalg.full ++ p.issuer.full ++ p.validity.full ++ p.subject.full
               ++ p.spki.full ++ optBytes iu ++ optBytes su ++ r8 := by
  unfold parseTbsPre at h
  rw [bind_ok] at h; obtain ⟨⟨ver, r0⟩, hver, h⟩ := h
  rw [bind_ok] at h; obtain ⟨v, hv, h⟩ := h
  rw [bind_ok] at h; obtain ⟨⟨serial, r1⟩, hserial, h⟩ := h
  split at h
  · cases h
  · rename_i hchk
    rw [bind_ok] at h; obtain ⟨⟨sigalg, r2⟩, hsigalg, h⟩ := h
    rw [bind_ok] at h; obtain ⟨⟨issuer, r3⟩, hissuer, h⟩ := h
    rw [bind_ok] at h; obtain ⟨⟨validity, r4⟩, hvalidity, h⟩ := h
    rw [bind_ok] at h; obtain ⟨⟨subject, r5⟩, hsubject, h⟩ := h
    rw [bind_ok] at h; obtain ⟨⟨spki, r6⟩, hspki, h⟩ := h
    rw [bind_ok] at h; obtain ⟨r7, hu1, h⟩ := h
    rw [bind_ok] at h; obtain ⟨r8', hu2, h⟩ := h
    simp only [Res.ok.injEq, Prod.mk.injEq] at h
    obtain ⟨hp, hr⟩ := h
    subst hp; subst hr
    simp only at hver hv hserial hchk hsigalg hissuer hvalidity hsubject hspki hu1 hu2 ⊢
    obtain ⟨s1, i1, a1⟩ := someElem_inv hserial
    obtain ⟨s2, i2, a2⟩ := someElem_inv hsigalg
    obtain ⟨s3, i3, a3⟩ := someElem_inv hissuer
    obtain ⟨s4, i4, a4⟩ := someElem_inv hvalidity
    obtain ⟨s5, i5, a5⟩ := someElem_inv hsubject
    obtain ⟨s6, i6, a6⟩ := someElem_inv hspki
    obtain ⟨iu, wiu, s7⟩ := optBitString_inv hu1
    obtain ⟨su, wsu, s8⟩ := optBitString_inv hu2
    have e0 := explicitField_split hver
    have hck : checkInteger (elemAt serial.full).body = true := by
      rw [a1]; simpa using hchk
    have hbody : body = consumed ver ++ serial.full ++ sigalg.full ++ issuer.full ++ validity.full ++ subject.full
               ++ spki.full ++ optBytes iu ++ optBytes su ++ r8' := by
      rw [e0, s1, s2, s3, s4, s5, s6, s7, s8]; simp
    rcases explicitField_inv hver with ⟨hn, _⟩ | ⟨e, pre, hd, hsome, _, hpre, _, _, _, _, ie, ae⟩
    · subst hn
      exact ⟨none, iu, su, rfl, rfl, i1, hck, i2, i3, i4, i5, i6, wiu, wsu, hbody⟩
    · subst hsome
      simp only at hv
      refine ⟨some e.full, iu, su, ?_, ⟨pre, hd, rfl, hpre⟩, i1, hck, i2, i3, i4, i5, i6, wiu, wsu, hbody⟩
      simp only [wfVersion, ie, ae, hv, Res.isOk, Bool.and_self]

/-! ### the extension list, inverted -/

theorem readElemsFuel_trunc : ∀ (f : Nat) (bs : Bytes) (es : List Elem), readElemsFuel f bs = .ok es →
    ∀ e ∈ es, readElem e.full = .ok (e, []) := by
  intro f
  induction f with
  | zero =>
    intro bs es h
    simp only [readElemsFuel] at h
    split at h
    · injection h with h; subst h; intro e he; cases he
    · cases h
  | succ f ih =>
    intro bs es h
    simp only [readElemsFuel] at h
    split at h
    · injection h with h; subst h; intro e he; cases he
    · split at h
      · rename_i e0 rest heq
        split at h
        · rename_i es' heq2
          injection h with h; subst h
          intro e he
          rcases List.mem_cons.mp he with he | he
          · subst he; exact readElem_trunc _ _ _ heq
          · exact ih _ _ heq2 e he
        · cases h
        · cases h
      · cases h
      · cases h

theorem parseExt_full {e : Elem} {x : Ext} (h : parseExt e = .ok x) : x.full = e.full := by
  unfold parseExt at h
  repeat' split at h
  all_goals (cases h <;> rfl)

theorem parseExtList_inv : ∀ (es : List Elem) (xs : List Ext), parseExtList es = .ok xs →
    ∀ x ∈ xs, ∃ e ∈ es, parseExt e = .ok x := by
  intro es
  induction es with
  | nil =>
    intro xs h
    simp only [parseExtList, Res.ok.injEq] at h
    subst h; intro x hx; cases hx
  | cons e es ih =>
    intro xs h
    simp only [parseExtList] at h
    split at h
    · rename_i x0 heq
      split at h
      · rename_i xs' heq2
        injection h with h; subst h
        intro x hx
        rcases List.mem_cons.mp hx with hx | hx
        · subst hx; exact ⟨e, List.mem_cons_self, heq⟩
        · obtain ⟨e', he', hp⟩ := ih _ heq2 x hx
          exact ⟨e', List.mem_cons_of_mem _ he', hp⟩
      · cases h
      · cases h
    · cases h
    · cases h

/-- every extension `parseExts` returns is well-formed: its `full` is one SEQUENCE element that `parseExt`
    decodes to it. -/
theorem parseExts_wf {bs : Bytes} {xs : List Ext} (h : parseExts bs = .ok xs) : ∀ x ∈ xs, wfExt x = true := by
  unfold parseExts at h
  split at h
  · rename_i es heq
    split at h
    · rename_i hall
      intro x hx
      obtain ⟨e, he, hp⟩ := parseExtList_inv _ _ h x hx
      have ht := readElemsFuel_trunc _ _ _ heq e he
      rw [List.all_eq_true] at hall
      have hf := parseExt_full hp
      exact wfExt_intro (e := e) (by rw [hf]; exact ht) (hall e he) hp
    · cases h
  · cases h
  · cases h

/-! ### identifier octets -/

theorem u8_eq_of_toNat {a : UInt8} {n : Nat} (h : a.toNat = n) : a = UInt8.ofNat n := by
  rw [← h]; exact UInt8.ofNat_toNat.symm

theorem ident_univ16 (t : UInt8) (n : Nat) (h : (Want.univ 16 true).ok (hdrOf t n) = true) : t = 0x30 := by
  simp only [Want.ok, hdrOf, Bool.and_eq_true, beq_iff_eq, decide_eq_true_eq] at h
  have := t.toNat_lt
  exact u8_eq_of_toNat (n := 48) (by omega)

theorem ident_ctx0 (t : UInt8) (n : Nat) (h : (Want.ctx 0 true).ok (hdrOf t n) = true) : t = 0xA0 := by
  simp only [Want.ok, hdrOf, Bool.and_eq_true, beq_iff_eq, decide_eq_true_eq] at h
  have := t.toNat_lt
  exact u8_eq_of_toNat (n := 160) (by omega)

/-- an element with a low tag number is the canonical TLV of its body -/
theorem canon_of_isElem {w : Want} {bs : Bytes} (h : isElem w bs = true) (hlow : ∀ hd, w.ok hd = true → hd.tag < 31) :
    ∃ t : UInt8, t.toNat % 32 ≠ 31 ∧ w.ok (hdrOf t (elemAt bs).body.length) = true ∧
      bs = writeTLV t (elemAt bs).body ∧ (elemAt bs).body.length < 2147483648 := by
  obtain ⟨hr, hw⟩ := isElem_spec h
  obtain ⟨t, ht, hh, hf, hl⟩ := readElem_canonical _ _ _ hr (hlow _ hw)
  refine ⟨t, ht, by rw [← hh]; exact hw, ?_, hl⟩
  rw [← hf]; exact (isElem_full h).symm

theorem univ16_low (hd : Hdr) (h : (Want.univ 16 true).ok hd = true) : hd.tag < 31 := by
  simp only [Want.ok, Bool.and_eq_true, beq_iff_eq] at h; omega

theorem ctx0_low (hd : Hdr) (h : (Want.ctx 0 true).ok hd = true) : hd.tag < 31 := by
  simp only [Want.ok, Bool.and_eq_true, beq_iff_eq] at h; omega

/-- a SEQUENCE element is `30 len body` with the minimal length field -/
theorem seq_canonical {bs : Bytes} (h : isElem (.univ 16 true) bs = true) :
    bs = writeTLV 0x30 (elemAt bs).body ∧ (elemAt bs).body.length < 2147483648 := by
  obtain ⟨t, _, hw, hb, hl⟩ := canon_of_isElem h univ16_low
  rw [ident_univ16 t _ hw] at hb
  exact ⟨hb, hl⟩

/-- the version wrapper: consistent length ⇒ it is `A0 len inner` -/
theorem version_canonical {verRaw pre v : Bytes} {hd : Hdr} (hv : verRaw = pre ++ v)
    (hp : readHdr pre = .ok (hd, [])) (hs : isElem (.ctx 0 true) verRaw = true) :
    verRaw = writeTLV 0xA0 v ∧ v.length < 2147483648 := by
  obtain ⟨t, ht, hw, hb, hl⟩ := canon_of_isElem hs ctx0_low
  rw [ident_ctx0 t _ hw] at hb
  obtain ⟨B, hB⟩ : ∃ B, B = (elemAt verRaw).body := ⟨_, rfl⟩
  rw [← hB] at hb hl
  have h1 := readHdr_writeTLV 0xA0 B [] (by decide) hl
  rw [List.append_nil, ← hb] at h1
  have h2 := readHdr_append _ _ _ v hp
  rw [List.nil_append, ← hv, h1] at h2
  simp only [Res.ok.injEq, Prod.mk.injEq, List.append_nil] at h2
  rw [← h2.2]
  exact ⟨hb, hl⟩

/-! ### accepted + canonical shape ⇒ image of the encoder -/

theorem beq_bytes {a b : Bytes} (h : (a == b) = true) : a = b := by simpa using h

/-- **Every accepted certificate of canonical shape is `encCert (encTbs f exts) sigalg sig`** for well-formed
    arguments: `exts` is the parsed extension list, `sigalg` / `sig` the parsed outer elements, and `f` the field
    encodings found in the TBS. -/
theorem accepted_is_encoded {bs : Bytes} {c : Cert} (h : parseCert bs = .ok c) (hs : c.shapeOK = true) :
    ∃ f : TbsFields, wfCert f c.tbs.exts c.sigalg.full c.sigval.full = true ∧
      bs = encCert (encTbs f c.tbs.exts) c.sigalg.full c.sigval.full ∧
      c.tbs.pre = encTbsPre f ∧
      f.serial = c.tbs.serial.full ∧ f.sigalg = c.tbs.sigalg.full ∧ f.issuer = c.tbs.issuer.full ∧
      f.validity = c.tbs.validity.full ∧ f.subject = c.tbs.subject.full ∧ f.spki = c.tbs.spki.full := by
  unfold parseCert at h
  rw [bind_ok] at h; obtain ⟨⟨ce, rest⟩, hc, h⟩ := h
  split at h
  · cases h
  · rename_i hrest
    rw [bind_ok] at h; obtain ⟨⟨tbsE, r1⟩, htbsE, h⟩ := h
    rw [bind_ok] at h; obtain ⟨tbs, htbs, h⟩ := h
    rw [bind_ok] at h; obtain ⟨⟨sa, r2⟩, hsa, h⟩ := h
    rw [bind_ok] at h; obtain ⟨⟨sv, r3⟩, hsv, h⟩ := h
    rw [bind_ok] at h; obtain ⟨bv, hbv, h⟩ := h
    simp only [Res.ok.injEq] at h
    subst h
    simp only at hrest htbsE htbs hsa hsv hbv
    have hre : rest = [] := by simpa using hrest
    subst hre
    obtain ⟨c1, ci, ca⟩ := someElem_inv hc
    obtain ⟨t1, ti, ta⟩ := someElem_inv htbsE
    obtain ⟨_, sai, saa⟩ := someElem_inv hsa
    obtain ⟨_, svi, sva⟩ := someElem_inv hsv
    simp only [Cert.shapeOK, Bool.and_eq_true, Bool.or_eq_true] at hs
    obtain ⟨⟨S1, S2⟩, S3⟩ := hs
    have S1 := beq_bytes S1
    obtain ⟨w, S2⟩ : ∃ w, tbs.pre = tbs.pre ∧ tbsE.body = tbs.pre ++ encExtsField w tbs.exts := by
      rcases S2 with S2 | S2
      · exact ⟨false, rfl, beq_bytes S2⟩
      · exact ⟨true, rfl, beq_bytes S2⟩
    have S2 := S2.2
    -- the TBS
    unfold parseTbs at htbs
    rw [bind_ok] at htbs; obtain ⟨⟨p, r8⟩, hp, htbs⟩ := htbs
    rw [bind_ok] at htbs; obtain ⟨x, hx, htbs⟩ := htbs
    rw [bind_ok] at htbs; obtain ⟨xs, hxs, htbs⟩ := htbs
    simp only [Res.ok.injEq] at htbs
    subst htbs
    simp only at S2 S3 hx hxs ⊢
    obtain ⟨vo, iu, su, wv, hvr, i1, hck, i2, i3, i4, i5, i6, wiu, wsu, hbody⟩ := parseTbsPre_fields hp
    have hxwf : ∀ y ∈ xs, wfExt y = true := by
      cases hx1 : x.1 with
      | none =>
        rw [hx1] at hxs
        simp only [Res.ok.injEq] at hxs
        subst hxs; intro y hy; cases hy
      | some xe =>
        rw [hx1] at hxs
        exact parseExts_wf hxs
    let f : TbsFields := ⟨vo, p.serial.full, p.sigalg.full, p.issuer.full, p.validity.full, p.subject.full,
      p.spki.full, iu, su, w⟩
    have hwf : wfFields f = true :=
      (wfFields_iff f).mpr ⟨wv, i1, hck, i2, i3, i4, i5, i6, wiu, wsu⟩
    have hver : encVersion vo = p.verRaw := by
      cases vo with
      | none => simp only at hvr; rw [hvr]; rfl
      | some v =>
        simp only at hvr
        obtain ⟨pre, hd, hv1, hv2⟩ := hvr
        have hne : p.verRaw.isEmpty = false := by
          have := readHdr_ne_nil hv2
          rw [hv1]; cases pre with
          | nil => cases this
          | cons _ _ => rfl
        rcases S3 with S3 | S3
        · rw [hne] at S3; cases S3
        · exact (version_canonical hv1 hv2 S3).1.symm
    have hpre : tbsE.body.take (tbsE.body.length - r8.length) = encTbsPre f := by
      have : tbsE.body = encTbsPre f ++ r8 := by
        rw [hbody]; simp only [encTbsPre, f, hver]
      conv => lhs; rw [this]
      exact take_sub_suffix _ _
    rw [hpre] at S2
    have hbodyE : tbsE.body = encTbsBody f xs := S2
    obtain ⟨tc, _⟩ := seq_canonical ti
    rw [ta, hbodyE] at tc
    obtain ⟨cc, cl⟩ := seq_canonical ci
    rw [ca] at cc cl
    have hbs : bs = ce.full := by rw [c1]; simp
    have hraw : ce.body = encTbs f xs ++ sa.full ++ sv.full := by rw [S1, tc]; rfl
    refine ⟨f, ?_, ?_, hpre, rfl, rfl, rfl, rfl, rfl, rfl⟩
    · refine (wfCert_iff _ _ _ _).mpr ⟨hwf, hxwf, ?_, by rw [← hraw]; exact cl⟩
      simp only [wfSig, sai, svi, sva, hbv, Res.isOk, Bool.and_self]
    · rw [hbs, cc, hraw]; rfl

/-- conversely, what the canonical encoder produces has canonical shape -/
theorem shapeOK_encCert (f : TbsFields) (xs : List Ext) (sa sv : Bytes) (h : wfCert f xs sa sv = true) :
    ∃ c, parseCert (encCert (encTbs f xs) sa sv) = .ok c ∧ c.shapeOK = true := by
  obtain ⟨hf, hx, hs, hl⟩ := (wfCert_iff f xs sa sv).mp h
  refine ⟨_, parseCert_encCert f xs sa sv hf hx hs hl, ?_⟩
  simp only [wfSig, Bool.and_eq_true] at hs
  obtain ⟨hver, _⟩ := (wfFields_iff f).mp hf
  have hb := encCert_bounds (encTbsBody f xs) sa sv hl
  obtain ⟨hvl, _⟩ := encTbsBody_bounds f xs hb
  simp only [Cert.shapeOK, elemOf, isElem_full hs.1.1, isElem_full hs.1.2, Bool.and_eq_true, Bool.or_eq_true]
  refine ⟨⟨by simp [encTbs], by simp only [encTbsBody, List.append_cancel_left_eq, beq_iff_eq]; cases f.wrapEmpty <;> simp⟩, ?_⟩
  cases hv : f.version with
  | none => left; rfl
  | some v =>
    right
    simp only [encVersion]
    exact (isElem_writeTLV (.ctx 0 true) 0xA0 v (by decide) (hvl v hv) (by simp [Want.ok, hdrOf])).1

end ZV.C06
