import ZV.Proofs.C05List
import ZV.Proofs.DerLiteAppend
/-! The list-level round trip of C05: `parseRL (createRL …)`. -/
namespace ZV.C05
open ZV ZV.Der ZV.C06 ZV.C04

/-- domain of the list-level theorem (decidable): entries in `EntryT.okT`; list-level extra extensions with OIDs within the
    reader's MaxInt32 limit that do not repeat the two extensions the library writes itself (authorityKeyIdentifier,
    cRLNumber — a repeated one would override the parsed `AuthorityKeyId` / `Number`, the last occurrence wins). -/
def RLDom (t : RLTmpl) : Bool :=
  t.entries.all EntryT.okT && t.extras.all (fun x => oidOk x.oid && x.oid != oidAKI && x.oid != oidCRLNumber)

/-- the signature AlgorithmIdentifier parameter is one SEQUENCE that `parseAI` accepts -/
def aiOk (sigAI : Bytes) : Bool :=
  match cbRead 0x30 sigAI with
  | .ok (e, rest) => rest.isEmpty && (parseAICB e.body).isOk
  | _ => false

/-- the issuer's subject is one SEQUENCE that `parseName` accepts -/
def issuerOk (s : Bytes) : Bool :=
  match cbRead 0x30 s with
  | .ok (_, rest) => rest.isEmpty && nameOk s
  | _ => false

def RLTmpl.parsedNext (t : RLTmpl) : Option GoTime :=
  if isZeroTime (utc t.nextUpdate) then none else some (secOf t.nextUpdate)

def RLTmpl.parsedEntries (t : RLTmpl) : Option (List PEntryT) :=
  if t.entries.isEmpty then none else some (t.entries.map fun e => e.parsed (entryEnc e))

theorem cbRead_append (t : UInt8) (bs : Bytes) (e : Elem) (rest x : Bytes) (h : cbRead t bs = .ok (e, rest)) :
    cbRead t (bs ++ x) = .ok (e, rest ++ x) := by
  unfold cbRead at h ⊢
  cases bs with
  | nil => simp [peek] at h
  | cons b tl =>
    have hp : peek t (b :: tl ++ x) = peek t (b :: tl) := rfl
    rw [hp]
    by_cases hpk : peek t (b :: tl) = true
    · simp only [hpk, Bool.not_true, Bool.false_eq_true, if_false] at h ⊢
      exact readElem_append _ _ _ _ h
    · simp [hpk] at h

theorem cbRead_one {t : UInt8} {bs : Bytes} {e : Elem} (h : cbRead t bs = .ok (e, [])) (x : Bytes) :
    cbRead t (bs ++ x) = .ok (e, x) ∧ e.full = bs := by
  refine ⟨by simpa using cbRead_append t bs e [] x h, ?_⟩
  unfold cbRead at h
  by_cases hpk : peek t bs = true
  · simp only [hpk, Bool.not_true, Bool.false_eq_true, if_false] at h
    have := readElem_full bs e [] h
    simpa using this.symm
  · simp [hpk] at h

def extsW (l : List EExt) : Bytes :=
  writeTLV 0xA0 (writeTLV 0x30 ((l.map fun x => writeTLV 0x30 (extBody x)).flatten))

def revField (es : List EntryT) : Bytes := if es.isEmpty then [] else writeTLV 0x30 ((es.map entryEnc).flatten)

/-- what `createTBS` returns, spelled out -/
theorem createTBS_eq {sigAI : Bytes} {iss : IssuerC} {t : RLTmpl} {tbs : Bytes} (h : createTBS sigAI iss t = .ok tbs) :
    ∃ n tu nu, t.number = some n ∧ crlNumberOk n = true ∧
      (∀ e ∈ t.entries, encTimeG (utc e.time) = .ok (tbOf e) ∧ ∀ x ∈ e.synth, encOID x.oid = some (oidC x)) ∧
      (∀ x ∈ listExts iss n t, encOID x.oid = some (oidC x)) ∧
      encTimeG (utc t.thisUpdate) = .ok tu ∧ encNextUpdate t.nextUpdate = .ok nu ∧
      tbs = writeTLV 0x30 (writeTLV 0x02 [1] ++ (sigAI ++ (iss.subject ++ (tu ++ (nu ++
        (revField t.entries ++ extsW (listExts iss n t))))))) := by
  unfold createTBS at h
  split at h
  · cases h
  split at h
  · cases h
  split at h
  · cases h
  split at h
  · cases h
  · rename_i n hn
    split at h
    · cases h
    cases hre : encEntriesT t.entries with
    | err => simp [hre, Res.bind] at h
    | panic => simp [hre, Res.bind] at h
    | ok revoked =>
      simp only [hre, bind_ok] at h
      cases hm : (listExts iss n t).mapM encExtension with
      | none => simp [hm] at h
      | some xs =>
        obtain ⟨e1, p1⟩ := mapM_encExtension hm
        simp only [hm] at h
        cases htu : encTimeG (utc t.thisUpdate) with
        | err => simp [htu, Res.bind] at h
        | panic => simp [htu, Res.bind] at h
        | ok tu =>
          simp only [htu, bind_ok] at h
          cases hnu : encNextUpdate t.nextUpdate with
          | err => simp [hnu, Res.bind] at h
          | panic => simp [hnu, Res.bind] at h
          | ok nu =>
            simp only [hnu, bind_ok, Res.ok.injEq] at h
            -- the entries
            unfold encEntriesT at hre
            cases hmr : mapRes encEntryT t.entries with
            | err => simp [hmr, Res.map] at hre
            | panic => simp [hmr, Res.map] at hre
            | ok bss =>
              simp only [hmr, Res.map, Res.ok.injEq] at hre
              obtain ⟨e2, p2⟩ := mapRes_ok_map encEntryT entryEnc
                (fun e => encTimeG (utc e.time) = .ok (tbOf e) ∧ ∀ x ∈ e.synth, encOID x.oid = some (oidC x))
                (fun a b hab => ⟨(encEntryT_enc hab).1, (encEntryT_enc hab).2⟩) _ _ hmr
              refine ⟨n, tu, nu, hn, by simpa using ‹¬ (!crlNumberOk n) = true›, p2, p1, rfl, rfl, ?_⟩
              rw [← h, ← hre, e1, e2]
              simp only [tlv, revField, extsW]

theorem parseBitString_zero (sig : Bytes) : parseBitString (0 :: sig) = .ok (0, sig) := by
  unfold parseBitString
  cases hg : ((0 : UInt8) :: sig).getLast? with
  | none => simp at hg
  | some l => simp [hg, Nat.mod_one]

theorem listExts_ok {iss : IssuerC} {n : Int} {t : RLTmpl} (hdom : RLDom t = true) :
    ∀ x ∈ listExts iss n t, oidOk x.oid = true := by
  intro x hx
  simp only [RLDom, Bool.and_eq_true] at hdom
  simp only [listExts, List.mem_cons] at hx
  rcases hx with rfl | rfl | hx
  · exact oidOk_aki
  · exact oidOk_num
  · have := List.all_eq_true.mp hdom.2 x hx
    simp only [Bool.and_eq_true] at this
    exact this.1.1

/-- the `[0]` extensions stage of `ParseRevocationList` on what `CreateRevocationList` wrote -/
theorem extsStage (iss : IssuerC) (n : Int) (t : RLTmpl) (hdom : RLDom t = true)
    (henc : ∀ x ∈ listExts iss n t, encOID x.oid = some (oidC x))
    (hlen : (extsW (listExts iss n t)).length < 2147483648) :
    ∀ l, l = listExts iss n t →
    cbRead 0xA0 (extsW l) = .ok (elemOf 0xA0 (writeTLV 0x30 ((l.map fun x => writeTLV 0x30 (extBody x)).flatten)), []) ∧
    cbRead 0x30 (writeTLV 0x30 ((l.map fun x => writeTLV 0x30 (extBody x)).flatten)) =
      .ok (elemOf 0x30 ((l.map fun x => writeTLV 0x30 (extBody x)).flatten), []) ∧
    parseExtsCB ((l.map fun x => writeTLV 0x30 (extBody x)).flatten).length ((l.map fun x => writeTLV 0x30 (extBody x)).flatten)
      = .ok (l.map triple) ∧
    scanListExts (l.map triple) none none = .ok (some (buildAKI iss.ski), some n) := by
  intro l hl0
  subst hl0
  have h1 := writeTLV_length_ge 0xA0 (writeTLV 0x30 (((listExts iss n t).map fun x => writeTLV 0x30 (extBody x)).flatten))
  have h2 := writeTLV_length_ge 0x30 (((listExts iss n t).map fun x => writeTLV 0x30 (extBody x)).flatten)
  unfold extsW at hlen
  obtain ⟨_, hel⟩ := tlvs_bounds 0x30 (fun x => writeTLV 0x30 (extBody x)) (listExts iss n t) 2147483648 (by omega)
  have hbl : ∀ x ∈ listExts iss n t, (extBody x).length < 2147483648 := by
    intro x hx
    have := hel x hx
    have := writeTLV_length_ge 0x30 (extBody x)
    omega
  have hok := listExts_ok (iss := iss) (n := n) hdom
  refine ⟨cbRead_tlv_end _ _ (by decide) (by omega), cbRead_tlv_end _ _ (by decide) (by omega),
    parseExtsCB_build (listExts iss n t) _ (fun x hx => ⟨validOID_encOID (henc x hx) (hok x hx), hbl x hx⟩) (Nat.le_refl _), ?_⟩
  have hrest : ∀ x ∈ t.extras, encOID x.oid = some (oidC x) ∧ oidOk x.oid = true ∧ x.oid ≠ oidAKI ∧ x.oid ≠ oidCRLNumber := by
    intro x hx
    have hm : x ∈ listExts iss n t := by simp [listExts, hx]
    simp only [RLDom, Bool.and_eq_true] at hdom
    have := List.all_eq_true.mp hdom.2 x hx
    simp only [Bool.and_eq_true, bne_iff_ne, ne_eq] at this
    exact ⟨henc x hm, this.1.1, this.1.2, this.2⟩
  have ca : oidC ⟨oidAKI, false, buildAKI iss.ski⟩ = oidAKIBytes := by simp [oidC, encOID_aki]
  have cn : oidC ⟨oidCRLNumber, false, tlv 0x02 (encBigInt n)⟩ = oidCRLNumberBytes := by simp [oidC, encOID_num]
  have hne : oidCRLNumberBytes ≠ oidAKIBytes := by decide
  have hl := (encBigInt_length n).2
  show scanListExts ((listExts iss n t).map triple) none none = _
  simp only [listExts, List.map_cons, scanListExts, triple, ca, cn, if_true, hne, if_false, tlv]
  rw [cbRead_tlv_end _ _ (by decide) (by
    have := writeTLV_length_ge 0x02 (encBigInt n)
    have hx : (⟨oidCRLNumber, false, tlv 0x02 (encBigInt n)⟩ : EExt) ∈ listExts iss n t := by simp [listExts]
    have := hbl _ hx
    simp only [extBody, List.length_append, tlv] at this
    have := writeTLV_length_ge 0x04 (writeTLV 0x02 (encBigInt n))
    omega)]
  simp only [bind_ok, elemOf_body, parseBigInt_encBigInt]
  exact scanListExts_other t.extras _ _ hrest

theorem peek_revField_W (es : List EntryT) (l : List EExt) (t' : UInt8) (h30 : t' ≠ 0x30) (hA0 : t' ≠ 0xA0) :
    peek t' (revField es ++ extsW l) = false := by
  unfold revField extsW
  split
  · simp only [List.nil_append, peek_tlv_end]; simpa using fun h => hA0 h.symm
  · simp only [peek_tlv]; simpa using fun h => h30 h.symm

/-- **the tail of `ParseRevocationList`** (thisUpdate, nextUpdate, revokedCertificates, extensions) on what
    `CreateRevocationList` wrote -/
theorem parseRLTail_build (iss : IssuerC) (n : Int) (t : RLTmpl) (tu nu : Bytes) (hdom : RLDom t = true)
    (hes : ∀ e ∈ t.entries, encTimeG (utc e.time) = .ok (tbOf e) ∧ ∀ x ∈ e.synth, encOID x.oid = some (oidC x))
    (henc : ∀ x ∈ listExts iss n t, encOID x.oid = some (oidC x))
    (htu : encTimeG (utc t.thisUpdate) = .ok tu) (hnu : encNextUpdate t.nextUpdate = .ok nu)
    (hlen : (revField t.entries ++ extsW (listExts iss n t)).length < 2147483648) :
    parseRLTail (tu ++ (nu ++ (revField t.entries ++ extsW (listExts iss n t)))) =
      .ok (secOf t.thisUpdate, t.parsedNext, t.parsedEntries, some (buildAKI iss.ski), some n, (listExts iss n t).map triple) := by
  simp only [List.length_append] at hlen
  obtain ⟨x1, x2, x3, x4⟩ := extsStage iss n t hdom henc (by omega) _ rfl
  unfold parseRLTail
  rw [(parseTimeCB_encTimeG t.thisUpdate tu _ htu).1]
  simp only [bind_ok]
  -- nextUpdate
  have hnext : (if peek 0x18 (nu ++ (revField t.entries ++ extsW (listExts iss n t))) ||
        peek 0x17 (nu ++ (revField t.entries ++ extsW (listExts iss n t))) then
        (parseTimeCB (nu ++ (revField t.entries ++ extsW (listExts iss n t)))).bind fun nu => Res.ok (some nu.1, nu.2)
      else Res.ok (none, nu ++ (revField t.entries ++ extsW (listExts iss n t)))) =
      Res.ok (t.parsedNext, revField t.entries ++ extsW (listExts iss n t)) := by
    unfold encNextUpdate at hnu
    unfold RLTmpl.parsedNext
    by_cases hz : isZeroTime (utc t.nextUpdate) = true
    · simp only [hz, if_true, Res.ok.injEq] at hnu ⊢
      subst hnu
      simp only [List.nil_append, peek_revField_W _ _ 0x18 (by decide) (by decide),
        peek_revField_W _ _ 0x17 (by decide) (by decide), Bool.or_self, Bool.false_eq_true, if_false]
    · simp only [hz, Bool.false_eq_true, if_false] at hnu ⊢
      obtain ⟨p1, p2, _⟩ := parseTimeCB_encTimeG t.nextUpdate nu (revField t.entries ++ extsW (listExts iss n t)) hnu
      simp only [p2, if_true, p1, bind_ok]
  rw [hnext]
  simp only [bind_ok]
  -- revokedCertificates
  have hrev : (if peek 0x30 (revField t.entries ++ extsW (listExts iss n t)) then
        (cbRead 0x30 (revField t.entries ++ extsW (listExts iss n t))).bind fun r =>
          (parseEntriesT r.1.body.length r.1.body).bind fun es => Res.ok (some es, r.2)
      else Res.ok (none, revField t.entries ++ extsW (listExts iss n t))) =
      Res.ok (t.parsedEntries, extsW (listExts iss n t)) := by
    unfold RLTmpl.parsedEntries
    by_cases hemp : t.entries.isEmpty = true
    · have : revField t.entries = [] := by simp [revField, hemp]
      have hp : peek 0x30 (extsW (listExts iss n t)) = false := by simp [extsW, peek_tlv_end]
      simp only [this, List.nil_append, hp, Bool.false_eq_true, if_false, hemp, if_true]
    · have hrf : revField t.entries = writeTLV 0x30 ((t.entries.map entryEnc).flatten) := by simp [revField, hemp]
      rw [hrf] at hlen ⊢
      have hX := writeTLV_length_ge 0x30 ((t.entries.map entryEnc).flatten)
      simp only [peek_tlv, beq_self_eq_true, if_true, hemp, Bool.false_eq_true, if_false]
      rw [cbRead_tlv _ _ _ (by decide) (by omega)]
      simp only [bind_ok, elemOf_body]
      simp only [RLDom, Bool.and_eq_true] at hdom
      rw [parseEntriesT_build t.entries _ (fun e he => ⟨(hes e he).1, (hes e he).2, List.all_eq_true.mp hdom.1 e he, by
        have h1 := length_le_flatten (List.mem_map_of_mem (f := entryEnc) he)
        have h2 := writeTLV_length_ge 0x30 (entryBodyT e (tbOf e))
        simp only [entryEnc] at h1
        omega⟩) (Nat.le_refl _)]
      simp only [bind_ok]
  rw [hrev]
  simp only [bind_ok]
  -- extensions
  have hpA : peek 0xA0 (extsW (listExts iss n t)) = true := by simp [extsW, peek_tlv_end]
  simp only [hpA, if_true]
  rw [x1]
  simp only [bind_ok, elemOf_body]
  rw [x2]
  simp only [bind_ok, elemOf_body]
  rw [x3]
  simp only [bind_ok]
  rw [x4]
  simp only [bind_ok]

/-- **`ParseRevocationList ∘ CreateRevocationList`** on the model -/
theorem parseRL_createRL (sigAI : Bytes) (iss : IssuerC) (t : RLTmpl) (sig der : Bytes)
    (h : createRL sigAI iss t sig = .ok der) (hai : aiOk sigAI = true) (hiss : issuerOk iss.subject = true)
    (hdom : RLDom t = true) (hlen : der.length < 2147483648) :
    ∃ n tbs alg, t.number = some n ∧ crlNumberOk n = true ∧ createTBS sigAI iss t = .ok tbs ∧
      parseRL der = .ok ⟨tbs, alg, sig, iss.subject, secOf t.thisUpdate, t.parsedNext, t.parsedEntries, some n,
        some (buildAKI iss.ski), (listExts iss n t).map triple⟩ := by
  unfold createRL at h
  cases hc : createTBS sigAI iss t with
  | err => simp [hc, Res.bind] at h
  | panic => simp [hc, Res.bind] at h
  | ok tbs =>
    simp only [hc, bind_ok, Res.ok.injEq] at h
    obtain ⟨n, tu, nu, hn, hnum, hes, henc, htu, hnu, htbs⟩ := createTBS_eq hc
    -- the AlgorithmIdentifier and the issuer name are single accepted elements
    unfold aiOk at hai
    cases hra : cbRead 0x30 sigAI with
    | err => simp [hra] at hai
    | panic => simp [hra] at hai
    | ok pr =>
      obtain ⟨aiE, air⟩ := pr
      simp only [hra, Bool.and_eq_true, List.isEmpty_iff] at hai
      obtain ⟨hair, haiok⟩ := hai
      subst hair
      cases hpa : parseAICB aiE.body with
      | err => simp [hpa, Res.isOk] at haiok
      | panic => simp [hpa, Res.isOk] at haiok
      | ok alg =>
        unfold issuerOk at hiss
        cases hri : cbRead 0x30 iss.subject with
        | err => simp [hri] at hiss
        | panic => simp [hri] at hiss
        | ok pr2 =>
          obtain ⟨isE, isr⟩ := pr2
          simp only [hri, Bool.and_eq_true, List.isEmpty_iff] at hiss
          obtain ⟨hisr, hname⟩ := hiss
          subst hisr
          refine ⟨n, tbs, alg, hn, hnum, rfl, ?_⟩
          subst h
          subst htbs
          unfold wrapSigned tlv at hlen ⊢
          have g1 := writeTLV_length_ge 0x30 (writeTLV 0x30 (writeTLV 0x02 [1] ++ (sigAI ++ (iss.subject ++ (tu ++ (nu ++
            (revField t.entries ++ extsW (listExts iss n t))))))) ++ (sigAI ++ writeTLV 0x03 (0 :: sig)))
          have g2 := writeTLV_length_ge 0x30 (writeTLV 0x02 [1] ++ (sigAI ++ (iss.subject ++ (tu ++ (nu ++
            (revField t.entries ++ extsW (listExts iss n t)))))))
          have g3 := writeTLV_length_ge 0x03 (0 :: sig)
          simp only [List.length_append] at g1 g2
          unfold parseRL
          rw [cbRead_tlv_end _ _ (by decide) (by simp only [List.length_append]; omega)]
          simp only [bind_ok, elemOf_body]
          rw [cbRead_tlv _ _ _ (by decide) (by simp only [List.length_append]; omega)]
          simp only [bind_ok, elemOf_body, elemOf_full, peek_tlv, beq_self_eq_true, Bool.not_true, Bool.false_eq_true, if_false]
          rw [cbRead_tlv _ _ _ (by decide) (by simp)]
          have hv : parseInt64 [1] = .ok 1 := by decide
          simp only [bind_ok, elemOf_body, hv, ne_eq, not_true_eq_false, if_false]
          rw [(cbRead_one hra _).1, (cbRead_one hra _).1]
          simp only [bind_ok, ne_eq, not_true_eq_false, if_false, hpa]
          rw [cbRead_tlv_end _ _ (by decide) (by omega)]
          simp only [bind_ok, elemOf_body, parseBitString_zero]
          rw [(cbRead_one hri _).1]
          simp only [bind_ok, (cbRead_one hri []).2, hname, Bool.not_true, Bool.false_eq_true, if_false]
          rw [parseRLTail_build iss n t tu nu hdom hes henc htu hnu (by simp only [List.length_append]; omega)]
          simp [bind_ok, rightAlign]

end ZV.C05
