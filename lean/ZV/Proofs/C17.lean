import ZV.Model.C17
/-! Helper lemmas for C17 (core Lean only). -/
namespace ZV.C17

/-- the indices of a range `[s, e]` -/
def idxs (s e : Nat) : List Nat := List.range' s (e + 1 - s)

theorem range'_split (s m t : Nat) (h1 : s ≤ m) (h2 : m ≤ t) :
    List.range' s (m - s) ++ List.range' m (t - m) = List.range' s (t - s) := by
  obtain ⟨d, rfl⟩ : ∃ d, m = s + d := ⟨m - s, by omega⟩
  have : s + d - s = d := by omega
  rw [this, List.range'_append_1]
  congr 1
  omega

/-! ### ranges -/

theorem ranges_cover (start stop batch : Nat) (hb : 0 < batch) :
    (ranges start stop batch).flatMap (fun r => idxs r.1 r.2) = List.range' start (stop - start) := by
  fun_induction ranges start stop batch with
  | case1 start h ih =>
    simp only [List.flatMap_cons]
    rw [ih]
    simp only [idxs]
    exact range'_split _ _ _ (by omega) (by omega)
  | case2 start h =>
    have : stop - start = 0 := by omega
    simp [this]

theorem ranges_wf (start stop batch : Nat) :
    ∀ r ∈ ranges start stop batch, r.1 ≤ r.2 ∧ r.2 + 1 - r.1 ≤ batch ∧ start ≤ r.1 ∧ r.2 < stop := by
  fun_induction ranges start stop batch with
  | case1 start h ih =>
    intro r hr
    rcases List.mem_cons.mp hr with rfl | hr
    · simp only; omega
    · have := ih r hr; omega
  | case2 start h => intro r hr; cases hr

/-- consecutive ranges are adjacent: each starts right after the previous one ends -/
def Adjacent : Nat → List (Nat × Nat) → Prop
  | _, [] => True
  | s, r :: rest => r.1 = s ∧ Adjacent (r.2 + 1) rest

theorem ranges_adjacent (start stop batch : Nat) : Adjacent start (ranges start stop batch) := by
  fun_induction ranges start stop batch with
  | case1 start h ih => exact ⟨rfl, ih⟩
  | case2 start h => trivial

/-! ### fetchRange -/

theorem fetchRange_emits (e : Nat) (script : List Tok) :
    ∀ s, s ≤ e → (fetchRange s e script).1 = idxs s e := by
  induction script with
  | nil => intro s _; simp [fetchRange, idxs]
  | cons t rest ih =>
    intro s hs
    cases t with
    | err => simp only [fetchRange]; exact ih s hs
    | give n =>
      simp only [fetchRange]
      split
      · exact ih s hs
      · split
        · simp only [idxs]; congr 1; omega
        · rename_i h0 h1
          simp only []
          rw [ih (s + min n (e + 1 - s)) (by omega)]
          simp only [idxs]
          have := range'_split s (s + min n (e + 1 - s)) (e + 1) (by omega) (by omega)
          rw [← this]
          congr 2
          omega

theorem fetchRange_requests (e : Nat) (script : List Tok) :
    ∀ s, s ≤ e → (∀ q ∈ (fetchRange s e script).2, s ≤ q.1 ∧ q.1 ≤ e ∧ q.2 = e)
      ∧ (fetchRange s e script).2.length ≤ script.length + 1 := by
  induction script with
  | nil => intro s hs; simp [fetchRange]; omega
  | cons t rest ih =>
    intro s hs
    cases t with
    | err =>
      simp only [fetchRange]
      have := ih s hs
      refine ⟨?_, by simp; omega⟩
      intro q hq
      rcases List.mem_cons.mp hq with rfl | hq
      · simp; omega
      · exact this.1 q hq
    | give n =>
      simp only [fetchRange]
      split
      · have := ih s hs
        refine ⟨?_, by simp; omega⟩
        intro q hq
        rcases List.mem_cons.mp hq with rfl | hq
        · simp; omega
        · exact this.1 q hq
      · split
        · simp; omega
        · have := ih (s + min n (e + 1 - s)) (by omega)
          refine ⟨?_, by simp; omega⟩
          intro q hq
          rcases List.mem_cons.mp hq with rfl | hq
          · simp; omega
          · have := this.1 q hq; omega

/-- number of productive answers (non-error, non-empty) in a script -/
def productive : List Tok → Nat
  | [] => 0
  | .err :: rest => productive rest
  | .give n :: rest => (if n = 0 then 0 else 1) + productive rest

theorem fetchRange_tail_irrelevant (e : Nat) (script tail : List Tok) :
    ∀ s, s ≤ e → e + 1 - s ≤ productive script → fetchRange s e (script ++ tail) = fetchRange s e script := by
  induction script with
  | nil => intro s hs hp; simp [productive] at hp; omega
  | cons t rest ih =>
    intro s hs hp
    cases t with
    | err =>
      simp only [productive] at hp
      simp only [List.cons_append, fetchRange, ih s hs hp]
    | give n =>
      simp only [productive] at hp
      simp only [List.cons_append, fetchRange]
      split
      · rename_i hk
        have hn : n = 0 := by omega
        simp only [hn, if_true] at hp
        rw [ih s hs (by omega)]
      · split
        · rfl
        · rename_i hk hlt
          rw [ih (s + min n (e + 1 - s)) (by omega) (by split at hp <;> omega)]

/-! ### interleaving model: bookkeeping of where every index is -/

def inflight : FSt → List Nat
  | .req s e _ => idxs s e
  | .send s e _ _ => idxs s e
  | .idle => []
  | .done => []

def fsum (a : Nat) (fs : List FSt) : Nat := (fs.map (fun f => (inflight f).count a)).sum
def psum (a : Nat) (ps : List Job) : Nat := (ps.map (fun j => (idxs j.s j.e).count a)).sum

/-- number of places index `a` currently sits in: a pending range, a fetcher's current range, the `jobs`
    channel, or the processed multiset -/
def occ (a : Nat) (st : St) : Nat :=
  psum a st.pending + fsum a st.fs + st.jobs.count a + st.processed.count a

theorem sum_set : ∀ (l : List Nat) (i : Nat) (a x : Nat), l[i]? = some a →
    (l.set i x).sum + a = l.sum + x := by
  intro l
  induction l with
  | nil => intro i a x h; simp at h
  | cons y ys ih =>
    intro i a x h
    cases i with
    | zero =>
      simp at h
      subst h
      simp [List.set]
      omega
    | succ i =>
      simp at h
      have := ih i a x h
      simp [List.set]
      omega

theorem fsum_set (a : Nat) (fs : List FSt) (i : Nat) (f x : FSt) (h : fs[i]? = some f) :
    fsum a (fs.set i x) + (inflight f).count a = fsum a fs + (inflight x).count a := by
  simp only [fsum, List.map_set]
  apply sum_set
  simp [h]

theorem psum_cons (a : Nat) (j : Job) (ps : List Job) :
    psum a (j :: ps) = (idxs j.s j.e).count a + psum a ps := by
  simp [psum]

theorem idxs_cons (s e : Nat) (h : s ≤ e) : idxs s e = s :: idxs (s + 1) e := by
  simp only [idxs]
  have : e + 1 - s = (e + 1 - (s + 1)) + 1 := by omega
  rw [this, List.range'_succ]

theorem idxs_empty (s e : Nat) (h : s > e) : idxs s e = [] := by
  simp only [idxs]
  have : e + 1 - s = 0 := by omega
  rw [this]; rfl

def FOk : FSt → Prop
  | .req s e _ => s ≤ e
  | .send s e k _ => s + k ≤ e + 1
  | .idle => True
  | .done => True

/-- invariant of the interleaving model -/
structure WF (st : St) : Prop where
  fok : ∀ f ∈ st.fs, FOk f
  pok : ∀ j ∈ st.pending, j.s ≤ j.e
  cnt : st.counter = st.processed.length
  pend : FSt.done ∈ st.fs → st.pending = []
  closed : true ∈ st.ms → allDone st.fs = true ∧ st.jobs = []

theorem mem_of_getElem? {α} {l : List α} {i : Nat} {a : α} (h : l[i]? = some a) : a ∈ l :=
  List.mem_of_getElem? h

theorem allDone_get {fs : List FSt} (h : allDone fs = true) {i : Nat} {f : FSt} (hf : fs[i]? = some f) :
    f = .done := by
  have hm := mem_of_getElem? hf
  simp only [allDone, List.all_eq_true] at h
  have := h f hm
  simpa using this

theorem stepF_occ (a i : Nat) (st : St) (wf : WF st) : occ a (stepF i st) = occ a st := by
  unfold stepF
  split
  · rfl
  · rfl
  · rename_i hi
    split
    · rename_i hp
      have := fsum_set a st.fs i _ .done hi
      simp only [occ, inflight] at *
      omega
    · rename_i j rest hp
      have := fsum_set a st.fs i _ (.req j.s j.e j.script) hi
      simp only [occ, inflight, hp, psum_cons] at *
      simp at this
      omega
  · rename_i s e script hi
    split
    · rename_i rest hs
      have := fsum_set a st.fs i _ (.req s e rest) hi
      simp only [occ, inflight] at *
      omega
    · rename_i k rest hs
      split
      · have := fsum_set a st.fs i _ (.req s e rest) hi
        simp only [occ, inflight] at *
        omega
      · have := fsum_set a st.fs i _ (.send s e k rest) hi
        simp only [occ, inflight] at *
        omega
  · rename_i s e k script hi
    have hok : FOk (.send s e k script) := wf.fok _ (mem_of_getElem? hi)
    split
    · split
      · rename_i hgt
        have := fsum_set a st.fs i _ .idle hi
        simp only [occ, inflight, idxs_empty s e hgt] at *
        simp at this
        omega
      · have := fsum_set a st.fs i _ (.req s e script) hi
        simp only [occ, inflight] at *
        omega
    · rename_i k'
      simp only [FOk] at hok
      have := fsum_set a st.fs i _ (.send (s + 1) e k' script) hi
      simp only [occ, inflight, idxs_cons s e (by omega), List.count_append, List.count_cons] at *
      simp at this ⊢
      omega

theorem stepM_occ (a j : Nat) (st : St) : occ a (stepM j st) = occ a st := by
  unfold stepM
  split
  · rfl
  · rfl
  · split
    · rename_i x rest hj
      simp only [occ, hj, List.count_cons]
      omega
    · split <;> rfl

/-! ### the invariant is preserved -/

theorem fok_set {fs : List FSt} (h : ∀ f ∈ fs, FOk f) (i : Nat) (x : FSt) (hx : FOk x) :
    ∀ f ∈ fs.set i x, FOk f := by
  intro f hf
  rcases List.mem_or_eq_of_mem_set hf with h1 | rfl
  · exact h f h1
  · exact hx

theorem done_mem_set {fs : List FSt} {i : Nat} {x : FSt} (hx : x ≠ .done) (h : FSt.done ∈ fs.set i x) :
    FSt.done ∈ fs := by
  rcases List.mem_or_eq_of_mem_set h with h1 | h1
  · exact h1
  · exact absurd h1.symm hx

theorem serve_le {s e : Nat} {script rest : List Tok} {k : Nat} (h : serve s e script = (some k, rest)) :
    k ≤ e + 1 - s := by
  cases script with
  | nil => simp [serve] at h; omega
  | cons t ts =>
    cases t with
    | err => simp [serve] at h
    | give n => simp [serve] at h; omega

theorem stepF_wf (i : Nat) (st : St) (wf : WF st) : WF (stepF i st) := by
  unfold stepF
  split
  · exact wf
  · exact wf
  · rename_i hi
    have hcl : true ∈ st.ms → False := fun hm => by
      have := allDone_get (wf.closed hm).1 hi; cases this
    split
    · rename_i hp
      exact ⟨fok_set wf.fok _ _ trivial, wf.pok, wf.cnt, fun _ => hp, fun hm => (hcl hm).elim⟩
    · rename_i j rest hp
      have hj : j.s ≤ j.e := wf.pok j (by rw [hp]; exact List.mem_cons_self)
      refine ⟨fok_set wf.fok _ _ hj, ?_, wf.cnt, ?_, fun hm => (hcl hm).elim⟩
      · intro j' hj'; exact wf.pok j' (by rw [hp]; exact List.mem_cons_of_mem _ hj')
      · intro hd
        have := wf.pend (done_mem_set (by simp) hd)
        rw [hp] at this; cases this
  · rename_i s e script hi
    have hcl : true ∈ st.ms → False := fun hm => by
      have := allDone_get (wf.closed hm).1 hi; cases this
    have hok : FOk (.req s e script) := wf.fok _ (mem_of_getElem? hi)
    simp only [FOk] at hok
    split
    · exact ⟨fok_set wf.fok _ _ hok, wf.pok, wf.cnt, fun hd => wf.pend (done_mem_set (by simp) hd),
        fun hm => (hcl hm).elim⟩
    · rename_i k rest hs
      have hk := serve_le hs
      split
      · exact ⟨fok_set wf.fok _ _ hok, wf.pok, wf.cnt, fun hd => wf.pend (done_mem_set (by simp) hd),
          fun hm => (hcl hm).elim⟩
      · exact ⟨fok_set wf.fok _ _ (by simp only [FOk]; omega), wf.pok, wf.cnt,
          fun hd => wf.pend (done_mem_set (by simp) hd), fun hm => (hcl hm).elim⟩
  · rename_i s e k script hi
    have hcl : true ∈ st.ms → False := fun hm => by
      have := allDone_get (wf.closed hm).1 hi; cases this
    have hok : FOk (.send s e k script) := wf.fok _ (mem_of_getElem? hi)
    split
    · split
      · exact ⟨fok_set wf.fok _ _ trivial, wf.pok, wf.cnt, fun hd => wf.pend (done_mem_set (by simp) hd),
          fun hm => (hcl hm).elim⟩
      · exact ⟨fok_set wf.fok _ _ (by simp only [FOk]; omega), wf.pok, wf.cnt,
          fun hd => wf.pend (done_mem_set (by simp) hd), fun hm => (hcl hm).elim⟩
    · rename_i k'
      simp only [FOk] at hok
      exact ⟨fok_set wf.fok _ _ (by simp only [FOk]; omega), wf.pok, wf.cnt,
        fun hd => wf.pend (done_mem_set (by simp) hd), fun hm => (hcl hm).elim⟩

theorem stepM_wf (j : Nat) (st : St) (wf : WF st) : WF (stepM j st) := by
  unfold stepM
  split
  · exact wf
  · exact wf
  · split
    · rename_i x rest hj
      refine ⟨wf.fok, wf.pok, ?_, wf.pend, ?_⟩
      · simp [wf.cnt]
      · intro hm
        have := (wf.closed hm).2
        rw [hj] at this; cases this
    · rename_i hj
      split
      · rename_i hd
        exact ⟨wf.fok, wf.pok, wf.cnt, wf.pend, fun _ => ⟨hd, hj⟩⟩
      · exact wf

theorem step_wf (w : Worker) (st : St) (wf : WF st) : WF (step w st) := by
  cases w with
  | f i => exact stepF_wf i st wf
  | m j => exact stepM_wf j st wf

theorem step_occ (a : Nat) (w : Worker) (st : St) (wf : WF st) : occ a (step w st) = occ a st := by
  cases w with
  | f i => exact stepF_occ a i st wf
  | m j => exact stepM_occ a j st

theorem run_wf_occ (ws : List Worker) : ∀ (st : St), WF st →
    WF (run st ws) ∧ ∀ a, occ a (run st ws) = occ a st := by
  induction ws with
  | nil => intro st wf; exact ⟨wf, fun _ => rfl⟩
  | cons w ws ih =>
    intro st wf
    have h := ih (step w st) (step_wf w st wf)
    exact ⟨h.1, fun a => by rw [run, h.2 a, step_occ a w st wf]⟩

/-- the number of workers never changes -/
theorem step_lengths (w : Worker) (st : St) :
    (step w st).fs.length = st.fs.length ∧ (step w st).ms.length = st.ms.length := by
  cases w with
  | f i =>
    simp only [step]; unfold stepF
    repeat' split
    all_goals simp
  | m j =>
    simp only [step]; unfold stepM
    repeat' split
    all_goals simp

theorem run_lengths (ws : List Worker) : ∀ (st : St),
    (run st ws).fs.length = st.fs.length ∧ (run st ws).ms.length = st.ms.length := by
  induction ws with
  | nil => intro st; exact ⟨rfl, rfl⟩
  | cons w ws ih =>
    intro st
    have h := ih (step w st)
    have h2 := step_lengths w st
    exact ⟨by rw [run, h.1, h2.1], by rw [run, h.2, h2.2]⟩

/-! ### initial and final states -/

theorem init_wf (start stop batch nf nm : Nat) (scriptOf : Nat → List Tok) :
    WF (init start stop batch nf nm scriptOf) := by
  refine ⟨?_, ?_, rfl, ?_, ?_⟩
  · intro f hf
    simp only [init, List.mem_replicate] at hf
    rw [hf.2]; trivial
  · intro j hj
    simp only [init, List.mem_map] at hj
    obtain ⟨r, hr, rfl⟩ := hj
    exact (ranges_wf start stop batch r hr).1
  · intro h
    simp only [init, List.mem_replicate] at h
    cases h.2
  · intro h
    simp only [init, List.mem_replicate] at h
    cases h.2

theorem fsum_replicate_idle (a n : Nat) : fsum a (List.replicate n .idle) = 0 := by
  induction n with
  | zero => rfl
  | succ n ih => simp only [fsum, List.replicate_succ, List.map_cons, List.sum_cons, inflight] at *; simp

theorem init_occ (a start stop batch nf nm : Nat) (scriptOf : Nat → List Tok) (hb : 0 < batch) :
    occ a (init start stop batch nf nm scriptOf) = (List.range' start (stop - start)).count a := by
  simp only [occ, init, fsum_replicate_idle, psum, List.map_map]
  rw [← ranges_cover start stop batch hb, List.count_flatMap]
  simp [Function.comp_def]

theorem fsum_allDone (a : Nat) (fs : List FSt) (h : allDone fs = true) : fsum a fs = 0 := by
  induction fs with
  | nil => rfl
  | cons f fs ih =>
    simp only [allDone, List.all_cons, Bool.and_eq_true] at h
    have hf : f = .done := by simpa using h.1
    subst hf
    have := ih (by simpa [allDone] using h.2)
    simp only [fsum, List.map_cons, List.sum_cons, inflight] at *
    simp [this]

theorem finished_occ (a : Nat) (st : St) (wf : WF st) (hf : finished st = true)
    (hnf : 0 < st.fs.length) (hnm : 0 < st.ms.length) : occ a st = st.processed.count a := by
  simp only [finished, Bool.and_eq_true] at hf
  have hd : FSt.done ∈ st.fs := by
    cases hfs : st.fs with
    | nil => rw [hfs] at hnf; simp at hnf
    | cons f rest =>
      have h1 := hf.1
      rw [hfs] at h1
      simp only [allDone, List.all_cons, Bool.and_eq_true] at h1
      have : f = .done := by simpa using h1.1
      rw [this]; exact List.mem_cons_self
  have ht : true ∈ st.ms := by
    cases hms : st.ms with
    | nil => rw [hms] at hnm; simp at hnm
    | cons b rest =>
      have h2 := hf.2
      rw [hms] at h2
      simp only [List.all_cons, Bool.and_eq_true] at h2
      rw [h2.1]; exact List.mem_cons_self
  have hp := wf.pend hd
  have hj := (wf.closed ht).2
  simp only [occ, hp, hj, fsum_allDone a st.fs hf.1, psum]
  simp

/-! ### progress: the measure `mu` -/

def wsum (fs : List FSt) : Nat := (fs.map fWeight).sum
def unfin (ms : List Bool) : Nat := (ms.filter (fun b => !b)).length

theorem mu_eq (st : St) : mu st = (st.pending.map jobWeight).sum + wsum st.fs + st.jobs.length + unfin st.ms := rfl

theorem wsum_set (fs : List FSt) (i : Nat) (f x : FSt) (h : fs[i]? = some f) :
    wsum (fs.set i x) + fWeight f = wsum fs + fWeight x := by
  simp only [wsum, List.map_set]
  apply sum_set
  simp [h]

theorem unfin_set : ∀ (ms : List Bool) (j : Nat), ms[j]? = some false →
    unfin (ms.set j true) + 1 = unfin ms := by
  intro ms
  induction ms with
  | nil => intro j h; simp at h
  | cons b bs ih =>
    intro j h
    cases j with
    | zero =>
      simp at h
      subst h
      simp [unfin, List.set]
    | succ j =>
      simp at h
      have := ih j h
      cases b <;> simp [unfin, List.set] at * <;> omega

theorem serve_cases {s e : Nat} {script rest : List Tok} {r : Option Nat} (h : serve s e script = (r, rest)) :
    (script = [] ∧ rest = [] ∧ r = some (e + 1 - s)) ∨ script.length = rest.length + 1 := by
  cases script with
  | nil => left; simp [serve] at h; exact ⟨rfl, by simp [h.2], by simp [h.1]⟩
  | cons t ts =>
    right
    cases t with
    | err => simp [serve] at h; simp [h.2]
    | give n => simp [serve] at h; simp [h.2]

theorem stepF_mu (i : Nat) (st : St) (wf : WF st) (h : enabled (.f i) st = true) :
    mu (stepF i st) < mu st := by
  unfold stepF
  simp only [enabled] at h
  split
  · rename_i hi; simp [hi] at h
  · rename_i hi; simp [hi] at h
  · rename_i hi
    split
    · have := wsum_set st.fs i _ .done hi
      simp only [mu_eq, fWeight] at *
      omega
    · rename_i j rest hp
      have := wsum_set st.fs i _ (.req j.s j.e j.script) hi
      simp only [mu_eq, fWeight, jobWeight, hp, List.map_cons, List.sum_cons] at *
      omega
  · rename_i s e script hi
    have hok : FOk (.req s e script) := wf.fok _ (mem_of_getElem? hi)
    simp only [FOk] at hok
    split
    · rename_i rest hs
      have := wsum_set st.fs i _ (.req s e rest) hi
      rcases serve_cases hs with ⟨_, _, h3⟩ | hl
      · cases h3
      · simp only [mu_eq, fWeight] at *
        omega
    · rename_i k rest hs
      split
      · rename_i hk
        have := wsum_set st.fs i _ (.req s e rest) hi
        rcases serve_cases hs with ⟨_, _, h3⟩ | hl
        · simp at h3; omega
        · simp only [mu_eq, fWeight] at *
          omega
      · rename_i hk
        have := wsum_set st.fs i _ (.send s e k rest) hi
        simp only [mu_eq, fWeight, hk, if_false] at *
        rcases serve_cases hs with ⟨h1, h2, _⟩ | hl
        · subst h1; subst h2; simp at *; omega
        · omega
  · rename_i s e k script hi
    have hok : FOk (.send s e k script) := wf.fok _ (mem_of_getElem? hi)
    split
    · split
      · have := wsum_set st.fs i _ .idle hi
        simp only [mu_eq, fWeight, if_true] at *
        omega
      · have := wsum_set st.fs i _ (.req s e script) hi
        simp only [mu_eq, fWeight, if_true] at *
        omega
    · rename_i k'
      simp only [FOk] at hok
      have := wsum_set st.fs i _ (.send (s + 1) e k' script) hi
      simp only [mu_eq, fWeight, List.length_append, List.length_cons, List.length_nil] at *
      have h1 : (if k' + 1 = 0 then 3 else 1) = 1 := by simp
      rw [h1] at this
      by_cases hk : k' = 0
      · simp only [hk, if_true] at *; omega
      · simp only [hk, if_false] at *; omega

theorem stepM_mu (j : Nat) (st : St) (h : enabled (.m j) st = true) : mu (stepM j st) < mu st := by
  unfold stepM
  simp only [enabled] at h
  split
  · rename_i hj; simp [hj] at h
  · rename_i hj; simp [hj] at h
  · rename_i hj
    simp only [hj] at h
    split
    · rename_i x rest hjobs
      simp only [mu_eq, hjobs, List.length_cons]
      omega
    · rename_i hjobs
      simp only [hjobs] at h
      have hd : allDone st.fs = true := by simpa using h
      simp only [hd, if_true]
      have := unfin_set st.ms j hj
      simp only [mu_eq]
      omega

theorem step_mu (w : Worker) (st : St) (wf : WF st) (h : enabled w st = true) : mu (step w st) < mu st := by
  cases w with
  | f i => exact stepF_mu i st wf h
  | m j => exact stepM_mu j st h

theorem step_disabled (w : Worker) (st : St) (h : enabled w st = false) : step w st = st := by
  cases w with
  | f i =>
    simp only [step, enabled] at *
    unfold stepF
    split
    · rfl
    · rfl
    all_goals (rename_i hi; simp [hi] at h)
  | m j =>
    simp only [step, enabled] at *
    unfold stepM
    split
    · rfl
    · rfl
    · rename_i hj
      simp only [hj] at h
      split
      · rename_i hjobs; simp [hjobs] at h
      · rename_i hjobs
        simp only [hjobs] at h
        have : allDone st.fs = false := by simpa using h
        simp [this]

theorem run_mu_le (ws : List Worker) : ∀ (st : St), WF st → mu (run st ws) ≤ mu st := by
  induction ws with
  | nil => intro st _; exact Nat.le_refl _
  | cons w ws ih =>
    intro st wf
    have h1 := ih (step w st) (step_wf w st wf)
    simp only [run]
    cases he : enabled w st with
    | true => have := step_mu w st wf he; omega
    | false => rw [step_disabled w st he] at h1 ⊢; exact h1

theorem run_round (ws : List Worker) : ∀ (st : St), WF st → (∃ w ∈ ws, enabled w st = true) →
    mu (run st ws) < mu st := by
  induction ws with
  | nil => intro st _ ⟨w, hw, _⟩; cases hw
  | cons w' ws ih =>
    intro st wf ⟨w, hw, hen⟩
    simp only [run]
    cases he : enabled w' st with
    | true =>
      have h1 := step_mu w' st wf he
      have h2 := run_mu_le ws (step w' st) (step_wf w' st wf)
      omega
    | false =>
      rw [step_disabled w' st he]
      rcases List.mem_cons.mp hw with rfl | hw
      · rw [he] at hen; cases hen
      · exact ih st wf ⟨w, hw, hen⟩

theorem exists_of_all_false {α} (p : α → Bool) : ∀ (l : List α), l.all p = false → ∃ x ∈ l, p x = false := by
  intro l
  induction l with
  | nil => intro h; simp at h
  | cons x xs ih =>
    intro h
    cases hx : p x with
    | false => exact ⟨x, List.mem_cons_self, hx⟩
    | true =>
      simp only [List.all_cons, hx, Bool.true_and] at h
      obtain ⟨y, hy, hpy⟩ := ih h
      exact ⟨y, List.mem_cons_of_mem _ hy, hpy⟩

theorem exists_enabled (st : St) (h : finished st = false) : ∃ w ∈ workers st, enabled w st = true := by
  by_cases hd : allDone st.fs = true
  · -- some matcher has not returned
    simp only [finished, hd, Bool.true_and] at h
    have : ∃ b ∈ st.ms, b = false := exists_of_all_false (fun b => b) st.ms h
    obtain ⟨b, hb, rfl⟩ := this
    obtain ⟨j, hj, hget⟩ := List.mem_iff_getElem.mp hb
    refine ⟨.m j, ?_, ?_⟩
    · simp only [workers, List.mem_append, List.mem_map, List.mem_range]
      right; exact ⟨j, hj, rfl⟩
    · have : st.ms[j]? = some false := by simp [hj, hget]
      simp [enabled, this, hd]
  · have : ∃ f ∈ st.fs, f ≠ FSt.done := by
      have hd' : allDone st.fs = false := by simpa using hd
      obtain ⟨f, hf, hf'⟩ := exists_of_all_false _ st.fs hd'
      exact ⟨f, hf, by simpa using hf'⟩
    obtain ⟨f, hf, hne⟩ := this
    obtain ⟨i, hi, hget⟩ := List.mem_iff_getElem.mp hf
    refine ⟨.f i, ?_, ?_⟩
    · simp only [workers, List.mem_append, List.mem_map, List.mem_range]
      left; exact ⟨i, hi, rfl⟩
    · have h1 : st.fs[i]? = some f := by simp [hi, hget]
      simp only [enabled, h1]

theorem finished_disabled (st : St) (h : finished st = true) (w : Worker) : enabled w st = false := by
  simp only [finished, Bool.and_eq_true] at h
  cases w with
  | f i =>
    simp only [enabled]
    cases hi : st.fs[i]? with
    | none => rfl
    | some f => have := allDone_get h.1 hi; subst this; rfl
  | m j =>
    simp only [enabled]
    cases hj : st.ms[j]? with
    | none => rfl
    | some b =>
      have hb : b ∈ st.ms := mem_of_getElem? hj
      have hbt : b = true := (List.all_eq_true.mp h.2) b hb
      subst hbt; rfl

theorem run_finished (ws : List Worker) (st : St) (h : finished st = true) : run st ws = st := by
  induction ws with
  | nil => rfl
  | cons w ws ih => simp only [run]; rw [step_disabled w st (finished_disabled st h w)]; exact ih

theorem roundRobin_stable (fuel : Nat) (st : St) (h : finished st = true) : roundRobin st fuel = st := by
  induction fuel with
  | zero => rfl
  | succ fuel ih => simp only [roundRobin]; rw [run_finished _ st h]; exact ih

theorem roundRobin_finishes (fuel : Nat) : ∀ (st : St), WF st → mu st ≤ fuel →
    finished (roundRobin st fuel) = true := by
  induction fuel with
  | zero =>
    intro st wf hm
    simp only [roundRobin]
    cases hf : finished st with
    | true => rfl
    | false =>
      obtain ⟨w, _, he⟩ := exists_enabled st hf
      have := step_mu w st wf he
      omega
  | succ fuel ih =>
    intro st wf hm
    cases hf : finished st with
    | true => rw [roundRobin_stable _ st hf]; exact hf
    | false =>
      simp only [roundRobin]
      have hlt := run_round (workers st) st wf (exists_enabled st hf)
      exact ih _ (run_wf_occ (workers st) st wf).1 (by omega)

theorem run_append (a b : List Worker) : ∀ (st : St), run st (a ++ b) = run (run st a) b := by
  induction a with
  | nil => intro st; rfl
  | cons w a ih => intro st; simp only [List.cons_append, run]; exact ih _

theorem workers_run (ws : List Worker) (st : St) : workers (run st ws) = workers st := by
  have := run_lengths ws st
  simp only [workers, this.1, this.2]

/-- round-robin is an ordinary schedule -/
theorem roundRobin_eq_run (n : Nat) : ∀ (st : St),
    roundRobin st n = run st (List.replicate n (workers st)).flatten := by
  induction n with
  | zero => intro st; rfl
  | succ n ih =>
    intro st
    simp only [roundRobin, List.replicate_succ, List.flatten_cons, run_append]
    rw [ih, workers_run]

/-- every step of the schedule is taken by a worker that can move -/
def AllEnabled : St → List Worker → Prop
  | _, [] => True
  | st, w :: ws => enabled w st = true ∧ AllEnabled (step w st) ws

theorem allEnabled_length (ws : List Worker) : ∀ (st : St), WF st → AllEnabled st ws →
    ws.length + mu (run st ws) ≤ mu st := by
  induction ws with
  | nil => intro st _ _; simp [run]
  | cons w ws ih =>
    intro st wf h
    have h1 := step_mu w st wf h.1
    have h2 := ih (step w st) (step_wf w st wf) h.2
    simp only [run, List.length_cons]
    omega

/-! ### the `certsProcessed` counter is write-only for the workers: a leftover value is carried along unchanged -/

/-- the same state with `c` more on the `certsProcessed` counter -/
def addC (c : Nat) (st : St) : St := { st with counter := st.counter + c }

theorem stepF_addC (c i : Nat) (st : St) : stepF i (addC c st) = addC c (stepF i st) := by
  unfold stepF
  simp only [addC]
  split
  · rfl
  · rfl
  · split <;> rfl
  · split
    · rfl
    · split <;> rfl
  · split
    · split <;> rfl
    · rfl

theorem stepM_addC (c j : Nat) (st : St) : stepM j (addC c st) = addC c (stepM j st) := by
  unfold stepM
  simp only [addC]
  split
  · rfl
  · rfl
  · split
    · simp only [St.mk.injEq, true_and, and_true]; omega
    · by_cases h : allDone st.fs = true <;> simp [h]

theorem step_addC (c : Nat) (w : Worker) (st : St) : step w (addC c st) = addC c (step w st) := by
  cases w with
  | f i => exact stepF_addC c i st
  | m j => exact stepM_addC c j st

theorem run_addC (c : Nat) (sched : List Worker) (st : St) : run (addC c st) sched = addC c (run st sched) := by
  induction sched generalizing st with
  | nil => rfl
  | cons w ws ih => simp only [run, step_addC, ih]

end ZV.C17
