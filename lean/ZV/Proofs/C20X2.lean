import ZV.Proofs.C20X
/-! C20, x509 level: conservativity of `parsePublicKey`, `parseGeneralNames` and the element functions. -/
namespace ZV.C20.X
open ZV.C18

theorem unm_perm (s : Schema) (p : Params) (bs : Bytes) (r : Val × Bytes) (h : unmarshal false s p bs = .ok r) :
    unmarshal true s p bs = .ok r := (perm_both s).1 p bs r h

theorem parsePublicKeyRSA_perm (bs : Bytes) (k : Key) (h : parsePublicKeyRSA false bs = .ok k) :
    parsePublicKeyRSA true bs = .ok k := by
  unfold parsePublicKeyRSA at h ⊢
  cases hu : unmarshal false pkcs1Schema {} bs with
  | ok x =>
    obtain ⟨v, rest⟩ := x
    rw [unm_perm _ _ _ _ hu]
    simp only [hu] at h ⊢
    split_ifs at h ⊢ with hr
    split at h
    · rename_i n e
      by_cases hn : n ≤ 0
      · simp [hn] at h
      · by_cases he : e ≤ 0
        · simp [hn, he] at h
        · simpa [hn, he] using h
    · simp at h
  | err => simp [hu] at h
  | panic => simp [hu] at h

theorem parsePublicKeyDSA_perm (bs ps : Bytes) (k : Key) (h : parsePublicKeyDSA false bs ps = .ok k) :
    parsePublicKeyDSA true bs ps = .ok k := by
  unfold parsePublicKeyDSA at h ⊢
  cases hu : unmarshal false .bigint {} bs with
  | ok x =>
    obtain ⟨v, rest⟩ := x
    rw [unm_perm _ _ _ _ hu]
    simp only [hu] at h ⊢
    split_ifs at h ⊢ with hr
    cases hp : unmarshal false dsaParamsSchema {} ps with
    | ok y =>
      obtain ⟨pv, rest2⟩ := y
      rw [unm_perm _ _ _ _ hp]
      simpa [hp] using h
    | err => simp [hp] at h
    | panic => simp [hp] at h
  | err => simp [hu] at h
  | panic => simp [hu] at h

theorem parsePublicKeyECDSA_perm (ecOk : Nat → Bytes → Bool) (bs ps : Bytes) (k : Key)
    (h : parsePublicKeyECDSA ecOk false bs ps = .ok k) : parsePublicKeyECDSA ecOk true bs ps = .ok k := by
  unfold parsePublicKeyECDSA at h ⊢
  cases hu : unmarshal false .oid {} ps with
  | ok x =>
    obtain ⟨v, rest⟩ := x
    rw [unm_perm _ _ _ _ hu]
    simpa [hu] using h
  | err => simp [hu] at h
  | panic => simp [hu] at h

theorem parsePublicKey_perm (ecOk : Nat → Bytes → Bool) (algo : Nat) (bs ps : Bytes) (k : Key)
    (h : parsePublicKey ecOk false algo bs ps = .ok k) : parsePublicKey ecOk true algo bs ps = .ok k := by
  unfold parsePublicKey at h ⊢
  by_cases h1 : algo = 1
  · simp only [if_pos h1] at h ⊢; exact parsePublicKeyRSA_perm _ _ h
  simp only [if_neg h1] at h ⊢
  by_cases h2 : algo = 2
  · simp only [if_pos h2] at h ⊢; exact parsePublicKeyDSA_perm _ _ _ h
  simp only [if_neg h2] at h ⊢
  by_cases h3 : algo = 3
  · simp only [if_pos h3] at h ⊢; exact parsePublicKeyECDSA_perm _ _ _ _ h
  simp only [if_neg h3] at h ⊢
  exact h

theorem gnElem_perm (v : Val) (tag : Nat) (inner full : Bytes) (acc r : GN)
    (h : gnElem false v tag inner full acc = (r, true)) : gnElem true v tag inner full acc = (r, true) := by
  unfold gnElem at h ⊢
  by_cases h0 : tag = 0
  · simp only [if_pos h0] at h ⊢
    cases hu : un false otherNameSchema { tag := some 0 } full with
    | ok o => rw [un_perm _ _ _ _ hu]; simpa [hu] using h
    | err => simp [hu] at h
    | panic => simp [hu] at h
  simp only [if_neg h0] at h ⊢
  by_cases h1 : tag = 1
  · simpa only [if_pos h1] using h
  simp only [if_neg h1] at h ⊢
  by_cases h2 : tag = 2
  · simpa only [if_pos h2] using h
  simp only [if_neg h2] at h ⊢
  by_cases h4 : tag = 4
  · simp only [if_pos h4] at h ⊢
    cases hu : unRDN false inner with
    | ok o => rw [unRDN_perm _ _ hu]; simpa [hu] using h
    | err => simp [hu] at h
    | panic => simp [hu] at h
  simp only [if_neg h4] at h ⊢
  by_cases h5 : tag = 5
  · simp only [if_pos h5] at h ⊢
    cases hu : un false ediSchema { tag := some 5 } full with
    | ok o => rw [un_perm _ _ _ _ hu]; simpa [hu] using h
    | err => simp [hu] at h
    | panic => simp [hu] at h
  simp only [if_neg h5] at h ⊢
  by_cases h6 : tag = 6
  · simpa only [if_pos h6] using h
  simp only [if_neg h6] at h ⊢
  by_cases h7 : tag = 7
  · simp only [if_pos h7] at h ⊢
    by_cases hl : inner.length = 4 ∨ inner.length = 16
    · simpa only [if_pos hl] using h
    · simp [if_neg hl] at h
  simp only [if_neg h7] at h ⊢
  by_cases h8 : tag = 8
  · simp only [if_pos h8] at h ⊢
    cases hu : un false .oid { tag := some 8 } full with
    | ok o => rw [un_perm _ _ _ _ hu]; simpa [hu] using h
    | err => simp [hu] at h
    | panic => simp [hu] at h
  simpa only [if_neg h8] using h

theorem gnLoop_perm (f : Nat) (bs : Bytes) (acc r : GN) (h : gnLoop false f bs acc = (r, true)) :
    gnLoop true f bs acc = (r, true) := by
  induction f generalizing bs acc with
  | zero =>
    cases bs with
    | nil => simpa [gnLoop] using h
    | cons b t => simp [gnLoop] at h
  | succ n ih =>
    cases bs with
    | nil => simpa [gnLoop] using h
    | cons b t =>
      simp only [gnLoop] at h ⊢
      cases hu : unmarshal false .raw {} (b :: t) with
      | ok x =>
        obtain ⟨v, rest⟩ := x
        rw [unm_perm _ _ _ _ hu]
        simp only [hu] at h ⊢
        cases v with
        | raw cls tag k inner full =>
          simp only at h ⊢
          cases he : gnElem false (.raw cls tag k inner full) tag inner full acc with
          | mk a c =>
            cases c with
            | false => simp [he] at h
            | true =>
              rw [gnElem_perm _ _ _ _ _ _ he]
              simp only [he] at h ⊢
              exact ih _ _ h
        | _ => simp at h
      | err => simp [hu] at h
      | panic => simp [hu] at h

theorem parseGeneralNames_perm (value : Bytes) (r : GN) (h : parseGeneralNames false value = (r, true)) :
    parseGeneralNames true value = (r, true) := by
  unfold parseGeneralNames at h ⊢
  cases hu : unmarshal false .raw {} value with
  | ok x =>
    obtain ⟨v, rest⟩ := x
    rw [unm_perm _ _ _ _ hu]
    simp only [hu] at h ⊢
    cases v with
    | raw cls tag k inner full =>
      simp only at h ⊢
      split_ifs at h ⊢
      · simp at h
      · exact gnLoop_perm _ _ _ _ h
    | _ => simp at h
  | err => simp [hu] at h
  | panic => simp [hu] at h

theorem chainLoop_perm {σ : Type} (f g : Val → σ → σ × Bool) (hfg : ∀ v a r, f v a = (r, true) → g v a = (r, true))
    (c : Val) (acc r : σ) (h : chainLoop f c acc = (r, true)) : chainLoop g c acc = (r, true) := by
  induction c generalizing acc with
  | vcons a rest _ ihr =>
    simp only [chainLoop] at h ⊢
    cases he : f a acc with
    | mk x b =>
      cases b with
      | false => simp [he] at h
      | true =>
        rw [hfg _ _ _ he]
        simp only [he] at h ⊢
        exact ihr _ h
  | _ => simpa [chainLoop] using h

end ZV.C20.X
