import ZV.Model.C10
/-!
  The invariant of the PKI graph (definitions only; preservation is proved in `ZV.Proofs.C10`).
  `WF V g` is the history-independent part (what the chain walk of C11 relies on);
  `Hist H g` ties nodes, edges and root flags to the history `H` of operations.
-/
namespace ZV.C10

/-- `fp ∈ n.parentsBySubjectAndKey[k]` -/
def pmem (n : Node) (k : NodeKey) (fp : Nat) : Prop := ∃ l, (k, l) ∈ n.parents ∧ fp ∈ l
/-- `fp ∈ n.childrenBySubjectAndKey[k]` -/
def cmem (n : Node) (k : NodeKey) (fp : Nat) : Prop := ∃ l, (k, l) ∈ n.children ∧ fp ∈ l
/-- `fp ∈ g.missingIssuerNode[name]` -/
def mmem (g : Graph) (name fp : Nat) : Prop := ∃ l, (name, l) ∈ g.missing ∧ fp ∈ l

structure WF (V : Ver) (g : Graph) : Prop where
  /-- one node per (subject, SPKI) -/
  nodesNodup : (g.nodes.map (·.key)).Nodup
  /-- one edge per certificate fingerprint -/
  edgesNodup : (g.edges.map (·.cert.fp)).Nodup
  /-- the head of an edge is the node of its certificate's (subject, SPKI) -/
  child : ∀ e ∈ g.edges, e.child = e.cert.sk ∧ ∃ n ∈ g.nodes, n.key = e.child
  /-- an issuer is a node of the graph with the certificate's issuer name whose key verifies it -/
  issuerSome : ∀ e ∈ g.edges, ∀ k, e.issuer = some k →
      k.1 = e.cert.iss ∧ V k e.cert.fp = true ∧ ∃ n ∈ g.nodes, n.key = k
  /-- an edge has no issuer only if no node with the issuer name verifies it -/
  issuerNone : ∀ e ∈ g.edges, e.issuer = none →
      ∀ n ∈ g.nodes, n.key.1 = e.cert.iss → V n.key e.cert.fp = false
  /-- parentsBySubjectAndKey agrees with issuer/child -/
  parents : ∀ n ∈ g.nodes, ∀ k fp, pmem n k fp ↔
      ∃ e ∈ g.edges, e.cert.fp = fp ∧ e.child = n.key ∧ e.issuer = some k
  /-- childrenBySubjectAndKey agrees with issuer/child -/
  children : ∀ n ∈ g.nodes, ∀ k fp, cmem n k fp ↔
      ∃ e ∈ g.edges, e.cert.fp = fp ∧ e.issuer = some n.key ∧ e.child = k
  /-- missingIssuerNode[name] = the edges without issuer whose issuer name is `name` -/
  missing : ∀ name fp, mmem g name fp ↔
      ∃ e ∈ g.edges, e.cert.fp = fp ∧ e.issuer = none ∧ e.cert.iss = name

/-- the adjacency association lists have no repeated key and no repeated fingerprint
    (what a Go map of sets gives for free; needed only for `walk_nodup`) -/
structure AdjNodup (g : Graph) : Prop where
  keys : ∀ n ∈ g.nodes, (n.parents.map (·.1)).Nodup
  sets : ∀ n ∈ g.nodes, ∀ grp ∈ n.parents, grp.2.Nodup

structure Hist (H : List Op) (g : Graph) : Prop where
  nodes : ∀ k, (∃ n ∈ g.nodes, n.key = k) ↔ ∃ op ∈ H, op.cert.sk = k
  edges : ∀ fp, (∃ e ∈ g.edges, e.cert.fp = fp) ↔ ∃ op ∈ H, op.cert.fp = fp
  certs : ∀ e ∈ g.edges, ∃ op ∈ H, op.cert = e.cert
  roots : ∀ e ∈ g.edges, e.root = true ↔ ∃ c, Op.root c ∈ H ∧ c.fp = e.cert.fp

end ZV.C10
