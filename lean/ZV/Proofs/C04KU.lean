import ZV.Model.C04
/-! KeyUsage: exhaustive kernel evaluation over the 9-bit domain. -/
namespace ZV.C04
open ZV ZV.Der ZV.C06

set_option maxRecDepth 1000000 in
/-- kernel-evaluated exhaustive check over the whole 9-bit domain -/
theorem keyusage_all_eval :
    (List.range 512).all (fun ku => ku == 0 || decide (parseKeyUsage (buildKeyUsage ku) = .ok ku)) = true := by
  decide

theorem parseKeyUsage_build (ku : Nat) (h0 : ku ≠ 0) (h1 : ku < 512) :
    parseKeyUsage (buildKeyUsage ku) = .ok ku := by
  have h := keyusage_all_eval
  rw [List.all_eq_true] at h
  have := h ku (List.mem_range.mpr h1)
  simp [h0] at this
  exact this

end ZV.C04
