import ZV.Proofs.TlsWire
import ZV.Model.C30
/-! helper lemmas for C30: laws of the few C30-specific primitives and of the semantic (extension) layers -/
namespace ZV.C30
open ZV.TlsWire

theorem nothing_lawful {α} (d : α) : Lawful (nothing d) (fun a => a = d) := by
  refine ⟨fun a bs tl hD h => ?_⟩
  simp only [nothing] at h ⊢
  cases h
  simp [hD]

/-- `nothing` writes no bytes, so it has no strict prefixes -/
theorem nothing_noPrefix {α} (d : α) : NoPrefix (nothing d) (fun a => a = d) := by
  refine ⟨fun a bs p _ h hp hne => ?_⟩
  simp only [nothing] at h
  cases h
  exact absurd (List.prefix_nil.mp hp) hne

theorem fixed4_lawful (t : Nat) : MLawful (fixed4 t) (fun _ => True) := by
  refine ⟨fun a bs _ h => ?_⟩
  simp only [fixed4] at h ⊢
  cases h
  simp

theorem fixed4_noPrefix (t : Nat) : MNoPrefix (fixed4 t) (fun _ => True) := by
  refine ⟨fun a bs p _ h hp hne => ?_⟩
  have hl := prefix_strict_length hp hne
  simp only [fixed4] at h ⊢
  cases h
  simp at hl
  have : p.length ≠ 4 := by omega
  simp [this]

theorem nonEmpty_iff (b : Bytes) : nonEmpty b = true ↔ b ≠ [] := by
  cases b <;> simp [nonEmpty]

theorem nonEmptyL_iff {α} (l : List α) : nonEmptyL l = true ↔ l ≠ [] := by
  cases l <;> simp [nonEmptyL]


/-! ### semantic layer: folding the parser's `switch` over the entries the marshaller writes -/

theorem applyExts_append {σ} (f : Ext → Bool → σ → Option σ) (a b : List Ext) (m : σ)
    (hf : ∀ e ∈ a, ∀ b1 b2 s, f e b1 s = f e b2 s) :
    applyExts f (a ++ b) m = (applyExts f a m).bind (applyExts f b) := by
  induction a generalizing m with
  | nil => simp [applyExts]
  | cons e a ih =>
    simp only [List.cons_append, applyExts]
    rw [hf e (by simp) (a ++ b).isEmpty a.isEmpty m]
    cases f e a.isEmpty m with
    | none => rfl
    | some m' => exact ih m' (fun e' he' => hf e' (by simp [he']))

theorem catOpts_cons {o : Option (List Ext)} {os : List (Option (List Ext))} {es : List Ext}
    (h : catOpts (o :: os) = some es) : ∃ a r, o = some a ∧ catOpts os = some r ∧ es = a ++ r := by
  cases o with
  | none => simp [catOpts] at h
  | some a =>
    simp only [catOpts] at h
    cases hr : catOpts os with
    | none => simp [hr] at h
    | some r =>
      simp [hr] at h
      exact ⟨a, r, rfl, rfl, h.symm⟩

theorem catOpts_nil {es : List Ext} (h : catOpts [] = some es) : es = [] := by
  simp [catOpts] at h
  exact h

theorem opt_false {t : Nat} {d : Option Bytes} : opt false t d = some [] := rfl

theorem opt_true_inv {t : Nat} {d : Option Bytes} {a : List Ext} (h : opt true t d = some a) :
    ∃ b, d = some b ∧ a = [(t, b)] := by
  cases d with
  | none => simp [opt] at h
  | some b =>
    simp [opt] at h
    exact ⟨b, rfl, h.symm⟩

/-- one step of a peeled chain: either the option is switched off (no entries, state unchanged) or it
    contributes exactly one entry on which the parser arm yields `s'` -/
theorem applyExts_opt {σ} (f : Ext → Bool → σ → Option σ) (c : Bool) (t : Nat) (d : Option Bytes)
    (a : List Ext) (s s' : σ) (h : opt c t d = some a)
    (hoff : c = false → s' = s)
    (hon : c = true → ∀ b, d = some b → ∀ fl, f (t, b) fl s = some s') :
    applyExts f a s = some s' := by
  cases c with
  | false =>
    simp [opt] at h
    subst h
    simp [applyExts, hoff rfl]
  | true =>
    obtain ⟨b, hb, rfl⟩ := opt_true_inv h
    simp [applyExts, hon rfl b hb]

theorem extBlock_lawful : Lawful extBlock (fun _ => True) := by
  have := lp_lawful 2 (many_lawful (pair_lawful (uN_lawful 2) (opq_lawful 2))
    (pair_nonEmpty_left (uN_nonEmpty (by decide))))
  exact ⟨fun a bs tl _ h => this.rt a bs tl (fun _ _ => ⟨trivial, trivial⟩) h⟩

theorem extBlock_noPrefix : NoPrefix extBlock (fun _ => True) := lp_noPrefix _ 2

theorem alpnOne_lawful : MLawful alpnOne (fun b => b ≠ []) := by
  have := complete_lawful (lp_lawful 2 (complete_lawful (guard_lawful nonEmpty (opq_lawful 1))))
  exact ⟨fun a bs hD h => this.rt a bs ⟨trivial, (nonEmpty_iff a).mpr hD⟩ h⟩


theorem opt_mem {c : Bool} {t : Nat} {d : Option Bytes} {a : List Ext} (h : opt c t d = some a) :
    ∀ e ∈ a, e.1 = t := by
  cases c with
  | false => simp [opt] at h; subst h; simp
  | true => obtain ⟨b, _, rfl⟩ := opt_true_inv h; simp

theorem chain_step {σ} (f : Ext → Bool → σ → Option σ) (a r : List Ext) (s s' sf : σ)
    (hfl : ∀ e ∈ a, ∀ b1 b2 s, f e b1 s = f e b2 s)
    (h1 : applyExts f a s = some s') (h2 : applyExts f r s' = some sf) :
    applyExts f (a ++ r) s = some sf := by
  rw [applyExts_append f a r s hfl, h1]
  exact h2

theorem listU16_lawful : MLawful listU16 (fun l => l ≠ []) := by
  have := complete_lawful (lp_lawful 2 (mguard_lawful nonEmptyL (many_lawful (uN_lawful 2) (uN_nonEmpty (by decide)))))
  exact ⟨fun a bs hD h => this.rt a bs ⟨fun _ _ => trivial, (nonEmptyL_iff a).mpr hD⟩ h⟩

theorem sctListF_lawful : MLawful sctListF (fun l => l ≠ [] ∧ ∀ x ∈ l, x ≠ []) := by
  have := complete_lawful (lp_lawful 2 (mguard_lawful nonEmptyL
    (many_lawful (guard_lawful nonEmpty (opq_lawful 2)) (guard_nonEmpty _ (opq_nonEmpty (by decide))))))
  exact ⟨fun a bs hD h => this.rt a bs
    ⟨fun x hx => ⟨trivial, (nonEmpty_iff x).mpr (hD.2 x hx)⟩, (nonEmptyL_iff a).mpr hD.1⟩ h⟩

theorem caList_lawful : MLawful caList (fun l => l ≠ [] ∧ ∀ x ∈ l, x ≠ []) := sctListF_lawful

theorem alpnList_lawful : MLawful alpnList (fun l => l ≠ [] ∧ ∀ x ∈ l, x ≠ []) := by
  have := complete_lawful (lp_lawful 2 (mguard_lawful nonEmptyL
    (many_lawful (guard_lawful nonEmpty (opq_lawful 1)) (guard_nonEmpty _ (opq_nonEmpty (by decide))))))
  exact ⟨fun a bs hD h => this.rt a bs
    ⟨fun x hx => ⟨trivial, (nonEmpty_iff x).mpr (hD.2 x hx)⟩, (nonEmptyL_iff a).mpr hD.1⟩ h⟩

/-- certificateRequestMsgTLS13: the parser's fold over the entries the marshaller writes gives the value back -/
theorem certReq13_sem (m : CertReq13) (hv : ∀ ca ∈ m.cas, ca ≠ []) (es : List Ext) (h : certReq13Exts m = some es) :
    applyExts certReq13Apply es ⟨false, false, [], [], []⟩ = some m := by
  simp only [certReq13Exts] at h
  obtain ⟨a1, r1, h1, g1, rfl⟩ := catOpts_cons h
  obtain ⟨a2, r2, h2, g2, rfl⟩ := catOpts_cons g1
  obtain ⟨a3, r3, h3, g3, rfl⟩ := catOpts_cons g2
  obtain ⟨a4, r4, h4, g4, rfl⟩ := catOpts_cons g3
  obtain ⟨a5, r5, h5, g5, rfl⟩ := catOpts_cons g4
  have := catOpts_nil g5
  subst this
  clear h g1 g2 g3 g4 g5
  have fl : ∀ (a : List Ext), ∀ e ∈ a, ∀ b1 b2 s, certReq13Apply e b1 s = certReq13Apply e b2 s :=
    fun _ _ _ _ _ _ => rfl
  obtain ⟨o, sc, sa, sac, cas⟩ := m
  simp only at h1 h2 h3 h4 h5 hv
  refine chain_step _ _ _ _ ⟨o, false, [], [], []⟩ _ (fl _)
    (applyExts_opt _ _ _ _ _ _ _ h1 (fun hc => by subst hc; rfl) (fun hc b hb _ => by
      cases hb; subst hc; simp [certReq13Apply])) ?_
  refine chain_step _ _ _ _ ⟨o, sc, [], [], []⟩ _ (fl _)
    (applyExts_opt _ _ _ _ _ _ _ h2 (fun hc => by subst hc; rfl) (fun hc b hb _ => by
      cases hb; subst hc; simp [certReq13Apply])) ?_
  refine chain_step _ _ _ _ ⟨o, sc, sa, [], []⟩ _ (fl _)
    (applyExts_opt _ _ _ _ _ _ _ h3 (fun hc => by
        cases sa with
        | nil => rfl
        | cons x t => simp [nonEmptyL] at hc) (fun hc b hb _ => by
      have := listU16_lawful.rt sa b ((nonEmptyL_iff sa).mp hc) hb
      simp [certReq13Apply, this])) ?_
  refine chain_step _ _ _ _ ⟨o, sc, sa, sac, []⟩ _ (fl _)
    (applyExts_opt _ _ _ _ _ _ _ h4 (fun hc => by
        cases sac with
        | nil => rfl
        | cons x t => simp [nonEmptyL] at hc) (fun hc b hb _ => by
      have := listU16_lawful.rt sac b ((nonEmptyL_iff sac).mp hc) hb
      simp [certReq13Apply, this])) ?_
  simp only [List.append_nil]
  exact applyExts_opt _ _ _ _ _ _ _ h5 (fun hc => by
        cases cas with
        | nil => rfl
        | cons x t => simp [nonEmptyL] at hc) (fun hc b hb _ => by
      have := caList_lawful.rt cas b ⟨(nonEmptyL_iff cas).mp hc, hv⟩ hb
      simp [certReq13Apply, this])


/-! ### TLS 1.3 certificate entries -/

/-- domain of `marshalCertificate`/`unmarshalCertificate`: staple and SCT list are nil or non-empty (an empty one is
    written but refused by the parser), and they need a leaf certificate to hang on -/
structure ValidCert (c : Cert) : Prop where
  noLeaf : c.certs = [] → c.ocsp = none ∧ c.scts = none
  ocsp : ∀ o, c.ocsp = some o → o ≠ []
  scts : ∀ l, c.scts = some l → l ≠ [] ∧ ∀ x ∈ l, x ≠ []

theorem ocspExt_lawful : MLawful ocspExt (fun x => x.2 ≠ []) := by
  have := complete_lawful (pair_lawful (constC_lawful [1]) (guard_lawful nonEmpty (opq_lawful 3)))
  exact ⟨fun a bs hD h => this.rt a bs ⟨trivial, trivial, (nonEmpty_iff a.2).mpr hD⟩ h⟩

theorem certEntries_lawful : Lawful certEntries (fun _ => True) := by
  have := lp_lawful 3 (many_lawful (pair_lawful (opq_lawful 3) extBlock_lawful) (pair_nonEmpty_left (opq_nonEmpty (by decide))))
  exact ⟨fun a bs tl _ h => this.rt a bs tl (fun _ _ => ⟨trivial, trivial⟩) h⟩

theorem certLeaf_sem (c : Cert) (hv : ValidCert c) (ex : List Ext) (h : certLeafExts c = some ex) :
    applyExts certApply ex ⟨[], none, none⟩ = some ⟨[], c.ocsp, c.scts⟩ := by
  simp only [certLeafExts] at h
  obtain ⟨a1, r1, h1, g1, rfl⟩ := catOpts_cons h
  obtain ⟨a2, r2, h2, g2, rfl⟩ := catOpts_cons g1
  have := catOpts_nil g2
  subst this
  clear h g1 g2
  have fl : ∀ (a : List Ext), ∀ e ∈ a, ∀ b1 b2 s, certApply e b1 s = certApply e b2 s := fun _ _ _ _ _ _ => rfl
  obtain ⟨certs, ocsp, scts⟩ := c
  have hvo := hv.ocsp
  have hvs := hv.scts
  simp only at h1 h2 hvo hvs
  refine chain_step _ _ _ _ ⟨[], ocsp, none⟩ _ (fl _)
    (applyExts_opt _ _ _ _ _ _ _ h1 (fun hc => by cases ocsp <;> simp_all) (fun hc b hb _ => by
      cases ocsp with
      | none => simp at hc
      | some o =>
        simp only at hb
        have := ocspExt_lawful.rt ((), o) b (hvo o rfl) hb
        simp [certApply, this])) ?_
  simp only [List.append_nil]
  exact applyExts_opt _ _ _ _ _ _ _ h2 (fun hc => by cases scts <;> simp_all) (fun hc b hb _ => by
      cases scts with
      | none => simp at hc
      | some l =>
        simp only at hb
        have := sctListF_lawful.rt l b (hvs l rfl) hb
        simp [certApply, this])

theorem cert_sem (c : Cert) (hv : ValidCert c) (es : List (Bytes × List Ext)) (h : certToEntries c = some es) :
    certFromEntries es = some c := by
  obtain ⟨certs, ocsp, scts⟩ := c
  cases certs with
  | nil =>
    have := hv.noLeaf rfl
    simp only at this
    obtain ⟨rfl, rfl⟩ := this
    simp [certToEntries] at h
    subst h
    rfl
  | cons leaf rest =>
    simp only [certToEntries] at h
    cases hex : certLeafExts ⟨leaf :: rest, ocsp, scts⟩ with
    | none => simp [hex] at h
    | some ex =>
      simp [hex] at h
      subst h
      simp only [certFromEntries]
      rw [certLeaf_sem _ hv ex hex]
      simp [List.map_map, Function.comp_def]

theorem certF_lawful : Lawful certF ValidCert := by
  refine ⟨fun c bs tl hv h => ?_⟩
  simp only [certF] at h ⊢
  cases hes : certToEntries c with
  | none => simp [hes] at h
  | some es =>
    simp only [hes] at h
    rw [certEntries_lawful.rt es bs tl trivial h]
    simp [cert_sem c hv es hes]

theorem certF_noPrefix : NoPrefix certF (fun _ => True) := by
  refine ⟨fun c bs p _ h hp hne => ?_⟩
  simp only [certF] at h ⊢
  cases hes : certToEntries c with
  | none => simp [hes] at h
  | some es =>
    simp only [hes] at h
    have : NoPrefix certEntries (fun _ => True) := lp_noPrefix _ 3
    rw [this.np es bs p trivial h hp hne]


/-! ### serverHelloMsg: semantic layer -/

/-- the known extensions: the parser's fold over the entries the marshaller writes restores every field -/
theorem sh_sem_known (m : ServerHello)
    (hreneg : m.secureRenegotiationSupported = false → m.secureRenegotiation = [])
    (hscts : ∀ x ∈ m.scts, x ≠ [])
    (hshare : m.serverShareGroup = 0 → m.serverShareData = [])
    (hsel : m.selectedIdentityPresent = false → m.selectedIdentity = 0)
    (es : List Ext) (h : shExts m = some es) :
    applyExts shApply es
      { ServerHello.empty with vers := m.vers, random := m.random, sessionId := m.sessionId,
                               cipherSuite := m.cipherSuite, compressionMethod := m.compressionMethod }
      = some { m with unknownExtensions := [] } := by
  simp only [shExts] at h
  obtain ⟨a1, r1, h1, g1, rfl⟩ := catOpts_cons h
  obtain ⟨a2, r2, h2, g2, rfl⟩ := catOpts_cons g1
  obtain ⟨a3, r3, h3, g3, rfl⟩ := catOpts_cons g2
  obtain ⟨a4, r4, h4, g4, rfl⟩ := catOpts_cons g3
  obtain ⟨a5, r5, h5, g5, rfl⟩ := catOpts_cons g4
  obtain ⟨a6, r6, h6, g6, rfl⟩ := catOpts_cons g5
  obtain ⟨a7, r7, h7, g7, rfl⟩ := catOpts_cons g6
  obtain ⟨a8, r8, h8, g8, rfl⟩ := catOpts_cons g7
  obtain ⟨a9, r9, h9, g9, rfl⟩ := catOpts_cons g8
  obtain ⟨a10, r10, h10, g10, rfl⟩ := catOpts_cons g9
  obtain ⟨a11, r11, h11, g11, rfl⟩ := catOpts_cons g10
  obtain ⟨a12, r12, h12, g12, rfl⟩ := catOpts_cons g11
  have := catOpts_nil g12
  subst this
  clear h g1 g2 g3 g4 g5 g6 g7 g8 g9 g10 g11 g12
  have fl : ∀ (a : List Ext), ∀ e ∈ a, ∀ b1 b2 s, shApply e b1 s = shApply e b2 s := fun _ _ _ _ _ _ => rfl
  obtain ⟨v, r, sid, cs, cm, o, tk, sr, reneg, ems, alpn, scts, sv, sg, sd, sip, si, pts, ck, selg, unk⟩ := m
  simp only at hreneg hscts hshare hsel h1 h2 h3 h4 h5 h6 h7 h8 h9 h10 h11 h12
  refine chain_step _ _ _ _ ⟨v, r, sid, cs, cm, o, false, false, [], false, [], [], 0, 0, [], false, 0, [], [], 0, []⟩ _ (fl _)
    (applyExts_opt _ _ _ _ _ _ _ h1 (fun hc => ?_) (fun hc b hb _ => ?_)) ?_
  · subst hc
    rfl
  · cases hb
    subst hc
    simp [ServerHello.empty, shApply]
  refine chain_step _ _ _ _ ⟨v, r, sid, cs, cm, o, tk, false, [], false, [], [], 0, 0, [], false, 0, [], [], 0, []⟩ _ (fl _)
    (applyExts_opt _ _ _ _ _ _ _ h2 (fun hc => ?_) (fun hc b hb _ => ?_)) ?_
  · subst hc
    rfl
  · cases hb
    subst hc
    simp [ServerHello.empty, shApply]
  refine chain_step _ _ _ _ ⟨v, r, sid, cs, cm, o, tk, sr, reneg, false, [], [], 0, 0, [], false, 0, [], [], 0, []⟩ _ (fl _)
    (applyExts_opt _ _ _ _ _ _ _ h3 (fun hc => ?_) (fun hc b hb _ => ?_)) ?_
  · subst hc
    rw [hreneg rfl]
  · have := (complete_lawful (opq_lawful 1)).rt reneg b trivial hb
    subst hc
    simp [ServerHello.empty, shApply, this]
  refine chain_step _ _ _ _ ⟨v, r, sid, cs, cm, o, tk, sr, reneg, false, alpn, [], 0, 0, [], false, 0, [], [], 0, []⟩ _ (fl _)
    (applyExts_opt _ _ _ _ _ _ _ h4 (fun hc => ?_) (fun hc b hb _ => ?_)) ?_
  · cases alpn with
    | nil => rfl
    | cons x t => simp [nonEmpty] at hc
  · have := alpnOne_lawful.rt alpn b ((nonEmpty_iff alpn).mp hc) hb
    simp [ServerHello.empty, shApply, this]
  refine chain_step _ _ _ _ ⟨v, r, sid, cs, cm, o, tk, sr, reneg, false, alpn, scts, 0, 0, [], false, 0, [], [], 0, []⟩ _ (fl _)
    (applyExts_opt _ _ _ _ _ _ _ h5 (fun hc => ?_) (fun hc b hb _ => ?_)) ?_
  · cases scts with
    | nil => rfl
    | cons x t => simp [nonEmptyL] at hc
  · have := sctListF_lawful.rt scts b ⟨(nonEmptyL_iff scts).mp hc, hscts⟩ hb
    simp [ServerHello.empty, shApply, this]
  refine chain_step _ _ _ _ ⟨v, r, sid, cs, cm, o, tk, sr, reneg, false, alpn, scts, sv, 0, [], false, 0, [], [], 0, []⟩ _ (fl _)
    (applyExts_opt _ _ _ _ _ _ _ h6 (fun hc => ?_) (fun hc b hb _ => ?_)) ?_
  · simp at hc
    subst hc
    rfl
  · have := (complete_lawful (uN_lawful 2)).rt sv b trivial hb
    simp [ServerHello.empty, shApply, this]
  refine chain_step _ _ _ _ ⟨v, r, sid, cs, cm, o, tk, sr, reneg, false, alpn, scts, sv, sg, sd, false, 0, [], [], 0, []⟩ _ (fl _)
    (applyExts_opt _ _ _ _ _ _ _ h7 (fun hc => ?_) (fun hc b hb _ => ?_)) ?_
  · simp at hc
    subst hc
    rw [hshare rfl]
  · have := (complete_lawful (pair_lawful (uN_lawful 2) (opq_lawful 2))).rt (sg, sd) b ⟨trivial, trivial⟩ hb
    have hl : b.length ≠ 2 := by
      obtain ⟨p, q, hp, hq, rfl⟩ := pair_ser_inv hb
      have h1 := uN_ser_length hp
      have h2 := (opq_ser_length hq).1
      simp only [List.length_append]
      omega
    simp [ServerHello.empty, shApply, this, hl]
  refine chain_step _ _ _ _ ⟨v, r, sid, cs, cm, o, tk, sr, reneg, false, alpn, scts, sv, sg, sd, sip, si, [], [], 0, []⟩ _ (fl _)
    (applyExts_opt _ _ _ _ _ _ _ h8 (fun hc => ?_) (fun hc b hb _ => ?_)) ?_
  · subst hc
    rw [hsel rfl]
  · have := (complete_lawful (uN_lawful 2)).rt si b trivial hb
    subst hc
    simp [ServerHello.empty, shApply, this]
  refine chain_step _ _ _ _ ⟨v, r, sid, cs, cm, o, tk, sr, reneg, false, alpn, scts, sv, sg, sd, sip, si, [], ck, 0, []⟩ _ (fl _)
    (applyExts_opt _ _ _ _ _ _ _ h9 (fun hc => ?_) (fun hc b hb _ => ?_)) ?_
  · cases ck with
    | nil => rfl
    | cons x t => simp [nonEmpty] at hc
  · have := (complete_lawful (guard_lawful nonEmpty (opq_lawful 2))).rt ck b ⟨trivial, hc⟩ hb
    simp [ServerHello.empty, shApply, this]
  refine chain_step _ _ _ _ ⟨v, r, sid, cs, cm, o, tk, sr, reneg, false, alpn, scts, sv, sg, sd, sip, si, [], ck, selg, []⟩ _ (fl _)
    (applyExts_opt _ _ _ _ _ _ _ h10 (fun hc => ?_) (fun hc b hb _ => ?_)) ?_
  · simp at hc
    subst hc
    rfl
  · have := (complete_lawful (uN_lawful 2)).rt selg b trivial hb
    have hl : b.length = 2 := uN_ser_length hb
    simp [ServerHello.empty, shApply, this, hl]
  refine chain_step _ _ _ _ ⟨v, r, sid, cs, cm, o, tk, sr, reneg, false, alpn, scts, sv, sg, sd, sip, si, pts, ck, selg, []⟩ _ (fl _)
    (applyExts_opt _ _ _ _ _ _ _ h11 (fun hc => ?_) (fun hc b hb _ => ?_)) ?_
  · cases pts with
    | nil => rfl
    | cons x t => simp [nonEmpty] at hc
  · have := (complete_lawful (guard_lawful nonEmpty (opq_lawful 1))).rt pts b ⟨trivial, hc⟩ hb
    simp [ServerHello.empty, shApply, this]
  simp only [List.append_nil]
  refine applyExts_opt _ _ _ _ _ _ (⟨v, r, sid, cs, cm, o, tk, sr, reneg, ems, alpn, scts, sv, sg, sd, sip, si, pts, ck, selg, []⟩ : ServerHello) h12 (fun hc => ?_) (fun hc b hb _ => ?_)
  · subst hc
    rfl
  · cases hb
    subst hc
    simp [ServerHello.empty, shApply]


/-- an unknown extension as `serverHelloMsg.unmarshal` records it (and as the marshaller writes it back) -/
def encRaw (e : Ext) : Bytes := natBE 2 e.1 ++ natBE 2 e.2.length ++ e.2

def knownSH (t : Nat) : Bool :=
  t == 5 || t == 35 || t == 0xff01 || t == 16 || t == 18 || t == 43 || t == 44 || t == 51 || t == 41 || t == 11 || t == 23

theorem sh_sem_unknown (rs : List Ext) (s : ServerHello) (hu : ∀ e ∈ rs, knownSH e.1 = false) :
    applyExts shApply rs s = some { s with unknownExtensions := s.unknownExtensions ++ rs.map encRaw } := by
  induction rs generalizing s with
  | nil => simp [applyExts]
  | cons e rs ih =>
    have he := hu e (by simp)
    simp [knownSH] at he
    obtain ⟨t, d⟩ := e
    simp only at he
    simp only [applyExts]
    have : shApply (t, d) rs.isEmpty s
        = some { s with unknownExtensions := s.unknownExtensions ++ [natBE 2 t ++ natBE 2 d.length ++ d] } := by
      simp [shApply, he]
    rw [this]
    simp only
    rw [ih _ (fun e' he' => hu e' (by simp [he']))]
    simp [encRaw, List.append_assoc]

theorem serMany_append {α} (f : α → Option Bytes) (a b : List α) (p q : Bytes)
    (ha : serMany f a = some p) (hb : serMany f b = some q) : serMany f (a ++ b) = some (p ++ q) := by
  induction a generalizing p with
  | nil =>
    simp [serMany] at ha
    subst ha
    simpa using hb
  | cons x a ih =>
    simp only [serMany, List.cons_append] at ha ⊢
    cases hx : f x with
    | none => simp [hx] at ha
    | some px =>
      cases hr : serMany f a with
      | none => simp [hx, hr] at ha
      | some pr =>
        simp [hx, hr] at ha
        subst ha
        simp [ih pr hr, List.append_assoc]

theorem serMany_raw (rs : List Ext) (hb : ∀ e ∈ rs, e.1 < 256 ^ 2 ∧ e.2.length < 256 ^ 2) :
    serMany extEntry.ser rs = some (rs.map encRaw).flatten := by
  induction rs with
  | nil => rfl
  | cons e rs ih =>
    have he := hb e (by simp)
    simp only [serMany, ih (fun e' he' => hb e' (by simp [he']))]
    have : extEntry.ser e = some (encRaw e) := by
      simp [extEntry, pair, uN, opq, he.1, he.2, encRaw, List.append_assoc]
    simp [this]

theorem serMany_nil_of_nonEmpty {α} (f : α → Option Bytes) (l : List α) (hne : ∀ a bs, f a = some bs → bs ≠ [])
    (h : serMany f l = some []) : l = [] := by
  cases l with
  | nil => rfl
  | cons x l =>
    simp only [serMany] at h
    cases hx : f x with
    | none => simp [hx] at h
    | some px =>
      cases hr : serMany f l with
      | none => simp [hx, hr] at h
      | some pr =>
        simp [hx, hr] at h
        exact absurd h.1 (hne x px hx)

theorem extEntry_nonEmpty : NonEmptyEnc extEntry := pair_nonEmpty_left (uN_nonEmpty (by decide))

theorem shFixed_lawful : Lawful shFixed (fun _ => True) := by
  have := pair_lawful (uN_lawful 2) (pair_lawful (bytesN_lawful 32) (pair_lawful (opq_lawful 1)
    (pair_lawful (uN_lawful 2) (uN_lawful 1))))
  exact ⟨fun a bs tl _ h => this.rt a bs tl ⟨trivial, trivial, trivial, trivial, trivial⟩ h⟩

theorem shWire_lawful : MLawful shWire (fun _ => True) := by
  have := hdrSkip_lawful 2 (optTail_lawful shFixed_lawful (complete_lawful extBlock_lawful))
  refine ⟨fun a bs _ h => this.rt a bs ⟨trivial, fun y _ => ⟨trivial, fun q hq => ?_⟩⟩ h⟩
  exact (lp_nonEmpty (m := extList) (k := 2) (by decide)).ne y q hq


/-! ### clientHelloMsg: semantic layer -/

theorem sniF_lawful : MLawful sniF (fun l => l ≠ [] ∧ ∀ x ∈ l, x.2 ≠ []) := by
  have := complete_lawful (lp_lawful 2 (mguard_lawful nonEmptyL
    (many_lawful (pair_lawful (uN_lawful 1) (guard_lawful nonEmpty (opq_lawful 2))) (pair_nonEmpty_left (uN_nonEmpty (by decide))))))
  exact ⟨fun a bs hD h => this.rt a bs
    ⟨fun x hx => ⟨trivial, trivial, (nonEmpty_iff x.2).mpr (hD.2 x hx)⟩, (nonEmptyL_iff a).mpr hD.1⟩ h⟩

theorem statusReqF_lawful : MLawful statusReqF (fun _ => True) := by
  have := complete_lawful (pair_lawful (uN_lawful 1) (pair_lawful (opq_lawful 2) (opq_lawful 2)))
  exact ⟨fun a bs _ h => this.rt a bs ⟨trivial, trivial, trivial⟩ h⟩

theorem versListF_lawful : MLawful versListF (fun l => l ≠ []) := by
  have := complete_lawful (lp_lawful 1 (mguard_lawful nonEmptyL (many_lawful (uN_lawful 2) (uN_nonEmpty (by decide)))))
  exact ⟨fun a bs hD h => this.rt a bs ⟨fun _ _ => trivial, (nonEmptyL_iff a).mpr hD⟩ h⟩

theorem keySharesF_lawful : MLawful keySharesF (fun l => ∀ x ∈ l, x.2 ≠ []) := by
  have := complete_lawful (lp_lawful 2 (many_lawful (pair_lawful (uN_lawful 2) (guard_lawful nonEmpty (opq_lawful 2)))
    (pair_nonEmpty_left (uN_nonEmpty (by decide)))))
  exact ⟨fun a bs hD h => this.rt a bs (fun x hx => ⟨trivial, trivial, (nonEmpty_iff x.2).mpr (hD x hx)⟩) h⟩

theorem pskF_lawful : MLawful pskF
    (fun x => (x.1 ≠ [] ∧ ∀ i ∈ x.1, i.1 ≠ []) ∧ (x.2 ≠ [] ∧ ∀ b ∈ x.2, b ≠ [])) := by
  have := complete_lawful (pair_lawful
    (lp_lawful 2 (mguard_lawful nonEmptyL (many_lawful (pair_lawful (guard_lawful nonEmpty (opq_lawful 2)) (uN_lawful 4))
      (pair_nonEmpty_left (guard_nonEmpty _ (opq_nonEmpty (by decide)))))))
    (lp_lawful 2 (mguard_lawful nonEmptyL (many_lawful (guard_lawful nonEmpty (opq_lawful 1))
      (guard_nonEmpty _ (opq_nonEmpty (by decide)))))))
  exact ⟨fun a bs hD h => this.rt a bs
    ⟨⟨fun i hi => ⟨⟨trivial, (nonEmpty_iff i.1).mpr (hD.1.2 i hi)⟩, trivial⟩, (nonEmptyL_iff a.1).mpr hD.1.1⟩,
     ⟨fun b hb => ⟨trivial, (nonEmpty_iff b).mpr (hD.2.2 b hb)⟩, (nonEmptyL_iff a.2).mpr hD.2.1⟩⟩ h⟩

/-- only the pre_shared_key arm looks at "is this the last extension" -/
theorem chApply_flag (e : Ext) (b1 b2 : Bool) (s : ClientHello) (h : e.1 ≠ 41) :
    chApply e b1 s = chApply e b2 s := by
  simp only [chApply, h, if_false]

/-- the parser's fold over the entries the marshaller writes restores every field of a valid ClientHello -/
theorem ch_sem (m : ClientHello)
    (hscsv : m.cipherSuites.contains 255 = true → m.secureRenegotiationSupported = true)
    (hreneg : m.secureRenegotiationSupported = false → m.secureRenegotiation = [])
    (hdot : m.serverName.getLast? ≠ some 46)
    (htkt : m.ticketSupported = false → m.sessionTicket = [])
    (her0 : m.extendedRandomEnabled = false → m.extendedRandom = [])
    (her1 : m.extendedRandomEnabled = true → m.extendedRandom ≠ [])
    (halpn : ∀ p ∈ m.alpnProtocols, p ≠ [])
    (hks : ∀ k ∈ m.keyShares, k.2 ≠ [])
    (hpsk0 : m.pskIdentities = [] → m.pskBinders = [])
    (hpsk1 : m.pskIdentities ≠ [] → (∀ i ∈ m.pskIdentities, i.1 ≠ []) ∧ m.pskBinders ≠ [] ∧ ∀ b ∈ m.pskBinders, b ≠ [])
    (es : List Ext) (h : chExts m = some es) :
    applyExts chApply es
      { ClientHello.empty with vers := m.vers, random := m.random, sessionId := m.sessionId, cipherSuites := m.cipherSuites,
                               compressionMethods := m.compressionMethods,
                               secureRenegotiationSupported := m.cipherSuites.contains 0x00ff }
      = some m := by
  simp only [chExts] at h
  obtain ⟨a1, r1, h1, g1, rfl⟩ := catOpts_cons h
  obtain ⟨a2, r2, h2, g2, rfl⟩ := catOpts_cons g1
  obtain ⟨a3, r3, h3, g3, rfl⟩ := catOpts_cons g2
  obtain ⟨a4, r4, h4, g4, rfl⟩ := catOpts_cons g3
  obtain ⟨a5, r5, h5, g5, rfl⟩ := catOpts_cons g4
  obtain ⟨a6, r6, h6, g6, rfl⟩ := catOpts_cons g5
  obtain ⟨a7, r7, h7, g7, rfl⟩ := catOpts_cons g6
  obtain ⟨a8, r8, h8, g8, rfl⟩ := catOpts_cons g7
  obtain ⟨a9, r9, h9, g9, rfl⟩ := catOpts_cons g8
  obtain ⟨a10, r10, h10, g10, rfl⟩ := catOpts_cons g9
  obtain ⟨a11, r11, h11, g11, rfl⟩ := catOpts_cons g10
  obtain ⟨a12, r12, h12, g12, rfl⟩ := catOpts_cons g11
  obtain ⟨a13, r13, h13, g13, rfl⟩ := catOpts_cons g12
  obtain ⟨a14, r14, h14, g14, rfl⟩ := catOpts_cons g13
  obtain ⟨a15, r15, h15, g15, rfl⟩ := catOpts_cons g14
  obtain ⟨a16, r16, h16, g16, rfl⟩ := catOpts_cons g15
  obtain ⟨a17, r17, h17, g17, rfl⟩ := catOpts_cons g16
  obtain ⟨a18, r18, h18, g18, rfl⟩ := catOpts_cons g17
  have := catOpts_nil g18
  subst this
  clear h g1 g2 g3 g4 g5 g6 g7 g8 g9 g10 g11 g12 g13 g14 g15 g16 g17 g18
  obtain ⟨v, r, sid, cs, cm, sn, o, curves, pts, tk, tkt, sa, sac, sr, reneg, ere, er, ems, alpn, sct, vers, ck, ks, ed, modes, ids, binders⟩ := m
  simp only at hscsv hreneg hdot htkt her0 her1 halpn hks hpsk0 hpsk1 h1 h2 h3 h4 h5 h6 h7 h8 h9 h10 h11 h12 h13 h14 h15 h16 h17 h18
  refine chain_step _ _ _ _ ⟨v, r, sid, cs, cm, sn, false, [], [], false, [], [], [], (cs.contains 255), [], false, [], false, [], false, [], [], [], false, [], [], []⟩ _ (fun e he b1 b2 s => chApply_flag e b1 b2 s (by rw [opt_mem h1 e he]; decide))
    (applyExts_opt _ _ _ _ _ _ _ h1 (fun hc => ?_) (fun hc b hb _ => ?_)) ?_
  · cases sn with
    | nil => rfl
    | cons x t => simp [nonEmpty] at hc
  · have := sniF_lawful.rt [(0, sn)] b ⟨by simp, by simpa using (nonEmpty_iff sn).mp hc⟩ hb
    simp [ClientHello.empty, chApply, this, sniFold, hdot]
  refine chain_step _ _ _ _ ⟨v, r, sid, cs, cm, sn, o, [], [], false, [], [], [], (cs.contains 255), [], false, [], false, [], false, [], [], [], false, [], [], []⟩ _ (fun e he b1 b2 s => chApply_flag e b1 b2 s (by rw [opt_mem h2 e he]; decide))
    (applyExts_opt _ _ _ _ _ _ _ h2 (fun hc => ?_) (fun hc b hb _ => ?_)) ?_
  · subst hc
    rfl
  · have := statusReqF_lawful.rt (1, [], []) b trivial hb
    subst hc
    simp [ClientHello.empty, chApply, this]
  refine chain_step _ _ _ _ ⟨v, r, sid, cs, cm, sn, o, curves, [], false, [], [], [], (cs.contains 255), [], false, [], false, [], false, [], [], [], false, [], [], []⟩ _ (fun e he b1 b2 s => chApply_flag e b1 b2 s (by rw [opt_mem h3 e he]; decide))
    (applyExts_opt _ _ _ _ _ _ _ h3 (fun hc => ?_) (fun hc b hb _ => ?_)) ?_
  · cases curves with
    | nil => rfl
    | cons x t => simp [nonEmptyL] at hc
  · have := listU16_lawful.rt curves b ((nonEmptyL_iff curves).mp hc) hb
    simp [ClientHello.empty, chApply, this]
  refine chain_step _ _ _ _ ⟨v, r, sid, cs, cm, sn, o, curves, pts, false, [], [], [], (cs.contains 255), [], false, [], false, [], false, [], [], [], false, [], [], []⟩ _ (fun e he b1 b2 s => chApply_flag e b1 b2 s (by rw [opt_mem h4 e he]; decide))
    (applyExts_opt _ _ _ _ _ _ _ h4 (fun hc => ?_) (fun hc b hb _ => ?_)) ?_
  · cases pts with
    | nil => rfl
    | cons x t => simp [nonEmpty] at hc
  · have := (complete_lawful (guard_lawful nonEmpty (opq_lawful 1))).rt pts b ⟨trivial, hc⟩ hb
    simp [ClientHello.empty, chApply, this]
  refine chain_step _ _ _ _ ⟨v, r, sid, cs, cm, sn, o, curves, pts, tk, tkt, [], [], (cs.contains 255), [], false, [], false, [], false, [], [], [], false, [], [], []⟩ _ (fun e he b1 b2 s => chApply_flag e b1 b2 s (by rw [opt_mem h5 e he]; decide))
    (applyExts_opt _ _ _ _ _ _ _ h5 (fun hc => ?_) (fun hc b hb _ => ?_)) ?_
  · subst hc
    rw [htkt rfl]
  · cases hb
    subst hc
    simp [ClientHello.empty, chApply]
  refine chain_step _ _ _ _ ⟨v, r, sid, cs, cm, sn, o, curves, pts, tk, tkt, sa, [], (cs.contains 255), [], false, [], false, [], false, [], [], [], false, [], [], []⟩ _ (fun e he b1 b2 s => chApply_flag e b1 b2 s (by rw [opt_mem h6 e he]; decide))
    (applyExts_opt _ _ _ _ _ _ _ h6 (fun hc => ?_) (fun hc b hb _ => ?_)) ?_
  · cases sa with
    | nil => rfl
    | cons x t => simp [nonEmptyL] at hc
  · have := listU16_lawful.rt sa b ((nonEmptyL_iff sa).mp hc) hb
    simp [ClientHello.empty, chApply, this]
  refine chain_step _ _ _ _ ⟨v, r, sid, cs, cm, sn, o, curves, pts, tk, tkt, sa, sac, (cs.contains 255), [], false, [], false, [], false, [], [], [], false, [], [], []⟩ _ (fun e he b1 b2 s => chApply_flag e b1 b2 s (by rw [opt_mem h7 e he]; decide))
    (applyExts_opt _ _ _ _ _ _ _ h7 (fun hc => ?_) (fun hc b hb _ => ?_)) ?_
  · cases sac with
    | nil => rfl
    | cons x t => simp [nonEmptyL] at hc
  · have := listU16_lawful.rt sac b ((nonEmptyL_iff sac).mp hc) hb
    simp [ClientHello.empty, chApply, this]
  refine chain_step _ _ _ _ ⟨v, r, sid, cs, cm, sn, o, curves, pts, tk, tkt, sa, sac, sr, reneg, false, [], false, [], false, [], [], [], false, [], [], []⟩ _ (fun e he b1 b2 s => chApply_flag e b1 b2 s (by rw [opt_mem h8 e he]; decide))
    (applyExts_opt _ _ _ _ _ _ _ h8 (fun hc => ?_) (fun hc b hb _ => ?_)) ?_
  · subst hc
    rw [hreneg rfl]
    have hcc : cs.contains 255 = false := by
      cases hcc : cs.contains 255 with
      | false => rfl
      | true => exact absurd (hscsv hcc) (by simp)
    rw [hcc]
  · have := (complete_lawful (opq_lawful 1)).rt reneg b trivial hb
    subst hc
    simp [ClientHello.empty, chApply, this]
  refine chain_step _ _ _ _ ⟨v, r, sid, cs, cm, sn, o, curves, pts, tk, tkt, sa, sac, sr, reneg, false, [], false, alpn, false, [], [], [], false, [], [], []⟩ _ (fun e he b1 b2 s => chApply_flag e b1 b2 s (by rw [opt_mem h9 e he]; decide))
    (applyExts_opt _ _ _ _ _ _ _ h9 (fun hc => ?_) (fun hc b hb _ => ?_)) ?_
  · cases alpn with
    | nil => rfl
    | cons x t => simp [nonEmptyL] at hc
  · have := alpnList_lawful.rt alpn b ⟨(nonEmptyL_iff alpn).mp hc, halpn⟩ hb
    simp [ClientHello.empty, chApply, this]
  refine chain_step _ _ _ _ ⟨v, r, sid, cs, cm, sn, o, curves, pts, tk, tkt, sa, sac, sr, reneg, ere, er, false, alpn, false, [], [], [], false, [], [], []⟩ _ (fun e he b1 b2 s => chApply_flag e b1 b2 s (by rw [opt_mem h10 e he]; decide))
    (applyExts_opt _ _ _ _ _ _ _ h10 (fun hc => ?_) (fun hc b hb _ => ?_)) ?_
  · subst hc
    rw [her0 rfl]
  · have := (complete_lawful (guard_lawful nonEmpty (opq_lawful 2))).rt er b ⟨trivial, (nonEmpty_iff er).mpr (her1 hc)⟩ hb
    subst hc
    simp [ClientHello.empty, chApply, this]
  refine chain_step _ _ _ _ ⟨v, r, sid, cs, cm, sn, o, curves, pts, tk, tkt, sa, sac, sr, reneg, ere, er, ems, alpn, false, [], [], [], false, [], [], []⟩ _ (fun e he b1 b2 s => chApply_flag e b1 b2 s (by rw [opt_mem h11 e he]; decide))
    (applyExts_opt _ _ _ _ _ _ _ h11 (fun hc => ?_) (fun hc b hb _ => ?_)) ?_
  · subst hc
    rfl
  · cases hb
    subst hc
    simp [ClientHello.empty, chApply]
  refine chain_step _ _ _ _ ⟨v, r, sid, cs, cm, sn, o, curves, pts, tk, tkt, sa, sac, sr, reneg, ere, er, ems, alpn, sct, [], [], [], false, [], [], []⟩ _ (fun e he b1 b2 s => chApply_flag e b1 b2 s (by rw [opt_mem h12 e he]; decide))
    (applyExts_opt _ _ _ _ _ _ _ h12 (fun hc => ?_) (fun hc b hb _ => ?_)) ?_
  · subst hc
    rfl
  · cases hb
    subst hc
    simp [ClientHello.empty, chApply]
  refine chain_step _ _ _ _ ⟨v, r, sid, cs, cm, sn, o, curves, pts, tk, tkt, sa, sac, sr, reneg, ere, er, ems, alpn, sct, vers, [], [], false, [], [], []⟩ _ (fun e he b1 b2 s => chApply_flag e b1 b2 s (by rw [opt_mem h13 e he]; decide))
    (applyExts_opt _ _ _ _ _ _ _ h13 (fun hc => ?_) (fun hc b hb _ => ?_)) ?_
  · cases vers with
    | nil => rfl
    | cons x t => simp [nonEmptyL] at hc
  · have := versListF_lawful.rt vers b ((nonEmptyL_iff vers).mp hc) hb
    simp [ClientHello.empty, chApply, this]
  refine chain_step _ _ _ _ ⟨v, r, sid, cs, cm, sn, o, curves, pts, tk, tkt, sa, sac, sr, reneg, ere, er, ems, alpn, sct, vers, ck, [], false, [], [], []⟩ _ (fun e he b1 b2 s => chApply_flag e b1 b2 s (by rw [opt_mem h14 e he]; decide))
    (applyExts_opt _ _ _ _ _ _ _ h14 (fun hc => ?_) (fun hc b hb _ => ?_)) ?_
  · cases ck with
    | nil => rfl
    | cons x t => simp [nonEmpty] at hc
  · have := (complete_lawful (guard_lawful nonEmpty (opq_lawful 2))).rt ck b ⟨trivial, hc⟩ hb
    simp [ClientHello.empty, chApply, this]
  refine chain_step _ _ _ _ ⟨v, r, sid, cs, cm, sn, o, curves, pts, tk, tkt, sa, sac, sr, reneg, ere, er, ems, alpn, sct, vers, ck, ks, false, [], [], []⟩ _ (fun e he b1 b2 s => chApply_flag e b1 b2 s (by rw [opt_mem h15 e he]; decide))
    (applyExts_opt _ _ _ _ _ _ _ h15 (fun hc => ?_) (fun hc b hb _ => ?_)) ?_
  · cases ks with
    | nil => rfl
    | cons x t => simp [nonEmptyL] at hc
  · have := keySharesF_lawful.rt ks b hks hb
    simp [ClientHello.empty, chApply, this]
  refine chain_step _ _ _ _ ⟨v, r, sid, cs, cm, sn, o, curves, pts, tk, tkt, sa, sac, sr, reneg, ere, er, ems, alpn, sct, vers, ck, ks, ed, [], [], []⟩ _ (fun e he b1 b2 s => chApply_flag e b1 b2 s (by rw [opt_mem h16 e he]; decide))
    (applyExts_opt _ _ _ _ _ _ _ h16 (fun hc => ?_) (fun hc b hb _ => ?_)) ?_
  · subst hc
    rfl
  · cases hb
    subst hc
    simp [ClientHello.empty, chApply]
  refine chain_step _ _ _ _ ⟨v, r, sid, cs, cm, sn, o, curves, pts, tk, tkt, sa, sac, sr, reneg, ere, er, ems, alpn, sct, vers, ck, ks, ed, modes, [], []⟩ _ (fun e he b1 b2 s => chApply_flag e b1 b2 s (by rw [opt_mem h17 e he]; decide))
    (applyExts_opt _ _ _ _ _ _ _ h17 (fun hc => ?_) (fun hc b hb _ => ?_)) ?_
  · cases modes with
    | nil => rfl
    | cons x t => simp [nonEmpty] at hc
  · have := (complete_lawful (opq_lawful 1)).rt modes b trivial hb
    simp [ClientHello.empty, chApply, this]
  simp only [List.append_nil]
  cases ids with
  | nil =>
    simp [nonEmptyL, opt] at h18
    subst h18
    rw [hpsk0 rfl]
    rfl
  | cons i0 irest =>
    obtain ⟨b, hb, rfl⟩ := opt_true_inv (by simpa [nonEmptyL] using h18)
    have hv := hpsk1 (by simp)
    have := pskF_lawful.rt (i0 :: irest, binders) b ⟨⟨by simp, hv.1⟩, hv.2⟩ hb
    simp [applyExts, chApply, this]

/-- a buffer the entry parser accepts completely is the canonical encoding of what it returns -/
theorem extEntry_canon (b : Bytes) (e : Ext) (h : (complete extEntry).par b = some e) :
    b = encRaw e ∧ e.1 < 256 ^ 2 ∧ e.2.length < 256 ^ 2 := by
  simp only [complete, extEntry, pair, uN, opq] at h
  by_cases h1 : b.length < 2
  · simp [h1] at h
  · rw [if_neg h1] at h
    simp only [List.length_drop, List.drop_drop] at h
    by_cases h2 : b.length - 2 < 2
    · simp [h2] at h
    · rw [if_neg h2] at h
      by_cases h3 : b.length - (2 + 2) < beNat ((b.drop 2).take 2)
      · simp [h3] at h
      · rw [if_neg h3] at h
        simp only at h
        split at h
        · rename_i a heq
          simp only [Option.some.injEq, Prod.mk.injEq] at heq
          obtain ⟨rfl, hnil⟩ := heq
          cases h
          have hlen : b.length - 4 = beNat ((b.drop 2).take 2) := by
            have := congrArg List.length hnil
            simp at this
            omega
          have htake : (b.drop (2 + 2)).take (beNat ((b.drop 2).take 2)) = b.drop 4 :=
            List.take_of_length_le (by simp; omega)
          have l1 : (b.take 2).length = 2 := by simp; omega
          have l2 : ((b.drop 2).take 2).length = 2 := by simp; omega
          refine ⟨?_, ?_, ?_⟩
          · simp only [encRaw, htake]
            have n1 := natBE_beNat (b.take 2)
            rw [l1] at n1
            have n2 := natBE_beNat ((b.drop 2).take 2)
            rw [l2] at n2
            have hl4 : (b.drop 4).length = beNat ((b.drop 2).take 2) := by simp; omega
            rw [n1, hl4, n2]
            have : b.drop 4 = (b.drop 2).drop 2 := by simp
            rw [this, List.append_assoc, List.take_append_drop, List.take_append_drop]
          · have := beNat_lt (b.take 2)
            rw [l1] at this
            exact this
          · simp only [htake]
            have := beNat_lt ((b.drop 2).take 2)
            rw [l2] at this
            simp
            omega
        · cases h


end ZV.C30
