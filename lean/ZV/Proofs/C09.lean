import ZV.Model.C09
/-! helper lemmas for `ZV.Props.C09` -/
namespace ZV.C09

/-! ### UTF-8 decoding facts needed for `toLowerCaseASCII` -/

theorem isUpper_false_of_ge (b : UInt8) (h : 0x80 ≤ b.toNat) : isUpper b = false := by
  simp only [isUpper, Bool.and_eq_false_imp, decide_eq_true_eq, decide_eq_false_iff_not]
  omega

theorem isCont_ge (b : UInt8) (h : isCont b = true) : 0x80 ≤ b.toNat := by
  simp only [isCont, Bool.and_eq_true, decide_eq_true_eq] at h
  exact h.1

theorem inAccept_ge (n0 : Nat) (b : UInt8) (h : inAccept n0 b = true) : 0x80 ≤ b.toNat := by
  simp only [inAccept, Bool.and_eq_true, decide_eq_true_eq] at h
  have hlo : 0x80 ≤ accLo n0 := by
    unfold accLo
    split
    · omega
    · split <;> omega
  omega

/-- what one decoding step consumes: an ASCII byte that *is* the rune, or a
    RuneError of width 1, or a multi-byte sequence all of whose bytes are ≥ 0x80. -/
theorem decodeRune_spec (b0 : UInt8) (rest : Str) :
    (b0.toNat < 0x80 ∧ decodeRune b0 rest = (b0.toNat, 0)) ∨
    (0x80 ≤ b0.toNat ∧ decodeRune b0 rest = (runeError, 0)) ∨
    (0x80 ≤ b0.toNat ∧ ∀ b ∈ rest.take (decodeRune b0 rest).2, 0x80 ≤ b.toNat) := by
  unfold decodeRune
  by_cases h1 : b0.toNat < 0x80
  · left; simp [h1]
  · right
    have hge : 0x80 ≤ b0.toNat := by omega
    simp only [h1, if_false]
    by_cases h2 : b0.toNat < 0xC2
    · left; simp [h2, hge]
    · simp only [h2, if_false]
      by_cases h3 : b0.toNat < 0xE0
      · simp only [h3, if_true]
        match rest with
        | [] => left; simp [hge]
        | b1 :: r =>
          by_cases hc : inAccept b0.toNat b1 = true
          · right; refine ⟨hge, ?_⟩
            simp only [hc, if_true, List.take_succ_cons, List.take_zero, List.mem_cons,
              List.not_mem_nil, or_false]
            intro b hb; subst hb; exact inAccept_ge _ _ hc
          · left; simp [hc, hge]
      · simp only [h3, if_false]
        by_cases h4 : b0.toNat < 0xF0
        · simp only [h4, if_true]
          match rest with
          | [] => left; simp [hge]
          | [_] => left; simp [hge]
          | b1 :: b2 :: r =>
            by_cases hc : (inAccept b0.toNat b1 && isCont b2) = true
            · right; refine ⟨hge, ?_⟩
              simp only [hc, if_true]
              simp only [Bool.and_eq_true] at hc
              simp only [List.take_succ_cons, List.take_zero, List.mem_cons, List.not_mem_nil, or_false]
              intro b hb
              rcases hb with hb | hb
              · subst hb; exact inAccept_ge _ _ hc.1
              · subst hb; exact isCont_ge _ hc.2
            · left; simp [hc, hge]
        · simp only [h4, if_false]
          by_cases h5 : b0.toNat < 0xF5
          · simp only [h5, if_true]
            match rest with
            | [] => left; simp [hge]
            | [_] => left; simp [hge]
            | [_, _] => left; simp [hge]
            | b1 :: b2 :: b3 :: r =>
              by_cases hc : (inAccept b0.toNat b1 && isCont b2 && isCont b3) = true
              · right; refine ⟨hge, ?_⟩
                simp only [hc, if_true]
                simp only [Bool.and_eq_true] at hc
                simp only [List.take_succ_cons, List.take_zero, List.mem_cons, List.not_mem_nil, or_false]
                intro b hb
                rcases hb with hb | hb | hb
                · subst hb; exact inAccept_ge _ _ hc.1.1
                · subst hb; exact isCont_ge _ hc.1.2
                · subst hb; exact isCont_ge _ hc.2
              · left; simp [hc, hge]
          · left; simp [h5, hge]

/-- if the first loop of `toLowerCaseASCII` runs to completion, no byte of the
    string is an upper-case ASCII letter (valid or invalid UTF-8 alike). -/
theorem scanLower_true (s : Str) (h : scanLower s = true) : ∀ b ∈ s, isUpper b = false := by
  fun_induction scanLower s with
  | case1 => intro b hb; cases hb
  | case2 b0 rest r h1 => simp at h
  | case3 b0 rest r h1 h2 => simp at h
  | case4 b0 rest r h1 h2 ih =>
    have ih' := ih h
    have hsplit : rest = rest.take r.2 ++ rest.drop r.2 := (List.take_append_drop _ _).symm
    intro b hb
    rcases decodeRune_spec b0 rest with ⟨hlt, heq⟩ | ⟨hge, heq⟩ | ⟨hge, hall⟩
    · -- ASCII: the rune is the byte
      have hr : r = (b0.toNat, 0) := heq
      rw [hr] at h2 ih'
      simp only [List.drop_zero] at ih'
      rcases List.mem_cons.mp hb with hb | hb
      · subst hb
        simp only [isUpper, Bool.and_eq_false_imp, decide_eq_true_eq, decide_eq_false_iff_not]
        intro h65 h90; exact h2 ⟨h65, h90⟩
      · exact ih' b hb
    · exact absurd (by rw [show r = (runeError, 0) from heq]) h1
    · rcases List.mem_cons.mp hb with hb | hb
      · subst hb; exact isUpper_false_of_ge _ hge
      · rw [hsplit] at hb
        rcases List.mem_append.mp hb with hb | hb
        · exact isUpper_false_of_ge _ (hall b hb)
        · exact ih' b hb

theorem map_lowerByte_id (s : Str) (h : ∀ b ∈ s, isUpper b = false) : s.map lowerByte = s := by
  induction s with
  | nil => rfl
  | cons b s ih =>
    simp only [List.map_cons, lowerByte, h b (List.mem_cons_self), Bool.false_eq_true, if_false]
    rw [ih (fun x hx => h x (List.mem_cons_of_mem _ hx))]

/-! ### splitting and joining labels -/

/-- labels joined by single dots (the inverse of `strings.Split(·, ".")`). -/
def joinDot : List Str → Str
  | [] => []
  | [l] => l
  | l :: l2 :: ls => l ++ dot :: joinDot (l2 :: ls)

def DotFree (l : Str) : Prop := dot ∉ l

theorem splitDot_ne_nil (s : Str) : splitDot s ≠ [] := by
  induction s with
  | nil => simp [splitDot]
  | cons b s ih =>
    unfold splitDot
    split
    · simp
    · cases h : splitDot s with
      | nil => exact absurd h ih
      | cons l ls => simp [consHead]

theorem joinDot_consHead (b : UInt8) (L : List Str) (h : L ≠ []) :
    joinDot (consHead b L) = b :: joinDot L := by
  match L with
  | [] => exact absurd rfl h
  | [l] => simp [consHead, joinDot]
  | l :: l2 :: ls => simp [consHead, joinDot]

theorem joinDot_splitDot (s : Str) : joinDot (splitDot s) = s := by
  induction s with
  | nil => simp [splitDot, joinDot]
  | cons b s ih =>
    unfold splitDot
    split
    · rename_i hb
      cases h : splitDot s with
      | nil => exact absurd h (splitDot_ne_nil s)
      | cons l ls =>
        rw [h] at ih
        simp only [joinDot, List.nil_append, ih, hb]
    · rw [joinDot_consHead _ _ (splitDot_ne_nil s), ih]

theorem splitDot_dotFree (s : Str) : ∀ l ∈ splitDot s, DotFree l := by
  induction s with
  | nil => simp [splitDot, DotFree]
  | cons b s ih =>
    unfold splitDot
    split
    · intro l hl
      rcases List.mem_cons.mp hl with h | h
      · subst h; simp [DotFree]
      · exact ih l h
    · rename_i hb
      cases h : splitDot s with
      | nil => exact absurd h (splitDot_ne_nil s)
      | cons l0 ls =>
        rw [h] at ih
        intro l hl
        simp only [consHead, List.mem_cons] at hl
        rcases hl with h' | h'
        · subst h'
          have := ih l0 (List.mem_cons_self)
          simp only [DotFree, List.mem_cons, not_or] at *
          exact ⟨fun e => hb e.symm, this⟩
        · exact ih l (List.mem_cons_of_mem _ h')

theorem splitDot_dotFree_self (l : Str) (h : DotFree l) : splitDot l = [l] := by
  induction l with
  | nil => rfl
  | cons b l ih =>
    simp only [DotFree, List.mem_cons, not_or] at h
    unfold splitDot
    rw [if_neg (fun e => h.1 e.symm), ih h.2]
    rfl

theorem splitDot_append_dot (l rest : Str) (h : DotFree l) :
    splitDot (l ++ dot :: rest) = l :: splitDot rest := by
  induction l with
  | nil => simp [splitDot]
  | cons b l ih =>
    simp only [DotFree, List.mem_cons, not_or] at h
    simp only [List.cons_append]
    rw [splitDot, if_neg (fun e => h.1 e.symm), ih h.2]
    rfl

theorem splitDot_joinDot (ls : List Str) (hne : ls ≠ []) (hdf : ∀ l ∈ ls, DotFree l) :
    splitDot (joinDot ls) = ls := by
  match ls with
  | [] => exact absurd rfl hne
  | [l] => simpa [joinDot] using splitDot_dotFree_self l (hdf l (by simp))
  | l :: l2 :: rest =>
    simp only [joinDot]
    rw [splitDot_append_dot l _ (hdf l (by simp))]
    rw [splitDot_joinDot (l2 :: rest) (by simp) (fun x hx => hdf x (List.mem_cons_of_mem _ hx))]

/-! ### trailing dot -/

theorem trimDot_append_dot (q : Str) : trimDot (q ++ [dot]) = q := by
  simp [trimDot]

theorem trimDot_no_dot (s : Str) (h : ∀ q, s ≠ q ++ [dot]) : trimDot s = s := by
  unfold trimDot
  cases hl : s.getLast? with
  | none => rfl
  | some c =>
    simp only
    split
    · rename_i hc
      subst hc
      obtain ⟨ys, hys⟩ := List.getLast?_eq_some_iff.mp hl
      exact absurd hys (h ys)
    · rfl

/-! ### the label loop -/

def LabelMatch (pl hl : Str) : Prop := pl = [star] ∨ pl = hl

/-- pattern labels and host labels correspond one to one and each pair matches. -/
inductive LabelsMatch : List Str → List Str → Prop
  | nil : LabelsMatch [] []
  | cons {p h : Str} {ps hs : List Str} : LabelMatch p h → LabelsMatch ps hs → LabelsMatch (p :: ps) (h :: hs)

theorem matchParts_spec (ps hs : List Str) (hlen : ps.length = hs.length) :
    (matchParts ps hs = .ok true ∧ LabelsMatch ps hs) ∨
    (matchParts ps hs = .ok false ∧ ¬ LabelsMatch ps hs) := by
  induction ps generalizing hs with
  | nil =>
    cases hs with
    | nil => left; exact ⟨rfl, LabelsMatch.nil⟩
    | cons h hs => simp at hlen
  | cons p ps ih =>
    cases hs with
    | nil => simp at hlen
    | cons h hs =>
      have hlen' : ps.length = hs.length := by simpa using hlen
      unfold matchParts
      by_cases hstar : p = [star]
      · simp only [hstar, if_true]
        rcases ih hs hlen' with ⟨e, f⟩ | ⟨e, f⟩
        · left; exact ⟨e, LabelsMatch.cons (Or.inl rfl) f⟩
        · right; refine ⟨e, ?_⟩
          intro hf; cases hf with | cons _ t => exact f t
      · simp only [hstar, if_false]
        by_cases hne : p = h
        · simp only [hne, ne_eq, not_true_eq_false, if_false]
          rcases ih hs hlen' with ⟨e, f⟩ | ⟨e, f⟩
          · left; exact ⟨e, LabelsMatch.cons (Or.inr rfl) f⟩
          · right; refine ⟨e, ?_⟩
            intro hf; cases hf with | cons _ t => exact f t
        · right
          simp only [ne_eq, hne, not_false_eq_true, if_true, true_and]
          intro hf
          cases hf with
          | cons hd _ =>
            rcases hd with hd | hd
            · exact hstar hd
            · exact hne hd

theorem LabelsMatch.length_eq {l1 l2 : List Str} (h : LabelsMatch l1 l2) : l1.length = l2.length := by
  induction h with
  | nil => rfl
  | cons _ _ ih => simp [ih]

/-! ### net.ParseIP always yields the 16-byte form -/

theorem v4Loop_length (prev : Option UInt8) (val pos digLen : Nat) (fields : List UInt8) (s : Str)
    (hpos : pos ≤ 3) (hf : fields.length = pos) (out : List UInt8)
    (h : v4Loop prev val pos digLen fields s = some out) : out.length = 4 := by
  induction s generalizing prev val pos digLen fields with
  | nil =>
    unfold v4Loop at h
    split at h
    · cases h
    · have : pos = 3 := by omega
      cases h; simp [hf, this]
  | cons c rest ih =>
    unfold v4Loop at h
    split at h
    · split at h
      · cases h
      · simp only at h
        split at h
        · cases h
        · exact ih _ _ _ _ _ hpos hf h
    · split at h
      · split at h
        · cases h
        · split at h
          · cases h
          · exact ih _ _ _ _ _ (by omega) (by simp [hf]) h
      · cases h

theorem parseIPv4Fields_length (s : Str) (out : List UInt8) (h : parseIPv4Fields s = some out) :
    out.length = 4 :=
  v4Loop_length none 0 0 0 [] s (by omega) rfl out h

theorem v6Loop_length (ip : List UInt8) (ell : Option Nat) (s : Str)
    (heven : ip.length % 2 = 0) (hle : ip.length ≤ 16)
    (out : List UInt8) (ell' : Option Nat) (rest : Str)
    (h : v6Loop ip ell s = some (out, ell', rest)) : out.length % 2 = 0 ∧ out.length ≤ 16 := by
  fun_induction v6Loop ip ell s
  case case7 ip0 _ s0 _ _ _ _ _ _ _ f hf _ =>
    have hf4 := parseIPv4Fields_length _ _ hf
    simp only [Option.some.injEq, Prod.mk.injEq] at h
    obtain ⟨rfl, -, -⟩ := h
    simp only [List.length_append]; omega
  case case12 ip0 _ _ _ _ _ _ _ _ ip' _ _ _ _ _ ih =>
    have hl : ip'.length = ip0.length + 2 := by simp [ip']
    exact ih (by omega) (by omega) h
  case case13 ip0 _ _ _ _ _ _ _ _ ip' _ _ _ _ _ ih =>
    have hl : ip'.length = ip0.length + 2 := by simp [ip']
    exact ih (by omega) (by omega) h
  case case11 ip0 _ _ _ _ _ _ _ _ ip' _ _ _ =>
    have hl : ip'.length = ip0.length + 2 := by simp [ip']
    simp only [Option.some.injEq, Prod.mk.injEq] at h
    obtain ⟨rfl, -, -⟩ := h
    omega
  all_goals first
    | (cases h; done)
    | (simp only [Option.some.injEq, Prod.mk.injEq] at h
       obtain ⟨rfl, -, -⟩ := h
       try simp only [List.length_append, List.length_cons, List.length_nil]
       omega)

theorem v6Finish_length (ell : Option Nat) (s1 : Str) (ip : List UInt8)
    (h : v6Finish ell s1 = some ip) : ip.length = 16 := by
  unfold v6Finish at h
  split at h
  · cases h
  · rename_i out ell' rest hv
    have hlen := v6Loop_length [] ell s1 (by simp) (by simp) out ell' rest hv
    split at h
    · cases h
    · split at h
      · split at h
        · cases h
        · cases h
          simp only [List.length_append, List.length_take, List.length_replicate, List.length_drop]
          omega
      · split at h
        · cases h
        · cases h; omega

theorem parseIPv6_length (s : Str) (ip : List UInt8) (h : parseIPv6 s = some ip) : ip.length = 16 := by
  unfold parseIPv6 at h
  split at h
  · cases h
  · split at h
    · split at h
      · cases h; simp
      · exact v6Finish_length _ _ _ h
    · exact v6Finish_length _ _ _ h

theorem parseIP_length (s : Str) (ip : List UInt8) (h : parseIP s = some ip) : ip.length = 16 := by
  unfold parseIP at h
  split at h
  · cases h
  · split at h
    · split at h
      · cases h
      · rename_i f hf
        cases h
        simp [v4InV6Prefix, parseIPv4Fields_length _ _ hf]
    · split at h
      · exact parseIPv6_length s ip h
      · cases h

end ZV.C09
