import ZV.Model.C03
/-!
  Helpers for the signer-side theorems of `ZV.Props.C03`: the verification scheme of an algorithm identifier, the
  per-row check of `signingParamsForPublicKey` against it, the `decide` over the whole (key label x details row) table
  and the lemmas that every key / algorithm outside the tables is refused.
-/
namespace ZV.C03
open ZV ZV.Hash

/-- what `CheckSignatureFromKey` checks for algorithm `a` on a key of kind `kt`: (PSS?, hash id) -/
def verifyScheme (kt : String) (a : Nat) : Option (Bool × Nat) :=
  match algoHash a with
  | some (some h) => some ((kt == "rsa") && isPSS a, h)
  | _ => none

def keyFamily (kt : String) : String :=
  if kt == "rsa" then "RSA" else if kt == "ed25519" then "Ed25519" else "ECDSA"

def detailsFamily (a : Nat) : Option String := (Gen.C03.x509Details.find? (fun r => r.1 == a)).map (·.2.1)

/-- key algorithm of the arm of `signingParamsForPublicKey`'s type switch a key falls into -/
def labelFamily (pkg : SignPkg) (label : String) : Option String :=
  (pkg.defaults.find? (fun r => r.1 == label)).map (·.2.1)

/-- the `kt` argument of `verifyScheme` for a key algorithm -/
def ktOf (fam : String) : String := if fam == "RSA" then "rsa" else if fam == "Ed25519" then "ed25519" else "ecdsa"

/-- one (key label, requested algorithm) pair of the x509 function -/
def signRowOk (label : String) (req : Nat) : Bool :=
  match signingParams x509Pkg label req with
  | .ok sp =>
    let a := algoFromAI sp.oid sp.params
    (match labelFamily x509Pkg label with
     | some fam => detailsFamily a == some fam && verifyScheme (ktOf fam) a == some (signerOpts req sp.hash) &&
         (fam != "RSA" || (sp.hash != 0 && (C23.hashAlg sp.hash).isSome))
     | none => false)
  | .err => true
  | .panic => false

def signRowOkOcsp (label : String) (req : Nat) : Bool :=
  match signingParams ocspPkg label req with
  | .ok sp =>
    let a := algoFromOID sp.oid
    (match labelFamily ocspPkg label with
     | some fam => detailsFamily a == some fam && verifyScheme (ktOf fam) a == some (signerOptsOcsp sp.hash) &&
         sp.hash != 0 && (C23.hashAlg sp.hash).isSome
     | none => false)
  | .err => true
  | .panic => false

theorem sign_table_ok :
    (x509Pkg.defaults.all fun d => (0 :: x509Pkg.details.map (·.1)).all fun r => signRowOk d.1 r) = true := by
  decide

theorem sign_table_ok_ocsp :
    (ocspPkg.defaults.all fun d => (0 :: ocspPkg.details.map (·.1)).all fun r => signRowOkOcsp d.1 r) = true := by
  decide

theorem signingParams_unknown_key {pkg : SignPkg} {label : String} (req : Nat)
    (h : ∀ d ∈ pkg.defaults, d.1 ≠ label) : signingParams pkg label req = .err := by
  unfold signingParams
  have : pkg.defaults.find? (fun r => r.1 == label) = none := by
    rw [List.find?_eq_none]
    intro d hd
    simpa using h d hd
  rw [this]

theorem signingParams_unknown_algo {pkg : SignPkg} (label : String) {req : Nat} (h0 : req ≠ 0)
    (h : ∀ d ∈ pkg.details, d.1 ≠ req) : signingParams pkg label req = .err := by
  unfold signingParams
  have : pkg.details.find? (fun r => r.1 == req) = none := by
    rw [List.find?_eq_none]
    intro d hd
    simpa using h d hd
  split
  · rfl
  · simp only [if_neg h0, this]

theorem signRowOk_all (label : String) (req : Nat) : signRowOk label req = true := by
  by_cases hl : ∃ d ∈ x509Pkg.defaults, d.1 = label
  · by_cases hr : req = 0 ∨ ∃ d ∈ x509Pkg.details, d.1 = req
    · obtain ⟨d, hd, rfl⟩ := hl
      have h1 := List.all_eq_true.1 sign_table_ok d hd
      refine List.all_eq_true.1 h1 req ?_
      rcases hr with rfl | ⟨e, he, rfl⟩
      · exact List.mem_cons_self
      · exact List.mem_cons_of_mem _ (List.mem_map_of_mem he)
    · have := signingParams_unknown_algo (pkg := x509Pkg) label (req := req) (by intro h; exact hr (Or.inl h))
        (by intro d hd h; exact hr (Or.inr ⟨d, hd, h⟩))
      simp [signRowOk, this]
  · have := signingParams_unknown_key (pkg := x509Pkg) (label := label) req
      (by intro d hd h; exact hl ⟨d, hd, h⟩)
    simp [signRowOk, this]

theorem signRowOkOcsp_all (label : String) (req : Nat) : signRowOkOcsp label req = true := by
  by_cases hl : ∃ d ∈ ocspPkg.defaults, d.1 = label
  · by_cases hr : req = 0 ∨ ∃ d ∈ ocspPkg.details, d.1 = req
    · obtain ⟨d, hd, rfl⟩ := hl
      have h1 := List.all_eq_true.1 sign_table_ok_ocsp d hd
      refine List.all_eq_true.1 h1 req ?_
      rcases hr with rfl | ⟨e, he, rfl⟩
      · exact List.mem_cons_self
      · exact List.mem_cons_of_mem _ (List.mem_map_of_mem he)
    · have := signingParams_unknown_algo (pkg := ocspPkg) label (req := req) (by intro h; exact hr (Or.inl h))
        (by intro d hd h; exact hr (Or.inr ⟨d, hd, h⟩))
      simp [signRowOkOcsp, this]
  · have := signingParams_unknown_key (pkg := ocspPkg) (label := label) req
      (by intro d hd h; exact hl ⟨d, hd, h⟩)
    simp [signRowOkOcsp, this]

def labelOfKeyName (k : String) : String :=
  if k == "rsa" then "*rsa.PublicKey" else if k == "ecdsa-p256" then "*ecdsa.PublicKey:P256"
  else if k == "ecdsa-p384" then "*ecdsa.PublicKey:P384" else "ed25519.PublicKey"


/-- one recorded row (api, requested, key, written, pss, hash) of the real creation APIs against the model -/
def signRowMatches (r : String × Nat × String × Nat × Bool × Nat) : Bool :=
  if r.1 == "ocsp" then
    (match signingParams ocspPkg (labelOfKeyName r.2.2.1) r.2.1 with
     | .ok sp => algoFromOID sp.oid == r.2.2.2.1 && signerOptsOcsp sp.hash == (r.2.2.2.2.1, r.2.2.2.2.2)
     | _ => false)
  else
    (match signingParams x509Pkg (labelOfKeyName r.2.2.1) r.2.1 with
     | .ok sp => algoFromAI sp.oid sp.params == r.2.2.2.1 && signerOpts r.2.1 sp.hash == (r.2.2.2.2.1, r.2.2.2.2.2)
     | _ => false)

/-- one refused (api, requested, key) against the model -/
def refusedRowMatches (r : String × Nat × String) : Bool :=
  if r.1 == "crl" then r.2.1 != 0
  else if r.1 == "ocsp" then signingParams ocspPkg (labelOfKeyName r.2.2) r.2.1 == .err
  else signingParams x509Pkg (labelOfKeyName r.2.2) r.2.1 == .err

end ZV.C03
