import ZV.Model.C28
/-! helper lemmas for C28: what the cryptobyte-style readers say about the bytes they consumed -/
namespace ZV.C28

theorem takeN_spec {n : Nat} {bs a b : Bytes} (h : takeN n bs = some (a, b)) :
    bs = a ++ b ∧ a.length = n := by
  unfold takeN at h
  split at h
  · rename_i hle
    simp only [Option.some.injEq, Prod.mk.injEq] at h
    obtain ⟨rfl, rfl⟩ := h
    exact ⟨(List.take_append_drop n bs).symm, by rw [List.length_take]; exact Nat.min_eq_left hle⟩
  · cases h

theorem readU8_spec {bs r : Bytes} {v : Nat} (h : readU8 bs = some (v, r)) :
    ∃ a, bs = a :: r ∧ v = a.toNat := by
  cases bs with
  | nil => cases h
  | cons a t =>
    simp only [readU8, Option.some.injEq, Prod.mk.injEq] at h
    exact ⟨a, by rw [h.2], h.1.symm⟩

theorem readU16_spec {bs r : Bytes} {v : Nat} (h : readU16 bs = some (v, r)) :
    ∃ a b, bs = a :: b :: r ∧ v = u16 a b := by
  match bs, h with
  | a :: b :: t, h =>
    simp only [readU16, Option.some.injEq, Prod.mk.injEq] at h
    exact ⟨a, b, by rw [h.2], h.1.symm⟩

theorem readU24_spec {bs r : Bytes} {v : Nat} (h : readU24 bs = some (v, r)) :
    ∃ a b c, bs = a :: b :: c :: r ∧ v = a.toNat * 65536 + b.toNat * 256 + c.toNat := by
  match bs, h with
  | a :: b :: c :: t, h =>
    simp only [readU24, Option.some.injEq, Prod.mk.injEq] at h
    exact ⟨a, b, c, by rw [h.2], h.1.symm⟩

theorem readVec8_spec {bs v r : Bytes} (h : readVec8 bs = some (v, r)) :
    ∃ a, bs = a :: (v ++ r) ∧ a.toNat = v.length := by
  unfold readVec8 at h
  cases h1 : readU8 bs with
  | none => rw [h1] at h; cases h
  | some p =>
    obtain ⟨n, t⟩ := p
    rw [h1] at h
    obtain ⟨a, rfl, rfl⟩ := readU8_spec h1
    obtain ⟨rfl, hl⟩ := takeN_spec h
    exact ⟨a, rfl, hl.symm⟩

theorem readVec16_spec {bs v r : Bytes} (h : readVec16 bs = some (v, r)) :
    ∃ a b, bs = a :: b :: (v ++ r) ∧ u16 a b = v.length := by
  unfold readVec16 at h
  cases h1 : readU16 bs with
  | none => rw [h1] at h; cases h
  | some p =>
    obtain ⟨n, t⟩ := p
    rw [h1] at h
    obtain ⟨a, b, rfl, rfl⟩ := readU16_spec h1
    obtain ⟨rfl, hl⟩ := takeN_spec h
    exact ⟨a, b, rfl, hl.symm⟩

theorem readVec24_spec {bs v r : Bytes} (h : readVec24 bs = some (v, r)) :
    ∃ a b c, bs = a :: b :: c :: (v ++ r) ∧ a.toNat * 65536 + b.toNat * 256 + c.toNat = v.length := by
  unfold readVec24 at h
  cases h1 : readU24 bs with
  | none => rw [h1] at h; cases h
  | some p =>
    obtain ⟨n, t⟩ := p
    rw [h1] at h
    obtain ⟨a, b, c, rfl, rfl⟩ := readU24_spec h1
    obtain ⟨rfl, hl⟩ := takeN_spec h
    exact ⟨a, b, c, rfl, hl.symm⟩

theorem u16_inj {a b : UInt8} {x y : Nat} (hx : x < 256) (hy : y < 256) (h : u16 a b = x * 256 + y) :
    a.toNat = x ∧ b.toNat = y := by
  unfold u16 at h
  have ha := a.toNat_lt
  have hb := b.toNat_lt
  omega

/-- spec-side reading of a scheme's two wire bytes: the TLS HashAlgorithm the scheme names … -/
def tlsHashOf (a b : UInt8) : Nat :=
  if a.toNat ≤ 6 then a.toNat else if b.toNat = 7 then hIntrinsic else b.toNat
/-- … and its signature family (in the vocabulary of zcrypto's log) -/
def sigKindOf (a b : UInt8) : Nat :=
  if a.toNat ≤ 6 then (if b.toNat = 1 then sigPKCS1v15 else sigECDSA)
  else if b.toNat = 7 then sigEd25519 else sigRSAPSS

set_option hygiene false in
macro "scheme_case" x:num y:num : tactic =>
  `(tactic| (by_cases hc : u16 a b = $x * 256 + $y
             · rw [if_pos hc] at hh
               simp only [Option.some.injEq, Prod.mk.injEq] at hh
               obtain ⟨rfl, rfl⟩ := hh
               obtain ⟨h1, h2⟩ := u16_inj (x := $x) (y := $y) (by omega) (by omega) hc
               simp [tlsHashOf, sigKindOf, h1, h2, hSHA1, hSHA256, hSHA384, hSHA512, hIntrinsic, sigPKCS1v15, sigRSAPSS, sigECDSA, sigEd25519]
             rw [if_neg hc] at hh
             clear hc))

theorem typeAndHash_wire {a b : UInt8} {t h : Nat} (hh : typeAndHash (u16 a b) = some (t, h)) :
    h = tlsHashOf a b ∧ t = sigKindOf a b := by
  unfold typeAndHash at hh
  scheme_case 2 1
  scheme_case 4 1
  scheme_case 5 1
  scheme_case 6 1
  scheme_case 8 4
  scheme_case 8 5
  scheme_case 8 6
  scheme_case 2 3
  scheme_case 4 3
  scheme_case 5 3
  scheme_case 6 3
  scheme_case 8 7
  cases hh

theorem ecdheLog_inv {vers : Nat} {isRSA : Bool} {kt : KeyType} {algs : List Nat} {ok : Bool} {cr sr key : Bytes}
    {l : ECDHELog} (h : ecdheLog vers isRSA kt algs ok cr sr key = some l) :
    ∃ c1 c2 pl pub algB sigType hashId l1 l2,
      key = 3 :: c1 :: c2 :: pl :: (pub ++ algB ++ (l1 :: l2 :: l.sig.raw)) ∧
      pub.length = pl.toNat ∧ l.curve = u16 c1 c2 ∧ u16 l1 l2 = l.sig.raw.length ∧
      (vers ≥ 0x0303 → ∃ a b, algB = [a, b] ∧ typeAndHash (u16 a b) = some (sigType, hashId) ∧
          algs.contains (u16 a b) = true) ∧
      (vers < 0x0303 → algB = [] ∧ legacyTypeAndHash kt = some (sigType, hashId)) ∧
      l.sig.sig = sigType ∧ l.sig.hash = hashId ∧ l.sig.hasSigHash = decide (vers ≥ 0x0303) ∧
      l.sig.version = vers ∧
      l.digest = skxDigest sigType hashId (decide (vers ≥ 0x0303)) (cr ++ sr ++ (3 :: c1 :: c2 :: pl :: pub)) ∧
      ok = true := by
  unfold ecdheLog at h
  match key, h with
  | ct :: c1 :: c2 :: pl :: rest, h =>
    simp only at h
    by_cases g1 : ct ≠ 3
    · rw [if_pos g1] at h; cases h
    rw [if_neg g1] at h
    have hct : ct = 3 := by simpa using g1
    by_cases g2 : pl.toNat > rest.length
    · rw [if_pos g2] at h; cases h
    rw [if_neg g2] at h
    by_cases g3 : (rest.drop pl.toNat).length < 2
    · rw [if_pos g3] at h; cases h
    rw [if_neg g3] at h
    by_cases g4 : u16 c1 c2 ≠ 29 ∧ (coordLen (u16 c1 c2)).isNone = true
    · rw [if_pos g4] at h; cases h
    rw [if_neg g4] at h
    by_cases g5 : (!ok) = true
    · rw [if_pos g5] at h; cases h
    rw [if_neg g5] at h
    have hok : ok = true := by simpa using g5
    generalize halgo : (if decide (vers ≥ 771) = true then
            match List.drop pl.toNat rest with
            | a :: b :: sig1 =>
              if sig1.length < 2 then none
              else
                if (!algs.contains (u16 a b)) = true then none
                else
                  match typeAndHash (u16 a b) with
                  | none => none
                  | some (t, h) => some (t, h, sig1)
            | x => none
          else
            match legacyTypeAndHash kt with
            | none => none
            | some (t, h) => some (t, h, List.drop pl.toNat rest)) = algo at h
    match algo, h with
    | some (sigType, hashId, sig1), h =>
      simp only at h
      by_cases g6 : ((decide (sigType = sigPKCS1v15) || decide (sigType = sigRSAPSS)) != isRSA) = true
      · rw [if_pos g6] at h; cases h
      rw [if_neg g6] at h
      match sig1, h with
      | l1 :: l2 :: sig, h =>
        simp only at h
        by_cases g7 : u16 l1 l2 ≠ sig.length
        · rw [if_pos g7] at h; cases h
        rw [if_neg g7] at h
        have hlen : u16 l1 l2 = sig.length := by simpa using g7
        simp only [Option.some.injEq] at h
        subst h
        have hpl : pl.toNat ≤ rest.length := by omega
        -- the algorithm bytes
        by_cases hv : vers ≥ 771
        · have hd : decide (vers ≥ 771) = true := by simpa using hv
          rw [if_pos hd] at halgo
          match hdr : List.drop pl.toNat rest, halgo with
          | a :: b :: s1, halgo =>
            simp only at halgo
            by_cases g8 : s1.length < 2
            · rw [if_pos g8] at halgo; cases halgo
            rw [if_neg g8] at halgo
            by_cases g9 : (!algs.contains (u16 a b)) = true
            · rw [if_pos g9] at halgo; cases halgo
            rw [if_neg g9] at halgo
            match hta : typeAndHash (u16 a b), halgo with
            | some (t, hh), halgo =>
              simp only [Option.some.injEq, Prod.mk.injEq] at halgo
              obtain ⟨rfl, rfl, rfl⟩ := halgo
              refine ⟨c1, c2, pl, rest.take pl.toNat, [a, b], t, hh, l1, l2, ?_, ?_, rfl, hlen, ?_, ?_, rfl, rfl, rfl, rfl, ?_, hok⟩
              · rw [hct]
                have e := (List.take_append_drop pl.toNat rest).symm
                rw [hdr] at e
                rw [List.append_assoc]
                exact congrArg (fun t => 3 :: c1 :: c2 :: pl :: t) e
              · rw [List.length_take]; exact Nat.min_eq_left hpl
              · intro _; exact ⟨a, b, rfl, hta, by simpa using g9⟩
              · intro hlt; omega
              · rw [hct]
        · have hd : ¬ (decide (vers ≥ 771) = true) := by simpa using hv
          rw [if_neg hd] at halgo
          match hta : legacyTypeAndHash kt, halgo with
          | some (t, hh), halgo =>
            simp only [Option.some.injEq, Prod.mk.injEq] at halgo
            obtain ⟨rfl, rfl, hs⟩ := halgo
            refine ⟨c1, c2, pl, rest.take pl.toNat, [], t, hh, l1, l2, ?_, ?_, rfl, hlen, ?_, ?_, rfl, rfl, rfl, rfl, ?_, hok⟩
            · rw [hct]
              have e := (List.take_append_drop pl.toNat rest).symm
              rw [hs] at e
              rw [List.append_assoc]
              exact congrArg (fun t => 3 :: c1 :: c2 :: pl :: t) e
            · rw [List.length_take]; exact Nat.min_eq_left hpl
            · intro hge; omega
            · intro _; exact ⟨rfl, rfl⟩
            · rw [hct]

theorem dheLog_inv {vers : Nat} {cr sr key : Bytes} {l : DHELog} (h : dheLog vers cr sr key = some l) :
    ∃ p g ys sig0 a1 a2 b1 b2 c1 c2,
      key = a1 :: a2 :: (p ++ b1 :: b2 :: (g ++ c1 :: c2 :: (ys ++ sig0))) ∧
      u16 a1 a2 = p.length ∧ u16 b1 b2 = g.length ∧ u16 c1 c2 = ys.length ∧
      l.p = stripZeros p ∧ l.g = stripZeros g ∧ l.ys = stripZeros ys ∧
      0 < natOf ys ∧ natOf ys < natOf p ∧
      (l.sig, l.digest) = dheSigPart vers cr sr (key.take (key.length - sig0.length)) sig0 := by
  unfold dheLog at h
  match h1 : readVec16 key, h with
  | some (p, k1), h =>
    simp only at h
    match h2 : readVec16 k1, h with
    | some (g, k2), h =>
      simp only at h
      match h3 : readVec16 k2, h with
      | some (ys, sig0), h =>
        simp only at h
        by_cases g1 : natOf ys = 0 ∨ natOf ys ≥ natOf p
        · rw [if_pos g1] at h; cases h
        rw [if_neg g1] at h
        simp only [Option.some.injEq] at h
        subst h
        obtain ⟨a1, a2, rfl, e1⟩ := readVec16_spec h1
        obtain ⟨b1, b2, rfl, e2⟩ := readVec16_spec h2
        obtain ⟨c1, c2, rfl, e3⟩ := readVec16_spec h3
        refine ⟨p, g, ys, sig0, a1, a2, b1, b2, c1, c2, rfl, e1, e2, e3, rfl, rfl, rfl, by omega, by omega, rfl⟩

/-- what `verifyParameters` leaves in the log for a TLS 1.2 DHE signature block `h s …` -/
theorem dheSigPart_tls12 {vers : Nat} {cr sr params rest : Bytes} {hb sb : UInt8} (hv : vers ≥ 0x0303) :
    let r := (dheSigPart vers cr sr params (hb :: sb :: rest)).1
    r.hasSigHash = true ∧ r.hash = hb.toNat ∧ r.sig = sb.toNat ∧
      (r.raw = [] ∨ ∃ a b, rest = a :: b :: r.raw ∧ u16 a b = r.raw.length) := by
  have hd : decide (vers ≥ 771) = true := by simpa using hv
  simp only [dheSigPart, hd, List.length_cons]
  have hlt : ¬ (rest.length + 1 + 1 < 2) := by omega
  rw [if_neg hlt]
  simp only [if_true]
  by_cases g1 : sb.toNat ≠ sigRSA
  · rw [if_pos g1]; simp
  rw [if_neg g1]
  by_cases g2 : rest.length < 2
  · rw [if_pos g2]; simp
  rw [if_neg g2]
  by_cases g3 : (!dheClientHashes.contains hb.toNat) = true
  · rw [if_pos g3]; simp
  rw [if_neg g3]
  match rest with
  | a :: b :: sig =>
    simp only
    by_cases g4 : u16 a b ≠ sig.length
    · rw [if_pos g4]; simp
    rw [if_neg g4]
    refine ⟨rfl, rfl, rfl, Or.inr ⟨a, b, rfl, by simpa using g4⟩⟩
  | [] => simp at g2
  | [_] => simp at g2

inductive Framed24 : Bytes → List Bytes → Prop
  | nil : Framed24 [] []
  | cons (a b c : UInt8) (cert rest : Bytes) (cs : List Bytes) :
      a.toNat * 65536 + b.toNat * 256 + c.toNat = cert.length → Framed24 rest cs →
      Framed24 (a :: b :: c :: (cert ++ rest)) (cert :: cs)

theorem certEntries_framed : ∀ (d : Bytes) (cs : List Bytes), certEntries d = some cs → Framed24 d cs := by
  intro d
  induction d using certEntries.induct with
  | case1 => intro cs h; simp [certEntries] at h; subst h; exact Framed24.nil
  | case2 a b c rest hlt => intro cs h; simp [certEntries, hlt] at h
  | case3 a b c rest hlt hle hnone ih =>
    intro cs h
    rw [certEntries] at h
    simp [hlt, hle, hnone] at h
  | case4 a b c rest hlt hle l hsome ih =>
    intro cs h
    rw [certEntries] at h
    simp only [hlt, if_false, hle, if_true, hsome, Option.some.injEq] at h
    subst h
    have e := (List.take_append_drop (a.toNat * 65536 + b.toNat * 256 + c.toNat) rest).symm
    have := Framed24.cons a b c (rest.take (a.toNat * 65536 + b.toNat * 256 + c.toNat))
      (rest.drop (a.toNat * 65536 + b.toNat * 256 + c.toNat)) l
      (by rw [List.length_take]; exact (Nat.min_eq_left hle).symm) (ih l hsome)
    rw [← e] at this
    exact this
  | case5 a b c rest hlt hle => intro cs h; rw [certEntries] at h; simp [hlt, hle] at h
  | case6 x h1 h2 =>
    intro cs h
    unfold certEntries at h
    split at h
    · exact absurd rfl h1
    · exact absurd rfl (h2 _ _ _ _)
    · cases h

theorem parseSH_fixed {msg : Bytes} {f : SHFixed} {m : SHMsg} {ids : Option (List Nat)}
    (h : parseSH msg = some (f, m, ids)) :
    ∃ hdr v1 v2 sl c1 c2 cm ext,
      msg = hdr ++ (v1 :: v2 :: (f.random ++ (sl :: (f.sid ++ (c1 :: c2 :: cm :: ext))))) ∧
      hdr.length = 4 ∧ f.vers = u16 v1 v2 ∧ f.random.length = 32 ∧ sl.toNat = f.sid.length ∧
      f.suite = u16 c1 c2 ∧ f.comp = cm.toNat ∧ (ext = [] → ids = none) := by
  unfold parseSH at h
  match h0 : takeN 4 msg, h with
  | some (hdr, b0), h =>
    simp only at h
    match h1 : readU16 b0, h with
    | some (vers, b1), h =>
      simp only at h
      match h2 : takeN 32 b1, h with
      | some (random, b2), h =>
        simp only at h
        match h3 : readVec8 b2, h with
        | some (sid, b3), h =>
          simp only at h
          match h4 : readU16 b3, h with
          | some (suite, b4), h =>
            simp only at h
            match h5 : readU8 b4, h with
            | some (comp, b5), h =>
              simp only at h
              obtain ⟨rfl, hl0⟩ := takeN_spec h0
              obtain ⟨v1, v2, rfl, rfl⟩ := readU16_spec h1
              obtain ⟨rfl, hl2⟩ := takeN_spec h2
              obtain ⟨sl, rfl, hsl⟩ := readVec8_spec h3
              obtain ⟨c1, c2, rfl, rfl⟩ := readU16_spec h4
              obtain ⟨cm, rfl, rfl⟩ := readU8_spec h5
              have hf : f = { vers := u16 v1 v2, random := random, sid := sid, suite := u16 c1 c2, comp := cm.toNat } ∧
                  (b5 = [] → ids = none) := by
                by_cases he : b5.isEmpty = true
                · rw [if_pos he] at h
                  simp only [Option.some.injEq, Prod.mk.injEq] at h
                  exact ⟨h.1.symm, fun _ => h.2.2.symm⟩
                · rw [if_neg he] at h
                  refine ⟨?_, fun hb => absurd (by simp [hb]) he⟩
                  match wholeVec16 b5, h with
                  | some blk, h =>
                    simp only at h
                    match splitExts blk, h with
                    | some es, h =>
                      simp only at h
                      match shExts {} es, h with
                      | some m', h =>
                        simp only [Option.some.injEq, Prod.mk.injEq] at h
                        exact h.1.symm
              obtain ⟨rfl, hids⟩ := hf
              exact ⟨hdr, v1, v2, sl, c1, c2, cm, b5, rfl, hl0, rfl, hl2, hsl, rfl, rfl, hids⟩

/-! ### TLS 1.3 Certificate -/

/-- `d` is exactly the concatenation of `len24 ‖ cert ‖ len16 ‖ extensions` for the listed (cert, extensions) pairs -/
inductive Framed13 : Bytes → List (Bytes × Bytes) → Prop
  | nil : Framed13 [] []
  | cons (a b c : UInt8) (cert : Bytes) (e1 e2 : UInt8) (ex rest : Bytes) (es : List (Bytes × Bytes)) :
      a.toNat * 65536 + b.toNat * 256 + c.toNat = cert.length → u16 e1 e2 = ex.length → Framed13 rest es →
      Framed13 (a :: b :: c :: (cert ++ e1 :: e2 :: (ex ++ rest))) ((cert, ex) :: es)

theorem drop_after_entry {rest r2 : Bytes} {e1 e2 : UInt8} {n k : Nat} (h : rest.drop n = e1 :: e2 :: r2) :
    rest.drop (n + 2 + k) = r2.drop k := by
  have e : n + 2 + k = n + (k + 2) := by omega
  rw [e, ← List.drop_drop, h]
  rfl

theorem cert13Entries_framed : ∀ (d : Bytes) (es : List (Bytes × Bytes)), cert13Entries d = some es → Framed13 d es := by
  intro d
  induction d using cert13Entries.induct with
  | case1 => intro es h; simp [cert13Entries] at h; subst h; exact Framed13.nil
  | case2 a b c rest hle e1 e2 r2 hdrop hle2 hnone ih =>
    intro es h
    rw [cert13Entries] at h
    simp [hle, hdrop, hle2, hnone] at h
  | case3 a b c rest hle e1 e2 r2 hdrop hle2 l hsome ih =>
    intro es h
    rw [cert13Entries] at h
    simp only [hle, if_true, hdrop, hle2, hsome, Option.some.injEq] at h
    subst h
    have e := (List.take_append_drop (a.toNat * 65536 + b.toNat * 256 + c.toNat) rest).symm
    have e' := (List.take_append_drop (u16 e1 e2) r2).symm
    have ih' := ih l hsome
    rw [drop_after_entry hdrop] at ih'
    have := Framed13.cons a b c (rest.take (a.toNat * 65536 + b.toNat * 256 + c.toNat)) e1 e2
      (r2.take (u16 e1 e2)) (r2.drop (u16 e1 e2)) l
      (by rw [List.length_take]; exact (Nat.min_eq_left hle).symm)
      (by rw [List.length_take]; exact (Nat.min_eq_left hle2).symm) ih'
    rw [← e', ← hdrop, ← e] at this
    exact this
  | case4 a b c rest hle e1 e2 r2 hdrop hnle =>
    intro es h
    rw [cert13Entries] at h
    simp [hle, hdrop, hnle] at h
  | case5 a b c rest hle hno =>
    intro es h
    rw [cert13Entries] at h
    simp only [hle, if_true] at h
    cases h
  | case6 a b c rest hnle => intro es h; rw [cert13Entries] at h; simp [hnle] at h
  | case7 x h1 h2 =>
    intro es h
    unfold cert13Entries at h
    split at h
    · exact absurd rfl h1
    · exact absurd rfl (h2 _ _ _ _)
    · cases h

theorem parseCerts13_spec {msg : Bytes} {r : Cert13} (h : parseCerts13 msg = some r) :
    ∃ hdr a b c lst es, msg = hdr ++ (0 :: a :: b :: c :: lst) ∧ hdr.length = 4 ∧
      a.toNat * 65536 + b.toNat * 256 + c.toNat = lst.length ∧ Framed13 lst es ∧ r.certs = es.map (·.1) := by
  unfold parseCerts13 at h
  by_cases h4 : msg.length < 4
  · rw [if_pos h4] at h; cases h
  rw [if_neg h4] at h
  match h1 : readVec8 (msg.drop 4), h with
  | some ([], r1), h =>
    simp only at h
    match h2 : readVec24 r1, h with
    | some (lst, []), h =>
      simp only at h
      match h3 : cert13Entries lst, h with
      | some es, h =>
        simp only at h
        obtain ⟨z, e1, hz⟩ := readVec8_spec h1
        obtain ⟨a, b, c, e2, hl⟩ := readVec24_spec h2
        have hz0 : z = 0 := by
          have : z.toNat = 0 := by simpa using hz
          exact UInt8.toNat_inj.mp (by simpa using this)
        subst hz0
        have hm : msg = msg.take 4 ++ (0 :: a :: b :: c :: lst) := by
          have := (List.take_append_drop 4 msg).symm
          rw [e1, e2] at this
          simpa using this
        refine ⟨msg.take 4, a, b, c, lst, es, hm, by rw [List.length_take]; omega, hl, cert13Entries_framed lst es h3, ?_⟩
        by_cases hall : (es.all fun e => (splitExts e.2).isSome) = true
        · rw [if_pos hall] at h
          match es, h with
          | [], h => simp only [Option.some.injEq] at h; subst h; rfl
          | (c0, ex) :: t, h =>
            simp only at h
            match splitExts ex, h with
            | some xs, h =>
              simp only at h
              match cert13LeafExts false false xs, h with
              | some (o, s), h =>
                simp only [Option.some.injEq] at h
                subst h; rfl
        · rw [if_neg hall] at h; cases h

end ZV.C28
