import ZV.Model.C02Names
import ZV.Proofs.C02
namespace ZV.C02

/-! ### purgeNameDuplicates over any strict total order given by explicit facts
    (so that it applies to core's `<` on `List UInt8` without any instance juggling) -/

/-- `<` is a strict total order -/
structure StrictTotal (α : Type) [LT α] : Prop where
  irrefl : ∀ a : α, ¬ a < a
  trans : ∀ a b c : α, a < b → b < c → a < c
  tri : ∀ a b : α, a < b ∨ a = b ∨ b < a

section purgeGen
variable {α : Type} [LT α] [DecidableRel (α := α) (· < ·)] [DecidableEq α]

theorem mem_insertSet' (a b : α) (l : List α) : b ∈ insertSet a l ↔ b = a ∨ b ∈ l := by
  induction l with
  | nil => simp [insertSet]
  | cons c l ih =>
    simp only [insertSet]
    split
    · simp
    · split
      · rename_i h1 h2; subst h2; simp
      · simp [ih]; tauto

theorem sorted_insertSet' (o : StrictTotal α) (a : α) (l : List α) (h : l.Pairwise (· < ·)) :
    (insertSet a l).Pairwise (· < ·) := by
  induction l with
  | nil => simp [insertSet]
  | cons c l ih =>
    simp only [insertSet]
    have hc := List.pairwise_cons.mp h
    split
    · rename_i hac
      refine List.pairwise_cons.mpr ⟨?_, h⟩
      intro x hx
      rcases List.mem_cons.mp hx with hx | hx
      · rw [hx]; exact hac
      · exact o.trans _ _ _ hac (hc.1 x hx)
    · split
      · exact h
      · rename_i h1 h2
        refine List.pairwise_cons.mpr ⟨?_, ih hc.2⟩
        intro x hx
        rcases (mem_insertSet' a x l).mp hx with hx | hx
        · rw [hx]
          rcases o.tri a c with h3 | h3 | h3
          · exact absurd h3 h1
          · exact absurd h3 h2
          · exact h3
        · exact hc.1 x hx

theorem mem_purge' (b : α) (l : List α) : b ∈ purge l ↔ b ∈ l := by
  induction l with
  | nil => simp [purge]
  | cons a l ih =>
    have : purge (a :: l) = insertSet a (purge l) := rfl
    rw [this, mem_insertSet', ih]; simp

theorem sorted_purge' (o : StrictTotal α) (l : List α) : (purge l).Pairwise (· < ·) := by
  induction l with
  | nil => simp [purge]
  | cons a l ih =>
    have : purge (a :: l) = insertSet a (purge l) := rfl
    rw [this]; exact sorted_insertSet' o a _ ih

/-- two strictly increasing lists with the same elements are equal -/
theorem eq_of_sorted_of_mem_iff' (o : StrictTotal α) (l₁ l₂ : List α) (h₁ : l₁.Pairwise (· < ·))
    (h₂ : l₂.Pairwise (· < ·)) (h : ∀ x, x ∈ l₁ ↔ x ∈ l₂) : l₁ = l₂ := by
  have ne : ∀ a b : α, a < b → a ≠ b := fun a b hab e => o.irrefl a (by rw [e] at hab ⊢; exact hab)
  have n₁ : l₁.Nodup := h₁.imp (fun hlt => ne _ _ hlt)
  have n₂ : l₂.Nodup := h₂.imp (fun hlt => ne _ _ hlt)
  have hp : l₁.Perm l₂ := (List.perm_ext_iff_of_nodup n₁ n₂).mpr h
  exact List.Perm.eq_of_pairwise (fun a b _ _ hab hba => absurd (o.trans _ _ _ hab hba) (o.irrefl a)) h₁ h₂ hp

end purgeGen

/-- Go's string order (bytewise lexicographic) is a strict total order -/
theorem strTotal : StrictTotal Str where
  irrefl a := List.lt_irrefl a
  trans _ _ _ h1 h2 := List.lt_trans h1 h2
  tri a b := by
    by_cases h1 : a < b
    · exact Or.inl h1
    · by_cases h2 : b < a
      · exact Or.inr (Or.inr h2)
      · exact Or.inr (Or.inl (List.le_antisymm (List.not_lt.mp h2) (List.not_lt.mp h1)))

/-! ### isValidName -/

/-- the name with every leading `?.` / `*.` label removed -/
def stripMarks : Str → Str
  | x :: y :: rest => if (x = 63 ∨ x = 42) ∧ y = 46 then stripMarks rest else x :: y :: rest
  | s => s

theorem hasPrefix2_short (a b : UInt8) (s : Str) (h : s.length < 2) : hasPrefix2 a b s = false := by
  match s, h with
  | [], _ => rfl
  | [_], _ => rfl

theorem isValidName_eq (isURL : Str → Bool) (name : Str) :
    isValidName isURL name = .ok (isURL (stripMarks name)) := by
  fun_induction isValidName isURL name with
  | case1 x y rest hc ih =>
    rw [ih]
    have : (x = 63 ∨ x = 42) ∧ y = 46 := by
      simp [hasPrefix2] at hc
      rcases hc with ⟨h1, h2⟩ | ⟨h1, h2⟩ <;> simp [h1, h2]
    simp [stripMarks, this]
  | case2 name hc hne =>
    exfalso
    match name, hc, hne with
    | [], hc, _ => simp [hasPrefix2] at hc
    | [_], hc, _ => simp [hasPrefix2] at hc
    | x :: y :: rest, _, hne => exact hne x y rest rfl
  | case3 name hc =>
    congr 2
    match name, hc with
    | [], _ => rfl
    | [_], _ => rfl
    | x :: y :: rest, hc =>
      simp [hasPrefix2] at hc
      have : ¬ ((x = 63 ∨ x = 42) ∧ y = 46) := by
        rintro ⟨h1 | h1, h2⟩
        · exact hc.1 h1 h2
        · exact hc.2 h1 h2
      simp [stripMarks, this]

/-! ### CollectAllNames -/

/-- a DNS SAN is listed iff it is valid after stripping the marks, or has no dot at all -/
def dnsKept (isURL : Str → Bool) (n : Str) : Bool := isURL (stripMarks n) || !containsDot n

theorem dnsLoop_eq (isURL : Str → Bool) (names dns : List Str) :
    dnsLoop isURL names dns = .ok (names ++ dns.filter (dnsKept isURL)) := by
  induction dns generalizing names with
  | nil => simp [dnsLoop]
  | cons n rest ih =>
    simp only [dnsLoop, isValidName_eq]
    cases hv : isURL (stripMarks n) with
    | true => simp [ih, dnsKept, hv]
    | false =>
      cases hd : containsDot n with
      | true => simp [ih, dnsKept, hv, hd]
      | false => simp [ih, dnsKept, hv, hd]

/-- the list handed to `purgeNameDuplicates`, in closed form -/
def candidates (isURL : Str → Bool) (c : NameCert) : List Str :=
  (if isURL (stripMarks c.commonName) then [c.commonName] else []) ++ c.dnsNames.filter (dnsKept isURL) ++
    c.uris.filter isURL ++ c.ipTexts.filter isURL

theorem collectCandidates_eq (isURL : Str → Bool) (c : NameCert) :
    collectCandidates isURL c = .ok (candidates isURL c) := by
  simp [collectCandidates, isValidName_eq, dnsLoop_eq, candidates]

theorem collectAllNames_eq (isURL : Str → Bool) (c : NameCert) :
    collectAllNames isURL c = .ok (purge (candidates isURL c)) := by
  simp [collectAllNames, collectCandidates_eq]

theorem mem_candidates (isURL : Str → Bool) (c : NameCert) (x : Str) :
    x ∈ candidates isURL c ↔
      (x = c.commonName ∧ isURL (stripMarks x) = true) ∨ (x ∈ c.dnsNames ∧ dnsKept isURL x = true) ∨
      (x ∈ c.uris ∧ isURL x = true) ∨ (x ∈ c.ipTexts ∧ isURL x = true) := by
  unfold candidates
  by_cases h : isURL (stripMarks c.commonName) = true
  · simp only [h, if_true, List.mem_append, List.mem_filter, List.mem_singleton]
    constructor
    · rintro (((h1 | h1) | h1) | h1)
      · exact Or.inl ⟨h1, by rw [h1]; exact h⟩
      · exact Or.inr (Or.inl h1)
      · exact Or.inr (Or.inr (Or.inl h1))
      · exact Or.inr (Or.inr (Or.inr h1))
    · rintro (h1 | h1 | h1 | h1)
      · exact Or.inl (Or.inl (Or.inl h1.1))
      · exact Or.inl (Or.inl (Or.inr h1))
      · exact Or.inl (Or.inr h1)
      · exact Or.inr h1
  · simp only [h, List.mem_append, List.mem_filter]
    constructor
    · rintro (((h1 | h1) | h1) | h1)
      · simp at h1
      · exact Or.inr (Or.inl h1)
      · exact Or.inr (Or.inr (Or.inl h1))
      · exact Or.inr (Or.inr (Or.inr h1))
    · rintro (h1 | h1 | h1 | h1)
      · exact absurd (by rw [← h1.1]; exact h1.2) h
      · exact Or.inl (Or.inl (Or.inr h1))
      · exact Or.inl (Or.inr h1)
      · exact Or.inr h1

end ZV.C02
