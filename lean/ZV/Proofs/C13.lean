import ZV.Model.C13
/-! helper lemmas for C13: inversion of `parse`, `checkSigs`, `findSerial`. -/
namespace ZV.C13
variable {K B : Type}

/-- everything `parse … = ok o` went through, as one conjunction. -/
structure Accepted (verify : K → Nat → B → B → Bool) (inp : Input K B) (cert : Option Int)
    (issuer : Option K) (o : Out K B) : Prop where
  outer : inp.outerOk = true
  status : inp.status = 0
  type : inp.typeOk = true
  basic : inp.basicOk = true
  count : ¬ (inp.singles.length = 0 ∨ (cert = none ∧ inp.singles.length > 1))
  sel : selectSingle cert inp.singles = .ok (o.idx, o.single)
  resp : responder inp.responderTag inp.responderOk = some o.byName
  sigs : checkSigs verify inp issuer = some o.certificate
  crit : o.single.critical = false
  hash : o.single.hash ≠ 0
  st : o.status = statusOf o.single

theorem parse_ok_iff (verify : K → Nat → B → B → Bool) (inp : Input K B) (cert : Option Int)
    (issuer : Option K) (o : Out K B) :
    parse verify inp cert issuer = .ok o ↔ Accepted verify inp cert issuer o := by
  constructor
  · intro h
    unfold parse at h
    split at h; · cases h
    split at h; · cases h
    split at h; · cases h
    split at h; · cases h
    split at h; · cases h
    rename_i h1 h2 h3 h4 h5
    split at h
    · cases h
    · cases h
    · rename_i idx sr hsel
      split at h
      · cases h
      · rename_i byName hresp
        split at h
        · cases h
        · rename_i c hsig
          split at h; · cases h
          split at h; · cases h
          rename_i hc hh
          cases h
          refine ⟨by simpa using h1, by simpa using h2, by simpa using h3, by simpa using h4, h5, hsel, hresp, hsig,
            by simpa using hc, hh, rfl⟩
  · intro a
    obtain ⟨h1, h2, h3, h4, h5, hsel, hresp, hsig, hc, hh, hst⟩ := a
    unfold parse
    simp only [h1, h2, h3, h4, h5, hsel, hresp, hsig, hc, hh]
    cases o
    simp_all

theorem findSerial_spec (s : Int) (l : List Single) (base i : Nat) (x : Single)
    (h : findSerial s l base = some (i, x)) :
    base ≤ i ∧ l[i - base]? = some x ∧ x.serial = s ∧ ∀ j, j < i - base → ∀ y, l[j]? = some y → y.serial ≠ s := by
  induction l generalizing base with
  | nil => simp [findSerial] at h
  | cons a t ih =>
    unfold findSerial at h
    split at h
    · rename_i heq
      cases h
      simp [heq]
    · rename_i hne
      obtain ⟨hb, hget, hser, hall⟩ := ih (base + 1) h
      have hi : i - base = (i - (base + 1)) + 1 := by omega
      refine ⟨by omega, ?_, hser, ?_⟩
      · rw [hi]; simpa using hget
      · intro j hj y hy
        cases j with
        | zero =>
          simp at hy
          subst hy
          exact fun e => hne e.symm
        | succ j' =>
          simp at hy
          exact hall j' (by omega) y hy

theorem findSerial_none (s : Int) (l : List Single) (base : Nat) :
    findSerial s l base = none ↔ ∀ x ∈ l, x.serial ≠ s := by
  induction l generalizing base with
  | nil => simp [findSerial]
  | cons a t ih =>
    unfold findSerial
    split
    · rename_i heq
      simp [heq]
    · rename_i hne
      rw [ih]
      simp only [List.mem_cons, forall_eq_or_imp]
      constructor
      · intro h; exact ⟨fun e => hne e.symm, h⟩
      · intro h; exact h.2

theorem checkSigs_issuer (verify : K → Nat → B → B → Bool) (inp : Input K B) (ik : K) (c : Option (ECert K B))
    (h : checkSigs verify inp (some ik) = some c) :
    (inp.certs = [] ∧ c = none ∧ verify ik inp.alg inp.tbs inp.sig = true) ∨
    (∃ e rest, inp.certs = some e :: rest ∧ c = some e ∧ verify e.key inp.alg inp.tbs inp.sig = true ∧
      verify ik e.alg e.tbs e.sig = true) := by
  unfold checkSigs at h
  cases hc : inp.certs with
  | nil =>
    simp only [hc] at h
    cases hv : verify ik inp.alg inp.tbs inp.sig with
    | false => simp [hv] at h
    | true =>
      simp [hv] at h
      left; exact ⟨rfl, h.symm, rfl⟩
  | cons c0 rest =>
    simp only [hc] at h
    cases c0 with
    | none => simp at h
    | some e =>
      simp only at h
      cases hv : verify e.key inp.alg inp.tbs inp.sig with
      | false => simp [hv] at h
      | true =>
        cases hv2 : verify ik e.alg e.tbs e.sig with
        | false => simp [hv, hv2] at h
        | true =>
          simp [hv, hv2] at h
          right; exact ⟨e, rest, rfl, h.symm, hv, hv2⟩

theorem checkSigs_nil_issuer (verify : K → Nat → B → B → Bool) (inp : Input K B) (c : Option (ECert K B))
    (h : checkSigs verify inp none = some c) :
    (inp.certs = [] ∧ c = none) ∨
    (∃ e rest, inp.certs = some e :: rest ∧ c = some e ∧ verify e.key inp.alg inp.tbs inp.sig = true) := by
  unfold checkSigs at h
  cases hc : inp.certs with
  | nil =>
    simp [hc] at h
    left; exact ⟨rfl, h.symm⟩
  | cons c0 rest =>
    simp only [hc] at h
    cases c0 with
    | none => simp at h
    | some e =>
      simp only at h
      cases hv : verify e.key inp.alg inp.tbs inp.sig with
      | false => simp [hv] at h
      | true =>
        simp [hv] at h
        right; exact ⟨e, rest, rfl, h.symm, hv⟩

/-! ### `signingParams` -/

theorem findRow_mem (req : Nat) (l : List SigRow) (r : SigRow) (h : findRow req l = some r) :
    r ∈ l ∧ r.algo = req := by
  induction l with
  | nil => simp [findRow] at h
  | cons x xs ih =>
    unfold findRow at h
    split at h
    · rename_i hx
      cases h
      exact ⟨List.mem_cons_self, hx⟩
    · exact ⟨List.mem_cons_of_mem _ (ih h).1, (ih h).2⟩

/-- the defaults of the key-type / curve switch name the digest `CheckSignatureFromKey` uses for them. -/
theorem defaultParams_consistent (k : KeyKind) (pka h a : Nat) (hd : defaultParams k = some (pka, h, a)) :
    verifyHash a = some h ∧ h ≠ 0 := by
  cases k <;> simp [defaultParams] at hd <;> obtain ⟨_, rfl, rfl⟩ := hd <;> decide

end ZV.C13
