import ZV.Proofs.Der0B128
/-! identifier / length octets of both codecs. -/
open ZV ZV.Der0
namespace ZV.Der0

/-! ### encoding/asn1 lengths -/
theorem EA.lengthBytes_length (i n : Nat) : (EA.lengthBytes i n).length = n := by
  induction n with
  | zero => rfl
  | succ n ih => simp [EA.lengthBytes, ih]

theorem EA.lengthBytes_snoc (i k : Nat) :
    EA.lengthBytes i (k + 1) = EA.lengthBytes (i / 256) k ++ [UInt8.ofNat (i % 256)] := by
  induction k with
  | zero => simp [EA.lengthBytes]
  | succ k ih =>
    rw [EA.lengthBytes, ih]
    simp only [EA.lengthBytes, List.cons_append]
    congr 3
    rw [Nat.div_div_eq_div_mul, Nat.pow_succ, Nat.mul_comm]

theorem EA.lengthLength_small {i : Nat} (h : i ≤ 255) : EA.lengthLength i = 1 := by
  rw [EA.lengthLength]; simp; omega
theorem EA.lengthLength_big {i : Nat} (h : i > 255) : EA.lengthLength i = EA.lengthLength (i / 256) + 1 := by
  rw [EA.lengthLength]; simp [h]

/-- `appendLength` writes the minimal big-endian representation -/
theorem EA.appendLength_eq (i : Nat) (h : 0 < i) : EA.appendLength i = natToBytes i := by
  unfold EA.appendLength
  induction i using Nat.strongRecOn with
  | _ i ih =>
    by_cases hs : i ≤ 255
    · rw [EA.lengthLength_small hs, natToBytes_step (by omega)]
      have : i / 256 = 0 := by omega
      simp [EA.lengthBytes, this, natToBytes_zero]
    · rw [EA.lengthLength_big (by omega), EA.lengthBytes_snoc, ih (i / 256) (by omega) (by omega),
        ← natToBytes_step (by omega)]

theorem EA.lenLoop_canon (r : Bytes) (n acc l : Nat) (r'' : Bytes)
    (h : EA.lenLoop r n acc = .ok (l, r'')) :
    ∃ pre, r = pre ++ r'' ∧ pre.length = n ∧ l = natOfBytesAux acc pre ∧ (acc = 0 → headNZ pre) := by
  induction n generalizing r acc with
  | zero =>
    simp only [EA.lenLoop, Res.ok.injEq, Prod.mk.injEq] at h
    exact ⟨[], by simp [h.2], rfl, by simp [natOfBytesAux, h.1], fun _ => trivial⟩
  | succ n ih =>
    cases r with
    | nil => simp [EA.lenLoop] at h
    | cons b t =>
      simp only [EA.lenLoop] at h
      split at h
      · simp at h
      · split at h
        · simp at h
        · rename_i hbig hz
          obtain ⟨pre, h1, h2, h3, _⟩ := ih t (acc * 256 + b.toNat) h
          refine ⟨b :: pre, by simp [h1], by simp [h2], by simpa [natOfBytesAux] using h3, ?_⟩
          intro ha
          subst ha
          simp only [headNZ]
          intro hb0; subst hb0; simp at hz

/-- the length octets written by `appendTagAndLength` -/
def EA.lenOctets (l : Nat) : Bytes :=
  if l ≥ 128 then UInt8.ofNat (128 + EA.lengthLength l) :: EA.appendLength l else [UInt8.ofNat l]

theorem EA.parseLength_canon {r : Bytes} {l : Nat} {r' : Bytes}
    (h : EA.parseLength r = .ok (l, r')) : ∃ pre, r = pre ++ r' ∧ EA.lenOctets l = pre := by
  cases r with
  | nil => simp [EA.parseLength] at h
  | cons b t =>
    have hb := toNat_lt b
    simp only [EA.parseLength] at h
    split at h
    · simp only [Res.ok.injEq, Prod.mk.injEq] at h
      refine ⟨[b], by simp [h.2], ?_⟩
      obtain ⟨hl, _⟩ := h
      subst hl
      have hl : ¬ b.toNat ≥ 128 := by omega
      simp only [EA.lenOctets, hl, if_false, UInt8.ofNat_toNat]
    · split at h
      · simp at h
      · rename_i hlong hnz
        split at h
        · rename_i l0 r0 hloop
          split at h
          · simp at h
          · rename_i hl128
            simp only [Res.ok.injEq, Prod.mk.injEq] at h
            obtain ⟨hl, hr⟩ := h
            subst hl; subst hr
            obtain ⟨pre, h1, h2, h3, h4⟩ := EA.lenLoop_canon t _ 0 l0 r0 hloop
            have hval : l0 = natOfBytes pre := by simpa [natOfBytes] using h3
            have henc : EA.appendLength l0 = pre := by
              rw [EA.appendLength_eq l0 (by omega), hval, natToBytes_natOfBytes pre (h4 rfl)]
            have hll : EA.lengthLength l0 = b.toNat % 128 := by
              have := congrArg List.length henc
              rw [EA.appendLength, EA.lengthBytes_length] at this
              omega
            refine ⟨b :: pre, by simp [h1], ?_⟩
            have hge : l0 ≥ 128 := by omega
            simp only [EA.lenOctets, hge, if_true, henc, hll]
            congr 1
            apply ofNat_eq_of; omega
        · simp at h
        · simp at h

theorem EA.parseTagAndLength_canon {bs : Bytes} {t : EA.TagAndLength} {rest : Bytes}
    (h : EA.parseTagAndLength bs = .ok (t, rest)) :
    ∃ pre, bs = pre ++ rest ∧ EA.appendTagAndLength t = pre := by
  cases bs with
  | nil => simp [EA.parseTagAndLength] at h
  | cons b r1 =>
    have hb := toNat_lt b
    simp only [EA.parseTagAndLength] at h
    split at h
    · rename_i htag
      split at h
      · rename_i tg r2 hp
        split at h
        · simp at h
        · rename_i hmin
          split at h
          · rename_i l r3 hl
            simp only [Res.ok.injEq, Prod.mk.injEq] at h
            obtain ⟨ht, hr⟩ := h
            subst ht; subst hr
            obtain ⟨p1, e1, _, e2⟩ := EA.parseBase128Int_canon hp
            obtain ⟨p2, e3, e4⟩ := EA.parseLength_canon hl
            refine ⟨b :: p1 ++ p2, by simp [e1, e3], ?_⟩
            have hge : tg ≥ 31 := by omega
            simp only [EA.appendTagAndLength, hge, if_true, e2]
            have : (if l ≥ 128 then UInt8.ofNat (128 + EA.lengthLength l) :: EA.appendLength l
                else [UInt8.ofNat l]) = p2 := e4
            rw [this]
            simp only [List.cons_append, List.cons.injEq, and_true]
            apply ofNat_eq_of
            by_cases hc : (b.toNat / 32) % 2 = 1 <;> simp [hc] <;> omega
          · simp at h
          · simp at h
      · simp at h
      · simp at h
    · rename_i htag
      split at h
      · rename_i l r3 hl
        simp only [Res.ok.injEq, Prod.mk.injEq] at h
        obtain ⟨ht, hr⟩ := h
        subst ht; subst hr
        obtain ⟨p2, e3, e4⟩ := EA.parseLength_canon hl
        refine ⟨b :: p2, by simp [e3], ?_⟩
        have hlt : ¬ (b.toNat % 32 ≥ 31) := by omega
        simp only [EA.appendTagAndLength, hlt, if_false]
        have : (if l ≥ 128 then UInt8.ofNat (128 + EA.lengthLength l) :: EA.appendLength l
            else [UInt8.ofNat l]) = p2 := e4
        rw [this]
        simp only [List.cons_append, List.nil_append, List.cons.injEq, and_true]
        apply ofNat_eq_of
        by_cases hc : (b.toNat / 32) % 2 = 1 <;> simp [hc] <;> omega
      · simp at h
      · simp at h

end ZV.Der0
