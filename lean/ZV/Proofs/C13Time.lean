import ZV.Model.C13Enc
import ZV.Proofs.TimeRT
/-! `C13Der.parseTime` (the time-content decoder tied to the code by T2 `c13 time`) on the image of the encoder
    (`EA.appendGeneralizedTime` of ZV.Model.Time on UTC times): it returns the instant, and so agrees there with
    `EA.parseGeneralizedTime`. -/
namespace ZV.C13
open ZV ZV.Time

theorem digit?_digit (n : Nat) : digit? (digit n) = some (n % 10) := by
  have h := digit_toNat n
  unfold digit?
  rw [h]
  rw [if_pos (by omega)]
  congr 1
  omega

theorem two?_digits (v : Nat) (hv : v < 100) (r : Bytes) : two? (digit (v / 10) :: digit v :: r) = some (v, r) := by
  unfold two?
  simp only [digit?_digit]
  congr 2
  omega

theorem two?_twoDigits (v : Nat) (hv : v < 100) (r : Bytes) : two? (EA.twoDigits v ++ r) = some (v, r) := by
  simpa [EA.twoDigits] using two?_digits v hv r

theorem isLeap_eq (y : Nat) : C13.isLeap y = Time.isLeap (y : Int) := by
  unfold C13.isLeap Time.isLeap
  congr 1
  apply propext
  omega

theorem daysIn_eq (m y : Nat) (h1 : 1 ≤ m) (h2 : m ≤ 12) : C13.daysIn m y = Time.daysIn m (y : Int) := by
  have : m = 1 ∨ m = 2 ∨ m = 3 ∨ m = 4 ∨ m = 5 ∨ m = 6 ∨ m = 7 ∨ m = 8 ∨ m = 9 ∨ m = 10 ∨ m = 11 ∨ m = 12 := by omega
  rcases this with rfl | rfl | rfl | rfl | rfl | rfl | rfl | rfl | rfl | rfl | rfl | rfl <;>
    simp [C13.daysIn, Time.daysIn, isLeap_eq]

theorem daysFromCivil_eq' (y m d : Nat) : C13.daysFromCivil y m d = Time.daysFromCivil (y : Int) m d := by
  unfold C13.daysFromCivil Time.daysFromCivil
  by_cases h : m ≤ 2
  · have h' : ¬ m > 2 := by omega
    simp only [h, h', if_true, if_false]
  · have h' : m > 2 := by omega
    simp only [h, h', if_true, if_false]

/-- the GeneralizedTime text of a normalised UTC date reads back as its Unix seconds -/
theorem parseTime_gen_fields (y mo d h mi s : Nat) (hy : y ≤ 9999) (hmo1 : 1 ≤ mo) (hmo2 : mo ≤ 12) (hd1 : 1 ≤ d)
    (hd2 : d ≤ Time.daysIn mo (y : Int)) (hh : h < 24) (hmi : mi < 60) (hs : s < 60) :
    parseTime 24 (EA.fourDigits y ++ (EA.twoDigits mo ++ EA.twoDigits d ++ EA.twoDigits h ++ EA.twoDigits mi ++ EA.twoDigits s ++ [90])) =
      .ok (Time.daysFromCivil (y : Int) mo d * 86400 + ((h * 3600 + mi * 60 + s : Nat) : Int)) := by
  have hd31 := daysIn_le mo (y : Int)
  have e1 : EA.fourDigits y = EA.twoDigits (y / 100) ++ EA.twoDigits (y % 100) := by
    simp only [EA.fourDigits, EA.twoDigits, List.cons_append, List.nil_append]
    have a : digit (y / 1000) = digit (y / 100 / 10) := by congr 1; omega
    have b : digit (y / 10) = digit (y % 100 / 10) := by
      unfold digit; congr 2; omega
    have c : digit y = digit (y % 100) := by unfold digit; congr 2; omega
    rw [a, b, c]
  have hz : zone? [90] = some 0 := by decide
  unfold parseTime
  rw [if_pos rfl, e1]
  simp only [List.append_assoc]
  rw [two?_twoDigits _ (by omega)]
  simp only []
  rw [two?_twoDigits _ (by omega)]
  simp only []
  unfold timeTail
  rw [two?_twoDigits _ (by omega)]
  simp only []
  rw [two?_twoDigits _ (by omega)]
  simp only []
  rw [two?_twoDigits _ (by omega)]
  simp only []
  rw [two?_twoDigits _ (by omega)]
  simp only [if_true]
  rw [two?_twoDigits _ (by omega)]
  simp only [hz]
  have hyy : y / 100 * 100 + y % 100 = y := by omega
  rw [hyy, daysIn_eq mo y hmo1 hmo2, daysFromCivil_eq']
  rw [if_neg (by omega)]
  rw [Int.sub_zero]

/-- **`C13Der.parseTime` on the image of the encoder**: for every instant whose UTC year is 0..9999, the content that
    `appendGeneralizedTime` (ZV.Model.Time) writes is read by `parseTime 24` as exactly that instant -/
theorem parseTime_genText (u : Int) (hy0 : 0 ≤ (utcTime u).year) (hy1 : (utcTime u).year ≤ 9999) :
    parseTime 24 (genText (utcTime u)) = .ok u := by
  have hv := (valid_iff _).1 (ofUnix_valid u 0)
  obtain ⟨hm1, hm2, hd1, hd2, hh, hmi, hs⟩ := hv
  have hu := toUnix_ofUnix u 0
  have hyr : ((ofUnix u 0).year.toNat : Int) = (ofUnix u 0).year := Int.toNat_of_nonneg hy0
  have hz : zoneText (utcTime u).off = [90] := by
    show zoneText 0 = [90]
    decide
  unfold genText
  rw [hz]
  unfold fieldsText
  have hc : (utcTime u).civil = ofUnix u 0 := rfl
  have hyy : (utcTime u).year = (ofUnix u 0).year := rfl
  rw [hc, hyy]
  have := parseTime_gen_fields (ofUnix u 0).year.toNat (ofUnix u 0).month (ofUnix u 0).day (ofUnix u 0).hour (ofUnix u 0).min
    (ofUnix u 0).sec (by rw [hyy] at hy1; omega) hm1 hm2 hd1 (by rw [hyr]; exact hd2) hh hmi hs
  rw [hyr] at this
  simp only [List.append_assoc] at this ⊢
  rw [this]
  congr 1
  unfold toUnix at hu
  have hoff : (ofUnix u 0).off = 0 := rfl
  rw [hoff] at hu
  generalize Time.daysFromCivil (ofUnix u 0).year (ofUnix u 0).month (ofUnix u 0).day = D at hu ⊢
  omega

end ZV.C13
