import ZV.Model.C23
import Mathlib.Tactic.Ring
/-! byte-string ↔ integer lemmas for `ZV.Props.C23` (`os2ip`, `natToBytesBE`, `sizeBytes`). -/
namespace ZV.C23
open ZV ZV.Hash

/-! ### `modPow` is modular exponentiation -/

theorem modPow_eq (a e n : Nat) : modPow a e n = a ^ e % n := by
  induction e using Nat.strong_induction_on with
  | _ e ih =>
    rw [modPow]
    split
    · next h => subst h; simp
    · next h =>
      have hlt : e / 2 < e := Nat.div_lt_self (Nat.pos_of_ne_zero h) (by decide)
      have hpow : a ^ e = a ^ (e / 2) * a ^ (e / 2) * a ^ (e % 2) := by
        rw [← pow_add, ← pow_add]; congr 1; omega
      simp only [ih (e / 2) hlt]
      split
      · next h1 =>
        rw [hpow, h1, pow_one]
        simp [Nat.mul_mod]
      · next h1 =>
        have h0 : e % 2 = 0 := by omega
        rw [hpow, h0, pow_zero, mul_one]
        simp [Nat.mul_mod]

/-! ### bytes ↔ integers -/

theorem foldl_shift (bs : Bytes) (acc : Nat) :
    bs.foldl (fun acc b => acc * 256 + b.toNat) acc
      = acc * 256 ^ bs.length + bs.foldl (fun acc b => acc * 256 + b.toNat) 0 := by
  induction bs generalizing acc with
  | nil => simp
  | cons b bs ih =>
    simp only [List.foldl_cons, List.length_cons]
    rw [ih (acc * 256 + b.toNat), ih (0 * 256 + b.toNat)]
    ring

theorem os2ip_nil : os2ip [] = 0 := rfl

theorem os2ip_cons (b : UInt8) (bs : Bytes) :
    os2ip (b :: bs) = b.toNat * 256 ^ bs.length + os2ip bs := by
  unfold os2ip
  rw [List.foldl_cons, foldl_shift]
  simp

theorem os2ip_lt (bs : Bytes) : os2ip bs < 256 ^ bs.length := by
  induction bs with
  | nil => simp [os2ip_nil]
  | cons b bs ih =>
    rw [os2ip_cons, List.length_cons, pow_succ]
    have hb : b.toNat < 256 := UInt8.toNat_lt b
    have h1 : b.toNat * 256 ^ bs.length + 256 ^ bs.length ≤ 256 ^ bs.length * 256 := by
      have : b.toNat + 1 ≤ 256 := hb
      calc b.toNat * 256 ^ bs.length + 256 ^ bs.length = (b.toNat + 1) * 256 ^ bs.length := by ring
        _ ≤ 256 * 256 ^ bs.length := Nat.mul_le_mul_right _ this
        _ = 256 ^ bs.length * 256 := by ring
    omega

theorem natToBytesBE_length (k v : Nat) : (natToBytesBE k v).length = k := by
  induction k with
  | zero => simp [natToBytesBE]
  | succ n ih => simp [natToBytesBE, ih]

theorem os2ip_natToBytesBE (k v : Nat) : os2ip (natToBytesBE k v) = v % 256 ^ k := by
  induction k with
  | zero => simp [natToBytesBE, os2ip_nil, Nat.mod_one]
  | succ n ih =>
    simp only [natToBytesBE]
    rw [os2ip_cons, natToBytesBE_length, ih, Nat.mod_pow_succ, UInt8.toNat_ofNat',
      show (2 : Nat) ^ 8 = 256 from rfl]
    ring

theorem os2ip_natToBytesBE_of_lt {k v : Nat} (h : v < 256 ^ k) : os2ip (natToBytesBE k v) = v := by
  rw [os2ip_natToBytesBE, Nat.mod_eq_of_lt h]

/-- big-endian decoding is injective on strings of equal length -/
theorem os2ip_inj : ∀ (a b : Bytes), a.length = b.length → os2ip a = os2ip b → a = b := by
  intro a
  induction a with
  | nil => intro b hl _; cases b with
    | nil => rfl
    | cons _ _ => simp at hl
  | cons x a ih =>
    intro b hl h
    cases b with
    | nil => simp at hl
    | cons y b =>
      have hl' : a.length = b.length := by simpa using hl
      rw [os2ip_cons, os2ip_cons, hl'] at h
      have hX : 0 < 256 ^ b.length := Nat.pow_pos (by decide)
      have ha := os2ip_lt a
      rw [hl'] at ha
      have hb := os2ip_lt b
      have hd : (x.toNat * 256 ^ b.length + os2ip a) / 256 ^ b.length
          = (y.toNat * 256 ^ b.length + os2ip b) / 256 ^ b.length := by rw [h]
      have hm : (x.toNat * 256 ^ b.length + os2ip a) % 256 ^ b.length
          = (y.toNat * 256 ^ b.length + os2ip b) % 256 ^ b.length := by rw [h]
      rw [Nat.add_comm, Nat.add_mul_div_right _ _ hX, Nat.div_eq_of_lt ha, Nat.zero_add,
        Nat.add_comm, Nat.add_mul_div_right _ _ hX, Nat.div_eq_of_lt hb, Nat.zero_add] at hd
      rw [Nat.add_comm, Nat.add_mul_mod_self_right, Nat.mod_eq_of_lt ha,
        Nat.add_comm, Nat.add_mul_mod_self_right, Nat.mod_eq_of_lt hb] at hm
      rw [UInt8.toNat_inj.1 hd, ih b hl' hm]

theorem natToBytesBE_os2ip (bs : Bytes) : natToBytesBE bs.length (os2ip bs) = bs := by
  apply os2ip_inj
  · rw [natToBytesBE_length]
  · rw [os2ip_natToBytesBE, Nat.mod_eq_of_lt (os2ip_lt bs)]

theorem lt_pow_sizeBytes (n : Nat) : n < 256 ^ sizeBytes n := by
  unfold sizeBytes bitLen
  split
  · next h => subst h; simp
  · have h1 : n < 2 ^ (n.log2 + 1) := Nat.lt_log2_self
    have h2 : n.log2 + 1 ≤ 8 * ((n.log2 + 1 + 7) / 8) := by omega
    have h3 : (256 : Nat) ^ ((n.log2 + 1 + 7) / 8) = 2 ^ (8 * ((n.log2 + 1 + 7) / 8)) := by
      rw [show (256 : Nat) = 2 ^ 8 by norm_num, ← pow_mul]
    rw [h3]
    exact Nat.lt_of_lt_of_le h1 (Nat.pow_le_pow_right (by decide) h2)


/-! ### the public operation in closed form -/

theorem encrypt_eq (n e : Nat) (pt : Bytes) :
    encrypt n e pt = if os2ip pt < n then .ok (natToBytesBE (sizeBytes n) (os2ip pt ^ e % n)) else .err := by
  unfold encrypt i2osp
  by_cases h : os2ip pt < n
  · have hn : 0 < n := by omega
    have h2 : os2ip pt ^ e % n < 256 ^ sizeBytes n :=
      Nat.lt_trans (Nat.mod_lt _ hn) (lt_pow_sizeBytes n)
    simp [h, modPow_eq, h2, Nat.not_le.2 h]
  · simp [h, Nat.not_lt.1 h]

/-- `VerifyPKCS1v15` accepts exactly when: the key is well-formed, the signature has the length of the
    modulus, is (as an integer) below the modulus, and its e-th power mod n, written on k bytes, is
    the expected encoded message `00 01 ff… 00 DigestInfo`. -/
theorem pkcs1_verify_iff' (pub : Pub) (h : Nat) (dg sig : Bytes) :
    verifyPKCS1v15 pub h dg sig = .ok () ↔
      ∃ n e em, checkPub pub = .ok (n, e) ∧ sig.length = sizeBytes n ∧ os2ip sig < n ∧
        constructEM (sizeBytes n) h dg = .ok em ∧
        natToBytesBE (sizeBytes n) (os2ip sig ^ e % n) = em := by
  unfold verifyPKCS1v15
  cases hc : checkPub pub with
  | err => simp
  | panic => simp
  | ok ne =>
    obtain ⟨n, e⟩ := ne
    simp only [encrypt_eq]
    have inj : ∀ n' e', (Res.ok (n, e) : Res (Nat × Nat)) = .ok (n', e') → n' = n ∧ e' = e := by
      intro n' e' h
      have := Res.ok.inj h
      simp at this
      exact ⟨this.1.symm, this.2.symm⟩
    by_cases hl : sizeBytes n = sig.length
    · rw [if_neg (not_not.2 hl)]
      by_cases hlt : os2ip sig < n
      · rw [if_pos hlt]
        dsimp only
        cases hex : constructEM (sizeBytes n) h dg with
        | err =>
          dsimp only
          constructor
          · intro hv; contradiction
          · rintro ⟨n', e', em, hne, _, _, hem, _⟩
            obtain ⟨rfl, rfl⟩ := inj _ _ hne
            rw [hex] at hem; contradiction
        | panic =>
          dsimp only
          constructor
          · intro hv; contradiction
          · rintro ⟨n', e', em, hne, _, _, hem, _⟩
            obtain ⟨rfl, rfl⟩ := inj _ _ hne
            rw [hex] at hem; contradiction
        | ok ex =>
          dsimp only
          constructor
          · intro hv
            split at hv
            · next heq => exact ⟨n, e, ex, rfl, hl.symm, hlt, hex, heq⟩
            · contradiction
          · rintro ⟨n', e', em, hne, _, _, hem, hb⟩
            obtain ⟨rfl, rfl⟩ := inj _ _ hne
            rw [hex] at hem
            have := Res.ok.inj hem
            subst this
            rw [if_pos hb]
      · rw [if_neg hlt]
        dsimp only
        constructor
        · intro hv; contradiction
        · rintro ⟨n', e', em, hne, _, h2, _, _⟩
          obtain ⟨rfl, rfl⟩ := inj _ _ hne
          exact absurd h2 hlt
    · rw [if_pos hl]
      constructor
      · intro hv; contradiction
      · rintro ⟨n', e', em, hne, h2, _, _, _⟩
        obtain ⟨rfl, rfl⟩ := inj _ _ hne
        exact absurd h2.symm hl

end ZV.C23
