import ZV.Model.C23
/-! output lengths of the executable hash library (`ZV.Hash`) and of MGF1 — for `ZV.Props.C23`.
    The digests are `flatMapTR beNNBytes state.words` (possibly truncated), so their length follows from the
    number of state words without looking into the compression function. -/
namespace ZV.C23
open ZV ZV.Hash

theorem flatMapRevAux_eq {α β : Type} (f : α → List β) (l : List α) (acc : List β) :
    flatMapRevAux f l acc = acc.reverse ++ l.flatMap f := by
  induction l generalizing acc with
  | nil => simp [flatMapRevAux]
  | cons x xs ih =>
    simp only [flatMapRevAux, ih, List.reverseAux_eq, List.reverse_append, List.reverse_reverse,
      List.flatMap_cons, List.append_assoc]

theorem flatMapTR_eq {α β : Type} (f : α → List β) (l : List α) : flatMapTR f l = l.flatMap f := by
  simp [flatMapTR, flatMapRevAux_eq]

theorem md5_length (m : Bytes) : (md5 m).length = 16 := by
  simp [md5, flatMapTR_eq, MD5.State.words, le32Bytes]

theorem sha1_length (m : Bytes) : (sha1 m).length = 20 := by
  simp [sha1, flatMapTR_eq, SHA1.State.words, be32Bytes]

theorem sha256_length (m : Bytes) : (sha256 m).length = 32 := by
  simp [sha256, flatMapTR_eq, SHA256.State.words, be32Bytes]

theorem sha224_length (m : Bytes) : (sha224 m).length = 28 := by
  simp [sha224, flatMapTR_eq, SHA256.State.words, be32Bytes]

theorem sha512_length (m : Bytes) : (sha512 m).length = 64 := by
  simp [sha512, flatMapTR_eq, SHA512.State.words, be64Bytes]

theorem sha384_length (m : Bytes) : (sha384 m).length = 48 := by
  simp [sha384, flatMapTR_eq, SHA512.State.words, be64Bytes]

/-- a hash algorithm whose `hash` really produces `outSize > 0` bytes (what MGF1 / PSS / OAEP rely on) -/
structure HashOk (h : HashAlg) : Prop where
  len : ∀ x, (h.hash x).length = h.outSize
  pos : 0 < h.outSize

theorem hashOk_md5 : HashOk .md5 := ⟨md5_length, by decide⟩
theorem hashOk_sha1 : HashOk .sha1 := ⟨sha1_length, by decide⟩
theorem hashOk_sha224 : HashOk .sha224 := ⟨sha224_length, by decide⟩
theorem hashOk_sha256 : HashOk .sha256 := ⟨sha256_length, by decide⟩
theorem hashOk_sha384 : HashOk .sha384 := ⟨sha384_length, by decide⟩
theorem hashOk_sha512 : HashOk .sha512 := ⟨sha512_length, by decide⟩

/-- every algorithm `crypto.Hash.New()` is modelled for satisfies the length hypothesis -/
theorem hashAlg_ok {id : Nat} {a : HashAlg} (h : hashAlg id = some a) : HashOk a := by
  unfold hashAlg at h
  split at h <;> first
    | (cases h; first | exact hashOk_md5 | exact hashOk_sha1 | exact hashOk_sha224 | exact hashOk_sha256
                      | exact hashOk_sha384 | exact hashOk_sha512)
    | exact absurd h (by simp)

/-! ### MGF1 produces exactly `len` bytes -/

theorem mgf1Aux_flatten_length {h : HashAlg} (hl : ∀ x, (h.hash x).length = h.outSize) (seed : Bytes) (n i : Nat)
    (acc : List Bytes) :
    (mgf1Aux h seed n i acc).flatten.length = acc.flatten.length + n * h.outSize := by
  induction n generalizing i acc with
  | zero => simp [mgf1Aux, List.length_flatten, List.map_reverse, List.sum_reverse]
  | succ n ih =>
    rw [mgf1Aux, ih]
    simp only [List.flatten_cons, List.length_append, hl]
    rw [Nat.succ_mul]; omega

theorem mgf1_length {h : HashAlg} (hk : HashOk h) (seed : Bytes) (len : Nat) : (mgf1 h seed len).length = len := by
  unfold mgf1
  simp only [List.length_take, mgf1Aux_flatten_length hk.len, List.flatten_nil, List.length_nil, Nat.zero_add]
  have hp := hk.pos
  have h1 : len ≤ (len + h.outSize - 1) / h.outSize * h.outSize := by
    have := Nat.div_add_mod (len + h.outSize - 1) h.outSize
    have hm := Nat.mod_lt (len + h.outSize - 1) hp
    rw [Nat.mul_comm] at this
    omega
  omega

end ZV.C23
