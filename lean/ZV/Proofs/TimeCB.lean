import ZV.Proofs.C21
import ZV.Proofs.TimeRT
/-!
  cryptobyte GeneralizedTime, write → read: `ReadASN1GeneralizedTime` on what `AddASN1GeneralizedTime` wrote.
-/
open ZV ZV.Der0
namespace ZV.Time

/-- the zone offsets whose text form `ReadASN1GeneralizedTime` accepts: below 25 hours, and not a non-zero
    number of seconds below one minute (`Format` writes `+0000` there, which re-serialises as `Z`). -/
def gtimeOK (t : GoTime) : Bool :=
  decide (-90000 < t.off ∧ t.off < 90000 ∧ (t.off = 0 ∨ Int.tdiv t.off 60 ≠ 0))

theorem addGeneralizedTime_ok {t : GoTime} {pre : Bytes} (h : CB.addGeneralizedTime t = .ok pre) :
    0 ≤ t.year ∧ t.year ≤ 9999 ∧ Der0.CB.element 0x18 (format layoutGen t) = .ok pre := by
  unfold CB.addGeneralizedTime at h
  split at h
  · simp at h
  · rename_i hy
    exact ⟨by omega, by omega, h⟩

/-- **write → read.**  The value read back is `readBack t`: whole seconds, zone truncated to whole minutes with
    the local clock reading kept. -/
theorem readGeneralizedTime_back (t : GoTime) (pre tail : Bytes) (h : CB.addGeneralizedTime t = .ok pre)
    (hz : gtimeOK t = true) : CB.readGeneralizedTime (pre ++ tail) = .ok (readBack t, tail) := by
  obtain ⟨hy0, hy1, hel⟩ := addGeneralizedTime_ok h
  simp only [gtimeOK, decide_eq_true_eq] at hz
  obtain ⟨h1, h2, hzone⟩ := hz
  have hfmt : format layoutGen t = genText t := format_gen_eq t hy0 hy1 (by omega) (by omega) hzone
  rw [hfmt] at hel
  have hlen : (genText t).length < 4294967290 := by have := genText_length t; omega
  simp only [CB.readGeneralizedTime, ZV.C21.readASN1Tag_back 0x18 (genText t) pre tail hel hlen,
    parse_genText t hy0 hy1 h1 h2, format_gen_readBack t hy0 hy1 h1 h2]
  simp

/-- a zone offset of 1..59 seconds (either sign): the Builder writes `+0000`, the reader rejects its own output -/
theorem readGeneralizedTime_subminute (t : GoTime) (pre tail : Bytes) (h : CB.addGeneralizedTime t = .ok pre)
    (h0 : t.off ≠ 0) (h1 : -60 < t.off) (h2 : t.off < 60) : CB.readGeneralizedTime (pre ++ tail) = .err := by
  obtain ⟨hy0, hy1, hel⟩ := addGeneralizedTime_ok h
  have hk : Int.tdiv t.off 60 = 0 := by
    rcases tmod_cases t.off with ⟨_, e, _⟩ | ⟨_, e, _⟩ <;> rw [e] <;> omega
  -- the text: the fields followed by "+0000"
  have hv : t.civil.valid = true := ofUnix_valid _ _
  have hoff : t.civil.off = t.off := rfl
  have hfmt : format layoutGen t =
      EA.fourDigits t.year.toNat ++ (fieldsText t.civil ++ [43, digit 0, digit 0, digit 0, digit 0]) := by
    simp only [format, layoutGen, List.map_cons, List.map_nil, List.flatten_cons, List.flatten_nil, List.append_nil]
    rw [← format_fields t.civil hv]
    have hz : formatChunk .isoTZ t.civil = [43, digit 0, digit 0, digit 0, digit 0] := by
      simp only [formatChunk, hoff, h0, if_false, hk]
      decide
    have hyr : formatChunk .longYear t.civil = EA.fourDigits t.year.toNat := appendInt_four _ hy0 hy1
    rw [hz, hyr]
    simp only [List.append_assoc]
  -- it parses as the local clock reading in UTC …
  have hparse : parse layoutGen (format layoutGen t) = some { unix := t.unix + t.off, off := 0, nsec := 0 } := by
    rw [hfmt]
    simp only [parse, layoutGen, EA.fourDigits, List.cons_append, List.nil_append]
    rw [parseLoop, step_longYear _ _ (by omega)]
    simp only
    have hstep : ∀ s : PState, step .isoTZ s [43, digit 0, digit 0, digit 0, digit 0] =
        some ({ s with zoneOffset := 0 }, []) := by
      intro s
      have := step_tz_num s 43 0 0 (Or.inl rfl) (by omega) (by omega)
      simpa using this
    rw [parseLoop_fields _ t.civil hv _ (fun s => { s with zoneOffset := 0 }) hstep
      (by intro c0 r' e; simp only [List.cons.injEq] at e; rw [← e.1]; decide)]
    simp only [finish, PState.withFields]
    obtain ⟨hm1, hm2, hd1, hd2, hh, hmi, hs⟩ := (valid_iff t.civil).1 hv
    have e1 : ¬ ((t.civil.month : Int) < 0) := by omega
    have e2 : ¬ ((t.civil.day : Int) < 0) := by omega
    have hyy : ((t.year.toNat : Nat) : Int) = t.civil.year := by show _ = t.year; omega
    simp only [e1, e2, if_false, Int.toNat_natCast, hyy]
    have e3 : ¬ ((t.civil.day : Int) < 1 ∨ (t.civil.day : Int) > (daysIn t.civil.month t.civil.year : Int)) := by omega
    simp only [e3, if_false, Bool.false_eq_true, ne_eq, show ¬ ((0 : Int) = -1) by omega, not_false_eq_true, if_true, date]
    rw [toUnix_off0 t.civil]
    simp only [GoTime.civil, toUnix_ofUnix, ofUnix_off]
    simp
  -- … whose text ends in "Z": the re-serialisation test fails
  have hre : format layoutGen { unix := t.unix + t.off, off := 0, nsec := 0 } ≠ format layoutGen t := by
    have hy' : ({ unix := t.unix + t.off, off := 0, nsec := 0 } : GoTime).year = t.year := by
      simp only [GoTime.year, GoTime.civil]
      have := ofUnix_shift t.unix t.off t.off
      simp only [Int.sub_self] at this
      rw [this]
    rw [format_gen_eq _ (by rw [hy']; exact hy0) (by rw [hy']; exact hy1) (by simp) (by simp) (Or.inl rfl), hfmt, hy']
    intro e
    have e' := List.append_cancel_left e
    have hc : ({ unix := t.unix + t.off, off := 0, nsec := 0 } : GoTime).civil = { t.civil with off := 0 } := by
      simp only [GoTime.civil]
      have := ofUnix_shift t.unix t.off t.off
      simp only [Int.sub_self] at this
      exact this
    rw [hc, fieldsText_off] at e'
    have e'' := List.append_cancel_left e'
    simp [zoneText] at e''
  have hlen : (format layoutGen t).length < 4294967290 := by
    rw [hfmt]; simp [EA.fourDigits, fieldsText, EA.twoDigits]
  simp only [CB.readGeneralizedTime, ZV.C21.readASN1Tag_back 0x18 _ pre tail hel hlen, hparse]
  simp [hre]

/-! ## zones of 25 hours and more -/

/-- a zone offset of 25 hours or more (below 100 hours): the Builder writes an hour field that the reader's
    `time.Parse` refuses — `ReadASN1GeneralizedTime` rejects what `AddASN1GeneralizedTime` wrote. -/
theorem readGeneralizedTime_25h (t : GoTime) (pre tail : Bytes) (h : CB.addGeneralizedTime t = .ok pre)
    (hbig : t.off ≤ -90000 ∨ 90000 ≤ t.off) (h1 : -360000 < t.off) (h2 : t.off < 360000) :
    CB.readGeneralizedTime (pre ++ tail) = .err := by
  obtain ⟨hy0, hy1, hel⟩ := addGeneralizedTime_ok h
  have hk : Int.tdiv t.off 60 ≠ 0 := by
    rcases tmod_cases t.off with ⟨_, e, _⟩ | ⟨_, e, _⟩ <;> rw [e] <;> omega
  have hfmt : format layoutGen t = genText t := format_gen_eq t hy0 hy1 h1 h2 (Or.inr hk)
  rw [hfmt] at hel
  have hlen : (genText t).length < 4294967290 := by have := genText_length t; omega
  have hparse : parse layoutGen (genText t) = none := parse_genText_25h t hy0 hy1 hbig h1 h2
  simp only [CB.readGeneralizedTime, ZV.C21.readASN1Tag_back 0x18 (genText t) pre tail hel hlen, hparse]

/-- **the zone condition is exact** (offsets below 100 hours): what `AddASN1GeneralizedTime` wrote is read back
    iff `gtimeOK`. -/
theorem readGeneralizedTime_back_iff (t : GoTime) (pre tail : Bytes) (h : CB.addGeneralizedTime t = .ok pre)
    (h1 : -360000 < t.off) (h2 : t.off < 360000) :
    CB.readGeneralizedTime (pre ++ tail) = .ok (readBack t, tail) ↔ gtimeOK t = true := by
  constructor
  · intro hr
    by_contra hn
    simp only [gtimeOK, decide_eq_true_eq, not_and, not_or, not_not] at hn
    by_cases hb : -90000 < t.off ∧ t.off < 90000
    · have := hn hb.1 hb.2
      have hk := this.2
      have hsmall : -60 < t.off ∧ t.off < 60 := by
        rcases tmod_cases t.off with ⟨_, e, _⟩ | ⟨_, e, _⟩ <;> rw [e] at hk <;> omega
      rw [readGeneralizedTime_subminute t pre tail h this.1 hsmall.1 hsmall.2] at hr
      simp at hr
    · rw [readGeneralizedTime_25h t pre tail h (by omega) h1 h2] at hr
      simp at hr
  · exact readGeneralizedTime_back t pre tail h

end ZV.Time
