import ZV.Model.C14
/-! helper lemmas for C14 -/
namespace ZV.C14

/-! ### the association-list map -/

theorem get_set_same (m : Cache) (k : Key) (e : Entry) : (m.set k e).get k = some e := by
  induction m with
  | nil => simp [Cache.set, Cache.get]
  | cons p rest ih =>
    obtain ⟨k', e'⟩ := p
    by_cases h : k' = k
    · simp [Cache.set, Cache.get, h]
    · simp [Cache.set, Cache.get, h, ih]

theorem get_set_other (m : Cache) (k k2 : Key) (e : Entry) (h : k ≠ k2) : (m.set k e).get k2 = m.get k2 := by
  induction m with
  | nil => simp [Cache.set, Cache.get, h]
  | cons p rest ih =>
    obtain ⟨k', e'⟩ := p
    by_cases h1 : k' = k
    · subst h1; simp [Cache.set, Cache.get, h]
    · by_cases h2 : k' = k2
      · subst h2; simp [Cache.set, Cache.get, h1]
      · simp [Cache.set, Cache.get, h1, h2, ih]

/-- keys of a map stay unique under `set` -/
theorem set_keys_nodup (m : Cache) (k : Key) (e : Entry) (h : (m.map (·.1)).Nodup) :
    ((m.set k e).map (·.1)).Nodup := by
  induction m with
  | nil => simp [Cache.set]
  | cons p rest ih =>
    obtain ⟨k', e'⟩ := p
    simp only [List.map_cons, List.nodup_cons] at h
    by_cases h1 : k' = k
    · subst h1; simpa [Cache.set] using h
    · simp only [Cache.set, h1, if_false, List.map_cons, List.nodup_cons]
      refine ⟨?_, ih h.2⟩
      intro hm
      have : ∀ (m : Cache), k' ∈ (m.set k e).map (·.1) → k' ∈ m.map (·.1) := by
        intro m
        induction m with
        | nil => simp [Cache.set]; exact h1
        | cons q r ih2 =>
          obtain ⟨kq, eq⟩ := q
          by_cases h3 : kq = k
          · subst h3; simp [Cache.set]
          · simp only [Cache.set, h3, if_false, List.map_cons, List.mem_cons]
            rintro (h4 | h4)
            · exact Or.inl h4
            · exact Or.inr (ih2 h4)
      exact h.1 (this rest hm)

/-! ### first-wins / last-wins folds -/

def fwStep (m : Cache) (e : Entry) : Cache :=
  match m.get (decChars e.serial) with | some _ => m | none => m.set (decChars e.serial) e

theorem firstWins_eq (es : List Entry) : firstWins es = es.foldl fwStep [] := rfl

theorem fw_fold_get (es : List Entry) (m : Cache) (s : Key) :
    (es.foldl fwStep m).get s =
      match m.get s with
      | some e => some e
      | none => es.find? (fun e => decide (decChars e.serial = s)) := by
  induction es generalizing m with
  | nil => simp; cases m.get s <;> rfl
  | cons e rest ih =>
    simp only [List.foldl_cons]
    rw [ih]
    unfold fwStep
    cases hg : m.get (decChars e.serial) with
    | some x =>
      simp only
      cases hs : m.get s with
      | some y => rfl
      | none =>
        have hne : decChars e.serial ≠ s := by intro h; rw [h] at hg; rw [hg] at hs; cases hs
        simp [List.find?_cons, hne]
    | none =>
      simp only
      by_cases hes : decChars e.serial = s
      · subst hes
        rw [get_set_same, hg]
        simp [List.find?_cons]
      · rw [get_set_other _ _ _ _ hes]
        cases hs : m.get s with
        | some y => rfl
        | none => simp [List.find?_cons, hes]

theorem lw_fold_get (es : List Entry) (m : Cache) (s : Key) :
    (es.foldl (fun m e => m.set (decChars e.serial) e) m).get s =
      match es.reverse.find? (fun e => decide (decChars e.serial = s)) with
      | some e => some e
      | none => m.get s := by
  induction es generalizing m with
  | nil => simp
  | cons e rest ih =>
    simp only [List.foldl_cons, List.reverse_cons]
    rw [ih, List.find?_append]
    cases hr : rest.reverse.find? (fun e => decide (decChars e.serial = s)) with
    | some x => simp
    | none =>
      by_cases hes : decChars e.serial = s
      · subst hes; simp [get_set_same]
      · simp [hes, get_set_other _ _ _ _ hes]

/-! ### gather -/

def isNum (e : Ext) : Bool := decide (e.oid = crlNumberOID)

/-- decoded value of the LAST CRL-number extension of the list, `dflt` when there is none -/
def crlNumberOf (xs : List Ext) (dflt : Int) : Int :=
  match (xs.filter isNum).getLast? with | some e => numOf e | none => dflt

theorem gather_spec (xs : List Ext) (r : RevData) :
    gather xs r =
      { r with
        crlNumber := crlNumberOf xs r.crlNumber,
        unknownCritical := r.unknownCritical ++ xs.filter (fun e => !isNum e && e.critical),
        unknown := r.unknown ++ xs.filter (fun e => !isNum e && !e.critical) } := by
  unfold gather crlNumberOf
  induction xs generalizing r with
  | nil => simp
  | cons e rest ih =>
    simp only [List.foldl_cons]
    rw [ih]
    unfold gatherStep
    by_cases h1 : e.oid = crlNumberOID
    · have hn : isNum e = true := by simp [isNum, h1]
      simp only [h1, if_true, List.filter_cons, hn, Bool.not_true, Bool.false_and, Bool.false_eq_true, if_false]
      cases hl : (rest.filter isNum).getLast? with
      | none =>
        have : rest.filter isNum = [] := by simpa using hl
        simp [this]
      | some x =>
        have hne : rest.filter isNum ≠ [] := by intro h; simp [h] at hl
        rw [List.getLast?_cons_of_ne_nil hne] at *
        simp [hl]
    · have hn : isNum e = false := by simp [isNum, h1]
      by_cases h2 : e.critical = true
      · simp [h1, h2, hn, List.filter_cons]
      · have h2' : e.critical = false := by simpa using h2
        simp [h1, h2', hn, List.filter_cons]

theorem search_spec (es : List Entry) (s : Int) (ret : RevData) :
    search es s ret =
      match es.find? (fun e => decide (e.serial = s)) with
      | some e => { ret with isRevoked := true, revTime := some e.time }
      | none => ret := by
  induction es with
  | nil => simp [search]
  | cons e rest ih =>
    by_cases h : e.serial = s
    · simp [search, h]
    · simp [search, h, ih]

end ZV.C14
