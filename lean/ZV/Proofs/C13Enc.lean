import ZV.Model.C13Enc
import ZV.Proofs.C13Der
import ZV.Proofs.TimeRT
/-! helper lemmas for the encoding side of `CreateResponse` (ZV.Model.C13Enc) -/
namespace ZV.C13
open ZV ZV.C18 ZV.Time

theorem readBack_utcTime (u : Int) : readBack (utcTime u) = utcTime u := by
  simp [readBack, utcTime]

theorem timeTag_gen (t : GoTime) : EA.timeTag 24 t = 24 := by
  simp [EA.timeTag, EA.useGeneralized]

theorem makeTimeBody_gen (t : GoTime) : EA.makeTimeBody 24 t = EA.appendGeneralizedTime t := by
  simp [EA.makeTimeBody, EA.useGeneralized]

end ZV.C13
