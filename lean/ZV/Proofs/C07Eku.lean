import ZV.Model.C07
/-!
  `checkChainForKeyUsage` against a declarative reading of its comments.

  "We walk down the list and cross out any usages that aren't supported by each certificate.
   If we cross out all the usages, then the chain is unacceptable."

  A certificate SUPPORTS a requested usage when (comments of the Go code)
  * "The certificate doesn't have any extended key usage specified"
    (`len(ExtKeyUsage) == 0 && len(UnknownExtKeyUsage) == 0`), or
  * "The certificate is explicitly good for any usage" (`ExtKeyUsageAny` listed), or
  * the usage is listed, or
  * "In order to support COMODO certificate chains, we have to accept Netscape or Microsoft SGC
    usages as equal to ServerAuth".

  The chain is acceptable when it is non-empty and one SLOT of the requested list is never crossed
  out, i.e. is supported by every certificate.  Two corner cases of the implementation are part of
  the honest specification: an empty request list is acceptable (`usagesRemaining` starts at 0 and
  the `== 0` test is only made after a decrement), and a requested usage equal to the in-band
  sentinel `invalidUsage = -1` is skipped by every certificate, so it is never crossed out.
-/
namespace ZV.C07

/-- the certificate supports the requested usage (see the module comment) -/
def CertAllows (cert : Cert) (u : Int) : Prop :=
  (cert.eku = [] ∧ cert.unknownEku = false) ∨ ekuAny ∈ cert.eku ∨ u ∈ cert.eku ∨
  (u = ekuServerAuth ∧ (ekuNetscapeSGC ∈ cert.eku ∨ ekuMicrosoftSGC ∈ cert.eku))

/-- declarative specification of `checkChainForKeyUsage` -/
def UsageSpec (chain : Chain) (usages : List Int) : Prop :=
  chain ≠ [] ∧ (usages = [] ∨ ∃ u ∈ usages, u = invalidUsage ∨ ∀ cert ∈ chain, CertAllows cert u)

/-! ### the inner loop -/

theorem usageSupported_iff (ce : List Int) (u : Int) :
    usageSupported ce u = true ↔ u ∈ ce ∨ (u = ekuServerAuth ∧ (ekuNetscapeSGC ∈ ce ∨ ekuMicrosoftSGC ∈ ce)) := by
  unfold usageSupported
  rw [List.any_eq_true]
  constructor
  · rintro ⟨x, hx, h⟩
    simp only [decide_eq_true_eq] at h
    rcases h with rfl | ⟨h1, rfl | rfl⟩
    · exact Or.inl hx
    · exact Or.inr ⟨h1, Or.inl hx⟩
    · exact Or.inr ⟨h1, Or.inr hx⟩
  · rintro (h | ⟨h1, h | h⟩)
    · exact ⟨u, h, by simp⟩
    · exact ⟨ekuNetscapeSGC, h, by simp [h1]⟩
    · exact ⟨ekuMicrosoftSGC, h, by simp [h1]⟩

/-- the certificate restricts usages: neither "no EKU at all" nor "any" -/
def restricts (cert : Cert) : Bool :=
  !(decide (cert.eku.length = 0) && !cert.unknownEku) && !cert.eku.any (fun u => u = ekuAny)

theorem certAllows_of_not_restricts (cert : Cert) (u : Int) (h : restricts cert = false) : CertAllows cert u := by
  unfold restricts at h
  simp only [Bool.and_eq_false_iff, Bool.not_eq_false', Bool.and_eq_true, decide_eq_true_eq,
    Bool.not_eq_true'] at h
  rcases h with ⟨h1, h2⟩ | h
  · exact Or.inl ⟨List.length_eq_zero_iff.mp h1, h2⟩
  · obtain ⟨x, hx, e⟩ := List.any_eq_true.mp h
    simp only [decide_eq_true_eq] at e
    subst e
    exact Or.inr (Or.inl hx)

theorem certAllows_restricts (cert : Cert) (u : Int) (h : restricts cert = true) :
    CertAllows cert u ↔ usageSupported cert.eku u = true := by
  unfold restricts at h
  simp only [Bool.and_eq_true, Bool.not_eq_true', Bool.and_eq_false_iff, decide_eq_false_iff_not,
    Bool.not_eq_false'] at h
  obtain ⟨h1, h2⟩ := h
  rw [usageSupported_iff]
  unfold CertAllows
  constructor
  · rintro (⟨a, b⟩ | a | a | a)
    · rcases h1 with h1 | h1
      · exact absurd (by simp [a]) h1
      · rw [b] at h1; cases h1
    · exfalso
      have : cert.eku.any (fun u => decide (u = ekuAny)) = true := List.any_eq_true.mpr ⟨ekuAny, a, by simp⟩
      rw [h2] at this; cases this
    · exact Or.inl a
    · exact Or.inr a
  · rintro (a | a)
    · exact Or.inr (Or.inr (Or.inl a))
    · exact Or.inr (Or.inr (Or.inr a))

/-- slots that are still live (not the sentinel) -/
def live (u : Int) : Bool := decide (u ≠ invalidUsage)
/-- live slots this certificate crosses out -/
def bad (ce : List Int) (u : Int) : Bool := decide (u ≠ invalidUsage) && !usageSupported ce u
/-- live slots this certificate keeps -/
def good (ce : List Int) (u : Int) : Bool := decide (u ≠ invalidUsage) && usageSupported ce u

/-- the usage list after one certificate -/
def crossed (ce : List Int) (us : List Int) : List Int := us.map (fun u => if bad ce u then invalidUsage else u)

theorem countP_live_split (ce : List Int) (us : List Int) :
    us.countP live = us.countP (bad ce) + us.countP (good ce) := by
  induction us with
  | nil => rfl
  | cons u us ih =>
    simp only [List.countP_cons, ih, live, bad, good]
    by_cases h1 : u = invalidUsage
    · simp [h1]
    · by_cases h2 : usageSupported ce u = true <;> simp [h1, h2] <;> omega

theorem crossOut_some (ce : List Int) (us : List Int) (rem : Nat)
    (h : us.countP (bad ce) = 0 ∨ us.countP (bad ce) < rem) :
    crossOut ce us rem = some (crossed ce us, rem - us.countP (bad ce)) := by
  induction us generalizing rem with
  | nil => simp [crossOut, crossed]
  | cons u us ih =>
    unfold crossOut
    by_cases h1 : u = invalidUsage
    · have hb : bad ce u = false := by simp [bad, h1]
      simp only [List.countP_cons, hb, Bool.false_eq_true, if_false, Nat.add_zero] at h ⊢
      simp only [h1, if_true, ih rem h, Option.map_some, crossed, List.map_cons, bad, ne_eq, not_true_eq_false,
        decide_false, Bool.false_and, Bool.false_eq_true, if_false]
    · cases h2 : usageSupported ce u with
      | true =>
        have hb : bad ce u = false := by simp [bad, h2]
        simp only [List.countP_cons, hb, Bool.false_eq_true, if_false, Nat.add_zero] at h ⊢
        simp only [h1, if_false, if_true, ih rem h, Option.map_some, crossed, List.map_cons, hb,
          Bool.false_eq_true]
      | false =>
        have hb : bad ce u = true := by simp [bad, h1, h2]
        simp only [List.countP_cons, hb, if_true] at h ⊢
        have hlt : us.countP (bad ce) + 1 < rem := by omega
        have hne : ¬ (rem - 1 = 0) := by omega
        simp only [h1, if_false, Bool.false_eq_true, hne]
        rw [ih (rem - 1) (Or.inr (by omega))]
        simp only [Option.map_some, crossed, List.map_cons, hb, if_true]
        congr 2
        omega

theorem crossOut_none (ce : List Int) (us : List Int) (rem : Nat)
    (h1 : 1 ≤ us.countP (bad ce)) (h2 : rem ≤ us.countP (bad ce)) :
    crossOut ce us rem = none := by
  induction us generalizing rem with
  | nil => simp at h1
  | cons u us ih =>
    unfold crossOut
    by_cases hu : u = invalidUsage
    · have hb : bad ce u = false := by simp [bad, hu]
      simp only [List.countP_cons, hb, Bool.false_eq_true, if_false, Nat.add_zero] at h1 h2
      simp only [hu, if_true, ih rem h1 h2, Option.map_none]
    · cases hs : usageSupported ce u with
      | true =>
        have hb : bad ce u = false := by simp [bad, hs]
        simp only [List.countP_cons, hb, Bool.false_eq_true, if_false, Nat.add_zero] at h1 h2
        simp only [hu, if_false, if_true, ih rem h1 h2, Option.map_none]
      | false =>
        have hb : bad ce u = true := by simp [bad, hu, hs]
        simp only [List.countP_cons, hb, if_true] at h1 h2
        simp only [hu, if_false, Bool.false_eq_true]
        by_cases hr : rem - 1 = 0
        · simp only [hr, if_true]
        · simp only [hr, if_false]
          rw [ih (rem - 1) (by omega) (by omega)]
          rfl

theorem countP_live_crossed (ce : List Int) (us : List Int) :
    (crossed ce us).countP live = us.countP (good ce) := by
  induction us with
  | nil => rfl
  | cons u us ih =>
    simp only [crossed, List.map_cons, List.countP_cons] at ih ⊢
    rw [ih]
    by_cases h1 : u = invalidUsage
    · simp [h1, bad, good, live]
    · cases h2 : usageSupported ce u <;> simp [h1, h2, bad, good, live]

theorem mem_crossed_live (ce : List Int) (us : List Int) (u : Int) :
    (u ∈ crossed ce us ∧ u ≠ invalidUsage) ↔ (u ∈ us ∧ u ≠ invalidUsage ∧ usageSupported ce u = true) := by
  unfold crossed
  rw [List.mem_map]
  constructor
  · rintro ⟨⟨v, hv, e⟩, hne⟩
    cases hb : bad ce v with
    | true => rw [hb] at e; simp only [if_true] at e; exact absurd e.symm hne
    | false =>
      rw [hb] at e; simp only [Bool.false_eq_true, if_false] at e
      subst e
      refine ⟨hv, hne, ?_⟩
      simp only [bad, Bool.and_eq_false_iff, decide_eq_false_iff_not, Bool.not_eq_false'] at hb
      rcases hb with hb | hb
      · exact absurd hne hb
      · exact hb
  · rintro ⟨hv, hne, hs⟩
    refine ⟨⟨u, hv, ?_⟩, hne⟩
    have : bad ce u = false := by simp [bad, hs]
    simp [this]

/-! ### the outer loop -/

/-- Invariant of the `NextCert` loop: `remaining = (live slots) + k`, where `k` counts the slots that
    held the sentinel from the start.  The loop succeeds iff nothing was requested, or a sentinel
    slot exists, or some live slot is supported by every remaining certificate. -/
theorem ekuLoop_iff (certs : List Cert) (us : List Int) (rem k : Nat) (hinv : rem = us.countP live + k) :
    ekuLoop certs us rem = true ↔
      (rem = 0 ∨ 1 ≤ k ∨ ∃ u ∈ us, u ≠ invalidUsage ∧ ∀ c ∈ certs, CertAllows c u) := by
  induction certs generalizing us rem with
  | nil =>
    simp only [ekuLoop, true_iff]
    by_cases h0 : rem = 0
    · exact Or.inl h0
    · by_cases hk : 1 ≤ k
      · exact Or.inr (Or.inl hk)
      · have hpos : 0 < us.countP live := by omega
        obtain ⟨u, hu, hl⟩ := List.countP_pos_iff.mp hpos
        refine Or.inr (Or.inr ⟨u, hu, ?_, fun c hc => by cases hc⟩)
        simpa [live] using hl
  | cons cert rest ih =>
    cases hr : restricts cert with
    | false =>
      have hstep : ekuLoop (cert :: rest) us rem = ekuLoop rest us rem := by
        unfold restricts at hr
        simp only [Bool.and_eq_false_iff, Bool.not_eq_false', Bool.and_eq_true, decide_eq_true_eq,
          Bool.not_eq_true'] at hr
        rw [ekuLoop]
        rcases hr with ⟨a, b⟩ | a
        · simp [a, b]
        · by_cases hc : cert.eku.length = 0 ∧ (!cert.unknownEku) = true
          · simp only [hc, and_self, if_true]
          · simp only [hc, if_false, a, if_true]
      rw [hstep, ih us rem hinv]
      have hall : ∀ u, CertAllows cert u := fun u => certAllows_of_not_restricts cert u hr
      constructor
      · rintro (h | h | ⟨u, hu, hne, hc⟩)
        · exact Or.inl h
        · exact Or.inr (Or.inl h)
        · refine Or.inr (Or.inr ⟨u, hu, hne, ?_⟩)
          intro c hcm
          rcases List.mem_cons.mp hcm with rfl | hcm
          · exact hall u
          · exact hc c hcm
      · rintro (h | h | ⟨u, hu, hne, hc⟩)
        · exact Or.inl h
        · exact Or.inr (Or.inl h)
        · exact Or.inr (Or.inr ⟨u, hu, hne, fun c hcm => hc c (List.mem_cons_of_mem _ hcm)⟩)
    | true =>
      have hr' := hr
      unfold restricts at hr'
      simp only [Bool.and_eq_true, Bool.not_eq_true', Bool.and_eq_false_iff, decide_eq_false_iff_not,
        Bool.not_eq_false'] at hr'
      obtain ⟨hr1, hr2⟩ := hr'
      have hc1 : ¬ (cert.eku.length = 0 ∧ (!cert.unknownEku) = true) := by
        rintro ⟨a, b⟩
        rcases hr1 with h | h
        · exact h a
        · rw [h] at b; cases b
      rw [ekuLoop]
      simp only [hc1, if_false, hr2, Bool.false_eq_true]
      have hsplit := countP_live_split cert.eku us
      by_cases hcase : us.countP (bad cert.eku) = 0 ∨ us.countP (bad cert.eku) < rem
      · rw [crossOut_some cert.eku us rem hcase]
        simp only
        rw [ih (crossed cert.eku us) (rem - us.countP (bad cert.eku))
          (by rw [countP_live_crossed]; omega)]
        constructor
        · rintro (h | h | ⟨u, hu, hne, hc⟩)
          · exact Or.inl (by omega)
          · exact Or.inr (Or.inl h)
          · obtain ⟨m1, m2, m3⟩ := (mem_crossed_live cert.eku us u).mp ⟨hu, hne⟩
            refine Or.inr (Or.inr ⟨u, m1, m2, ?_⟩)
            intro c hcm
            rcases List.mem_cons.mp hcm with rfl | hcm
            · exact (certAllows_restricts _ u hr).mpr m3
            · exact hc c hcm
        · rintro (h | h | ⟨u, hu, hne, hc⟩)
          · exact Or.inl (by omega)
          · exact Or.inr (Or.inl h)
          · have m3 := (certAllows_restricts cert u hr).mp (hc cert List.mem_cons_self)
            have := (mem_crossed_live cert.eku us u).mpr ⟨hu, hne, m3⟩
            exact Or.inr (Or.inr ⟨u, this.1, hne, fun c hcm => hc c (List.mem_cons_of_mem _ hcm)⟩)
      · have hb1 : 1 ≤ us.countP (bad cert.eku) := by omega
        have hb2 : rem ≤ us.countP (bad cert.eku) := by omega
        rw [crossOut_none cert.eku us rem hb1 hb2]
        simp only [Bool.false_eq_true, false_iff, not_or]
        refine ⟨by omega, by omega, ?_⟩
        rintro ⟨u, hu, hne, hc⟩
        have m3 := (certAllows_restricts cert u hr).mp (hc cert List.mem_cons_self)
        have hg0 : us.countP (good cert.eku) = 0 := by omega
        have := List.countP_eq_zero.mp hg0 u hu
        apply this
        simp [good, hne, m3]

theorem countP_live_length (us : List Int) :
    us.length = us.countP live + us.countP (fun u => decide (u = invalidUsage)) := by
  induction us with
  | nil => rfl
  | cons u us ih =>
    simp only [List.length_cons, List.countP_cons, live]
    by_cases h : u = invalidUsage <;> simp [h] <;> omega

/-- `checkChainForKeyUsage` computes `UsageSpec`. -/
theorem checkChainForKeyUsage_iff_spec (chain : Chain) (usages : List Int) :
    checkChainForKeyUsage chain usages = true ↔ UsageSpec chain usages := by
  unfold checkChainForKeyUsage UsageSpec
  by_cases hc : chain.length = 0
  · have : chain = [] := List.length_eq_zero_iff.mp hc
    simp [this]
  · have hne : chain ≠ [] := fun e => hc (by simp [e])
    simp only [hc, if_false, ne_eq, hne, not_false_eq_true, true_and]
    rw [ekuLoop_iff chain.reverse usages usages.length _ (countP_live_length usages)]
    constructor
    · rintro (h | h | ⟨u, hu, _, hcs⟩)
      · exact Or.inl (List.length_eq_zero_iff.mp h)
      · obtain ⟨u, hu, e⟩ := List.countP_pos_iff.mp h
        exact Or.inr ⟨u, hu, Or.inl (by simpa using e)⟩
      · exact Or.inr ⟨u, hu, Or.inr (fun c hcm => hcs c (List.mem_reverse.mpr hcm))⟩
    · rintro (h | ⟨u, hu, h | h⟩)
      · exact Or.inl (by simp [h])
      · exact Or.inr (Or.inl (List.countP_pos_iff.mpr ⟨u, hu, by simpa using h⟩))
      · by_cases hs : u = invalidUsage
        · exact Or.inr (Or.inl (List.countP_pos_iff.mpr ⟨u, hu, by simpa using hs⟩))
        · exact Or.inr (Or.inr ⟨u, hu, hs, fun c hcm => h c (List.mem_reverse.mp hcm)⟩)

end ZV.C07
