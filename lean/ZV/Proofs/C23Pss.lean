import ZV.Model.C23
import ZV.Proofs.C23Hash
/-! EMSA-PSS (`emsaPSSEncode` / `emsaPSSVerify`): mask involution, the leading-bit mask, DB layout — for `ZV.Props.C23`. -/
namespace ZV.C23
open ZV ZV.Hash

/-! ### bytes -/

theorem u8_xor_cancel (x y : UInt8) : (x ^^^ y) ^^^ y = x := by
  rw [UInt8.xor_assoc, UInt8.xor_self, UInt8.xor_zero]

theorem u8_mask_xor (x y m : UInt8) : (((x ^^^ y) &&& m) ^^^ y) &&& m = x &&& m := by
  apply UInt8.eq_of_toBitVec_eq
  simp only [UInt8.toBitVec_and, UInt8.toBitVec_xor]
  ext i hi
  simp only [BitVec.getElem_and, BitVec.getElem_xor]
  cases x.toBitVec[i] <;> cases y.toBitVec[i] <;> cases m.toBitVec[i] <;> rfl

theorem u8_and_not (x m : UInt8) : (x &&& m) &&& ~~~m = 0 := by
  rw [UInt8.and_assoc]; simp

/-- `0xff >> s` keeps bit 0 for every shift the code can produce -/
theorem one_and_shift (s : Nat) (hs : s < 8) : (1 : UInt8) &&& ((0xff : UInt8) >>> UInt8.ofNat s) = 1 := by
  have : s = 0 ∨ s = 1 ∨ s = 2 ∨ s = 3 ∨ s = 4 ∨ s = 5 ∨ s = 6 ∨ s = 7 := by omega
  rcases this with rfl | rfl | rfl | rfl | rfl | rfl | rfl | rfl <;> decide

theorem and_shift_lt (x : UInt8) (s : Nat) (hs : s < 8) :
    (x &&& ((0xff : UInt8) >>> UInt8.ofNat s)).toNat < 2 ^ (8 - s) := by
  rw [UInt8.toNat_and]
  apply Nat.and_lt_two_pow
  have : s = 0 ∨ s = 1 ∨ s = 2 ∨ s = 3 ∨ s = 4 ∨ s = 5 ∨ s = 6 ∨ s = 7 := by omega
  rcases this with rfl | rfl | rfl | rfl | rfl | rfl | rfl | rfl <;> decide

/-! ### XOR masks -/

theorem xorBytes_length (a b : Bytes) : (xorBytes a b).length = min a.length b.length := by
  simp [xorBytes]

theorem xorBytes_cancel (a m : Bytes) (h : a.length ≤ m.length) : xorBytes (xorBytes a m) m = a := by
  induction a generalizing m with
  | nil => simp [xorBytes]
  | cons x a ih =>
    cases m with
    | nil => simp at h
    | cons y m =>
      have h' : a.length ≤ m.length := by simpa using h
      have := ih m h'
      simp only [xorBytes] at this ⊢
      simp [u8_xor_cancel, this]

theorem mgf1XOR_length {h : HashAlg} (hk : HashOk h) (a s : Bytes) : (mgf1XOR h a s).length = a.length := by
  simp [mgf1XOR, xorBytes_length, mgf1_length hk]

/-- masking twice with the same MGF1 stream is the identity -/
theorem mgf1XOR_cancel {h : HashAlg} (hk : HashOk h) (a s : Bytes) : mgf1XOR h (mgf1XOR h a s) s = a := by
  have hl := mgf1XOR_length hk a s
  unfold mgf1XOR at hl ⊢
  rw [hl]
  exact xorBytes_cancel a _ (by rw [mgf1_length hk]; exact Nat.le_refl _)

theorem maskHead_length (m : UInt8) (a : Bytes) : (maskHead m a).length = a.length := by
  cases a <;> simp [maskHead]

/-- unmasking a masked-and-top-bit-cleared DB and clearing the top bits again gives the top-bit-cleared DB -/
theorem maskHead_xor_cancel (mk : UInt8) (a m : Bytes) (h : a.length ≤ m.length) :
    maskHead mk (xorBytes (maskHead mk (xorBytes a m)) m) = maskHead mk a := by
  cases a with
  | nil => simp [xorBytes, maskHead]
  | cons x a =>
    cases m with
    | nil => simp at h
    | cons y m =>
      have h' : a.length ≤ m.length := by simpa using h
      have := xorBytes_cancel a m h'
      simp only [xorBytes] at this ⊢
      simp [maskHead, u8_mask_xor, this]

theorem maskHead_mgf1XOR_cancel {h : HashAlg} (hk : HashOk h) (mk : UInt8) (a s : Bytes) :
    maskHead mk (mgf1XOR h (maskHead mk (mgf1XOR h a s)) s) = maskHead mk a := by
  have hl : (maskHead mk (mgf1XOR h a s)).length = a.length := by rw [maskHead_length, mgf1XOR_length hk]
  unfold mgf1XOR at hl ⊢
  rw [hl]
  exact maskHead_xor_cancel mk a _ (by rw [mgf1_length hk]; exact Nat.le_refl _)

/-! ### the data block `PS ‖ 01 ‖ salt` -/

def pssDB (psLen : Nat) (salt : Bytes) : Bytes := List.replicate psLen 0 ++ (1 :: salt)

theorem pssDB_length (psLen : Nat) (salt : Bytes) : (pssDB psLen salt).length = psLen + salt.length + 1 := by
  simp [pssDB]; omega

/-- the top-bit mask does not change the data block (its first octet is 00 or 01) -/
theorem maskHead_pssDB (s psLen : Nat) (salt : Bytes) (hs : s < 8) :
    maskHead ((0xff : UInt8) >>> UInt8.ofNat s) (pssDB psLen salt) = pssDB psLen salt := by
  cases psLen with
  | zero => simp [pssDB, maskHead, one_and_shift s hs]
  | succ n => simp [pssDB, maskHead, List.replicate_succ]

theorem pssDB_findIdx (psLen : Nat) (salt : Bytes) : (pssDB psLen salt).findIdx? (· == 1) = some psLen := by
  induction psLen with
  | zero => simp [pssDB, List.findIdx?_cons]
  | succ n ih =>
    simp only [pssDB] at ih ⊢
    simp [List.replicate_succ, List.findIdx?_cons, ih]

theorem pssDB_take (psLen : Nat) (salt : Bytes) : (pssDB psLen salt).take psLen = List.replicate psLen 0 := by
  simp [pssDB]

theorem pssDB_drop (psLen : Nat) (salt : Bytes) : (pssDB psLen salt).drop psLen = 1 :: salt := by
  simp [pssDB]

theorem pssDB_salt (psLen : Nat) (salt : Bytes) :
    (pssDB psLen salt).drop ((pssDB psLen salt).length - salt.length) = salt := by
  rw [pssDB_length, show psLen + salt.length + 1 - salt.length = psLen + 1 by omega]
  simp [pssDB, List.drop_append]

/-- the encoded message `emsaPSSEncode` builds (when its two guards pass) -/
def pssEM (h : HashAlg) (mHash : Bytes) (emBits : Nat) (salt : Bytes) : Bytes :=
  let emLen := (emBits + 7) / 8
  let hh := h.hash (zeros8 ++ mHash ++ salt)
  maskHead (topMask emLen emBits) (mgf1XOR h (pssDB (emLen - salt.length - h.outSize - 2) salt) hh) ++ hh ++ [0xbc]

theorem emsaPSSEncode_ok_iff (h : HashAlg) (mHash : Bytes) (emBits : Nat) (salt em : Bytes) :
    emsaPSSEncode h mHash emBits salt = .ok em ↔
      mHash.length = h.outSize ∧ h.outSize + salt.length + 2 ≤ (emBits + 7) / 8 ∧ em = pssEM h mHash emBits salt := by
  unfold emsaPSSEncode pssEM pssDB
  simp only
  split
  · next h1 => simp [h1]
  · next h1 =>
    split
    · next h2 => simp; intro _ h3; omega
    · next h2 =>
      have h1' : mHash.length = h.outSize := by simpa using h1
      have h2' : h.outSize + salt.length + 2 ≤ (emBits + 7) / 8 := by omega
      simp only [h1', h2', true_and]
      constructor
      · intro he; exact (Res.ok.inj he).symm
      · intro he; rw [he]

theorem topMask_shift (emBits : Nat) : 8 * ((emBits + 7) / 8) - emBits < 8 := by omega

theorem pssEM_length {h : HashAlg} (hk : HashOk h) (mHash : Bytes) (emBits : Nat) (salt : Bytes)
    (h2 : h.outSize + salt.length + 2 ≤ (emBits + 7) / 8) : (pssEM h mHash emBits salt).length = (emBits + 7) / 8 := by
  simp only [pssEM, List.length_append, maskHead_length, mgf1XOR_length hk, pssDB_length, hk.len, List.length_singleton]
  omega

theorem pssDB_drop_succ (psLen : Nat) (salt : Bytes) : (pssDB psLen salt).drop (psLen + 1) = salt := by
  induction psLen with
  | zero => simp [pssDB]
  | succ n ih => simpa [pssDB, List.replicate_succ] using ih

/-- what `emsaPSSVerify` does once the masked DB, the hash and the trailer have been split off and the DB unmasked:
    parametrised by the recovered pieces. -/
theorem emsaPSSVerify_parts (h : HashAlg) (mHash em : Bytes) (emBits : Nat) (sLen0 : Int)
    (masked hh salt : Bytes) (x : UInt8) (mrest : Bytes)
    (hem : em = masked ++ hh ++ [0xbc])
    (hmasked : masked = (x &&& topMask ((emBits + 7) / 8) emBits) :: mrest)
    (hhl : hh.length = h.outSize) (hmh : mHash.length = h.outSize)
    (hbound : h.outSize + salt.length + 2 ≤ (emBits + 7) / 8)
    (hml : masked.length = (emBits + 7) / 8 - h.outSize - 1)
    (hdb : maskHead (topMask ((emBits + 7) / 8) emBits) (mgf1XOR h masked hh)
        = pssDB ((emBits + 7) / 8 - salt.length - h.outSize - 2) salt)
    (hhash : h.hash (zeros8 ++ mHash ++ salt) = hh)
    (hs : sLen0 = salt.length ∨ sLen0 = 0 ∨ (sLen0 = -1 ∧ salt.length = h.outSize)) :
    emsaPSSVerify h mHash em emBits sLen0 = .ok () := by
  have hlen : em.length = (emBits + 7) / 8 := by
    rw [hem]; simp only [List.length_append, hml, hhl, List.length_singleton]; omega
  have hlast : em.getLast? = some 0xbc := by rw [hem]; simp
  have htake : em.take ((emBits + 7) / 8 - h.outSize - 1) = masked := by
    rw [hem, List.append_assoc, ← hml, List.take_left']
    rfl
  have hdrop : (em.drop ((emBits + 7) / 8 - h.outSize - 1)).take h.outSize = hh := by
    rw [hem, List.append_assoc, ← hml, List.drop_left', ← hhl, List.take_left']
    · rfl
    · rfl
  unfold emsaPSSVerify
  simp only [hlen, htake, hdrop]
  rw [hdb]
  obtain ⟨S, hSdef⟩ : ∃ S : Int, S = (if sLen0 = -1 then (h.outSize : Int) else sLen0) := ⟨_, rfl⟩
  rw [← hSdef]
  have hS : S = salt.length ∨ S = 0 := by
    rcases hs with hs | hs | ⟨hs, hs'⟩
    · left; rw [hSdef, if_neg (by omega), hs]
    · right; rw [hSdef, if_neg (by omega), hs]
    · left; rw [hSdef, if_pos hs, hs']
  have hc1 : ¬ ((((emBits + 7) / 8 : Nat) : Int) < (h.outSize : Int) + S + 2) := by
    rcases hS with h | h <;> rw [h] <;> omega
  have hc2 : ¬ ((emBits + 7) / 8 < h.outSize + 2) := by omega
  have hps : (emBits + 7) / 8 - h.outSize - salt.length - 2 = (emBits + 7) / 8 - salt.length - h.outSize - 2 := by omega
  rw [if_neg (by simp), if_neg (by simp [hmh]), if_neg hc1, if_neg hc2, if_neg (by simp [hlast])]
  subst hem; subst hmasked
  simp only [List.cons_append, u8_and_not]
  by_cases h0 : S = 0
  · simp only [if_pos h0, pssDB_findIdx, pssDB_length]
    rw [show (emBits + 7) / 8 - salt.length - h.outSize - 2 + salt.length + 1
          - ((emBits + 7) / 8 - salt.length - h.outSize - 2) - 1 = salt.length by omega]
    simp only [hps, pssDB_take, pssDB_drop]
    rw [show (emBits + 7) / 8 - salt.length - h.outSize - 2 + salt.length + 1 - salt.length
          = (emBits + 7) / 8 - salt.length - h.outSize - 2 + 1 by omega]
    simp only [← hhash, pssDB_drop_succ, List.append_assoc]
    simp
  · have hS' : S = salt.length := by rcases hS with h | h; exact h; exact absurd h h0
    have hS'' : ¬ (S < 0) := by omega
    rw [if_neg h0, if_neg hS'']
    simp only [hS', Int.toNat_natCast, hps, pssDB_take, pssDB_drop, pssDB_salt]
    simp [← hhash]

/-- `emsaPSSVerify` accepts what `emsaPSSEncode` builds — for the salt length used, for `PSSSaltLengthAuto` (0) and,
    when the salt has the length of the hash, for `PSSSaltLengthEqualsHash` (-1). -/
theorem emsaPSSVerify_pssEM {h : HashAlg} (hk : HashOk h) (mHash salt : Bytes) (emBits : Nat) (sLen0 : Int)
    (hmh : mHash.length = h.outSize) (hbound : h.outSize + salt.length + 2 ≤ (emBits + 7) / 8)
    (hs : sLen0 = salt.length ∨ sLen0 = 0 ∨ (sLen0 = -1 ∧ salt.length = h.outSize)) :
    emsaPSSVerify h mHash (pssEM h mHash emBits salt) emBits sLen0 = .ok () := by
  have hxl := mgf1XOR_length hk (pssDB ((emBits + 7) / 8 - salt.length - h.outSize - 2) salt)
    (h.hash (zeros8 ++ mHash ++ salt))
  have hcancel := maskHead_mgf1XOR_cancel hk (topMask ((emBits + 7) / 8) emBits)
    (pssDB ((emBits + 7) / 8 - salt.length - h.outSize - 2) salt) (h.hash (zeros8 ++ mHash ++ salt))
  cases hX : mgf1XOR h (pssDB ((emBits + 7) / 8 - salt.length - h.outSize - 2) salt)
      (h.hash (zeros8 ++ mHash ++ salt)) with
  | nil => rw [hX, pssDB_length] at hxl; simp at hxl
  | cons x r =>
    rw [hX] at hxl hcancel
    refine emsaPSSVerify_parts h mHash _ emBits sLen0 _ _ salt x r rfl ?_ (hk.len _) hmh hbound ?_ ?_ rfl hs
    · rw [hX]; rfl
    · rw [hX, maskHead_length, hxl, pssDB_length]; omega
    · rw [hX, hcancel]
      exact maskHead_pssDB _ _ _ (topMask_shift emBits)

theorem u8_and_of_and_not {x m : UInt8} (h : x &&& ~~~m = 0) : x &&& m = x := by
  have h' := congrArg UInt8.toBitVec h
  apply UInt8.eq_of_toBitVec_eq
  simp only [UInt8.toBitVec_and, UInt8.toBitVec_not, UInt8.toBitVec_zero] at h' ⊢
  ext i hi
  have hb := congrArg (fun v : BitVec 8 => v[i]) h'
  simp only [BitVec.getElem_and, BitVec.getElem_not, BitVec.getElem_zero] at hb ⊢
  revert hb
  cases x.toBitVec[i] <;> cases m.toBitVec[i] <;> simp

theorem eq_dropLast_append_of_getLast? {l : Bytes} {a : UInt8} (h : l.getLast? = some a) : l = l.dropLast ++ [a] := by
  induction l with
  | nil => simp at h
  | cons x xs ih =>
    cases xs with
    | nil => simp at h; simp [h]
    | cons y ys =>
      have : (y :: ys).getLast? = some a := by simpa [List.getLast?_cons_cons] using h
      have := ih this
      simp only [List.dropLast_cons_cons, List.cons_append]
      rw [← this]

/-- a data block with `psLen` zero octets, then 01, is `PS ‖ 01 ‖ salt` -/
theorem pssDB_of_checks (db : Bytes) (psLen sLen : Nat) (hl : db.length = psLen + sLen + 1)
    (h1 : (db.take psLen).any (· != 0) = false) (h2 : (db.drop psLen).head? = some 1) :
    db = pssDB psLen (db.drop (db.length - sLen)) ∧ (db.drop (db.length - sLen)).length = sLen := by
  have ht : db.take psLen = List.replicate psLen 0 := by
    rw [List.eq_replicate_iff]
    refine ⟨by rw [List.length_take]; omega, ?_⟩
    intro b hb
    have := (List.any_eq_false.1 h1) b hb
    simpa using this
  have hd : db.drop psLen = 1 :: db.drop (psLen + 1) := by
    cases hdd : db.drop psLen with
    | nil => rw [hdd] at h2; simp at h2
    | cons y ys =>
      rw [hdd] at h2
      simp at h2
      subst h2
      congr 1
      have : db.drop (psLen + 1) = (db.drop psLen).drop 1 := by rw [List.drop_drop]
      rw [this, hdd]; rfl
  have hidx : db.length - sLen = psLen + 1 := by omega
  refine ⟨?_, by rw [List.length_drop]; omega⟩
  rw [hidx]
  unfold pssDB
  rw [← ht, ← hd, List.take_append_drop]

/-- converse of `emsaPSSVerify_pssEM`: everything `emsaPSSVerify` accepts is an `emsaPSSEncode` output for some salt
    (of the requested length, unless the length is auto-detected) -/
theorem emsaPSSVerify_ok_inv {h : HashAlg} (hk : HashOk h) {mHash em : Bytes} {emBits : Nat} {sl : Int}
    (hv : emsaPSSVerify h mHash em emBits sl = .ok ()) :
    ∃ salt, em = pssEM h mHash emBits salt ∧ mHash.length = h.outSize ∧
      h.outSize + salt.length + 2 ≤ (emBits + 7) / 8 ∧
      (sl = 0 ∨ sl = salt.length ∨ (sl = -1 ∧ salt.length = h.outSize)) := by
  unfold emsaPSSVerify at hv
  dsimp only at hv
  obtain ⟨S, hSdef⟩ : ∃ S : Int, S = (if sl = -1 then (h.outSize : Int) else sl) := ⟨_, rfl⟩
  rw [← hSdef] at hv
  by_cases c1 : (emBits + 7) / 8 ≠ em.length
  · rw [if_pos c1] at hv; contradiction
  rw [if_neg c1] at hv
  by_cases c2 : h.outSize ≠ mHash.length
  · rw [if_pos c2] at hv; contradiction
  rw [if_neg c2] at hv
  by_cases c3 : (((emBits + 7) / 8 : Nat) : Int) < (h.outSize : Int) + S + 2
  · rw [if_pos c3] at hv; contradiction
  rw [if_neg c3] at hv
  by_cases c4 : (emBits + 7) / 8 < h.outSize + 2
  · rw [if_pos c4] at hv; contradiction
  rw [if_neg c4] at hv
  by_cases c5 : em.getLast? ≠ some 0xbc
  · rw [if_pos c5] at hv; contradiction
  rw [if_neg c5] at hv
  have c1' : em.length = (emBits + 7) / 8 := by omega
  have c2' : mHash.length = h.outSize := by omega
  have c5' : em.getLast? = some 0xbc := by simpa using c5
  -- split em
  have hem := eq_dropLast_append_of_getLast? c5'
  obtain ⟨body, hbody⟩ : ∃ body, body = em.dropLast := ⟨_, rfl⟩
  rw [← hbody] at hem
  have hbl : body.length = (emBits + 7) / 8 - 1 := by rw [hbody, List.length_dropLast, c1']
  obtain ⟨a, ha⟩ : ∃ a, a = (emBits + 7) / 8 - h.outSize - 1 := ⟨_, rfl⟩
  rw [← ha] at hv
  have htake : em.take a = body.take a := by
    rw [hem, List.take_append_of_le_length (by omega)]
  have hdrop : (em.drop a).take h.outSize = body.drop a := by
    rw [hem, List.drop_append_of_le_length (by omega)]
    have : (body.drop a).length = h.outSize := by rw [List.length_drop]; omega
    rw [← this, List.take_left']
    rfl
  rw [htake, hdrop] at hv
  obtain ⟨masked, hmasked⟩ : ∃ m, m = body.take a := ⟨_, rfl⟩
  obtain ⟨hh, hhh⟩ : ∃ m, m = body.drop a := ⟨_, rfl⟩
  rw [← hmasked, ← hhh] at hv
  have hml : masked.length = a := by rw [hmasked, List.length_take]; omega
  have hhl : hh.length = h.outSize := by rw [hhh, List.length_drop]; omega
  have hbody' : body = masked ++ hh := by rw [hmasked, hhh, List.take_append_drop]
  -- the top bits
  cases hmc : masked with
  | nil => rw [hmc] at hml; simp at hml; omega
  | cons x mrest =>
    have hem' : em = x :: (mrest ++ hh ++ [0xbc]) := by rw [hem, hbody', hmc]; simp
    rw [hem'] at hv
    dsimp only at hv
    by_cases c6 : (x &&& ~~~topMask ((emBits + 7) / 8) emBits != 0) = true
    · rw [if_pos c6] at hv; contradiction
    rw [if_neg c6] at hv
    have hx : x &&& topMask ((emBits + 7) / 8) emBits = x := u8_and_of_and_not (by simpa using c6)
    obtain ⟨db, hdb⟩ : ∃ db, db = maskHead (topMask ((emBits + 7) / 8) emBits) (mgf1XOR h masked hh) := ⟨_, rfl⟩
    rw [← hdb] at hv
    have hdbl : db.length = a := by rw [hdb, maskHead_length, mgf1XOR_length hk, hml]
    -- finish, given the salt length the verifier settled on
    have fin : ∀ sLen : Nat, sLen + h.outSize + 2 ≤ (emBits + 7) / 8 →
        (sl = 0 ∨ sl = (sLen : Int) ∨ (sl = -1 ∧ sLen = h.outSize)) →
        (if ((db.take ((emBits + 7) / 8 - h.outSize - sLen - 2)).any (· != 0)) = true then Res.err
         else if (db.drop ((emBits + 7) / 8 - h.outSize - sLen - 2)).head? ≠ some 1 then Res.err
         else if h.hash (zeros8 ++ mHash ++ db.drop (db.length - sLen)) = hh then Res.ok () else Res.err) = Res.ok () →
        ∃ salt, em = pssEM h mHash emBits salt ∧ mHash.length = h.outSize ∧
          h.outSize + salt.length + 2 ≤ (emBits + 7) / 8 ∧
          (sl = 0 ∨ sl = salt.length ∨ (sl = -1 ∧ salt.length = h.outSize)) := by
      intro sLen hb hmode ht
      by_cases d1 : ((db.take ((emBits + 7) / 8 - h.outSize - sLen - 2)).any (· != 0)) = true
      · rw [if_pos d1] at ht; contradiction
      rw [if_neg d1] at ht
      by_cases d2 : (db.drop ((emBits + 7) / 8 - h.outSize - sLen - 2)).head? ≠ some 1
      · rw [if_pos d2] at ht; contradiction
      rw [if_neg d2] at ht
      by_cases d3 : h.hash (zeros8 ++ mHash ++ db.drop (db.length - sLen)) = hh
      · obtain ⟨e1, e2⟩ := pssDB_of_checks db ((emBits + 7) / 8 - h.outSize - sLen - 2) sLen (by omega)
          (by simpa using d1) (by simpa using d2)
        refine ⟨db.drop (db.length - sLen), ?_, c2', by rw [e2]; omega, by rw [e2]; exact hmode⟩
        -- the encoder rebuilds em
        unfold pssEM
        dsimp only
        rw [e2, d3, show (emBits + 7) / 8 - sLen - h.outSize - 2 = (emBits + 7) / 8 - h.outSize - sLen - 2 by omega,
          ← e1, hdb, maskHead_mgf1XOR_cancel hk, hem, hbody']
        congr 2
        rw [hmc, maskHead, hx]
      · rw [if_neg d3] at ht; contradiction
    by_cases hS0 : S = 0
    · rw [if_pos hS0] at hv
      cases hfi : db.findIdx? (· == 1) with
      | none => rw [hfi] at hv; contradiction
      | some psLen =>
        rw [hfi] at hv
        dsimp only at hv
        obtain ⟨hlt, _, _⟩ := List.findIdx?_eq_some_iff_getElem.1 hfi
        have hsl0 : sl = 0 := by
          by_cases hm : sl = -1
          · rw [hSdef, if_pos hm] at hS0; have := hk.pos; omega
          · rw [hSdef, if_neg hm] at hS0; exact hS0
        exact fin (db.length - psLen - 1) (by omega) (Or.inl hsl0) hv
    · rw [if_neg hS0] at hv
      by_cases hSn : S < 0
      · rw [if_pos hSn] at hv; contradiction
      rw [if_neg hSn] at hv
      dsimp only at hv
      have hmode : sl = 0 ∨ sl = ((S.toNat : Nat) : Int) ∨ (sl = -1 ∧ S.toNat = h.outSize) := by
        by_cases hm : sl = -1
        · right; right; rw [hSdef, if_pos hm]; exact ⟨hm, by simp⟩
        · right; left; rw [hSdef, if_neg hm] at hSn ⊢; omega
      exact fin S.toNat (by omega) hmode hv

/-- `emsaPSSVerify` cannot panic for the salt lengths `VerifyPSS` lets through (`≥ -1`): the two index expressions the
    model marks as panics are guarded by the length check -/
theorem emsaPSSVerify_no_panic (h : HashAlg) (mHash em : Bytes) (emBits : Nat) (sl : Int) (hsl : -1 ≤ sl) :
    emsaPSSVerify h mHash em emBits sl ≠ .panic := by
  unfold emsaPSSVerify
  dsimp only
  obtain ⟨S, hSdef⟩ : ∃ S : Int, S = (if sl = -1 then (h.outSize : Int) else sl) := ⟨_, rfl⟩
  rw [← hSdef]
  have hS : 0 ≤ S := by rw [hSdef]; split <;> omega
  by_cases c1 : (emBits + 7) / 8 ≠ em.length
  · rw [if_pos c1]; simp
  rw [if_neg c1]
  by_cases c2 : h.outSize ≠ mHash.length
  · rw [if_pos c2]; simp
  rw [if_neg c2]
  by_cases c3 : (((emBits + 7) / 8 : Nat) : Int) < (h.outSize : Int) + S + 2
  · rw [if_pos c3]; simp
  rw [if_neg c3, if_neg (by omega)]
  by_cases c5 : em.getLast? ≠ some 0xbc
  · rw [if_pos c5]; simp
  rw [if_neg c5]
  cases em with
  | nil => simp at c5
  | cons e0 erest =>
  dsimp only
  by_cases c6 : (e0 &&& ~~~topMask ((emBits + 7) / 8) emBits != 0) = true
  · rw [if_pos c6]; simp
  · rw [if_neg c6]
    generalize maskHead (topMask ((emBits + 7) / 8) emBits)
      (mgf1XOR h ((e0 :: erest).take ((emBits + 7) / 8 - h.outSize - 1))
        (((e0 :: erest).drop ((emBits + 7) / 8 - h.outSize - 1)).take h.outSize)) = db
    have tail : ∀ sLen : Nat,
        (if ((db.take ((emBits + 7) / 8 - h.outSize - sLen - 2)).any (· != 0)) = true then (Res.err : Res Unit)
         else if (db.drop ((emBits + 7) / 8 - h.outSize - sLen - 2)).head? ≠ some 1 then Res.err
         else if h.hash (zeros8 ++ mHash ++ db.drop (db.length - sLen))
            = ((e0 :: erest).drop ((emBits + 7) / 8 - h.outSize - 1)).take h.outSize then Res.ok () else Res.err) ≠ Res.panic := by
      intro sLen
      split
      · simp
      · split
        · simp
        · split <;> simp
    by_cases hS0 : S = 0
    · rw [if_pos hS0]
      cases db.findIdx? (· == 1) with
      | none => simp
      | some psLen => exact tail _
    · rw [if_neg hS0, if_neg (by omega)]
      exact tail _

end ZV.C23
