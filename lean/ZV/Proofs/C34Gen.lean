import ZV.Generated.C34
/-!
  Checkers over the T1 facts of C34 (`ZV.C34.Gen`: per function of package tls the source-ordered list of
  Lock / defer Unlock / atomic / call events).  All are total structural functions so that the theorems of
  ZV.Props.C34 are closed by `decide` over the WHOLE generated table (the table is the quantifier).
-/
namespace ZV.C34.Gen

/-- `.lock m` is always immediately followed by `defer ….Unlock()` of the same mutex; no other Unlock exists. -/
def balanced : List Ev → Bool
  | [] => true
  | .lock m :: .deferUnlock m' :: rest => m == m' && balanced rest
  | .lock _ :: _ => false
  | .unlock _ :: _ => false
  | .deferUnlock _ :: _ => false
  | _ :: rest => balanced rest

/-- events paired with the mutexes held when they execute (exact when `balanced`: a lock is held to the end) -/
def sites : List Nat → List Ev → List (List Nat × Ev)
  | _, [] => []
  | H, e :: r => (H, e) :: sites (match e with | .lock m => m :: H | .unlock m => H.erase m | _ => H) r

def enumFrom {α} : Nat → List α → List (Nat × α)
  | _, [] => []
  | n, a :: r => (n, a) :: enumFrom (n + 1) r

def lookup {α} : List α → Nat → Option α
  | [], _ => none
  | a :: _, 0 => some a
  | _ :: r, n + 1 => lookup r n

def acqOf (g : Nat) : List Nat := match lookup acq g with | some l => l | none => [0, 1, 2]

def subset (a b : List Nat) : Bool := a.all (fun x => b.contains x)

/-- the `acq` certificate is closed: own locks and the callees' sets are contained -/
def acqClosed : Bool :=
  (enumFrom 0 funcs).all fun (f, row) => row.all fun e =>
    match e with
    | .lock m => (acqOf f).contains m
    | .call g => subset (acqOf g) (acqOf f)
    | _ => true

/-- the mutexes an event may acquire -/
def gains : Ev → List Nat
  | .lock m => [m]
  | .call g => acqOf g
  | _ => []

/-- lock-order edges (function, held, acquired) that do NOT go upwards in handshakeMutex < in < out -/
def badEdges : List (Nat × Nat × Nat) :=
  (enumFrom 0 funcs).flatMap fun (f, row) =>
    (sites [] row).flatMap fun (H, e) =>
      H.flatMap fun h => ((gains e).filter fun m => !(Nat.blt h m)).map fun m => (f, h, m)

/-- the `underHM` certificate: no exported function, and every call site holds handshakeMutex or lies in the set -/
def underHMClosed : Bool :=
  underHM.all (fun f => !(exported.contains f)) &&
  (enumFrom 0 funcs).all fun (g, row) => (sites [] row).all fun (H, e) =>
    match e with
    | .call f => !(underHM.contains f) || H.contains 0 || underHM.contains g
    | _ => true

/-- every access to handshakeStatus other than an atomic load: (function, value) in table order -/
def flagStores : List (Nat × Nat) :=
  (enumFrom 0 funcs).flatMap fun (f, row) => row.filterMap fun e =>
    match e with | .store 0 k => some (f, k) | _ => none

/-- every store to handshakeStatus happens with handshakeMutex held (locally, or by every caller) -/
def storesUnderHM : Bool :=
  (enumFrom 0 funcs).all fun (f, row) => (sites [] row).all fun (H, e) =>
    match e with
    | .store 0 _ => H.contains 0 || underHM.contains f
    | _ => true

def isFlushOrCallOrLock : Ev → Bool
  | .flush | .call _ | .lock _ => true
  | _ => false

/-- after the first `Store 1`: no flush, no call, no lock; before it at least one flush; ends with `return nil` -/
def storeLast : List Ev → Bool → Bool
  | [], _ => true
  | .store 0 1 :: r, seenFlush => seenFlush && !(r.any isFlushOrCallOrLock) && r.contains .retNil
  | .flush :: r, _ => storeLast r true
  | _ :: r, s => storeLast r s

def storeAfterFinalFlush : Bool :=
  funcs.all fun row => storeLast row false

def rowOf (f : Nat) : List Ev := match lookup funcs f with | some r => r | none => []

end ZV.C34.Gen
