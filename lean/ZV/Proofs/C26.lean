import ZV.Model.C26
/-! helper lemmas for `ZV.Props.C26` -/
namespace ZV.C26
open RFC

/-! ### P_hash -/

theorem P_hash_succ (hmac : Hmac) (secret seed : Bytes) (k : Nat) :
    P_hash hmac secret seed (k + 1)
      = P_hash hmac secret seed k ++ hmac secret (A hmac secret seed (k + 1) ++ seed) := by
  simp [P_hash, List.range_succ]

theorem P_hash_length {hmac : Hmac} {L : Nat} (hlen : ∀ k m, (hmac k m).length = L)
    (secret seed : Bytes) (k : Nat) : (P_hash hmac secret seed k).length = k * L := by
  induction k with
  | zero => simp [P_hash]
  | succ k ih => rw [P_hash_succ, List.length_append, ih, hlen, Nat.succ_mul]

theorem P_hash_prefix (hmac : Hmac) (secret seed : Bytes) (k d : Nat) :
    ∃ r, P_hash hmac secret seed (k + d) = P_hash hmac secret seed k ++ r := by
  induction d with
  | zero => exact ⟨[], by simp⟩
  | succ d ih =>
    obtain ⟨r, hr⟩ := ih
    refine ⟨r ++ hmac secret (A hmac secret seed (k + d + 1) ++ seed), ?_⟩
    rw [← Nat.add_assoc, P_hash_succ, hr, List.append_assoc]

/-- any two block counts that cover `n` bytes give the same first `n` bytes -/
theorem P_hash_take_eq {hmac : Hmac} {L : Nat} (hlen : ∀ k m, (hmac k m).length = L)
    (secret seed : Bytes) (n k1 k2 : Nat) (h1 : n ≤ k1 * L) (h2 : n ≤ k2 * L) :
    (P_hash hmac secret seed k1).take n = (P_hash hmac secret seed k2).take n := by
  have key : ∀ a d, n ≤ a * L →
      (P_hash hmac secret seed (a + d)).take n = (P_hash hmac secret seed a).take n := by
    intro a d ha
    obtain ⟨r, hr⟩ := P_hash_prefix hmac secret seed a d
    rw [hr, List.take_append_of_le_length]
    rw [P_hash_length hlen]; exact ha
  rcases Nat.le_total k1 k2 with h | h
  · obtain ⟨d, rfl⟩ := Nat.exists_eq_add_of_le h
    exact (key k1 d h1).symm
  · obtain ⟨d, rfl⟩ := Nat.exists_eq_add_of_le h
    exact key k2 d h2

theorem copyAt_length (dst src : Bytes) (j : Nat) (hj : j ≤ dst.length) :
    (copyAt dst j src).length = dst.length := by
  simp [copyAt]; omega

/-- the loop invariant of `pHash`: entering round `i` (0-based) with `a = A(i+1)`, `j = i·L` and the
first `i` blocks already in place, the loop ends with the first `n` bytes of the RFC's `P_hash`. -/
theorem pHashLoop_spec {hmac : Hmac} {L : Nat} (hL : 0 < L) (hlen : ∀ k m, (hmac k m).length = L)
    (secret seed : Bytes) (n : Nat) :
    ∀ (fuel i : Nat) (result : Bytes), n ≤ fuel + i * L → result.length = n →
      result.take (i * L) = (P_hash hmac secret seed i).take n →
      ∀ K, n ≤ K * L →
        pHashLoop (hmac secret) seed fuel (A hmac secret seed (i + 1)) (i * L) result
          = (P_hash hmac secret seed K).take n := by
  intro fuel
  induction fuel with
  | zero =>
    intro i result hf hr hinv K hK
    have hle : n ≤ i * L := by omega
    rw [pHashLoop, ← P_hash_take_eq hlen secret seed n i K hle hK, ← hinv,
      List.take_of_length_le (by omega)]
  | succ fuel ih =>
    intro i result hf hr hinv K hK
    rw [pHashLoop]
    by_cases hj : i * L < result.length
    · rw [if_pos hj]
      simp only [hlen]
      have hsucc : (i + 1) * L = i * L + L := Nat.succ_mul i L
      rw [← hsucc]
      have hPi : (P_hash hmac secret seed i).length = i * L := P_hash_length hlen secret seed i
      have hPtake : (P_hash hmac secret seed i).take n = P_hash hmac secret seed i :=
        List.take_of_length_le (by omega)
      have hAnext : hmac secret (A hmac secret seed (i + 1)) = A hmac secret seed (i + 1 + 1) := rfl
      rw [hAnext]
      apply ih (i + 1) _ (by omega) _ _ K hK
      · rw [copyAt_length _ _ _ (by omega)]; exact hr
      · -- the new block is in place
        rw [P_hash_succ, List.take_append, hPtake, hPi]
        unfold copyAt
        rw [hinv, hPtake, hlen, hr]
        generalize hb : hmac secret (A hmac secret seed (i + 1) ++ seed) = b
        have hbl : b.length = L := by rw [← hb]; exact hlen _ _
        by_cases hc : L ≤ n - i * L
        · rw [List.take_of_length_le (l := b) (by omega)]
          rw [hsucc, List.take_append_of_le_length (by simp [hPi, hbl])]
          rw [List.take_of_length_le (by simp [hPi, hbl])]
        · rw [List.drop_of_length_le (by omega), List.append_nil]
          rw [List.take_of_length_le (by simp [hPi, hbl]; omega)]
    · rw [if_neg hj]
      have hle : n ≤ i * L := by omega
      rw [← P_hash_take_eq hlen secret seed n i K hle hK, ← hinv, List.take_of_length_le (by omega)]


theorem pHash_eq_take {hmac : Hmac} {L : Nat} (hL : 0 < L) (hlen : ∀ k m, (hmac k m).length = L)
    (n : Nat) (secret seed : Bytes) (K : Nat) (hK : n ≤ K * L) :
    pHash hmac n secret seed = (P_hash hmac secret seed K).take n := by
  unfold pHash
  have h := pHashLoop_spec hL hlen secret seed n n 0 (List.replicate n 0) (by omega) (by simp)
    (by simp [P_hash]) K hK
  simpa [A] using h

theorem pHash_length {hmac : Hmac} {L : Nat} (hL : 0 < L) (hlen : ∀ k m, (hmac k m).length = L)
    (n : Nat) (secret seed : Bytes) : (pHash hmac n secret seed).length = n := by
  rw [pHash_eq_take hL hlen n secret seed n (by
    calc n = n * 1 := (Nat.mul_one n).symm
      _ ≤ n * L := Nat.mul_le_mul_left n hL)]
  rw [List.length_take, P_hash_length hlen]
  have : n ≤ n * L := by
    calc n = n * 1 := (Nat.mul_one n).symm
      _ ≤ n * L := Nat.mul_le_mul_left n hL
  omega

/-! ### PRF (TLS 1.0/1.1) -/

theorem split_eq_rfc (secret : Bytes) : splitPreMasterSecret secret = (S1 secret, S2 secret) := by
  unfold splitPreMasterSecret S1 S2 ceilHalf
  congr 2 <;> omega

theorem xorInto_eq_rfc (a b : Bytes) : xorInto a b = RFC.xor a b := by
  unfold xorInto
  induction a generalizing b with
  | nil => cases b <;> simp [RFC.xor]
  | cons x xs ih =>
    cases b with
    | nil => simp [RFC.xor]
    | cons y ys => simp [RFC.xor, ih]

/-! ### key block -/

theorem sliceKeys_segments (p1 p2 p3 p4 p5 p6 : Bytes) (macLen keyLen ivLen : Nat)
    (h1 : p1.length = macLen) (h2 : p2.length = macLen) (h3 : p3.length = keyLen)
    (h4 : p4.length = keyLen) (h5 : p5.length = ivLen) (h6 : p6.length = ivLen) :
    sliceKeys (p1 ++ (p2 ++ (p3 ++ (p4 ++ (p5 ++ p6))))) macLen keyLen ivLen = ⟨p1, p2, p3, p4, p5, p6⟩ := by
  subst h1
  unfold sliceKeys
  simp only [List.take_left', List.drop_left', h2, h3, h4, h5]
  rw [List.take_of_length_le (by omega)]

/-! ### integer encodings -/

theorem ofNat_mod256 (n : Nat) : UInt8.ofNat n = UInt8.ofNat (n % 256) := by
  apply UInt8.toNat_inj.mp
  simp

theorem lenPrefix16_eq_rfc (n : Nat) : lenPrefix16 n = RFC.uint16 n := by
  unfold lenPrefix16 RFC.uint16
  rw [Nat.shiftRight_eq_div_pow, ← ofNat_mod256]

theorem addUint16_eq_rfc (n : Nat) (h : n < 65536) : addUint16 (UInt16.ofNat n) = RFC.uint16 n := by
  unfold addUint16 RFC.uint16
  congr 1
  · apply UInt8.toNat_inj.mp
    simp [Nat.shiftRight_eq_div_pow]
    omega
  · congr 1
    apply UInt8.toNat_inj.mp
    simp

/-! ### HKDF-Expand -/

theorem hkdfBlocks_eq_rfc (hmac : Hmac) (prk info : Bytes) (n i : Nat) :
    hkdfBlocks hmac prk info n (i + 1) (T hmac prk info i)
      = ((List.range n).map (fun k => T hmac prk info (i + k + 1))).flatten := by
  induction n generalizing i with
  | zero => simp [hkdfBlocks]
  | succ n ih =>
    rw [hkdfBlocks, List.range_succ_eq_map]
    have hT : hmac prk (T hmac prk info i ++ info ++ [UInt8.ofNat (i + 1)]) = T hmac prk info (i + 1) := rfl
    simp only [hT, List.map_cons, List.flatten_cons, List.map_map]
    rw [ih (i + 1)]
    congr 2
    apply List.map_congr_left
    intro k _
    simp only [Function.comp]
    congr 1
    omega

theorem hkdfExpandRead_eq_rfc (H : Hash13) (prk info : Bytes) (len : Nat) (h : len ≤ 255 * H.size) :
    hkdfExpandRead H prk info len = some (HKDF_Expand H.hmac H.size prk info len) := by
  unfold hkdfExpandRead HKDF_Expand
  rw [if_neg (by omega)]
  have := hkdfBlocks_eq_rfc H.hmac prk info ((len + H.size - 1) / H.size) 0
  simp only [Nat.zero_add] at this
  have h0 : T H.hmac prk info 0 = [] := rfl
  rw [h0] at this
  rw [this]

theorem hkdfExpandRead_none (H : Hash13) (prk info : Bytes) (len : Nat) (h : 255 * H.size < len) :
    hkdfExpandRead H prk info len = none := by
  unfold hkdfExpandRead
  rw [if_pos h]

end ZV.C26
